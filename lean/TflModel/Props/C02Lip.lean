import TflModel.Props.C02
/-!
# C02 (continuity) — the Lattice output is LIPSCHITZ, hence continuous across cells / simplices

`Props/C02.lean` proves that the hypercube output is the multilinear interpolant and the simplex
output the sorted-simplex interpolant, with continuity only visible through the chord formula
`C02_T2_cell`. Here continuity is an explicit theorem, in its strongest rational form: if `L d`
bounds the absolute difference of kernel values at vertices adjacent along axis `d`
(`AdjBound sizes d K (L d)`), then for ALL pairs of in-range or clipped points (any cells, any
simplex ordering regions, through ties and cell faces)

  `|f x - f x'| ≤ Σ_d L d * |x_d - x'_d|`

for both interpolation schemes (`C02_T6_hypercube_lipschitz`, `C02_T6_simplex_lipschitz`), and the
ε–δ (uniform) continuity statements `C02_T6_hypercube_continuous`, `C02_T6_simplex_continuous`
follow for every kernel (`adjL` is always a valid bound).

Proof: both schemes are linear in the kernel, interpolate the linear kernel `idx ↦ idx_d` to the
coordinate `x_d` itself, and are monotone in `x_d` for kernels monotone along `d`
(`evalRec_mono_axis`, `simplex_cell_mono`: the all-pairs theorems behind `C02_T4_*`). Apply this to
`K + L·idx_d` (non-decreasing along `d`) and `L·idx_d - K` (non-decreasing along `d`): one-axis
Lipschitz bound; telescope over the axes; clipping is 1-Lipschitz.
-/
namespace Tfl.C02
open Tfl Tfl.LatticeEval

/-! ## statement vocabulary -/

/-- `L` bounds `|K(idx + e_d) - K(idx)|` over all pairs of vertices of the box adjacent along `d` -/
def AdjBound (sizes : List Nat) (d : Nat) (K : W) (L : ℚ) : Prop :=
  ∀ idx ∈ allIdx sizes, coord idx d + 1 < sizes.getD d 0 →
    |K (setc idx d (coord idx d + 1)) - K idx| ≤ L

/-- the linear kernel `idx ↦ idx_d` -/
def coordK (d : Nat) : W := fun idx => (coord idx d : ℚ)

/-- a bound that always works: the sum of all absolute adjacent differences along `d` -/
def adjL (sizes : List Nat) (K : W) (d : Nat) : ℚ :=
  rsum ((allIdx sizes).map (fun idx =>
    if coord idx d + 1 < sizes.getD d 0 then |K (setc idx d (coord idx d + 1)) - K idx| else 0))

/-! ## 1-D: the interpolant of `i ↦ i` is the identity on the range -/

theorem sumR_ramp (m : Nat) (x : ℚ) (hx : 0 ≤ x) : sumR m (fun i => ramp i x) = min x m := by
  induction m with
  | zero => simp [min_eq_right hx]
  | succ m ih =>
    rw [sumR_succ, ih]
    have hm : (0 : ℚ) ≤ m := by positivity
    simp only [ramp, min_def, max_def]
    push_cast
    split_ifs <;> linarith

theorem interpHat_id (n : Nat) (x : ℚ) (hn : 1 ≤ n) (hx : 0 ≤ x) (hx' : x ≤ (n : ℚ) - 1) :
    interpHat n (fun i => (i : ℚ)) x = x := by
  rw [interpHat_eq_interpRamp n _ x hn hx hx']
  unfold interpRamp
  have : sumR (n - 1) (fun i => (((i + 1 : Nat) : ℚ) - (i : ℚ)) * ramp i x) = sumR (n - 1) (fun i => ramp i x) := by
    apply sumR_congr; intro i _; push_cast; ring
  rw [this, sumR_ramp _ x hx]
  have : ((n - 1 : Nat) : ℚ) = (n : ℚ) - 1 := by
    obtain ⟨m, rfl⟩ : ∃ m, n = m + 1 := ⟨n - 1, by omega⟩
    simp
  rw [this, min_eq_left hx']
  simp

theorem inRange_size_pos {n : Nat} {xd : ℚ} (h : 0 ≤ xd ∧ xd ≤ (n : ℚ) - 1) : 1 ≤ n := by
  have : (1 : ℚ) ≤ n := by linarith [h.1, h.2]
  exact_mod_cast this

/-- the multilinear interpolant of the linear kernel `idx ↦ idx_d` is the coordinate `x_d` -/
theorem evalRec_coordK : ∀ (sizes : List Nat) (x : List ℚ) (d : Nat), InRange sizes x → d < sizes.length →
    evalRec sizes x (coordK d) = x.getD d 0
  | [], _, _, _, h => by simp at h
  | _ :: _, [], _, h, _ => by simp [InRange] at h
  | n :: ns, xd :: xs, 0, h, _ => by
    simp only [evalRec, List.getD_cons_zero]
    have hn := inRange_size_pos h.1
    rw [interpHat_congr n _ (fun i => (i : ℚ)) xd (fun i _ => by
      have := evalRec_const ns xs (i : ℚ) h.2
      simpa [coordK, coord] using this)]
    exact interpHat_id n xd hn h.1.1 h.1.2
  | n :: ns, xd :: xs, d + 1, h, hd => by
    simp only [evalRec, List.getD_cons_succ]
    have hn := inRange_size_pos h.1
    have ih := evalRec_coordK ns xs d h.2 (by simpa using hd)
    rw [interpHat_congr n _ (fun _ => xs.getD d 0) xd (fun i _ => by
      simp only [coordK, coord, List.getD_cons_succ] at ih ⊢; exact ih)]
    exact interpHat_const n _ xd hn h.1.1 h.1.2

/-! ## kernels `K ± L·idx_d` are monotone along `d` -/

theorem coordK_step {sizes : List Nat} {d : Nat} {idx : Idx} (hi : idx ∈ allIdx sizes)
    (hc : coord idx d + 1 < sizes.getD d 0) :
    coordK d (setc idx d (coord idx d + 1)) = coordK d idx + 1 := by
  have hd : d < sizes.length := by
    by_contra h
    simp [List.getD_eq_getElem?_getD, List.getElem?_eq_none (not_lt.mp h)] at hc
  have hl := ((mem_allIdx_iff sizes idx).mp hi).1
  unfold coordK
  rw [coord_setc, if_pos ⟨rfl, by rw [hl]; exact hd⟩]
  push_cast; ring

theorem monoAx_plus {sizes : List Nat} {d : Nat} {K : W} {L : ℚ} (h : AdjBound sizes d K L) :
    MonoAx sizes d (fun t => K t + L * coordK d t) := by
  intro idx hi hc
  have := abs_le.mp (h idx hi hc)
  simp only
  rw [coordK_step hi hc]
  linarith [this.1]

theorem monoAx_minus {sizes : List Nat} {d : Nat} {K : W} {L : ℚ} (h : AdjBound sizes d K L) :
    MonoAx sizes d (fun t => L * coordK d t + (-1) * K t) := by
  intro idx hi hc
  have := abs_le.mp (h idx hi hc)
  simp only
  rw [coordK_step hi hc]
  linarith [this.2]

/-! ## abstract one-axis Lipschitz bound from linearity + monotonicity -/

theorem inRange_set : ∀ (sizes : List Nat) (y : List ℚ) (d : Nat) (w : ℚ), InRange sizes y →
    (d < sizes.length → 0 ≤ w ∧ w ≤ (sizes.getD d 0 : ℚ) - 1) → InRange sizes (y.set d w)
  | [], [], _, _, _, _ => by simp [InRange]
  | [], _ :: _, _, _, h, _ => by simp [InRange] at h
  | _ :: _, [], _, _, h, _ => by simp [InRange] at h
  | n :: ns, yd :: ys, 0, w, h, hw => by
    simp only [List.set_cons_zero]
    exact ⟨by simpa using hw (by simp), h.2⟩
  | n :: ns, yd :: ys, d + 1, w, h, hw => by
    simp only [List.set_cons_succ]
    exact ⟨h.1, inRange_set ns ys d w h.2 (fun hd => by simpa using hw (by simpa using hd))⟩

/-- `F K y` linear in `K`, `F (idx ↦ idx_d) y = y_d`, monotone in `y_d` for kernels monotone along
`d` ⇒ `|F K y - F K (y.set d w)| ≤ L·|y_d - w|` whenever `L` bounds the adjacent differences of `K`
along `d` -/
theorem axis_lip_abstract (sizes : List Nat) (d : Nat) (F : W → List ℚ → ℚ)
    (hadd : ∀ K K' y, F (fun t => K t + K' t) y = F K y + F K' y)
    (hsmul : ∀ c K y, F (fun t => c * K t) y = c * F K y)
    (hlin : ∀ y, InRange sizes y → F (coordK d) y = y.getD d 0)
    (hmono : ∀ K y w, MonoAx sizes d K → InRange sizes y → InRange sizes (y.set d w) → y.getD d 0 ≤ w →
      F K y ≤ F K (y.set d w))
    (K : W) (L : ℚ) (hK : AdjBound sizes d K L) (hd : d < sizes.length) (y : List ℚ) (w : ℚ)
    (hy : InRange sizes y) (hy' : InRange sizes (y.set d w)) :
    |F K y - F K (y.set d w)| ≤ L * |y.getD d 0 - w| := by
  have hdy : d < y.length := by rw [hy.length_eq]; exact hd
  have hget : (y.set d w).getD d 0 = w := by rw [getD_set']; simp [hdy]
  -- the ordered case
  have key : ∀ (y : List ℚ) (w : ℚ), InRange sizes y → InRange sizes (y.set d w) → d < y.length →
      y.getD d 0 ≤ w → |F K y - F K (y.set d w)| ≤ L * (w - y.getD d 0) := by
    intro y w hy hy' hdy hw
    have hget : (y.set d w).getD d 0 = w := by rw [getD_set']; simp [hdy]
    have e1 : ∀ z, InRange sizes z → F (fun t => K t + L * coordK d t) z = F K z + L * z.getD d 0 := by
      intro z hz; rw [hadd, hsmul, hlin z hz]
    have e2 : ∀ z, InRange sizes z → F (fun t => L * coordK d t + (-1) * K t) z = L * z.getD d 0 - F K z := by
      intro z hz; rw [hadd, hsmul, hsmul, hlin z hz]; ring
    have h1 := hmono _ y w (monoAx_plus hK) hy hy' hw
    have h2 := hmono _ y w (monoAx_minus hK) hy hy' hw
    rw [e1 y hy, e1 _ hy', hget] at h1
    rw [e2 y hy, e2 _ hy', hget] at h2
    rw [abs_le]
    constructor <;> linarith
  rcases le_total (y.getD d 0) w with hw | hw
  · have := key y w hy hy' hdy hw
    have e : |y.getD d 0 - w| = w - y.getD d 0 := by
      rw [abs_sub_comm]; exact abs_of_nonneg (by linarith)
    rw [e]; exact this
  · have hback : (y.set d w).set d (y.getD d 0) = y := by
      rw [List.set_set, set_getD_self]
    have := key (y.set d w) (y.getD d 0) hy' (by rw [hback]; exact hy) (by simpa using hdy)
      (by rw [hget]; exact hw)
    rw [hback, hget, abs_sub_comm] at this
    have e : |y.getD d 0 - w| = y.getD d 0 - w := abs_of_nonneg (by linarith)
    rw [e]; exact this

/-! ## telescoping over the axes -/

theorem getD_ge_length (l : List ℚ) (i : Nat) (h : l.length ≤ i) : l.getD i 0 = 0 := by
  simp [List.getD_eq_getElem?_getD, h]

/-- one-axis Lipschitz bounds for every axis ⇒ the `ℓ¹`-type bound for all pairs of lattice points -/
theorem multi_lip (sizes : List Nat) (f : List ℚ → ℚ) (L : Nat → ℚ)
    (hax : ∀ d, d < sizes.length → ∀ y w, InRange sizes y → InRange sizes (y.set d w) →
      |f y - f (y.set d w)| ≤ L d * |y.getD d 0 - w|) :
    ∀ k, k ≤ sizes.length → ∀ y y', InRange sizes y → InRange sizes y' →
      (∀ i, k ≤ i → y.getD i 0 = y'.getD i 0) →
      |f y - f y'| ≤ sumR k (fun d => L d * |y.getD d 0 - y'.getD d 0|) := by
  intro k
  induction k with
  | zero =>
    intro _ y y' hy hy' hag
    have : y = y' := ext_getD 0 y y' (by rw [hy.length_eq, hy'.length_eq]) (fun i _ => hag i (Nat.zero_le i))
    rw [this]; simp
  | succ k ih =>
    intro hk y y' hy hy' hag
    have hkl : k < sizes.length := hk
    have hky : k < y.length := by rw [hy.length_eq]; exact hkl
    have hb := inRange_getD sizes y' k hy' hkl
    have hy'' : InRange sizes (y.set k (y'.getD k 0)) := inRange_set sizes y k _ hy (fun _ => hb)
    have h1 := hax k hkl y (y'.getD k 0) hy hy''
    have h2 := ih (by omega) (y.set k (y'.getD k 0)) y' hy'' hy' (by
      intro i hi
      rw [getD_set']
      by_cases hik : i = k
      · subst hik; rw [if_pos ⟨rfl, hky⟩]
      · rw [if_neg (fun h => hik h.1)]; exact hag i (by omega))
    have h3 : sumR k (fun d => L d * |(y.set k (y'.getD k 0)).getD d 0 - y'.getD d 0|)
        = sumR k (fun d => L d * |y.getD d 0 - y'.getD d 0|) := by
      apply sumR_congr
      intro i hi
      rw [getD_set', if_neg (fun h => by omega)]
    rw [h3] at h2
    rw [sumR_succ]
    have := abs_sub_le (f y) (f (y.set k (y'.getD k 0))) (f y')
    linarith

/-! ## clipping is 1-Lipschitz -/

theorem clipV_lip (a b lo hi : ℚ) : |clipV a lo hi - clipV b lo hi| ≤ |a - b| := by
  have key : ∀ a b : ℚ, a ≤ b → |clipV a lo hi - clipV b lo hi| ≤ |a - b| := by
    intro a b h
    have hm := clipV_mono (lo := lo) (hi := hi) h
    rw [abs_sub_comm, abs_of_nonneg (by linarith), abs_sub_comm a b, abs_of_nonneg (by linarith)]
    simp only [clipV, min_def, max_def]
    split_ifs <;> linarith
  rcases le_total a b with h | h
  · exact key a b h
  · rw [abs_sub_comm, abs_sub_comm a b]; exact key b a h

theorem effPoint_getD_lip (clipOn : Bool) (sizes : List Nat) (x x' : List ℚ) (d : Nat)
    (hl : x.length = sizes.length) (hl' : x'.length = sizes.length) (hd : d < sizes.length) :
    |(effPoint clipOn sizes x).getD d 0 - (effPoint clipOn sizes x').getD d 0| ≤ |x.getD d 0 - x'.getD d 0| := by
  unfold effPoint
  cases clipOn with
  | true =>
    simp only [if_true]
    rw [clipOntoRange_getD sizes x d hl hd, clipOntoRange_getD sizes x' d hl' hd]
    exact clipV_lip _ _ _ _
  | false => simp

/-- a function that is `Σ L_d |·|`-Lipschitz on the lattice range, composed with the code's
"clip or require in-range" step, is `Σ L_d |·|`-Lipschitz in the raw inputs -/
theorem lip_effPoint (sizes : List Nat) (hs2 : ∀ n ∈ sizes, 2 ≤ n) (f : List ℚ → ℚ) (L : Nat → ℚ)
    (hL : ∀ d, d < sizes.length → 0 ≤ L d)
    (hf : ∀ y y', InRange sizes y → InRange sizes y' →
      |f y - f y'| ≤ sumR sizes.length (fun d => L d * |y.getD d 0 - y'.getD d 0|))
    (clipOn : Bool) (x x' : List ℚ) (hx : Defined clipOn sizes x) (hx' : Defined clipOn sizes x') :
    |f (effPoint clipOn sizes x) - f (effPoint clipOn sizes x')|
      ≤ sumR sizes.length (fun d => L d * |x.getD d 0 - x'.getD d 0|) := by
  refine le_trans (hf _ _ (effPoint_inRange hs2 hx) (effPoint_inRange hs2 hx')) ?_
  apply sumR_le
  intro d hd
  exact mul_le_mul_of_nonneg_left (effPoint_getD_lip clipOn sizes x x' d hx.1 hx'.1 hd) (hL d hd)

/-- with all sizes ≥ 2 every axis has an adjacent pair, so a valid bound is non-negative -/
theorem adjBound_nonneg {sizes : List Nat} {d : Nat} {K : W} {L : ℚ} (hs2 : ∀ n ∈ sizes, 2 ≤ n)
    (hd : d < sizes.length) (h : AdjBound sizes d K L) : 0 ≤ L := by
  have hget : ∀ i, i < sizes.length → 2 ≤ sizes.getD i 0 := by
    intro i hi
    have : sizes.getD i 0 = sizes[i] := by simp [List.getD_eq_getElem?_getD, hi]
    rw [this]; exact hs2 _ (List.getElem_mem hi)
  have hc : ∀ i, coord (sizes.map (fun _ => 0)) i = 0 := by
    intro i
    have := getD_map' (fun _ : Nat => (0 : Nat)) sizes i 0
    simpa [coord] using this
  have hz : sizes.map (fun _ => 0) ∈ allIdx sizes := by
    rw [mem_allIdx_iff]
    refine ⟨by simp, fun i hi => ?_⟩
    rw [hc i]; have := hget i hi; omega
  have := h _ hz (by rw [hc d]; have := hget d hd; omega)
  exact le_trans (abs_nonneg _) this

/-! ## hypercube interpolation -/

/-- one axis, multilinear interpolant: two lattice points that differ only in coordinate `d`, any
number of cells apart -/
theorem evalRec_lip_axis (sizes : List Nat) (K : W) (d : Nat) (L : ℚ) (hd : d < sizes.length)
    (hK : AdjBound sizes d K L) (y : List ℚ) (w : ℚ) (hy : InRange sizes y) (hy' : InRange sizes (y.set d w)) :
    |evalRec sizes y K - evalRec sizes (y.set d w) K| ≤ L * |y.getD d 0 - w| := by
  refine axis_lip_abstract sizes d (fun K y => evalRec sizes y K)
    (fun K K' y => evalRec_add sizes y K K') (fun c K y => evalRec_smul sizes y c K)
    (fun y hy => evalRec_coordK sizes y d hy hd) ?_ K L hK hd y w hy hy'
  intro K y w hm hy hy' hw
  have hdy : d < y.length := by rw [hy.length_eq]; exact hd
  have hget : (y.set d w).getD d 0 = w := by rw [getD_set']; simp [hdy]
  have h1 := inRange_getD sizes y d hy hd
  have h2 := inRange_getD sizes (y.set d w) d hy' hd
  rw [hget] at h2
  exact evalRec_mono_axis sizes d y K w hy.length_eq hd hm h1.1 hw h2.2

/-- all axes, multilinear interpolant, all pairs of lattice points -/
theorem evalRec_lip (sizes : List Nat) (K : W) (L : Nat → ℚ)
    (hL : ∀ d, d < sizes.length → AdjBound sizes d K (L d)) (y y' : List ℚ)
    (hy : InRange sizes y) (hy' : InRange sizes y') :
    |evalRec sizes y K - evalRec sizes y' K| ≤ sumR sizes.length (fun d => L d * |y.getD d 0 - y'.getD d 0|) :=
  multi_lip sizes (fun y => evalRec sizes y K) L
    (fun d hd y w hy hy' => evalRec_lip_axis sizes K d (L d) hd (hL d hd) y w hy hy')
    sizes.length le_rfl y y' hy hy'
    (fun i hi => by
      rw [getD_ge_length y i (by rw [hy.length_eq]; exact hi),
        getD_ge_length y' i (by rw [hy'.length_eq]; exact hi)])

private theorem defined_disj' {clipOn : Bool} {sizes : List Nat} {x : List ℚ} {form : InputForm}
    (h : Defined clipOn sizes x) :
    clipOn = true ∨ InRange sizes x ∨ ¬ (allTwo sizes = true ∧ form = .tensor) :=
  h.2.elim Or.inl (fun r => Or.inr (Or.inl r))

/-- T6 (hypercube, Lipschitz ⇒ continuous): if `L d` bounds the absolute difference of kernel values
at vertices adjacent along axis `d`, then for EVERY pair of in-range or clipped inputs — in any two
cells, any distance apart, any input form / code path —
`|f x - f x'| ≤ Σ_d L d · |x_d - x'_d|`. -/
theorem C02_T6_hypercube_lipschitz (form : InputForm) (clipOn : Bool) (sizes : List Nat) (K : W)
    (L : Nat → ℚ) (x x' : List ℚ) (hs : sizes ≠ []) (hs2 : ∀ n ∈ sizes, 2 ≤ n)
    (hL : ∀ d, d < sizes.length → AdjBound sizes d K (L d))
    (hx : Defined clipOn sizes x) (hx' : Defined clipOn sizes x') :
    |hypercubeValue form clipOn sizes (kernelOf sizes K) x
        - hypercubeValue form clipOn sizes (kernelOf sizes K) x'|
      ≤ sumR sizes.length (fun d => L d * |x.getD d 0 - x'.getD d 0|) := by
  rw [C02_T1_hypercube_eq_interp form clipOn sizes K x hs hx.1 (defined_disj' hx),
    C02_T1_hypercube_eq_interp form clipOn sizes K x' hs hx'.1 (defined_disj' hx')]
  exact lip_effPoint sizes hs2 (fun y => evalRec sizes y K) L
    (fun d hd => adjBound_nonneg hs2 hd (hL d hd))
    (fun y y' hy hy' => evalRec_lip sizes K L hL y y' hy hy') clipOn x x' hx hx'

/-- T6 (hypercube, one axis): the two inputs differ only in coordinate `d` (any number of cells
apart): `|f x - f (x with x_d := v)| ≤ L · |x_d - v|`, needing the bound `L` along axis `d` only. -/
theorem C02_T6_hypercube_lipschitz_axis (form : InputForm) (clipOn : Bool) (sizes : List Nat) (K : W)
    (d : Nat) (L : ℚ) (x : List ℚ) (v : ℚ) (hs : sizes ≠ []) (hs2 : ∀ n ∈ sizes, 2 ≤ n)
    (hd : d < sizes.length) (hL : AdjBound sizes d K L)
    (hx : Defined clipOn sizes x) (hx' : Defined clipOn sizes (x.set d v)) :
    |hypercubeValue form clipOn sizes (kernelOf sizes K) x
        - hypercubeValue form clipOn sizes (kernelOf sizes K) (x.set d v)|
      ≤ L * |x.getD d 0 - v| := by
  rw [C02_T1_hypercube_eq_interp form clipOn sizes K x hs hx.1 (defined_disj' hx),
    C02_T1_hypercube_eq_interp form clipOn sizes K _ hs hx'.1 (defined_disj' hx')]
  have hy := effPoint_inRange hs2 hx
  have hy' := effPoint_inRange hs2 hx'
  have hdx : d < x.length := by rw [hx.1]; exact hd
  have hget : (x.set d v).getD d 0 = v := by rw [getD_set']; simp [hdx]
  obtain ⟨w, hset, hw⟩ : ∃ w, effPoint clipOn sizes (x.set d v) = (effPoint clipOn sizes x).set d w ∧
      w = (effPoint clipOn sizes (x.set d v)).getD d 0 := by
    cases clipOn with
    | true =>
      refine ⟨clipV v 0 ((sizes.getD d 0 : ℚ) - 1), ?_, ?_⟩
      · simp only [effPoint, if_true]; exact clipOntoRange_set sizes x d v
      · simp only [effPoint, if_true]
        rw [clipOntoRange_getD sizes _ d hx'.1 hd, hget]
    | false =>
      exact ⟨v, by simp [effPoint], by simp only [effPoint, Bool.false_eq_true, if_false]; exact hget.symm⟩
  rw [hset] at hy' ⊢
  refine le_trans (evalRec_lip_axis sizes K d L hd hL _ w hy hy') ?_
  have := effPoint_getD_lip clipOn sizes x (x.set d v) d hx.1 hx'.1 hd
  rw [← hw, hget] at this
  exact mul_le_mul_of_nonneg_left this (adjBound_nonneg hs2 hd hL)

/-! ## simplex interpolation -/

theorem walkK_add (K K' : W) : ∀ (L : List (ℚ × Nat)) (prev : ℚ) (P : Idx),
    walkK (fun t => K t + K' t) prev P L = walkK K prev P L + walkK K' prev P L
  | [], _, _ => by simp only [walkK]; ring
  | p :: rest, prev, P => by
    simp only [walkK]; rw [walkK_add K K' rest]; ring
theorem walkK_smul (c : ℚ) (K : W) : ∀ (L : List (ℚ × Nat)) (prev : ℚ) (P : Idx),
    walkK (fun t => c * K t) prev P L = c * walkK K prev P L
  | [], _, _ => by simp only [walkK]; ring
  | p :: rest, prev, P => by
    simp only [walkK]; rw [walkK_smul c K rest]; ring

/-- sum of the values sitting at position `d` -/
def atPos (d : Nat) (L : List (ℚ × Nat)) : ℚ := rsum (L.map (fun p => if p.2 = d then p.1 else 0))

/-- the walk on the linear kernel `idx ↦ idx_d`: start coordinate plus the residual of position `d` -/
theorem walkK_coordK (d : Nat) : ∀ (L : List (ℚ × Nat)) (prev : ℚ) (P : Idx), d < P.length →
    walkK (coordK d) prev P L = prev * (coord P d : ℚ) + atPos d L
  | [], _, _, _ => by simp [walkK, atPos, coordK]
  | p :: rest, prev, P, hd => by
    simp only [walkK]
    rw [walkK_coordK d rest p.1 (bump P p.2) (by simpa using hd)]
    simp only [atPos, List.map_cons, rsum_cons, coordK]
    rw [coord_bump]
    by_cases h : p.2 = d
    · rw [if_pos ⟨h.symm, by rw [h]; exact hd⟩, if_pos h, h]; push_cast; ring
    · rw [if_neg (fun hh => h hh.1.symm), if_neg h]; ring

theorem rsum_perm {l l' : List ℚ} (h : l.Perm l') : rsum l = rsum l' := by
  induction h with
  | nil => rfl
  | cons a _ ih => simp [ih]
  | swap a b l => simp only [rsum_cons]; ring
  | trans _ _ ih1 ih2 => rw [ih1, ih2]

theorem atPos_zipIdx (d : Nat) : ∀ (r : List ℚ) (k : Nat),
    atPos d (r.zipIdx k) = if k ≤ d then r.getD (d - k) 0 else 0
  | [], k => by simp [atPos]
  | a :: r, k => by
    have ih := atPos_zipIdx d r (k + 1)
    simp only [atPos, List.zipIdx_cons, List.map_cons, rsum_cons] at ih ⊢
    rw [ih]
    rcases Nat.lt_trichotomy k d with h | h | h
    · obtain ⟨m, hm⟩ : ∃ m, d - k = m + 1 := ⟨d - k - 1, by omega⟩
      have hm' : d - (k + 1) = m := by omega
      rw [if_neg (by omega), if_pos (by omega), if_pos (by omega), hm, hm']
      simp
    · subst h
      rw [if_pos rfl, if_neg (by omega), if_pos le_rfl]; simp
    · rw [if_neg (by omega), if_neg (by omega), if_neg (by omega)]; simp

theorem atPos_sorted (d : Nat) (r : List ℚ) : atPos d (sortDesc r.zipIdx) = r.getD d 0 := by
  have h := atPos_zipIdx d r 0
  simp only [Nat.zero_le, if_true, Nat.sub_zero] at h
  rw [← h]
  exact rsum_perm ((sortDesc_perm r.zipIdx).map _)

/-- the simplex interpolant at the level of the cell the code selects -/
def simplexAt (sizes : List Nat) (K : W) (y : List ℚ) : ℚ :=
  walkK K 1 (cellIdx sizes y) (sortDesc (simplexSplit sizes y).2.zipIdx)

/-- the simplex interpolant of the linear kernel `idx ↦ idx_d` is the coordinate `x_d` -/
theorem simplexAt_coordK (sizes : List Nat) (hs2 : ∀ n ∈ sizes, 2 ≤ n) (d : Nat) (hd : d < sizes.length)
    (y : List ℚ) (hy : InRange sizes y) : simplexAt sizes (coordK d) y = y.getD d 0 := by
  unfold simplexAt
  rw [walkK_coordK d _ 1 _ (by rw [cellIdx_length sizes y hy.length_eq]; exact hd), atPos_sorted,
    simplexSplit_resid_getD sizes y hs2 hy d hd]
  ring

/-- one axis, simplex interpolant -/
theorem simplexAt_lip_axis (sizes : List Nat) (hs2 : ∀ n ∈ sizes, 2 ≤ n) (K : W) (d : Nat) (L : ℚ)
    (hd : d < sizes.length) (hK : AdjBound sizes d K L) (y : List ℚ) (w : ℚ) (hy : InRange sizes y)
    (hy' : InRange sizes (y.set d w)) :
    |simplexAt sizes K y - simplexAt sizes K (y.set d w)| ≤ L * |y.getD d 0 - w| :=
  axis_lip_abstract sizes d (simplexAt sizes)
    (fun K K' _ => walkK_add K K' _ 1 _) (fun c K _ => walkK_smul c K _ 1 _)
    (fun y hy => simplexAt_coordK sizes hs2 d hd y hy)
    (fun K y w hm hy hy' hw => simplex_cell_mono sizes K d hs2 hd hm y w hy hy' hw)
    K L hK hd y w hy hy'

/-- all axes, simplex interpolant, all pairs of lattice points -/
theorem simplexAt_lip (sizes : List Nat) (hs2 : ∀ n ∈ sizes, 2 ≤ n) (K : W) (L : Nat → ℚ)
    (hL : ∀ d, d < sizes.length → AdjBound sizes d K (L d)) (y y' : List ℚ)
    (hy : InRange sizes y) (hy' : InRange sizes y') :
    |simplexAt sizes K y - simplexAt sizes K y'|
      ≤ sumR sizes.length (fun d => L d * |y.getD d 0 - y'.getD d 0|) :=
  multi_lip sizes (simplexAt sizes K) L
    (fun d hd y w hy hy' => simplexAt_lip_axis sizes hs2 K d (L d) hd (hL d hd) y w hy hy')
    sizes.length le_rfl y y' hy hy'
    (fun i hi => by
      rw [getD_ge_length y i (by rw [hy.length_eq]; exact hi),
        getD_ge_length y' i (by rw [hy'.length_eq]; exact hi)])

/-- the simplex entry point returns `simplexAt` of the (clipped) point -/
theorem evalSimplex_eq_simplexAt (clipOn : Bool) (sizes : List Nat) (K : W) (x : List ℚ) (hne : sizes ≠ [])
    (hs2 : ∀ n ∈ sizes, 2 ≤ n) (h : Defined clipOn sizes x) :
    evalSimplex clipOn sizes (kernelOf sizes K) x = .ok (simplexAt sizes K (effPoint clipOn sizes x)) :=
  C02_T3_simplex_index_bridge clipOn sizes K x hne hs2 h

/-- T6 (simplex, Lipschitz ⇒ continuous): if `L d` bounds the absolute difference of kernel values
at vertices adjacent along axis `d`, then for EVERY pair of in-range or clipped inputs — in any two
cells, any two simplices (ordering regions of the sort), through ties and faces — both evaluations
succeed and `|f x - f x'| ≤ Σ_d L d · |x_d - x'_d|`. -/
theorem C02_T6_simplex_lipschitz (clipOn : Bool) (sizes : List Nat) (K : W) (L : Nat → ℚ)
    (x x' : List ℚ) (hne : sizes ≠ []) (hs2 : ∀ n ∈ sizes, 2 ≤ n)
    (hL : ∀ d, d < sizes.length → AdjBound sizes d K (L d))
    (hx : Defined clipOn sizes x) (hx' : Defined clipOn sizes x') :
    ∃ a b, evalSimplex clipOn sizes (kernelOf sizes K) x = .ok a ∧
      evalSimplex clipOn sizes (kernelOf sizes K) x' = .ok b ∧
      |a - b| ≤ sumR sizes.length (fun d => L d * |x.getD d 0 - x'.getD d 0|) :=
  ⟨_, _, evalSimplex_eq_simplexAt clipOn sizes K x hne hs2 hx,
    evalSimplex_eq_simplexAt clipOn sizes K x' hne hs2 hx',
    lip_effPoint sizes hs2 (simplexAt sizes K) L (fun d hd => adjBound_nonneg hs2 hd (hL d hd))
      (fun y y' hy hy' => simplexAt_lip sizes hs2 K L hL y y' hy hy') clipOn x x' hx hx'⟩

/-- T6 (simplex), stated on any two successful results (the form of `C02_simplex_mono_all_pairs`) -/
theorem C02_T6_simplex_lipschitz_all_pairs (clipOn : Bool) (sizes : List Nat) (K : W) (L : Nat → ℚ)
    (x x' : List ℚ) (a b : ℚ) (hne : sizes ≠ []) (hs2 : ∀ n ∈ sizes, 2 ≤ n)
    (hL : ∀ d, d < sizes.length → AdjBound sizes d K (L d))
    (hx : Defined clipOn sizes x) (hx' : Defined clipOn sizes x')
    (ha : evalSimplex clipOn sizes (kernelOf sizes K) x = .ok a)
    (hb : evalSimplex clipOn sizes (kernelOf sizes K) x' = .ok b) :
    |a - b| ≤ sumR sizes.length (fun d => L d * |x.getD d 0 - x'.getD d 0|) := by
  obtain ⟨a', b', ha', hb', hab⟩ := C02_T6_simplex_lipschitz clipOn sizes K L x x' hne hs2 hL hx hx'
  rw [ha'] at ha; rw [hb'] at hb
  cases ha; cases hb
  exact hab

/-- T6 (simplex, one axis): the two inputs differ only in coordinate `d`. -/
theorem C02_T6_simplex_lipschitz_axis (clipOn : Bool) (sizes : List Nat) (K : W) (d : Nat) (L : ℚ)
    (x : List ℚ) (v : ℚ) (hne : sizes ≠ []) (hs2 : ∀ n ∈ sizes, 2 ≤ n) (hd : d < sizes.length)
    (hL : AdjBound sizes d K L) (hx : Defined clipOn sizes x) (hx' : Defined clipOn sizes (x.set d v)) :
    ∃ a b, evalSimplex clipOn sizes (kernelOf sizes K) x = .ok a ∧
      evalSimplex clipOn sizes (kernelOf sizes K) (x.set d v) = .ok b ∧
      |a - b| ≤ L * |x.getD d 0 - v| := by
  refine ⟨_, _, evalSimplex_eq_simplexAt clipOn sizes K x hne hs2 hx,
    evalSimplex_eq_simplexAt clipOn sizes K _ hne hs2 hx', ?_⟩
  have hy := effPoint_inRange hs2 hx
  have hy' := effPoint_inRange hs2 hx'
  have hdx : d < x.length := by rw [hx.1]; exact hd
  have hget : (x.set d v).getD d 0 = v := by rw [getD_set']; simp [hdx]
  obtain ⟨w, hset, hw⟩ : ∃ w, effPoint clipOn sizes (x.set d v) = (effPoint clipOn sizes x).set d w ∧
      w = (effPoint clipOn sizes (x.set d v)).getD d 0 := by
    cases clipOn with
    | true =>
      refine ⟨clipV v 0 ((sizes.getD d 0 : ℚ) - 1), ?_, ?_⟩
      · simp only [effPoint, if_true]; exact clipOntoRange_set sizes x d v
      · simp only [effPoint, if_true]
        rw [clipOntoRange_getD sizes _ d hx'.1 hd, hget]
    | false =>
      exact ⟨v, by simp [effPoint], by simp only [effPoint, Bool.false_eq_true, if_false]; exact hget.symm⟩
  rw [hset] at hy' ⊢
  refine le_trans (simplexAt_lip_axis sizes hs2 K d L hd hL _ w hy hy') ?_
  have := effPoint_getD_lip clipOn sizes x (x.set d v) d hx.1 hx'.1 hd
  rw [← hw, hget] at this
  exact mul_le_mul_of_nonneg_left this (adjBound_nonneg hs2 hd hL)

/-! ## ε–δ continuity (uniform), for every kernel -/

theorem le_rsum_map {α : Type} (l : List α) (f : α → ℚ) (h0 : ∀ b ∈ l, 0 ≤ f b) (a : α) (ha : a ∈ l) :
    f a ≤ rsum (l.map f) := by
  induction l with
  | nil => simp at ha
  | cons b l ih =>
    simp only [List.map_cons, rsum_cons]
    have hnn : 0 ≤ rsum (l.map f) := by
      have := rsum_map_le l (fun _ => (0 : ℚ)) f (fun c hc => h0 c (by simp [hc]))
      rwa [rsum_map_zero] at this
    rcases List.mem_cons.mp ha with rfl | ha
    · linarith
    · have := ih (fun c hc => h0 c (by simp [hc])) ha
      have := h0 b (by simp)
      linarith

/-- every kernel has a finite bound on its adjacent differences: `adjL` -/
theorem adjBound_adjL (sizes : List Nat) (K : W) (d : Nat) : AdjBound sizes d K (adjL sizes K d) :=
  fun idx hi hc => by
    have := le_rsum_map (allIdx sizes) (fun idx =>
      if coord idx d + 1 < sizes.getD d 0 then |K (setc idx d (coord idx d + 1)) - K idx| else 0)
      (fun _ _ => by split_ifs <;> simp) idx hi
    simp only [if_pos hc] at this
    exact this

theorem eps_delta_of_lip (n : Nat) (L : Nat → ℚ) (hL : ∀ d, d < n → 0 ≤ L d) (ε : ℚ) (hε : 0 < ε) :
    ∃ δ : ℚ, 0 < δ ∧ ∀ a : Nat → ℚ, (∀ d, d < n → a d < δ) → sumR n (fun d => L d * a d) < ε := by
  have hS : 0 ≤ sumR n L := by
    have := sumR_le n (fun _ => 0) L hL
    rwa [sumR_const_zero] at this
  have hS1 : 0 < sumR n L + 1 := by linarith
  refine ⟨ε / (sumR n L + 1), div_pos hε hS1, fun a ha => ?_⟩
  have h1 : sumR n (fun d => L d * a d) ≤ sumR n (fun d => (ε / (sumR n L + 1)) * L d) := by
    apply sumR_le
    intro d hd
    have := mul_le_mul_of_nonneg_left (le_of_lt (ha d hd)) (hL d hd)
    linarith
  rw [sumR_mul_left] at h1
  have h2 : ε / (sumR n L + 1) * (sumR n L + 1) = ε := div_mul_cancel₀ ε (ne_of_gt hS1)
  have h3 : 0 < ε / (sumR n L + 1) := div_pos hε hS1
  linarith

/-- T6 (hypercube, ε–δ): the hypercube output is (uniformly) continuous on the set of in-range or
clipped inputs — in particular across cell boundaries. -/
theorem C02_T6_hypercube_continuous (form : InputForm) (clipOn : Bool) (sizes : List Nat) (K : W)
    (hs : sizes ≠ []) (hs2 : ∀ n ∈ sizes, 2 ≤ n) (ε : ℚ) (hε : 0 < ε) :
    ∃ δ : ℚ, 0 < δ ∧ ∀ x x', Defined clipOn sizes x → Defined clipOn sizes x' →
      (∀ d, d < sizes.length → |x.getD d 0 - x'.getD d 0| < δ) →
      |hypercubeValue form clipOn sizes (kernelOf sizes K) x
          - hypercubeValue form clipOn sizes (kernelOf sizes K) x'| < ε := by
  obtain ⟨δ, hδ, h⟩ := eps_delta_of_lip sizes.length (adjL sizes K)
    (fun d hd => adjBound_nonneg hs2 hd (adjBound_adjL sizes K d)) ε hε
  refine ⟨δ, hδ, fun x x' hx hx' hclose => ?_⟩
  exact lt_of_le_of_lt
    (C02_T6_hypercube_lipschitz form clipOn sizes K (adjL sizes K) x x' hs hs2
      (fun d _ => adjBound_adjL sizes K d) hx hx')
    (h (fun d => |x.getD d 0 - x'.getD d 0|) hclose)

/-- T6 (simplex, ε–δ): the simplex output is (uniformly) continuous on the set of in-range or
clipped inputs — across cell boundaries and across the simplices of a cell. -/
theorem C02_T6_simplex_continuous (clipOn : Bool) (sizes : List Nat) (K : W)
    (hne : sizes ≠ []) (hs2 : ∀ n ∈ sizes, 2 ≤ n) (ε : ℚ) (hε : 0 < ε) :
    ∃ δ : ℚ, 0 < δ ∧ ∀ x x', Defined clipOn sizes x → Defined clipOn sizes x' →
      (∀ d, d < sizes.length → |x.getD d 0 - x'.getD d 0| < δ) →
      ∃ a b, evalSimplex clipOn sizes (kernelOf sizes K) x = .ok a ∧
        evalSimplex clipOn sizes (kernelOf sizes K) x' = .ok b ∧ |a - b| < ε := by
  obtain ⟨δ, hδ, h⟩ := eps_delta_of_lip sizes.length (adjL sizes K)
    (fun d hd => adjBound_nonneg hs2 hd (adjBound_adjL sizes K d)) ε hε
  refine ⟨δ, hδ, fun x x' hx hx' hclose => ?_⟩
  obtain ⟨a, b, ha, hb, hab⟩ := C02_T6_simplex_lipschitz clipOn sizes K (adjL sizes K) x x' hne hs2
    (fun d _ => adjBound_adjL sizes K d) hx hx'
  exact ⟨a, b, ha, hb, lt_of_le_of_lt hab (h (fun d => |x.getD d 0 - x'.getD d 0|) hclose)⟩

/-! ## non-vacuity (kernel computation): the 3×2 kernel `Kex`, points in different cells -/

/-- adjacent differences of `Kex = [[0,5],[1,5],[4,7]]`: at most 3 along axis 0, at most 5 along axis 1 -/
def Lex : Nat → ℚ := fun d => if d = 0 then 3 else 5

theorem Kex_adjBound : ∀ d, d < [3, 2].length → AdjBound [3, 2] d Kex (Lex d) := by
  intro d hd
  have : d = 0 ∨ d = 1 := by simp at hd; omega
  rcases this with rfl | rfl <;> (unfold AdjBound; decide +kernel)
-- the bounds are tight (3 is attained along axis 0, and 2 is not a bound)
example : ¬ AdjBound [3, 2] 0 Kex 2 := by unfold AdjBound; decide +kernel
example : adjL [3, 2] Kex 0 = 6 ∧ adjL [3, 2] Kex 1 = 12 := by decide +kernel

-- [1/2, 1/4] lies in cell (0,0), [3/2, 3/4] in cell (1,0); in the simplex scheme they also lie in
-- different simplices (residuals (1/2,1/4): order 0,1; (1/2,3/4): order 1,0)
example : Defined false [3, 2] [1/2, 1/4] ∧ Defined false [3, 2] [3/2, 3/4] :=
  ⟨⟨rfl, Or.inr (by unfold InRange InRange InRange; decide +kernel)⟩,
   ⟨rfl, Or.inr (by unfold InRange InRange InRange; decide +kernel)⟩⟩
example :
    |hypercubeValue .tensor false [3, 2] (kernelOf [3, 2] Kex) [1/2, 1/4]
        - hypercubeValue .tensor false [3, 2] (kernelOf [3, 2] Kex) [3/2, 3/4]|
      ≤ sumR 2 (fun d => Lex d * |([1/2, 1/4] : List ℚ).getD d 0 - ([3/2, 3/4] : List ℚ).getD d 0|) :=
  C02_T6_hypercube_lipschitz .tensor false [3, 2] Kex Lex _ _ (by simp) (by decide) Kex_adjBound
    ⟨rfl, Or.inr (by unfold InRange InRange InRange; decide +kernel)⟩
    ⟨rfl, Or.inr (by unfold InRange InRange InRange; decide +kernel)⟩
-- the numbers: |13/8 - 41/8| = 7/2 ≤ 3·1 + 5·(1/2) = 11/2
example : hypercubeValue .tensor false [3, 2] (kernelOf [3, 2] Kex) [1/2, 1/4] = 13/8 := by decide +kernel
example : hypercubeValue .tensor false [3, 2] (kernelOf [3, 2] Kex) [3/2, 3/4] = 41/8 := by decide +kernel
example : sumR 2 (fun d => Lex d * |([1/2, 1/4] : List ℚ).getD d 0 - ([3/2, 3/4] : List ℚ).getD d 0|) = 11/2 := by
  decide +kernel
-- simplex: |3/2 - 5| = 7/2 ≤ 11/2
example : ∃ a b, evalSimplex false [3, 2] (kernelOf [3, 2] Kex) [1/2, 1/4] = .ok a ∧
    evalSimplex false [3, 2] (kernelOf [3, 2] Kex) [3/2, 3/4] = .ok b ∧
    |a - b| ≤ sumR 2 (fun d => Lex d * |([1/2, 1/4] : List ℚ).getD d 0 - ([3/2, 3/4] : List ℚ).getD d 0|) :=
  C02_T6_simplex_lipschitz false [3, 2] Kex Lex _ _ (by simp) (by decide) Kex_adjBound
    ⟨rfl, Or.inr (by unfold InRange InRange InRange; decide +kernel)⟩
    ⟨rfl, Or.inr (by unfold InRange InRange InRange; decide +kernel)⟩
example : evalSimplex false [3, 2] (kernelOf [3, 2] Kex) [1/2, 1/4] = .ok (3/2) := by decide +kernel
example : evalSimplex false [3, 2] (kernelOf [3, 2] Kex) [3/2, 3/4] = .ok 5 := by decide +kernel
-- clipped inputs far outside the lattice: the bound is in terms of the RAW distance
example :
    |hypercubeValue .list true [3, 2] (kernelOf [3, 2] Kex) [-1, 1/4]
        - hypercubeValue .list true [3, 2] (kernelOf [3, 2] Kex) [7/2, 2]|
      ≤ sumR 2 (fun d => Lex d * |([-1, 1/4] : List ℚ).getD d 0 - ([7/2, 2] : List ℚ).getD d 0|) :=
  C02_T6_hypercube_lipschitz .list true [3, 2] Kex Lex _ _ (by simp) (by decide) Kex_adjBound
    ⟨rfl, Or.inl rfl⟩ ⟨rfl, Or.inl rfl⟩
-- the one-axis bound is sharp: along the edge (1,0)–(2,0) the slope 3 is attained
example : |hypercubeValue .tensor false [3, 2] (kernelOf [3, 2] Kex) [1, 0]
    - hypercubeValue .tensor false [3, 2] (kernelOf [3, 2] Kex) ([1, 0].set 0 2)| = Lex 0 * |(1 : ℚ) - 2| := by
  decide +kernel

end Tfl.C02
