import TflModel.Props.C13
import TflModel.Lemmas.RegRows
import Mathlib.Algebra.Order.Ring.Abs
/-!
# C13, second audit (rows 12 and 33): the clauses stated completely

`Props/C13.lean` states the vanishing sets of the PWL regularizers for `is_cyclic = False` and the
linearity of the lattice regularizers for SCALAR amounts.  This file says exactly what holds in the
remaining cases, and what does not (counter-witness theorems whose numbers are the values returned by the
real code; `harness/props/c13.py` compares them with the real code on every run):

* **cyclic PWL regularizers** (`cyclic`): all three vanish on CONSTANT keypoint outputs, for every kernel
  size and unit count (`pwl_*_const_any`), and — for a positive amount — ONLY there
  (`pwl_*_cyclic_zero_iff`): the wrap-around terms see the jump from the last keypoint back to the first.
  In particular the cyclic Hessian does NOT vanish on non-constant outputs linear in the index
  (closed form `pwl_hessian_cyclic_affine`; witness `(0,1,2) ↦ 6`) and the cyclic wrinkle does not vanish on
  quadratic outputs (witness `(0,1,4,9) ↦ 48`).  The property's clause "Hessian [vanishes] on keypoint outputs
  linear in the index and wrinkle on outputs quadratic in the index" is therefore a statement about the
  NON-cyclic form (`pwl_hessian_affine`, `pwl_wrinkle_quadratic` in `Props/C13.lean`) — which is also what the
  docstrings of `HessianRegularizer` / `WrinkleRegularizer` describe.
* **linearity in per-dimension amounts** (`amounts`): the lattice Laplacian is linear in the amount
  VECTORS (`laplacian_linear`, `laplacian_vector_add`, `laplacian_vector_smul`); the torsion is linear in the
  PAIR weights `l_i * l_j` (`torsion_linear_pairW`), hence for lists homogeneous of degree 2
  (`torsion_vector_smul_sq`) and affine in every single dimension's amount (`torsion_dim_affine_l1/_l2`: the
  pairs through that dimension are linear in it, the others do not depend on it), and NOT additive in the
  vector (`torsion_list_not_additive`: `27 ≠ 3 + 12`).
* **additivity in the two norms**: `reg l1 l2 = reg l1 0 + reg 0 l2` for all five regularizers and scalar or
  list amounts (`laplacian_split`, `torsion_split`, `pwl_split`).
* **negative amounts**: `Amt.Nonneg` is the hypothesis of the non-negativity clause only.  The code accepts
  negative amounts everywhere except `math.sqrt` of a negative scalar torsion amount
  (`torsion_raises_iff`); the documented-sum equality holds for every accepted amount
  (`torsion_eq_documented_rootOk`; the Laplacian equality `laplacian_eq_documented` never had a sign
  hypothesis) and the value can then be negative (`torsion_neg_list_witness`: `-3`, `laplacian_neg_witness`).
* **multi-unit PWL kernels as the code handles them** (`rows`, audit row 33): `pwlReg` is defined column by
  column, which makes `pwl_*_per_unit` hold by unfolding.  `pwlLaplacianRows` / `pwlHessianRows` /
  `pwlWrinkleRows` (Model/Regularizers.lean) follow the code instead: ROW slices of the `(rows, units)` matrix,
  the wrap-around row `-tf.reduce_sum(heights, axis=0, keepdims=True)`, `reduce_sum` over all entries.
  `pwl_*_rows_eq_columns`: for every rectangular kernel they equal the column-shaped model on
  `columns units x`; hence the documented norms (`pwl_*_rows_eq_documented`) and the per-unit sum
  (`pwl_rows_per_unit`) hold for the code-shaped multi-unit computation.  The driver evaluates both shapes.
-/
namespace Tfl.C13
open Tfl Tfl.Reg

/-! ## cyclic — vanishing sets of the PWL regularizers for every `is_cyclic` -/

/-- shape of the hypothesis "the keypoint outputs of every unit are constant" -/
def ColsConst (cols : List (List Rat)) : Prop :=
  ∀ x ∈ cols, ∃ a : Rat, outs x = (List.range x.length).map (fun _ => a)

/-- PWL Laplacian vanishes on constant keypoint outputs, CYCLIC OR NOT, every size / unit count
(generalises `pwl_laplacian_const`). -/
theorem pwl_laplacian_const_any (l1 l2 : Rat) (cyc : Bool) (cols : List (List Rat)) (h : ColsConst cols) :
    pwlLaplacian l1 l2 cyc cols = 0 := by
  apply pwlReg_zero
  intro x hx
  obtain ⟨a, ha⟩ := h x hx
  exact pwlLapTerms_zero cyc (heights_zero_of_outs_const ha)

/-- PWL Hessian vanishes on constant keypoint outputs, cyclic or not. -/
theorem pwl_hessian_const_any (l1 l2 : Rat) (cyc : Bool) (cols : List (List Rat)) (h : ColsConst cols) :
    pwlHessian l1 l2 cyc cols = 0 := by
  apply pwlReg_zero
  intro x hx
  obtain ⟨a, ha⟩ := h x hx
  exact pwlHessTerms_zero cyc (heights_zero_of_outs_const ha)

/-- PWL wrinkle vanishes on constant keypoint outputs, cyclic or not. -/
theorem pwl_wrinkle_const_any (l1 l2 : Rat) (cyc : Bool) (cols : List (List Rat)) (h : ColsConst cols) :
    pwlWrinkle l1 l2 cyc cols = 0 := by
  apply pwlReg_zero
  intro x hx
  obtain ⟨a, ha⟩ := h x hx
  exact pwlWrinkleTerms_zero cyc (heights_zero_of_outs_const ha)

/-- **Counter-witness (value of the real code: 6.0).**  Outputs `(0, 1, 2)` are linear in the index; the
non-cyclic Hessian vanishes, the cyclic one is `6`: the wrap-around second differences
`(out_0 - out_2) - (out_2 - out_1) = -3` and `(out_1 - out_0) - (out_0 - out_2) = 3` do not vanish. -/
theorem pwl_hessian_cyclic_affine_witness :
    outs [0, 1, 1] = [0, 1, 2] ∧ pwlHessian 1 0 false [[0, 1, 1]] = 0 ∧ pwlHessian 1 0 true [[0, 1, 1]] = 6 := by
  decide +kernel

/-- **Counter-witness (value of the real code: 48.0).**  Outputs `(0, 1, 4, 9)` are quadratic in the index;
the non-cyclic wrinkle vanishes, the cyclic one is `48`. -/
theorem pwl_wrinkle_cyclic_quadratic_witness :
    outs [0, 1, 3, 5] = [0, 1, 4, 9] ∧ pwlWrinkle 1 0 false [[0, 1, 3, 5]] = 0 ∧
      pwlWrinkle 1 0 true [[0, 1, 3, 5]] = 48 := by
  decide +kernel

/-- the cyclic Hessian also sees linear outputs through its l2 part, and the cyclic wrinkle linear ones:
`(0,1,2)`: Hessian l2 = `18`, wrinkle l1 = `12` -/
theorem pwl_cyclic_affine_more_witnesses :
    pwlHessian 0 1 true [[0, 1, 1]] = 18 ∧ pwlWrinkle 1 0 true [[0, 1, 1]] = 12 ∧
      pwlWrinkle 1 0 false [[0, 1, 1]] = 0 := by
  decide +kernel

/-! ### closed form of the cyclic Hessian on outputs linear in the index -/

theorem diffs_replicate_append (n : Nat) (b c : Rat) (t : List Rat) :
    diffs (List.replicate (n + 1) b ++ c :: t) = List.replicate n 0 ++ (c - b) :: diffs (c :: t) := by
  induction n with
  | zero => simp [diffs_cons_cons]
  | succ n ih =>
    rw [List.replicate_succ, List.cons_append, List.replicate_succ, List.cons_append, diffs_cons_cons,
      ← List.cons_append, ← List.replicate_succ, ih]
    simp [List.replicate_succ]

theorem rsum_replicate (n : Nat) (b : Rat) : rsum (List.replicate n b) = n * b := by
  induction n with
  | zero => simp [rsum]
  | succ n ih => rw [List.replicate_succ, rsum, ih]; push_cast; ring

theorem sumAbs_append (u v : List Rat) : sumAbs (u ++ v) = sumAbs u + sumAbs v := by
  simp [sumAbs, rsum_append]
theorem sumSq_append (u v : List Rat) : sumSq (u ++ v) = sumSq u + sumSq v := by
  simp [sumSq, rsum_append]
theorem sumAbs_replicate_zero (n : Nat) : sumAbs (List.replicate n 0) = 0 :=
  sumAbs_eq_zero (fun x hx => (List.mem_replicate.mp hx).2)
theorem sumSq_replicate_zero (n : Nat) : sumSq (List.replicate n 0) = 0 :=
  sumSq_eq_zero (fun x hx => (List.mem_replicate.mp hx).2)

/-- the column with bias `a` and `n + 1` equal heights `b` has the outputs `a + b * j`, `j = 0 .. n + 1` -/
theorem outs_affine (a b : Rat) (n : Nat) :
    outs (a :: List.replicate n b) = (List.range (n + 1)).map (fun (j : Nat) => a + b * (j : Rat)) := by
  show cumFrom a (List.replicate n b) = _
  induction n generalizing a with
  | zero => simp [cumFrom]
  | succ n ih =>
    rw [List.replicate_succ, cumFrom, ih, List.range_succ_eq_map (n := n + 1)]
    simp only [List.map_cons, List.map_map, Function.comp_def, Nat.cast_zero, mul_zero, add_zero,
      List.cons.injEq, true_and]
    apply List.map_congr_left
    intro j _
    push_cast; ring

/-- **Cyclic Hessian on outputs linear in the index, closed form.**  A column of `k = n + 2 ≥ 2` rows whose
outputs are `a + b * j` (all heights equal `b`) has the cyclic Hessian `2 k (l1 |b| + l2 k b²)`: the interior
second differences vanish, the two wrap-around ones are `∓ k b`.  It is zero only for `b = 0` (constant
outputs) or zero amounts. -/
theorem pwl_hessian_cyclic_affine (l1 l2 a b : Rat) (n : Nat) :
    pwlHessian l1 l2 true [a :: List.replicate (n + 1) b] =
      2 * ((n : Rat) + 2) * (l1 * Rat.abs b + l2 * ((n : Rat) + 2) * (b * b)) := by
  unfold pwlHessian
  rw [pwlReg_eq]
  have e : pwlHessTerms true (a :: List.replicate (n + 1) b) =
      List.replicate n 0 ++ [-(((n : Rat) + 1) * b) - b, b - -(((n : Rat) + 1) * b)] := by
    simp only [pwlHessTerms, if_true, List.drop_one, List.tail_cons, rsum_replicate]
    rw [List.append_assoc, List.singleton_append, diffs_replicate_append]
    simp [List.replicate_succ, diffs_cons_cons]
  simp only [List.flatMap_cons, List.flatMap_nil, List.append_nil, e, sumAbs_append, sumSq_append,
    sumAbs_replicate_zero, sumSq_replicate_zero, zero_add]
  have h1 : -(((n : Rat) + 1) * b) - b = -(((n : Rat) + 2) * b) := by ring
  have h2 : b - -(((n : Rat) + 1) * b) = ((n : Rat) + 2) * b := by ring
  have hn : (0 : Rat) ≤ (n : Rat) + 2 := by positivity
  simp only [sumAbs, sumSq, List.map_cons, List.map_nil, rsum, h1, h2, Tfl.Poset.ratAbs_eq, abs_neg,
    abs_mul, abs_of_nonneg hn, add_zero]
  ring

/-- … hence, with `l1 > 0` (and `l2 ≥ 0`), it is non-zero for every non-constant linear output sequence. -/
theorem pwl_hessian_cyclic_affine_pos (l1 l2 a b : Rat) (n : Nat) (h1 : 0 < l1) (h2 : 0 ≤ l2) (hb : b ≠ 0) :
    0 < pwlHessian l1 l2 true [a :: List.replicate (n + 1) b] := by
  rw [pwl_hessian_cyclic_affine]
  have hn : (0 : Rat) < (n : Rat) + 2 := by positivity
  have hab : 0 < Rat.abs b := by rw [Tfl.Poset.ratAbs_eq]; exact abs_pos.mpr hb
  have : 0 ≤ l2 * ((n : Rat) + 2) * (b * b) := mul_nonneg (mul_nonneg h2 hn.le) (mul_self_nonneg b)
  have : 0 < l1 * Rat.abs b := mul_pos h1 hab
  positivity

/-! ### the cyclic vanishing set is exactly the constants (one unit, a positive amount) -/

theorem sumAbs_eq_zero_iff {v : List Rat} : sumAbs v = 0 ↔ ∀ t ∈ v, t = 0 := by
  refine ⟨fun h => ?_, sumAbs_eq_zero⟩
  induction v with
  | nil => intro t ht; simp at ht
  | cons x xs ih =>
    have hx : 0 ≤ Rat.abs x := ratAbs_nonneg x
    have hs : 0 ≤ sumAbs xs := sumAbs_nonneg xs
    have e : sumAbs (x :: xs) = Rat.abs x + sumAbs xs := rfl
    rw [e] at h
    have hx0 : Rat.abs x = 0 := by linarith
    have hs0 : sumAbs xs = 0 := by linarith
    intro t ht
    rcases List.mem_cons.mp ht with rfl | ht
    · rw [Tfl.Poset.ratAbs_eq] at hx0; exact abs_eq_zero.mp hx0
    · exact ih hs0 t ht

theorem sumSq_eq_zero_iff {v : List Rat} : sumSq v = 0 ↔ ∀ t ∈ v, t = 0 := by
  refine ⟨fun h => ?_, sumSq_eq_zero⟩
  induction v with
  | nil => intro t ht; simp at ht
  | cons x xs ih =>
    have hx : 0 ≤ x * x := mul_self_nonneg x
    have hs : 0 ≤ sumSq xs := sumSq_nonneg xs
    have e : sumSq (x :: xs) = x * x + sumSq xs := rfl
    rw [e] at h
    have hx0 : x * x = 0 := by linarith
    have hs0 : sumSq xs = 0 := by linarith
    intro t ht
    rcases List.mem_cons.mp ht with rfl | ht
    · exact mul_self_eq_zero.mp hx0
    · exact ih hs0 t ht

/-- a PWL regularizer with non-negative amounts, one of them positive, is zero iff all its terms are -/
theorem pwlReg_eq_zero_iff (terms : List Rat → List Rat) (l1 l2 : Rat) (cols : List (List Rat))
    (h1 : 0 ≤ l1) (h2 : 0 ≤ l2) (hp : 0 < l1 ∨ 0 < l2) :
    pwlReg terms l1 l2 cols = 0 ↔ ∀ x ∈ cols, ∀ t ∈ terms x, t = 0 := by
  refine ⟨fun h => ?_, pwlReg_zero terms l1 l2 cols⟩
  rw [pwlReg_eq] at h
  have a1 := mul_nonneg h1 (sumAbs_nonneg (cols.flatMap terms))
  have a2 := mul_nonneg h2 (sumSq_nonneg (cols.flatMap terms))
  have z1 : l1 * sumAbs (cols.flatMap terms) = 0 := by linarith
  have z2 : l2 * sumSq (cols.flatMap terms) = 0 := by linarith
  have hz : ∀ t ∈ cols.flatMap terms, t = 0 := by
    rcases hp with hp | hp
    · exact sumAbs_eq_zero_iff.mp ((mul_eq_zero.mp z1).resolve_left (ne_of_gt hp))
    · exact sumSq_eq_zero_iff.mp ((mul_eq_zero.mp z2).resolve_left (ne_of_gt hp))
  intro x hx t ht
  exact hz t (List.mem_flatMap.mpr ⟨x, hx, ht⟩)

/-- all differences zero ⇒ every entry equals the first one -/
theorem const_of_diffs_zero (c : Rat) (v : List Rat) (h : ∀ t ∈ diffs (c :: v), t = 0) : ∀ t ∈ v, t = c := by
  induction v generalizing c with
  | nil => intro t ht; simp at ht
  | cons y ys ih =>
    rw [diffs_cons_cons] at h
    have hy : y = c := by have := h (y - c) (by simp); linarith
    intro t ht
    rcases List.mem_cons.mp ht with rfl | ht
    · exact hy
    · rw [← hy]; exact ih y (fun t ht => h t (List.mem_cons_of_mem _ ht)) t ht

theorem rsum_const {v : List Rat} {c : Rat} (h : ∀ t ∈ v, t = c) : rsum v = v.length * c := by
  induction v with
  | nil => simp [rsum]
  | cons y ys ih =>
    rw [rsum, ih (fun t ht => h t (List.mem_cons_of_mem _ ht)), h y (by simp), List.length_cons]
    push_cast; ring

/-- heights `h` with all entries of `h ++ [-(Σ h)]` equal are all zero -/
theorem heights_zero_of_wrap_const {hs : List Rat} {c : Rat} (h : ∀ t ∈ hs ++ [-(rsum hs)], t = c) :
    ∀ t ∈ hs, t = 0 := by
  have hh : ∀ t ∈ hs, t = c := fun t ht => h t (List.mem_append_left _ ht)
  have hw : -(rsum hs) = c := h _ (by simp)
  rw [rsum_const hh] at hw
  have hc : ((hs.length : Rat) + 1) * c = 0 := by linarith
  have hpos : (0 : Rat) < (hs.length : Rat) + 1 := by positivity
  have c0 : c = 0 := (mul_eq_zero.mp hc).resolve_left (ne_of_gt hpos)
  intro t ht; rw [hh t ht, c0]

/-- **Cyclic Laplacian: exact vanishing set.**  With non-negative amounts, one of them positive, the cyclic
PWL Laplacian of a kernel is zero iff all heights of all units are zero, i.e. (`outs_const_of_heights_zero`,
`heights_zero_of_outs_const`) iff the keypoint outputs of every unit are constant. -/
theorem pwl_laplacian_cyclic_zero_iff (l1 l2 : Rat) (cols : List (List Rat))
    (h1 : 0 ≤ l1) (h2 : 0 ≤ l2) (hp : 0 < l1 ∨ 0 < l2) :
    pwlLaplacian l1 l2 true cols = 0 ↔ ∀ x ∈ cols, ∀ t ∈ x.drop 1, t = 0 := by
  unfold pwlLaplacian
  rw [pwlReg_eq_zero_iff _ _ _ _ h1 h2 hp]
  constructor
  · intro h x hx t ht
    exact h x hx t (by simp only [pwlLapTerms, if_true]; exact List.mem_append_left _ ht)
  · intro h x hx
    exact pwlLapTerms_zero true (h x hx)

/-- **Cyclic Hessian: exact vanishing set** = constant outputs (all heights zero); in particular no
non-constant output sequence that is linear in the index is in it. -/
theorem pwl_hessian_cyclic_zero_iff (l1 l2 : Rat) (cols : List (List Rat))
    (h1 : 0 ≤ l1) (h2 : 0 ≤ l2) (hp : 0 < l1 ∨ 0 < l2) (hc : ∀ x ∈ cols, 2 ≤ x.length) :
    pwlHessian l1 l2 true cols = 0 ↔ ∀ x ∈ cols, ∀ t ∈ x.drop 1, t = 0 := by
  unfold pwlHessian
  rw [pwlReg_eq_zero_iff _ _ _ _ h1 h2 hp]
  constructor
  · intro h x hx
    have hz := h x hx
    match x, hc x hx with
    | b :: y :: ys, _ =>
      simp only [pwlHessTerms, if_true, List.drop_one, List.tail_cons, List.take_succ_cons, List.take_zero,
        List.cons_append] at hz ⊢
      have hall := const_of_diffs_zero y _ hz
      apply heights_zero_of_wrap_const (c := y)
      intro t ht
      rcases List.mem_append.mp ht with ht | ht
      · rcases List.mem_cons.mp ht with rfl | ht
        · rfl
        · exact hall t (by simp [ht])
      · exact hall t (by simp only [List.mem_singleton] at ht; subst ht; simp)
  · intro h x hx
    exact pwlHessTerms_zero true (h x hx)

theorem mem_diffs_append_singleton (A : List Rat) (z : Rat) : ∀ t ∈ diffs A, t ∈ diffs (A ++ [z]) := by
  induction A with
  | nil => intro t ht; simp at ht
  | cons x xs ih =>
    cases xs with
    | nil => intro t ht; simp at ht
    | cons y ys =>
      intro t ht
      rw [List.cons_append, List.cons_append, diffs_cons_cons]
      rw [diffs_cons_cons] at ht
      rcases List.mem_cons.mp ht with rfl | ht
      · exact List.mem_cons_self
      · exact List.mem_cons_of_mem _ (ih t ht)

/-- a list with constant differences `d` is an arithmetic progression: its last entry -/
theorem last_of_diffs_const (c d : Rat) (v : List Rat) (e : Rat) (h : ∀ t ∈ diffs (c :: (v ++ [e])), t = d) :
    e = c + ((v.length : Rat) + 1) * d := by
  induction v generalizing c with
  | nil =>
    have := h (e - c) (by simp [diffs_cons_cons])
    simp; linarith
  | cons y ys ih =>
    rw [List.cons_append, diffs_cons_cons] at h
    have hy : y - c = d := h _ List.mem_cons_self
    have := ih y (fun t ht => h t (List.mem_cons_of_mem _ ht))
    rw [this, List.length_cons]; push_cast; linarith

/-- **Cyclic wrinkle: exact vanishing set** = constant outputs (all heights zero), kernels of at least three
rows; in particular no non-constant output sequence that is linear or quadratic in the index is in it. -/
theorem pwl_wrinkle_cyclic_zero_iff (l1 l2 : Rat) (cols : List (List Rat))
    (h1 : 0 ≤ l1) (h2 : 0 ≤ l2) (hp : 0 < l1 ∨ 0 < l2) (hc : ∀ x ∈ cols, 3 ≤ x.length) :
    pwlWrinkle l1 l2 true cols = 0 ↔ ∀ x ∈ cols, ∀ t ∈ x.drop 1, t = 0 := by
  unfold pwlWrinkle
  rw [pwlReg_eq_zero_iff _ _ _ _ h1 h2 hp]
  constructor
  · intro h x hx
    have hz := h x hx
    match x, hc x hx with
    | b :: y0 :: y1 :: ys, hl =>
      have hlt : ¬ (b :: y0 :: y1 :: ys).length < 3 := by simp
      simp only [pwlWrinkleTerms, hlt, if_false, if_true, List.drop_one, List.tail_cons, List.take_succ_cons,
        List.take_zero, List.cons_append] at hz ⊢
      -- L = y0 :: y1 :: (ys ++ [-S] ++ [y0] ++ [y1]); all second differences vanish
      set S := rsum (y0 :: y1 :: ys) with hS
      rw [diffs_cons_cons] at hz
      have hd := const_of_diffs_zero (y1 - y0) _ hz
      -- every first difference of L equals d = y1 - y0
      have hd' : ∀ t ∈ diffs (y0 :: y1 :: (ys ++ [-S] ++ [y0] ++ [y1])), t = y1 - y0 := by
        intro t ht
        rw [diffs_cons_cons] at ht
        rcases List.mem_cons.mp ht with rfl | ht
        · rfl
        · exact hd t ht
      -- the progression returns to y0 after ys.length + 3 steps: d = 0
      have e1 : y0 :: y1 :: (ys ++ [-S] ++ [y0] ++ [y1]) = (y0 :: ((y1 :: (ys ++ [-S])) ++ [y0])) ++ [y1] := by simp
      have hlast := last_of_diffs_const y0 (y1 - y0) (y1 :: (ys ++ [-S])) y0 (fun t ht => by
        apply hd' t; rw [e1]; exact mem_diffs_append_singleton _ _ t ht)
      have hpos : (0 : Rat) < (((y1 :: (ys ++ [-S])).length : Rat) + 1) := by positivity
      have d0 : y1 - y0 = 0 := by
        have : (((y1 :: (ys ++ [-S])).length : Rat) + 1) * (y1 - y0) = 0 := by linarith
        exact (mul_eq_zero.mp this).resolve_left (ne_of_gt hpos)
      -- hence L is constant = y0, and the heights with their wrap-around term are all equal
      have hall := const_of_diffs_zero y0 _ (fun t ht => by rw [hd' t ht, d0])
      have : ∀ t ∈ (y0 :: y1 :: ys) ++ [-(rsum (y0 :: y1 :: ys))], t = y0 := by
        intro t ht
        rcases List.mem_append.mp ht with ht | ht
        · rcases List.mem_cons.mp ht with rfl | ht
          · rfl
          · rcases List.mem_cons.mp ht with rfl | ht
            · exact hall _ (by simp)
            · exact hall t (by simp [ht])
        · simp only [List.mem_singleton] at ht; subst ht
          exact hall _ (by simp [hS])
      exact heights_zero_of_wrap_const this
  · intro h x hx
    exact pwlWrinkleTerms_zero true (h x hx)

/-- constant outputs ⇔ all heights zero, so the three `…_cyclic_zero_iff` theorems read "iff the keypoint
outputs of every unit are constant" -/
theorem colsConst_iff (cols : List (List Rat)) (hc : ∀ x ∈ cols, x ≠ []) :
    ColsConst cols ↔ ∀ x ∈ cols, ∀ t ∈ x.drop 1, t = 0 := by
  constructor
  · intro h x hx
    obtain ⟨a, ha⟩ := h x hx
    exact heights_zero_of_outs_const ha
  · intro h x hx
    match x, hc x hx, h x hx with
    | b :: hs, _, hz => exact ⟨b, outs_const_of_heights_zero (by simpa using hz)⟩

/-! ## amounts — linearity in per-dimension amounts, the two norms, negative amounts -/

theorem getR_zipWith_add {l l' : List Rat} (h : l.length = l'.length) (d : Nat) :
    getR (List.zipWith (· + ·) l l') d = getR l d + getR l' d := by
  have := getR_linComb 1 1 h d
  simpa [linComb] using this

theorem getR_map_mul (c : Rat) (l : List Rat) (d : Nat) : getR (l.map (c * ·)) d = c * getR l d := by
  unfold getR
  by_cases hd : d < l.length
  · simp [List.getD, List.getElem?_eq_getElem hd]
  · simp [List.getD, List.getElem?_eq_none (Nat.le_of_not_lt hd)]

/-- **Lattice Laplacian, linear in the amounts** — any mixture of scalars and per-dimension lists: if the
per-dimension amounts of `(L1, L2)` are the combination `a • (l1, l2) + b • (l1', l2')`, so is the value.
No sign hypothesis: the code accepts every amount. -/
theorem laplacian_linear (sizes : List Nat) (units : Nat) (a b : Rat) (L1 L2 l1 l2 l1' l2' : Amt) (w : W)
    (hL1 : ∀ d, getR (L1.toList sizes.length) d =
      a * getR (l1.toList sizes.length) d + b * getR (l1'.toList sizes.length) d)
    (hL2 : ∀ d, getR (L2.toList sizes.length) d =
      a * getR (l2.toList sizes.length) d + b * getR (l2'.toList sizes.length) d) :
    laplacian sizes units L1 L2 w =
      a * laplacian sizes units l1 l2 w + b * laplacian sizes units l1' l2' w := by
  simp only [laplacian_eq_documented]
  exact lapSpec_linear _ a b _ _ _ _ _ _ w hL1 hL2

/-- Laplacian linear in the amount VECTORS (per-dimension lists of equal lengths) -/
theorem laplacian_linear_vector (sizes : List Nat) (units : Nat) (a b : Rat) (l1 l2 l1' l2' : List Rat) (w : W)
    (h1 : l1.length = l1'.length) (h2 : l2.length = l2'.length) :
    laplacian sizes units (.perDim (linComb a b l1 l1')) (.perDim (linComb a b l2 l2')) w =
      a * laplacian sizes units (.perDim l1) (.perDim l2) w +
      b * laplacian sizes units (.perDim l1') (.perDim l2') w :=
  laplacian_linear sizes units a b _ _ _ _ _ _ w (fun d => getR_linComb a b h1 d) (fun d => getR_linComb a b h2 d)

/-- additive in the amount vectors -/
theorem laplacian_vector_add (sizes : List Nat) (units : Nat) (l1 l2 l1' l2' : List Rat) (w : W)
    (h1 : l1.length = l1'.length) (h2 : l2.length = l2'.length) :
    laplacian sizes units (.perDim (List.zipWith (· + ·) l1 l1')) (.perDim (List.zipWith (· + ·) l2 l2')) w =
      laplacian sizes units (.perDim l1) (.perDim l2) w + laplacian sizes units (.perDim l1') (.perDim l2') w := by
  have := laplacian_linear sizes units 1 1 (.perDim (List.zipWith (· + ·) l1 l1'))
    (.perDim (List.zipWith (· + ·) l2 l2')) (.perDim l1) (.perDim l2) (.perDim l1') (.perDim l2') w
    (fun d => by simp only [Amt.toList, getR_zipWith_add h1, one_mul])
    (fun d => by simp only [Amt.toList, getR_zipWith_add h2, one_mul])
  simpa using this

/-- homogeneous (degree 1) in the amount vectors -/
theorem laplacian_vector_smul (sizes : List Nat) (units : Nat) (c : Rat) (l1 l2 : List Rat) (w : W) :
    laplacian sizes units (.perDim (l1.map (c * ·))) (.perDim (l2.map (c * ·))) w =
      c * laplacian sizes units (.perDim l1) (.perDim l2) w := by
  have := laplacian_linear sizes units c 0 (.perDim (l1.map (c * ·))) (.perDim (l2.map (c * ·)))
    (.perDim l1) (.perDim l2) (.perDim l1) (.perDim l2) w
    (fun d => by simp only [Amt.toList, getR_map_mul, zero_mul, add_zero])
    (fun d => by simp only [Amt.toList, getR_map_mul, zero_mul, add_zero])
  simpa using this

/-- a scalar amount is the constant vector: `laplacian (scalar a) = laplacian (list [a, …, a])` -/
theorem laplacian_scalar_eq_list (sizes : List Nat) (units : Nat) (x y : Rat) (w : W) :
    laplacian sizes units (.scalar x) (.scalar y) w =
      laplacian sizes units (.perDim (List.replicate sizes.length x)) (.perDim (List.replicate sizes.length y)) w := by
  simp only [laplacian_eq_documented, Amt.toList]

/-- **`reg(l1, l2) = reg(l1, 0) + reg(0, l2)`**, lattice Laplacian, scalar or list amounts -/
theorem laplacian_split (sizes : List Nat) (units : Nat) (l1 l2 : Amt) (w : W) :
    laplacian sizes units l1 l2 w =
      laplacian sizes units l1 (.scalar 0) w + laplacian sizes units (.scalar 0) l2 w := by
  have := laplacian_linear sizes units 1 1 l1 l2 l1 (.scalar 0) (.scalar 0) l2 w
    (fun d => by simp [Amt.toList, getR_replicate]) (fun d => by simp [Amt.toList, getR_replicate])
  simpa using this

/-! ### torsion -/

/-- Lattice torsion = documented sum for EVERY amount the code accepts (`RootOk`: non-negative scalars,
per-dimension lists of any sign); generalises `torsion_eq_documented`. -/
theorem torsion_eq_documented_rootOk (sizes : List Nat) (units : Nat) (l1 l2 : Amt) (w : W)
    (h1 : l1.RootOk) (h2 : l2.RootOk) (hr : sizes.length ≠ 1) :
    torsion sizes units l1 l2 w =
      .ok (torSpec (extSizes sizes units) (l1.pairW sizes.length) (l2.pairW sizes.length) w) := by
  obtain ⟨o1, e1, p1⟩ := torAmounts_ok_of_rootOk sizes.length units h1
  obtain ⟨o2, e2, p2⟩ := torAmounts_ok_of_rootOk sizes.length units h2
  unfold torsion
  have hr' : (sizes.length == 1) = false := by simpa using hr
  simp only [hr', Bool.false_or]
  split
  · rename_i h
    simp only [Bool.and_eq_true, Bool.not_eq_true'] at h
    congr 1; symm; apply torSpec_eq_zero
    intro i j _ _; left
    exact ⟨falsy_pairW h.1 _ _ _, falsy_pairW h.2 _ _ _⟩
  · simp only [e1, e2, bind, Except.bind, pure, Except.pure, torCore_eq_spec, p1, p2, extSizes]

theorem not_rootOk_iff {a : Amt} : ¬ a.RootOk ↔ ∃ x, a = .scalar x ∧ x < 0 := by
  cases a with
  | scalar x => simp [Amt.RootOk]
  | perDim l => simp [Amt.RootOk]

/-- **Exactly which amounts raise** (rank ≠ 1; rank-1 lattices return `0.0` before looking at the amounts,
`torsion_rank_one`): `ValueError` (`math.sqrt`, "math domain error") iff one of the amounts is a negative
SCALAR.  Negative entries of per-dimension lists are accepted. -/
theorem torsion_raises_iff (sizes : List Nat) (units : Nat) (l1 l2 : Amt) (w : W) (hr : sizes.length ≠ 1) :
    torsion sizes units l1 l2 w = .error .valueError ↔ ¬ (l1.RootOk ∧ l2.RootOk) := by
  constructor
  · intro h hok
    rw [torsion_eq_documented_rootOk sizes units l1 l2 w hok.1 hok.2 hr] at h
    cases h
  · intro h
    have hr' : (sizes.length == 1) = false := by simpa using hr
    by_cases h1 : l1.RootOk
    · have h2 : ¬ l2.RootOk := fun h2 => h ⟨h1, h2⟩
      obtain ⟨y, rfl, hy⟩ := not_rootOk_iff.mp h2
      obtain ⟨o1, e1, _⟩ := torAmounts_ok_of_rootOk sizes.length units h1
      have hne : y ≠ 0 := ne_of_lt hy
      simp [torsion, hr', Amt.truthy, hne, e1, torAmounts_neg_scalar _ _ hy, bind, Except.bind]
    · obtain ⟨x, rfl, hx⟩ := not_rootOk_iff.mp h1
      have hne : x ≠ 0 := ne_of_lt hx
      simp [torsion, hr', Amt.truthy, hne, torAmounts_neg_scalar _ _ hx, bind, Except.bind]

/-- the documented torsion only reads the pair weights of pairs `i < j` -/
theorem torSpec_congr_lt {sizes : List Nat} {p1 p2 q1 q2 : Nat → Nat → Rat} (w : W)
    (h1 : ∀ i j, i < j → p1 i j = q1 i j) (h2 : ∀ i j, i < j → p2 i j = q2 i j) :
    torSpec sizes p1 p2 w = torSpec sizes q1 q2 w := by
  unfold torSpec
  apply rsum_map_congr
  intro i _
  apply rsum_map_congr
  intro j hj
  have hij : i < j := by have := List.mem_range'_1.mp hj; omega
  rw [h1 i j hij, h2 i j hij]

/-- three-term linearity of the documented torsion in the pair weights of the pairs `i < j` -/
theorem torSpec_linear3_lt (sizes : List Nat) (a b c : Rat) (P1 P2 p1 p2 p1' p2' p1'' p2'' : Nat → Nat → Rat) (w : W)
    (hP1 : ∀ i j, i < j → P1 i j = a * p1 i j + b * p1' i j + c * p1'' i j)
    (hP2 : ∀ i j, i < j → P2 i j = a * p2 i j + b * p2' i j + c * p2'' i j) :
    torSpec sizes P1 P2 w =
      a * torSpec sizes p1 p2 w + b * torSpec sizes p1' p2' w + c * torSpec sizes p1'' p2'' w := by
  rw [torSpec_congr_lt w hP1 hP2]
  rw [torSpec_linear sizes 1 c (fun i j => a * p1 i j + b * p1' i j + c * p1'' i j)
    (fun i j => a * p2 i j + b * p2' i j + c * p2'' i j)
    (fun i j => a * p1 i j + b * p1' i j) (fun i j => a * p2 i j + b * p2' i j) p1'' p2'' w
    (fun i j => by ring) (fun i j => by ring)]
  rw [torSpec_linear sizes a b (fun i j => a * p1 i j + b * p1' i j) (fun i j => a * p2 i j + b * p2' i j)
    p1 p2 p1' p2' w (fun i j => rfl) (fun i j => rfl)]
  ring

/-- **Torsion, linear in the PAIR weights** (`l_i * l_j`; a scalar `a` weights every pair by `a`): every
mixture of accepted scalar / list amounts whose pair weights over the pairs `i < j` combine linearly has
values that combine the same way.  (`torsion_linear_scalar` is the scalar instance.) -/
theorem torsion_linear_pairW (sizes : List Nat) (units : Nat) (a b : Rat) (L1 L2 l1 l2 l1' l2' : Amt) (w : W)
    (hL1 : L1.RootOk) (hL2 : L2.RootOk) (h1 : l1.RootOk) (h2 : l2.RootOk) (h1' : l1'.RootOk) (h2' : l2'.RootOk)
    (hP1 : ∀ i j, i < j → L1.pairW sizes.length i j =
      a * l1.pairW sizes.length i j + b * l1'.pairW sizes.length i j)
    (hP2 : ∀ i j, i < j → L2.pairW sizes.length i j =
      a * l2.pairW sizes.length i j + b * l2'.pairW sizes.length i j) :
    ∃ r r1 r2, torsion sizes units L1 L2 w = .ok r ∧ torsion sizes units l1 l2 w = .ok r1 ∧
      torsion sizes units l1' l2' w = .ok r2 ∧ r = a * r1 + b * r2 := by
  by_cases hr : sizes.length = 1
  · refine ⟨0, 0, 0, ?_, ?_, ?_, by ring⟩ <;>
      exact (torsion_rank_one sizes units _ _ w hr (fun _ _ => 0) (fun _ _ => 0)).1
  refine ⟨_, _, _, torsion_eq_documented_rootOk _ _ _ _ _ hL1 hL2 hr,
    torsion_eq_documented_rootOk _ _ _ _ _ h1 h2 hr, torsion_eq_documented_rootOk _ _ _ _ _ h1' h2' hr, ?_⟩
  have := torSpec_linear3_lt (extSizes sizes units) a b 0 (L1.pairW sizes.length) (L2.pairW sizes.length)
    (l1.pairW sizes.length) (l2.pairW sizes.length) (l1'.pairW sizes.length) (l2'.pairW sizes.length)
    (fun _ _ => 0) (fun _ _ => 0) w
    (fun i j hij => by rw [hP1 i j hij]; ring) (fun i j hij => by rw [hP2 i j hij]; ring)
  rw [this]; ring

/-- **Torsion with per-dimension lists is homogeneous of degree 2**: scaling both amount vectors by `c`
scales the value by `c²` (each pair is weighted by the product of two amounts). -/
theorem torsion_vector_smul_sq (sizes : List Nat) (units : Nat) (c : Rat) (l1 l2 : List Rat) (w : W) :
    ∃ r r0, torsion sizes units (.perDim (l1.map (c * ·))) (.perDim (l2.map (c * ·))) w = .ok r ∧
      torsion sizes units (.perDim l1) (.perDim l2) w = .ok r0 ∧ r = c * c * r0 := by
  obtain ⟨r, r1, r2, e, e1, _, h⟩ := torsion_linear_pairW sizes units (c * c) 0
    (.perDim (l1.map (c * ·))) (.perDim (l2.map (c * ·))) (.perDim l1) (.perDim l2) (.perDim l1) (.perDim l2) w
    trivial trivial trivial trivial trivial trivial
    (fun i j _ => by simp only [Amt.pairW, getR_map_mul]; ring)
    (fun i j _ => by simp only [Amt.pairW, getR_map_mul]; ring)
  exact ⟨r, r1, e, e1, by rw [h]; ring⟩

theorem pairW_set (l : List Rat) (k : Nat) (v : Rat) (rank i j : Nat) (hij : i < j) (hk : k < l.length) :
    (Amt.perDim (l.set k v)).pairW rank i j =
      if i = k then v * getR l j else if j = k then getR l i * v else getR l i * getR l j := by
  simp only [Amt.pairW, getR_set, hk, and_true]
  by_cases hi : i = k
  · have hj : j ≠ k := by omega
    simp [hi, hj]
  · by_cases hj : j = k
    · simp [hi, hj]
    · simp [hi, hj]

/-- **Torsion is affine in every single dimension's l1 amount** (bilinear in the two amounts of each pair):
with `f v = torsion(l1 with l1[k] := v, l2)`,
`f (a x + b x') = a f x + b f x' + (1 - a - b) f 0` for all `a b` — the pairs through dimension `k` are linear
in `l1[k]`, the remaining pairs (and the l2 part) do not depend on it.  Consequences used by the harness:
`f (x + x') + f 0 = f x + f x'` and `f (c x) - f 0 = c (f x - f 0)`. -/
theorem torsion_dim_affine_l1 (sizes : List Nat) (units : Nat) (a b x x' : Rat) (l1 : List Rat) (l2 : Amt)
    (k : Nat) (hk : k < l1.length) (h2 : l2.RootOk) (w : W) :
    ∃ r rx rx' r0,
      torsion sizes units (.perDim (l1.set k (a * x + b * x'))) l2 w = .ok r ∧
      torsion sizes units (.perDim (l1.set k x)) l2 w = .ok rx ∧
      torsion sizes units (.perDim (l1.set k x')) l2 w = .ok rx' ∧
      torsion sizes units (.perDim (l1.set k 0)) l2 w = .ok r0 ∧
      r = a * rx + b * rx' + (1 - a - b) * r0 := by
  by_cases hr : sizes.length = 1
  · refine ⟨0, 0, 0, 0, ?_, ?_, ?_, ?_, by ring⟩ <;>
      exact (torsion_rank_one sizes units _ _ w hr (fun _ _ => 0) (fun _ _ => 0)).1
  refine ⟨_, _, _, _, torsion_eq_documented_rootOk _ _ _ _ _ trivial h2 hr,
    torsion_eq_documented_rootOk _ _ _ _ _ trivial h2 hr, torsion_eq_documented_rootOk _ _ _ _ _ trivial h2 hr,
    torsion_eq_documented_rootOk _ _ _ _ _ trivial h2 hr, ?_⟩
  apply torSpec_linear3_lt
  · intro i j hij
    simp only [pairW_set _ _ _ _ _ _ hij hk]
    split_ifs <;> ring
  · intro i j _; ring

/-- the same for every single dimension's l2 amount -/
theorem torsion_dim_affine_l2 (sizes : List Nat) (units : Nat) (a b x x' : Rat) (l1 : Amt) (l2 : List Rat)
    (k : Nat) (hk : k < l2.length) (h1 : l1.RootOk) (w : W) :
    ∃ r rx rx' r0,
      torsion sizes units l1 (.perDim (l2.set k (a * x + b * x'))) w = .ok r ∧
      torsion sizes units l1 (.perDim (l2.set k x)) w = .ok rx ∧
      torsion sizes units l1 (.perDim (l2.set k x')) w = .ok rx' ∧
      torsion sizes units l1 (.perDim (l2.set k 0)) w = .ok r0 ∧
      r = a * rx + b * rx' + (1 - a - b) * r0 := by
  by_cases hr : sizes.length = 1
  · refine ⟨0, 0, 0, 0, ?_, ?_, ?_, ?_, by ring⟩ <;>
      exact (torsion_rank_one sizes units _ _ w hr (fun _ _ => 0) (fun _ _ => 0)).1
  refine ⟨_, _, _, _, torsion_eq_documented_rootOk _ _ _ _ _ h1 trivial hr,
    torsion_eq_documented_rootOk _ _ _ _ _ h1 trivial hr, torsion_eq_documented_rootOk _ _ _ _ _ h1 trivial hr,
    torsion_eq_documented_rootOk _ _ _ _ _ h1 trivial hr, ?_⟩
  apply torSpec_linear3_lt
  · intro i j _; ring
  · intro i j hij
    simp only [pairW_set _ _ _ _ _ _ hij hk]
    split_ifs <;> ring

/-- **Counter-witness (values of the real code: 3.0, 12.0, 27.0).**  2 x 2 lattice `(0, 1, 3, 7)` (twist `3`):
per-dimension l1 amounts `[1,1]`, `[2,2]`, `[3,3] = [1,1] + [2,2]` give `3`, `12`, `27 ≠ 3 + 12`: the torsion is
NOT additive in the amount vector (it is `l1[0] * l1[1] * 3`), while it is in a scalar amount
(`torsion_linear_scalar`: scalars `1`, `2`, `3` give `3`, `6`, `9`). -/
theorem torsion_list_not_additive :
    let w := Table.get (Table.ofVals [2, 2] [0, 1, 3, 7])
    torsion [2, 2] 1 (.perDim [1, 1]) (.scalar 0) w = .ok 3 ∧
    torsion [2, 2] 1 (.perDim [2, 2]) (.scalar 0) w = .ok 12 ∧
    torsion [2, 2] 1 (.perDim [3, 3]) (.scalar 0) w = .ok 27 ∧ (27 : Rat) ≠ 3 + 12 ∧
    torsion [2, 2] 1 (.scalar 1) (.scalar 0) w = .ok 3 ∧ torsion [2, 2] 1 (.scalar 2) (.scalar 0) w = .ok 6 ∧
    torsion [2, 2] 1 (.scalar 3) (.scalar 0) w = .ok 9 := by
  decide +kernel

/-- **`reg(l1, l2) = reg(l1, 0) + reg(0, l2)`**, lattice torsion, every accepted scalar / list amounts -/
theorem torsion_split (sizes : List Nat) (units : Nat) (l1 l2 : Amt) (w : W) (h1 : l1.RootOk) (h2 : l2.RootOk) :
    ∃ r r1 r2, torsion sizes units l1 l2 w = .ok r ∧ torsion sizes units l1 (.scalar 0) w = .ok r1 ∧
      torsion sizes units (.scalar 0) l2 w = .ok r2 ∧ r = r1 + r2 := by
  have z : (Amt.scalar 0).RootOk := le_refl (0 : Rat)
  obtain ⟨r, r1, r2, e, e1, e2, h⟩ := torsion_linear_pairW sizes units 1 1 l1 l2 l1 (.scalar 0) (.scalar 0) l2 w
    h1 h2 h1 z z h2 (fun i j _ => by simp [Amt.pairW]) (fun i j _ => by simp [Amt.pairW])
  exact ⟨r, r1, r2, e, e1, e2, by rw [h]; ring⟩

/-- **`reg(l1, l2) = reg(l1, 0) + reg(0, l2)`**, the three PWL regularizers (any `terms`, cyclic or not) -/
theorem pwl_split (terms : List Rat → List Rat) (l1 l2 : Rat) (cols : List (List Rat)) :
    pwlReg terms l1 l2 cols = pwlReg terms l1 0 cols + pwlReg terms 0 l2 cols := by
  simp only [pwlReg_eq]; ring

/-- **Negative amounts are accepted** (outside the non-negativity clause; values of the real code: −3.0,
−4.0, −14.0): 2 x 2 lattice `(0, 1, 3, 7)`, torsion with the list `[-1, 1]`, Laplacian with the list `[-1, 1]`
and with the scalar `-1`; only a negative SCALAR torsion amount raises. -/
theorem torsion_neg_list_witness :
    let w := Table.get (Table.ofVals [2, 2] [0, 1, 3, 7])
    torsion [2, 2] 1 (.perDim [-1, 1]) (.scalar 0) w = .ok (-3) ∧
    torsion [2, 2] 1 (.scalar (-1)) (.scalar 0) w = .error .valueError := by
  decide +kernel
theorem laplacian_neg_witness :
    let w := Table.get (Table.ofVals [2, 2] [0, 1, 3, 7])
    laplacian [2, 2] 1 (.perDim [-1, 1]) (.scalar 0) w = -4 ∧
    laplacian [2, 2] 1 (.scalar (-1)) (.scalar 0) w = -14 := by
  decide +kernel

/-! ## rows — the multi-unit PWL computation as the code performs it (audit row 33) -/

/-- **PWL Laplacian, code-shaped on the `(rows, units)` matrix = column-shaped model**, every rectangular
kernel, cyclic or not: the wrap-around row `-reduce_sum(heights, axis=0)` holds one wrap-around height per
column, and `reduce_sum` over all entries is the sum over the columns. -/
theorem pwl_laplacian_rows_eq_columns (l1 l2 : Rat) (cyc : Bool) (units : Nat) (x : List (List Rat))
    (h : Rect units x) : pwlLaplacianRows l1 l2 cyc units x = pwlLaplacian l1 l2 cyc (columns units x) :=
  pwlRegRows_eq_pwlReg l1 l2 _ x _ (rect_lapRows cyc h) (fun _ hu => column_lapRows hu cyc x)

theorem pwl_hessian_rows_eq_columns (l1 l2 : Rat) (cyc : Bool) (units : Nat) (x : List (List Rat))
    (h : Rect units x) : pwlHessianRows l1 l2 cyc units x = pwlHessian l1 l2 cyc (columns units x) :=
  pwlRegRows_eq_pwlReg l1 l2 _ x _ (rect_hessRows cyc h) (fun _ hu => column_hessRows hu cyc h)

theorem pwl_wrinkle_rows_eq_columns (l1 l2 : Rat) (cyc : Bool) (units : Nat) (x : List (List Rat))
    (h : Rect units x) : pwlWrinkleRows l1 l2 cyc units x = pwlWrinkle l1 l2 cyc (columns units x) :=
  pwlRegRows_eq_pwlReg l1 l2 _ x _ (rect_wrinkleRows cyc h) (fun _ hu => column_wrinkleRows hu cyc h)

theorem columns_ne_nil {units : Nat} {x : List (List Rat)} (hx : x ≠ []) : ∀ c ∈ columns units x, c ≠ [] := by
  intro c hc
  obtain ⟨u, _, rfl⟩ := List.mem_map.mp hc
  intro e
  have := column_length u x
  rw [e] at this
  exact hx (List.length_eq_zero_iff.mp this.symm)

/-- the code-shaped multi-unit computations equal the documented norms of the first / second / third
differences of every unit's keypoint outputs (with the wrap-around terms when cyclic) -/
theorem pwl_laplacian_rows_eq_documented (l1 l2 : Rat) (cyc : Bool) (units : Nat) (x : List (List Rat))
    (h : Rect units x) (hx : x ≠ []) :
    pwlLaplacianRows l1 l2 cyc units x = pwlSpec 1 l1 l2 cyc (columns units x) := by
  rw [pwl_laplacian_rows_eq_columns _ _ _ _ _ h, pwl_laplacian_eq_documented _ _ _ _ (columns_ne_nil hx)]
theorem pwl_hessian_rows_eq_documented (l1 l2 : Rat) (cyc : Bool) (units : Nat) (x : List (List Rat))
    (h : Rect units x) (hx : x ≠ []) :
    pwlHessianRows l1 l2 cyc units x = pwlSpec 2 l1 l2 cyc (columns units x) := by
  rw [pwl_hessian_rows_eq_columns _ _ _ _ _ h, pwl_hessian_eq_documented _ _ _ _ (columns_ne_nil hx)]
theorem pwl_wrinkle_rows_eq_documented (l1 l2 : Rat) (cyc : Bool) (units : Nat) (x : List (List Rat))
    (h : Rect units x) (hx : 3 ≤ x.length) :
    pwlWrinkleRows l1 l2 cyc units x = pwlSpec 3 l1 l2 cyc (columns units x) := by
  rw [pwl_wrinkle_rows_eq_columns _ _ _ _ _ h, pwl_wrinkle_eq_documented]
  intro c hc
  obtain ⟨u, _, rfl⟩ := List.mem_map.mp hc
  rw [column_length]; exact hx

/-- the one-column kernel holding unit `u` of `x` -/
def unitKernel (u : Nat) (x : List (List Rat)) : List (List Rat) := x.map (fun r => [getR r u])

theorem rect_unitKernel (u : Nat) (x : List (List Rat)) : Rect 1 (unitKernel u x) := by
  intro r hr
  obtain ⟨s, _, rfl⟩ := List.mem_map.mp hr
  rfl
theorem columns_unitKernel (u : Nat) (x : List (List Rat)) : columns 1 (unitKernel u x) = [column u x] := by
  simp [columns, column, unitKernel, List.map_map, Function.comp_def, getR]

/-- **Per-unit form of the code-shaped computation** (not by unfolding): the regularizer of the `(rows, units)`
kernel, computed with row slices and the axis-0 wrap-around row, is the sum over units of the same
code-shaped regularizer of the one-column kernel of that unit — Laplacian, Hessian, wrinkle, cyclic or not. -/
theorem pwl_rows_per_unit (l1 l2 : Rat) (cyc : Bool) (units : Nat) (x : List (List Rat)) (h : Rect units x) :
    pwlLaplacianRows l1 l2 cyc units x =
      rsum ((List.range units).map (fun u => pwlLaplacianRows l1 l2 cyc 1 (unitKernel u x))) ∧
    pwlHessianRows l1 l2 cyc units x =
      rsum ((List.range units).map (fun u => pwlHessianRows l1 l2 cyc 1 (unitKernel u x))) ∧
    pwlWrinkleRows l1 l2 cyc units x =
      rsum ((List.range units).map (fun u => pwlWrinkleRows l1 l2 cyc 1 (unitKernel u x))) := by
  refine ⟨?_, ?_, ?_⟩
  · rw [pwl_laplacian_rows_eq_columns _ _ _ _ _ h, pwl_laplacian_per_unit]
    simp only [columns, List.map_map, Function.comp_def]
    apply rsum_map_congr; intro u _
    rw [pwl_laplacian_rows_eq_columns _ _ _ _ _ (rect_unitKernel u x), columns_unitKernel]
  · rw [pwl_hessian_rows_eq_columns _ _ _ _ _ h, pwl_hessian_per_unit]
    simp only [columns, List.map_map, Function.comp_def]
    apply rsum_map_congr; intro u _
    rw [pwl_hessian_rows_eq_columns _ _ _ _ _ (rect_unitKernel u x), columns_unitKernel]
  · rw [pwl_wrinkle_rows_eq_columns _ _ _ _ _ h, pwl_wrinkle_per_unit]
    simp only [columns, List.map_map, Function.comp_def]
    apply rsum_map_congr; intro u _
    rw [pwl_wrinkle_rows_eq_columns _ _ _ _ _ (rect_unitKernel u x), columns_unitKernel]

/-- non-vacuity: a 3 x 2 kernel with different columns, cyclic Hessian; rows `[0,5],[1,1],[2,1]` are the
columns `[0,1,2]`, `[5,1,1]` of the example in `Props/C13.lean` (`76 = 52 + 24`); summing the wrap-around
height over BOTH columns instead of per column would give a different matrix -/
example : pwlHessianRows 1 1 true 2 [[0, 5], [1, 1], [2, 1]] = 76 ∧ columns 2 [[0, 5], [1, 1], [2, 1]] = [[0, 1, 2], [5, 1, 1]] ∧
    hessRows true 2 [[0, 5], [1, 1], [2, 1]] = [[1, 0], [-5, -3], [4, 3]] ∧
    pwlHessianRows 1 1 true 1 (unitKernel 0 [[0, 5], [1, 1], [2, 1]]) = 52 ∧
    pwlHessianRows 1 1 true 1 (unitKernel 1 [[0, 5], [1, 1], [2, 1]]) = 24 := by decide +kernel

/-! ## non-vacuity -/
/-- `ColsConst` is met by a two-unit kernel with different constants; all three cyclic regularizers vanish -/
example : ColsConst [[5, 0, 0, 0], [-2, 0, 0, 0]] := by
  intro x hx
  simp only [List.mem_cons, List.not_mem_nil, or_false] at hx
  rcases hx with rfl | rfl
  · exact ⟨5, by decide +kernel⟩
  · exact ⟨-2, by decide +kernel⟩
example : pwlLaplacian 1 1 true [[5, 0, 0, 0], [-2, 0, 0, 0]] = 0 ∧ pwlLaplacian 1 1 true [[5, 0, 1, 0]] = 4 := by
  decide +kernel
/-- closed form at `k = 3`, `b = 1`: the witness value `6` -/
example : pwlHessian 1 0 true [(0 : Rat) :: List.replicate (1 + 1) 1] = 6 := by
  rw [pwl_hessian_cyclic_affine]; decide +kernel
/-- `torsion_dim_affine_l1` on a rank-3 lattice where the constant part `f 0` is non-zero -/
example :
    let w := Table.get (Table.ofVals [2, 2, 2] [0, 1, 3, 7, 2, 0, 5, 1])
    torsion [2, 2, 2] 1 (.perDim [0, 2, 3]) (.scalar 0) w = .ok 30 ∧
    torsion [2, 2, 2] 1 (.perDim [1, 2, 3]) (.scalar 0) w = .ok 73 ∧
    torsion [2, 2, 2] 1 (.perDim [2, 2, 3]) (.scalar 0) w = .ok 116 := by decide +kernel

end Tfl.C13
