import TflModel.Props.C07
import TflModel.Props.C12
import TflModel.Props.C10Constraint
/-!
# C07Fix — a feasible KFL (kernel, scale) is a FIXED POINT of the layer's constraints

Closes the open part of the DESIGN §8 Limits bullet on C03/C10 ("the initial KFL (kernel, scale) as a
fixed point of the KFL constraints …: C07 has no feasible ⇒ unchanged theorem").

`Feasible L ms lo hi scale rs K` is the C07 feasibility (`KOk`: per term `DimsOk L (sgn s_t) ms K_t` —
columns non-negative, `sign(s_t)·column` non-decreasing and of full length on the monotone dimensions —
and `TermBoundOk`; `feasible_kOk`), stated per `(s_t, r_t, K_t)` triple so that the three lists have equal
lengths, plus the two side conditions without which "unchanged" is FALSE:

* a term with `scale_t = 0` (and some monotone dimension) has an all-zero kernel block — the projection
  multiplies by `sign(scale_t) = 0` twice and ZEROES the block (`zero_scale_not_fixed`, same in the real
  code); what is preserved there is the represented function (`zero_scale_same_function`);
* with both bounds the factor `r_t` is the EXACT dims-th root (`1 ≤ r ∧ r^dims = max(Π max|k_d|, 1)`), which
  is what `tf.pow(full_projection_factor, 1/dims)` returns on `1.0` (`pow(1.0, y) = 1.0` exactly in IEEE);
  the weaker `rootOk` (`≤`) of C07 allows `r = 2` on a feasible kernel, which halves it (`loose_root_not_fixed`).

Part (a): `kfl_feasible_fixed`, `kfl_feasible_fixed_runs`. Part (b): the initial (kernel, scale) of
`kfl_random_monotonic_initializer` / `scale_initializer` (`Model/Initializers.lean`, every admissible draw) is
`Feasible` with root factors `1`, hence unchanged (`kfl_init_fixed`, `kfl_init_fixed_range`), and every feasible
(kernel, scale) — in particular the initial one — passes `assert_constraints` with `eps = 0`
(`kfl_feasible_accepted`, `kfl_init_accepted`, `kfl_init_accepted_range`; `toKdt` = the code's
keypoint → dimension → term view of the model's terms → dims → vertices kernel).
Real-code runs behind the docstrings: `design_probes/c07fix/probe_fixed.py`.
-/
namespace Tfl.C07Fix
open Tfl Tfl.Kfl Tfl.Poset

/-! ## the sweeps are the identity on a non-decreasing column -/

theorem cummaxFrom_of_nondec : ∀ (l : List Rat) (m : Rat), Nondec (m :: l) → cummaxFrom m l = l
  | [], _, _ => rfl
  | x :: xs, m, h => by
    have hx : max x m = x := max_eq_left h.1
    simp only [cummaxFrom, hx]
    rw [cummaxFrom_of_nondec xs x h.2]

theorem cummax_of_nondec (l : List Rat) (h : Nondec l) : cummax l = l := by
  cases l with
  | nil => rfl
  | cons x xs => simp only [cummax]; rw [cummaxFrom_of_nondec xs x h]

theorem zipAvg_self : ∀ l : List Rat, List.zipWith (fun a b => (a + b) / 2) l l = l
  | [] => rfl
  | x :: xs => by
    simp only [List.zipWith_cons_cons, zipAvg_self xs]
    congr 1; ring

theorem half_of_nondec (l : List Rat) (h : Nondec l) : half l = l := by
  unfold half; rw [cummax_of_nondec l h, zipAvg_self]

theorem cumminBack_of_nondec : ∀ l : List Rat, Nondec l → cumminBack l = l
  | [], _ => rfl
  | [x], _ => rfl
  | x :: y :: r, h => by
    have ih := cumminBack_of_nondec (y :: r) h.2
    simp only [cumminBack] at ih ⊢
    rw [ih]
    simp only [min_eq_left h.1]

/-- `_approximately_project_monotonicity` on one already non-decreasing column returns it -/
theorem monoProj1_of_nondec (l : List Rat) (h : Nondec l) : monoProj1 l = l := by
  unfold monoProj1; rw [half_of_nondec l h, cumminBack_of_nondec l h]

/-- one dimension: unchanged when `direction·column` is non-decreasing (if monotone) and
`direction² · v = v` for every entry (direction `±1`, or the column is zero) -/
theorem projectDim_fixed (σ : Rat) (m : Bool) (k : List Rat) (hm : m = true → Nondec (k.map (σ * ·)))
    (hsq : ∀ v ∈ k, σ * (σ * v) = v) : projectDim σ m k = k := by
  unfold projectDim
  have e : (k.map (σ * ·)).map (σ * ·) = k := by
    rw [List.map_map]
    conv_rhs => rw [← List.map_id k]
    exact List.map_congr_left (fun v hv => hsq v hv)
  cases m with
  | false => simpa using e
  | true => simp only [if_true]; rw [monoProj1_of_nondec _ (hm rfl)]; exact e

theorem projectMono_fixed (L : Nat) (s : Rat) : ∀ (ms : List Bool) (kt : List (List Rat)),
    DimsOk L (sgn s) ms kt → (∀ k ∈ kt, ∀ v ∈ k, sgn s * (sgn s * v) = v) → projectMono ms s kt = kt
  | [], [], _, _ => rfl
  | [], _ :: _, h, _ => by simp [DimsOk] at h
  | _ :: _, [], h, _ => by simp [DimsOk] at h
  | m :: ms, k :: ks, h, hsq => by
    have ih := projectMono_fixed L s ms ks h.2 (fun k' hk' => hsq k' (List.mem_cons_of_mem _ hk'))
    simp only [projectMono, List.zipWith_cons_cons] at ih ⊢
    rw [ih, projectDim_fixed (sgn s) m k (fun hm => (h.1.2 hm).2) (hsq k (List.mem_cons_self ..))]

theorem selfSq_of (s : Rat) (kt : List (List Rat)) (h0 : s = 0 → ZeroK kt) :
    ∀ k ∈ kt, ∀ v ∈ k, sgn s * (sgn s * v) = v := by
  intro k hk v hv
  rcases sgn_cases s with ⟨_, e⟩ | ⟨_, e⟩ | ⟨hs, e⟩ <;> rw [e]
  · ring
  · ring
  · rw [h0 hs k hk v hv]; ring

/-! ## the bound stage -/

theorem rpow_ge_one (r : Rat) (hr : 1 ≤ r) : ∀ n, 1 ≤ rpow r n
  | 0 => by simp [rpow]
  | n + 1 => by
    have := rpow_ge_one r hr n
    simp only [rpow]; nlinarith

theorem scaleDown_one (kt : List (List Rat)) : scaleDown 1 kt = kt := by
  unfold scaleDown
  conv_rhs => rw [← List.map_id kt]
  refine List.map_congr_left (fun k _ => ?_)
  conv_rhs => rw [← List.map_id k]
  exact List.map_congr_left (fun v _ => by simp)

/-- the exact dims-th root of `max(Π_d max|k_d|, 1)` on a kernel with `Π_d max|k_d| ≤ 1` divides by one -/
theorem scaleDown_exact_root (r : Rat) (kt : List (List Rat)) (hb : maxOutput kt ≤ 1)
    (hr : 1 ≤ r ∧ rpow r kt.length = fullFactor kt) : scaleDown r kt = kt := by
  cases kt with
  | nil => rfl
  | cons k ks =>
    have hf : fullFactor (k :: ks) = 1 := by unfold fullFactor; exact max_eq_right hb
    have h1 := rpow_ge_one r hr.1 ks.length
    have h2 : r * rpow r ks.length = 1 := by
      have := hr.2; rw [hf] at this; simpa [rpow] using this
    have : r = 1 := by nlinarith [hr.1]
    rw [this]; exact scaleDown_one _

/-! ## feasibility and the fixed-point theorem -/

/-- one `(scale_t, root factor r_t, kernel block K_t)` triple: the C07 premises (`DimsOk` for the direction
`sign(scale_t)` when the monotone stage runs, `TermBoundOk`) and the two side conditions of the header -/
def FeasTerm (L : Nat) (ms : List Bool) (lo hi : Option Rat) (s r : Rat) (kt : List (List Rat)) : Prop :=
  (ms.any id = true → DimsOk L (sgn s) ms kt ∧ (s = 0 → ZeroK kt)) ∧ TermBoundOk lo hi kt ∧
  (lo.isSome = true → hi.isSome = true → 1 ≤ r ∧ rpow r kt.length = fullFactor kt)

/-- all terms of one unit: one scale entry and one root factor per kernel block -/
def Feasible (L : Nat) (ms : List Bool) (lo hi : Option Rat) :
    List Rat → List Rat → List (List (List Rat)) → Prop
  | s :: ss, r :: rs, kt :: ks => FeasTerm L ms lo hi s r kt ∧ Feasible L ms lo hi ss rs ks
  | [], [], [] => True
  | _, _, _ => False

/-- `Feasible` is feasibility in the sense C07 uses: it implies the kernel-side premises `KOk` of
`output_monotone` / `output_bounded` (the scale-side premise `SOk` is a separate hypothesis below). -/
theorem feasible_kOk (L : Nat) (ms : List Bool) (lo hi : Option Rat) :
    ∀ (scale rs : List Rat) (K : List (List (List Rat))), Feasible L ms lo hi scale rs K →
      KOk L ms lo hi ⟨K, scale⟩
  | [], [], [], _ => ⟨fun _ => by simp [KernelOk], fun kt hkt => by simp at hkt⟩
  | s :: ss, r :: rs, kt :: ks, h => by
    obtain ⟨ih1, ih2⟩ := feasible_kOk L ms lo hi ss rs ks h.2
    refine ⟨fun hany => ⟨(h.1.1 hany).1, ih1 hany⟩, ?_⟩
    intro kt' hkt'
    rcases List.mem_cons.mp hkt' with rfl | hkt'
    · exact h.1.2.1
    · exact ih2 kt' hkt'
  | [], [], _ :: _, h => by simp [Feasible] at h
  | [], _ :: _, _, h => by simp [Feasible] at h
  | _ :: _, [], _, h => by simp [Feasible] at h
  | _ :: _, _ :: _, [], h => by simp [Feasible] at h

theorem monoStage_fixed (L : Nat) (ms : List Bool) (s : Rat) (kt : List (List Rat))
    (h : ms.any id = true → DimsOk L (sgn s) ms kt ∧ (s = 0 → ZeroK kt)) : monoStage ms s kt = kt := by
  unfold monoStage
  by_cases hany : ms.any id = true
  · rw [if_pos hany]
    obtain ⟨hd, h0⟩ := h hany
    rw [clipNonneg_of_allNonneg kt (DimsOk.allNonneg hd)]
    exact projectMono_fixed L s ms kt hd (selfSq_of s kt h0)
  · rw [if_neg hany]

/-- `finalize_weight_constraints` on one feasible `(unit, term)` block returns the block -/
theorem finalizeWeightTerm_fixed (L : Nat) (ms : List Bool) (lo hi : Option Rat) (s r : Rat)
    (kt : List (List Rat)) (h : FeasTerm L ms lo hi s r kt) : finalizeWeightTerm ms lo hi s r kt = kt := by
  obtain ⟨h1, h2, h3⟩ := h
  unfold finalizeWeightTerm
  simp only [monoStage_fixed L ms s kt h1]
  unfold TermBoundOk at h2
  cases lo <;> cases hi <;>
    simp only [Option.isSome, Bool.or_false, Bool.or_true, Bool.false_eq_true, if_false, if_true, projectBounds]
  · exact clipNonneg_of_allNonneg kt h2
  · exact clipNonneg_of_allNonneg kt h2
  · exact scaleDown_exact_root r kt h2 (h3 rfl rfl)

theorem finalizeWeight_fixed (L : Nat) (ms : List Bool) (lo hi : Option Rat) :
    ∀ (scale rs : List Rat) (K : List (List (List Rat))), Feasible L ms lo hi scale rs K →
      finalizeWeight ms lo hi scale rs K = K
  | [], [], [], _ => rfl
  | s :: ss, r :: rs, kt :: ks, h => by
    simp only [finalizeWeight]
    rw [finalizeWeightTerm_fixed L ms lo hi s r kt h.1, finalizeWeight_fixed L ms lo hi ss rs ks h.2]
  | [], [], _ :: _, h => by simp [Feasible] at h
  | [], _ :: _, _, h => by simp [Feasible] at h
  | _ :: _, [], _, h => by simp [Feasible] at h
  | _ :: _, _ :: _, [], h => by simp [Feasible] at h

/-- `ScaleConstraints.__call__` returns a scale that meets the C07 scale premise `SOk` -/
theorem scaleConstraint_fixed (lo hi : Option Rat) (scale : List Rat) (h : SOk lo hi scale) :
    scaleConstraint lo hi scale = scale := by
  unfold scaleConstraint
  split
  · unfold finalizeScale
    conv_rhs => rw [← List.map_id scale]
    refine List.map_congr_left (fun s hs => ?_)
    unfold SOk at h
    cases lo <;> cases hi <;> simp only [finalizeScale1, id]
    · exact min_eq_left (h s hs)
    · exact max_eq_left (h s hs)
    · have := abs_le.mp (h s hs)
      rw [max_eq_left (by linarith [this.1]), min_eq_left this.2]
  · rfl

/-- **(a) feasible ⇒ unchanged** (closes "C07 has no feasible ⇒ unchanged theorem", DESIGN §8): for every
`lattice_sizes`, `monotonicities`, bound mode, number of dims and of terms (units are independent blocks,
C09), if `(kernel, scale)` is feasible in the sense of C07 (`Feasible` ⇒ `KOk`, and `SOk`) — with the two
side conditions of the header that the counter-witnesses below show to be necessary — then
`KroneckerFactoredLatticeConstraints.__call__` returns the kernel and `ScaleConstraints.__call__` returns the
scale UNCHANGED (equality of the tables, not only of the represented function). -/
theorem kfl_feasible_fixed (L : Nat) (ms : List Bool) (lo hi : Option Rat) (scale rs : List Rat)
    (K : List (List (List Rat))) (hK : Feasible L ms lo hi scale rs K) (hS : SOk lo hi scale) :
    kernelConstraint ms lo hi scale rs K = K ∧ scaleConstraint lo hi scale = scale := by
  refine ⟨?_, scaleConstraint_fixed lo hi scale hS⟩
  unfold kernelConstraint
  split
  · exact finalizeWeight_fixed L ms lo hi scale rs K hK
  · rfl

/-- (a) at layer level: `finalize_constraints()` and every pure run of the two constraint calls (any order,
any repetition, with the exact root factors `rs` of the feasible kernel) leave a feasible state as it is. -/
theorem kfl_feasible_fixed_runs (L : Nat) (ms : List Bool) (lo hi : Option Rat) (st : State) (rs : List Rat)
    (hK : Feasible L ms lo hi st.scale rs st.K) (hS : SOk lo hi st.scale) :
    finalizeConstraints ms lo hi rs st = st ∧
    ∀ ops : List Op, (∀ op ∈ ops, op = Op.consK rs ∨ op = Op.consS) → runOps ms lo hi st ops = st := by
  obtain ⟨e1, e2⟩ := kfl_feasible_fixed L ms lo hi st.scale rs st.K hK hS
  have hstep : ∀ op, op = Op.consK rs ∨ op = Op.consS → step ms lo hi st op = st := by
    rintro op (rfl | rfl)
    · simp only [step, e1]
    · simp only [step, e2]
  have hrun : ∀ ops : List Op, (∀ op ∈ ops, op = Op.consK rs ∨ op = Op.consS) → runOps ms lo hi st ops = st := by
    intro ops
    induction ops with
    | nil => intro _; rfl
    | cons op ops ih =>
      intro h
      simp only [runOps, List.foldl_cons]
      rw [hstep op (h op (List.mem_cons_self ..))]
      exact ih (fun o ho => h o (List.mem_cons_of_mem _ ho))
  exact ⟨hrun _ (by intro op hop; simp at hop; rcases hop with rfl | rfl <;> simp), hrun⟩

/-! ### the two side conditions are necessary (counter-witnesses for the stronger claim `KOk ∧ SOk ⇒ unchanged`) -/

/-- `scale_t = 0` with a non-zero block: `KOk` and `SOk` hold (direction `0` asks only for non-negative
columns), every root factor is exact, yet the kernel constraint ZEROES the block. Real code
(`KroneckerFactoredLatticeConstraints(units=1, scale=[[0.]], monotonicities=[1])` on kernel `[[[[1]]],[[[2]]]]`)
returns zeros as well: `direction = sign(scale) = 0` multiplies the weights. -/
theorem zero_scale_not_fixed :
    KOk 2 [true] none none ⟨[[[1, 2]]], [0]⟩ ∧ SOk none none [0] ∧
    kernelConstraint [true] none none [0] [1] [[[1, 2]]] = [[[0, 0]]] := by
  refine ⟨⟨fun _ => ⟨⟨⟨?_, fun _ => ⟨rfl, ?_⟩⟩, trivial⟩, trivial⟩, fun _ _ => trivial⟩, trivial, by decide +kernel⟩
  · intro v hv; simp only [List.mem_cons, List.not_mem_nil, or_false] at hv; rcases hv with rfl | rfl <;> norm_num
  · simp [sgn, Nondec]

/-- … but the represented function is the same before and after (a zero-scale term contributes nothing):
what IS preserved when a term's scale is zero. For every input `xs`, bias, any kernels. -/
theorem zero_scale_same_function (L : Nat) (clipI : Bool) (xs : List Rat) (bias : Rat)
    (kt kt' : List (List Rat)) (ss : List Rat) (ks : List (List (List Rat))) :
    eval L clipI (kt :: ks) (0 :: ss) bias xs = eval L clipI (kt' :: ks) (0 :: ss) bias xs := by
  simp [eval, scaled, rsum]

/-- a root factor that only satisfies C07's `rootOk` (`fullFactor ≤ r^dims`) but is not the exact root:
the feasible kernel `[1, 1]` is halved. Model-only freedom: `tf.pow(1.0, 1/dims)` is exactly `1.0`. -/
theorem loose_root_not_fixed :
    rootOk 2 [[1, 1]] = true ∧ KOk 2 [false] (some 0) (some 1) ⟨[[[1, 1]]], [1/2]⟩ ∧
    kernelConstraint [false] (some 0) (some 1) [1/2] [2] [[[1, 1]]] = [[[1/2, 1/2]]] := by
  refine ⟨by decide +kernel, ⟨fun h => by simp at h, ?_⟩, by decide +kernel⟩
  intro kt hkt
  simp only [List.mem_cons, List.not_mem_nil, or_false] at hkt
  subst hkt
  show maxOutput [[1, 1]] ≤ 1
  decide +kernel

/-! ### non-vacuity of (a): mixed signs, partly monotone, two-sided bounds, L = 3, two terms -/

def exK : List (List (List Rat)) := [[[1/3, 5/6, 5/6], [0, 2/3, 0]], [[5/8, 3/8, 1/8], [0, 1, 0]]]

example : Feasible 3 [true, false] (some 0) (some 1) [1/2, -1/2] [1, 1] exK ∧ SOk (some 0) (some 1) [1/2, -1/2] := by
  refine ⟨⟨⟨fun _ => ⟨⟨⟨?_, fun _ => ⟨rfl, ?_⟩⟩, ⟨?_, fun h => by cases h⟩, trivial⟩, fun h => by norm_num at h⟩, ?_,
      fun _ _ => ⟨le_refl _, by decide +kernel⟩⟩,
    ⟨fun _ => ⟨⟨⟨?_, fun _ => ⟨rfl, ?_⟩⟩, ⟨?_, fun h => by cases h⟩, trivial⟩, fun h => by norm_num at h⟩, ?_,
      fun _ _ => ⟨le_refl _, by decide +kernel⟩⟩, trivial⟩, ?_⟩
  · intro v hv; simp only [List.mem_cons, List.not_mem_nil, or_false] at hv; rcases hv with rfl | rfl | rfl <;> norm_num
  · have : sgn (1/2) = 1 := by decide +kernel
    rw [this]; simp only [List.map, Nondec]; norm_num
  · intro v hv; simp only [List.mem_cons, List.not_mem_nil, or_false] at hv; rcases hv with rfl | rfl | rfl <;> norm_num
  · show maxOutput _ ≤ 1; decide +kernel
  · intro v hv; simp only [List.mem_cons, List.not_mem_nil, or_false] at hv; rcases hv with rfl | rfl | rfl <;> norm_num
  · have : sgn (-1/2) = -1 := by decide +kernel
    rw [this]; simp only [List.map, Nondec]; norm_num
  · intro v hv; simp only [List.mem_cons, List.not_mem_nil, or_false] at hv; rcases hv with rfl | rfl | rfl <;> norm_num
  · show maxOutput _ ≤ 1; decide +kernel
  · intro s hs; simp only [List.mem_cons, List.not_mem_nil, or_false] at hs
    rcases hs with rfl | rfl <;> rw [abs_le] <;> constructor <;> norm_num

example : kernelConstraint [true, false] (some 0) (some 1) [1/2, -1/2] [1, 1] exK = exK ∧
    scaleConstraint (some 0) (some 1) [1/2, -1/2] = [1/2, -1/2] := by decide +kernel

/-! ## (b) the initial (kernel, scale) is feasible, hence a fixed point, and accepted with `eps = 0` -/

open Tfl.Init Tfl.Asserts in
theorem length_scaleInit (T : Nat) (lo hi : Option Rat) : (scaleInit T lo hi).length = T := by
  unfold scaleInit; cases lo <;> cases hi <;> simp

open Tfl.Init in
theorem length_kflInit (ms : List Bool) : ∀ (scale : List Rat) (samples : List (List (List Rat))),
    samples.length = scale.length → (kflInit ms scale samples).length = scale.length
  | [], [], _ => rfl
  | [], _ :: _, h => by simp at h
  | _ :: _, [], h => by simp at h
  | s :: ss, smp :: rest, h => by
    simp only [kflInit, List.length_cons, length_kflInit ms ss rest (by simpa using h)]

theorem rpow_one : ∀ n, rpow 1 n = 1
  | 0 => rfl
  | n + 1 => by simp [rpow, rpow_one n]

open Tfl.Init in
/-- direction `0` (a zero initial scale) makes every initial weight zero -/
theorem zeroK_zipWith_kflInitDim_zero : ∀ (ms : List Bool) (smp : List (List Rat)),
    ZeroK (List.zipWith (kflInitDim 0) ms smp)
  | [], _ => by intro k hk; simp at hk
  | _ :: _, [] => by intro k hk; simp at hk
  | m :: ms, col :: rest => by
    intro k hk v hv
    simp only [List.zipWith_cons_cons, List.mem_cons] at hk
    rcases hk with rfl | hk
    · obtain ⟨x, _, rfl⟩ := mem_kflInitDim hv; ring
    · exact zeroK_zipWith_kflInitDim_zero ms rest k hk v hv

open Tfl.Init in
/-- one initial `(unit, term)` block (draws from `[a, b]`, `0 ≤ a`, `b ≤ 1` with both bounds) with root factor `1`
is feasible -/
theorem feasTerm_kflInitTerm (L : Nat) (ms : List Bool) (olo ohi : Option Rat) (a b : Rat) (ha : 0 ≤ a)
    (hb1 : olo.isSome = true → ohi.isSome = true → b ≤ 1) (s : Rat) (smp : List (List Rat))
    (hs : SamplesOk L ms a b smp) : FeasTerm L ms olo ohi s 1 (kflInitTerm ms s smp) := by
  have hb : TermBoundOk olo ohi (kflInitTerm ms s smp) :=
    Tfl.C10.boundOkK_kflInit_explicit L ms olo ohi a b ha hb1 [s] [smp]
      (fun x hx => by simp only [List.mem_cons, List.not_mem_nil, or_false] at hx; subst hx; exact hs)
      _ (by simp [kflInit])
  refine ⟨fun hany => ?_, hb, fun h1 h2 => ⟨le_refl _, ?_⟩⟩
  · simp only [kflInitTerm, hany, if_true]
    refine ⟨dimsOk_zipWith L s a b ha ms smp hs, fun hs0 => ?_⟩
    have : sgn s = 0 := by rw [hs0]; exact sgn_zero
    rw [this]; exact zeroK_zipWith_kflInitDim_zero ms smp
  · rw [rpow_one]
    cases olo <;> cases ohi <;> simp at h1 h2
    unfold fullFactor
    exact (max_eq_right hb).symm

open Tfl.Init in
theorem feasible_kflInit (L : Nat) (ms : List Bool) (olo ohi : Option Rat) (a b : Rat) (ha : 0 ≤ a)
    (hb1 : olo.isSome = true → ohi.isSome = true → b ≤ 1) :
    ∀ (scale : List Rat) (samples : List (List (List Rat))), samples.length = scale.length →
      (∀ smp ∈ samples, SamplesOk L ms a b smp) →
      Feasible L ms olo ohi scale (List.replicate scale.length 1) (kflInit ms scale samples)
  | [], [], _, _ => trivial
  | [], _ :: _, h, _ => by simp at h
  | _ :: _, [], h, _ => by simp at h
  | s :: ss, smp :: rest, h, hs => by
    simp only [kflInit, List.length_cons, List.replicate_succ, Feasible]
    exact ⟨feasTerm_kflInitTerm L ms olo ohi a b ha hb1 s smp (hs smp (List.mem_cons_self ..)),
      feasible_kflInit L ms olo ohi a b ha hb1 ss rest (by simpa using h)
        (fun x hx => hs x (List.mem_cons_of_mem _ hx))⟩

open Tfl.Init in
/-- **(b1) the initial KFL (kernel, scale) is a fixed point of the layer's constraints** (closes "the initial KFL
(kernel, scale) as a fixed point of the KFL constraints", DESIGN §8): for every `lattice_sizes`, dims,
`monotonicities`, bound mode (`output_min ≤ output_max`), number of terms `T`, every initialisation range `[a, b]`
with `0 ≤ a` and, when both bounds are set, `b ≤ 1` (outside: findings F-C10-e / F-C10-f) and EVERY admissible draw
(`samples`: one block per term, `SamplesOk` = one column of `L` uniform draws from `[a, b]` per dimension), the
kernel of `kfl_random_monotonic_initializer` with the scale of `scale_initializer` is `Feasible` (root factors
`1 = pow(1.0, 1/dims)`), so both constraint objects return them unchanged, and so does `finalize_constraints()`.
Also for `output_min = output_max` (scale `0`, kernel `0`). -/
theorem kfl_init_fixed_range (L : Nat) (ms : List Bool) (olo ohi : Option Rat)
    (hlh : ∀ l h, olo = some l → ohi = some h → l ≤ h) (T : Nat) (a b : Rat) (ha : 0 ≤ a)
    (hb1 : olo.isSome = true → ohi.isSome = true → b ≤ 1) (samples : List (List (List Rat)))
    (hT : samples.length = T) (hs : ∀ smp ∈ samples, SamplesOk L ms a b smp) :
    let sc := scaleInit T olo ohi
    let K0 := kflInit ms sc samples
    Feasible L ms olo ohi sc (List.replicate T 1) K0 ∧
    kernelConstraint ms olo ohi sc (List.replicate T 1) K0 = K0 ∧ scaleConstraint olo ohi sc = sc ∧
    finalizeConstraints ms olo ohi (List.replicate T 1) ⟨K0, sc⟩ = ⟨K0, sc⟩ := by
  intro sc K0
  have hlen : sc.length = T := length_scaleInit T olo ohi
  have hF : Feasible L ms olo ohi sc (List.replicate T 1) K0 := by
    have := feasible_kflInit L ms olo ohi a b ha hb1 sc samples (by rw [hT, hlen]) hs
    rwa [hlen] at this
  have hS := sOk_scaleInit T olo ohi hlh
  obtain ⟨e1, e2⟩ := kfl_feasible_fixed L ms olo ohi sc _ K0 hF hS
  exact ⟨hF, e1, e2, (kfl_feasible_fixed_runs L ms olo ohi ⟨K0, sc⟩ _ hF hS).1⟩

open Tfl.Init in
theorem defaultRange_ok (olo ohi : Option Rat) :
    0 ≤ (kflDefaultInitParams olo ohi).1 ∧
    (olo.isSome = true → ohi.isSome = true → (kflDefaultInitParams olo ohi).2 ≤ 1) := by
  cases olo <;> cases ohi <;> simp [kflDefaultInitParams]

open Tfl.Init in
/-- (b1) for the layer's DEFAULT initialisation range (`default_init_params`: `[1/2, 3/2]` without bounds, `[0, 1]`
with a bound): no hypothesis beyond `output_min ≤ output_max` and the shape of the draws. -/
theorem kfl_init_fixed (L : Nat) (ms : List Bool) (olo ohi : Option Rat)
    (hlh : ∀ l h, olo = some l → ohi = some h → l ≤ h) (T : Nat) (samples : List (List (List Rat)))
    (hT : samples.length = T)
    (hs : ∀ smp ∈ samples, SamplesOk L ms (kflDefaultInitParams olo ohi).1 (kflDefaultInitParams olo ohi).2 smp) :
    let sc := scaleInit T olo ohi
    let K0 := kflInit ms sc samples
    Feasible L ms olo ohi sc (List.replicate T 1) K0 ∧
    kernelConstraint ms olo ohi sc (List.replicate T 1) K0 = K0 ∧ scaleConstraint olo ohi sc = sc ∧
    finalizeConstraints ms olo ohi (List.replicate T 1) ⟨K0, sc⟩ = ⟨K0, sc⟩ :=
  kfl_init_fixed_range L ms olo ohi hlh T _ _ (defaultRange_ok olo ohi).1 (defaultRange_ok olo ohi).2 samples hT hs

/-! ### acceptance by `assert_constraints` (`acceptsKfl`, layout keypoint → dimension → term) -/

/-- the code's `(lattice_sizes, dims, num_terms)` view of one unit's kernel, from the model's
terms → dims → vertices layout (`K[t][d][k] = w[k][d][t]`) -/
def toKdt (L dims T : Nat) (K : List (List (List Rat))) : List (List (List Rat)) :=
  (List.range L).map fun k => (List.range dims).map fun d => (List.range T).map fun t =>
    ((K.getD t []).getD d []).getD k 0

theorem get3_toKdt (L dims T : Nat) (K : List (List (List Rat))) (k d t : Nat) (hk : k < L) (hd : d < dims)
    (ht : t < T) : Tfl.Asserts.get3 (toKdt L dims T K) k d t = ((K.getD t []).getD d []).getD k 0 := by
  simp [Tfl.Asserts.get3, toKdt, List.getD_eq_getElem?_getD, hk, hd, ht]

theorem kernelOk_get (L : Nat) (ms : List Bool) : ∀ (scale : List Rat) (K : List (List (List Rat))) (t : Nat),
    KernelOk L ms scale K → t < scale.length → t < K.length → DimsOk L (sgn (scale.getD t 0)) ms (K.getD t [])
  | [], _, _, _, h, _ => by simp at h
  | _ :: _, [], _, _, _, h => by simp at h
  | s :: ss, kt :: ks, 0, h, _, _ => h.1
  | s :: ss, kt :: ks, t + 1, h, h1, h2 => by
    simpa using kernelOk_get L ms ss ks t h.2 (by simpa using h1) (by simpa using h2)

theorem dimsOk_get (L : Nat) (σ : Rat) : ∀ (ms : List Bool) (kt : List (List Rat)) (d : Nat),
    DimsOk L σ ms kt → ms.getD d false = true →
      (kt.getD d []).length = L ∧ Nondec ((kt.getD d []).map (σ * ·))
  | [], [], _, _, hm => by simp at hm
  | [], _ :: _, _, h, _ => by simp [DimsOk] at h
  | _ :: _, [], _, h, _ => by simp [DimsOk] at h
  | m :: ms, k :: ks, 0, h, hm => h.1.2 (by simpa using hm)
  | m :: ms, k :: ks, d + 1, h, hm => by simpa using dimsOk_get L σ ms ks d h.2 (by simpa using hm)

theorem nondec_getD : ∀ (l : List Rat) (j : Nat), Nondec l → j + 1 < l.length → l.getD j 0 ≤ l.getD (j + 1) 0
  | [], _, _, h => by simp at h
  | [_], _, _, h => by simp at h
  | x :: y :: r, 0, h, _ => by simpa using h.1
  | x :: y :: r, j + 1, h, hj => by
    simpa using nondec_getD (y :: r) j h.2 (by simpa using hj)

theorem getD_map_mul (σ : Rat) (l : List Rat) (j : Nat) : (l.map (σ * ·)).getD j 0 = σ * l.getD j 0 := by
  simp only [List.getD_eq_getElem?_getD, List.getElem?_map]
  cases l[j]? <;> simp

theorem nonneg_getD (l : List Rat) (h : Nonneg l) (j : Nat) : 0 ≤ l.getD j 0 := by
  rw [List.getD_eq_getElem?_getD]
  cases e : l[j]? with
  | none => simp
  | some v => simpa using h v (List.mem_of_getElem? e)

theorem abs_getD_le_maxAbs : ∀ (l : List Rat) (j : Nat), |l.getD j 0| ≤ maxAbs l
  | [], _ => by simp [maxAbs]
  | x :: xs, 0 => by simp only [List.getD_cons_zero, maxAbs, ratAbs_eq]; exact le_max_left _ _
  | x :: xs, j + 1 => by
    simp only [List.getD_cons_succ, maxAbs]
    exact le_trans (abs_getD_le_maxAbs xs j) (le_max_right _ _)

theorem getD_mem_or_nil (kt : List (List Rat)) (d : Nat) : kt.getD d [] ∈ kt ∨ kt.getD d [] = [] := by
  rw [List.getD_eq_getElem?_getD]
  cases e : kt[d]? with
  | none => right; rfl
  | some v => left; simpa using List.mem_of_getElem? e

theorem map_range_getD (f : List Rat → Rat) (l : List (List Rat)) :
    (List.range l.length).map (fun d => f (l.getD d [])) = l.map f := by
  apply List.ext_getElem
  · simp
  · intro i h1 h2
    simp only [List.length_map, List.length_range] at h1
    simp [List.getD_eq_getElem?_getD, List.getElem?_eq_getElem h1]

open Tfl.Asserts Tfl.C12 in
/-- **feasible ⇒ accepted with `eps = 0`**: a (kernel, scale) meeting the C07 premises (`KOk`, `SOk`) passes every
assertion of `kronecker_factored_lattice_lib.assert_constraints` with `eps = 0`, in every configuration.
`monosI` is the code's integer `monotonicities`, `ms` the Booleans of the projection model. -/
theorem kfl_feasible_accepted (L dims : Nat) (hL : 0 < L) (ms : List Bool) (monosI : List Int)
    (hms : ∀ d, d < dims → monosI.getD d 0 ≠ 0 → ms.getD d false = true) (lo hi : Option Rat)
    (scale : List Rat) (K : List (List (List Rat))) (hlen : scale.length = K.length)
    (hdims : ∀ kt ∈ K, kt.length = dims) (hK : KOk L ms lo hi ⟨K, scale⟩) (hS : SOk lo hi scale) :
    acceptsKfl L dims K.length monosI lo hi (toKdt L dims K.length K) scale 0 = true := by
  rw [kfl_iff]
  refine ⟨?_, ?_⟩
  · intro d hd hm j hj t ht
    have hd' : d < dims := lt_of_lt_of_le hd (min_le_left _ _)
    have hmb := hms d hd' hm
    have hko := hK.1 (Tfl.C07.any_of_getD ms d hmb)
    have hD := kernelOk_get L ms scale K t hko (by rw [hlen]; exact ht) ht
    obtain ⟨hl, hn⟩ := dimsOk_get L _ ms _ d hD hmb
    rw [get3_toKdt L dims _ K (j + 1) d t (by omega) hd' ht, get3_toKdt L dims _ K j d t (by omega) hd' ht]
    have := nondec_getD _ j hn (by rw [List.length_map, hl]; omega)
    rw [getD_map_mul, getD_map_mul] at this
    have e : sign (getV scale t) = sgn (scale.getD t 0) := rfl
    rw [e]; linarith
  · have hget : ∀ t, t < K.length → K.getD t [] ∈ K := by
      intro t ht
      rw [List.getD_eq_getElem?_getD, List.getElem?_eq_getElem ht]; simp
    have hnonneg : (∀ kt ∈ K, AllNonneg kt) →
        ∀ k, k < L → ∀ d, d < dims → ∀ t, t < K.length → 0 ≤ get3 (toKdt L dims K.length K) k d t := by
      intro h k hk d hd t ht
      rw [get3_toKdt L dims _ K k d t hk hd ht]
      rcases getD_mem_or_nil (K.getD t []) d with hmem | hnil
      · exact nonneg_getD _ (h _ (hget t ht) _ hmem) k
      · rw [hnil]; simp
    have hB := hK.2
    unfold KflBoundsOK
    unfold SOk at hS
    unfold BoundOkK TermBoundOk at hB
    cases lo <;> cases hi <;> simp only at hB hS ⊢
    · exact ⟨hnonneg hB, hS⟩
    · exact ⟨hnonneg hB, hS⟩
    · refine ⟨fun t ht => ?_, fun s hs => abs_le.mp (hS s hs)⟩
      have hkt := hget t ht
      have h1 : kflMaxOut L dims (toKdt L dims K.length K) t ≤ maxOutput (K.getD t []) := by
        have hle := (rprod_map_le (List.range dims) (fun d => kflMaxAbs L (toKdt L dims K.length K) d t)
          (fun d => maxAbs ((K.getD t []).getD d [])) (fun d hd => ⟨kflMaxAbs_nonneg _ _ _ _, ?_⟩)).2
        · unfold kflMaxOut maxOutput
          rw [← map_range_getD maxAbs (K.getD t []), hdims _ hkt]
          exact hle
        · rw [kflMaxAbs_le_iff _ _ _ _ _ hL]
          intro k hk
          rw [get3_toKdt L dims _ K k d t hk (List.mem_range.mp hd) ht]
          exact abs_getD_le_maxAbs _ k
      have := hB _ hkt
      linarith

open Tfl.Init Tfl.Asserts in
/-- **(b2) the initial KFL (kernel, scale) is accepted by the layer's own assert with `eps = 0`** (closes "… and its
acceptance by the KFL assert", DESIGN §8): same quantification as `kfl_init_fixed_range`; `lattice_sizes ≥ 1`. -/
theorem kfl_init_accepted_range (L : Nat) (hL : 0 < L) (ms : List Bool) (monosI : List Int)
    (hms : ∀ d, d < ms.length → monosI.getD d 0 ≠ 0 → ms.getD d false = true) (olo ohi : Option Rat)
    (hlh : ∀ l h, olo = some l → ohi = some h → l ≤ h) (T : Nat) (a b : Rat) (ha : 0 ≤ a)
    (hb1 : olo.isSome = true → ohi.isSome = true → b ≤ 1) (samples : List (List (List Rat)))
    (hT : samples.length = T) (hs : ∀ smp ∈ samples, SamplesOk L ms a b smp) :
    acceptsKfl L ms.length T monosI olo ohi
      (toKdt L ms.length T (kflInit ms (scaleInit T olo ohi) samples)) (scaleInit T olo ohi) 0 = true := by
  have hlen : (scaleInit T olo ohi).length = T := length_scaleInit T olo ohi
  have hKlen : (kflInit ms (scaleInit T olo ohi) samples).length = T := by
    rw [length_kflInit ms _ samples (by rw [hT, hlen]), hlen]
  obtain ⟨hF, _⟩ := kfl_init_fixed_range L ms olo ohi hlh T a b ha hb1 samples hT hs
  have hK := feasible_kOk L ms olo ohi _ _ _ hF
  have hdims : ∀ kt ∈ kflInit ms (scaleInit T olo ohi) samples, kt.length = ms.length := by
    intro kt hkt
    obtain ⟨s, smp, hsmp, rfl⟩ := mem_kflInit hkt
    have := (hs smp hsmp).1
    unfold kflInitTerm; split
    · simp [this]
    · exact this
  have := kfl_feasible_accepted L ms.length hL ms monosI hms olo ohi _ _ (by rw [hlen, hKlen]) hdims hK
    (sOk_scaleInit T olo ohi hlh)
  rwa [hKlen] at this

open Tfl.Init Tfl.Asserts in
/-- (b2) for the layer's default initialisation range -/
theorem kfl_init_accepted (L : Nat) (hL : 0 < L) (ms : List Bool) (monosI : List Int)
    (hms : ∀ d, d < ms.length → monosI.getD d 0 ≠ 0 → ms.getD d false = true) (olo ohi : Option Rat)
    (hlh : ∀ l h, olo = some l → ohi = some h → l ≤ h) (T : Nat) (samples : List (List (List Rat)))
    (hT : samples.length = T)
    (hs : ∀ smp ∈ samples, SamplesOk L ms (kflDefaultInitParams olo ohi).1 (kflDefaultInitParams olo ohi).2 smp) :
    acceptsKfl L ms.length T monosI olo ohi
      (toKdt L ms.length T (kflInit ms (scaleInit T olo ohi) samples)) (scaleInit T olo ohi) 0 = true :=
  kfl_init_accepted_range L hL ms monosI hms olo ohi hlh T _ _ (defaultRange_ok olo ohi).1
    (defaultRange_ok olo ohi).2 samples hT hs

/-! ### non-vacuity of (b): L = 3, dims 2 (first monotone), bounds [-1, 3], two terms (scale `[2, -2]`) -/

open Tfl.Init Tfl.Asserts in
example :
    let samples : List (List (List Rat)) := [[[1/2, 1/4, 1], [1/3, 1, 0]], [[1/8, 7/8, 3/8], [1, 1/2, 3/4]]]
    (∀ smp ∈ samples, SamplesOk 3 [true, false] (kflDefaultInitParams (some (-1)) (some 3)).1
        (kflDefaultInitParams (some (-1)) (some 3)).2 smp) ∧
    scaleInit 2 (some (-1)) (some 3) = [2, -2] ∧
    kflInit [true, false] [2, -2] samples = [[[1/4, 1/2, 1], [1/3, 1, 0]], [[7/8, 3/8, 1/8], [1, 1/2, 3/4]]] ∧
    toKdt 3 2 2 (kflInit [true, false] [2, -2] samples) =
      [[[1/4, 7/8], [1/3, 1]], [[1/2, 3/8], [1, 1/2]], [[1, 1/8], [0, 3/4]]] ∧
    acceptsKfl 3 2 2 [1, 0] (some (-1)) (some 3) (toKdt 3 2 2 (kflInit [true, false] [2, -2] samples)) [2, -2] 0 = true ∧
    -- the assert is not vacuous: un-sorting the monotone column of term 0 is rejected
    acceptsKfl 3 2 2 [1, 0] (some (-1)) (some 3)
      [[[1/2, 7/8], [1/3, 1]], [[1/4, 3/8], [1, 1/2]], [[1, 1/8], [0, 3/4]]] [2, -2] 0 = false := by
  refine ⟨?_, by decide +kernel, by decide +kernel, by decide +kernel, by decide +kernel, by decide +kernel⟩
  intro smp hsmp
  simp only [List.mem_cons, List.not_mem_nil, or_false] at hsmp
  rcases hsmp with rfl | rfl <;> refine ⟨rfl, ?_⟩ <;> intro col hcol <;>
    simp only [List.mem_cons, List.not_mem_nil, or_false] at hcol <;>
    rcases hcol with rfl | rfl <;> refine ⟨rfl, ?_⟩ <;> intro x hx <;>
    simp only [List.mem_cons, List.not_mem_nil, or_false] at hx <;>
    rcases hx with rfl | rfl | rfl <;> simp [kflDefaultInitParams] <;> norm_num

end Tfl.C07Fix
