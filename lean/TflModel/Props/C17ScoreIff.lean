import TflModel.Props.C17ScorePos
/-!
# C17 — the F-C17-a exclusion expressed on the prefitting kernels

`crystals_from_kernels_structure_of_kernels` (Props/C17Score.lean) keeps `0 < importance score` as a hypothesis
on the COMPUTED scores.  Here that hypothesis is replaced by a condition on the kernels themselves:
`NonFlatAt lattices kernels f` — some prefitting lattice contains feature `f` and its normalised kernel is not
flat in that dimension.

* `importance_pos_iff_not_flat` — `0 < importance f ↔ NonFlatAt lattices kernels f` (both directions, all
  lattices / kernels / feature counts, whenever the scoring returns scores);
* `importance_eq_zero_iff_all_flat` — the same, as a characterisation of the zero score of finding F-C17-a;
* `crystals_from_kernels_structure_iff` — the structure theorem with kernel-level hypotheses only;
* `flat_feature_witness` — the counter-direction on a concrete cover.
-/
namespace Tfl.C17Score
open Tfl Tfl.Reg Tfl.Ensembles Tfl.CrystalsScore

/-- **kernel-level condition**: some prefitting lattice `j` contains feature `f` (at position `p`), its kernel
normalises (`k'`), and the normalised kernel is NOT flat in dimension `p` -/
def NonFlatAt (lattices : List (List Nat)) (kernels : List (List Rat)) (f : Nat) : Prop :=
  ∃ (j : Nat) (hj : j < lattices.length) (hj' : j < kernels.length) (p : Nat) (hp : p < lattices[j].length)
    (k' : List Rat), lattices[j][p] = f ∧ normalizeKernel kernels[j] = .ok k' ∧
      ¬ FlatIn lattices[j].length (Table.ofVals (sizesOf lattices[j].length) k').get p

theorem not_flat_of_lapAt_ne {d p : Nat} (hp : p < d) (w : W) (h : lapAt d w p ≠ 0) : ¬ FlatIn d w p :=
  fun hf => h ((lapAt_eq_zero_iff hp w).mpr hf)

theorem importanceScores_length (n : Nat) (tl : List (List Rat) × List Rat) : (importanceScores n tl).length = n := by
  simp [importanceScores, importance]

/-- `0 < importance f` from the kernel-level condition (repackaging of `importance_pos_of_not_flat`) -/
theorem importance_pos_of_nonFlatAt (lattices : List (List Nat)) (kernels : List (List Rat)) (n : Nat)
    (tl : List (List Rat) × List Rat) (hok : torsionsAndLaplacians lattices kernels n = .ok tl)
    (f : Nat) (hf : f < n) (h : NonFlatAt lattices kernels f) : 0 < (importanceScores n tl).getD f 0 := by
  obtain ⟨t, lap⟩ := tl
  obtain ⟨j, hj, hj', p, hp, k', hfp, hk', hflat⟩ := h
  exact importance_pos_of_not_flat lattices kernels n t lap hok j hj hj' p hp f hf hfp k' hk' hflat

/-- all importance scores are strictly positive when every feature is non-flat in some prefitting kernel -/
theorem importance_all_pos (lattices : List (List Nat)) (kernels : List (List Rat)) (n : Nat)
    (tl : List (List Rat) × List Rat) (hok : torsionsAndLaplacians lattices kernels n = .ok tl)
    (h : ∀ f, f < n → NonFlatAt lattices kernels f) : ∀ s ∈ importanceScores n tl, 0 < s := by
  intro s hs
  obtain ⟨f, hf, rfl⟩ := List.getElem_of_mem hs
  have hf' : f < n := by simpa [importanceScores_length] using hf
  have := importance_pos_of_nonFlatAt lattices kernels n tl hok f hf' (h f hf')
  rwa [List.getD_eq_getElem?_getD, List.getElem?_eq_getElem hf, Option.getD_some] at this

/-- **C17 scoring path (b) with the F-C17-a exclusion on the KERNELS.**  `r < n ≤ L·r`; as many kernels as
prefitting lattices, every kernel of size `2 ^ len(lattice)` and non-constant (F-C17-b), every feature in some
prefitting lattice; **every feature is non-flat in some prefitting kernel that contains it** (`NonFlatAt`: this
replaces the hypothesis `0 < importance score` of `crystals_from_kernels_structure_of_kernels`; a feature flat
in all its kernels is exactly finding F-C17-a, see `importance_pos_iff_not_flat`); `argsort` returns a
descending sort of the computed scores.  Then `_get_final_crystal_lattices` returns `L` lattices of exactly `r`
features each and every feature is placed.  Closes the DESIGN §8 limit "the strict positivity of the importance
scores is a hypothesis on computed scores, not on kernels". -/
theorem crystals_from_kernels_structure_iff (argsort : List Rat → List Nat) (n L r : Nat)
    (lattices : List (List Nat)) (kernels : List (List Rat)) (fuel : Nat)
    (hrn : r < n) (hn : n ≤ L * r)
    (hlen : lattices.length = kernels.length)
    (hk : ∀ p ∈ lattices.zip kernels, p.2.length = 2 ^ p.1.length ∧ NonConstant p.2)
    (hcov : ∀ f, f < n → ∃ lat ∈ lattices, f ∈ lat)
    (hnf : ∀ f, f < n → NonFlatAt lattices kernels f)
    (hsort : ∀ tl, torsionsAndLaplacians lattices kernels n = .ok tl →
      (argsort (importanceScores n tl)).Perm (List.range n) ∧
      sortedDesc (importanceScores n tl) (argsort (importanceScores n tl)) = true) :
    ∃ lats cap, crystalsFromKernels argsort n L r lattices kernels fuel = .ok (lats, cap) ∧ lats.length = L ∧
      (∀ l ∈ lats, l.length = r) ∧ ∀ f, f < n → ∃ l ∈ lats, f ∈ l :=
  crystals_from_kernels_structure_of_kernels argsort n L r lattices kernels fuel hrn hn hlen hk hcov
    (fun tl htl => ⟨importance_all_pos lattices kernels n tl htl hnf, hsort tl htl⟩)

/-- non-vacuity of `crystals_from_kernels_structure_iff`: cover `[[0,1],[1,2],[0,2]]`, kernels
`[0,1,2,5]`, `[0,1/8,1,1]`, `[1,0,0,1]`: every feature `< 3` is non-flat in some kernel containing it (the
Laplacian terms `4/5`, `1/32`, `2` are non-zero), and the structure is computed. -/
example : (∀ f, f < 3 → NonFlatAt [[0, 1], [1, 2], [0, 2]] [[0, 1, 2, 5], [0, 1/8, 1, 1], [1, 0, 0, 1]] f) ∧
    crystalsFromKernels (fun _ => [0, 2, 1]) 3 2 2 [[0, 1], [1, 2], [0, 2]]
      [[0, 1, 2, 5], [0, 1/8, 1, 1], [1, 0, 0, 1]] = .ok ([[1, 2], [0, 2]], false) := by
  refine ⟨?_, by decide +kernel⟩
  intro f hf
  have h0 : NonFlatAt [[0, 1], [1, 2], [0, 2]] [[0, 1, 2, 5], [0, 1/8, 1, 1], [1, 0, 0, 1]] 0 :=
    ⟨0, by decide, by decide, 0, by decide, [0, 1/5, 2/5, 1], rfl, by decide +kernel,
      not_flat_of_lapAt_ne (by decide) _ (by decide +kernel)⟩
  have h1 : NonFlatAt [[0, 1], [1, 2], [0, 2]] [[0, 1, 2, 5], [0, 1/8, 1, 1], [1, 0, 0, 1]] 1 :=
    ⟨0, by decide, by decide, 1, by decide, [0, 1/5, 2/5, 1], rfl, by decide +kernel,
      not_flat_of_lapAt_ne (by decide) _ (by decide +kernel)⟩
  have h2 : NonFlatAt [[0, 1], [1, 2], [0, 2]] [[0, 1, 2, 5], [0, 1/8, 1, 1], [1, 0, 0, 1]] 2 :=
    ⟨2, by decide, by decide, 1, by decide, [1, 0, 0, 1], rfl, by decide +kernel,
      not_flat_of_lapAt_ne (by decide) _ (by decide +kernel)⟩
  rcases f with _ | _ | _ | f
  · exact h0
  · exact h1
  · exact h2
  · omega

/-! ## the converse: a feature flat in all its kernels has importance score `0` (needs the torsion model) -/

theorem setc_mem_allIdx {S : List Nat} {idx : Idx} {a v : Nat} (h : idx ∈ allIdx S) (ha : a < S.length)
    (hv : v < coord S a) : setc idx a v ∈ allIdx S := by
  rw [mem_allIdx_box] at h ⊢
  refine ⟨by simpa using h.1, ?_⟩
  intro d' hd'
  by_cases hda : a = d'
  · subst hda
    rw [coord_setc_same v (by rw [h.1]; exact ha)]
    exact hv
  · rw [coord_setc_ne v hda]
    exact h.2 d' hd'

theorem twist_comm (w : W) {i j : Nat} (hij : i ≠ j) (idx : Idx) : twist w i j idx = twist w j i idx := by
  simp only [twist]
  rw [setc_comm idx (coord idx i + 1) (coord idx j + 1) hij]
  ring

theorem twist_zero_of_flat_left {d i j : Nat} (_hi : i < d) (hj : j < d) (hij : i ≠ j) (w : W)
    (hflat : FlatIn d w i) (idx : Idx) (hidx : idx ∈ allIdx (sizesOf d))
    (h1 : coord idx i + 1 < coord (sizesOf d) i) (h2 : coord idx j + 1 < coord (sizesOf d) j) :
    twist w i j idx = 0 := by
  simp only [twist]
  have e1 := hflat idx hidx h1
  have hmem : setc idx j (coord idx j + 1) ∈ allIdx (sizesOf d) :=
    setc_mem_allIdx hidx (by simpa [sizesOf] using hj) h2
  have hc : coord (setc idx j (coord idx j + 1)) i = coord idx i := coord_setc_ne _ (Ne.symm hij)
  have e2 := hflat _ hmem (by rw [hc]; exact h1)
  rw [hc] at e2
  rw [setc_comm idx (coord idx i + 1) (coord idx j + 1) hij, e2, e1]
  ring

theorem getR_unit2_other {d i j a : Nat} (hai : a ≠ i) (haj : a ≠ j) : getR (unit2 d i j) a = 0 := by
  simp only [getR, unit2, List.getD_eq_getElem?_getD, List.getElem?_map]
  by_cases ha : a < d
  · simp [List.getElem?_range ha, hai, haj]
  · simp [List.getElem?_eq_none (l := List.range d) (by simpa using Nat.le_of_not_lt ha)]

/-- **torsion term of the scoring path vanishes on a kernel flat in one of the two dimensions** -/
theorem torAt_eq_zero_of_flat {d i j : Nat} (hij : i < j) (hj : j < d) (w : W)
    (hflat : FlatIn d w i ∨ FlatIn d w j) : torAt d w i j = .ok 0 := by
  simp only [torAt, torsion, torAmounts, Amt.truthy, bind, Except.bind, pure, Except.pure,
     bne_self_eq_false, Bool.false_eq_true, if_false, gt_iff_lt, Nat.lt_irrefl]
  split
  · rfl
  · have hne : (!(unit2 d i j).isEmpty) = true := by
      cases d with
      | zero => omega
      | succ d => simp [unit2, List.range_succ]
    simp only [hne, if_true]
    congr 1
    rw [torCore_eq_spec]
    unfold torSpec
    apply Tfl.rsum_eq_zero
    intro x hx
    obtain ⟨a, ha, rfl⟩ := List.mem_map.mp hx
    apply Tfl.rsum_eq_zero
    intro y hy
    obtain ⟨b, hb, rfl⟩ := List.mem_map.mp hy
    apply Tfl.rsum_eq_zero
    intro z hz
    obtain ⟨idx, hidx, rfl⟩ := List.mem_map.mp hz
    have hidx' := List.mem_filter.mp hidx
    have hb' := List.mem_range'_1.mp hb
    have hab : a < b := by omega
    have hbd : b < d := by
      have : (sizesOf d).length = d := by simp [sizesOf]
      omega
    have hp1 : tpair none a b = 0 := rfl
    by_cases hsame : a = i ∧ b = j
    · obtain ⟨rfl, rfl⟩ := hsame
      have hc := hidx'.2
      simp only [decide_eq_true_eq] at hc
      have htw : twist w a b idx = 0 := by
        rcases hflat with hf | hf
        · exact twist_zero_of_flat_left (by omega) hbd (by omega) w hf idx hidx'.1 hc.1 hc.2
        · rw [twist_comm w (by omega)]
          exact twist_zero_of_flat_left hbd (by omega) (by omega) w hf idx hidx'.1 hc.2 hc.1
      rw [htw, absSq_zero]
    · have hp2 : tpair (some (.list (unit2 d i j))) a b = 0 := by
        simp only [tpair, TAmt.pair]
        by_cases hai : a = i
        · have hbj : b ≠ j := fun h => hsame ⟨hai, h⟩
          have hbi : b ≠ i := by omega
          rw [getR_unit2_other hbi hbj]; ring
        · by_cases haj : a = j
          · have hbj : b ≠ j := by omega
            have hbi : b ≠ i := by omega
            rw [getR_unit2_other hbi hbj]; ring
          · rw [getR_unit2_other hai haj]; ring
      rw [hp1, hp2, absSq_zero_amounts]

theorem mem_pairsOf {d : Nat} {p : Nat × Nat} (h : p ∈ pairsOf d) : p.1 < p.2 ∧ p.2 < d := by
  simp only [pairsOf, List.mem_flatMap, List.mem_range, List.mem_map] at h
  obtain ⟨i, hi, j, hj, rfl⟩ := h
  have := List.mem_range'_1.mp hj
  simp only
  omega

/-- one prefitting lattice: if its normalised kernel is flat in every position that holds feature `f`, every
value it appends for `f` (Laplacian of `f`, torsions of pairs with `f`) is `0` -/
theorem latticeObs_flat_zero (lat : List Nat) (kernel : List Rat) (o : Obs) (h : latticeObs lat kernel = .ok o)
    (f : Nat)
    (hflat : ∀ (p : Nat) (hp : p < lat.length) (k' : List Rat), lat[p] = f → normalizeKernel kernel = .ok k' →
      FlatIn lat.length (Table.ofVals (sizesOf lat.length) k').get p) :
    (∀ x ∈ o.laps, x.1 = f → x.2 = 0) ∧ (∀ x ∈ o.tors, (x.1 = f ∨ x.2.1 = f) → x.2.2 = 0) := by
  unfold latticeObs at h
  simp only at h
  split at h
  · cases h
  · cases hk : normalizeKernel kernel with
    | error e => rw [hk] at h; cases h
    | ok k =>
      rw [hk] at h
      simp only at h
      cases hc : collect (torObs lat (Table.ofVals (sizesOf lat.length) k).get) (pairsOf lat.length) with
      | error e => rw [hc] at h; cases h
      | ok ts =>
        rw [hc] at h
        cases h
        have hget : ∀ i, i < lat.length → lat.getD i 0 = f →
            FlatIn lat.length (Table.ofVals (sizesOf lat.length) k).get i := by
          intro i hi hif
          apply hflat i hi k _ hk
          simpa [List.getD_eq_getElem?_getD, List.getElem?_eq_getElem hi] using hif
        refine ⟨?_, ?_⟩
        · intro x hx hxf
          simp only [List.mem_map, List.mem_range] at hx
          obtain ⟨i, hi, rfl⟩ := hx
          exact (lapAt_eq_zero_iff hi _).mpr (hget i hi hxf)
        · intro x hx hxf
          simp only [List.mem_flatten] at hx
          obtain ⟨l, hl, hxl⟩ := hx
          obtain ⟨p, hp, hpo⟩ := collect_ok_mem _ _ _ hc l hl
          obtain ⟨hp1, hp2⟩ := mem_pairsOf hp
          unfold torObs at hpo
          have hz : ∀ (hff : lat.getD p.1 0 = f ∨ lat.getD p.2 0 = f),
              torAt lat.length (Table.ofVals (sizesOf lat.length) k).get p.1 p.2 = .ok 0 := by
            intro hff
            apply torAt_eq_zero_of_flat hp1 hp2
            rcases hff with hff | hff
            · exact Or.inl (hget _ (by omega) hff)
            · exact Or.inr (hget _ hp2 hff)
          cases ht : torAt lat.length (Table.ofVals (sizesOf lat.length) k).get p.1 p.2 with
          | error e => rw [ht] at hpo; cases hpo
          | ok v =>
            rw [ht] at hpo
            cases hpo
            simp only [List.mem_cons, List.mem_nil_iff, or_false] at hxl
            rcases hxl with rfl | rfl
            · have := hz hxf
              rw [ht] at this
              injection this
            · have := hz hxf.symm
              rw [ht] at this
              injection this

/-- **kernel-level condition, negated**: every normalised prefitting kernel that contains `f` is flat in it -/
def AllFlatAt (lattices : List (List Nat)) (kernels : List (List Rat)) (f : Nat) : Prop :=
  ∀ (j : Nat) (hj : j < lattices.length) (hj' : j < kernels.length) (p : Nat) (hp : p < lattices[j].length)
    (k' : List Rat), lattices[j][p] = f → normalizeKernel kernels[j] = .ok k' →
      FlatIn lattices[j].length (Table.ofVals (sizesOf lattices[j].length) k').get p

theorem allFlatAt_iff_not_nonFlatAt (lattices : List (List Nat)) (kernels : List (List Rat)) (f : Nat) :
    AllFlatAt lattices kernels f ↔ ¬ NonFlatAt lattices kernels f := by
  constructor
  · intro h ⟨j, hj, hj', p, hp, k', h1, h2, h3⟩
    exact h3 (h j hj hj' p hp k' h1 h2)
  · intro h j hj hj' p hp k' h1 h2
    by_contra h3
    exact h ⟨j, hj, hj', p, hp, k', h1, h2, h3⟩

theorem scoring_ok_obs {lattices : List (List Nat)} {kernels : List (List Rat)} {n : Nat}
    {t : List (List Rat)} {lap : List Rat} (hok : torsionsAndLaplacians lattices kernels n = .ok (t, lap)) :
    ∃ obs, collect (fun p => latticeObs p.1 p.2) (lattices.zip kernels) = .ok obs ∧ t = torMeans obs n ∧
      lap = (List.range n).map (fun f => mean (lapList obs f)) := by
  unfold torsionsAndLaplacians at hok
  split at hok
  · cases hok
  · cases hc : collect (fun p => latticeObs p.1 p.2) (lattices.zip kernels) with
    | error e => rw [hc] at hok; cases hok
    | ok obs =>
      rw [hc] at hok
      simp only at hok
      split at hok
      · cases hok
      · injection hok with hok
        injection hok with ht hl
        exact ⟨obs, rfl, ht.symm, hl.symm⟩

theorem mean_eq_zero {l : List Rat} (h : ∀ x ∈ l, x = 0) : mean l = 0 := by
  unfold mean
  rw [Tfl.rsum_eq_zero h]
  simp

theorem getT_torMeans_zero (obs : List Obs) (n a b : Nat) (h : ∀ x ∈ torList obs a b, x = 0) :
    getT (torMeans obs n) a b = 0 := by
  unfold getT torMeans
  rw [List.getD_eq_getElem?_getD (l := List.map _ _), List.getElem?_map]
  by_cases ha : a < n
  · rw [List.getElem?_range ha]
    simp only [Option.map_some, Option.getD_some]
    rw [List.getD_eq_getElem?_getD, List.getElem?_map]
    by_cases hb : b < n
    · rw [List.getElem?_range hb]
      simp only [Option.map_some, Option.getD_some]
      split
      · rfl
      · exact mean_eq_zero h
    · simp [List.getElem?_eq_none (l := List.range n) (by simpa using Nat.le_of_not_lt hb)]
  · simp [List.getElem?_eq_none (l := List.range n) (by simpa using Nat.le_of_not_lt ha)]

/-- **the zero score of F-C17-a, from the kernels**: if every normalised prefitting kernel containing feature
`f` is flat in it, the importance score of `f` computed by the model is exactly `0` (Laplacian mean AND every
torsion mean of a pair with `f` vanish). -/
theorem importance_eq_zero_of_all_flat (lattices : List (List Nat)) (kernels : List (List Rat)) (n : Nat)
    (t : List (List Rat)) (lap : List Rat) (hok : torsionsAndLaplacians lattices kernels n = .ok (t, lap))
    (f : Nat) (hf : f < n) (hflat : AllFlatAt lattices kernels f) :
    (importanceScores n (t, lap)).getD f 0 = 0 := by
  obtain ⟨obs, hc, rfl, rfl⟩ := scoring_ok_obs hok
  have hobs : ∀ o ∈ obs, (∀ x ∈ o.laps, x.1 = f → x.2 = 0) ∧
      (∀ x ∈ o.tors, (x.1 = f ∨ x.2.1 = f) → x.2.2 = 0) := by
    intro o ho
    obtain ⟨q, hq, hqo⟩ := collect_ok_mem _ _ _ hc o ho
    obtain ⟨j, hjz, rfl⟩ := List.getElem_of_mem hq
    have hj : j < lattices.length := by simp [List.length_zip] at hjz; omega
    have hj' : j < kernels.length := by simp [List.length_zip] at hjz; omega
    simp only [List.getElem_zip] at hqo
    exact latticeObs_flat_zero _ _ o hqo f (fun p hp k' h1 h2 => hflat j hj hj' p hp k' h1 h2)
  have hlap0 : ∀ x ∈ lapList obs f, x = 0 := by
    intro x hx
    simp only [lapList, List.mem_map, List.mem_filter, List.mem_flatMap] at hx
    obtain ⟨y, ⟨⟨o, ho, hy⟩, hyf⟩, rfl⟩ := hx
    exact (hobs o ho).1 y hy (by simpa using hyf)
  have htor0 : ∀ a b, (a = f ∨ b = f) → ∀ x ∈ torList obs a b, x = 0 := by
    intro a b hab x hx
    simp only [torList, List.mem_map, List.mem_filter, List.mem_flatMap, Bool.and_eq_true, beq_iff_eq] at hx
    obtain ⟨y, ⟨⟨o, ho, hy⟩, hya, hyb⟩, rfl⟩ := hx
    apply (hobs o ho).2 y hy
    rcases hab with rfl | rfl
    · exact Or.inl hya
    · exact Or.inr hyb
  simp only [importanceScores, importance]
  rw [List.getD_eq_getElem?_getD]
  simp only [List.getElem?_map, List.getElem?_range hf, Option.map_some, Option.getD_some]
  have hl : ((List.range n).map fun f => mean (lapList obs f)).getD f 0 = 0 := by
    simp [List.getD_eq_getElem?_getD, hf, mean_eq_zero hlap0]
  have hs : rsum ((List.range n).map fun g =>
      if f < g then getT (torMeans obs n) f g else if g < f then getT (torMeans obs n) g f else 0) = 0 := by
    apply Tfl.rsum_eq_zero
    intro x hx
    obtain ⟨g, _, rfl⟩ := List.mem_map.mp hx
    split
    · exact getT_torMeans_zero obs n f g (htor0 f g (Or.inl rfl))
    · split
      · exact getT_torMeans_zero obs n g f (htor0 g f (Or.inr rfl))
      · rfl
  rw [hl, hs]; ring

/-- **C17 scoring path: `0 < importance score` characterised on the kernels (both directions).**  Whenever the
scoring returns scores (`hok`), for every feature `f < n`: the importance score of `f` is strictly positive IF AND
ONLY IF some prefitting lattice contains `f` and its normalised kernel is not flat in that dimension.  All
lattices, all kernels, any number of features.  `→` uses the torsion model (a torsion term of a pair with `f` is
`0` on a kernel flat in `f`: `torAt_eq_zero_of_flat`), `←` is `importance_pos_of_not_flat`. -/
theorem importance_pos_iff_not_flat (lattices : List (List Nat)) (kernels : List (List Rat)) (n : Nat)
    (tl : List (List Rat) × List Rat) (hok : torsionsAndLaplacians lattices kernels n = .ok tl)
    (f : Nat) (hf : f < n) :
    0 < (importanceScores n tl).getD f 0 ↔ NonFlatAt lattices kernels f := by
  constructor
  · intro hpos
    by_contra hnf
    obtain ⟨t, lap⟩ := tl
    have := importance_eq_zero_of_all_flat lattices kernels n t lap hok f hf
      ((allFlatAt_iff_not_nonFlatAt _ _ _).mpr hnf)
    linarith
  · exact importance_pos_of_nonFlatAt lattices kernels n tl hok f hf

/-- **finding F-C17-a characterised on the kernels**: the importance score of `f` is `0` exactly when every
normalised prefitting kernel containing `f` is flat in it. -/
theorem importance_eq_zero_iff_all_flat (lattices : List (List Nat)) (kernels : List (List Rat)) (n : Nat)
    (tl : List (List Rat) × List Rat) (hok : torsionsAndLaplacians lattices kernels n = .ok tl)
    (f : Nat) (hf : f < n) :
    (importanceScores n tl).getD f 0 = 0 ↔ AllFlatAt lattices kernels f := by
  rw [allFlatAt_iff_not_nonFlatAt, ← importance_pos_iff_not_flat lattices kernels n tl hok f hf]
  obtain ⟨t, lap⟩ := tl
  have hnn := (scores_nonneg lattices kernels n t lap hok).2.2.1
  have hmem : (importanceScores n (t, lap)).getD f 0 ∈ importanceScores n (t, lap) := by
    have hlen : f < (importanceScores n (t, lap)).length := by simpa [importanceScores_length] using hf
    rw [List.getD_eq_getElem?_getD, List.getElem?_eq_getElem hlen, Option.getD_some]
    exact List.getElem_mem hlen
  have := hnn _ hmem
  constructor
  · intro h; linarith
  · intro h; linarith

/-- **the counter-direction on a concrete cover (finding F-C17-a through the kernels)**: cover
`[[0,1],[1,2],[0,2]]`, kernels `[0,1,2,5]`, `[0,0,1,1]`, `[0,0,1,1]` (non-constant; the last two ignore feature 2:
their normalised kernels are flat in position 1, Laplacian term `0`).  The scoring returns scores, the importance
score of feature 2 is exactly `0`, features 0 and 1 have positive scores, and `_get_final_crystal_lattices`
fails (`ValueError`) — the structure theorem's hypothesis `NonFlatAt … 2` fails and so does its conclusion. -/
theorem flat_feature_witness :
    torsionsAndLaplacians [[0, 1], [1, 2], [0, 2]] [[0, 1, 2, 5], [0, 0, 1, 1], [0, 0, 1, 1]] 3 =
      .ok ([[0, 4/25, 0], [4/25, 0, 0], [0, 0, 0]], [7/5, 6/5, 0]) ∧
    importanceScores 3 ([[0, 4/25, 0], [4/25, 0, 0], [0, 0, 0]], [7/5, 6/5, 0]) = [214/25, 184/25, 0] ∧
    ¬ NonFlatAt [[0, 1], [1, 2], [0, 2]] [[0, 1, 2, 5], [0, 0, 1, 1], [0, 0, 1, 1]] 2 ∧
    crystalsFromKernels (fun _ => [0, 1, 2]) 3 2 2 [[0, 1], [1, 2], [0, 2]]
      [[0, 1, 2, 5], [0, 0, 1, 1], [0, 0, 1, 1]] = .error .valueError := by
  have h1 : torsionsAndLaplacians [[0, 1], [1, 2], [0, 2]] [[0, 1, 2, 5], [0, 0, 1, 1], [0, 0, 1, 1]] 3 =
      .ok ([[0, 4/25, 0], [4/25, 0, 0], [0, 0, 0]], [7/5, 6/5, 0]) := by decide +kernel
  have h2 : importanceScores 3 ([[0, 4/25, 0], [4/25, 0, 0], [0, 0, 0]], [7/5, 6/5, 0]) =
      [214/25, 184/25, 0] := by decide +kernel
  refine ⟨h1, h2, ?_, by decide +kernel⟩
  intro hnf
  have := (importance_pos_iff_not_flat _ _ 3 _ h1 2 (by decide)).mpr hnf
  rw [h2] at this
  exact absurd this (by decide +kernel)

end Tfl.C17Score
