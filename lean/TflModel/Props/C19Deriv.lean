import TflModel.Props.C19
import Mathlib.Analysis.Calculus.Deriv.Mul
import Mathlib.Analysis.Calculus.Deriv.Add
import Mathlib.Analysis.Calculus.FDeriv.Mul
import Mathlib.Algebra.BigOperators.Fin
import Mathlib.Topology.Algebra.Order.Archimedean
import Mathlib.Topology.Instances.Real.Lemmas
/-!
# C19 in `HasDerivAt` / `HasFDerivAt` form (real analytic derivatives)

`Props/C19.lean` states C19 over `ℚ` as exact difference quotients. Here the same facts are stated
with Mathlib's analytic derivative over `ℝ`.

The differentiated functions are defined WITHOUT reference to the hand-written gradient:
* `prodAt t i s` — the plain `List.prod` over `ℝ` of the slice `t` (cast entrywise) with entry `i`
  replaced by the real variable `s`;
* `prodFn n v` — the plain product `(List.ofFn v).prod` of a real vector `v : Fin n → ℝ`;
* `dotAt w K j s` — the plain real dot product `Σ_k w_k·K_k` with kernel entry `j` replaced by `s`.
Each of them is pinned to the executable `ℚ`-model on all rational arguments (`prodAt_ratCast`,
`dotAt_ratCast`, `lattice_outAt_ratCast`, …), and — section "any continuous extension" — the
derivative statements hold for EVERY continuous real function that agrees with the model on the
rationals, so nothing depends on the particular extension chosen.

T1 `gradFactor_hasDerivAt`, `gradFactors_hasDerivAt`, `gradFactors_hasFDerivAt`:
  `custom_reduce_prod.grad_fn`'s factor is the partial derivative of the plain product, for every
  pattern of exact zeros; the whole row `gradFactors t` is the gradient (Fréchet derivative).
T2 `lattice_kernel_hasDerivAt`, `simplex_kernel_hasDerivAt`, `pwl_kernel_hasDerivAt`,
  `categorical_kernel_hasDerivAt`: `∂ out / ∂ K_j` = the example's `j`-th interpolation weight, at
  every kernel value; `kernel_hasFDerivAt`: the gradient w.r.t. the whole kernel vector is the weight
  vector. `*_hasDerivAt_of_continuous`: the same for every continuous extension of the model.
-/
namespace Tfl.C19
open Tfl Tfl.Kfl Tfl.Poset

/-! ## casting the rational model into `ℝ` -/

/-- entrywise cast of a rational list -/
def castL (t : List ℚ) : List ℝ := t.map (fun q : ℚ => (q : ℝ))

@[simp] theorem castL_length (t : List ℚ) : (castL t).length = t.length := by simp [castL]

theorem castL_set (t : List ℚ) (i : ℕ) (q : ℚ) : castL (t.set i q) = (castL t).set i (q : ℝ) := by
  simp [castL, List.map_set]

theorem castL_eraseIdx (t : List ℚ) (i : ℕ) : castL (t.eraseIdx i) = (castL t).eraseIdx i := by
  simp [castL, List.eraseIdx_map]

theorem castL_getD (t : List ℚ) (i : ℕ) : (castL t).getD i 0 = ((getR t i : ℚ) : ℝ) := by
  unfold getR castL
  rcases Nat.lt_or_ge i t.length with h | h
  · simp [List.getD_eq_getElem?_getD, h]
  · simp [List.getD_eq_getElem?_getD, h]

/-- the model's `rprod` is `List.prod`, also after the cast to `ℝ` -/
theorem cast_rprod : ∀ t : List ℚ, ((rprod t : ℚ) : ℝ) = (castL t).prod
  | [] => by simp [rprod, castL]
  | a :: t => by
    have := cast_rprod t
    simp only [rprod, castL, List.map_cons, List.prod_cons, Rat.cast_mul] at *
    rw [this]

/-! ## T1: the derivative of the plain product -/

/-- the plain product over `ℝ` with entry `i` replaced by `s` is `s · Π (others)` -/
theorem real_prod_set : ∀ (l : List ℝ) (i : ℕ) (s : ℝ), i < l.length →
    (l.set i s).prod = s * (l.eraseIdx i).prod
  | [], _, _, h => by simp at h
  | a :: l, 0, s, _ => by simp
  | a :: l, i + 1, s, h => by
    have := real_prod_set l i s (by simpa using h)
    simp only [List.set_cons_succ, List.prod_cons, List.eraseIdx_cons_succ, this]
    ring

/-- **pure real statement**: for every real list `l` (any pattern of zeros) the plain product, as a
function of entry `i`, has derivative `Π_{k≠i} l_k` at every point. -/
theorem real_prod_set_hasDerivAt (l : List ℝ) (i : ℕ) (hi : i < l.length) (s : ℝ) :
    HasDerivAt (fun s : ℝ => (l.set i s).prod) (l.eraseIdx i).prod s := by
  have e : (fun s : ℝ => (l.set i s).prod) = fun s => s * (l.eraseIdx i).prod :=
    funext fun s => real_prod_set l i s hi
  rw [e]
  exact hasDerivAt_mul_const _

/-- the plain product `tf.reduce_prod` of the slice `t`, over `ℝ`, with entry `i` replaced by the
real variable `s`. (No reference to `gradFactor`.) -/
noncomputable def prodAt (t : List ℚ) (i : ℕ) (s : ℝ) : ℝ := ((castL t).set i s).prod

/-- `prodAt` is the model's forward product on every rational argument … -/
theorem prodAt_ratCast (t : List ℚ) (i : ℕ) (q : ℚ) :
    prodAt t i (q : ℝ) = ((rprod (t.set i q) : ℚ) : ℝ) := by
  rw [prodAt, cast_rprod, castL_set]

/-- … in particular at the slice's own entry it is the forward value `rprod t` -/
theorem prodAt_self (t : List ℚ) (i : ℕ) : prodAt t i ((getR t i : ℚ) : ℝ) = ((rprod t : ℚ) : ℝ) := by
  rw [prodAt_ratCast]
  congr 2
  unfold getR
  rcases Nat.lt_or_ge i t.length with h | h
  · simp [List.getD_eq_getElem?_getD, h]
  · rw [List.set_eq_of_length_le h]

/-- the cast of the hand-written factor is the real product of the other entries -/
theorem cast_gradFactor (t : List ℚ) (i : ℕ) (hi : i < t.length) :
    ((gradFactor t i : ℚ) : ℝ) = ((castL t).eraseIdx i).prod := by
  rw [gradFactor_eq_prod_others t i hi, cast_rprod, castL_eraseIdx]

/-- **C19/T1, analytic form.** For every slice `t`, every position `i` and EVERY pattern of exact
zeros in `t`, the plain product as a function of entry `i` has derivative
`grad0 + grad1 = gradFactor t i` — at every `s` (the product is affine in `s`), in particular at the
slice's own value `s = t_i`. -/
theorem gradFactor_hasDerivAt (t : List ℚ) (i : ℕ) (hi : i < t.length) (s : ℝ) :
    HasDerivAt (prodAt t i) ((gradFactor t i : ℚ) : ℝ) s := by
  rw [cast_gradFactor t i hi]
  exact real_prod_set_hasDerivAt (castL t) i (by simpa using hi) s

/-- at the slice's own value -/
theorem gradFactor_hasDerivAt_self (t : List ℚ) (i : ℕ) (hi : i < t.length) :
    HasDerivAt (prodAt t i) ((gradFactor t i : ℚ) : ℝ) ((getR t i : ℚ) : ℝ) :=
  gradFactor_hasDerivAt t i hi _

theorem gradFactor_deriv (t : List ℚ) (i : ℕ) (hi : i < t.length) (s : ℝ) :
    deriv (prodAt t i) s = ((gradFactor t i : ℚ) : ℝ) :=
  (gradFactor_hasDerivAt t i hi s).deriv

/-- **C19/T1, the whole gradient row, coordinatewise**: entry `i` of the row `gradFactors t` the
driver prints is the `i`-th partial derivative of the plain product, for all `i` simultaneously. -/
theorem gradFactors_hasDerivAt (t : List ℚ) :
    ∀ i, i < t.length → ∀ s : ℝ,
      HasDerivAt (prodAt t i) ((getR (gradFactors t) i : ℚ) : ℝ) s := by
  intro i hi s
  have : getR (gradFactors t) i = gradFactor t i := by
    unfold getR; rw [gradFactors_get t i hi, gradFactor_eq_prod_others t i hi]
  rw [this]
  exact gradFactor_hasDerivAt t i hi s

/-! ### the Fréchet derivative of the product on `Fin n → ℝ` -/

/-- the plain product of a real vector -/
noncomputable def prodFn (n : ℕ) (v : Fin n → ℝ) : ℝ := (List.ofFn v).prod

/-- the slice `t` as a point of `Fin t.length → ℝ` -/
noncomputable def pointOf (t : List ℚ) : Fin t.length → ℝ := fun i => ((t[i] : ℚ) : ℝ)

theorem ofFn_pointOf (t : List ℚ) : List.ofFn (pointOf t) = castL t := by
  unfold pointOf castL
  exact List.ofFn_getElem_eq_map t (fun q : ℚ => (q : ℝ))

/-- `prodFn` at the slice is the model's forward value -/
theorem prodFn_pointOf (t : List ℚ) : prodFn t.length (pointOf t) = ((rprod t : ℚ) : ℝ) := by
  rw [prodFn, ofFn_pointOf, cast_rprod]

theorem ofFn_update {n : ℕ} (v : Fin n → ℝ) (i : Fin n) (s : ℝ) :
    List.ofFn (Function.update v i s) = (List.ofFn v).set i s := by
  apply List.ext_getElem
  · simp
  · intro k h1 h2
    simp only [List.getElem_ofFn, List.getElem_set]
    by_cases h : (i : ℕ) = k
    · have : (⟨k, by simpa using h1⟩ : Fin n) = i := Fin.ext h.symm
      simp [h, this]
    · have : (⟨k, by simpa using h1⟩ : Fin n) ≠ i := fun e => h (by rw [← e])
      simp [h, Function.update_of_ne this]

/-- moving along coordinate `i` from the slice is `prodAt` -/
theorem prodFn_update (t : List ℚ) (i : Fin t.length) (s : ℝ) :
    prodFn t.length (Function.update (pointOf t) i s) = prodAt t i s := by
  rw [prodFn, ofFn_update, ofFn_pointOf, prodAt]

theorem prod_erase_eq (t : List ℚ) (i : Fin t.length) :
    ∏ j ∈ (Finset.univ : Finset (Fin t.length)).erase i, pointOf t j = ((gradFactor t i : ℚ) : ℝ) := by
  have h1 := Finset.prod_update_of_mem (Finset.mem_univ i) (pointOf t) (1 : ℝ)
  rw [one_mul, Finset.sdiff_singleton_eq_erase] at h1
  rw [← h1, ← List.prod_ofFn, ofFn_update, ofFn_pointOf,
    real_prod_set _ _ _ (by simp), one_mul, cast_gradFactor t i i.isLt]

/-- **C19/T1, gradient form.** The Fréchet derivative of the plain product
`v ↦ Π_k v_k` on `Fin n → ℝ` at the slice `t` is `h ↦ Σ_i gradFactors(t)_i · h_i`: the row
`gradFactors t` that `grad_fn` multiplies `dy` with IS the gradient vector, for every pattern of
zeros. -/
theorem gradFactors_hasFDerivAt (t : List ℚ) :
    HasFDerivAt (prodFn t.length)
      (∑ i : Fin t.length, ((getR (gradFactors t) i : ℚ) : ℝ) •
        (ContinuousLinearMap.proj i : (Fin t.length → ℝ) →L[ℝ] ℝ))
      (pointOf t) := by
  have h := hasFDerivAt_finsetProd (𝕜 := ℝ) (u := (Finset.univ : Finset (Fin t.length)))
    (x := pointOf t)
  have e : prodFn t.length = fun v : Fin t.length → ℝ => ∏ i, v i :=
    funext fun v => by rw [prodFn, List.prod_ofFn]
  have g : ∀ i : Fin t.length, ((getR (gradFactors t) i : ℚ) : ℝ)
      = ∏ j ∈ (Finset.univ : Finset (Fin t.length)).erase i, pointOf t j := by
    intro i
    have : getR (gradFactors t) i = gradFactor t i := by
      unfold getR; rw [gradFactors_get t i i.isLt, gradFactor_eq_prod_others t i i.isLt]
    rw [this, prod_erase_eq]
  rw [e]
  simp only [g]
  exact h

/-- the gradient applied to a direction `h` -/
theorem gradFactors_fderiv_apply (t : List ℚ) (h : Fin t.length → ℝ) :
    fderiv ℝ (prodFn t.length) (pointOf t) h
      = ∑ i : Fin t.length, ((getR (gradFactors t) i : ℚ) : ℝ) * h i := by
  rw [(gradFactors_hasFDerivAt t).fderiv]
  simp

/-! ### T1 non-vacuity: concrete slices with two, one and no exact zeros -/

/-- the differentiated function is the plain product: here `s ↦ 0·s·0·2` and `s ↦ s·3·5·2` -/
example (s : ℝ) : prodAt [0, 3, 0, 2] 1 s = 0 * s * 0 * 2 := by
  simp [prodAt, castL]
example (s : ℝ) : prodAt [0, 3, 5, 2] 0 s = s * 3 * 5 * 2 := by
  simp [prodAt, castL]; ring

/-- two zeros (`[0, 3, 0, 2]`): every partial derivative is `0`, at the zero entries too -/
example : gradFactors [0, 3, 0, 2] = [0, 0, 0, 0] := by decide +kernel
example : HasDerivAt (prodAt [0, 3, 0, 2] 0) 0 0 ∧ HasDerivAt (prodAt [0, 3, 0, 2] 1) 0 3 ∧
    HasDerivAt (prodAt [0, 3, 0, 2] 2) 0 0 ∧ HasDerivAt (prodAt [0, 3, 0, 2] 3) 0 2 := by
  have e : ∀ i, i < 4 → gradFactor [0, 3, 0, 2] i = 0 := by decide +kernel
  have h := fun i hi (s : ℝ) => gradFactor_hasDerivAt [0, 3, 0, 2] i hi s
  simp only [List.length_cons, List.length_nil] at h
  refine ⟨?_, ?_, ?_, ?_⟩
  · simpa [e 0 (by decide)] using h 0 (by decide) 0
  · simpa [e 1 (by decide)] using h 1 (by decide) 3
  · simpa [e 2 (by decide)] using h 2 (by decide) 0
  · simpa [e 3 (by decide)] using h 3 (by decide) 2

/-- one zero (`[0, 3, 5, 2]`): derivative `30 = 3·5·2` at the zero entry (the `grad1` branch),
`0` at the others (the `divide_no_nan` branch, `fwd = 0`) -/
example : gradFactors [0, 3, 5, 2] = [30, 0, 0, 0] := by decide +kernel
example : HasDerivAt (prodAt [0, 3, 5, 2] 0) 30 0 ∧ HasDerivAt (prodAt [0, 3, 5, 2] 2) 0 5 := by
  have e0 : gradFactor [0, 3, 5, 2] 0 = 30 := by decide +kernel
  have e2 : gradFactor [0, 3, 5, 2] 2 = 0 := by decide +kernel
  have h0 := gradFactor_hasDerivAt [0, 3, 5, 2] 0 (by decide) 0
  have h2 := gradFactor_hasDerivAt [0, 3, 5, 2] 2 (by decide) 5
  rw [e0] at h0; rw [e2] at h2
  exact ⟨by simpa using h0, by simpa using h2⟩

/-- no zero (`[2, 5, 3]`): derivative `fwd / t_i` -/
example : HasDerivAt (prodAt [2, 5, 3] 1) 6 5 := by
  have e : gradFactor [2, 5, 3] 1 = 6 := by decide +kernel
  have h := gradFactor_hasDerivAt [2, 5, 3] 1 (by decide) 5
  rw [e] at h; simpa using h

/-- the gradient of the product at `[0, 3, 5, 2]` in direction `h` is `30·h₀` -/
example (h : Fin 4 → ℝ) :
    fderiv ℝ (prodFn 4) (pointOf [0, 3, 5, 2]) h = 30 * h 0 := by
  have e : ∀ i, i < 4 → getR (gradFactors [0, 3, 5, 2]) i = if i = 0 then 30 else 0 := by
    decide +kernel
  have := gradFactors_fderiv_apply [0, 3, 5, 2] h
  simp only [List.length_cons, List.length_nil] at this
  rw [this, Fin.sum_univ_four]
  simp [e]

/-! ## T2: kernel gradients = interpolation weights -/

/-- the plain real dot product `Σ_k w_k · K_k` (over the common prefix, as `matmul` on equal shapes) -/
noncomputable def rdot (w K : List ℝ) : ℝ := (List.zipWith (· * ·) w K).sum

/-- the model's `dot` is `rdot` after the cast -/
theorem cast_dot : ∀ w K : List ℚ, ((dot w K : ℚ) : ℝ) = rdot (castL w) (castL K)
  | [], K => by simp [dot, rdot, castL]
  | _ :: _, [] => by simp [dot, rdot, castL]
  | a :: w, k :: K => by
    have := cast_dot w K
    simp only [dot, rdot, castL, List.map_cons, List.zipWith_cons_cons, List.sum_cons,
      Rat.cast_add, Rat.cast_mul] at *
    rw [this]

/-- `rdot w K` is affine in kernel entry `j` with slope `w_j` -/
theorem rdot_set : ∀ (w K : List ℝ) (j : ℕ) (s : ℝ), j < K.length →
    rdot w (K.set j s) = w.getD j 0 * s + rdot w (K.set j 0)
  | [], K, j, s, _ => by simp [rdot]
  | a :: w, [], j, s, h => by simp at h
  | a :: w, k :: K, 0, s, _ => by simp [rdot]
  | a :: w, k :: K, j + 1, s, h => by
    have := rdot_set w K j s (by simpa using h)
    simp only [rdot, List.set_cons_succ, List.zipWith_cons_cons, List.sum_cons,
      List.getD_cons_succ] at *
    rw [this]; ring

/-- **pure real statement**: `∂ (w · K) / ∂ K_j = w_j` at every value of `K_j`, for every real
weight vector and every real kernel. -/
theorem rdot_set_hasDerivAt (w K : List ℝ) (j : ℕ) (hj : j < K.length) (s : ℝ) :
    HasDerivAt (fun s : ℝ => rdot w (K.set j s)) (w.getD j 0) s := by
  have e : (fun s : ℝ => rdot w (K.set j s)) = fun s => w.getD j 0 * s + rdot w (K.set j 0) :=
    funext fun s => rdot_set w K j s hj
  rw [e]
  simpa using ((hasDerivAt_id s).const_mul (w.getD j 0)).add_const (rdot w (K.set j 0))

/-- the layer output `Σ_k w_k · K_k` over `ℝ` as a function of kernel entry `j` (the weights `w`
and all other kernel entries are the rational model's, cast) -/
noncomputable def dotAt (w K : List ℚ) (j : ℕ) (s : ℝ) : ℝ := rdot (castL w) ((castL K).set j s)

/-- `dotAt` is the model's output on every rational kernel entry -/
theorem dotAt_ratCast (w K : List ℚ) (j : ℕ) (q : ℚ) :
    dotAt w K j (q : ℝ) = ((dot w (K.set j q) : ℚ) : ℝ) := by
  rw [dotAt, cast_dot, castL_set]

/-- generic T2: slope `w_j`, at every kernel value, independent of the kernel `K` -/
theorem dotAt_hasDerivAt (w K : List ℚ) (j : ℕ) (hj : j < K.length) (s : ℝ) :
    HasDerivAt (dotAt w K j) ((getR w j : ℚ) : ℝ) s := by
  rw [← castL_getD]
  exact rdot_set_hasDerivAt (castL w) (castL K) j (by simpa using hj) s

/-! ### the whole kernel at once: Fréchet derivative of the output w.r.t. the kernel vector -/

theorem rdot_ofFn : ∀ (n : ℕ) (w : List ℝ) (k : Fin n → ℝ),
    rdot w (List.ofFn k) = ∑ j : Fin n, w.getD j 0 * k j
  | 0, w, k => by simp [rdot]
  | n + 1, [], k => by simp [rdot]
  | n + 1, a :: w, k => by
    have := rdot_ofFn n w (fun j => k j.succ)
    simp only [rdot, List.ofFn_succ, List.zipWith_cons_cons, List.sum_cons, Fin.sum_univ_succ] at *
    rw [this]; simp

/-- the real output `k ↦ Σ_j w_j · k_j` on kernels `k : Fin n → ℝ` is the model's output at every
rational kernel … -/
theorem rdot_pointOf (w K : List ℚ) :
    rdot (castL w) (List.ofFn (pointOf K)) = ((dot w K : ℚ) : ℝ) := by
  rw [ofFn_pointOf, cast_dot]

/-- … and **its gradient w.r.t. the kernel is the weight vector `w`, at every kernel `k`**
(generic T2 in gradient form; instantiate `w` with `hypercubeWeights …`, `simplexKernelWeights …`,
`pwlCoeffs …`, `catSelector …`). -/
theorem kernel_hasFDerivAt (w : List ℚ) (n : ℕ) (k : Fin n → ℝ) :
    HasFDerivAt (fun k : Fin n → ℝ => rdot (castL w) (List.ofFn k))
      (∑ j : Fin n, ((getR w j : ℚ) : ℝ) • (ContinuousLinearMap.proj j : (Fin n → ℝ) →L[ℝ] ℝ)) k := by
  have e : (fun k : Fin n → ℝ => rdot (castL w) (List.ofFn k))
      = ⇑(∑ j : Fin n, ((getR w j : ℚ) : ℝ) • (ContinuousLinearMap.proj j : (Fin n → ℝ) →L[ℝ] ℝ)) := by
    funext k
    rw [rdot_ofFn]
    simp only [castL_getD]
    simp
  rw [e]
  exact ContinuousLinearMap.hasFDerivAt _

/-! ### (a) Lattice, hypercube interpolation -/

/-- the real function "kernel entry `j` ↦ output" is the model's output on rational entries … -/
theorem lattice_outAt_ratCast (form : LatticeEval.InputForm) (clipOn : Bool) (sizes : List ℕ)
    (K x : List ℚ) (j : ℕ) (q : ℚ) :
    dotAt (LatticeEval.hypercubeWeights form clipOn sizes x) K j (q : ℝ)
      = ((LatticeEval.hypercubeValue form clipOn sizes (K.set j q) x : ℚ) : ℝ) := by
  rw [dotAt_ratCast, LatticeEval.hypercubeValue, latDot_eq]

/-- … also on the `Except` level of `evalHypercube` (accepted configurations) -/
theorem lattice_evalAt_ratCast (form : LatticeEval.InputForm) (clipOn : Bool) (sizes : List ℕ)
    (K x : List ℚ) (j : ℕ) (q : ℚ) (hs : ∀ n ∈ sizes, 2 ≤ n) (hl : x.length = sizes.length) :
    ∃ r : ℚ, LatticeEval.evalHypercube form clipOn sizes (K.set j q) x = .ok r ∧
      dotAt (LatticeEval.hypercubeWeights form clipOn sizes x) K j (q : ℝ) = (r : ℝ) :=
  ⟨_, C02.C02_T1_evalHypercube_ok form clipOn sizes _ x hs hl,
    lattice_outAt_ratCast form clipOn sizes K x j q⟩

/-- **C19/T2, Lattice (hypercube), analytic form**: `∂ out / ∂ K_j` is the example's `j`-th
interpolation weight, at every value of the kernel entry and whatever the rest of the kernel. -/
theorem lattice_kernel_hasDerivAt (form : LatticeEval.InputForm) (clipOn : Bool) (sizes : List ℕ)
    (K x : List ℚ) (j : ℕ) (hj : j < K.length) (s : ℝ) :
    HasDerivAt (dotAt (LatticeEval.hypercubeWeights form clipOn sizes x) K j)
      ((getR (LatticeEval.hypercubeWeights form clipOn sizes x) j : ℚ) : ℝ) s :=
  dotAt_hasDerivAt _ K j hj s

/-! ### (a') Lattice, simplex interpolation -/

theorem simplex_outAt_ratCast (clipOn : Bool) (sizes : List ℕ) (K x : List ℚ) (j : ℕ) (q : ℚ)
    (hv : LatticeEval.verify sizes x = true)
    (hb : ∀ i ∈ C02.sIndices clipOn sizes x, 0 ≤ i ∧ i.toNat < K.length) :
    ∃ r : ℚ, LatticeEval.evalSimplex clipOn sizes (K.set j q) x = .ok r ∧
      dotAt (simplexKernelWeights clipOn sizes x K.length) K j (q : ℝ) = (r : ℝ) := by
  have e := simplex_output_eq_dot_weights clipOn sizes (K.set j q) x hv (by simpa using hb)
  rw [List.length_set] at e
  exact ⟨_, e, dotAt_ratCast _ K j q⟩

/-- **C19/T2, Lattice (simplex), analytic form.** -/
theorem simplex_kernel_hasDerivAt (clipOn : Bool) (sizes : List ℕ) (K x : List ℚ) (j : ℕ)
    (hj : j < K.length) (s : ℝ) :
    HasDerivAt (dotAt (simplexKernelWeights clipOn sizes x K.length) K j)
      ((getR (simplexKernelWeights clipOn sizes x K.length) j : ℚ) : ℝ) s :=
  dotAt_hasDerivAt _ K j hj s

/-! ### (b) PWLCalibration -/

theorem pwl_WF_set {cfg : PwlEval.Cfg} {K ws : List ℚ} (h : PwlEval.WF cfg K ws) (j : ℕ) (u : ℚ) :
    PwlEval.WF cfg (K.set j u) ws :=
  ⟨h.two, h.incr, by simpa using h.klen, h.wlen, h.wpos, h.wsum⟩

theorem pwl_outAt_ratCast {cfg : PwlEval.Cfg} {K ws : List ℚ} (h : PwlEval.WF cfg K ws) (x : ℚ)
    (j : ℕ) (q : ℚ) :
    dotAt (pwlCoeffs cfg ws x) K j (q : ℝ) = ((PwlEval.calibrate cfg (K.set j q) ws x : ℚ) : ℝ) := by
  rw [dotAt_ratCast, pwl_output_eq_dot_coeffs (pwl_WF_set h j q)]

/-- **C19/T2, PWLCalibration, analytic form**: `∂ out / ∂ K_j` = `1` (bias row) resp. the clipped
ramp weight (height rows), at every kernel value. -/
theorem pwl_kernel_hasDerivAt (cfg : PwlEval.Cfg) (K ws : List ℚ) (x : ℚ) (j : ℕ)
    (hj : j < K.length) (s : ℝ) :
    HasDerivAt (dotAt (pwlCoeffs cfg ws x) K j) ((getR (pwlCoeffs cfg ws x) j : ℚ) : ℝ) s :=
  dotAt_hasDerivAt _ K j hj s

/-- the bias row: slope exactly `1` -/
theorem pwl_bias_hasDerivAt (cfg : PwlEval.Cfg) (K ws : List ℚ) (x : ℚ) (hj : 0 < K.length) (s : ℝ) :
    HasDerivAt (dotAt (pwlCoeffs cfg ws x) K 0) 1 s := by
  simpa [pwlCoeffs, getR] using pwl_kernel_hasDerivAt cfg K ws x 0 hj s

/-! ### (c) CategoricalCalibration -/

theorem categorical_outAt_ratCast (K : List ℚ) (default : Option ℤ) (x : ℤ) (j : ℕ) (q : ℚ) :
    dotAt (catSelector K.length default x) K j (q : ℝ)
      = ((Categorical.call (K.set j q) default x : ℚ) : ℝ) := by
  rw [dotAt_ratCast, categorical_output_eq_dot_selector, List.length_set]

/-- **C19/T2, CategoricalCalibration, analytic form**: `∂ out / ∂ K_j` is `1` for the looked-up row
and `0` for every other row, at every kernel value. -/
theorem categorical_kernel_hasDerivAt (K : List ℚ) (default : Option ℤ) (x : ℤ) (j : ℕ)
    (hj : j < K.length) (s : ℝ) :
    HasDerivAt (dotAt (catSelector K.length default x) K j)
      (if (j : ℤ) = catIndex K.length default x then 1 else 0) s := by
  have h := dotAt_hasDerivAt (catSelector K.length default x) K j hj s
  rw [catSelector_get _ _ _ _ hj] at h
  split_ifs with hc
  · simpa [hc] using h
  · simpa [hc] using h

/-! ## any continuous extension

The statements above differentiate one particular real extension of the rational model. They do
not depend on that choice: a continuous real function is determined by its values on `ℚ`, so EVERY
continuous `f : ℝ → ℝ` that agrees with the (cast) model output on all rational arguments has the
same derivative everywhere. -/

theorem eq_of_continuous_of_eq_on_rat {f g : ℝ → ℝ} (hf : Continuous f) (hg : Continuous g)
    (h : ∀ q : ℚ, f q = g q) : f = g :=
  (Rat.denseRange_cast (𝕜 := ℝ)).equalizer hf hg (funext h)

theorem prodAt_continuous (t : List ℚ) (i : ℕ) (hi : i < t.length) : Continuous (prodAt t i) :=
  continuous_iff_continuousAt.2 fun s => (gradFactor_hasDerivAt t i hi s).continuousAt

theorem dotAt_continuous (w K : List ℚ) (j : ℕ) (hj : j < K.length) : Continuous (dotAt w K j) :=
  continuous_iff_continuousAt.2 fun s => (dotAt_hasDerivAt w K j hj s).continuousAt

/-- **C19/T1 for every continuous extension of the model's product.** -/
theorem gradFactor_hasDerivAt_of_continuous (t : List ℚ) (i : ℕ) (hi : i < t.length) (f : ℝ → ℝ)
    (hf : Continuous f) (h : ∀ q : ℚ, f q = ((rprod (t.set i q) : ℚ) : ℝ)) (s : ℝ) :
    HasDerivAt f ((gradFactor t i : ℚ) : ℝ) s := by
  rw [eq_of_continuous_of_eq_on_rat hf (prodAt_continuous t i hi)
    (fun q => by rw [h, prodAt_ratCast])]
  exact gradFactor_hasDerivAt t i hi s

/-- generic T2 for every continuous extension -/
theorem dot_hasDerivAt_of_continuous (w K : List ℚ) (j : ℕ) (hj : j < K.length) (f : ℝ → ℝ)
    (hf : Continuous f) (h : ∀ q : ℚ, f q = ((dot w (K.set j q) : ℚ) : ℝ)) (s : ℝ) :
    HasDerivAt f ((getR w j : ℚ) : ℝ) s := by
  rw [eq_of_continuous_of_eq_on_rat hf (dotAt_continuous w K j hj)
    (fun q => by rw [h, dotAt_ratCast])]
  exact dotAt_hasDerivAt w K j hj s

/-- **Lattice (hypercube)**: every continuous `f` with `f q = evalHypercube … K[j:=q] x` on `ℚ` -/
theorem lattice_kernel_hasDerivAt_of_continuous (form : LatticeEval.InputForm) (clipOn : Bool)
    (sizes : List ℕ) (K x : List ℚ) (j : ℕ) (hj : j < K.length) (f : ℝ → ℝ) (hf : Continuous f)
    (h : ∀ q : ℚ, f q = ((LatticeEval.hypercubeValue form clipOn sizes (K.set j q) x : ℚ) : ℝ))
    (s : ℝ) :
    HasDerivAt f ((getR (LatticeEval.hypercubeWeights form clipOn sizes x) j : ℚ) : ℝ) s :=
  dot_hasDerivAt_of_continuous _ K j hj f hf
    (fun q => by rw [h, LatticeEval.hypercubeValue, latDot_eq]) s

/-- **Lattice (simplex)**: every continuous `f` that returns the value of `evalSimplex` on `ℚ` -/
theorem simplex_kernel_hasDerivAt_of_continuous (clipOn : Bool) (sizes : List ℕ) (K x : List ℚ)
    (j : ℕ) (hj : j < K.length) (hv : LatticeEval.verify sizes x = true)
    (hb : ∀ i ∈ C02.sIndices clipOn sizes x, 0 ≤ i ∧ i.toNat < K.length)
    (f : ℝ → ℝ) (hf : Continuous f)
    (h : ∀ q r : ℚ, LatticeEval.evalSimplex clipOn sizes (K.set j q) x = .ok r → f q = (r : ℝ))
    (s : ℝ) :
    HasDerivAt f ((getR (simplexKernelWeights clipOn sizes x K.length) j : ℚ) : ℝ) s := by
  refine dot_hasDerivAt_of_continuous _ K j hj f hf (fun q => ?_) s
  have e := simplex_output_eq_dot_weights clipOn sizes (K.set j q) x hv (by simpa using hb)
  rw [List.length_set] at e
  exact h q _ e

/-- **PWLCalibration**: every continuous `f` with `f q = calibrate cfg K[j:=q] ws x` on `ℚ` -/
theorem pwl_kernel_hasDerivAt_of_continuous {cfg : PwlEval.Cfg} {K ws : List ℚ}
    (hw : PwlEval.WF cfg K ws) (x : ℚ) (j : ℕ) (hj : j < K.length) (f : ℝ → ℝ) (hf : Continuous f)
    (h : ∀ q : ℚ, f q = ((PwlEval.calibrate cfg (K.set j q) ws x : ℚ) : ℝ)) (s : ℝ) :
    HasDerivAt f ((getR (pwlCoeffs cfg ws x) j : ℚ) : ℝ) s :=
  dot_hasDerivAt_of_continuous _ K j hj f hf
    (fun q => by rw [h, pwl_output_eq_dot_coeffs (pwl_WF_set hw j q)]) s

/-- **CategoricalCalibration**: every continuous `f` with `f q = call K[j:=q] default x` on `ℚ` -/
theorem categorical_kernel_hasDerivAt_of_continuous (K : List ℚ) (default : Option ℤ) (x : ℤ)
    (j : ℕ) (hj : j < K.length) (f : ℝ → ℝ) (hf : Continuous f)
    (h : ∀ q : ℚ, f q = ((Categorical.call (K.set j q) default x : ℚ) : ℝ)) (s : ℝ) :
    HasDerivAt f (if (j : ℤ) = catIndex K.length default x then 1 else 0) s := by
  rw [eq_of_continuous_of_eq_on_rat hf (dotAt_continuous (catSelector K.length default x) K j hj)
    (fun q => by rw [h, categorical_outAt_ratCast])]
  exact categorical_kernel_hasDerivAt K default x j hj s

/-! ### T2 non-vacuity on the concrete layers of `Props/C19.lean` -/

/-- hypercube weights `[0, 0, 3/8, 1/8, 3/8, 1/8]` at `x = (3/2, 1/4)` on a `3×2` lattice -/
example (s : ℝ) : HasDerivAt
    (dotAt (LatticeEval.hypercubeWeights .tensor false [3, 2] [3/2, 1/4]) [0, 5, 1, 5, 4, 7] 2)
    (3 / 8) s := by
  have e : getR (LatticeEval.hypercubeWeights .tensor false [3, 2] [3/2, 1/4]) 2 = 3 / 8 := by
    decide +kernel
  have h := lattice_kernel_hasDerivAt .tensor false [3, 2] [0, 5, 1, 5, 4, 7] [3/2, 1/4] 2
    (by decide) s
  rw [e] at h; simpa using h

/-- simplex weights `[0, 0, 1/2, 0, 1/4, 1/4]` at the same point -/
example (s : ℝ) : HasDerivAt
    (dotAt (simplexKernelWeights false [3, 2] [3/2, 1/4] 6) [0, 5, 1, 5, 4, 7] 4) (1 / 4) s := by
  have e : getR (simplexKernelWeights false [3, 2] [3/2, 1/4] 6) 4 = 1 / 4 := by decide +kernel
  have h := simplex_kernel_hasDerivAt false [3, 2] [0, 5, 1, 5, 4, 7] [3/2, 1/4] 4 (by decide) s
  simp only [List.length_cons, List.length_nil] at h
  rw [e] at h; simpa using h

/-- PWL coefficients `[1, 1/2, 1/2]` of the learned-keypoint example layer -/
example (s : ℝ) : HasDerivAt
    (dotAt (pwlCoeffs C05.exLearned [1/4, 1/2, 1/4] (7/2)) [1, 2, -1] 2) (1 / 2) s := by
  have e : getR (pwlCoeffs C05.exLearned [1/4, 1/2, 1/4] (7/2)) 2 = 1 / 2 := by decide +kernel
  have h := pwl_kernel_hasDerivAt C05.exLearned [1, 2, -1] [1/4, 1/2, 1/4] (7/2) 2 (by decide) s
  rw [e] at h; simpa using h

/-- categorical: default value `-1` looks up the last of three rows -/
example (s : ℝ) : HasDerivAt (dotAt (catSelector 3 (some (-1)) (-1)) [4, 5, 6] 2) 1 s ∧
    HasDerivAt (dotAt (catSelector 3 (some (-1)) (-1)) [4, 5, 6] 1) 0 s := by
  have c : catIndex 3 (some (-1)) (-1) = 2 := by decide
  have h2 : HasDerivAt (dotAt (catSelector 3 (some (-1)) (-1)) [4, 5, 6] 2)
      (if ((2 : ℕ) : ℤ) = catIndex 3 (some (-1)) (-1) then 1 else 0) s :=
    categorical_kernel_hasDerivAt [4, 5, 6] (some (-1)) (-1) 2 (by decide) s
  have h1 : HasDerivAt (dotAt (catSelector 3 (some (-1)) (-1)) [4, 5, 6] 1)
      (if ((1 : ℕ) : ℤ) = catIndex 3 (some (-1)) (-1) then 1 else 0) s :=
    categorical_kernel_hasDerivAt [4, 5, 6] (some (-1)) (-1) 1 (by decide) s
  simp only [c] at h1 h2
  exact ⟨by simpa using h2, by simpa using h1⟩

end Tfl.C19
