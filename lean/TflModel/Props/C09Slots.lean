import TflModel.Props.C09Accepted
import TflModel.Props.C08Accepted
import TflModel.Lemmas.UnitsDykstraSlots
/-!
# C09 — the `hdyk` hypothesis of the `_exec` theorems of `Props/C09Units.lean`, discharged

`Props/C09Units.lean` ties unit `u` of the multi-unit `LatticeConstraints.__call__` model (`constraintU`) to the
driver's one-unit executable `latticeConstraintT` GIVEN `hdyk`: the slot-keyed executable Dykstra loop
`projectByDykstraT` (the `last_change` dict of the Python: one tensor per KEY) agrees on the box with the
position-slotted function-level loop `projectByDykstra` of `Model/Units.lean` (one tensor per list POSITION).

Here (DESIGN §8, limit "C09's multi-unit lattice model keeps the POSITIONAL Dykstra loop"):

* `projectByDykstraT_agree_positional`: `hdyk` holds for every configuration whose dict keys do not repeat
  (`(groupKeys c).Nodup`), every iteration count, every table / function pair that agree on the box —
  from `projectByDykstraT_of_nodup` (C08, `Lemmas/DykstraSlots.lean`) and `dykstraIterT_agree`.
* `(groupKeys c).Nodup` follows from `NoRepeats c` (no constraint list has a repeated entry:
  `groupKeys_nodup`). `NoRepeats` does NOT follow from constructor acceptance (`Tfl.C08.dupPair_accepted`:
  `joint_monotonicities=[(0,1),(0,1)]` is accepted), it is a decidable explicit hypothesis.
* `lattice_constraint_per_unit_exec_nodup`, `lattice_constraint_per_unit_transfer_nodup`,
  `constraint1_eq_latticeConstraintT_nodup`: the `_exec` theorems without `hdyk`.
* `hdyk_fails_on_repeated_tuple`: for `joint_monotonicities=[(0,1),(0,1)]` `hdyk` is FALSE — the positional
  model `constraintU` is not the right multi-unit model there. Hence the second half:

REPEATED constraint tuples (`Lemmas/UnitsDykstraSlots.lean`): `constraintUS` / `projectByDykstraUS` are the
multi-unit models with the `last_change` slots keyed like the Python dict (group schedule and dict keys of
`dcfgU c units`); `groupKeys_dcfgU` (the keys on `sizes ++ [units]` are the one-unit keys) and
`dykstraIterS_slice` (the slot-keyed loop acts on every unit slice) give
* `lattice_constraint_per_unit_slotted` / `lattice_constraint_per_unit_exec_slotted`: unit `u` of `constraintUS`
  is the driver's `latticeConstraintT` of column `u` for EVERY well-formed configuration, repeated tuples
  included — no `hdyk`, no `Nodup`;
* `constraintUS_eq_constraintU`: without repeated keys `constraintUS` is the positional `constraintU`;
* `accepted_lattice_constraint_per_unit_exec`: all side conditions discharged by constructor acceptance.
-/
namespace Tfl.C09
open Tfl Tfl.Lat Tfl.Units

/-- **`hdyk` for configurations without repeated dict keys** (closes, for those configurations, the limit
of DESIGN §8 "C09's multi-unit lattice model keeps the POSITIONAL Dykstra loop"): the slot-keyed executable
loop `projectByDykstraT` (driver op `lat.dykstra`, the object of C08) and the position-slotted function-level
loop `projectByDykstra` of `Model/Units.lean` agree on the box — every iteration count, every table `t` and
function `f` that agree on the box. -/
theorem projectByDykstraT_agree_positional (c : DCfg) (h : (groupKeys c).Nodup) (n : Nat) (t : Table) (f : W)
    (hf : AgreeOn c.sizes t.get f) :
    AgreeOn c.sizes (projectByDykstraT c n t).get (projectByDykstra c n f) := by
  rw [projectByDykstraT_of_nodup c h n t]
  unfold projectByDykstra
  split
  · exact hf
  · exact (dykstraIterT_agree c.sizes (groups c) (groups_local c) n hf (agreeL_zero c.sizes _)).1

/-- the same from `NoRepeats` (no constraint list of the configuration has a repeated entry) -/
theorem projectByDykstraT_agree_positional_noRepeats (c : DCfg) (h : NoRepeats c) (n : Nat) (t : Table) (f : W)
    (hf : AgreeOn c.sizes t.get f) :
    AgreeOn c.sizes (projectByDykstraT c n t).get (projectByDykstra c n f) :=
  projectByDykstraT_agree_positional c (groupKeys_nodup c h) n t f hf

/-- **`constraint1` is what the driver runs, no `hdyk`**: `constraint1 c` (function level, positional
Dykstra loop) agrees on the box with `latticeConstraintT c` (op `lat.constraint`, slot-keyed loop) for every
configuration without repeated dict keys, every iteration count and mode. -/
theorem constraint1_eq_latticeConstraintT_nodup (c : LCfg) (hM : ∀ tr ∈ c.d.trapezoid, 0 < c.d.sizes.getD tr.main 0)
    (hk : (groupKeys c.d).Nodup) (t : Table) (f : W) (hf : AgreeOn c.d.sizes t.get f) :
    AgreeOn c.d.sizes (latticeConstraintT c t).get (constraint1 c f) :=
  constraint1_eq_latticeConstraintT c hM t f hf (projectByDykstraT_agree_positional c.d hk c.iters t f hf)

/-- **T1, `LatticeConstraints.__call__`, against the executable, no `hdyk`** (closes the DESIGN §8 limit for
configurations without repeated constraint tuples): unit `u` of the multi-unit constraint `constraintU`
equals, on every vertex, the driver's `latticeConstraintT` applied to the table of column `u` — every
well-formed configuration whose dict keys do not repeat, every iteration count, strict or not, every unit
count and kernel. -/
theorem lattice_constraint_per_unit_exec_nodup (c : LCfg) (hd : DCfgWF c.d)
    (hM : ∀ tr ∈ c.d.trapezoid, 0 < c.d.sizes.getD tr.main 0) (hk : (groupKeys c.d).Nodup)
    (units u : Nat) (hu : u < units) (w : W) :
    ∀ idx, InRange c.d.sizes idx →
      constraintU c units w (idx ++ [u]) = (latticeConstraintT c (tabulate c.d.sizes (slice w u))).get idx :=
  lattice_constraint_per_unit_exec c hd hM units u hu w
    (projectByDykstraT_agree_positional c.d hk c.iters _ _ (agreeOn_tabulate _ _))

/-- the same with the hypothesis on the constraint lists (`NoRepeats`: decidable, list-level) -/
theorem lattice_constraint_per_unit_exec_noRepeats (c : LCfg) (hd : DCfgWF c.d)
    (hM : ∀ tr ∈ c.d.trapezoid, 0 < c.d.sizes.getD tr.main 0) (hk : NoRepeats c.d)
    (units u : Nat) (hu : u < units) (w : W) :
    ∀ idx, InRange c.d.sizes idx →
      constraintU c units w (idx ++ [u]) = (latticeConstraintT c (tabulate c.d.sizes (slice w u))).get idx :=
  lattice_constraint_per_unit_exec_nodup c hd hM (groupKeys_nodup c.d hk) units u hu w

/-- the strict composite inherits C01 per unit, no `hdyk` (see `lattice_constraint_per_unit_transfer`) -/
theorem lattice_constraint_per_unit_transfer_nodup (c : LCfg) (hd : DCfgWF c.d)
    (hM : ∀ tr ∈ c.d.trapezoid, 0 < c.d.sizes.getD tr.main 0) (hk : (groupKeys c.d).Nodup)
    (units u : Nat) (hu : u < units) (w : W) :
    AgreeOn c.d.sizes (slice (constraintU c units w) u)
      (latticeConstraintT c (tabulate c.d.sizes (slice w u))).get :=
  fun idx hr => lattice_constraint_per_unit_exec_nodup c hd hM hk units u hu w idx hr

/-! ## `hdyk` is false when a constraint tuple is listed twice -/

/-- **counter-witness: `hdyk` fails for a repeated constraint tuple.** For `joint_monotonicities=[(0,1),(0,1)]`
on a 3×2 lattice (`Tfl.C08.cDup`, accepted by `verify_hyperparameters`: `Tfl.C08.dupPair_accepted`), one
iteration, kernel `(-1,-1,0,-1,-1,-1)`: the slot-keyed executable loop (the values of the real code,
`Tfl.C08.dup_slots_differ`) and the positional function-level loop of `Model/Units.lean` do NOT agree on the box.
So the `Nodup` hypothesis of the `_nodup` theorems cannot be dropped for the positional model `constraintU`;
the slot-keyed model `constraintUS` below needs no such hypothesis. -/
theorem hdyk_fails_on_repeated_tuple :
    ¬ AgreeOn Tfl.C08.cDup.sizes
      (projectByDykstraT Tfl.C08.cDup 1 (Table.ofVals [3, 2] [-1, -1, 0, -1, -1, -1])).get
      (projectByDykstra Tfl.C08.cDup 1 (Table.ofVals [3, 2] [-1, -1, 0, -1, -1, -1]).get) := by
  intro h
  have hact : dykstraActive Tfl.C08.cDup = true := by decide
  have hpos : projectByDykstra Tfl.C08.cDup 1 (Table.ofVals [3, 2] [-1, -1, 0, -1, -1, -1]).get =
      (dykstraIter (groups Tfl.C08.cDup) 1 ((Table.ofVals [3, 2] [-1, -1, 0, -1, -1, -1]).get,
        (groups Tfl.C08.cDup).map (fun _ => fun _ => 0))).1 := by
    unfold projectByDykstra
    rw [if_neg (by simp [hact])]
  rw [hpos] at h
  have h2 := Tfl.C08.projectByDykstraT_agree Tfl.C08.cDup 1 (Table.ofVals [3, 2] [-1, -1, 0, -1, -1, -1])
  have h3 := vals_eq_of_agree (h.trans h2.symm)
  obtain ⟨_, d1, d2⟩ := Tfl.C08.dup_slots_differ
  rw [show Tfl.C08.cDup.sizes = [3, 2] from rfl] at h3
  rw [d1, d2] at h3
  exact absurd h3 (by decide +kernel)

/-! ## repeated tuples: the slot-keyed multi-unit model -/

/-- the slot-keyed executable loop `projectByDykstraT` computes, on the box, the slot-keyed function-level loop
`projectByDykstraS` — EVERY configuration (repeated tuples included), every iteration count -/
theorem projectByDykstraT_agree_slotted (c : DCfg) (n : Nat) (t : Table) (f : W) (hf : AgreeOn c.sizes t.get f) :
    AgreeOn c.sizes (projectByDykstraT c n t).get (projectByDykstraS c n f) := by
  unfold projectByDykstraT projectByDykstraS
  split
  · exact hf
  · exact (dykstraIterST_agree c.sizes _ (fun q hq => groups_local c q.1 (zip_fst_mem hq)) n hf
      (agreeL_zero c.sizes _)).1

/-- `constraint1S c` (function level, slot-keyed loop) agrees on the box with the driver's `latticeConstraintT c`
(op `lat.constraint`) — every configuration, iteration count and mode; no `hdyk`, no `Nodup`. -/
theorem constraint1S_eq_latticeConstraintT (c : LCfg) (hM : ∀ tr ∈ c.d.trapezoid, 0 < c.d.sizes.getD tr.main 0)
    (t : Table) (f : W) (hf : AgreeOn c.d.sizes t.get f) :
    AgreeOn c.d.sizes (latticeConstraintT c t).get (constraint1S c f) := by
  have hdyk := projectByDykstraT_agree_slotted c.d c.iters t f hf
  unfold latticeConstraintT constraint1S
  apply runStage_agree (clipBounds_local c.d.sizes c.lo c.hi)
  split
  · split
    · exact finalizeT_agree c.fin hM hdyk
    · exact hdyk
  · exact hf

/-- **T1, `LatticeConstraints.__call__`, slot-keyed, function level**: unit `u` of the multi-unit constraint with
dict-keyed `last_change` slots (`constraintUS`) is the one-unit slot-keyed constraint of column `u` — every
well-formed configuration, REPEATED constraint tuples included (the slotted `projectByDykstraU` /
`dykstraIter_slice` the DESIGN §8 limit named as not done). -/
theorem lattice_constraint_per_unit_slotted (c : LCfg) (hd : DCfgWF c.d) (units u : Nat) (hu : u < units) (w : W) :
    AgreeLen c.d.sizes.length (slice (constraintUS c units w) u) (constraint1S c (slice w u)) :=
  constraintUS_slice c hd units u hu w _ (AgreeLen.refl _ _)

/-- **T1, `LatticeConstraints.__call__`, against the executable, EVERY well-formed configuration** (closes the
DESIGN §8 limit "C09's multi-unit lattice model keeps the POSITIONAL Dykstra loop" for repeated constraint
tuples): unit `u` of `constraintUS` equals, on every vertex, the driver's `latticeConstraintT` applied to the table
of column `u` — every iteration count, strict or not, every unit count and kernel; no `hdyk`, no `Nodup`. -/
theorem lattice_constraint_per_unit_exec_slotted (c : LCfg) (hd : DCfgWF c.d)
    (hM : ∀ tr ∈ c.d.trapezoid, 0 < c.d.sizes.getD tr.main 0) (units u : Nat) (hu : u < units) (w : W) :
    ∀ idx, InRange c.d.sizes idx →
      constraintUS c units w (idx ++ [u]) = (latticeConstraintT c (tabulate c.d.sizes (slice w u))).get idx := by
  intro idx hr
  have h1 : slice (constraintUS c units w) u idx = constraint1S c (slice w u) idx :=
    lattice_constraint_per_unit_slotted c hd units u hu w idx hr.1
  have h2 := constraint1S_eq_latticeConstraintT c hM (tabulate c.d.sizes (slice w u)) (slice w u)
    (agreeOn_tabulate _ _) idx hr
  rw [h2, ← h1]
  rfl

/-- **the slot-keyed multi-unit model is the positional one of `Model/Units.lean` when no dict key repeats**
(so `lattice_constraint_per_unit_exec_nodup` is the special case of `lattice_constraint_per_unit_exec_slotted`) -/
theorem constraintUS_eq_constraintU (c : LCfg) (hd : DCfgWF c.d) (hk : (groupKeys c.d).Nodup) (units : Nat) (w : W) :
    constraintUS c units w = constraintU c units w := by
  unfold constraintUS constraintU
  rw [projectByDykstraUS_of_nodup c.d hd hk]

/-- the dict keys of the multi-unit configuration are the one-unit keys (the lemma the DESIGN §8 limit asked for) -/
theorem groupKeys_units (c : DCfg) (hd : DCfgWF c) (units : Nat) : groupKeys (dcfgU c units) = groupKeys c :=
  groupKeys_dcfgU c units hd

/-! ## accepted configurations -/

/-- **accepted ⇒ `DCfgWF (toDCfg c)`**: all five fields from `verify_hyperparameters` acceptance (the two
`accepted_dcfgWF` leaves open — unimodality length, joint-unimodality dims in range — from `verifyShape_spec` and
`Tfl.C08.verifyLattice_facts`) -/
theorem accepted_dcfgWF_toDCfg (r : Tfl.Verify.RawLatFull) (c : Tfl.Verify.LatCfg)
    (h : Tfl.Verify.verifyLattice r = .ok c) : DCfgWF (Tfl.C08.toDCfg c) := by
  have hlen : (Tfl.C08.toDCfg c).sizes.length = c.sizes.length := by simp [Tfl.C08.toDCfg]
  refine accepted_dcfgWF r c h (Tfl.C08.toDCfg c) rfl rfl rfl rfl rfl rfl rfl ?_ ?_
  · obtain ⟨mu, _, _, hmu, _, _, hu, _, _, _⟩ := Tfl.Verify.verifyLattice_parts h
    obtain ⟨_, _, _, hul⟩ := Tfl.Verify.verifyShape_spec hmu
    rw [hlen]
    simp only [Tfl.C08.toDCfg, List.length_map]
    cases hc : c.uni with
    | none => simp
    | some l => rw [hu] at hc; simp [hul l hc]
  · intro ju hju d hd
    simp only [Tfl.C08.toDCfg, List.mem_map] at hju
    obtain ⟨x, hx, rfl⟩ := hju
    simp only [Tfl.C08.toJU, List.mem_map] at hd
    obtain ⟨z, hz, rfl⟩ := hd
    have := ((Tfl.C08.verifyLattice_facts r c h).ju x hx).2 z hz
    rw [hlen]
    omega

/-- **T1, `LatticeConstraints.__call__`, accepted configurations, executable**: for every configuration the model
of `verify_hyperparameters` accepts (repeated tuples, range dominance, joint unimodalities included), every
iteration count, mode, unit count, unit and kernel: unit `u` of the slot-keyed multi-unit constraint equals the
driver's one-unit `latticeConstraintT` of column `u` on every vertex. No side condition beyond acceptance. -/
theorem accepted_lattice_constraint_per_unit_exec (r : Tfl.Verify.RawLatFull) (c : Tfl.Verify.LatCfg)
    (h : Tfl.Verify.verifyLattice r = .ok c) (iters : Nat) (strict : Bool) (units u : Nat) (hu : u < units) (w : W) :
    let L : LCfg := { d := Tfl.C08.toDCfg c, lo := c.lo, hi := c.hi, iters := iters, strict := strict }
    ∀ idx, InRange L.d.sizes idx →
      constraintUS L units w (idx ++ [u]) = (latticeConstraintT L (tabulate L.d.sizes (slice w u))).get idx := by
  intro L
  exact lattice_constraint_per_unit_exec_slotted L (accepted_dcfgWF_toDCfg r c h)
    (fun tr htr => by
      have := ((Tfl.C01.accepted_mixed_structural r c h).1 tr htr).1
      exact Nat.lt_of_lt_of_le (by decide) this) units u hu w

/-- the same for the positional model `constraintU` of `Model/Units.lean`, with the one hypothesis acceptance
does not give (`NoRepeats`: no constraint list has a repeated entry; decidable) -/
theorem accepted_lattice_constraint_per_unit_exec_noRepeats (r : Tfl.Verify.RawLatFull) (c : Tfl.Verify.LatCfg)
    (h : Tfl.Verify.verifyLattice r = .ok c) (hnd : NoRepeats (Tfl.C08.toDCfg c))
    (iters : Nat) (strict : Bool) (units u : Nat) (hu : u < units) (w : W) :
    let L : LCfg := { d := Tfl.C08.toDCfg c, lo := c.lo, hi := c.hi, iters := iters, strict := strict }
    ∀ idx, InRange L.d.sizes idx →
      constraintU L units w (idx ++ [u]) = (latticeConstraintT L (tabulate L.d.sizes (slice w u))).get idx := by
  intro L
  exact lattice_constraint_per_unit_exec_noRepeats L (accepted_dcfgWF_toDCfg r c h)
    (fun tr htr => by
      have := ((Tfl.C01.accepted_mixed_structural r c h).1 tr htr).1
      exact Nat.lt_of_lt_of_le (by decide) this) hnd units u hu w

/-! ## non-vacuity -/

/-- the repeated joint monotonicity of `Tfl.C08.cDup`, one non-strict iteration, no bounds -/
def cDupL : LCfg := { d := Tfl.C08.cDup, iters := 1, strict := false }
/-- two units on the 3×2 lattice: unit 0 is zero, unit 1 is the kernel of `Tfl.C08.dup_slots_differ` -/
def wDup : W := (Table.ofVals [3, 2, 2] [0, -1, 0, -1, 0, 0, 0, -1, 0, -1, 0, -1]).get

theorem cDup_wf : DCfgWF Tfl.C08.cDup := by
  refine ⟨by decide, by decide, ?_, ?_, ?_⟩
  · intro tr htr; simp [Tfl.C08.cDup] at htr
  · intro p hp
    have : p = (0, 1) := by simpa [Tfl.C08.cDup] using hp
    subst this
    exact ⟨by decide, by decide⟩
  · intro ju hju; simp [Tfl.C08.cDup] at hju

/-- non-vacuity of the slotted theorem ON A REPEATED TUPLE: the hypotheses hold for `cDupL` (whose dict keys
repeat), the constraint is active, and unit 1 of the multi-unit result at vertex `(0, 1)` is `-86/81` — the value
the real code returns (`Tfl.C08.dup_slots_differ`), not the `-7/6` of the positional loop -/
example : DCfgWF cDupL.d ∧ ¬ (groupKeys cDupL.d).Nodup ∧ constraintActive cDupL = true ∧
    constraintUS cDupL 2 wDup ([0, 1] ++ [1]) = -86 / 81 := by
  refine ⟨cDup_wf, by decide +kernel, by decide, ?_⟩
  rw [lattice_constraint_per_unit_exec_slotted cDupL cDup_wf (by intro tr htr; simp [cDupL, Tfl.C08.cDup] at htr)
    2 1 (by decide) wDup [0, 1] (mem_allIdx.mp (by decide +kernel))]
  decide +kernel

/-- non-vacuity of the `_nodup` / accepted theorems: the accepted 3×3 configuration `Tfl.C08.cfgGood` (monotone
dim 0, Edgeworth trust, joint monotonicity) has no repeated entry, duplicate-free keys and an active loop -/
example : Tfl.Verify.verifyLattice Tfl.C08.rawGood = .ok Tfl.C08.cfgGood ∧ NoRepeats (Tfl.C08.toDCfg Tfl.C08.cfgGood) ∧
    (groupKeys (Tfl.C08.toDCfg Tfl.C08.cfgGood)).Nodup ∧ dykstraActive (Tfl.C08.toDCfg Tfl.C08.cfgGood) = true := by
  have hn : NoRepeats (Tfl.C08.toDCfg Tfl.C08.cfgGood) :=
    ⟨by decide, by decide, by decide, by decide, by decide, by decide⟩
  exact ⟨by decide +kernel, hn, groupKeys_nodup _ hn, by decide⟩

/-- a monotone 3×2 configuration, two non-strict iterations -/
def cMonoL : LCfg := { d := { sizes := [3, 2], mono := [true, false] }, iters := 2, strict := false }

/-- the `_noRepeats` theorem instantiated: hypotheses met by `cMonoL`, two units -/
example : ∀ idx, InRange [3, 2] idx →
    constraintU cMonoL 2 wDup (idx ++ [1]) = (latticeConstraintT cMonoL (tabulate [3, 2] (slice wDup 1))).get idx :=
  lattice_constraint_per_unit_exec_noRepeats cMonoL
    ⟨by decide, by decide, by intro tr h; simp [cMonoL] at h, by intro p h; simp [cMonoL] at h,
      by intro ju h; simp [cMonoL] at h⟩
    (by intro tr h; simp [cMonoL] at h) ⟨by decide, by decide, by decide, by decide, by decide, by decide⟩
    2 1 (by decide) wDup
/-- … and the loop moves that kernel (column 1 of `wDup` is not monotone in dimension 0) -/
example : (latticeConstraintT cMonoL (tabulate [3, 2] (slice wDup 1))).get [1, 0] = -1 / 2 := by decide +kernel

end Tfl.C09
