import TflModel.Props.C02
/-!
# C02 — why `Defined` (in range, or `clip_inputs` on) cannot be dropped: counter-witnesses

Property C02 speaks about "the cell containing the point, with out-of-range coordinates clipped onto
the lattice when `clip_inputs` is on" and about "in-range or clipped inputs". A point with
`clip_inputs=False` AND a coordinate outside `[0, size_d − 1]` has no containing cell; the property
makes NO claim about it (the quantifier's "outside the range" is the clipped case), and every C02
headline theorem carries `Defined clipOn sizes x := x.length = sizes.length ∧ (clipOn = true ∨ InRange
sizes x)` for each point it mentions.

This file shows that the exclusion is necessary, not a convenience: on concrete tiny lattices the model
— which agrees with the real code at exactly these points (harness class
`outside:clip_off_out_of_range` of `harness/props/c02.py`, compared on every run; real values quoted in
each docstring) — is non-monotone for a monotone kernel, leaves `[min K, max K]`, has weights that are
negative / do not sum to one, raises `InvalidArgumentError` (simplex, out-of-bounds gather), silently
reads a wrong vertex (simplex), and returns DIFFERENT numbers for the tensor and the list input form
on the all-2 path. Each `*_needs_defined` theorem is the negation of a headline theorem with `Defined`
replaced by the mere rank condition `x.length = sizes.length` for ONE of the points.
-/
namespace Tfl.C02
open Tfl Tfl.LatticeEval

/-- `K(i) = i` on the lattice `[3]`: kernel column `[0, 1, 2]`, non-decreasing -/
def Kramp : W := fun idx => (coord idx 0 : ℚ)
/-- `K(i) = i − 2` on `[3]`: `[-2, -1, 0]`, non-decreasing -/
def KrampNeg : W := fun idx => (coord idx 0 : ℚ) - 2
/-- `[[0, 0], [10, 0]]` on `[2, 2]`: non-decreasing along axis 0 -/
def K22 : W := fun idx => (Table.ofVals [2, 2] [0, 0, 10, 0]).get idx
/-- the constant kernel 1 on `[3]` -/
def Kone : W := fun _ => 1

theorem outside_kernels :
    kernelOf [3] Kramp = [0, 1, 2] ∧ MonoAx [3] 0 Kramp ∧
    kernelOf [3] KrampNeg = [-2, -1, 0] ∧ MonoAx [3] 0 KrampNeg ∧
    kernelOf [2, 2] K22 = [0, 0, 10, 0] ∧ MonoAx [2, 2] 0 K22 ∧ kernelOf [3] Kone = [1, 1, 1] := by
  refine ⟨by decide +kernel, ?_, by decide +kernel, ?_, by decide +kernel, ?_, by decide +kernel⟩ <;>
    (unfold MonoAx; decide +kernel)

theorem not_defined_above : ¬ Defined false [3] [5/2] := by
  rintro ⟨-, h | h⟩
  · cases h
  · have := h.1.2; norm_num at this

theorem not_defined_below : ¬ Defined false [3] [-1/2] := by
  rintro ⟨-, h | h⟩
  · cases h
  · have := h.1.1; norm_num at this

/-- **clip off, above the range, general path (both input forms).** Monotone kernel `[0, 1, 2]` on `[3]`:
`f(2) = 2` (in range), `f(5/2) = 1`, `f(3) = 0` — the outermost hat weight `1 − min(|x − 2|, 1)` decays
beyond the last vertex. Real layer (`Lattice([3], clip_inputs=False)`): `2., 1., 0.`. -/
theorem outside_hypercube_decreases_above (form : InputForm) :
    hypercubeValue form false [3] (kernelOf [3] Kramp) [2] = 2 ∧
    hypercubeValue form false [3] (kernelOf [3] Kramp) ([2].set 0 (5/2)) = 1 ∧
    hypercubeValue form false [3] (kernelOf [3] Kramp) ([2].set 0 3) = 0 := by
  cases form <;> decide +kernel

/-- **clip off, below the range.** Monotone kernel `[-2, -1, 0]`: `f(−1/2) = −1 > f(0) = −2`
(real layer: `-1., -2.`). -/
theorem outside_hypercube_decreases_below (form : InputForm) :
    hypercubeValue form false [3] (kernelOf [3] KrampNeg) [-1/2] = -1 ∧
    hypercubeValue form false [3] (kernelOf [3] KrampNeg) ([-1/2].set 0 0) = -2 := by
  cases form <;> decide +kernel

/-- **clip off, all-2 tensor fast path** (`stack([1 − x, x])`, linear extrapolation): kernel
`[[0, 0], [10, 0]]` is non-decreasing along axis 0, yet `f(0, 3/2) = 0 > f(1, 3/2) = −5`
(real layer: `0., -5.`). -/
theorem outside_fastpath_decreases :
    hypercubeValue .tensor false [2, 2] (kernelOf [2, 2] K22) [0, 3/2] = 0 ∧
    hypercubeValue .tensor false [2, 2] (kernelOf [2, 2] K22) ([0, 3/2].set 0 1) = -5 := by
  decide +kernel

/-- `C02_T4_hypercube_mono` is FALSE when `Defined` of the upper point is weakened to the rank
condition (`clip_inputs=False`, upper point above the range). -/
theorem C02_T4_hypercube_mono_needs_defined_upper :
    ¬ (∀ (form : InputForm) (clipOn : Bool) (sizes : List Nat) (K : W) (x : List ℚ) (d : Nat) (v : ℚ),
        sizes ≠ [] → (∀ n ∈ sizes, 2 ≤ n) → d < sizes.length → MonoAx sizes d K →
        Defined clipOn sizes x → (x.set d v).length = sizes.length → x.getD d 0 ≤ v →
        hypercubeValue form clipOn sizes (kernelOf sizes K) x
          ≤ hypercubeValue form clipOn sizes (kernelOf sizes K) (x.set d v)) := by
  intro h
  have := h .tensor false [3] Kramp [2] 0 (5/2) (by simp) (by simp) (by simp) outside_kernels.2.1
    ⟨rfl, Or.inr (by unfold InRange InRange; norm_num)⟩ rfl (by norm_num)
  rw [(outside_hypercube_decreases_above .tensor).1, (outside_hypercube_decreases_above .tensor).2.1] at this
  norm_num at this

/-- … and when `Defined` of the lower point is weakened (lower point below the range). -/
theorem C02_T4_hypercube_mono_needs_defined_lower :
    ¬ (∀ (form : InputForm) (clipOn : Bool) (sizes : List Nat) (K : W) (x : List ℚ) (d : Nat) (v : ℚ),
        sizes ≠ [] → (∀ n ∈ sizes, 2 ≤ n) → d < sizes.length → MonoAx sizes d K →
        x.length = sizes.length → Defined clipOn sizes (x.set d v) → x.getD d 0 ≤ v →
        hypercubeValue form clipOn sizes (kernelOf sizes K) x
          ≤ hypercubeValue form clipOn sizes (kernelOf sizes K) (x.set d v)) := by
  intro h
  have := h .tensor false [3] KrampNeg [-1/2] 0 0 (by simp) (by simp) (by simp) outside_kernels.2.2.2.1
    rfl ⟨rfl, Or.inr (by simp only [List.set_cons_zero]; unfold InRange InRange; norm_num)⟩ (by norm_num)
  rw [(outside_hypercube_decreases_below .tensor).1, (outside_hypercube_decreases_below .tensor).2] at this
  norm_num at this

/-- **clip off, out of range: the output leaves `[min K, max K]` and the weights are not convex.**
Constant kernel `[1, 1, 1]`: `f(5/2) = 1/2` (real: `0.5`); weights at `5/2` are `[0, 0, 1/2]` (sum `1/2`);
on the all-2 tensor path the weights at `−1/2` are `[3/2, −1/2]` (negative entry; real Jacobian row
`[1.5, -0.5]`). -/
theorem outside_hypercube_range_and_weights (form : InputForm) :
    hypercubeValue form false [3] (kernelOf [3] Kone) [5/2] = 1/2 ∧
    hypercubeWeights form false [3] [5/2] = [0, 0, 1/2] ∧
    hypercubeWeights .tensor false [2] [-1/2] = [3/2, -1/2] ∧
    hypercubeWeights .tensor false [2, 2] [3/2, 1/2] = [-1/4, -1/4, 3/4, 3/4] := by
  cases form <;> decide +kernel

/-- `C02_T2_range` is FALSE with `Defined` weakened to the rank condition. -/
theorem C02_T2_range_needs_defined :
    ¬ (∀ (form : InputForm) (clipOn : Bool) (sizes : List Nat) (K : W) (x : List ℚ) (lo hi : ℚ),
        sizes ≠ [] → (∀ n ∈ sizes, 2 ≤ n) → x.length = sizes.length →
        (∀ idx ∈ allIdx sizes, lo ≤ K idx ∧ K idx ≤ hi) →
        lo ≤ hypercubeValue form clipOn sizes (kernelOf sizes K) x ∧
          hypercubeValue form clipOn sizes (kernelOf sizes K) x ≤ hi) := by
  intro h
  have := (h .tensor false [3] Kone [5/2] 1 1 (by simp) (by simp) rfl (fun _ _ => ⟨le_rfl, le_rfl⟩)).1
  rw [(outside_hypercube_range_and_weights .tensor).1] at this
  norm_num at this

/-- `C02_T2_convex_weights` is FALSE with `Defined` weakened to the rank condition (both parts:
a negative weight on the all-2 tensor path, a weight sum `1/2` on the general path). -/
theorem C02_T2_convex_weights_needs_defined :
    ¬ (∀ (form : InputForm) (clipOn : Bool) (sizes : List Nat) (x : List ℚ),
        sizes ≠ [] → (∀ n ∈ sizes, 2 ≤ n) → x.length = sizes.length →
        ∀ w ∈ hypercubeWeights form clipOn sizes x, 0 ≤ w) ∧
    ¬ (∀ (form : InputForm) (clipOn : Bool) (sizes : List Nat) (x : List ℚ),
        sizes ≠ [] → (∀ n ∈ sizes, 2 ≤ n) → x.length = sizes.length →
        rsum (hypercubeWeights form clipOn sizes x) = 1) := by
  constructor
  · intro h
    have := h .tensor false [2] [-1/2] (by simp) (by simp) rfl (-1/2)
      (by rw [(outside_hypercube_range_and_weights .tensor).2.2.1]; simp)
    norm_num at this
  · intro h
    have := h .list false [3] [5/2] (by simp) (by simp) rfl
    rw [(outside_hypercube_range_and_weights .list).2.1] at this
    norm_num [rsum] at this

/-- **clip off, out of range, all-2 lattice: the two input forms differ.** The tensor form takes the
fast path `[1 − x, x]` (linear extrapolation), the list form the general hat weights
`1 − min(|x − i|, 1)`: kernel `[0, 1, 2, 4]`, point `(3/2, 1/4)`: `29/8` vs `5/4`. Both are outside the
property; `C02_T1_forms_agree` needs `Defined`. -/
theorem outside_forms_differ :
    hypercubeValue .tensor false [2, 2] [0, 1, 2, 4] [3/2, 1/4] = 29/8 ∧
    hypercubeValue .list false [2, 2] [0, 1, 2, 4] [3/2, 1/4] = 5/4 := by
  decide +kernel

theorem C02_T1_forms_agree_needs_defined :
    ¬ (∀ (clipOn : Bool) (sizes : List Nat) (x : List ℚ), sizes ≠ [] → x.length = sizes.length →
        hypercubeWeights .tensor clipOn sizes x = hypercubeWeights .list clipOn sizes x) := by
  intro h
  have := h false [2] [-1/2] (by simp) rfl
  revert this
  decide +kernel

/-- **simplex, clip off, out of range.** On `[3]` (kernel `[0, 1, 2]`): `x = −1/2` extrapolates
(`−1/2`), `x = −1` and `x = −3/2` give a negative gather index: `InvalidArgumentError` in the real code
and in the model; `x = 5/2`, `7/2` extrapolate upwards. On `[3, 3]` (kernel `0..8`) the point
`(1, −3/2)` does NOT raise: the gather indices stay inside the flat kernel but belong to other
vertices — the value `3/2` is below every vertex value of the row `x₀ = 1` (`3, 4, 5`). Real layer:
`-0.5, InvalidArgumentError, InvalidArgumentError, 2.5, 3.5` and `1.5`. -/
theorem outside_simplex :
    evalSimplex false [3] [0, 1, 2] [-1/2] = .ok (-1/2) ∧
    evalSimplex false [3] [0, 1, 2] [-1] = .error .invalidArgument ∧
    evalSimplex false [3] [0, 1, 2] [-3/2] = .error .invalidArgument ∧
    evalSimplex false [3] [0, 1, 2] [5/2] = .ok (5/2) ∧
    evalSimplex false [3] [0, 1, 2] [7/2] = .ok (7/2) ∧
    evalSimplex false [3, 3] [0, 1, 2, 3, 4, 5, 6, 7, 8] [1, -3/2] = .ok (3/2) := by
  decide +kernel

/-- `[[0, 0, 10], [0, 0, 0], [0, 0, 0]]` on `[3, 3]`: non-decreasing along axis 1 -/
def K33 : W := fun idx => (Table.ofVals [3, 3] [0, 0, 10, 0, 0, 0, 0, 0, 0]).get idx

/-- **simplex, clip off, below the range: not monotone, not in the kernel's range.** On `[3, 3]` the
point `(1, −3/2)` has `int32` cast `−1` in coordinate 1, lower-corner offset `1·3 − 1 = 2`, i.e. the
flat entry of vertex `(0, 2)`: with the kernel `K33` (non-decreasing along axis 1)
`f(1, −3/2) = 10 > f(1, 0) = 0`; with the constant kernel 1 on `[3]`, `f(5/2)` is still 1 (the simplex
weights always sum to one) but with `[0, 1, 2]` the value `5/2` exceeds `max K = 2`. -/
theorem outside_simplex_decreases :
    kernelOf [3, 3] K33 = [0, 0, 10, 0, 0, 0, 0, 0, 0] ∧ MonoAx [3, 3] 1 K33 ∧
    evalSimplex false [3, 3] (kernelOf [3, 3] K33) [1, -3/2] = .ok 10 ∧
    evalSimplex false [3, 3] (kernelOf [3, 3] K33) ([1, -3/2].set 1 0) = .ok 0 ∧
    evalSimplex false [3] (kernelOf [3] Kramp) [5/2] = .ok (5/2) := by
  refine ⟨by decide +kernel, ?_, by decide +kernel, by decide +kernel, by decide +kernel⟩
  unfold MonoAx; decide +kernel

/-- `C02_T4_simplex_mono` (all-pairs monotonicity) is FALSE with `Defined` of the lower point weakened
to the rank condition. -/
theorem C02_T4_simplex_mono_needs_defined :
    ¬ (∀ (clipOn : Bool) (sizes : List Nat) (K : W) (x : List ℚ) (d : Nat) (v : ℚ) (a b : ℚ),
        sizes ≠ [] → (∀ n ∈ sizes, 2 ≤ n) → d < sizes.length → MonoAx sizes d K →
        x.length = sizes.length → Defined clipOn sizes (x.set d v) → x.getD d 0 ≤ v →
        evalSimplex clipOn sizes (kernelOf sizes K) x = .ok a →
        evalSimplex clipOn sizes (kernelOf sizes K) (x.set d v) = .ok b → a ≤ b) := by
  intro h
  have := h false [3, 3] K33 [1, -3/2] 1 0 10 0 (by simp) (by simp) (by simp) outside_simplex_decreases.2.1
    rfl ⟨rfl, Or.inr (by simp only [List.set_cons_succ, List.set_cons_zero]; unfold InRange InRange InRange; norm_num)⟩
    (by norm_num) outside_simplex_decreases.2.2.1 outside_simplex_decreases.2.2.2.1
  norm_num at this

/-- `C02_T3_simplex_range` is FALSE with `Defined` weakened: the evaluation may raise
(`InvalidArgumentError`) or leave the range. -/
theorem C02_T3_simplex_range_needs_defined :
    ¬ (∀ (clipOn : Bool) (sizes : List Nat) (K : W) (x : List ℚ) (lo hi : ℚ),
        sizes ≠ [] → (∀ n ∈ sizes, 2 ≤ n) → x.length = sizes.length →
        (∀ idx ∈ allIdx sizes, lo ≤ K idx ∧ K idx ≤ hi) →
        ∃ v, evalSimplex clipOn sizes (kernelOf sizes K) x = .ok v ∧ lo ≤ v ∧ v ≤ hi) := by
  intro h
  obtain ⟨v, hv, -, h2⟩ := h false [3] Kramp [5/2] 0 2 (by simp) (by simp) rfl (by
    intro idx hi
    obtain ⟨a, ha, rfl⟩ : ∃ a < 3, idx = [a] := by simpa [allIdx] using hi
    have : (a : ℚ) ≤ 2 := by exact_mod_cast (by omega : a ≤ 2)
    simp only [Kramp, coord, List.getD_cons_zero]
    exact ⟨by positivity, this⟩)
  rw [outside_simplex_decreases.2.2.2.2] at hv
  cases hv
  norm_num at h2

end Tfl.C02
