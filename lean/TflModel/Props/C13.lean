import TflModel.Lemmas.Regularizers
import TflModel.Lemmas.RegUnits
/-!
# C13 — regularizers compute the documented Laplacian / torsion / Hessian / wrinkle penalties

`Tfl.Reg.laplacian`, `torsion`, `pwlLaplacian`, `pwlHessian`, `pwlWrinkle` are the code-shaped models
(transpose / reshape / slice; `losses` list) tied to the real code by `harness/props/c13.py`.
`lapSpec`, `torSpec`, `pwlSpec` are the documented sums.  Units: the code appends the units axis to the
lattice shape with amount `0.0`; `extSizes sizes units` is that shape and `getR l rank = 0` for a
scalar amount or a list with one entry per lattice dimension, so the units axis is never penalised.

Per-unit form (section `units`, proved for every shape, every `units ≥ 1`, scalar and per-dimension
amounts): the regularizer of the multi-unit kernel is the SUM over units `u` of the single-unit
regularizer of unit `u`'s slice `unitSlice units u w` (`fun idx => w (idx ++ [u])` when `units > 1`, the
units axis being the last coordinate; `w` itself when `units = 1`, where the code appends no axis) —
`laplacian_per_unit`, `torsion_per_unit` (and `laplacian_eq_sum_documented` /
`torsion_eq_sum_documented`, the exact expression the driver evaluates next to the code-shaped value);
for the PWL regularizers, whose kernel is a list of columns (one per unit), `pwl_laplacian_per_unit`,
`pwl_hessian_per_unit`, `pwl_wrinkle_per_unit` (cyclic or not).  The only hypothesis on the amounts is
that the units axis carries none (`amount_units_axis_zero_*`, `pairW_units_axis_zero_*`: scalars, and
lists with one entry per lattice dimension).

Scope of the clauses stated HERE, completed in `Props/C13Exact.lean` (second audit, rows 12 / 33):
* the vanishing sets `pwl_laplacian_const`, `pwl_hessian_affine`, `pwl_wrinkle_quadratic` below are stated for
  `is_cyclic = False`.  For `is_cyclic = True` all three regularizers vanish on CONSTANT outputs
  (`pwl_*_const_any`) and, with a positive amount, only there (`pwl_*_cyclic_zero_iff`): the wrap-around terms
  do not vanish on non-constant linear / quadratic outputs (`pwl_hessian_cyclic_affine_witness` = 6,
  `pwl_wrinkle_cyclic_quadratic_witness` = 48, the values of the real code).  The property's clause on linear /
  quadratic outputs is a statement about the non-cyclic form.
* `laplacian_linear_scalar`, `torsion_linear_scalar` are the SCALAR instances of linearity.  For per-dimension
  lists the Laplacian is linear in the amount vectors (`laplacian_linear`, `laplacian_vector_add`,
  `laplacian_vector_smul`); the torsion is linear in the pair weights `l_i l_j` (`torsion_linear_pairW`), i.e.
  bilinear: degree-2 homogeneous (`torsion_vector_smul_sq`), affine in each dimension's amount
  (`torsion_dim_affine_l1/_l2`) and NOT additive in the vector (`torsion_list_not_additive`: 27 ≠ 15).
  `reg l1 l2 = reg l1 0 + reg 0 l2`: `laplacian_split`, `torsion_split`, `pwl_split`.
* `Amt.Nonneg` is the hypothesis of the non-negativity clause.  The real code ACCEPTS negative amounts
  (returning negative values) except `sqrt` of a negative scalar torsion amount (`torsion_raises_iff`);
  `torsion_eq_documented_rootOk` is `torsion_eq_documented` for every accepted amount.
-/
namespace Tfl.C13
open Tfl Tfl.Reg

/-! ## T1 — the code computes the documented sums -/

/-- Lattice Laplacian, every shape / unit count / scalar or per-dimension amounts: transpose-to-front +
reshape + row slices sum `l1_d |w(idx+e_d) - w idx| + l2_d (w(idx+e_d) - w idx)^2` over every adjacent
pair along every dimension exactly once, each dimension weighted by its own amount. -/
theorem laplacian_eq_documented (sizes : List Nat) (units : Nat) (l1 l2 : Amt) (w : W) :
    laplacian sizes units l1 l2 w =
      lapSpec (extSizes sizes units) (l1.toList sizes.length) (l2.toList sizes.length) w := by
  unfold laplacian
  split
  · rename_i h
    simp only [Bool.and_eq_true, Bool.not_eq_true'] at h
    symm; apply lapSpec_eq_zero
    intro d _; left
    exact ⟨falsy_getR h.1 _ _, falsy_getR h.2 _ _⟩
  · simp only [lapCore_eq_spec, extSizes]
    exact lapSpec_congr_amt w (fun d => lapAmounts_getR _ _ _ d) (fun d => lapAmounts_getR _ _ _ d)

/-- Lattice torsion (rank ≠ 1, non-negative amounts — `sqrt` of a negative scalar raises; negative entries
of per-dimension LISTS are accepted by the code, and the equality holds for them too:
`torsion_eq_documented_rootOk` in `Props/C13Exact.lean`): the planes
enumerate every 2x2 cell of every pair of dimensions `d < d'` once; the pair is weighted by the
product of the per-dimension amounts (a scalar `a` weights every pair by `a`). -/
theorem torsion_eq_documented (sizes : List Nat) (units : Nat) (l1 l2 : Amt) (w : W)
    (h1 : l1.Nonneg) (h2 : l2.Nonneg) (hr : sizes.length ≠ 1) :
    torsion sizes units l1 l2 w =
      .ok (torSpec (extSizes sizes units) (l1.pairW sizes.length) (l2.pairW sizes.length) w) := by
  obtain ⟨o1, e1, p1⟩ := torAmounts_ok sizes.length units h1
  obtain ⟨o2, e2, p2⟩ := torAmounts_ok sizes.length units h2
  unfold torsion
  have hr' : (sizes.length == 1) = false := by simpa using hr
  simp only [hr', Bool.false_or]
  split
  · rename_i h
    simp only [Bool.and_eq_true, Bool.not_eq_true'] at h
    congr 1; symm; apply torSpec_eq_zero
    intro i j _ _; left
    exact ⟨falsy_pairW h.1 _ _ _, falsy_pairW h.2 _ _ _⟩
  · simp only [e1, e2, bind, Except.bind, pure, Except.pure, torCore_eq_spec, p1, p2, extSizes]

/-- rank-1 lattices have no torsion: the code returns `0.0`, and the documented sum over pairs is empty. -/
theorem torsion_rank_one (sizes : List Nat) (units : Nat) (l1 l2 : Amt) (w : W) (hr : sizes.length = 1)
    (p1 p2 : Nat → Nat → Rat) :
    torsion sizes units l1 l2 w = .ok 0 ∧ torSpec sizes p1 p2 w = 0 := by
  constructor
  · unfold torsion; simp [hr]
  · unfold torSpec; simp [hr, rsum]

/-- PWL Laplacian = `l1 ||Δ out||_1 + l2 ||Δ out||_2^2` over all units, with the wrap-around
difference `out_0 - out_last` when cyclic. -/
theorem pwl_laplacian_eq_documented (l1 l2 : Rat) (cyc : Bool) (cols : List (List Rat))
    (hc : ∀ x ∈ cols, x ≠ []) : pwlLaplacian l1 l2 cyc cols = pwlSpec 1 l1 l2 cyc cols := by
  unfold pwlLaplacian pwlSpec
  rw [pwlReg_eq, List.flatMap_congr (fun x hx => pwlLapTerms_eq cyc x (hc x hx))]

/-- PWL Hessian = norms of the second differences of the keypoint outputs (periodic continuation by two
points when cyclic). -/
theorem pwl_hessian_eq_documented (l1 l2 : Rat) (cyc : Bool) (cols : List (List Rat))
    (hc : ∀ x ∈ cols, x ≠ []) : pwlHessian l1 l2 cyc cols = pwlSpec 2 l1 l2 cyc cols := by
  unfold pwlHessian pwlSpec
  rw [pwlReg_eq, List.flatMap_congr (fun x hx => pwlHessTerms_eq cyc x (hc x hx))]

/-- PWL wrinkle, kernels of at least three rows = norms of the third differences (periodic continuation
by three points when cyclic). -/
theorem pwl_wrinkle_eq_documented (l1 l2 : Rat) (cyc : Bool) (cols : List (List Rat))
    (hc : ∀ x ∈ cols, 3 ≤ x.length) : pwlWrinkle l1 l2 cyc cols = pwlSpec 3 l1 l2 cyc cols := by
  unfold pwlWrinkle pwlSpec
  rw [pwlReg_eq, List.flatMap_congr (fun x hx => pwlWrinkleTerms_eq cyc x (hc x hx))]

/-! ## T2 — non-negativity and linearity in the amounts -/

theorem lapSpec_nonneg (sizes : List Nat) (l1 l2 : List Rat) (w : W)
    (h1 : ∀ d, 0 ≤ getR l1 d) (h2 : ∀ d, 0 ≤ getR l2 d) : 0 ≤ lapSpec sizes l1 l2 w := by
  unfold lapSpec
  apply rsum_nonneg; intro x hx
  obtain ⟨d, _, rfl⟩ := List.mem_map.mp hx
  apply rsum_nonneg; intro y hy
  obtain ⟨idx, _, rfl⟩ := List.mem_map.mp hy
  exact absSq_nonneg (h1 d) (h2 d) _

theorem torSpec_nonneg (sizes : List Nat) (p1 p2 : Nat → Nat → Rat) (w : W)
    (h1 : ∀ i j, 0 ≤ p1 i j) (h2 : ∀ i j, 0 ≤ p2 i j) : 0 ≤ torSpec sizes p1 p2 w := by
  unfold torSpec
  apply rsum_nonneg; intro x hx
  obtain ⟨i, _, rfl⟩ := List.mem_map.mp hx
  apply rsum_nonneg; intro y hy
  obtain ⟨j, _, rfl⟩ := List.mem_map.mp hy
  apply rsum_nonneg; intro z hz
  obtain ⟨idx, _, rfl⟩ := List.mem_map.mp hz
  exact absSq_nonneg (h1 i j) (h2 i j) _

/-- the lattice Laplacian regularizer is non-negative for non-negative amounts.  (`Nonneg` is the clause's
hypothesis, not an acceptance condition: the code accepts negative amounts and then returns negative
values — `laplacian_neg_witness`, `torsion_neg_list_witness` in `Props/C13Exact.lean`.) -/
theorem laplacian_nonneg (sizes : List Nat) (units : Nat) (l1 l2 : Amt) (w : W)
    (h1 : l1.Nonneg) (h2 : l2.Nonneg) : 0 ≤ laplacian sizes units l1 l2 w := by
  rw [laplacian_eq_documented]
  exact lapSpec_nonneg _ _ _ _ (Amt.toList_nonneg h1 _) (Amt.toList_nonneg h2 _)

/-- the lattice torsion regularizer returns a non-negative value for non-negative amounts -/
theorem torsion_nonneg (sizes : List Nat) (units : Nat) (l1 l2 : Amt) (w : W)
    (h1 : l1.Nonneg) (h2 : l2.Nonneg) : ∃ r, torsion sizes units l1 l2 w = .ok r ∧ 0 ≤ r := by
  by_cases hr : sizes.length = 1
  · exact ⟨0, (torsion_rank_one sizes units l1 l2 w hr (fun _ _ => 0) (fun _ _ => 0)).1, le_refl _⟩
  · exact ⟨_, torsion_eq_documented sizes units l1 l2 w h1 h2 hr,
      torSpec_nonneg _ _ _ _ (Amt.pairW_nonneg h1 _) (Amt.pairW_nonneg h2 _)⟩

/-- the Laplacian is linear in the vectors of per-dimension amounts -/
theorem lapSpec_linear (sizes : List Nat) (a b : Rat) (L1 L2 l1 l2 l1' l2' : List Rat) (w : W)
    (hL1 : ∀ d, getR L1 d = a * getR l1 d + b * getR l1' d)
    (hL2 : ∀ d, getR L2 d = a * getR l2 d + b * getR l2' d) :
    lapSpec sizes L1 L2 w = a * lapSpec sizes l1 l2 w + b * lapSpec sizes l1' l2' w := by
  unfold lapSpec
  simp only [hL1, hL2, absSq_linear, rsum_map_linear]

/-- the torsion is linear in the pair weights (hence in scalar amounts, and bilinear in per-dimension ones) -/
theorem torSpec_linear (sizes : List Nat) (a b : Rat) (P1 P2 p1 p2 p1' p2' : Nat → Nat → Rat) (w : W)
    (hP1 : ∀ i j, P1 i j = a * p1 i j + b * p1' i j) (hP2 : ∀ i j, P2 i j = a * p2 i j + b * p2' i j) :
    torSpec sizes P1 P2 w = a * torSpec sizes p1 p2 w + b * torSpec sizes p1' p2' w := by
  unfold torSpec
  simp only [hP1, hP2, absSq_linear, rsum_map_linear]

/-- linearity of the real entry point in scalar `(l1, l2)`; per-dimension lists and mixtures:
`laplacian_linear` (`Props/C13Exact.lean`) -/
theorem laplacian_linear_scalar (sizes : List Nat) (units : Nat) (a b x y x' y' : Rat) (w : W) :
    laplacian sizes units (.scalar (a * x + b * x')) (.scalar (a * y + b * y')) w =
      a * laplacian sizes units (.scalar x) (.scalar y) w +
      b * laplacian sizes units (.scalar x') (.scalar y') w := by
  simp only [laplacian_eq_documented]
  apply lapSpec_linear <;> intro d <;> simp only [Amt.toList, getR_replicate] <;> split_ifs <;> ring

/-- linearity of the real entry point in SCALAR `(l1, l2)` (non-negative amounts, so that `sqrt` is defined).
Not true for per-dimension lists, whose amounts multiply pairwise (`torsion_list_not_additive`: lists `[1,1]`,
`[2,2]`, `[3,3]` give 3, 12, 27); what holds there is linearity in the pair weights / bilinearity:
`torsion_linear_pairW`, `torsion_vector_smul_sq`, `torsion_dim_affine_l1/_l2` (`Props/C13Exact.lean`). -/
theorem torsion_linear_scalar (sizes : List Nat) (units : Nat) (a b x y x' y' : Rat) (w : W)
    (ha : 0 ≤ a) (hb : 0 ≤ b) (hx : 0 ≤ x) (hy : 0 ≤ y) (hx' : 0 ≤ x') (hy' : 0 ≤ y')
    (hr : sizes.length ≠ 1) :
    ∃ r r1 r2, torsion sizes units (.scalar (a * x + b * x')) (.scalar (a * y + b * y')) w = .ok r ∧
      torsion sizes units (.scalar x) (.scalar y) w = .ok r1 ∧
      torsion sizes units (.scalar x') (.scalar y') w = .ok r2 ∧ r = a * r1 + b * r2 := by
  refine ⟨_, _, _, torsion_eq_documented _ _ _ _ _ ?_ ?_ hr, torsion_eq_documented _ _ _ _ _ hx hy hr,
    torsion_eq_documented _ _ _ _ _ hx' hy' hr, ?_⟩
  · exact add_nonneg (mul_nonneg ha hx) (mul_nonneg hb hx')
  · exact add_nonneg (mul_nonneg ha hy) (mul_nonneg hb hy')
  · apply torSpec_linear <;> intro i j <;> simp only [Amt.pairW] <;> split_ifs <;> ring

/-- every PWL regularizer is non-negative for non-negative amounts -/
theorem pwl_nonneg (terms : List Rat → List Rat) (l1 l2 : Rat) (cols : List (List Rat))
    (h1 : 0 ≤ l1) (h2 : 0 ≤ l2) : 0 ≤ pwlReg terms l1 l2 cols := by
  rw [pwlReg_eq]
  exact add_nonneg (mul_nonneg h1 (sumAbs_nonneg _)) (mul_nonneg h2 (sumSq_nonneg _))

/-- every PWL regularizer is linear in `(l1, l2)` -/
theorem pwl_linear (terms : List Rat → List Rat) (a b l1 l2 l1' l2' : Rat) (cols : List (List Rat)) :
    pwlReg terms (a * l1 + b * l1') (a * l2 + b * l2') cols =
      a * pwlReg terms l1 l2 cols + b * pwlReg terms l1' l2' cols := by
  simp only [pwlReg_eq]; ring

/-! ## T3 — vanishing sets (PWL: non-cyclic form here; every `is_cyclic` in `Props/C13Exact.lean`) -/

/-- Laplacian of a kernel whose every unit is constant on the lattice is zero (`c u` = value of unit `u`;
with `units = 1` the last coordinate does not exist and reads `0`). The amount hypotheses say that the
units axis carries no amount: true for scalars and for lists with one entry per lattice dimension. -/
theorem laplacian_const (sizes : List Nat) (units : Nat) (l1 l2 : Amt) (w : W) (c : Nat → Rat)
    (hw : ∀ idx ∈ allIdx (extSizes sizes units), w idx = c (coord idx sizes.length))
    (hA1 : getR (l1.toList sizes.length) sizes.length = 0)
    (hA2 : getR (l2.toList sizes.length) sizes.length = 0) :
    laplacian sizes units l1 l2 w = 0 := by
  rw [laplacian_eq_documented]
  apply lapSpec_eq_zero
  intro d hd
  by_cases hdr : d = sizes.length
  · left; subst hdr; exact ⟨hA1, hA2⟩
  · right
    intro idx hm hp
    have hm' := mem_allIdx_box.mpr (inBox_setc (mem_allIdx_box.mp hm) hp)
    rw [hw _ hm', hw _ hm, coord_setc_ne _ hdr]

theorem amount_units_axis_zero_scalar (a : Rat) (rank : Nat) : getR ((Amt.scalar a).toList rank) rank = 0 := by
  simp [Amt.toList, getR_replicate]
theorem amount_units_axis_zero_list (l : List Rat) (rank : Nat) (h : l.length = rank) :
    getR ((Amt.perDim l).toList rank) rank = 0 := by
  simp [Amt.toList, getR, List.getD, ← h]

/-- Torsion of a kernel whose every unit is additively separable,
`w(idx, u) = Σ_d g u d (idx_d)` on the lattice, is zero. -/
theorem torsion_separable (sizes : List Nat) (units : Nat) (l1 l2 : Amt) (w : W)
    (g : Nat → Nat → Nat → Rat) (h1 : l1.Nonneg) (h2 : l2.Nonneg)
    (hw : ∀ idx ∈ allIdx (extSizes sizes units),
      w idx = rsum ((List.range sizes.length).map (fun d => g (coord idx sizes.length) d (coord idx d))))
    (hP1 : ∀ i, l1.pairW sizes.length i sizes.length = 0)
    (hP2 : ∀ i, l2.pairW sizes.length i sizes.length = 0) :
    torsion sizes units l1 l2 w = .ok 0 := by
  by_cases hr : sizes.length = 1
  · exact (torsion_rank_one sizes units l1 l2 w hr (fun _ _ => 0) (fun _ _ => 0)).1
  rw [torsion_eq_documented sizes units l1 l2 w h1 h2 hr]
  congr 1
  apply torSpec_eq_zero
  intro i j hij hj
  by_cases hjr : j = sizes.length
  · left; subst hjr; exact ⟨hP1 i, hP2 i⟩
  · right
    intro idx hm pi pj
    have hir : i ≠ sizes.length := by
      have : (extSizes sizes units).length ≤ sizes.length + 1 := by
        unfold extSizes; split_ifs <;> simp
      omega
    have b := mem_allIdx_box.mp hm
    have m10 := mem_allIdx_box.mpr (inBox_setc b pi)
    have m01 := mem_allIdx_box.mpr (inBox_setc b pj)
    have m11 := mem_allIdx_box.mpr (inBox_setc (inBox_setc b pi)
      (show coord idx j + 1 < coord (extSizes sizes units) j from pj))
    have key := twist_sep (List.range sizes.length) (g (coord idx sizes.length)) (Nat.ne_of_lt hij) idx
    simp only [twist] at key ⊢
    rw [hw _ hm, hw _ m11, hw _ m01, hw _ m10]
    simp only [coord_setc_ne _ hir, coord_setc_ne _ hjr]
    exact key

theorem pairW_units_axis_zero_scalar (a : Rat) (rank i : Nat) : (Amt.scalar a).pairW rank i rank = 0 := by
  simp [Amt.pairW]
theorem pairW_units_axis_zero_list (l : List Rat) (rank i : Nat) (h : l.length = rank) :
    (Amt.perDim l).pairW rank i rank = 0 := by
  simp [Amt.pairW, getR, List.getD, ← h]

/-- all terms zero ⇒ the PWL regularizer is zero -/
theorem pwlReg_zero (terms : List Rat → List Rat) (l1 l2 : Rat) (cols : List (List Rat))
    (h : ∀ x ∈ cols, ∀ t ∈ terms x, t = 0) : pwlReg terms l1 l2 cols = 0 := by
  have hz : ∀ t ∈ cols.flatMap terms, t = 0 := by
    intro t ht
    obtain ⟨x, hx, htx⟩ := List.mem_flatMap.mp ht
    exact h x hx t htx
  rw [pwlReg_eq, sumAbs_eq_zero hz, sumSq_eq_zero hz]; ring

/-- PWL Laplacian (non-cyclic form) vanishes when the keypoint outputs of every unit are constant.
Cyclic or not: `pwl_laplacian_const_any`; exact cyclic vanishing set: `pwl_laplacian_cyclic_zero_iff`. -/
theorem pwl_laplacian_const (l1 l2 : Rat) (cols : List (List Rat))
    (h : ∀ x ∈ cols, ∃ a : Rat, outs x = (List.range x.length).map (fun _ => a)) :
    pwlLaplacian l1 l2 false cols = 0 := by
  apply pwlReg_zero
  intro x hx t ht
  obtain ⟨a, ha⟩ := h x hx
  by_cases hne : x = []
  · subst hne; simp [pwlLapTerms] at ht
  rw [pwlLapTerms_eq false x hne] at ht
  simp only [pwlSpecTerms, Bool.false_eq_true, if_false, ha, iterDiffs, List.range_eq_range',
    diffs_map_range', List.mem_map] at ht
  obtain ⟨j, _, rfl⟩ := ht
  ring

/-- PWL Hessian, NON-CYCLIC form (`is_cyclic = False`), vanishes when the keypoint outputs are an affine
function of the keypoint INDEX.  This is the form the property's clause is about: the cyclic Hessian contains
the two wrap-around second differences, which are `∓ k b` on outputs `a + b j` (`pwl_hessian_cyclic_affine`;
`(0,1,2) ↦ 6`), so it vanishes exactly on constant outputs (`pwl_hessian_const_any`,
`pwl_hessian_cyclic_zero_iff`). -/
theorem pwl_hessian_affine (l1 l2 : Rat) (cols : List (List Rat))
    (h : ∀ x ∈ cols, ∃ a b : Rat, outs x = (List.range x.length).map (fun (j : Nat) => a + b * (j : Rat))) :
    pwlHessian l1 l2 false cols = 0 := by
  apply pwlReg_zero
  intro x hx t ht
  obtain ⟨a, b, hab⟩ := h x hx
  by_cases hne : x = []
  · subst hne; simp [pwlHessTerms] at ht
  rw [pwlHessTerms_eq false x hne] at ht
  simp only [pwlSpecTerms, Bool.false_eq_true, if_false, hab, iterDiffs2_map_range, List.mem_map] at ht
  obtain ⟨j, _, rfl⟩ := ht
  push_cast; ring

/-- PWL wrinkle, NON-CYCLIC form (`is_cyclic = False`), vanishes when the keypoint outputs are a quadratic
polynomial of the keypoint INDEX.  The cyclic wrinkle does not (`pwl_wrinkle_cyclic_quadratic_witness`:
`(0,1,4,9) ↦ 48`); it vanishes exactly on constant outputs (`pwl_wrinkle_const_any`,
`pwl_wrinkle_cyclic_zero_iff`). -/
theorem pwl_wrinkle_quadratic (l1 l2 : Rat) (cols : List (List Rat))
    (h : ∀ x ∈ cols, ∃ a b c : Rat,
      outs x = (List.range x.length).map (fun (j : Nat) => a + b * (j : Rat) + c * (j : Rat) * (j : Rat))) :
    pwlWrinkle l1 l2 false cols = 0 := by
  apply pwlReg_zero
  intro x hx t ht
  obtain ⟨a, b, c, habc⟩ := h x hx
  by_cases hlt : x.length < 3
  · simp [pwlWrinkleTerms, hlt] at ht
  rw [pwlWrinkleTerms_eq false x (by omega)] at ht
  simp only [pwlSpecTerms, Bool.false_eq_true, if_false, habc, iterDiffs3_map_range, List.mem_map] at ht
  obtain ⟨j, _, rfl⟩ := ht
  push_cast; ring


/-! ## units — the per-unit reading "sum over units of the single-unit penalty"

The theorems above treat `units > 1` the way the code does: the units axis is one more axis of the box
(`extSizes`) whose amount is `0`, so no difference / twist ever crosses units (`laplacian_const` and
`torsion_separable` use exactly that).  Here the equivalent per-unit reading is PROVED: the box
`sizes ++ [units]` is (row-major) the box `sizes` times `range units` (`allIdx_snoc`), the axis without
amount contributes nothing, and the sums over dimensions and over units are exchanged (`lapSpec_snoc`,
`torSpec_snoc` in `Lemmas/RegUnits.lean`).  `unitSlice units u w` is unit `u` of the kernel — the
driver's `unitTable`; the `reg.lat.*` replies carry `Σ_u lapSpec/torSpec` of these slices next to the
code-shaped value, which is `laplacian_eq_sum_documented` / `torsion_eq_sum_documented`. -/

theorem extSizes_one (sizes : List Nat) : extSizes sizes 1 = sizes := by simp [extSizes]

/-- documented Laplacian on the reshaped kernel = sum over units of the documented Laplacian of the slices -/
theorem lapSpec_per_unit (sizes : List Nat) (units : Nat) (l1 l2 : List Rat) (w : W) (hu : 1 ≤ units)
    (h1 : getR l1 sizes.length = 0) (h2 : getR l2 sizes.length = 0) :
    lapSpec (extSizes sizes units) l1 l2 w =
      rsum ((List.range units).map (fun u => lapSpec sizes l1 l2 (unitSlice units u w))) := by
  by_cases h : units > 1
  · simp only [extSizes, unitSlice, h, if_true]
    exact lapSpec_snoc sizes units l1 l2 w h1 h2
  · have e : units = 1 := by omega
    subst e
    simp [extSizes, unitSlice, rsum]

/-- documented torsion on the reshaped kernel = sum over units of the documented torsion of the slices -/
theorem torSpec_per_unit (sizes : List Nat) (units : Nat) (p1 p2 : Nat → Nat → Rat) (w : W) (hu : 1 ≤ units)
    (h1 : ∀ i, p1 i sizes.length = 0) (h2 : ∀ i, p2 i sizes.length = 0) :
    torSpec (extSizes sizes units) p1 p2 w =
      rsum ((List.range units).map (fun u => torSpec sizes p1 p2 (unitSlice units u w))) := by
  by_cases h : units > 1
  · simp only [extSizes, unitSlice, h, if_true]
    exact torSpec_snoc sizes units p1 p2 w h1 h2
  · have e : units = 1 := by omega
    subst e
    simp [extSizes, unitSlice, rsum]

/-- the code's multi-unit Laplacian = `Σ_u` documented single-unit Laplacian of unit `u`
(the expression evaluated by the driver on every correspondence case) -/
theorem laplacian_eq_sum_documented (sizes : List Nat) (units : Nat) (l1 l2 : Amt) (w : W) (hu : 1 ≤ units)
    (hA1 : getR (l1.toList sizes.length) sizes.length = 0)
    (hA2 : getR (l2.toList sizes.length) sizes.length = 0) :
    laplacian sizes units l1 l2 w =
      rsum ((List.range units).map (fun u =>
        lapSpec sizes (l1.toList sizes.length) (l2.toList sizes.length) (unitSlice units u w))) := by
  rw [laplacian_eq_documented]
  exact lapSpec_per_unit sizes units _ _ w hu hA1 hA2

/-- **Lattice Laplacian, per-unit form**: for every shape, every `units ≥ 1` and scalar / per-dimension
amounts that put no amount on the units axis, the regularizer of the multi-unit kernel is the sum over
units of the single-unit regularizer (`units = 1` call) of each unit's slice. -/
theorem laplacian_per_unit (sizes : List Nat) (units : Nat) (l1 l2 : Amt) (w : W) (hu : 1 ≤ units)
    (hA1 : getR (l1.toList sizes.length) sizes.length = 0)
    (hA2 : getR (l2.toList sizes.length) sizes.length = 0) :
    laplacian sizes units l1 l2 w =
      rsum ((List.range units).map (fun u => laplacian sizes 1 l1 l2 (unitSlice units u w))) := by
  rw [laplacian_eq_sum_documented sizes units l1 l2 w hu hA1 hA2]
  simp only [laplacian_eq_documented, extSizes_one]

/-- the statement formerly left open (scalar amounts, or lists with one entry per lattice dimension) -/
def LaplacianIsSumOverUnits : Prop :=
  ∀ (sizes : List Nat) (units : Nat) (l1 l2 : Amt) (w : W), 1 < units →
    (∀ l, l1 = .perDim l → l.length = sizes.length) → (∀ l, l2 = .perDim l → l.length = sizes.length) →
    laplacian sizes units l1 l2 w =
      rsum ((List.range units).map (fun u => laplacian sizes 1 l1 l2 (fun idx => w (idx ++ [u]))))

theorem amount_units_axis_zero (a : Amt) (rank : Nat) (h : ∀ l, a = .perDim l → l.length = rank) :
    getR (a.toList rank) rank = 0 := by
  cases a with
  | scalar x => exact amount_units_axis_zero_scalar x rank
  | perDim l => exact amount_units_axis_zero_list l rank (h l rfl)

theorem laplacianIsSumOverUnits : LaplacianIsSumOverUnits := by
  intro sizes units l1 l2 w hu h1 h2
  have := laplacian_per_unit sizes units l1 l2 w (by omega)
    (amount_units_axis_zero l1 _ h1) (amount_units_axis_zero l2 _ h2)
  simpa only [unitSlice, gt_iff_lt, hu, if_true] using this

/-- the code's multi-unit torsion = `Σ_u` documented single-unit torsion of unit `u`
(the expression evaluated by the driver); for rank-1 lattices both sides are `0`. -/
theorem torsion_eq_sum_documented (sizes : List Nat) (units : Nat) (l1 l2 : Amt) (w : W) (hu : 1 ≤ units)
    (h1 : l1.Nonneg) (h2 : l2.Nonneg)
    (hP1 : ∀ i, l1.pairW sizes.length i sizes.length = 0)
    (hP2 : ∀ i, l2.pairW sizes.length i sizes.length = 0) :
    torsion sizes units l1 l2 w =
      .ok (rsum ((List.range units).map (fun u =>
        torSpec sizes (l1.pairW sizes.length) (l2.pairW sizes.length) (unitSlice units u w)))) := by
  by_cases hr : sizes.length = 1
  · rw [(torsion_rank_one sizes units l1 l2 w hr (fun _ _ => 0) (fun _ _ => 0)).1]
    congr 1; symm
    apply rsum_eq_zero
    intro x hx
    obtain ⟨u, _, rfl⟩ := List.mem_map.mp hx
    exact (torsion_rank_one sizes units l1 l2 _ hr _ _).2
  · rw [torsion_eq_documented sizes units l1 l2 w h1 h2 hr]
    congr 1
    exact torSpec_per_unit sizes units _ _ w hu hP1 hP2

/-- **Lattice torsion, per-unit form** (non-negative amounts — `sqrt` of a negative scalar raises): every
single-unit call on a unit slice succeeds, and the multi-unit call returns the sum of their values. -/
theorem torsion_per_unit (sizes : List Nat) (units : Nat) (l1 l2 : Amt) (w : W) (hu : 1 ≤ units)
    (h1 : l1.Nonneg) (h2 : l2.Nonneg)
    (hP1 : ∀ i, l1.pairW sizes.length i sizes.length = 0)
    (hP2 : ∀ i, l2.pairW sizes.length i sizes.length = 0) :
    ∃ r : Nat → Rat, (∀ u, torsion sizes 1 l1 l2 (unitSlice units u w) = .ok (r u)) ∧
      torsion sizes units l1 l2 w = .ok (rsum ((List.range units).map r)) := by
  refine ⟨fun u => torSpec sizes (l1.pairW sizes.length) (l2.pairW sizes.length) (unitSlice units u w),
    fun u => ?_, torsion_eq_sum_documented sizes units l1 l2 w hu h1 h2 hP1 hP2⟩
  have := torsion_eq_sum_documented sizes 1 l1 l2 (unitSlice units u w) (le_refl 1) h1 h2 hP1 hP2
  simpa [unitSlice, rsum] using this

theorem pairW_units_axis_zero (a : Amt) (rank : Nat) (h : ∀ l, a = .perDim l → l.length = rank) (i : Nat) :
    a.pairW rank i rank = 0 := by
  cases a with
  | scalar x => exact pairW_units_axis_zero_scalar x rank i
  | perDim l => exact pairW_units_axis_zero_list l rank i (h l rfl)

/-- **PWL regularizers, per-unit form**: the kernel is given by its columns, one per unit; every PWL
regularizer (any `terms`, hence Laplacian / Hessian / wrinkle, cyclic or not, any amounts) is the sum over
units of the regularizer of the one-column kernel. -/
theorem pwl_per_unit (terms : List Rat → List Rat) (l1 l2 : Rat) (cols : List (List Rat)) :
    pwlReg terms l1 l2 cols = rsum (cols.map (fun x => pwlReg terms l1 l2 [x])) :=
  pwlReg_per_unit terms l1 l2 cols
theorem pwl_laplacian_per_unit (l1 l2 : Rat) (cyc : Bool) (cols : List (List Rat)) :
    pwlLaplacian l1 l2 cyc cols = rsum (cols.map (fun x => pwlLaplacian l1 l2 cyc [x])) :=
  pwlReg_per_unit _ l1 l2 cols
theorem pwl_hessian_per_unit (l1 l2 : Rat) (cyc : Bool) (cols : List (List Rat)) :
    pwlHessian l1 l2 cyc cols = rsum (cols.map (fun x => pwlHessian l1 l2 cyc [x])) :=
  pwlReg_per_unit _ l1 l2 cols
theorem pwl_wrinkle_per_unit (l1 l2 : Rat) (cyc : Bool) (cols : List (List Rat)) :
    pwlWrinkle l1 l2 cyc cols = rsum (cols.map (fun x => pwlWrinkle l1 l2 cyc [x])) :=
  pwlReg_per_unit _ l1 l2 cols

/-! ## non-vacuity: concrete instances (docstring-sized 3 x 2 lattice, 4-row PWL kernels) -/
example : laplacian [3, 2] 1 (.perDim [1, 0]) (.scalar 0)
    (Table.get (Table.ofVals [3, 2] [0, 1, 3, 6, 10, 15])) = 24 := by decide +kernel
example : lapSpec [3, 2] [0, 1] [0, 1/2] (Table.get (Table.ofVals [3, 2] [0, 1, 3, 6, 10, 15])) = 53 / 2 := by
  decide +kernel
example : torsion [3, 2] 1 (.scalar 1) (.perDim [2, 3])
    (Table.get (Table.ofVals [3, 2] [0, 1, 3, 6, 10, 16])) = .ok 83 := by decide +kernel
example : torsion [2, 2] 2 (.scalar 1) (.scalar 0)
    (Table.get (Table.ofVals [2, 2, 2] [0, 0, 1, 2, 3, 4, 5, 7])) = .ok 2 := by decide +kernel
example : pwlHessian 1 1 true [[0, 1, 2], [5, 1, 1]] = 76 := by decide +kernel
example : pwlWrinkle 1 2 false [[0, 1, 2, 5, 7]] = 13 := by decide +kernel
/-- the hypotheses of `pwl_wrinkle_quadratic` are met by a non-trivial kernel (outputs `j^2`) -/
example : outs [0, 1, 3, 5, 7] = (List.range 5).map (fun (j : Nat) => (0 : Rat) + 0 * (j : Rat) + 1 * (j : Rat) * (j : Rat)) := by
  decide +kernel

/-! ### non-vacuity of the per-unit theorems: `units = 2`, two different columns -/
/-- 3-vertex lattice, unit 0 = `(0, 1, 3)`, unit 1 = `(5, 7, 4)`: the two slices differ, have different
penalties, and the multi-unit value is their sum. -/
example :
    let w := Table.get (Table.ofVals [3, 2] [0, 5, 1, 7, 3, 4])
    (List.map (unitSlice 2 0 w) (allIdx [3]) = [0, 1, 3] ∧ List.map (unitSlice 2 1 w) (allIdx [3]) = [5, 7, 4]) ∧
    laplacian [3] 1 (.scalar 1) (.perDim [2]) (unitSlice 2 0 w) = 13 ∧
    laplacian [3] 1 (.scalar 1) (.perDim [2]) (unitSlice 2 1 w) = 31 ∧
    laplacian [3] 2 (.scalar 1) (.perDim [2]) w = 13 + 31 := by decide +kernel
/-- the hypotheses of `laplacian_per_unit` are met by that instance -/
example (w : W) : laplacian [3] 2 (.scalar 1) (.perDim [2]) w =
    rsum ((List.range 2).map (fun u => laplacian [3] 1 (.scalar 1) (.perDim [2]) (unitSlice 2 u w))) :=
  laplacian_per_unit [3] 2 _ _ w (by decide) (amount_units_axis_zero_scalar _ _)
    (amount_units_axis_zero_list _ _ rfl)
/-- 2 x 2 lattice, two units with different twists (`1` and `-2`) -/
example :
    let w := Table.get (Table.ofVals [2, 2, 2] [0, 0, 1, 2, 3, 4, 5, 4])
    torsion [2, 2] 1 (.scalar 1) (.perDim [1, 3]) (unitSlice 2 0 w) = .ok 4 ∧
    torsion [2, 2] 1 (.scalar 1) (.perDim [1, 3]) (unitSlice 2 1 w) = .ok 14 ∧
    torsion [2, 2] 2 (.scalar 1) (.perDim [1, 3]) w = .ok (4 + 14) := by decide +kernel
/-- the hypotheses of `torsion_per_unit` are met by that instance -/
example (w : W) : ∃ r : Nat → Rat,
    (∀ u, torsion [2, 2] 1 (.scalar 1) (.perDim [1, 3]) (unitSlice 2 u w) = .ok (r u)) ∧
    torsion [2, 2] 2 (.scalar 1) (.perDim [1, 3]) w = .ok (rsum ((List.range 2).map r)) :=
  torsion_per_unit [2, 2] 2 _ _ w (by decide) (by simp [Amt.Nonneg]) (by simp [Amt.Nonneg])
    (pairW_units_axis_zero_scalar _ _) (fun i => pairW_units_axis_zero_list _ _ i rfl)
/-- two different PWL columns, cyclic Hessian: `76 = 52 + 24` -/
example : pwlHessian 1 1 true [[0, 1, 2]] = 52 ∧ pwlHessian 1 1 true [[5, 1, 1]] = 24 ∧
    pwlHessian 1 1 true [[0, 1, 2], [5, 1, 1]] = 52 + 24 := by decide +kernel
example : pwlHessian 1 1 true [[0, 1, 2], [5, 1, 1]] =
    rsum ([[0, 1, 2], [5, 1, 1]].map (fun x => pwlHessian 1 1 true [x])) := pwl_hessian_per_unit ..

end Tfl.C13
