import TflModel.Lemmas.Alt
import TflModel.Props.C02
/-!
# C14 — alternative representations of the same function agree

Model: `Tfl.Alt` (`Model/Alt.lean`) on top of `Tfl.Kfl`, `Tfl.LatticeEval`, `Tfl.PwlEval`.

* T1 `KroneckerFactoredLattice` = `Lattice` holding the dense kernel `bias + mean_t scale_t ⊗_d k_{d,t}`.
* T2 `pwl_calibration_fn` = `PWLCalibration` holding the derived keypoints / weights.
* T3 `cdf_fn` = `CDF.call` for the `'mean'` and `'none'` reductions.
* T4 `ParallelCombination`, `Aggregation`, `RTL`.

All statements are for ONE unit (KFL / PWL: one kernel column; units never interact, C09) and ONE
example; `pwlFnRow` / `callUnits` / `rtlLattice` apply them per unit. `softmax` / `sigmoid` are
arbitrary functions in every statement of this file: no fact about them is needed for the equalities
(T2's "the paired layer exists" uses positivity of the softmax weights).
-/
namespace Tfl.C14
open Tfl Tfl.Alt

/-! ## T1 — KFL output = hypercube interpolation of the dense kernel -/

/-- **C14/T1.** For every lattice size `L ≥ 2`, every number of dimensions `dims ≥ 1`, of terms, every
kernel `K` (terms → dims → vertices), scale, bias and every input that is in range or clipped:
the KFL output `bias + mean_t scale_t Π_d (Σ_i hat_i(x_d) k_{d,t,i})` equals the `Lattice` layer's
hypercube interpolation `Σ_idx (Π_d hat_{idx_d}(x_d)) · kernel[idx]` of the dense kernel
`kernel[idx] = bias + mean_t scale_t Π_d k_{d,t,idx_d}` (Σ/Π exchange), for both input forms of the
lattice code and with or without `clip_inputs`.
`hr` (every coordinate in `[0, L − 1]`, or `clip_inputs` on) cannot be dropped: with `clip_inputs=False`
and a coordinate outside the range neither layer interpolates (there is no containing cell; the
`Lattice` side is outside property C02, see `Props/C02Outside.lean`) and the two representations are
DIFFERENT functions — `C14_T1_needs_in_range`. The docstring promise C14 formalises ("the input-output
behaviour of the factored and dense lattices is the same") is about the lattice's domain; the harness
compares both real layers with the model on such points (class `outside:clip_off_out_of_range`) without
demanding agreement. -/
theorem C14_T1_kfl_eq_dense_lattice (form : LatticeEval.InputForm) (L dims : Nat) (clipI : Bool)
    (K : List (List (List ℚ))) (scale : List ℚ) (bias : ℚ) (xs : List ℚ)
    (hL : 2 ≤ L) (hd : 1 ≤ dims) (hx : xs.length = dims) (hK : ∀ kt ∈ K, kt.length = dims)
    (hr : ∀ x ∈ xs, Kfl.InR L clipI x) :
    Kfl.eval L clipI K scale bias xs
      = LatticeEval.hypercubeValue form clipI (kflSizes L dims) (denseKernel L dims K scale bias) xs := by
  have hlen : xs.length = (kflSizes L dims).length := by simp [kflSizes, hx]
  have hne : kflSizes L dims ≠ [] := by
    intro e; have := congrArg List.length e; simp [kflSizes] at this; omega
  have hs2 : ∀ n ∈ kflSizes L dims, 2 ≤ n := by
    intro n hn; simp [kflSizes] at hn; omega
  -- the point the lattice code interpolates at is the KFL's clipped point
  have hpt : C02.effPoint clipI (kflSizes L dims) xs = xs.map (Kfl.clipIn L clipI) := by
    unfold C02.effPoint
    cases clipI with
    | true => simpa using clipOntoRange_replicate L dims xs hx
    | false =>
      have : Kfl.clipIn L false = id := by funext x; simp [Kfl.clipIn]
      simp [this]
  have hdef : C02.Defined clipI (kflSizes L dims) xs := by
    refine ⟨hlen, ?_⟩
    cases clipI with
    | true => exact Or.inl rfl
    | false =>
      refine Or.inr (inRange_replicate L dims xs hx (fun x hxm => ?_))
      rcases hr x hxm with h | h
      · cases h
      · exact h
  have hin := C02.effPoint_inRange hs2 hdef
  have h1 : LatticeEval.hypercubeValue form clipI (kflSizes L dims) (denseKernel L dims K scale bias) xs
      = LatticeEval.evalRec (kflSizes L dims) (C02.effPoint clipI (kflSizes L dims) xs) (denseW K scale bias) :=
    C02.C02_T1_hypercube_eq_interp form clipI (kflSizes L dims) (denseW K scale bias) xs hne hlen
      (hdef.2.elim Or.inl (fun r => Or.inr (Or.inl r)))
  rw [h1]
  have hplen : (C02.effPoint clipI (kflSizes L dims) xs).length = (kflSizes L dims).length :=
    C02.effPoint_length hlen
  have e : denseW K scale bias
      = fun idx => (fun _ => bias) idx + (fun idx => (1 / (K.length : ℚ)) * denseSum scale K idx) idx := by
    funext idx; simp only [denseW]; ring
  rw [e, LatticeEval.evalRec_add, LatticeEval.evalRec_const _ _ _ hin, LatticeEval.evalRec_smul,
    evalRec_denseSum _ _ hplen scale K (fun kt h => by simp [kflSizes, hK kt h])]
  unfold Kfl.eval
  rw [scaled_eq_zipWith, hpt]
  have : List.zipWith (fun s kt => s * Kfl.termProd L clipI xs kt) scale K
      = List.zipWith (fun s kt => s * prodInterp (kflSizes L dims) (xs.map (Kfl.clipIn L clipI)) kt) scale K := by
    apply zipWith_congr_right
    intro kt hkt s
    rw [termProd_eq_prodInterp L (by omega) clipI dims xs kt hx (hK kt hkt) hr]
  rw [this]; ring

/-- **C14/T1 (layer level).** The paired `Lattice` layer accepts the input and returns the KFL's value. -/
theorem C14_T1_lattice_layer_returns_kfl (form : LatticeEval.InputForm) (L dims : Nat) (clipI : Bool)
    (K : List (List (List ℚ))) (scale : List ℚ) (bias : ℚ) (xs : List ℚ)
    (hL : 2 ≤ L) (hd : 1 ≤ dims) (hx : xs.length = dims) (hK : ∀ kt ∈ K, kt.length = dims)
    (hr : ∀ x ∈ xs, Kfl.InR L clipI x) :
    kflAsLattice form L clipI dims K scale bias xs = .ok (Kfl.eval L clipI K scale bias xs) := by
  unfold kflAsLattice
  rw [C02.C02_T1_evalHypercube_ok form clipI _ _ xs (by intro n hn; simp [kflSizes] at hn; omega)
    (by simp [kflSizes, hx]), C14_T1_kfl_eq_dense_lattice form L dims clipI K scale bias xs hL hd hx hK hr]

/-- **C14/T1 (vertices).** At a lattice vertex the KFL returns the dense kernel entry of that vertex. -/
theorem C14_T1_dense_kernel_at_vertices (L dims : Nat) (clipI : Bool) (K : List (List (List ℚ)))
    (scale : List ℚ) (bias : ℚ) (idx : Idx) (hL : 2 ≤ L) (hd : 1 ≤ dims)
    (hK : ∀ kt ∈ K, kt.length = dims) (hi : idx ∈ allIdx (kflSizes L dims)) :
    Kfl.eval L clipI K scale bias (idx.map (fun (v : Nat) => (v : ℚ))) = denseW K scale bias idx := by
  have hr := LatticeEval.inRange_vertex _ idx hi
  have hlen : (idx.map (fun (v : Nat) => (v : ℚ))).length = dims := by
    have := hr.length_eq; simpa [kflSizes] using this
  have hin : ∀ x ∈ idx.map (fun (v : Nat) => (v : ℚ)), Kfl.InR L clipI x := by
    intro x hx
    refine Or.inr ?_
    obtain ⟨j, hj⟩ := List.getElem_of_mem hx
    obtain ⟨hj1, hj2⟩ := hj
    have := LatticeEval.inRange_getD _ _ j hr (by rw [← hr.length_eq]; exact hj1)
    have e1 : (idx.map (fun (v : Nat) => (v : ℚ))).getD j 0 = x := by
      simp only [List.getD_eq_getElem?_getD, List.getElem?_eq_getElem hj1, Option.getD_some, hj2]
    have e2 : ((kflSizes L dims).getD j 0 : ℚ) = L := by
      have hjd : j < dims := by rw [← hlen]; exact hj1
      simp [kflSizes, List.getD_eq_getElem?_getD, hjd]
    rw [e1, e2] at this
    exact this
  rw [C14_T1_kfl_eq_dense_lattice .list L dims clipI K scale bias _ hL hd hlen hK hin]
  have hne : kflSizes L dims ≠ [] := by
    intro e; have := congrArg List.length e; simp [kflSizes] at this; omega
  exact C02.C02_T2_vertex .list clipI (kflSizes L dims) (denseW K scale bias) idx hne hi


/-- **C14/T1: `hr` is needed (clip off, out of range — outside the property).**
(a) `L = 3`, two dims, one term `k = ([1, 2, 0], [0, 1, 3])`, scale 2, bias `3/2`, `x = (−1/2, 1)`: the hat
weights of coordinate 0 sum to `1/2`, so the dense `Lattice` halves the bias: KFL `5/2`, Lattice `7/4`
(both input forms). (b) `L = 2`, `k = ([1, 2], [0, 1])`, `x = (−1/2, 1/2)`: KFL and the TENSOR-input
`Lattice` extrapolate linearly (`2`), the LIST-input `Lattice` uses hat weights (`5/4`): the two input
forms of the SAME dense lattice differ (cf. `C02.outside_forms_differ`). Real layers at these points:
compared on every run by `harness/props/c14.py` (`kfl-oor` points). -/
theorem C14_T1_needs_in_range :
    Kfl.eval 3 false [[[1, 2, 0], [0, 1, 3]]] [2] (3/2) [-1/2, 1] = 5/2 ∧
    kflAsLattice .tensor 3 false 2 [[[1, 2, 0], [0, 1, 3]]] [2] (3/2) [-1/2, 1] = .ok (7/4) ∧
    kflAsLattice .list 3 false 2 [[[1, 2, 0], [0, 1, 3]]] [2] (3/2) [-1/2, 1] = .ok (7/4) ∧
    Kfl.eval 2 false [[[1, 2], [0, 1]]] [2] (3/2) [-1/2, 1/2] = 2 ∧
    kflAsLattice .tensor 2 false 2 [[[1, 2], [0, 1]]] [2] (3/2) [-1/2, 1/2] = .ok 2 ∧
    kflAsLattice .list 2 false 2 [[[1, 2], [0, 1]]] [2] (3/2) [-1/2, 1/2] = .ok (5/4) := by
  decide +kernel

/-- `C14_T1_lattice_layer_returns_kfl` is FALSE with `hr` dropped (for either input form). -/
theorem C14_T1_lattice_layer_returns_kfl_needs_in_range :
    ¬ (∀ (form : LatticeEval.InputForm) (L dims : Nat) (clipI : Bool) (K : List (List (List ℚ)))
        (scale : List ℚ) (bias : ℚ) (xs : List ℚ), 2 ≤ L → 1 ≤ dims → xs.length = dims →
        (∀ kt ∈ K, kt.length = dims) →
        kflAsLattice form L clipI dims K scale bias xs = .ok (Kfl.eval L clipI K scale bias xs)) := by
  intro h
  have := h .tensor 3 2 false [[[1, 2, 0], [0, 1, 3]]] [2] (3/2) [-1/2, 1] (by norm_num) (by norm_num) rfl
    (by intro kt hkt; simp at hkt; subst hkt; rfl)
  rw [C14_T1_needs_in_range.2.1, C14_T1_needs_in_range.1] at this
  revert this
  decide +kernel

/-! ## T2 — `pwl_calibration_fn` = `PWLCalibration` holding the derived keypoints and weights

`ValidPwl cfg n outRow.length` is what `_verify_pwl_calibration` accepts (`verify_ok_valid`);
`inRow` is the padded logit row (`n - 1` entries). `sm`, `sg` are ARBITRARY functions; only
`(sm l).length = l.length` is used. -/

section pwl
variable (cfg : PwlFnCfg) (sm : List ℚ → List ℚ) (sg : ℚ → ℚ) (inRow outRow : List ℚ) (n : Nat)

/-- **C14/T2 (fixed keypoints).** For every parameter row, every input `x`: the function's
interpolation `Σ weights · kernel_outputs` equals `PWLCalibration.call`'s calibration on the layer with
`input_keypoints = cumsum(keypoint_deltas) + keypoint_input_min` and `kernel = kernel_outputs` (without
the closing height when cyclic: the layer re-derives exactly the value the function computed). -/
theorem C14_T2_interpolation_eq_layer (hv : ValidPwl cfg n outRow.length) (x : ℚ) :
    calibrated cfg (keypointDeltas cfg sm inRow) (kernelOutputs cfg sm sg outRow) x
      = PwlEval.calibrate (layerCfg cfg (keypointDeltas cfg sm inRow))
          (layerKernel cfg (kernelOutputs cfg sm sg outRow)) [] x :=
  paired_eq cfg sm sg inRow outRow n hv x

/-- the paired layer with the function's missing-value handling switched on -/
def missingLayerCfg : PwlEval.Cfg :=
  { layerCfg cfg (keypointDeltas cfg sm inRow) with
    imputeMissing := cfg.missingInput.isSome, missingInputValue := cfg.missingInput }

/-- **C14/T2 (whole call).** `pwl_calibration_fn` — including the `tf.where(inputs == missing_input_value,
missing_output, …)` switch — equals `PWLCalibration.call` of the layer configured with
`impute_missing`, the same `missing_input_value` and the function's missing output. -/
theorem C14_T2_pwlfn_eq_layer_call (hv : ValidPwl cfg n outRow.length) (x : ℚ) :
    PwlEval.call (missingLayerCfg cfg sm inRow) (layerKernel cfg (kernelOutputs cfg sm sg outRow)) []
        ((missingOut cfg sg outRow).getD 0) x none
      = .ok (pwlFn1 cfg sm sg inRow outRow x) := by
  have hcal : PwlEval.calibrate (missingLayerCfg cfg sm inRow) (layerKernel cfg (kernelOutputs cfg sm sg outRow)) [] x
      = calibrated cfg (keypointDeltas cfg sm inRow) (kernelOutputs cfg sm sg outRow) x := by
    rw [paired_eq cfg sm sg inRow outRow n hv x]; rfl
  unfold PwlEval.call pwlFn1
  rw [hcal]
  cases hm : cfg.missingInput with
  | none => simp [missingLayerCfg, hm]
  | some v =>
    have hmo : ∃ mo, missingOut cfg sg outRow = some mo := by
      unfold missingOut; rw [hm]; cases cfg.missingOutput <;> simp
    obtain ⟨mo, hmo⟩ := hmo
    simp only [missingLayerCfg, hm, Option.isSome_some, Option.isSome_none, Bool.false_and, Bool.false_eq_true,
      if_false, if_true, hmo, Option.getD_some]
    by_cases hx : x = v
    · simp [hx]
    · simp [hx]

/-- **C14/T2 (learned_interior).** The same function is the `PWLCalibration(input_keypoints_type=
"learned_interior")` layer whose `interpolation_logits` row is the padded parameter row: both compute
`lengths = softmax(logits)·range`, `keypoints = cumsum(lengths, exclusive) + min`. -/
theorem C14_T2_interpolation_eq_learned_layer (hv : ValidPwl cfg n outRow.length) (x : ℚ) :
    calibrated cfg (keypointDeltas cfg sm inRow) (kernelOutputs cfg sm sg outRow) x
      = PwlEval.calibrate (learnedCfg cfg n) (layerKernel cfg (kernelOutputs cfg sm sg outRow)) (sm inRow) x := by
  have hr : PwlEval.kpRange (learnedCfg cfg n) = cfg.inMax - cfg.inMin := by
    unfold PwlEval.kpRange learnedCfg
    simp only [List.headD_cons]
    rw [← List.cons_append, List.getLastD_concat]
  have hl : PwlEval.lengths (learnedCfg cfg n) (sm inRow) = keypointDeltas cfg sm inRow := by
    unfold PwlEval.lengths keypointDeltas
    rw [hr]
    simp [learnedCfg]
  have hk : PwlEval.interpKeypoints (learnedCfg cfg n) (sm inRow)
      = keypointsOf cfg (keypointDeltas cfg sm inRow) := by
    unfold PwlEval.interpKeypoints keypointsOf
    rw [hl]
    simp [learnedCfg, PwlEval.kpMin]
  have hb : PwlEval.biasAndHeights (learnedCfg cfg n) (layerKernel cfg (kernelOutputs cfg sm sg outRow))
      = PwlEval.biasAndHeights (layerCfg cfg (keypointDeltas cfg sm inRow))
          (layerKernel cfg (kernelOutputs cfg sm sg outRow)) := rfl
  rw [paired_eq cfg sm sg inRow outRow n hv x]
  unfold PwlEval.calibrate
  rw [hl, hk, hb, layerCfg_lengths, layerCfg_interpKeypoints, keypointsOf_eq]

/-- **C14/T2 (the paired layer is well-formed).** The derived keypoints are strictly increasing and the
derived kernel has `len(keypoints) − is_cyclic` rows for EVERY positive softmax output: everything
`PWLCalibration`'s `verify_hyperparameters` / `build` check EXCEPT the kernel's row count `k > 1`
(`PwlEval.WF` does not contain it). Whether the paired layer can actually be built:
`C14_T2_paired_layer_buildable_iff` — always, except for `is_cyclic=True` with exactly two keypoints
(`C14_T2_cyclic_two_keypoints_no_paired_layer`). -/
theorem C14_T2_paired_layer_wellformed (hsm : SoftmaxLike sm) (hv : ValidPwl cfg n outRow.length)
    (hin : inRow.length + 1 = n) :
    PwlEval.WF (layerCfg cfg (keypointDeltas cfg sm inRow)) (layerKernel cfg (kernelOutputs cfg sm sg outRow)) [] :=
  paired_wf cfg sm sg inRow outRow n hsm hv hin

/-- **C14/T2 (the paired layer EXISTS iff not (cyclic with two keypoints)).** `PWLCalibration.build`
additionally requires `num_weights = len(input_keypoints) − is_cyclic ≥ 2` ("weights must have shape
[k, units] where k > 1"). The paired layer meets it exactly when `is_cyclic` is off or the function has at
least three keypoints. Property C14 states agreement with "PWLCalibration … layers holding the
corresponding keypoints and weights": for `is_cyclic=True` and two keypoints NO such layer exists
(constructor succeeds, `build` raises `ValueError`), so that configuration of `pwl_calibration_fn`
(accepted by the function, constant output) is OUTSIDE the property; the harness reports it as the class
`outside:cyclic_two_keypoints_no_paired_layer` after checking that `build` does raise. -/
theorem C14_T2_paired_layer_buildable_iff (hsm : SoftmaxLike sm) (hv : ValidPwl cfg n outRow.length)
    (hin : inRow.length + 1 = n) :
    PwlEval.Buildable (layerCfg cfg (keypointDeltas cfg sm inRow))
        (layerKernel cfg (kernelOutputs cfg sm sg outRow)) []
      ↔ (cfg.cyclic = false ∨ 3 ≤ n) := by
  rw [PwlEval.buildable_iff (paired_wf cfg sm sg inRow outRow n hsm hv hin)]
  have : (layerCfg cfg (keypointDeltas cfg sm inRow)).inputKeypoints.length = n := by
    simp [layerCfg, derivedKeypoints, PwlEval.length_cumsumExcl, deltas_length cfg sm inRow hsm, hin]
  rw [this]
  rfl

/-- **C14/T2 (the paired layer exists)**, the direction used for pairing. -/
theorem C14_T2_paired_layer_buildable (hsm : SoftmaxLike sm) (hv : ValidPwl cfg n outRow.length)
    (hin : inRow.length + 1 = n) (hk : cfg.cyclic = false ∨ 3 ≤ n) :
    PwlEval.Buildable (layerCfg cfg (keypointDeltas cfg sm inRow))
      (layerKernel cfg (kernelOutputs cfg sm sg outRow)) [] :=
  (C14_T2_paired_layer_buildable_iff cfg sm sg inRow outRow n hsm hv hin).mpr hk

end pwl

/-- `pwl_calibration_fn(is_cyclic=True)` with two keypoints (`keypoint_input_parameters=None`), range
`[0, 1] → [0, 1]`, one unit -/
def cyc2 : PwlFnCfg := ⟨0, 1, 0, 1, 1, false, false, false, true, none, none⟩
/-- uniform "softmax" (any positive weights summing to one do) -/
def uniformSm : List ℚ → List ℚ := fun l => l.map (fun _ => 1 / (l.length : ℚ))

/-- **Counter-witness: cyclic with two keypoints has NO paired layer.** The function accepts the
configuration (`ValidPwl cyc2 2 1`, one output parameter) and returns the constant `kernel_outputs[0]`
for every input, but the paired `PWLCalibration` kernel has ONE row: `build` raises
(`¬ Buildable`; real code: `ValueError: PWLCalibrator weights must have shape: [k, units] where k > 1.
It is: [1, 1]`), although the well-formedness `WF` of `C14_T2_paired_layer_wellformed` holds. -/
theorem C14_T2_cyclic_two_keypoints_no_paired_layer :
    ValidPwl cyc2 2 1 ∧
    (layerKernel cyc2 (kernelOutputs cyc2 uniformSm (fun _ => 2/3) [7/10])).length = 1 ∧
    derivedKeypoints cyc2 (keypointDeltas cyc2 uniformSm [0]) = [0, 1] ∧
    PwlEval.WF (layerCfg cyc2 (keypointDeltas cyc2 uniformSm [0]))
      (layerKernel cyc2 (kernelOutputs cyc2 uniformSm (fun _ => 2/3) [7/10])) [] ∧
    ¬ PwlEval.Buildable (layerCfg cyc2 (keypointDeltas cyc2 uniformSm [0]))
      (layerKernel cyc2 (kernelOutputs cyc2 uniformSm (fun _ => 2/3) [7/10])) [] ∧
    (∀ x ∈ [(-1 : ℚ), 0, 3/10, 1, 2], pwlFn1 cyc2 uniformSm (fun _ => 2/3) [0] [7/10] x = 2/3) := by
  have hv : ValidPwl cyc2 2 1 :=
    ⟨by norm_num [cyc2], by norm_num [cyc2], by simp [cyc2], by simp [cyc2], by simp [cyc2], by norm_num,
      by simp [outSize, cyc2, b2i]⟩
  have hsm : SoftmaxLike uniformSm := by
    refine ⟨fun l => by simp [uniformSm], fun l w hw => ?_, fun l hne => ?_⟩
    · simp only [uniformSm, List.mem_map] at hw
      obtain ⟨_, hm, rfl⟩ := hw
      have : 0 < l.length := List.length_pos_of_mem hm
      positivity
    · have hpos : 0 < l.length := List.length_pos_iff.mpr hne
      have : ∀ (l' : List ℚ) (c : ℚ), rsum (l'.map (fun _ => c)) = (l'.length : ℚ) * c := by
        intro l' c
        induction l' with
        | nil => simp
        | cons a t ih => simp only [List.map_cons, rsum, ih, List.length_cons]; push_cast; ring
      rw [uniformSm, this]
      have : (l.length : ℚ) ≠ 0 := by exact_mod_cast hpos.ne'
      field_simp
  have hwf := paired_wf cyc2 uniformSm (fun _ => 2/3) [0] [7/10] 2 hsm hv rfl
  refine ⟨hv, by decide +kernel, by decide +kernel, hwf, ?_, by decide +kernel⟩
  rw [C14_T2_paired_layer_buildable_iff cyc2 uniformSm (fun _ => 2/3) [0] [7/10] 2 hsm hv rfl]
  simp [cyc2]

/-! ## T3 — `cdf_fn` = `CDF.call` ('mean' and 'none')

What differs between the two code paths: (1) `input_scaling * (x - kernel)` vs
`(inputs - location_parameters) * scaling_parameters`; (2) the layer's scaling is a scalar / `[1]` /
`[1, input_dim, 1, 1]` weight, the function's an optional tensor broadcast against
`(batch, input_dim, num_functions, units / factor)`; no scaling = scaling 1; (3) both reshape
`(input_dim, units/factor) → (input_dim/factor, units)` row-major and reduce over axis 1 — the same ops.
(The geometric mean differs by design: `ε = 1e-3` in the layer, `1e-8` in the function.) -/

/-- **C14/T3.** With the function's scaling tensor broadcasting to the layer's per-input scaling, and
`location_parameters = kernel`, `cdf_fn` and `CDF.call` return the same tensor, for both reductions,
every activation (any `σ`), sparsity factor `≥ 1`, shape and input — including the rejections: both
raise a `ValueError` for indivisible shapes and for a kernel without keypoints (`CDF.__init__` resp.
`_verify_cdf_params`, fixed finding F-C15-e). `1 ≤ U`: `CDF` rejects `units < 1` in its constructor,
`cdf_fn` has no such check. -/
theorem C14_T3_cdf_fn_eq_layer (a : Activation) (σ : ℚ → ℚ) (red : Reduction) (f U : Nat) (scale : List ℚ)
    (sc kernel : List (List (List ℚ))) (K W : Nat) (x : List ℚ) (hU : 1 ≤ U) (hf : 1 ≤ f)
    (hsc : ∀ i k j, bget3 sc i k j = bgetR scale i) :
    cdfFn a σ red f U (some sc) kernel K W x = layerCall a σ red f U scale kernel K W x := by
  rw [layerCall_eq a σ red f U scale kernel K W x hU hf]
  unfold cdfFn
  have : fnCdfs a σ (some sc) kernel K W x = layerCdfs a σ scale kernel K W x := by
    unfold fnCdfs layerCdfs
    apply List.map_congr_left; intro i _
    apply List.map_congr_left; intro j _
    congr 1
    funext k
    simp only [fnPre, hsc]; ring
  rw [this]

/-- **C14/T3.** `scaling_parameters=None` is the layer with input scaling 1. -/
theorem C14_T3_cdf_fn_no_scaling (a : Activation) (σ : ℚ → ℚ) (red : Reduction) (f U : Nat)
    (kernel : List (List (List ℚ))) (K W : Nat) (x : List ℚ) (hU : 1 ≤ U) (hf : 1 ≤ f) :
    cdfFn a σ red f U none kernel K W x = layerCall a σ red f U [1] kernel K W x := by
  rw [layerCall_eq a σ red f U [1] kernel K W x hU hf]
  unfold cdfFn
  have : fnCdfs a σ none kernel K W x = layerCdfs a σ [1] kernel K W x := by
    unfold fnCdfs layerCdfs
    apply List.map_congr_left; intro i _
    apply List.map_congr_left; intro j _
    congr 1
    funext k
    simp [fnPre, bgetR, getR]
  rw [this]

/-- **C14/T3 (broadcast).** The `(input_dim | 1, 1, 1)` tensor holding the layer's scaling — what
`tf.broadcast_to(layer.input_scaling, …)` feeds to `cdf_fn` — meets the hypothesis of `C14_T3_cdf_fn_eq_layer`. -/
theorem C14_T3_layer_scaling_as_tensor (scale : List ℚ) (i k j : Nat) :
    bget3 (scale.map (fun s => [[s]])) i k j = bgetR scale i := by
  unfold bget3 bgetL bgetR
  by_cases h1 : scale.length = 1
  · match scale, h1 with
    | [s], _ => simp [getR]
  · simp only [List.length_map, h1, if_false]
    rw [List.getD_eq_getElem?_getD, List.getElem?_map]
    cases hs : scale[i]? with
    | none => simp [getR, List.getD_eq_getElem?_getD, hs]
    | some s => simp [getR, List.getD_eq_getElem?_getD, hs]

/-- **C14/T3 (sparsity gather).** With `units = factor · W` and reduction `'none'`, entry `(r, u)` of the
output of both code paths is the CDF of input dimension `r·factor + u / W` through kernel column
`u % W`: the row-major reshape connects output unit `u` to the input dims `≡ u / W (mod factor)`. -/
theorem C14_T3_sparsity_gather (a : Activation) (σ : ℚ → ℚ) (f W : Nat) (scale : List ℚ)
    (kernel : List (List (List ℚ))) (K : Nat) (x : List ℚ) (out : List (List ℚ)) (hf : f ≠ 1)
    (h : layerCall a σ .none f (f * W) scale kernel K W x = .ok out) (r u : Nat) (hr : r < x.length / f)
    (hu : u < f * W) :
    entry out r u = cdfEntry a σ K (fun k =>
      bgetR scale (r * f + u / W) * (getR x (r * f + u / W) - get3 kernel (r * f + u / W) k (u % W))) := by
  obtain ⟨-, -, hout⟩ := layerCall_ok h
  rw [hout, layerCdfs_eq]
  simp only [reduceStage, sparsify, hf, ne_eq, not_false_eq_true, if_true]
  exact entry_reshape_gather f x.length W _ r u hr hu

/-! ### T3 for ACCEPTED configurations: the sparsity factor as the Python `int` of the call

`C14_T3_cdf_fn_eq_layer` / `C14_T3_cdf_fn_no_scaling` assume `1 ≤ f`.  Since fixes 1677739 (`CDF.__init__`)
and 75478be (`_verify_cdf_params`) the code itself rejects `sparsity_factor < 1` with a `ValueError`
(before: `ZeroDivisionError`, fixed finding F-C14-a); `layerCallZ` / `cdfFnZ` take the factor as an `Int`
and model that check.  Below: acceptance implies `1 ≤ f`, so the hypothesis is discharged for every
configuration either entry point accepts, and the equalities hold for EVERY integer factor. -/

/-- **C14/T3 (rejection).** A sparsity factor below 1 (zero, negative) is a `ValueError` of both entry
points, whatever the other arguments are. -/
theorem C14_T3_sparsity_below_one_rejected (a : Activation) (σ : ℚ → ℚ) (red : Reduction) (f : Int) (U : Nat)
    (scale : List ℚ) (scaling : Option (List (List (List ℚ)))) (kernel : List (List (List ℚ))) (K W : Nat)
    (x : List ℚ) (hf : f < 1) :
    layerCallZ a σ red f U scale kernel K W x = .error .valueError ∧
      cdfFnZ a σ red f U scaling kernel K W x = .error .valueError :=
  ⟨layerCallZ_lt hf a σ red U scale kernel K W x, cdfFnZ_lt hf a σ red U scaling kernel K W x⟩

/-- **C14/T3 (acceptance ⇒ `1 ≤ sparsity_factor`, layer).** A `CDF` layer that returns an output was
configured with `sparsity_factor ≥ 1` and `units ≥ 1`, and its output is that of the `Nat`-factor model the
other theorems speak about. -/
theorem C14_T3_layer_accepted_sparsity {a : Activation} {σ : ℚ → ℚ} {red : Reduction} {f : Int} {U : Nat}
    {scale : List ℚ} {kernel : List (List (List ℚ))} {K W : Nat} {x : List ℚ} {out : List (List ℚ)}
    (h : layerCallZ a σ red f U scale kernel K W x = .ok out) :
    1 ≤ f ∧ 1 ≤ U ∧ layerCall a σ red f.toNat U scale kernel K W x = .ok out := by
  by_cases hf : f < 1
  · rw [layerCallZ_lt hf] at h; cases h
  · have hf1 : 1 ≤ f := by omega
    rw [layerCallZ_pos hf1] at h
    exact ⟨hf1, (layerCall_ok h).2.1, h⟩

/-- **C14/T3 (acceptance ⇒ `1 ≤ sparsity_factor`, function).** -/
theorem C14_T3_fn_accepted_sparsity {a : Activation} {σ : ℚ → ℚ} {red : Reduction} {f : Int} {U : Nat}
    {scaling : Option (List (List (List ℚ)))} {loc : List (List (List ℚ))} {K W : Nat} {x : List ℚ}
    {out : List (List ℚ)} (h : cdfFnZ a σ red f U scaling loc K W x = .ok out) :
    1 ≤ f ∧ cdfFn a σ red f.toNat U scaling loc K W x = .ok out := by
  by_cases hf : f < 1
  · rw [cdfFnZ_lt hf] at h; cases h
  · have hf1 : 1 ≤ f := by omega
    rw [cdfFnZ_pos hf1] at h
    exact ⟨hf1, h⟩

/-- **C14/T3 for every integer sparsity factor.** `C14_T3_cdf_fn_eq_layer` without `1 ≤ f`: the two entry
points return the same tensor or raise the same error class (below 1: both `ValueError`). -/
theorem C14_T3_cdf_fn_eq_layer_int (a : Activation) (σ : ℚ → ℚ) (red : Reduction) (f : Int) (U : Nat)
    (scale : List ℚ) (sc kernel : List (List (List ℚ))) (K W : Nat) (x : List ℚ) (hU : 1 ≤ U)
    (hsc : ∀ i k j, bget3 sc i k j = bgetR scale i) :
    cdfFnZ a σ red f U (some sc) kernel K W x = layerCallZ a σ red f U scale kernel K W x := by
  by_cases hf : f < 1
  · rw [cdfFnZ_lt hf, layerCallZ_lt hf]
  · have hf1 : 1 ≤ f := by omega
    rw [cdfFnZ_pos hf1, layerCallZ_pos hf1]
    exact C14_T3_cdf_fn_eq_layer a σ red f.toNat U scale sc kernel K W x hU (by omega) hsc

/-- **C14/T3 for every integer sparsity factor,** `scaling_parameters=None`. -/
theorem C14_T3_cdf_fn_no_scaling_int (a : Activation) (σ : ℚ → ℚ) (red : Reduction) (f : Int) (U : Nat)
    (kernel : List (List (List ℚ))) (K W : Nat) (x : List ℚ) (hU : 1 ≤ U) :
    cdfFnZ a σ red f U none kernel K W x = layerCallZ a σ red f U [1] kernel K W x := by
  by_cases hf : f < 1
  · rw [cdfFnZ_lt hf, layerCallZ_lt hf]
  · have hf1 : 1 ≤ f := by omega
    rw [cdfFnZ_pos hf1, layerCallZ_pos hf1]
    exact C14_T3_cdf_fn_no_scaling a σ red f.toNat U kernel K W x hU (by omega)

/-- **C14/T3 for accepted configurations (no hypothesis on `units` or the factor).** Whenever the `CDF`
layer returns `out`, `cdf_fn` on the layer's kernel and a scaling tensor broadcasting to the layer's
scaling returns the same `out`. -/
theorem C14_T3_cdf_fn_eq_layer_accepted {a : Activation} {σ : ℚ → ℚ} {red : Reduction} {f : Int} {U : Nat}
    {scale : List ℚ} {sc kernel : List (List (List ℚ))} {K W : Nat} {x : List ℚ} {out : List (List ℚ)}
    (h : layerCallZ a σ red f U scale kernel K W x = .ok out)
    (hsc : ∀ i k j, bget3 sc i k j = bgetR scale i) :
    cdfFnZ a σ red f U (some sc) kernel K W x = .ok out := by
  obtain ⟨-, hU, -⟩ := C14_T3_layer_accepted_sparsity h
  rw [C14_T3_cdf_fn_eq_layer_int a σ red f U scale sc kernel K W x hU hsc, h]

/-- **C14/T3 for accepted configurations,** `scaling_parameters=None` against the layer with scaling 1. -/
theorem C14_T3_cdf_fn_no_scaling_accepted {a : Activation} {σ : ℚ → ℚ} {red : Reduction} {f : Int} {U : Nat}
    {kernel : List (List (List ℚ))} {K W : Nat} {x : List ℚ} {out : List (List ℚ)}
    (h : layerCallZ a σ red f U [1] kernel K W x = .ok out) :
    cdfFnZ a σ red f U none kernel K W x = .ok out := by
  obtain ⟨-, hU, -⟩ := C14_T3_layer_accepted_sparsity h
  rw [C14_T3_cdf_fn_no_scaling_int a σ red f U kernel K W x hU, h]

/-- **C14/T3 (converse direction).** Whenever `cdf_fn` returns `out` for at least one unit, the layer holding
the same kernel and scaling returns `out` too (`units = 0`: only the layer's constructor objects). -/
theorem C14_T3_layer_eq_cdf_fn_accepted {a : Activation} {σ : ℚ → ℚ} {red : Reduction} {f : Int} {U : Nat}
    {scale : List ℚ} {sc kernel : List (List (List ℚ))} {K W : Nat} {x : List ℚ} {out : List (List ℚ)}
    (h : cdfFnZ a σ red f U (some sc) kernel K W x = .ok out) (hU : 1 ≤ U)
    (hsc : ∀ i k j, bget3 sc i k j = bgetR scale i) :
    layerCallZ a σ red f U scale kernel K W x = .ok out := by
  rw [← C14_T3_cdf_fn_eq_layer_int a σ red f U scale sc kernel K W x hU hsc, h]

/-- **C14/T3 (sparsity gather, accepted configurations).** `C14_T3_sparsity_gather` from the `int` entry
point: the factor of an accepted layer is a positive integer `≠ 1`. -/
theorem C14_T3_sparsity_gather_accepted (a : Activation) (σ : ℚ → ℚ) (f : Int) (W : Nat) (scale : List ℚ)
    (kernel : List (List (List ℚ))) (K : Nat) (x : List ℚ) (out : List (List ℚ)) (hf : f ≠ 1)
    (h : layerCallZ a σ .none f (f.toNat * W) scale kernel K W x = .ok out) (r u : Nat)
    (hr : r < x.length / f.toNat) (hu : u < f.toNat * W) :
    entry out r u = cdfEntry a σ K (fun k =>
      bgetR scale (r * f.toNat + u / W) *
        (getR x (r * f.toNat + u / W) - get3 kernel (r * f.toNat + u / W) k (u % W))) := by
  obtain ⟨hf1, -, h'⟩ := C14_T3_layer_accepted_sparsity h
  exact C14_T3_sparsity_gather a σ f.toNat W scale kernel K x out (by omega) h' r u hr hu

/-! ## T4 — ParallelCombination, Aggregation, RTL -/

/-- **C14/T4 (ParallelCombination).** Column `c` of the input goes through calibrator `c` and the
outputs are concatenated in order: the combination of `l :: ls` on `x :: xs` is `l x` followed by the
combination of the rest (errors of a calibrator propagate; a wrong number of columns is a `ValueError`). -/
theorem C14_T4_parallel_columnwise (l : ℚ → Except Err (List ℚ)) (ls : List (ℚ → Except Err (List ℚ)))
    (x : ℚ) (xs : List ℚ) (h : xs.length = ls.length) :
    parallelCall (l :: ls) (x :: xs)
      = (do let y ← l x; let ys ← parallelCall ls xs; pure (y ++ ys)) := by
  unfold parallelCall
  simp only [List.length_cons, h, ne_eq, not_true_eq_false, if_false, List.zipWith_cons_cons, List.mapM_cons, id]
  cases l x with
  | error e => rfl
  | ok y =>
    simp only [bind, Except.bind, pure, Except.pure]
    cases (List.zipWith (fun l xc => l xc) ls xs).mapM id with
    | error e => rfl
    | ok ys => simp

theorem C14_T4_parallel_nil : parallelCall [] [] = .ok [] := rfl

theorem C14_T4_parallel_length_mismatch (ls : List (ℚ → Except Err (List ℚ))) (xs : List ℚ)
    (h : xs.length ≠ ls.length) : parallelCall ls xs = .error .valueError := by
  simp [parallelCall, h]

/-- **C14/T4 (Aggregation).** Running the model on the flat values of the whole ragged batch and
re-attaching the row partition is, example by example, the mean of the model over that example's own
elements (rows of different lengths; an empty row has no mean — NaN in the real code). -/
theorem C14_T4_aggregation_is_per_example_mean (model : List ℚ → ℚ) (batch : List (List (List ℚ))) :
    aggCall model batch = batch.map (fun ex => meanOpt (ex.map model)) := by
  unfold aggCall
  rw [splitBy_flatten_map, List.map_map]
  rfl

/-- **C14/T4 (RTL gather).** `tf.gather` with in-range indices reads exactly the recorded positions. -/
theorem C14_T4_gather (x : List ℚ) (idxs : List Nat) (h : ∀ i ∈ idxs, i < x.length) :
    gather x idxs = .ok (idxs.map (getR x)) := by
  unfold gather
  apply mapM_ok
  intro i hi
  simp [h i hi]

/-- **C14/T4 (RTL).** When every recorded index is in range, an RTL layer (joint outputs) returns the
outputs of its lattices on the gathered inputs `x[idxs]`: first the lattices whose output monotonicity
`max(monotonicities)` is 0, then the monotone ones, each in `_rtl_structure` order. -/
theorem C14_T4_rtl_is_gather_into_lattices (groups : List RtlGroup) (x : List ℚ)
    (outs : RtlGroup → List ℚ)
    (hidx : ∀ g ∈ groups, ∀ row ∈ g.idxs, ∀ i ∈ row, i < x.length)
    (hlat : ∀ g ∈ groups, g.lattice (g.idxs.map (fun row => row.map (getR x))) = .ok (outs g)) :
    rtlCall groups false x
      = .ok (((groups.filter (fun g => g.monos.foldl max 0 == 0)).map outs).flatten
          ++ ((groups.filter (fun g => g.monos.foldl max 0 != 0)).map outs).flatten) := by
  have hg : ∀ g ∈ groups, groupOutput x g = .ok (outs g) := by
    intro g hg
    unfold groupOutput
    rw [mapM_ok (gather x) (fun row => row.map (getR x)) g.idxs
      (fun row hrow => C14_T4_gather x row (hidx g hg row hrow))]
    exact hlat g hg
  unfold rtlCall
  rw [mapM_ok (groupOutput x) outs _ (fun g h => hg g (List.mem_filter.mp h).1),
    mapM_ok (groupOutput x) outs _ (fun g h => hg g (List.mem_filter.mp h).1)]
  rfl

/-- **C14/T4 (RTL, averaged).** `average_outputs` returns the mean of those joint outputs. -/
theorem C14_T4_rtl_average (groups : List RtlGroup) (x : List ℚ) (joint : List ℚ)
    (h : rtlCall groups false x = .ok joint) : rtlCall groups true x = .ok [meanL joint] := by
  unfold rtlCall at h ⊢
  cases h0 : (groups.filter (fun g => g.monos.foldl max 0 == 0)).mapM (groupOutput x) with
  | error e => simp [h0, bind, Except.bind] at h
  | ok o0 =>
    cases h1 : (groups.filter (fun g => g.monos.foldl max 0 != 0)).mapM (groupOutput x) with
    | error e => simp [h0, h1, bind, Except.bind] at h
    | ok o1 =>
      simp only [h0, h1, bind, Except.bind, pure, Except.pure, Bool.false_eq_true, if_false,
        Except.ok.injEq] at h
      simp [bind, Except.bind, pure, Except.pure, h]

/-! ## non-vacuity: concrete instances (kernel computation) -/

/-- a 2-term KFL on a 3×3 lattice and its dense kernel -/
example : denseKernel 3 2 [[[1, 2, 0], [0, 1, 3]], [[1, 1, 1], [2, 0, -1]]] [2, -4] (1/2)
    = [-7/2, 3/2, 11/2, -7/2, 5/2, 17/2, -7/2, 1/2, 5/2] := by decide +kernel
example : Kfl.eval 3 false [[[1, 2, 0], [0, 1, 3]], [[1, 1, 1], [2, 0, -1]]] [2, -4] (1/2) [3/2, 1/4]
    = LatticeEval.hypercubeValue .tensor false [3, 3]
        (denseKernel 3 2 [[[1, 2, 0], [0, 1, 3]], [[1, 1, 1], [2, 0, -1]]] [2, -4] (1/2)) [3/2, 1/4] := by
  decide +kernel
example : Kfl.eval 3 false [[[1, 2, 0], [0, 1, 3]], [[1, 1, 1], [2, 0, -1]]] [2, -4] (1/2) [3/2, 1/4] = -9/4 := by
  decide +kernel

/-- increasing, clamp_max, three keypoints: softmax table `[1/2, 1/2]` / `[1/4, 1/4, 1/2]` -/
def exSm : List ℚ → List ℚ := fun l => if l.length = 2 then [1/2, 1/2] else [1/4, 1/4, 1/2]
def exCfg : PwlFnCfg := ⟨0, 4, -1, 3, 1, true, false, true, false, none, none⟩
example : ValidPwl exCfg 3 2 :=
  ⟨by norm_num [exCfg], by norm_num [exCfg], by simp [exCfg], by simp [exCfg], by simp [exCfg], by norm_num,
    by simp [outSize, exCfg, b2i]⟩
example : keypointDeltas exCfg exSm [0, 5] = [2, 2] ∧ kernelOutputs exCfg exSm id [7, 8] = [0, 1, 2] ∧
    derivedKeypoints exCfg [2, 2] = [0, 2, 4] := by decide +kernel
example : pwlFn1 exCfg exSm id [0, 5] [7, 8] 3 = 2 ∧
    PwlEval.calibrate (layerCfg exCfg [2, 2]) [0, 1, 2] [] 3 = 2 := by decide +kernel
/-- CDF: sparsity 2, 4 inputs, 2 units, relu6; layer vs function -/
example : layerCall .relu6 id .none 2 2 [2] [[[0]], [[1]], [[1/2]], [[0]]] 1 1 [1, 2, 1, 4]
    = .ok [[1/3, 1/3], [1/6, 1]] := by decide +kernel
example : cdfFn .relu6 id .mean 2 2 (some [[[2]]]) [[[0]], [[1]], [[1/2]], [[0]]] 1 1 [1, 2, 1, 4]
    = .ok [[1/4, 2/3]] := by decide +kernel
/-- sparsity factor 0 / negative: `ValueError` on both paths (before 1677739 / 75478be: `ZeroDivisionError`);
factor 2 through the `int` entry point: the same numbers as above -/
example : layerCallZ .relu6 id .mean 0 1 [1] [[[0]]] 1 1 [0] = .error .valueError ∧
    cdfFnZ .relu6 id .mean (-2) 1 none [[[0]]] 1 1 [0] = .error .valueError := by decide +kernel
example : layerCallZ .relu6 id .none 2 2 [2] [[[0]], [[1]], [[1/2]], [[0]]] 1 1 [1, 2, 1, 4]
    = .ok [[1/3, 1/3], [1/6, 1]] := by decide +kernel
example : aggCall (fun e => rsum e) [[[1, 2], [3, 4]], [], [[5, 6]]] = [some 5, none, some 11] := by decide +kernel

end Tfl.C14
