import TflModel.Props.C02
import TflModel.Lemmas.Verify
/-!
# C02 for ACCEPTED lattice configurations: `sizes ≠ []` and `∀ n ∈ sizes, 2 ≤ n` are discharged

The C02 theorems assume a lattice with at least one dimension (`sizes ≠ []`: the flat index of an
empty lattice is undefined, the real code raised `ZeroDivisionError` / `IndexError` on it) and
sizes `≥ 2` (every axis has a cell to interpolate in). Both follow from acceptance by
`lattice_lib.verify_hyperparameters` (`Tfl.Verify.verifyLattice`, Model/Verify.lean, tied to the
real constructors by the tables of C16) — `sizes ≠ []` since fix 93797fc (an empty `lattice_sizes`
was accepted: F-C16-y): `Tfl.Verify.verifyLattice_sizes` (Lemmas/Verify.lean). Here the headline
theorems are restated for the sizes `c.toLat.sizes` of an accepted configuration `c`.
-/
namespace Tfl.C02
open Tfl Tfl.LatticeEval Tfl.Verify

/-- **T1 for accepted configurations**: the hypercube output is the multilinear interpolant of the
kernel at the (clipped) point. -/
theorem accepted_hypercube_eq_interp (r : RawLatFull) (c : LatCfg) (h : verifyLattice r = .ok c)
    (form : InputForm) (clipOn : Bool) (K : W) (x : List ℚ) (hl : x.length = c.toLat.sizes.length)
    (hd : clipOn = true ∨ InRange c.toLat.sizes x ∨ ¬ (allTwo c.toLat.sizes = true ∧ form = .tensor)) :
    hypercubeValue form clipOn c.toLat.sizes (kernelOf c.toLat.sizes K) x =
      evalRec c.toLat.sizes (effPoint clipOn c.toLat.sizes x) K :=
  C02_T1_hypercube_eq_interp form clipOn _ K x (verifyLattice_sizes h).2.1 hl hd

/-- **T2 (range) for accepted configurations**: for in-range or clipped inputs the hypercube AND
the simplex output stay within any bounds `lo ≤ K ≤ hi` of the kernel (the simplex evaluation
does not raise). (Unclipped out-of-range inputs are outside the property: `C02_T2_range_needs_defined`,
`C02_T3_simplex_range_needs_defined`.) -/
theorem accepted_range (r : RawLatFull) (c : LatCfg) (h : verifyLattice r = .ok c)
    (form : InputForm) (clipOn : Bool) (K : W) (x : List ℚ) (lo hi : ℚ) (hx : Defined clipOn c.toLat.sizes x)
    (hK : ∀ idx ∈ allIdx c.toLat.sizes, lo ≤ K idx ∧ K idx ≤ hi) :
    (lo ≤ hypercubeValue form clipOn c.toLat.sizes (kernelOf c.toLat.sizes K) x ∧
      hypercubeValue form clipOn c.toLat.sizes (kernelOf c.toLat.sizes K) x ≤ hi) ∧
    ∃ v, evalSimplex clipOn c.toLat.sizes (kernelOf c.toLat.sizes K) x = .ok v ∧ lo ≤ v ∧ v ≤ hi :=
  ⟨C02_T2_range form clipOn _ K x lo hi (verifyLattice_sizes h).2.1 (verifyLattice_sizes h).2.2 hx hK,
   C02_T3_simplex_range clipOn _ K x lo hi (verifyLattice_sizes h).2.1 (verifyLattice_sizes h).2.2 hx hK⟩

/-- **T4 (monotonicity) for accepted configurations**: a kernel non-decreasing along dimension `d`
gives a hypercube output and a simplex output that do not decrease when coordinate `d` grows —
for every pair of in-range or clipped points that differ only in coordinate `d`. (`Defined` for both
points: `clip_inputs=False` with an out-of-range coordinate is outside property C02 and the statement
is false there, `Props/C02Outside.lean`.) -/
theorem accepted_monotone (r : RawLatFull) (c : LatCfg) (h : verifyLattice r = .ok c)
    (form : InputForm) (clipOn : Bool) (K : W) (x : List ℚ) (d : Nat) (v : ℚ) (hd : d < c.toLat.sizes.length)
    (hm : MonoAx c.toLat.sizes d K) (hx : Defined clipOn c.toLat.sizes x)
    (hx' : Defined clipOn c.toLat.sizes (x.set d v)) (hv : x.getD d 0 ≤ v) :
    hypercubeValue form clipOn c.toLat.sizes (kernelOf c.toLat.sizes K) x
      ≤ hypercubeValue form clipOn c.toLat.sizes (kernelOf c.toLat.sizes K) (x.set d v) ∧
    ∃ a b, evalSimplex clipOn c.toLat.sizes (kernelOf c.toLat.sizes K) x = .ok a ∧
      evalSimplex clipOn c.toLat.sizes (kernelOf c.toLat.sizes K) (x.set d v) = .ok b ∧ a ≤ b :=
  ⟨C02_T4_hypercube_mono form clipOn _ K x d v (verifyLattice_sizes h).2.1 (verifyLattice_sizes h).2.2 hd hm hx hx' hv,
   C02_T4_simplex_mono clipOn _ K x d v (verifyLattice_sizes h).2.1 (verifyLattice_sizes h).2.2 hd hm hx hx' hv⟩

/-- non-vacuity: `lattice_sizes=[3, 2]` is accepted with `toLat.sizes = [3, 2]`; `[]` is rejected -/
theorem accepted_example :
    (verifyLattice { sizes := .s false [.a (.int 3), .a (.int 2)] }).toOption.map (fun c => c.toLat.sizes) = some [3, 2] ∧
    outcome (verifyLattice { sizes := .s false [] }) = 1 := by decide +kernel

end Tfl.C02
