import TflModel.Lemmas.PremadeSpec
import TflModel.Props.C01
import TflModel.Props.C02
import TflModel.Props.C04
import TflModel.Props.C05
import TflModel.Props.C06
import TflModel.Props.C07
import TflModel.Props.C20
/-!
# C03 — premade and composed models stay monotone and bounded after any training history

Model: `Tfl.Premade` (`Model/Premade.lean`).
* `buildSpec : ModelConfig → Except Err LayerGraph` — the builder decision logic of `premade_lib`
  (tied to the real constructors by the correspondence check: every real layer's hyper-parameters
  and wiring);
* `forward g F` — the abstract composite: calibrators, lattices and the output calibrator are
  ARBITRARY functions with exactly the properties the per-layer theorems deliver (`FnsOk`), linear
  layers are concrete kernels;
* histories — `runHistory` (`foldl (constraint ∘ update)`) and, for constraints that are relations
  (KFL: the kernel projection reads the scale; PWL/categorical/linear projections return `Except`),
  `Reaches`.

Structure of the argument:
* **T1** `invariant_after_history(_rel)`: after any non-empty history from ANY start every variable
  satisfies its invariant — immediate from "each constraint establishes its invariant from any
  input"; instantiated per layer kind below (`*_constraint_delivers`) with C01/C02, C04/C05, C06, C07, C20.
* **T2** `buildSpec_wired` (key structural lemma) + `monotone_clause`: a feature configured
  increasing / decreasing / with category pairs reaches the output only through monotone layers, so
  the model function is monotone in it for ALL pairs of non-missing points.
* **T3** `output_bounds`: the output lies in `[output_min, output_max]` at every input, missing
  values included.
* `C03_full` is the unrestricted statement; `C03_partial` proves it under hypotheses that are exactly
  the recorded findings: F-C03-a (`Nondegenerate`), F-C03-b (`0 < n ∨ NoCategoricalPairs`),
  each with a counter-witness below; F-C03-c/d/e/f (fixed) have
  a theorem on the fixed rule and a counter-witness on the model variant with the old rule.
  `RtlDraws` says that the two shuffles of the RTL layer are permutations (randomness as data).
* `Props/C03System.lean` BUILDS the `System` for every graph `buildSpec` returns (`systemOf`, fields
  proved from C01/C02/C04–C07/C20) and instantiates `C03_partial` for every accepted configuration of
  every model shape (`C03_systemOf`); `exSystem` below is the original hand-built example.
-/
namespace Tfl.C03
open Tfl Tfl.Premade Tfl.Poset Tfl.Linear

/-! ## T1 — the invariant -/

/-- **T1 (invariant), functional constraints.** If every variable's constraint establishes that
variable's invariant from ANY input, then after `foldl (constraint ∘ update)` over any non-empty
list of ARBITRARY updates, from ANY start, every variable satisfies its invariant. With the empty
history the start itself must satisfy it. -/
theorem invariant_after_history {V : Type} {S : V → Type} (c : ∀ v, S v → S v)
    (Inv : ∀ v, S v → Prop) (hc : ∀ v s, Inv v (c v s)) (w0 : ∀ v, S v)
    (h : List ((∀ v, S v) → (∀ v, S v))) (hne : h ≠ [] ∨ ∀ v, Inv v (w0 v)) :
    ∀ v, Inv v (runHistory c w0 h v) := by
  induction h using List.reverseRecOn with
  | nil =>
    rcases hne with h | h
    · exact absurd rfl h
    · exact h
  | append_singleton h u _ =>
    intro v
    simp only [runHistory, List.foldl_append, List.foldl_cons, List.foldl_nil, constrain]
    exact hc v _

/-- a history whose constraints are relations: `C v s s'` = "`s'` is what variable `v`'s
constraint returns on `s`" (projections return `Except`; the KFL kernel projection takes the
dims-th root as an argument). One step = an ARBITRARY update `u` of all weights followed by an
admissible outcome of every constraint. -/
inductive Reaches {V : Type} {S : V → Type} (C : ∀ v, S v → S v → Prop) :
    (∀ v, S v) → Nat → (∀ v, S v) → Prop
  | init (w : ∀ v, S v) : Reaches C w 0 w
  | step {w0 : ∀ v, S v} {n : Nat} {w : ∀ v, S v} (u : (∀ v, S v) → (∀ v, S v)) (w' : ∀ v, S v) :
      Reaches C w0 n w → (∀ v, C v (u w v) (w' v)) → Reaches C w0 (n + 1) w'

/-- **T1 (invariant), relational constraints.** -/
theorem invariant_after_history_rel {V : Type} {S : V → Type} (C : ∀ v, S v → S v → Prop)
    (Inv : ∀ v, S v → Prop) (hC : ∀ v s s', C v s s' → Inv v s') {w0 w : ∀ v, S v} {n : Nat}
    (hr : Reaches C w0 n w) (hne : 0 < n ∨ ∀ v, Inv v (w0 v)) : ∀ v, Inv v (w v) := by
  cases hr with
  | init =>
    rcases hne with h | h
    · exact absurd h (Nat.lt_irrefl 0)
    · exact h
  | step u w' _ hs => exact fun v => hC v _ _ (hs v)

/-- `runHistory` is the special case of functional constraints -/
theorem reaches_runHistory {V : Type} {S : V → Type} (c : ∀ v, S v → S v) (w0 : ∀ v, S v)
    (h : List ((∀ v, S v) → (∀ v, S v))) :
    Reaches (fun v s s' => s' = c v s) w0 h.length (runHistory c w0 h) := by
  induction h using List.reverseRecOn with
  | nil => exact .init w0
  | append_singleton h u ih =>
    have : runHistory c w0 (h ++ [u]) = constrain c (u (runHistory c w0 h)) := by
      simp [runHistory, List.foldl_append]
    rw [this, List.length_append]
    exact .step u _ ih (fun v => rfl)

/-! ## the weights of a model: variables, constraints, invariants, realised functions -/

/-- no categorical calibrator has ordering pairs -/
def NoCategoricalPairs (g : LayerGraph) : Prop := ∀ c ∈ g.calibrators, c.pairs = []

/-- The trainable state of a model with layer graph `g`, abstractly: variables `V` with values
`S v`, each with a constraint relation `C v` that establishes `Inv v` from ANY input (T1's premise;
the per-layer theorems `*_constraint_delivers` below), the functions realised by a weight assignment,
and "all invariants ⇒ the layer functions have the per-layer properties" (C02/C05/C07/C20).
`Init` is what the initializers can produce; `init_sound` is C10 for every variable EXCEPT
categorical kernels with ordering pairs, which premade models initialise random-uniform
(finding F-C03-b). -/
structure System (g : LayerGraph) where
  V : Type
  S : V → Type
  C : ∀ v, S v → S v → Prop
  Inv : ∀ v, S v → Prop
  establishes : ∀ v s s', C v s s' → Inv v s'
  realise : (∀ v, S v) → Fns
  sound : ∀ w, (∀ v, Inv v (w v)) → FnsOk g (realise w)
  Init : (∀ v, S v) → Prop
  init_sound : NoCategoricalPairs g → ∀ w0, Init w0 → ∀ v, Inv v (w0 v)

/-! ## the property -/

/-- the input value `v` of feature `f` is not the feature's missing-value marker -/
def Present (c : ModelConfig) (f : Nat) (v : ℚ) : Prop := (featAt c f).default ≠ some v

/-- what the configuration demands for feature `f`: for ALL inputs `x` (other features arbitrary,
in or out of range, possibly missing; categorical inputs must be categories the calibrator accepts:
`ValidInputs`) and ALL pairs of non-missing values of feature `f`. -/
def MonoClause (c : ModelConfig) (g : LayerGraph) (F : Fns) (f : Nat) : Req → Prop
  | .inc => ∀ (x : List ℚ) (v : ℚ), ValidInputs g x → ValidInputs g (x.set f v) →
      Present c f (x.getD f 0) → Present c f v → x.getD f 0 ≤ v →
      forward g F x ≤ forward g F (x.set f v)
  | .dec => ∀ (x : List ℚ) (v : ℚ), ValidInputs g x → ValidInputs g (x.set f v) →
      Present c f (x.getD f 0) → Present c f v → x.getD f 0 ≤ v →
      forward g F (x.set f v) ≤ forward g F x
  | .pair a b => ∀ (x : List ℚ), ValidInputs g (x.set f (a : ℚ)) → ValidInputs g (x.set f (b : ℚ)) →
      Present c f (a : ℚ) → Present c f (b : ℚ) →
      forward g F (x.set f (a : ℚ)) ≤ forward g F (x.set f (b : ℚ))

/-- the model function is monotone in every constrained feature and within the output bounds -/
def MonotoneAndBounded (c : ModelConfig) (g : LayerGraph) (F : Fns) : Prop :=
  (∀ f rq, f < c.features.length → ReqOf (featAt c f).mono rq → MonoClause c g F f rq) ∧
  (∀ x : List ℚ, ValidInputs g x → inB c.outMin c.outMax (forward g F x))

/-- **C03, the unrestricted statement**: for every config the builders accept, every realisation
of its weights, right after construction (`n = 0`) and after every history, the model is monotone
and bounded. FALSE on the current tree: `F_C03_a_…`, `F_C03_b_…`, `F_C03_d_…`, `F_C03_e_…` below. -/
def C03_full : Prop :=
  ∀ (c : ModelConfig) (g : LayerGraph), buildSpec c = .ok g → ∀ (sys : System g) (w0 : ∀ v, sys.S v),
    sys.Init w0 → ∀ (n : Nat) (w : ∀ v, sys.S v), Reaches sys.C w0 n w →
      MonotoneAndBounded c g (sys.realise w)

/-! ## T2 — composition -/

/-- **F-C03-c / F-C03-d, the fixed rule (b13cb79, defc941).** With the current filing rule of
`build_rtl_layer` EVERY feature with a non-trivial monotonicity — increasing / decreasing in any
spelling `canonicalize_monotonicity` accepts, category pairs of any python type — is filed under
`'increasing'`: no hypothesis on the spelling is needed any more. -/
theorem rtl_rule_fixed (f : Feature) {rq : Req} (hreq : ReqOf f.mono rq) : rtlIncreasing f = true :=
  hreq.truthy

/-- **F-C03-e, the fixed rule (f70b866).** Category pairs given as a `list` OR a `tuple` reach the
calibrator: every calibrator of such a feature carries every configured pair. -/
theorem tuple_pairs_reach_calibrator {c : ModelConfig} {g : LayerGraph} (hb : buildSpec c = .ok g) {f : Nat}
    {ps : List (Nat × Nat)} {k : PairsKind} (hm : (featAt c f).mono = .pairs ps k) (hk : k = .list ∨ k = .tuple) :
    ∀ cal ∈ g.calibrators, cal.feature = f → cal.pairs = ps := by
  intro cal hcal hcf
  obtain ⟨rng, u, hmk⟩ := buildSpecWith_cals hb cal hcal
  rw [hcf] at hmk
  have hnb := mkCalibrator_pairs_categorical hmk hm
  unfold mkCalibrator at hmk
  simp only at hmk
  split_ifs at hmk with h0 h1
  · simp only [Except.ok.injEq] at hmk; subst hmk
    rcases hk with rfl | rfl <;> simp [hm, calPairs, calPairsWith, pairsHonoured]
  · simp [hnb] at h1

/-- **T2, key structural lemma.** In the graph the builders produce, a feature configured
increasing / decreasing (any accepted spelling) / with category pairs (list or tuple) meets only
calibrators of that direction / with that pair, and every lattice or linear axis it feeds is marked
increasing — for calibrated linear, calibrated lattice, explicit (and random) ensembles and RTL
ensembles alike. -/
theorem buildSpec_wired {c : ModelConfig} {g : LayerGraph} (hb : buildSpec c = .ok g) {f : Nat}
    (hf : f < c.features.length) {rq : Req} (hreq : ReqOf (featAt c f).mono rq)
    (hdraw : c.kind = .ensemble → c.rtl = true → RtlDraws rtlIncreasing c) : Wired g f rq :=
  buildSpecWith_wired hb hf hreq (fun hk hr => ⟨rtl_rule_fixed _ hreq, hdraw hk hr⟩)

/-- **T2 (composition).** In a graph produced by `buildSpec`, if the layer functions have the
per-layer properties (`FnsOk`, i.e. the weights satisfy their invariants), the model function is
non-decreasing in every feature configured increasing, non-increasing in every feature configured
decreasing, and ordered along every category pair — for ALL inputs and ALL pairs of non-missing
values (composition of monotone maps; a decreasing feature is a decreasing calibrator into an
increasing axis). -/
theorem monotone_clause {c : ModelConfig} {g : LayerGraph} (hb : buildSpec c = .ok g) {F : Fns}
    (hF : FnsOk g F) {f : Nat} (hf : f < c.features.length) {rq : Req}
    (hreq : ReqOf (featAt c f).mono rq)
    (hdraw : c.kind = .ensemble → c.rtl = true → RtlDraws rtlIncreasing c) :
    MonoClause c g F f rq := by
  have hW := buildSpec_wired hb hf hreq hdraw
  have hR := buildSpecWith_ranges hb hdraw
  have hmiss : ∀ cal ∈ g.calibrators, cal.feature = f → cal.missing = (featAt c f).default := by
    intro cal hcal hcf
    obtain ⟨rng, u, hmk⟩ := buildSpecWith_cals hb cal hcal
    rw [mkCalibrator_missing hmk, hcf]
  -- values of feature `f` in `x.set f v`
  have hset : ∀ (x : List ℚ) (v : ℚ) (j : Nat), j ≠ f → (x.set f v).getD j 0 = x.getD j 0 :=
    fun x v j hj => getD_set_ne _ _ _ (Ne.symm hj)
  cases rq with
  | inc =>
    intro x v hvx hvx' hx hv hxv
    by_cases hlen : f < x.length
    · refine forward_le hF hR f hW.axis x (x.set f v) hvx hvx' (fun j hj => (hset x v j hj).symm) ?_
      intro cal hcal hcf u hu
      rw [getD_set_self _ _ _ _ hlen]
      have hok := hF.cal cal hcal u hu
      rw [hcf] at hok
      exact hok.inc (hW.cal cal hcal hcf) _ _ (by rw [hmiss cal hcal hcf]; exact hx)
        (by rw [hmiss cal hcal hcf]; exact hv) hxv
    · rw [set_of_length_le _ _ (by omega)]
  | dec =>
    intro x v hvx hvx' hx hv hxv
    by_cases hlen : f < x.length
    · refine forward_le hF hR f hW.axis (x.set f v) x hvx' hvx (fun j hj => hset x v j hj) ?_
      intro cal hcal hcf u hu
      rw [getD_set_self _ _ _ _ hlen]
      have hok := hF.cal cal hcal u hu
      rw [hcf] at hok
      exact hok.dec (hW.cal cal hcal hcf) _ _ (by rw [hmiss cal hcal hcf]; exact hx)
        (by rw [hmiss cal hcal hcf]; exact hv) hxv
    · rw [set_of_length_le _ _ (by omega)]
  | pair a b =>
    intro x hva hvb ha hb'
    by_cases hlen : f < x.length
    · refine forward_le hF hR f hW.axis (x.set f a) (x.set f b) hva hvb
        (fun j hj => by rw [hset x a j hj, hset x b j hj]) ?_
      intro cal hcal hcf u hu
      rw [getD_set_self _ _ _ _ hlen, getD_set_self _ _ _ _ hlen]
      have hok := hF.cal cal hcal u hu
      rw [hcf] at hok
      exact hok.pairs (a, b) (hW.cal cal hcal hcf) (by rw [hmiss cal hcal hcf]; exact ha)
        (by rw [hmiss cal hcal hcf]; exact hb')
    · rw [set_of_length_le _ _ (by omega), set_of_length_le _ _ (by omega)]

/-! ## T3 — output bounds -/

/-- **T3 (bounds).** In a graph produced by `buildSpec`, with the per-layer properties and the
excluding hypothesis of F-C03-a (every normalised `Linear` kept a positive weight), the output lies
in `[output_min, output_max]` (each side when configured) at EVERY valid input — in range, out of
range, missing: lattice `output_min/max`, `Average`, the weighted average of the linear combination / the
calibrated-linear layer, or the output calibrator's bounds. -/
theorem output_bounds {c : ModelConfig} {g : LayerGraph} (hb : buildSpec c = .ok g) {F : Fns}
    (hF : FnsOk g F) (hN : Nondegenerate g F)
    (hdraw : c.kind = .ensemble → c.rtl = true → RtlDraws rtlIncreasing c) (x : List ℚ)
    (hx : ValidInputs g x) : inB c.outMin c.outMax (forward g F x) :=
  forward_bounds c.outMin c.outMax hF (buildSpecWith_ranges hb hdraw) (buildSpecWith_bounds hb hdraw) hN x hx

/-- without output bounds T3 needs nothing -/
theorem output_bounds_trivial (g : LayerGraph) (F : Fns) (x : List ℚ) : inB none none (forward g F x) :=
  inB_none _

/-! ## the property, with exactly the findings as hypotheses -/

/-- **C03 (partial).** For every config the builders accept, every realisation of the model's
weights (`System`), every initial state the initializers can produce and EVERY history of arbitrary
updates each followed by the constraints: the model function is monotone in every
constrained feature (any accepted spelling; pairs as list or tuple — anything else is rejected) for all pairs of non-missing points, and — when no normalised `Linear`
has degenerated to all-zero weights — within the output bounds at every input.
Hypotheses beyond `verify_config` = recorded findings: `0 < n ∨ NoCategoricalPairs g` (F-C03-b),
`Nondegenerate` (F-C03-a); `RtlDraws`: the RTL shuffles are permutations. (The former hypotheses on
spellings, F-C03-d/e/f, are gone: fixed by defc941, f70b866, e8dafc0.) Restoring saved weights reproduces the same weight values, hence the same
realised functions: the statement is about the weight values. -/
theorem C03_partial (c : ModelConfig) (g : LayerGraph) (hb : buildSpec c = .ok g) (sys : System g)
    (w0 : ∀ v, sys.S v) (hinit : sys.Init w0) (n : Nat) (w : ∀ v, sys.S v)
    (hr : Reaches sys.C w0 n w) (hhist : 0 < n ∨ NoCategoricalPairs g)
    (hdraw : c.kind = .ensemble → c.rtl = true → RtlDraws rtlIncreasing c) :
    (∀ f rq, f < c.features.length → ReqOf (featAt c f).mono rq →
      MonoClause c g (sys.realise w) f rq) ∧
    (Nondegenerate g (sys.realise w) → ∀ x : List ℚ, ValidInputs g x →
      inB c.outMin c.outMax (forward g (sys.realise w) x)) := by
  have hinv : ∀ v, sys.Inv v (w v) :=
    invariant_after_history_rel sys.C sys.Inv sys.establishes hr
      (hhist.imp id (fun h => sys.init_sound h w0 hinit))
  have hF := sys.sound w hinv
  exact ⟨fun f rq hf hreq => monotone_clause hb hF hf hreq hdraw,
    fun hN x hx => output_bounds hb hF hN hdraw x hx⟩

/-- the same for functional constraints and the literal `foldl (constraint ∘ update)` -/
theorem C03_partial_foldl (c : ModelConfig) (g : LayerGraph) (hb : buildSpec c = .ok g) (sys : System g)
    (cons : ∀ v, sys.S v → sys.S v) (hcons : ∀ v s s', sys.C v s s' ↔ s' = cons v s)
    (w0 : ∀ v, sys.S v) (hinit : sys.Init w0)
    (h : List ((∀ v, sys.S v) → (∀ v, sys.S v))) (hhist : h ≠ [] ∨ NoCategoricalPairs g)
    (hdraw : c.kind = .ensemble → c.rtl = true → RtlDraws rtlIncreasing c) :
    (∀ f rq, f < c.features.length → ReqOf (featAt c f).mono rq →
      MonoClause c g (sys.realise (runHistory cons w0 h)) f rq) ∧
    (Nondegenerate g (sys.realise (runHistory cons w0 h)) →
      ∀ x : List ℚ, ValidInputs g x →
        inB c.outMin c.outMax (forward g (sys.realise (runHistory cons w0 h)) x)) := by
  have hC : sys.C = fun v s s' => s' = cons v s := by
    funext v s s'; exact propext (hcons v s s')
  have hr := reaches_runHistory cons w0 h
  rw [← hC] at hr
  exact C03_partial c g hb sys w0 hinit h.length _ hr
    (hhist.imp (fun hne => List.length_pos_iff.mpr hne) id) hdraw


/-! ## T1 premises, instantiated: what each layer's constraint delivers from ANY input

One theorem per layer kind: for EVERY raw weight value (whatever an arbitrary update left behind)
the constraint returns weights whose layer function has the per-layer property `CalOk` / `LatOk` /
`LinOk` + `NormOk` that `FnsOk` asks for. These are the `establishes` + `sound` fields of a `System`
(see `exSystem` below). Sources: C04 (`monotone_exact`, `bounds_hold`, `missing_output_in_bounds`)
+ C05 (`pwl_monotone_*`, `pwl_bounded`); C06 (`categorical_pairs_and_bounds`) + C05 (category ↦
row); C01 (`C01_strict_edgeworth_class`) + C02 (`C02_T4_hypercube_mono`, `C02_T2_range`); C07
(`layer_monotone_and_bounded_after_constraints`); C06 (`normalize_keeps`, `normalize_l1_unit`) +
C20 (`norm1_eq_rsum_of_nonneg`). -/


/-- `monotonicities` of a `Linear` layer as the constraint sees them -/
def linMonos (monos : List Nat) : List Int := monos.map Int.ofNat

theorem getM_linMonos (monos : List Nat) (i : Nat) (h : monos.getD i 0 = 1) : getM (linMonos monos) i = 1 := by
  unfold getM linMonos
  by_cases hi : i < monos.length
  · rw [getD_map' _ _ _ 0 _ hi, h]; rfl
  · rw [List.getD_eq_getElem?_getD, List.getElem?_eq_none (by omega)] at h; cases h

/-- **T1 premise, `Linear` (C06/C20).** For EVERY raw kernel `w0` the constraint of a `Linear` layer
without dominance pairs returns a kernel with weight ≥ 0 on every axis marked increasing; with
`normalization_order = 1` on an all-increasing layer the weights are ≥ 0 and sum to one — unless
the clipped column is below the norm guard (F-C03-a), in which case it is returned unnormalised. -/
theorem linear_constraint_delivers (monos : List Nat) (normalized : Bool) (w0 w : List ℚ)
    (h : Linear.project (linMonos monos) [] [] [] [] (if normalized then .l1 else .none) w0 = .ok w) :
    LinOk monos w ∧
    (normalized = true → (∀ i, i < w0.length → monos.getD i 0 = 1) → NormOk w0.length w) ∧
    (normalized = true → (∀ i, i < w0.length → monos.getD i 0 = 1) →
      ¬ norm1 (signClip (linMonos monos) w0) < normEps → rsum w = 1) := by
  have hw : w = normalize (if normalized then .l1 else .none) (signClip (linMonos monos) w0) := by
    simp only [Linear.project, projectPre, List.isEmpty_nil, if_true, pure, Except.pure, bind, Except.bind,
      Except.map, Except.ok.injEq] at h
    exact h.symm
  obtain ⟨n, hn, hnorm⟩ := C06.normalize_keeps (if normalized then .l1 else .none) (signClip (linMonos monos) w0)
  have hlen : w.length = w0.length := by rw [hw, hnorm]; simp [length_signClip]
  have hsign : ∀ i, getM (linMonos monos) i = 1 → 0 ≤ getV w i := by
    intro i hi
    rw [hw, hnorm]
    by_cases hil : i < (signClip (linMonos monos) w0).length
    · rw [C06.getV_map _ _ hil]
      exact div_nonneg ((signClip_signOk (linMonos monos) w0 i).1 hi) hn.le
    · rw [getV_of_le (by simpa using Nat.le_of_not_lt hil)]
  refine ⟨fun i hi => hsign i (getM_linMonos monos i hi), ?_, ?_⟩
  · intro hN hall
    subst hN
    have hnn : ∀ i, 0 ≤ getV w i := by
      intro i
      by_cases hi : i < w0.length
      · exact hsign i (getM_linMonos monos i (hall i hi))
      · rw [getV_of_le (by rw [hlen]; omega)]
    refine ⟨hlen, hnn, ?_⟩
    by_cases hz : norm1 (signClip (linMonos monos) w0) < normEps
    · right
      have : w = signClip (linMonos monos) w0 := by
        rw [hw]; simp only [if_true, normalize, if_pos hz]; simp
      rw [this]; exact hz
    · left
      rw [← C20.norm1_eq_rsum_of_nonneg w (fun i _ => hnn i), hw]
      exact C06.normalize_l1_unit _ hz
  · intro hN hall hz
    subst hN
    have hnn : ∀ i, 0 ≤ getV w i := by
      intro i
      by_cases hi : i < w0.length
      · exact hsign i (getM_linMonos monos i (hall i hi))
      · rw [getV_of_le (by rw [hlen]; omega)]
    rw [← C20.norm1_eq_rsum_of_nonneg w (fun i _ => hnn i), hw]
    exact C06.normalize_l1_unit _ hz


/- `catFn k dflt x` (the function a categorical calibrator unit with kernel `k` realises; categories
and the default value are integers given as rationals) and `pwlFn` are defined in `Model/Premade.lean`:
the driver evaluates them inside the concrete composite. -/

theorem catFn_row (k : List ℚ) (dflt : Option ℚ) (hint : ∀ m, dflt = some m → m = (m.num : ℚ)) (hk : k ≠ [])
    (x : ℚ) (hx : dflt = some x ∨ ∃ j : Nat, j < k.length ∧ x = (j : ℚ)) :
    ∃ j, j < k.length ∧ catFn k dflt x = getV k j ∧ (∀ i : Nat, x = (i : ℚ) → dflt ≠ some x → j = i) := by
  unfold catFn
  by_cases hd : dflt = some x
  · refine ⟨k.length - 1, by have := List.length_pos_iff.mpr hk; omega, ?_, fun i _ h => absurd hd h⟩
    rw [hd]; exact C05.default_maps_to_last_bucket k _ hk
  · rcases hx with hx | ⟨j, hj, rfl⟩
    · exact absurd hx hd
    · refine ⟨j, hj, ?_, fun i hi _ => by exact_mod_cast hi⟩
      have hnum : ((j : ℚ)).num = (j : Int) := Rat.num_natCast j
      rw [hnum, C05.category_maps_to_row k _ (j : Int) (by omega) (by exact_mod_cast hj)]
      · simp
      · cases hdf : dflt with
        | none => simp
        | some m =>
          simp only [Option.map_some, ne_eq, Option.some.injEq]
          intro e
          apply hd
          rw [hdf, hint m hdf, e]; simp

/-- **T1 premise, `CategoricalCalibration` (C06 + C05).** For EVERY raw kernel `k0` the constraint
returns a kernel whose calibration is ordered along every configured pair and within the output
bounds at every valid input (categories and the default value). -/
theorem categorical_constraint_delivers (c : Calibrator) (hcat : c.categorical = true) (hm : c.mono = 0)
    (hb : ∀ l h, c.outMin = some l → c.outMax = some h → l ≤ h)
    (hint : ∀ m, c.missing = some m → m = (m.num : ℚ))
    (k0 k : List ℚ) (hlen : k0.length = c.numBuckets) (hne : k0 ≠ [])
    (order : List Nat) (hts : c.pairs ≠ [] → topoSort c.pairs = some order) (hv : ValidOrder c.pairs order)
    (hin : ∀ a ∈ order, a < k0.length)
    (h : Categorical.project c.outMin c.outMax c.pairs k0 = .ok k) : CalOk c (catFn k c.missing) := by
  obtain ⟨hfeas, hl, hbnd⟩ := C06.categorical_pairs_and_bounds c.outMin c.outMax c.pairs k0 k order hts hv hin hb h
  have hkne : k ≠ [] := by intro e; rw [e] at hl; exact hne (List.length_eq_zero_iff.mp hl.symm)
  refine ⟨fun h1 => by omega, fun h1 => by omega, ?_, ?_⟩
  · intro p hp h1 h2
    have hp1 : p.1 < k.length := by rw [hl]; exact hin _ (hv.mem_left (i := p.1) (j := p.2) hp)
    have hp2 : p.2 < k.length := by rw [hl]; exact hin _ (hv.mem_right (i := p.1) (j := p.2) hp)
    obtain ⟨j1, _, e1, u1⟩ := catFn_row k c.missing hint hkne (p.1 : ℚ) (Or.inr ⟨p.1, hp1, rfl⟩)
    obtain ⟨j2, _, e2, u2⟩ := catFn_row k c.missing hint hkne (p.2 : ℚ) (Or.inr ⟨p.2, hp2, rfl⟩)
    rw [e1, e2, u1 p.1 rfl h1, u2 p.2 rfl h2]
    exact hfeas p hp
  · intro x hx
    have hx' : c.missing = some x ∨ ∃ j : Nat, j < k.length ∧ x = (j : ℚ) := by
      rcases hx hcat with h | ⟨j, hj, e⟩
      · exact Or.inl h
      · exact Or.inr ⟨j, by rw [hl, hlen]; exact hj, e⟩
    obtain ⟨j, hj, e, _⟩ := catFn_row k c.missing hint hkne x hx'
    rw [e]
    exact hbnd j hj


/-- two-sided rational bounds that realise optional bounds on a finite set of values -/
theorem exists_box_anchor (lo hi : Option ℚ) (v0 : ℚ) (vals : List ℚ) (h : ∀ y ∈ v0 :: vals, inB lo hi y) :
    ∃ l u : ℚ, (∀ y ∈ v0 :: vals, l ≤ y ∧ y ≤ u) ∧ ∀ y, l ≤ y → y ≤ u → inB lo hi y := by
  refine ⟨lo.getD (rmin v0 vals), hi.getD (rmax v0 vals),
    fun y hy => ⟨?_, ?_⟩, fun y h1 h2 => ⟨fun a ha => ?_, fun b hb => ?_⟩⟩
  · cases hlo : lo with
    | some a => exact (h y hy).1 a hlo
    | none =>
      simp only [Option.getD_none]
      rcases List.mem_cons.mp hy with rfl | hy
      · exact Lat.rmin_le_init _ _
      · exact Lat.rmin_le_mem _ _ hy
  · cases hhi : hi with
    | some b => exact (h y hy).2 b hhi
    | none =>
      simp only [Option.getD_none]
      rcases List.mem_cons.mp hy with rfl | hy
      · exact Lat.rmax_ge_init _ _
      · exact Lat.rmax_ge_mem _ _ hy
  · subst ha; exact h1
  · subst hb; exact h2

theorem cumsumIncl_eq_cumsumFrom : ∀ (a : ℚ) (l : List ℚ), PwlEval.cumsumIncl a l = PwlProj.cumsumFrom a l
  | _, [] => rfl
  | a, x :: xs => by simp [PwlEval.cumsumIncl, PwlProj.cumsumFrom, cumsumIncl_eq_cumsumFrom (a + x) xs]

theorem keypointsOutputs_eq (cfgE : PwlEval.Cfg) (hc : cfgE.isCyclic = false) (b : ℚ) (hs : List ℚ) :
    PwlEval.keypointsOutputs cfgE (b :: hs) = PwlProj.outputs b hs := by
  simp [PwlEval.keypointsOutputs, hc, PwlEval.cumsumIncl, PwlProj.outputs, cumsumIncl_eq_cumsumFrom]

theorem pwlFn_spec (cfgE : PwlEval.Cfg) (missing : Option ℚ) (hi : cfgE.imputeMissing = missing.isSome)
    (hv : cfgE.missingInputValue = missing) (kernel ws : List ℚ) (mo x : ℚ) :
    (missing = some x → pwlFn cfgE kernel ws mo x = mo) ∧
    (missing ≠ some x → pwlFn cfgE kernel ws mo x = PwlEval.calibrate cfgE kernel ws x) := by
  unfold pwlFn PwlEval.call
  cases hm : missing with
  | none =>
    rw [hm] at hi hv
    simp [hi]
  | some v =>
    rw [hm] at hi hv
    simp only [hi, hv, Option.isSome_none, Bool.false_and, Bool.false_eq_true, if_false, Option.isSome_some,
      if_true]
    constructor
    · intro e
      simp only [Option.some.injEq] at e
      subst e; simp
    · intro e
      have : x ≠ v := fun h => e (by rw [h])
      simp [this]

theorem convert_facts (omin omax : Option ℚ) (cmin cmax : Bool) :
    (∀ l, omin = some l → (PwlProj.convertAllConstraints omin omax cmin cmax).2.2.1 ≠ .none ∧
        (PwlProj.convertAllConstraints omin omax cmin cmax).1 = l) ∧
    (∀ u, omax = some u → (PwlProj.convertAllConstraints omin omax cmin cmax).2.2.2 ≠ .none ∧
        (PwlProj.convertAllConstraints omin omax cmin cmax).2.1 = u) := by
  cases omin <;> cases omax <;> cases cmin <;> cases cmax <;>
    simp [PwlProj.convertAllConstraints, PwlProj.convertConstraints]

/-- **T1 premise, `PWLCalibration` (C04 + C05).** For EVERY raw kernel `(b0, hs0)` and raw
`missing_output` `mo0`, every keypoint spacing and iteration count: what the kernel constraint and
`NaiveBoundsConstraints` return makes the layer function monotone in the configured direction for
all pairs of non-missing inputs and keeps it within the output bounds at every input, the imputed
missing value included. -/
theorem pwl_constraint_delivers (c : Calibrator) (hm : c.mono = 0 ∨ c.mono = 1 ∨ c.mono = -1)
    (hcv : c.convexity = 0 ∨ c.convexity = 1 ∨ c.convexity = -1) (hpairs : c.pairs = [])
    (hb : ∀ l h, c.outMin = some l → c.outMax = some h → l ≤ h)
    (cfgE : PwlEval.Cfg) (hcyc : cfgE.isCyclic = false) (himp : cfgE.imputeMissing = c.missing.isSome)
    (hmiss : cfgE.missingInputValue = c.missing)
    (L : List ℚ) (hL : PwlProj.AllPos L) (it : Nat) (b0 : ℚ) (hs0 : List ℚ) (mo0 : ℚ) (b : ℚ) (hs : List ℚ)
    (hproj : PwlProj.constraintsCall c.mono c.convexity c.outMin c.outMax c.clampMin c.clampMax L it b0 hs0
      = .ok (b, hs))
    (ws : List ℚ) (hwf : PwlEval.WF cfgE (b :: hs) ws) :
    CalOk c (pwlFn cfgE (b :: hs) ws (PwlProj.naiveBounds c.outMin c.outMax mo0)) := by
  -- unfold the wiring of the constraint object
  unfold PwlProj.constraintsCall at hproj
  simp only at hproj
  split_ifs at hproj with hbad
  set r := PwlProj.convertAllConstraints c.outMin c.outMax c.clampMin c.clampMax with hr
  have hcfg := C04.wired_cfgOk c.mono c.convexity hm hcv c.outMin c.outMax c.clampMin c.clampMax hb
  have hmono := C04.monotone_exact _ hcfg L hL it b0 hs0 (b, hs) hproj
  have hbnd := C04.bounds_hold _ hcfg L hL it b0 hs0 (b, hs) hproj
  have hconv := convert_facts c.outMin c.outMax c.clampMin c.clampMax
  have hKO := keypointsOutputs_eq cfgE hcyc b hs
  have hlenKO : (PwlProj.outputs b hs).length = cfgE.inputKeypoints.length := by
    have := hwf.klen; simp only [hcyc, Bool.false_eq_true, if_false, add_zero] at this
    rw [← this]
    have hcs : ∀ (a : ℚ) (l : List ℚ), (PwlProj.cumsumFrom a l).length = l.length := by
      intro a l
      induction l generalizing a with
      | nil => rfl
      | cons x t ih => simp [PwlProj.cumsumFrom, ih]
    simp [PwlProj.outputs, hcs]
  have hspec := pwlFn_spec cfgE c.missing himp hmiss (b :: hs) ws (PwlProj.naiveBounds c.outMin c.outMax mo0)
  -- consecutive keypoint outputs from the pairwise statement
  have consec : ∀ (R : ℚ → ℚ → Prop), (PwlProj.outputs b hs).Pairwise R → ∀ j, j + 1 < cfgE.inputKeypoints.length →
      R (getR (PwlEval.keypointsOutputs cfgE (b :: hs)) j) (getR (PwlEval.keypointsOutputs cfgE (b :: hs)) (j + 1)) := by
    intro R hp j hj
    rw [hKO]
    have h1 : j < (PwlProj.outputs b hs).length := by omega
    have h2 : j + 1 < (PwlProj.outputs b hs).length := by omega
    have := (List.pairwise_iff_getElem.mp hp) j (j + 1) h1 h2 (by omega)
    simpa [getR, List.getD_eq_getElem?_getD, h1, h2] using this
  have hKOb : ∀ y ∈ PwlProj.outputs b hs, inB c.outMin c.outMax y := by
    intro y hy
    have := hbnd y hy
    exact ⟨fun l hl => by have := this.1 (hconv.1 l hl).1; rw [(hconv.1 l hl).2] at this; exact this,
      fun u hu => by have := this.2 (hconv.2 u hu).1; rw [(hconv.2 u hu).2] at this; exact this⟩
  have hmo := C04.missing_output_in_bounds c.outMin c.outMax hb mo0
  refine ⟨?_, ?_, (by rw [hpairs]; intro p hp; cases hp), ?_⟩
  · intro h1 x y hx hy hxy
    rw [(hspec x).2 hx, (hspec y).2 hy]
    exact C05.pwl_monotone_increasing hwf (consec (· ≤ ·) (hmono.1 h1).2) x y hxy
  · intro h1 x y hx hy hxy
    rw [(hspec x).2 hx, (hspec y).2 hy]
    exact C05.pwl_monotone_decreasing hwf (consec (fun a b => b ≤ a) (hmono.2 h1).2) x y hxy
  · intro x _
    obtain ⟨l, u, hin, hout⟩ := exists_box_anchor c.outMin c.outMax (PwlProj.naiveBounds c.outMin c.outMax mo0)
      (PwlProj.outputs b hs) (by
        intro y hy
        rcases List.mem_cons.mp hy with rfl | hy
        · exact hmo
        · exact hKOb y hy)
    by_cases hx : c.missing = some x
    · rw [(hspec x).1 hx]; exact hmo
    · rw [(hspec x).2 hx]
      have := C05.pwl_bounded hwf l u (fun j hj => by
        rw [hKO]
        apply hin
        apply List.mem_cons_of_mem
        have hj' : j < (PwlProj.outputs b hs).length := by omega
        simp only [getR, List.getD_eq_getElem?_getD, List.getElem?_eq_getElem hj', Option.getD_some]
        exact List.getElem_mem hj') x
      exact hout _ this.1 this.2


/-- **T1 premise, output calibrator** (`build_output_calibration_layer`: an increasing PWL without
missing-value handling): non-decreasing everywhere and within the model's output bounds. -/
theorem output_calibrator_delivers (oc : OutCal)
    (hb : ∀ l h, oc.outMin = some l → oc.outMax = some h → l ≤ h)
    (cfgE : PwlEval.Cfg) (hcyc : cfgE.isCyclic = false) (himp : cfgE.imputeMissing = false)
    (hmiss : cfgE.missingInputValue = none)
    (L : List ℚ) (hL : PwlProj.AllPos L) (it : Nat) (b0 : ℚ) (hs0 : List ℚ) (b : ℚ) (hs : List ℚ)
    (hproj : PwlProj.constraintsCall 1 0 oc.outMin oc.outMax false false L it b0 hs0 = .ok (b, hs))
    (ws : List ℚ) (hwf : PwlEval.WF cfgE (b :: hs) ws) :
    (∀ x y, x ≤ y → pwlFn cfgE (b :: hs) ws (PwlProj.naiveBounds oc.outMin oc.outMax 0) x ≤
        pwlFn cfgE (b :: hs) ws (PwlProj.naiveBounds oc.outMin oc.outMax 0) y) ∧
    ∀ x, inB oc.outMin oc.outMax (pwlFn cfgE (b :: hs) ws (PwlProj.naiveBounds oc.outMin oc.outMax 0) x) := by
  have h := pwl_constraint_delivers
    { feature := 0, categorical := false, units := 1, mono := 1, pairs := [], numBuckets := 0,
      numKeypoints := oc.numKeypoints, outMin := oc.outMin, outMax := oc.outMax, clampMin := false,
      clampMax := false, convexity := 0, missing := none, learned := false }
    (Or.inr (Or.inl rfl)) (Or.inl rfl) rfl hb cfgE hcyc (by simpa using himp) hmiss L hL it b0 hs0 0 b hs hproj ws hwf
  exact ⟨fun x y hxy => h.inc rfl x y (by simp) (by simp) hxy, fun x => h.bounds x (fun hc => by cases hc)⟩

/-- two-sided rational bounds that realise optional bounds on a finite set of values -/
theorem exists_box (lo hi : Option ℚ) (vals : List ℚ) (h : ∀ y ∈ vals, inB lo hi y) :
    ∃ l u : ℚ, (∀ y ∈ vals, l ≤ y ∧ y ≤ u) ∧ ∀ y, l ≤ y → y ≤ u → inB lo hi y := by
  refine ⟨lo.getD (rmin 0 vals), hi.getD (rmax 0 vals),
    fun y hy => ⟨?_, ?_⟩, fun y h1 h2 => ⟨fun a ha => ?_, fun b hb => ?_⟩⟩
  · cases hlo : lo with
    | some a => exact (h y hy).1 a hlo
    | none => exact Lat.rmin_le_mem _ _ hy
  · cases hhi : hi with
    | some b => exact (h y hy).2 b hhi
    | none => exact Lat.rmax_ge_mem _ _ hy
  · subst ha; exact h1
  · subst hb; exact h2

theorem inRange_of_inBox : ∀ (sizes : List Nat) (z : List ℚ), InBox sizes z → LatticeEval.InRange sizes z
  | [], [], _ => trivial
  | [], _ :: _, h => by simp [InBox] at h
  | _ :: _, [], h => by simp [InBox] at h
  | n :: ns, a :: t, h => by
    refine ⟨by simpa using h.2 0 (by simp), inRange_of_inBox ns t ⟨by simpa using h.1, fun d hd => ?_⟩⟩
    simpa using h.2 (d + 1) (by simpa using hd)

/-- the function an all-vertices lattice unit with vertex values `K` realises: hypercube
interpolation, `clip_inputs = False` -/
def latFn (sizes : List Nat) (K : W) (z : List ℚ) : ℚ :=
  LatticeEval.hypercubeValue .list false sizes (C02.kernelOf sizes K) z

/-- **T1 premise, `Lattice` (C01 class A + C02).** For EVERY kernel `w` the Dykstra iterations may
have returned, the strict finalisation and the final clip give vertex values whose hypercube
interpolation is, on the lattice's input range, non-decreasing along every axis marked monotone
(for ALL pairs of points) and within the output bounds. Class A = any monotonicities, Edgeworth
trusts and bounds, no trapezoid trusts (what premade models use unless a trapezoid `TrustConfig` is
given; those are covered by C01's correspondence + oracle, finding F-C01-a). -/
theorem lattice_constraint_delivers (b : Block) (cfg : Lat.Cfg) (hsz : cfg.sizes = b.sizes)
    (hmono : ∀ d, b.monos.getD d 0 = 1 → cfg.mono.getD d false = true)
    (hlo : cfg.lo = b.outMin) (hhi : cfg.hi = b.outMax) (hwf : C01.CfgWF cfg) (hnt : cfg.trapezoid = [])
    (hne : b.sizes ≠ []) (hs2 : ∀ n ∈ b.sizes, 2 ≤ n) (w : W) :
    LatOk b (latFn b.sizes (Lat.clipBounds cfg.lo cfg.hi (Lat.finalize cfg w))) := by
  obtain ⟨hM, _, _, hB⟩ := C01.C01_strict_edgeworth_class cfg hwf hnt w
  rw [hsz] at hM hB
  set K := Lat.clipBounds cfg.lo cfg.hi (Lat.finalize cfg w)
  constructor
  · intro z d v hz hz' hd hle
    by_cases hdl : d < b.sizes.length
    · unfold latFn
      refine C02.C02_T4_hypercube_mono .list false b.sizes K z d v hne hs2 hdl ?_
        ⟨hz.1, Or.inr (inRange_of_inBox _ _ hz)⟩ ⟨hz'.1, Or.inr (inRange_of_inBox _ _ hz')⟩ hle
      intro idx hidx hlt
      exact hM d hdl (hmono d hd) idx (mem_allIdx.mp hidx) hdl hlt
    · rw [set_of_length_le _ _ (by rw [hz.1]; omega)]
  · intro z hz
    have hvals : ∀ y ∈ (allIdx b.sizes).map K, inB b.outMin b.outMax y := by
      intro y hy
      obtain ⟨idx, hidx, rfl⟩ := List.mem_map.mp hy
      have := hB idx (mem_allIdx.mp hidx)
      rw [hlo, hhi] at this
      exact this
    obtain ⟨l, u, hin, hout⟩ := exists_box b.outMin b.outMax _ hvals
    have := C02.C02_T2_range .list false b.sizes K z l u hne hs2 ⟨hz.1, Or.inr (inRange_of_inBox _ _ hz)⟩
      (fun idx hidx => hin _ (List.mem_map_of_mem hidx))
    exact hout _ this.1 this.2

/-- **T1 premise, `Lattice` (C01 class C = H_trap, + C02).** The same for EVERY configuration of C01's
general mixed class: any monotonicities, any Edgeworth trusts, any TRAPEZOID trusts (alone, sharing
conditional axes; or together with Edgeworth trusts, matching or not, when no two trapezoid trusts
share a conditional axis and — unless the lattice has rank 2 — no trapezoid conditional axis is
monotone), any bounds. Outside this class lies finding F-C01-a (Edgeworth trusts + a trapezoid trust
on a monotone conditional axis + a third axis: `C01.C01_counter_witness`), which premade models
inherit (pinned for C03 under the same id). -/
theorem lattice_constraint_delivers_mixed (b : Block) (cfg : Lat.Cfg) (hsz : cfg.sizes = b.sizes)
    (hmono : ∀ d, b.monos.getD d 0 = 1 → cfg.mono.getD d false = true)
    (hlo : cfg.lo = b.outMin) (hhi : cfg.hi = b.outMax) (hwf : C01.CfgWF cfg) (hmx : C01.MixedClassWF cfg)
    (hne : b.sizes ≠ []) (hs2 : ∀ n ∈ b.sizes, 2 ≤ n) (w : W) :
    LatOk b (latFn b.sizes (Lat.clipBounds cfg.lo cfg.hi (Lat.finalize cfg w))) := by
  obtain ⟨hM, _, _, hB⟩ := C01.C01_strict_mixed_class cfg hwf hmx w
  rw [hsz] at hM hB
  set K := Lat.clipBounds cfg.lo cfg.hi (Lat.finalize cfg w)
  constructor
  · intro z d v hz hz' hd hle
    by_cases hdl : d < b.sizes.length
    · unfold latFn
      refine C02.C02_T4_hypercube_mono .list false b.sizes K z d v hne hs2 hdl ?_
        ⟨hz.1, Or.inr (inRange_of_inBox _ _ hz)⟩ ⟨hz'.1, Or.inr (inRange_of_inBox _ _ hz')⟩ hle
      intro idx hidx hlt
      exact hM d hdl (hmono d hd) idx (mem_allIdx.mp hidx) hdl hlt
    · rw [set_of_length_le _ _ (by rw [hz.1]; omega)]
  · intro z hz
    have hvals : ∀ y ∈ (allIdx b.sizes).map K, inB b.outMin b.outMax y := by
      intro y hy
      obtain ⟨idx, hidx, rfl⟩ := List.mem_map.mp hy
      have := hB idx (mem_allIdx.mp hidx)
      rw [hlo, hhi] at this
      exact this
    obtain ⟨l, u, hin, hout⟩ := exists_box b.outMin b.outMax _ hvals
    have := C02.C02_T2_range .list false b.sizes K z l u hne hs2 ⟨hz.1, Or.inr (inRange_of_inBox _ _ hz)⟩
      (fun idx hidx => hin _ (List.mem_map_of_mem hidx))
    exact hout _ this.1 this.2

/-- the function a KroneckerFactoredLattice unit realises, `clip_inputs = False` -/
def kflFn (L : Nat) (st : Kfl.State) (bias : ℚ) (z : List ℚ) : ℚ := Kfl.eval L false st.K st.scale bias z

/-- **T1 premise, `KroneckerFactoredLattice` (C07).** From ANY starting kernel and scale, once the
kernel constraint and the scale constraint have both been applied (any order, any repetition — the
kernel projection reads the scale, which is why the history is relational), the layer function is
non-decreasing along every axis marked monotone and within the output bounds on the input range. -/
theorem kfl_constraint_delivers (b : Block) (L : Nat) (hL : 1 ≤ L) (hsz : ∀ n ∈ b.sizes, n = L)
    (ms : List Bool) (hmono : ∀ d, b.monos.getD d 0 = 1 → ms.getD d false = true)
    (hlh : ∀ l h, b.outMin = some l → b.outMax = some h → l ≤ h)
    (st : Kfl.State) (ops : List Kfl.Op) (hv : Kfl.ValidRun L ms b.outMin b.outMax st ops)
    (hK : Kfl.HasConsK ops) (hS : Kfl.Op.consS ∈ ops)
    (hdims : ∀ kt ∈ (Kfl.runOps ms b.outMin b.outMax st ops).K, kt.length = b.sizes.length) :
    LatOk b (kflFn L (Kfl.runOps ms b.outMin b.outMax st ops) (Kfl.fixedBias b.outMin b.outMax)) := by
  have hin : ∀ z, InBox b.sizes z → ∀ x ∈ z, Kfl.InR L false x := by
    intro z hz x hx
    obtain ⟨d, hd, rfl⟩ := List.mem_iff_getElem.mp hx
    have hd' : d < b.sizes.length := by rw [← hz.1]; exact hd
    have := hz.2 d hd'
    have hs : b.sizes.getD d 0 = L := hsz _ (by
      rw [List.getD_eq_getElem?_getD, List.getElem?_eq_getElem hd']; exact List.getElem_mem hd')
    rw [hs, List.getD_eq_getElem?_getD, List.getElem?_eq_getElem hd, Option.getD_some] at this
    exact Or.inr this
  constructor
  · intro z d v hz hz' hd hle
    by_cases hdl : d < z.length
    · have hv' : Kfl.InR L false v := by
        have hmem : v ∈ z.set d v := List.mem_iff_getElem.mpr ⟨d, by simpa using hdl, by simp⟩
        exact hin _ hz' v hmem
      exact (C07.layer_monotone_and_bounded_after_constraints L hL false ms b.outMin b.outMax hlh st ops hv hK hS z
        (hin z hz)).1 d v _ (hmono d hd) hv' hle
    · rw [set_of_length_le _ _ (by omega)]
  · intro z hz
    have := (C07.layer_monotone_and_bounded_after_constraints L hL false ms b.outMin b.outMax hlh st ops hv hK hS z
      (hin z hz)).2 (fun kt hkt => by rw [hdims kt hkt, hz.1])
    exact this

/-- the same without output bounds: the bias is then a free trainable variable, and the layer
function is monotone along the marked axes for EVERY bias -/
theorem kfl_constraint_delivers_unbounded (b : Block) (L : Nat) (hL : 1 ≤ L) (hsz : ∀ n ∈ b.sizes, n = L)
    (ms : List Bool) (hmono : ∀ d, b.monos.getD d 0 = 1 → ms.getD d false = true)
    (hlo : b.outMin = none) (hhi : b.outMax = none)
    (st : Kfl.State) (ops : List Kfl.Op) (hv : Kfl.ValidRun L ms none none st ops)
    (hK : Kfl.HasConsK ops) (hS : Kfl.Op.consS ∈ ops) (bias : ℚ) :
    LatOk b (kflFn L (Kfl.runOps ms none none st ops) bias) := by
  have hin : ∀ z, InBox b.sizes z → ∀ x ∈ z, Kfl.InR L false x := by
    intro z hz x hx
    obtain ⟨d, hd, rfl⟩ := List.mem_iff_getElem.mp hx
    have hd' : d < b.sizes.length := by rw [← hz.1]; exact hd
    have := hz.2 d hd'
    have hs : b.sizes.getD d 0 = L := hsz _ (by
      rw [List.getD_eq_getElem?_getD, List.getElem?_eq_getElem hd']; exact List.getElem_mem hd')
    rw [hs, List.getD_eq_getElem?_getD, List.getElem?_eq_getElem hd, Option.getD_some] at this
    exact Or.inr this
  constructor
  · intro z d v hz hz' hd hle
    by_cases hdl : d < z.length
    · have hmem : v ∈ z.set d v := List.mem_iff_getElem.mpr ⟨d, by simpa using hdl, by simp⟩
      exact (C07.layer_monotone_and_bounded_after_constraints L hL false ms none none
        (fun _ _ h => by cases h) st ops hv hK hS z (hin z hz)).1 d v bias (hmono d hd) (hin _ hz' v hmem) hle
    · rw [set_of_length_le _ _ (by omega)]
  · intro z _
    rw [hlo, hhi]; exact inB_none _

/-! ## findings: counter-witnesses on the model -/

/-- **F-C03-a (counter-witness).** A normalised all-increasing `Linear` (the linear combination of
an ensemble, or the weighted average of a calibrated linear model) whose raw weights are all
negative: the constraint clips them to `[0, 0]`, the norm guard skips the normalisation
(`NormOk` holds through its second disjunct, `rsum = 1` fails), and the "average" of two lattice
outputs `2, 2 ∈ [1, 3]` is `0 ∉ [1, 3]`. Hence the hypothesis `Nondegenerate` of T3. -/
theorem F_C03_a_counter_witness :
    Linear.project [1, 1] [] [] [] [] .l1 [-1, -2] = .ok [0, 0] ∧
    NormOk 2 [0, 0] ∧ ¬ rsum ([0, 0] : List ℚ) = 1 ∧
    Linear.call [0, 0] none [] [] [2, 2] = 0 ∧ ¬ inB (some 1) (some 3) (Linear.call [0, 0] none [] [] [2, 2]) := by
  refine ⟨by decide +kernel, ⟨rfl, ?_, Or.inr (by decide +kernel)⟩, by decide +kernel, by decide +kernel, ?_⟩
  · intro i
    rcases i with _ | _ | i <;> simp [Poset.getV]
  · intro h
    have := h.1 1 rfl
    rw [show Linear.call [0, 0] none [] [] [2, 2] = 0 by decide +kernel] at this
    exact absurd this (by norm_num)

/-- … and a column with one positive raw weight is normalised to sum one (non-vacuity of `Nondegenerate`) -/
example : Linear.project [1, 1] [] [] [] [] .l1 [-1, 2] = .ok [0, 1] := by decide +kernel

/-- **F-C03-b (counter-witness).** Premade models initialise a categorical calibrator with
`RandomUniform(output_min, output_max)` and do not project: `[1, 0]` is a possible initial kernel
for bounds `[0, 1]`; it violates the ordering pair `(0, 1)` (category 0 maps above category 1)
although it is within the bounds. One application of the constraint repairs it. Hence the
hypothesis `0 < n ∨ NoCategoricalPairs g`. -/
theorem F_C03_b_counter_witness :
    Categorical.call [1, 0] none 1 < Categorical.call [1, 0] none 0 ∧
    Categorical.project (some 0) (some 1) [(0, 1)] [1, 0] = .ok [1/2, 1/2] := by
  constructor <;> decide +kernel

/-- **F-C03-c (fixed by b13cb79), counter-witness on the model VARIANT with the old rule.** The old
`build_rtl_layer` filed a categorical feature with ordering pairs under `'unconstrained'`: in
EVERY RTL ensemble built with the old rule, every lattice axis such a feature feeds is NOT monotone
(mark 0) although its calibrator carries the pairs — so `Wired` fails and a lattice decreasing along
that axis reverses the order. (`rtl_rule_fixed` is the theorem on the fixed rule.) -/
theorem F_C03_c_old_rule_counter_witness {c : ModelConfig} {g : LayerGraph} (hb : buildSpecOld c = .ok g)
    (hk : c.kind = .ensemble) (hr : c.rtl = true) (hdraw : RtlDraws rtlIncreasingOld c) {f : Nat}
    {ps : List (Nat × Nat)} {k : PairsKind} (hm : (featAt c f).mono = .pairs ps k) :
    ∀ b ∈ g.blocks, ∀ d, d < b.inputs.length → (b.inputs.getD d default).1 = f → b.monos.getD d 0 = 0 :=
  buildSpecWith_rtl_unmarked hb hk hr hdraw (by simp [rtlIncreasingOld, hm])

/-- the feature of the F-C03-c witness: old rule `'unconstrained'`, later rules `'increasing'` -/
example : rtlIncreasingOld { numBuckets := 3, mono := .pairs [(0, 1), (1, 2)] .list } = false ∧
    rtlIncreasingLiteral { numBuckets := 3, mono := .pairs [(0, 1), (1, 2)] .list } = true ∧
    rtlIncreasing { numBuckets := 3, mono := .pairs [(0, 1), (1, 2)] .list } = true := by decide

/-- **F-C03-d (fixed by defc941), counter-witness on the model VARIANT with the literal-list rule.**
A numeric feature whose monotonicity is spelled e.g. `'Increasing'` / `'DECREASING'` (accepted by
`canonicalize_monotonicity`, hence by the calibrator, and by `_monotonicities_from_feature_configs`)
was filed under `'unconstrained'` by the literal list `[1, -1, 'increasing', 'decreasing']`: in EVERY
RTL ensemble built with that rule its monotone calibrator feeds only NON-monotone lattice axes
(mark 0). With the current rule the axes are marked (`rtl_rule_fixed`, `buildSpec_wired`). -/
theorem F_C03_d_old_rule_counter_witness {c : ModelConfig} {g : LayerGraph} (hb : buildSpecLiteral c = .ok g)
    (hk : c.kind = .ensemble) (hr : c.rtl = true) (hdraw : RtlDraws rtlIncreasingLiteral c) {f : Nat}
    (hm : (featAt c f).mono = .inc false ∨ (featAt c f).mono = .dec false) :
    (∀ cal ∈ g.calibrators, cal.feature = f → cal.mono = 1 ∨ cal.mono = -1) ∧
    ∀ b ∈ g.blocks, ∀ d, d < b.inputs.length → (b.inputs.getD d default).1 = f → b.monos.getD d 0 = 0 := by
  constructor
  · intro cal hcal hcf
    obtain ⟨rng, u, hmk⟩ := buildSpecWith_cals hb cal hcal
    rw [hcf] at hmk
    obtain ⟨hv, _⟩ := buildSpec_rtl hb hk hr
    by_cases hfl : f < c.features.length
    · rcases hm with hm | hm
      · exact Or.inl (mkCalibrator_meets hmk (verify_features hv hfl) (rq := .inc) (by rw [hm]; exact .inc _))
      · exact Or.inr (mkCalibrator_meets hmk (verify_features hv hfl) (rq := .dec) (by rw [hm]; exact .dec _))
    · have : featAt c f = default := by
        unfold featAt; rw [List.getD_eq_getElem?_getD, List.getElem?_eq_none (by omega)]; rfl
      rw [this] at hm; rcases hm with hm | hm <;> cases hm
  · exact buildSpecWith_rtl_unmarked hb hk hr hdraw (by rcases hm with hm | hm <;> simp [rtlIncreasingLiteral, hm])

/-- the feature of the F-C03-d witness under the three rules -/
example : rtlIncreasingLiteral { mono := .inc false } = false ∧ rtlIncreasing { mono := .inc false } = true ∧
    rtlIncreasingLiteral { mono := .dec false } = false ∧ rtlIncreasing { mono := .dec false } = true := by decide

/-- **F-C03-e (fixed by f70b866), counter-witness on the VARIANT of the type test before the fix**
(`isinstance(…, list)`): a TUPLE of pairs gave a calibrator without pairs; the current test
(`isinstance(…, (list, tuple))`) passes them on (`tuple_pairs_reach_calibrator`). -/
theorem F_C03_e_old_rule_counter_witness :
    calPairsWith pairsHonouredOld (.pairs [(0, 1), (1, 2)] .tuple) = [] ∧
    calPairs (.pairs [(0, 1), (1, 2)] .tuple) = [(0, 1), (1, 2)] ∧
    calPairs (.pairs [(0, 1), (1, 2)] .list) = [(0, 1), (1, 2)] := by decide

/-- **F-C03-f (fixed by e8dafc0), counter-witness on the VARIANT of `_verify_feature_config` before
the fix** (`np.iterable`): category pairs given as a `set` (or the keys of a `dict`) passed the
check, the calibrator builder dropped them (`calPairs … = []`) and the axis was marked monotone.
The current check rejects them. -/
theorem F_C03_f_old_rule_counter_witness :
    verifyFeatureOld { numBuckets := 3, mono := .pairs [(0, 1), (1, 2)] .other } = true ∧
    calPairs (.pairs [(0, 1), (1, 2)] .other) = [] ∧ axisMono (.pairs [(0, 1), (1, 2)] .other) = 1 ∧
    verifyFeature { numBuckets := 3, mono := .pairs [(0, 1), (1, 2)] .other } = false := by decide

/-- **F-C03-f, the fixed rule.** A config with a categorical feature whose (non-empty) pairs are
neither a `list` nor a `tuple` is rejected: no model is built from it. -/
theorem nonsequence_pairs_rejected {c : ModelConfig} {f : Nat} (hf : f < c.features.length)
    (hnb : (featAt c f).numBuckets ≠ 0) {ps : List (Nat × Nat)} (hps : ps ≠ [])
    (hm : (featAt c f).mono = .pairs ps .other) : ∀ g, buildSpec c ≠ .ok g := by
  intro g hb
  have hv := verify_features (buildSpecWith_verify hb) hf
  cases ps with
  | nil => exact hps rfl
  | cons _ _ => simp [verifyFeature, hnb, hm] at hv

/-- concrete calibrated lattice configs: a set → `ValueError`; a tuple, a list → the calibrator
carries the pair on an axis marked 1; `'Increasing'` → axis marked 1 -/
example : (buildSpec { kind := .lattice, features := [{ mono := .inc true }, { numBuckets := 2, mono := .pairs [(0, 1)] .other }] }).toOption = none ∧
  ((buildSpec { kind := .lattice, features := [{ mono := .inc true }, { numBuckets := 2, mono := .pairs [(0, 1)] .tuple }] }).toOption.map
    (fun g => (g.calibrators.map (·.pairs), g.blocks.map (·.monos)))) = some ([[], [(0, 1)]], [[1, 1]]) ∧
  ((buildSpec { kind := .lattice, features := [{ mono := .inc false }, { mono := .none }] }).toOption.map
    (fun g => g.blocks.map (·.monos))) = some [[1, 0]] := by
  refine ⟨?_, ?_, ?_⟩ <;> decide +kernel

/-- an RTL ensemble of two rank-1 lattices over a numeric feature and a categorical feature;
shared calibrators -/
def cfgRtl (m0 m1 : MonoSpec) : ModelConfig :=
  { kind := .ensemble, rtl := true, numLattices := 2, latticeRank := 1, separateCalibrators := false,
    outMin := some 0, outMax := some 1, perm1 := [0, 1], perm2 := [1, 0],
    features := [{ mono := m0, numKeypoints := 2 }, { numBuckets := 2, mono := m1 }] }

/-! ## non-vacuity -/

/-- the RTL example meets the hypotheses of the structural lemma: the shuffles are permutations -/
example : RtlDraws rtlIncreasing (cfgRtl (.inc false) (.pairs [(0, 1)] .tuple)) := by
  refine ⟨by decide +kernel, ?_, ?_⟩
  · rw [show (rtlFlat (cfgRtl (.inc false) (.pairs [(0, 1)] .tuple)) rtlIncreasing).length = 2 by decide +kernel]
    decide
  · show [1, 0].Perm (List.range 2)
    decide

example : ReqOf (featAt (cfgRtl (.inc false) (.pairs [(0, 1)] .tuple)) 1).mono (.pair 0 1) :=
  .pair _ _ 0 1 (by simp)

/-! ## non-vacuity: a concrete `System` built from the real constraint models -/

/-- calibrated lattice: numeric increasing feature (keypoints 0, 1), categorical feature with the
ordering pair (0, 1), lattice sizes [2, 2], output bounds [0, 1] -/
def cfgEx : ModelConfig :=
  { kind := .lattice, outMin := some 0, outMax := some 1,
    features := [{ mono := .inc true, numKeypoints := 2 }, { numBuckets := 2, mono := .pairs [(0, 1)] .list }] }
def cal0 : Calibrator :=
  { feature := 0, categorical := false, units := 1, mono := 1, pairs := [], numBuckets := 0, numKeypoints := 2,
    outMin := some 0, outMax := some 1, clampMin := false, clampMax := false, convexity := 0, missing := none,
    learned := false }
def cal1 : Calibrator :=
  { feature := 1, categorical := true, units := 1, mono := 0, pairs := [(0, 1)], numBuckets := 2, numKeypoints := 0,
    outMin := some 0, outMax := some 1, clampMin := false, clampMax := false, convexity := 0, missing := none,
    learned := false }
def blkEx : Block :=
  { kind := .lattice, inputs := [(0, 0), (1, 0)], sizes := [2, 2], monos := [1, 1], unimod := [0, 0],
    outMin := some 0, outMax := some 1 }
def gEx : LayerGraph :=
  { calibrators := [cal0, cal1], blocks := [blkEx], rtl := false, combine := .single, outCal := none }

theorem ok_of_toOption {α} {r : Except Err α} {g : α} (h : r.toOption = some g) : r = .ok g := by
  cases r with
  | error e => simp [Except.toOption] at h
  | ok a => simp only [Except.toOption, Option.some.injEq] at h; rw [h]

/-- `buildSpec` on the example config, evaluated by the kernel -/
theorem buildSpec_cfgEx : buildSpec cfgEx = .ok gEx := ok_of_toOption (by decide +kernel)

inductive ExVar where
  | pwl | cat | lat
/-- PWL kernel `(bias, heights)`, categorical kernel, lattice vertex values -/
def ExS : ExVar → Type
  | .pwl => ℚ × List ℚ
  | .cat => List ℚ
  | .lat => W

def latCfgEx : Lat.Cfg := { sizes := [2, 2], mono := [true, true], lo := some 0, hi := some 1 }
def pwlCfgEx : PwlEval.Cfg := ⟨[0, 1], false, false, false, none⟩

def exPwlFn (s : ℚ × List ℚ) : ℚ → ℚ :=
  pwlFn pwlCfgEx (s.1 :: s.2) [] (PwlProj.naiveBounds (some 0) (some 1) 0)

def exRealise (w : ∀ v, ExS v) : Fns :=
  { cal := fun f _ x => if f = 0 then exPwlFn (w .pwl) x else catFn (w .cat) none x,
    lat := fun _ z => latFn [2, 2] (w .lat) z,
    linW := [], linB := 0, combW := [], combB := 0, out := id }

/-- the real constraints: `PWLCalibrationConstraints` (8 iterations), `CategoricalCalibrationConstraints`,
`LatticeConstraints` (strict finalisation of whatever Dykstra returned, then the clip) -/
def exC : ∀ v, ExS v → ExS v → Prop
  | .pwl, s, s' => s.2.length = 1 ∧
      PwlProj.constraintsCall 1 0 (some 0) (some 1) false false [1] 8 s.1 s.2 = .ok s'
  | .cat, s, s' => s.length = 2 ∧ Categorical.project (some 0) (some 1) [(0, 1)] s = .ok s'
  | .lat, _, s' => ∃ wmid : W, s' = Lat.clipBounds (some 0) (some 1) (Lat.finalize latCfgEx wmid)

def exInv : ∀ v, ExS v → Prop
  | .pwl, s => CalOk cal0 (exPwlFn s)
  | .cat, s => CalOk cal1 (catFn s none)
  | .lat, s => LatOk blkEx (latFn [2, 2] s)

theorem exEstablishes : ∀ v s s', exC v s s' → exInv v s'
  | .pwl, s, s', ⟨hlen, h⟩ => by
    have hcfg := C04.wired_cfgOk 1 0 (Or.inr (Or.inl rfl)) (Or.inl rfl) (some 0) (some 1) false false
      (by intro a b ha hb; cases ha; cases hb; norm_num)
    have hl : s'.2.length = 1 := by
      unfold PwlProj.constraintsCall at h
      simp only at h
      split_ifs at h
      rw [← hlen]
      exact (PwlProj.projectAll_spec _ hcfg [1] (by intro l hl; simp at hl; subst hl; norm_num) 8 s.1 s.2 s' h).1
    have hwf : PwlEval.WF pwlCfgEx (s'.1 :: s'.2) [] :=
      ⟨(by simp [pwlCfgEx]), (by simp [pwlCfgEx, PwlEval.StrictIncr]), (by simp [pwlCfgEx, hl]),
        (fun h => by cases h), (fun h => by cases h), (fun h => by cases h)⟩
    exact pwl_constraint_delivers cal0 (Or.inr (Or.inl rfl)) (Or.inl rfl) rfl
      (by intro a b ha hb; cases ha; cases hb; norm_num) pwlCfgEx rfl rfl rfl [1]
      (by intro l hl; simp at hl; subst hl; norm_num) 8 s.1 s.2 0 s'.1 s'.2 h [] hwf
  | .cat, s, s', ⟨hlen, h⟩ => by
    have hne : s ≠ [] := by intro e; rw [e] at hlen; cases hlen
    exact categorical_constraint_delivers cal1 rfl rfl
      (by intro a b ha hb; cases ha; cases hb; norm_num) (by intro m hm; cases hm) s s' hlen hne [0, 1]
      (fun _ => by decide) (validOrder_sound (by decide))
      (by intro a ha; simp at ha; rw [hlen]; rcases ha with rfl | rfl <;> omega) h
  | .lat, _, s', ⟨wmid, h⟩ => by
    subst h
    exact lattice_constraint_delivers blkEx latCfgEx rfl
      (by intro d _; rcases d with _ | _ | d <;> simp [latCfgEx, blkEx] at *) rfl rfl
      ⟨(by intro tr h; simp [latCfgEx] at h), (by simp [latCfgEx]),
        (by intro l h e1 e2; cases e1; cases e2; norm_num)⟩ rfl (by simp [blkEx])
      (by intro n hn; simp [blkEx] at hn; omega) wmid

theorem exSound (w : ∀ v, ExS v) (h : ∀ v, exInv v (w v)) : FnsOk gEx (exRealise w) := by
  refine ⟨?_, ?_, ?_, ?_, ?_⟩
  · intro c hc u _
    simp only [gEx, List.mem_cons, List.not_mem_nil, or_false] at hc
    rcases hc with rfl | rfl
    · exact h .pwl
    · exact h .cat
  · intro i b hb _
    rcases i with _ | i
    · simp only [gEx, List.getElem?_cons_zero, Option.some.injEq] at hb
      subst hb; exact h .lat
    · simp [gEx] at hb
  · intro b hb hk
    simp only [gEx, List.mem_singleton] at hb
    subst hb; cases hk
  · intro n ub e; cases e
  · intro oc e; cases e

/-- **a `System` for the example graph**: variables, constraints = the models of the real
constraint objects, invariants = the per-layer properties, `establishes` = the per-layer theorems
above, `sound` = assembling them. Every initial state is allowed: `init_sound` is only demanded
when there are no categorical pairs, and this model has one (F-C03-b). -/
def exSystem : System gEx where
  V := ExVar
  S := ExS
  C := exC
  Inv := exInv
  establishes := exEstablishes
  realise := exRealise
  sound := exSound
  Init := fun _ => True
  init_sound := fun hno _ _ _ => by
    have := hno cal1 (by simp [gEx])
    cases this

/-- T2/T3 applied to the example: after ANY non-empty history of arbitrary updates each followed by
the real constraints, from ANY initial weights, the model is non-decreasing in feature 0 for all
pairs of points, ordered along the category pair (0, 1) of feature 1, and within [0, 1]. -/
example (w0 w : ∀ v, ExS v) (n : Nat) (hn : 0 < n) (hr : Reaches exC w0 n w) :
    MonoClause cfgEx gEx (exRealise w) 0 .inc ∧ MonoClause cfgEx gEx (exRealise w) 1 (.pair 0 1) ∧
    ∀ x, ValidInputs gEx x → inB (some 0) (some 1) (forward gEx (exRealise w) x) := by
  obtain ⟨h1, h2⟩ := C03_partial cfgEx gEx buildSpec_cfgEx exSystem w0 trivial n w hr (Or.inl hn)
    (by intro hk; cases hk)
  refine ⟨h1 0 .inc (by simp [cfgEx]) (.inc true),
    h1 1 (.pair 0 1) (by simp [cfgEx]) (.pair _ _ 0 1 (by simp)), ?_⟩
  apply h2
  exact ⟨(fun b hb hk _ => by simp only [gEx, List.mem_singleton] at hb; subst hb; cases hk),
    (fun ub e => by cases e)⟩

/-- the history hypothesis is satisfiable: one step of the real constraints from an infeasible
state (PWL kernel `(5, [-3])` — decreasing and out of bounds —, categorical kernel `[1, 0]` against
the pair (0, 1), any lattice kernel) is a `Reaches … 1 …` -/
example : ∃ w1 : ∀ v, ExS v, Reaches exC
    (fun v => match v with | .pwl => ((5, [-3]) : ℚ × List ℚ) | .cat => ([1, 0] : List ℚ) | .lat => (fun _ => (7 : ℚ)))
    1 w1 ∧ w1 .pwl = (1, [0]) ∧ w1 .cat = [1/2, 1/2] := by
  refine ⟨fun v => match v with
    | .pwl => ((1, [0]) : ℚ × List ℚ)
    | .cat => ([1/2, 1/2] : List ℚ)
    | .lat => Lat.clipBounds (some 0) (some 1) (Lat.finalize latCfgEx (fun _ => (7 : ℚ))), ?_, rfl, rfl⟩
  refine .step id _ (.init _) (fun v => ?_)
  cases v with
  | pwl => exact ⟨rfl, by decide +kernel⟩
  | cat => exact ⟨rfl, by decide +kernel⟩
  | lat => exact ⟨fun _ => 7, rfl⟩

end Tfl.C03
