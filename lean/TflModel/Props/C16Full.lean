import TflModel.Props.C16
/-!
# C16 (continued): the constructor arguments that are only stored; layer constructor → build →
constraints; synonyms of the remaining classes

Audit rows 5 and 29.

* Row 5 — `units`, `num_projection_iterations`, `split_outputs`, `normalization_order` and the
  constraint arguments of `Lattice.__init__` are ARGUMENTS of the `…Full` models of
  `Model/Verify.lean`, and the regenerated tables (`accept_*` in Props/C16.lean) range over them.
  Since the fixes of F-C16-af, -ag, -ah (4f3f7ef), -ai, -aj the constructors VERIFY them, and
  "accepted ⇒ the later uses are defined" is proved for each: `units_verified`,
  `iterations_verified`, `normOrder_verified`, `kflInteger_verified`, `emptyTuple_accepted` (the full
  statements `UnitsVerified`, … are kept as `def … : Prop`); `fixed_C16_*`: the old witnesses are
  rejected with a `ValueError` (resp. accepted, for the empty tuple).
* Row 29 — `latticeBuild_verify`: whatever `Lattice.__init__` followed by `build` accepts IS an
  accepted `verifyLattice` of the wrapped arguments, hence `LatOK` / `CfgWF`
  (`latticeBuild_ok`, `latticeBuild_cfgWF`); `kflBuild_ok`: the accepted KFL configuration itself
  (`c.size`, `c.units`, `c.terms`, the canonical monotonicities against the input dimension);
  synonyms for KFL, categorical pairs (tuple / list), the RTL regulariser spellings.
-/
namespace Tfl.C16
open Tfl Tfl.Verify

/-! ## the `…Full` constructors are the base constructors (the stored arguments do not take part) -/

/-- two `ValueError` guards in front of a computation -/
theorem guard2_ok {α} {a b : Bool} {x : Except Err α} {c : α}
    (h : (if a then ve else if b then ve else x) = .ok c) : a = false ∧ b = false ∧ x = .ok c := by
  cases a <;> cases b <;> simp [ve] at h ⊢
  exact h
theorem guard1_ok {α} {a : Bool} {x : Except Err α} {c : α}
    (h : (if a then ve else x) = .ok c) : a = false ∧ x = .ok c := by
  cases a <;> simp [ve] at h ⊢
  exact h

/-- `PWLCalibration.__init__`: accepted ⇒ `units` is a positive int, `num_projection_iterations` an int,
and the base configuration is accepted with the same result -/
theorem pwlCalibrationFull_ok (r : RawPwlFull) (c : PwlCfg) (h : pwlCalibrationFull r = .ok c) :
    posIntVal r.units = true ∧ r.iters.isInt = true ∧ pwlCalibration r.base = .ok c := by
  obtain ⟨h1, h2, h3⟩ := guard2_ok h
  exact ⟨by simpa using h1, by simpa using h2, h3⟩
theorem pwlConstraintsFull_ok (r : RawPwlCFull) (c : PwlCfg) (h : pwlConstraintsFull r = .ok c) :
    r.iters.isInt = true ∧ pwlConstraints r.base = .ok c := by
  obtain ⟨h1, h2⟩ := guard1_ok h
  exact ⟨by simpa using h1, h2⟩
theorem latticeConstraintsFull_ok (r : RawLatticeFull) (c : LatCfg) (h : latticeConstraintsFull r = .ok c) :
    r.iters.isInt = true ∧ latticeConstraints r.base = .ok c := by
  obtain ⟨h1, h2⟩ := guard1_ok h
  exact ⟨by simpa using h1, h2⟩
/-- `LinearConstraints.__init__` with `normalization_order`: accepted ⇔ the order is valid (fix
4f3f7ef) and the base configuration is accepted (same canonical result) -/
theorem linearConstraintsFull_ok (r : RawLinCFull) (c : LinCfg) (h : linearConstraintsFull r = .ok c) :
    normOrderValid r.norm = true ∧ linearConstraints r.base = .ok c := by
  unfold linearConstraintsFull at h
  by_cases hv : normOrderValid r.norm = true
  · simp only [hv, Bool.not_true, Bool.false_eq_true, if_false] at h
    exact ⟨hv, h⟩
  · have hf : normOrderValid r.norm = false := by simpa using hv
    simp [hf, ve] at h
theorem categoricalLayerFull_ok (r : RawCatFull) (c : CatCfg) (h : categoricalLayerFull r = .ok c) :
    posIntVal r.units = true ∧ categoricalLayer r.base = .ok c := by
  obtain ⟨h1, h2⟩ := guard1_ok h
  exact ⟨by simpa using h1, h2⟩

/-- `Linear.__init__` with `units` / `normalization_order`: an accepted configuration is an accepted
base configuration (same canonical result), its `normalization_order` is valid (fix 4f3f7ef) and its
`units` passed the `InputSpec` conversion -/
theorem linearLayerFull_ok (r : RawLinFull) (c : LinCfg) (h : linearLayerFull r = .ok c) :
    linearLayer r.base = .ok c ∧ normOrderValid r.norm = true ∧ posIntVal r.units = true := by
  obtain ⟨hu, h⟩ := guard1_ok h
  simp only [linearLayerCore, bind, Except.bind] at h
  split at h
  · cases h
  · rename_i c' hc
    split at h
    · cases h
    · split at h
      · cases h
      · simp only [pure, Except.pure, Except.ok.injEq] at h
        subst h
        have hbase : linearLayer r.base = .ok c' ∧ normOrderValid r.norm = true := by
          by_cases hg : (r.nid.isInt && !normOrderValid r.norm) = true
          · rw [if_pos hg] at hc; simp [ve] at hc
          · rw [if_neg hg] at hc
            refine ⟨hc, ?_⟩
            cases hn : r.nid with
            | a x =>
              cases x with
              | int k => simpa [hn, Val.isInt] using hg
              | _ => simp [linearLayer, RawLinFull.base, hn, oe] at hc
            | s t xs => simp [linearLayer, RawLinFull.base, hn, oe] at hc
        exact ⟨hbase.1, hbase.2, by simpa using hu⟩

/-! ## Row 29: `Lattice.__init__` → `build` → `LatticeConstraints` → `verify_hyperparameters` -/

theorem wrapSingle_idem (v : Val) : wrapSingle (wrapSingle v) = wrapSingle v := by
  cases v with
  | a x => rfl
  | s t xs =>
    cases t with
    | false => rfl
    | true =>
      cases xs with
      | nil => rfl
      | cons it rest =>
        cases it with
        | s t' ys => rfl
        | a x => cases x <;> rfl

theorem wrapJU_idem (j : JU) : wrapJU (wrapJU j) = wrapJU j := by
  cases j with
  | none => rfl
  | list xs => rfl
  | single dims dir => cases dir <;> rfl

theorem wrapSingleLayer_ok {v w : Val} (h : wrapSingleLayer v = .ok w) : w = wrapSingle v := by
  simp only [wrapSingleLayer, Except.ok.injEq] at h
  exact h.symm

/-- the arguments of the library verification that an accepted `Lattice` layer amounts to: every
constraint argument as the constructor stored it (single tuples wrapped) -/
def wrappedArgs (r : RawLatLayerFull) : RawLatFull :=
  { sizes := r.sizes, mono := r.mono, uni := r.uni, ew := wrapSingle r.ew, tp := wrapSingle r.tp,
    md := wrapSingle r.md, rd := wrapSingle r.rd, jm := wrapSingle r.jm, ju := wrapJU r.ju,
    omin := r.omin, omax := r.omax }

/-- what `Lattice.__init__` stores, and that the two verifications and the initializer construction
of the constructor model `latticeLayer` passed -/
theorem latticeLayerFull_stored (r : RawLatLayerFull) (s : RawLattice) (h : latticeLayerFull r = .ok s) :
    s = ⟨r.sizes, r.mono, r.uni, wrapSingle r.ew, wrapSingle r.tp, wrapSingle r.md, wrapSingle r.rd,
      wrapSingle r.jm, wrapJU r.ju, r.omin, r.omax⟩ ∧ latticeLayer r.base = .ok () ∧
    posIntVal r.units = true ∧ r.iters.isInt = true := by
  obtain ⟨hu, hi, h⟩ := guard2_ok h
  suffices hs : s = ⟨r.sizes, r.mono, r.uni, wrapSingle r.ew, wrapSingle r.tp, wrapSingle r.md, wrapSingle r.rd,
      wrapSingle r.jm, wrapJU r.ju, r.omin, r.omax⟩ ∧ latticeLayer r.base = .ok () from
    ⟨hs.1, hs.2, by simpa using hu, by simpa using hi⟩
  simp only [latticeLayerCore, bind, Except.bind] at h
  split at h
  · cases h
  · rename_i c1 h1
    split at h
    · cases h
    · rename_i ew hew
      split at h
      · cases h
      · rename_i tp htp
        split at h
        · cases h
        · rename_i md hmd
          split at h
          · cases h
          · rename_i rd hrd
            split at h
            · cases h
            · rename_i jm hjm
              split at h
              · cases h
              · rename_i c2 h2
                split at h
                · cases h
                · rename_i u hu
                  simp only [pure, Except.pure, Except.ok.injEq] at h
                  subst h
                  rw [wrapSingleLayer_ok hew, wrapSingleLayer_ok htp, wrapSingleLayer_ok hmd,
                    wrapSingleLayer_ok hrd, wrapSingleLayer_ok hjm]
                  refine ⟨rfl, ?_⟩
                  cases u
                  simp only [latticeLayer, bind, Except.bind, RawLatLayerFull.base, h1, h2]
                  exact hu

/-- **C16 (row 29): layer acceptance IS library acceptance of the wrapped arguments.** Whatever
`Lattice.__init__` followed by `Lattice.build` accepts — for ALL raw arguments — is accepted by
`lattice_lib.verify_hyperparameters` on the stored (wrapped) arguments, with the SAME canonical
configuration: the T1 theorems about `verifyLattice` (`verifyLattice_ok`, `verifyLattice_cfgWF`,
`verifyLattice_boxes`, `verifyLattice_sizes_ne_nil`) speak about every built layer. -/
theorem latticeBuild_verify (r : RawLatLayerFull) (c : LatCfg) (h : latticeBuild r = .ok c) :
    verifyLattice (wrappedArgs r) = .ok c ∧ latticeLayer r.base = .ok () := by
  simp only [latticeBuild, bind, Except.bind] at h
  split at h
  · cases h
  · rename_i s hs
    obtain ⟨e, hl, _, _⟩ := latticeLayerFull_stored r s hs
    subst e
    refine ⟨?_, hl⟩
    simpa only [latticeConstraints, wrapSingle_idem, wrapJU_idem, wrappedArgs] using h

/-- a built `Lattice` layer has every index in range, sizes ≥ 2, trusts on monotone main features
with `main ≠ cond`, dominances between increasing features and `output_min < output_max` -/
theorem latticeBuild_ok (r : RawLatLayerFull) (c : LatCfg) (h : latticeBuild r = .ok c) : LatOK c :=
  verifyLattice_ok _ c (latticeBuild_verify r c h).1

/-- a built `Lattice` layer meets the well-formedness hypothesis of the C01 theorems (same side
condition on duplicated Edgeworth pairs as `verifyLattice_cfgWF`) -/
theorem latticeBuild_cfgWF (r : RawLatLayerFull) (c : LatCfg) (h : latticeBuild r = .ok c)
    (hnd : (c.ew.map (fun t => (atomNat t.main, atomNat t.cond))).Nodup) : Tfl.C01.CfgWF c.toLat :=
  verifyLattice_cfgWF _ c (latticeBuild_verify r c h).1 hnd

/-- the layer's sizes are a non-empty list (hypothesis of the C02 / C03 theorems) -/
theorem latticeBuild_sizes_ne_nil (r : RawLatLayerFull) (c : LatCfg) (h : latticeBuild r = .ok c) :
    c.sizes ≠ [] ∧ c.toLat.sizes ≠ [] :=
  verifyLattice_sizes_ne_nil _ c (latticeBuild_verify r c h).1

/-- non-vacuity: a rank-3 layer with a single-tuple Edgeworth trust, a dominance list, a bare joint
unimodality on the free dimension, bounds and 2 units is built -/
example : outcome (latticeBuild
    { sizes := .s false [.a (.int 2), .a (.int 2), .a (.int 3)], mono := .s false [.a (.str .increasing), .a (.int 1), .a (.int 0)],
      uni := .a .none, ju := .single [2] (.str .valley), omin := .a (.flt 0), omax := .a (.flt 1),
      interp := .a (.str .simplex), init := .a (.str .linear_initializer), units := .a (.int 2), iters := .a (.int 10),
      ew := .s true [.a (.int 0), .a (.int 1), .a (.str .positive)], md := .s false [.s true [.int 0, .int 1]] }) = 0 := by
  decide +kernel

/-! ## Row 29: the accepted KFL configuration -/

theorem lessThan_int {v : Val} {k : Rat} (hv : v.isInt = true) (h : lessThan v k = .ok false) :
    k ≤ (v.toInt : Rat) := by
  cases v with
  | a x =>
    cases x with
    | int i => exact lessThan_false h i rfl
    | _ => simp [Val.isInt] at hv
  | s _ _ => simp [Val.isInt] at hv

/-- the canonical form of an accepted monotonicity when `decreasing` is not allowed: `None`, or a
number in {0, 1} -/
def MonoEntry01 (a : Atom) : Prop := a = .none ∨ a.num = some 0 ∨ a.num = some 1

theorem canonMonotonicity_nodecr {it : Item} {a : Atom} (h : canonMonotonicity false it = .ok a) :
    MonoEntry01 a := by
  have hve : ∀ b : Atom, (ve : Except Err Atom) ≠ .ok b := by intro b; simp [ve]
  cases it with
  | s t xs => exact absurd h (hve a)
  | a x =>
    cases x with
    | none =>
      simp only [canonMonotonicity, Except.ok.injEq] at h
      exact Or.inl h.symm
    | int i =>
      simp only [canonMonotonicity, Atom.num] at h
      by_cases h1 : ((i : Rat) = -1 ∨ (i : Rat) = 0 ∨ (i : Rat) = 1)
      · rw [if_pos h1] at h
        by_cases h2 : (!false && (i : Rat) == -1) = true
        · rw [if_pos h2] at h; exact absurd h (hve a)
        · rw [if_neg h2] at h
          simp only [Except.ok.injEq] at h
          subst h
          have hne : (i : Rat) ≠ -1 := by simpa using h2
          rcases h1 with e | e | e
          · exact absurd e hne
          · exact Or.inr (Or.inl (by simp [Atom.num, e]))
          · exact Or.inr (Or.inr (by simp [Atom.num, e]))
      · rw [if_neg h1] at h; exact absurd h (hve a)
    | flt q =>
      simp only [canonMonotonicity, Atom.num] at h
      by_cases h1 : (q = -1 ∨ q = 0 ∨ q = 1)
      · rw [if_pos h1] at h
        by_cases h2 : (!false && q == -1) = true
        · rw [if_pos h2] at h; exact absurd h (hve a)
        · rw [if_neg h2] at h
          simp only [Except.ok.injEq] at h
          subst h
          have hne : q ≠ -1 := by simpa using h2
          rcases h1 with e | e | e
          · exact absurd e hne
          · exact Or.inr (Or.inl (by simp [Atom.num, e]))
          · exact Or.inr (Or.inr (by simp [Atom.num, e]))
      · rw [if_neg h1] at h; exact absurd h (hve a)
    | str t e =>
      cases t <;> simp only [canonMonotonicity, Atom.num] at h <;>
        first
          | exact absurd h (hve a)
          | (simp only [Except.ok.injEq] at h; subst h; first | exact Or.inr (Or.inl rfl) | exact Or.inr (Or.inr rfl))
          | (simp [ve] at h)

/-- an accepted KFL constructor has integer `lattice_sizes`, `units`, `num_terms` (fix of F-C16-ai) -/
theorem kflLayerInt_ok (r : RawKfl) (c : KflCfg) (h : kflLayerInt r = .ok c) :
    r.size.isInt = true ∧ r.units.isInt = true ∧ r.terms.isInt = true ∧ kflLayer r = .ok c := by
  obtain ⟨h1, h2, h3⟩ := guard2_ok h
  simp only [Bool.or_eq_false_iff, Bool.not_eq_false'] at h2
  exact ⟨h2.1.1, h2.1.2, h2.2, h3⟩

/-- **C16-T1 (KFL, row 29)** the ACCEPTED configuration of `KroneckerFactoredLattice.__init__` +
`build(dims)`: `lattice_sizes`, `units`, `num_terms` are integers (fix of F-C16-ai; before it a float
passed the comparisons of the constructor), the configuration holds these very integers with
`size ≥ 2`, `units ≥ 1`, `num_terms ≥ 1`; `output_min < output_max`; the monotonicities are `None` or
one canonical entry in {None, 0, 1} per input dimension (no `decreasing`). -/
theorem kflBuild_ok (r : RawKflFull) (dims : Nat) (c : KflCfgM) (h : kflBuild r dims = .ok c) :
    r.size.isInt = true ∧ r.units.isInt = true ∧ r.terms.isInt = true ∧
    c.size = r.size.toInt ∧ c.units = r.units.toInt ∧ c.terms = r.terms.toInt ∧
    2 ≤ c.size ∧ 1 ≤ c.units ∧ 1 ≤ c.terms ∧
    (∀ l h', c.lo = some l → c.hi = some h' → l < h') ∧
    (∀ l, c.mono = some l → l.length = dims ∧ ∀ a ∈ l, MonoEntry01 a) := by
  simp only [kflBuild, bind, Except.bind] at h
  split at h
  · cases h
  · rename_i c0 hc0'
    obtain ⟨hs, hu, ht, hc0⟩ := kflLayerInt_ok r.base c0 hc0'
    simp only [RawKflFull.base] at hs hu ht
    split at h
    · cases h
    · rename_i mono hmono
      by_cases hlen : monoLenBad mono dims = true
      · rw [if_pos hlen] at h; simp [ve] at h
      · rw [if_neg hlen] at h
        simp only [pure, Except.pure, Except.ok.injEq] at h
        subst h
        have hk := kflLayer_ok r.base c0 hc0
        -- the configuration holds the raw integers
        have hcfg : c0.size = r.size.toInt ∧ c0.units = r.units.toInt ∧ c0.terms = r.terms.toInt := by
          simp only [kflLayer, bind, Except.bind, RawKflFull.base] at hc0
          split at hc0
          · cases hc0
          · split at hc0
            · cases hc0
            · split at hc0
              · cases hc0
              · split at hc0
                · cases hc0
                · split at hc0
                  · cases hc0
                  · split at hc0
                    · cases hc0
                    · split at hc0
                      · cases hc0
                      · split at hc0
                        · cases hc0
                        · split at hc0
                          · cases hc0
                          · simp only [pure, Except.pure, Except.ok.injEq] at hc0
                            subst hc0
                            refine ⟨?_, ?_, ?_⟩
                            · cases hv : r.size with
                              | a x => cases x <;> simp [Val.isInt, hv] at hs <;> simp [Val.toInt]
                              | s _ _ => simp [Val.isInt, hv] at hs
                            · cases hv : r.units with
                              | a x => cases x <;> simp [Val.isInt, hv] at hu <;> simp [Val.toInt]
                              | s _ _ => simp [Val.isInt, hv] at hu
                            · cases hv : r.terms with
                              | a x => cases x <;> simp [Val.isInt, hv] at ht <;> simp [Val.toInt]
                              | s _ _ => simp [Val.isInt, hv] at ht
        obtain ⟨e1, e2, e3⟩ := hcfg
        obtain ⟨k1, k2, k3, k4⟩ := hk
        have g1 : (2 : Int) ≤ r.size.toInt := by
          cases hv : r.size with
          | a x =>
            cases x with
            | int i => exact k1 i (by simp [RawKflFull.base, hv])
            | _ => simp [Val.isInt, hv] at hs
          | s _ _ => simp [Val.isInt, hv] at hs
        have g2 : (1 : Int) ≤ r.units.toInt := by
          cases hv : r.units with
          | a x =>
            cases x with
            | int i => exact k2 i (by simp [RawKflFull.base, hv])
            | _ => simp [Val.isInt, hv] at hu
          | s _ _ => simp [Val.isInt, hv] at hu
        have g3 : (1 : Int) ≤ r.terms.toInt := by
          cases hv : r.terms with
          | a x =>
            cases x with
            | int i => exact k3 i (by simp [RawKflFull.base, hv])
            | _ => simp [Val.isInt, hv] at ht
          | s _ _ => simp [Val.isInt, hv] at ht
        refine ⟨hs, hu, ht, e1, e2, e3, by simpa [e1] using g1, by simpa [e2] using g2, by simpa [e3] using g3, k4, ?_⟩
        intro l hl
        simp only at hl
        subst hl
        -- the canonical list: non-empty (a falsy argument canonicalises to `None`), hence of length `dims`
        unfold canonMonotonicities at hmono
        split at hmono
        · cases hmono
        · rename_i htruthy
          simp only [bind, Except.bind] at hmono
          split at hmono
          · cases hmono
          · rename_i xs hxs
            split at hmono
            · cases hmono
            · rename_i ys hys
              simp only [pure, Except.pure, Except.ok.injEq, Option.some.injEq] at hmono
              subst hmono
              have hne : ys ≠ [] := by
                have hl := mapE_length hys
                intro e
                subst e
                cases hv : r.mono with
                | a x => cases x <;> simp [hv, Val.iter, te, oe] at hxs
                | s t zs =>
                  simp only [hv, Val.iter, Except.ok.injEq] at hxs
                  subst hxs
                  cases zs with
                  | nil => simp [hv, Val.truthy] at htruthy
                  | cons z zs' => simp at hl
              refine ⟨?_, ?_⟩
              · have : ¬ (!ys.isEmpty && ys.length != dims) = true := hlen
                simp only [Bool.and_eq_true, Bool.not_eq_true', bne_iff_ne, ne_eq, not_and, Decidable.not_not] at this
                exact this (by simpa using hne)
              · intro a ha
                obtain ⟨it, _, hit⟩ := mapE_mem hys ha
                exact canonMonotonicity_nodecr hit

/-- non-vacuity of `kflBuild_ok`: string and integer spellings, 2 units, bounds -/
example : outcome (kflBuild ⟨.a (.int 3), .a (.int 2), .a (.int 2), .a (.flt 0), .a (.flt 1),
    .s false [.a (.str .increasing), .a (.int 0), .a (.int 1)]⟩ 3) = 0 := by decide +kernel

/-! ## Row 29: synonyms of the remaining classes -/

/-- **C16-T2 (KFL)** `'increasing'` / `1`, `'none'` / `0` configure the same layer (and
`'decreasing'` / `-1` are rejected alike) -/
theorem kflBuild_syn (r : RawKflFull) (dims : Nat) :
    kflBuild { r with mono := r.mono.mapItems synMono } dims = kflBuild r dims := by
  simp only [kflBuild, RawKflFull.base, canonMonotonicities_syn]

theorem catPair_jsonify (nb : Option Int) (it : Item) : catPair nb it.jsonify = catPair nb it := by
  cases it with
  | a x => rfl
  | s t xs =>
    match xs with
    | [] => rfl
    | [_] => rfl
    | [_, _] => rfl
    | _ :: _ :: _ :: _ => rfl

theorem isPairItem_jsonify (it : Item) : isPairItem it.jsonify = isPairItem it := by
  cases it with
  | a x => rfl
  | s t xs =>
    match xs with
    | [] => rfl
    | [_] => rfl
    | [_, _] => rfl
    | _ :: _ :: _ :: _ => rfl

/-- **C16-T2 (categorical)** monotonicity pairs given as tuples `[(0, 1), …]` or as lists
`[[0, 1], …]` are validated to the SAME configuration (the pair list itself must be a list) -/
theorem verifyCategorical_syn (nb omin omax : Val) (xs : List Item) :
    verifyCategorical nb omin omax (.s false (xs.map Item.jsonify)) = verifyCategorical nb omin omax (.s false xs) := by
  have h : catPairs (nbOf nb) (.s false (xs.map Item.jsonify)) = catPairs (nbOf nb) (.s false xs) := by
    simp only [catPairs, Val.truthy, List.isEmpty_map, List.all_map]
    have e1 : (fun it => isPairItem it.jsonify) = isPairItem := funext isPairItem_jsonify
    have e2 : mapE (catPair (nbOf nb)) (xs.map Item.jsonify) = mapE (catPair (nbOf nb)) xs := by
      rw [mapE_map]
      exact mapE_congr xs (fun it _ => catPair_jsonify _ it)
    simp only [Function.comp_def, e1, e2]
    try rfl
  simp only [verifyCategorical, h]

/-- **C16-T2 (RTL)** the three spellings of ONE custom regulariser — the flat list
`['torsion', l1, l2]`, a list holding it as a tuple and a list holding it as a list — are validated
alike, whatever the other arguments -/
theorem rtlLayer_syn (r : RawRtl) (t : Tok) (e tup : Bool) (l1 l2 : Atom) :
    rtlLayer { r with reg := .s false [.s tup [.str t e, l1, l2]] } =
      rtlLayer { r with reg := .s false [.a (.str t e), .a l1, .a l2] } := by
  simp only [rtlLayer, Val.truthy, Val.isNone, List.isEmpty_cons, Bool.not_false, mapE, Item.iter,
    List.filterMap_cons, List.filterMap_nil, bind, Except.bind, pure, Except.pure]
  cases h : rtlRegOne [Atom.str t e, l1, l2] <;> rfl

/-! ## Row 5: the stored arguments ARE verified (fixes of F-C16-af, -ag, -ah, -ai, -aj) -/

theorem outcome_zero {α} {r : Except Err α} (h : outcome r = 0) : ∃ c, r = .ok c := by
  cases r with
  | ok c => exact ⟨c, rfl⟩
  | error e => cases e <;> simp [outcome] at h

/-- FULL STATEMENT: an accepted layer has a positive integer number of units -/
def UnitsVerified : Prop :=
  (∀ r c, pwlCalibrationFull r = .ok c → posIntVal r.units = true) ∧
  (∀ r s, latticeLayerFull r = .ok s → posIntVal r.units = true) ∧
  (∀ r c, categoricalLayerFull r = .ok c → posIntVal r.units = true) ∧
  (∀ r c, linearLayerFull r = .ok c → posIntVal r.units = true)

/-- **C16-T1 (units, fix of F-C16-af)** for EVERY configuration accepted by the constructors of
PWLCalibration, Lattice, CategoricalCalibration and Linear, `units` is a Python int ≥ 1 — what the
kernel shapes, the input-shape checks and `tf.split` need. -/
theorem units_verified : UnitsVerified :=
  ⟨fun r c h => (pwlCalibrationFull_ok r c h).1,
   fun r s h => (latticeLayerFull_stored r s h).2.2.1,
   fun r c h => (categoricalLayerFull_ok r c h).1,
   fun r c h => (linearLayerFull_ok r c h).2.2⟩

def pwlBase : RawPwlFull :=
  ⟨.s false [.a (.flt 0), .a (.flt 1), .a (.flt 2)], .a .none, .a .none, .a (.int 0), .a (.str .none_), .a (.int 0),
    .a (.int 0), .a .none, .a .none, .a (.str .fixed), .a (.int 0), .a (.int 0), .a (.str .other), .a (.int 1),
    .a (.int 8), .a (.int 0)⟩
def latBase : RawLatLayerFull :=
  { sizes := .s false [.a (.int 2), .a (.int 2)], mono := .s false [.a (.int 1), .a (.int 1)], uni := .a .none, ju := .none,
    omin := .a .none, omax := .a .none, interp := .a (.str .hypercube), init := .a (.str .other), units := .a (.int 1),
    iters := .a (.int 10) }
def catBase : RawCatFull := ⟨.a (.int 3), .a .none, .a .none, .a .none, .a (.int 1), .a (.int 0)⟩
def linBase : RawLinFull := ⟨.a (.int 2), .s false [.a (.int 1), .a (.int 0)], .a .none, .a .none, .a (.int 1), .val (.a .none)⟩

/-- **F-C16-af, fixed**: `units=0`, `2.0`, `None`, `-1` (formerly accepted by the constructors of
PWLCalibration, Lattice, CategoricalCalibration; a `TypeError` of `Linear.__init__` for the float; late
`InvalidArgumentError` / `TypeError` / `AssertionError` at build) are a `ValueError` at construction;
`units=1`, `2` are accepted. -/
theorem fixed_C16_af_units_verified :
    outcome (pwlCalibrationFull { pwlBase with units := .a (.int 0) }) = 1 ∧
    outcome (pwlCalibrationFull { pwlBase with units := .a (.flt 2) }) = 1 ∧
    outcome (pwlCalibrationFull { pwlBase with units := .a .none }) = 1 ∧
    outcome (latticeLayerFull { latBase with units := .a (.int 0) }) = 1 ∧
    outcome (latticeLayerFull { latBase with units := .a (.flt 2) }) = 1 ∧
    outcome (categoricalLayerFull { catBase with units := .a (.int 0) }) = 1 ∧
    outcome (categoricalLayerFull { catBase with units := .a (.flt 2) }) = 1 ∧
    outcome (linearLayerFull { linBase with units := .a (.int 0) }) = 1 ∧
    outcome (linearLayerFull { linBase with units := .a .none }) = 1 ∧
    outcome (linearLayerFull { linBase with units := .a (.flt 2) }) = 1 ∧
    outcome (linearLayerFull { linBase with units := .a (.int (-1)) }) = 1 ∧
    outcome (pwlCalibrationFull pwlBase) = 0 ∧ outcome (latticeLayerFull latBase) = 0 ∧
    outcome (categoricalLayerFull catBase) = 0 ∧ outcome (linearLayerFull linBase) = 0 ∧
    outcome (linearLayerFull { linBase with units := .a (.int 2) }) = 0 := by decide +kernel

/-- FULL STATEMENT: an accepted `num_projection_iterations` is a Python int (what `range(…)` / the
loop counter of the projections need) -/
def IterationsVerified : Prop :=
  (∀ r c, pwlCalibrationFull r = .ok c → r.iters.isInt = true) ∧
  (∀ r c, pwlConstraintsFull r = .ok c → r.iters.isInt = true) ∧
  (∀ r s, latticeLayerFull r = .ok s → r.iters.isInt = true) ∧
  (∀ r c, latticeConstraintsFull r = .ok c → r.iters.isInt = true)

/-- **C16-T1 (num_projection_iterations, fix of F-C16-ag)** -/
theorem iterations_verified : IterationsVerified :=
  ⟨fun r c h => (pwlCalibrationFull_ok r c h).2.1,
   fun r c h => (pwlConstraintsFull_ok r c h).1,
   fun r s h => (latticeLayerFull_stored r s h).2.2.2,
   fun r c h => (latticeConstraintsFull_ok r c h).1⟩

/-- **F-C16-ag, fixed**: `num_projection_iterations=2.5` / `None` (formerly accepted by the four
constructors that take it; the first projection raised `TypeError`) are a `ValueError` at
construction; ints (negative ones and 0 included: no iteration) are accepted -/
theorem fixed_C16_ag_iterations_verified :
    outcome (pwlCalibrationFull { pwlBase with iters := .a (.flt (5/2)) }) = 1 ∧
    outcome (pwlCalibrationFull { pwlBase with iters := .a .none }) = 1 ∧
    outcome (pwlConstraintsFull ⟨.a (.int 1), .a (.int 0), .a .none, .a .none, .a .none, .a (.flt (5/2))⟩) = 1 ∧
    outcome (latticeLayerFull { latBase with iters := .a (.flt (5/2)) }) = 1 ∧
    outcome (latticeConstraintsFull ⟨.s false [.a (.int 2), .a (.int 2)], .a .none, .a .none, .a .none, .a .none, .a .none,
      .a .none, .a .none, .none, .a .none, .a .none, .a .none⟩) = 1 ∧
    outcome (pwlCalibrationFull { pwlBase with iters := .a (.int (-1)) }) = 0 ∧
    outcome (latticeLayerFull { latBase with iters := .a (.int 0) }) = 0 := by decide +kernel

/-- the values of `normalization_order` for which the first projection is defined: falsy (no
normalisation), `np.inf`, `'euclidean'`, or a positive number -/
def normOrderOK : NormOrd → Bool
  | .inf => true
  | .euclidean => true
  | .negInf => false
  | .fro => false
  | .val v => !v.truthy || (match v with
      | .a x => (match x.num with | some r => decide (0 < r) | Option.none => false)
      | .s _ _ => false)

/-- `normLate` (the guard of `tf.norm` behind `if normalization_order:`) succeeds exactly on
`normOrderOK` -/
theorem normLate_ok_iff (n : NormOrd) : normLate n = .ok () ↔ normOrderOK n = true := by
  cases n with
  | inf => simp [normLate, normOrderOK]
  | euclidean => simp [normLate, normOrderOK]
  | negInf => simp [normLate, normOrderOK, ve]
  | fro => simp [normLate, normOrderOK, ve]
  | val v =>
    simp only [normLate, normOrderOK]
    cases hv : v.truthy
    · simp
    · cases v with
      | a x =>
        cases hx : x.num with
        | none => simp [hx, ve]
        | some r => by_cases hr : r > 0 <;> simp [hx, hr, ve]
      | s t xs => simp [te]

/-- what the constructors accept since fix 4f3f7ef is defined at the first projection (the check is
stricter: an empty list or an empty string are rejected although `if normalization_order:` would
skip them) -/
theorem normOrderValid_late (n : NormOrd) (h : normOrderValid n = true) : normLate n = .ok () := by
  rw [normLate_ok_iff]
  cases n with
  | inf => rfl
  | euclidean => rfl
  | negInf => simp [normOrderValid] at h
  | fro => simp [normOrderValid] at h
  | val v =>
    cases v with
    | s t xs => simp [normOrderValid] at h
    | a x =>
      cases x with
      | str t e => simp [normOrderValid] at h
      | none => simp [normOrderOK, Val.truthy, Atom.truthy]
      | int i =>
        simp only [normOrderValid, Atom.num, Bool.or_eq_true, Bool.not_eq_true', decide_eq_true_eq] at h
        simp only [normOrderOK, Val.truthy, Atom.num, Bool.or_eq_true, Bool.not_eq_true', decide_eq_true_eq]
        exact h
      | flt q =>
        simp only [normOrderValid, Atom.num, Bool.or_eq_true, Bool.not_eq_true', decide_eq_true_eq] at h
        simp only [normOrderOK, Val.truthy, Atom.num, Bool.or_eq_true, Bool.not_eq_true', decide_eq_true_eq]
        exact h

/-- FULL STATEMENT: the first projection of an accepted `Linear` / `LinearConstraints` can compute
its norm -/
def NormOrderVerified : Prop :=
  (∀ r c, linearConstraintsFull r = .ok c → normLate r.norm = .ok ()) ∧
  (∀ r c, linearLayerFull r = .ok c → normLate r.norm = .ok ())

/-- **C16-T1 (normalization_order, fix 4f3f7ef)** — formerly finding F-C16-ah: for EVERY accepted
`LinearConstraints` / `Linear` configuration the guard of `tf.norm` in the first projection passes. -/
theorem normOrder_verified : NormOrderVerified :=
  ⟨fun r c h => normOrderValid_late _ (linearConstraintsFull_ok r c h).1,
   fun r c h => normOrderValid_late _ (linearLayerFull_ok r c h).2.1⟩

/-- **F-C16-ah, fixed by 4f3f7ef**: `normalization_order=-1`, `-inf`, `'fro'`, another string and a list
(formerly accepted; the FIRST PROJECTION raised `ValueError` from `tf.norm`, `TypeError` for the list) are
a `ValueError` of `LinearConstraints.__init__` and `Linear.__init__`; `None`, `0`, `1`, `2`, `1.5`,
`np.inf`, `'euclidean'` are accepted and `normLate` is defined on them -/
theorem fixed_C16_ah_normalization_order_verified :
    let lc (n : NormOrd) : Nat × Nat :=
      (outcome (linearConstraintsFull ⟨.s false [.a (.int 1), .a (.int 0)], .a .none, .a .none, .a .none, .a .none, n⟩),
       outcome (normLate n))
    lc (.val (.a (.int (-1)))) = (1, 1) ∧ lc .negInf = (1, 1) ∧ lc .fro = (1, 1) ∧ lc (.val (.a (.str .other))) = (1, 1) ∧
    lc (.val (.s false [.a (.int 1)])) = (1, 2) ∧
    lc (.val (.a .none)) = (0, 0) ∧ lc (.val (.a (.int 0))) = (0, 0) ∧ lc (.val (.a (.int 2))) = (0, 0) ∧
    lc (.val (.a (.flt (3/2)))) = (0, 0) ∧ lc .inf = (0, 0) ∧ lc .euclidean = (0, 0) ∧
    outcome (linearLayerFull { linBase with norm := .val (.a (.int (-1))) }) = 1 ∧
    outcome (linearLayerFull { linBase with norm := .inf }) = 0 := by decide +kernel

/-- FULL STATEMENT: an accepted KFL has integer `lattice_sizes`, `units`, `num_terms` (they are
dimensions of the kernel) -/
def KflIntegerVerified : Prop :=
  ∀ r c, kflLayerInt r = .ok c → r.size.isInt = true ∧ r.units.isInt = true ∧ r.terms.isInt = true

/-- **C16-T1 (KFL integers, fix of F-C16-ai)** -/
theorem kflInteger_verified : KflIntegerVerified := fun r c h =>
  ⟨(kflLayerInt_ok r c h).1, (kflLayerInt_ok r c h).2.1, (kflLayerInt_ok r c h).2.2.1⟩

/-- **F-C16-ai, fixed**: `KroneckerFactoredLattice(lattice_sizes=2.0)`, `units=2.0`, `num_terms=2.0` and
`None` (formerly accepted: `2.0 < 2` is false, `None` skipped the check; the first call raised
`TypeError`) are a `ValueError` at construction -/
theorem fixed_C16_ai_kfl_integers_verified :
    let k (s u t : Atom) : Nat := outcome (kflLayerInt ⟨.a s, .a u, .a t, .a .none, .a .none⟩)
    k (.flt 2) (.int 1) (.int 2) = 1 ∧ k (.int 2) (.flt 2) (.int 2) = 1 ∧ k (.int 2) (.int 1) (.flt 2) = 1 ∧
    k .none (.int 1) (.int 2) = 1 ∧ k (.int 2) .none (.int 2) = 1 ∧ k (.int 2) (.int 1) .none = 1 ∧
    k (.flt (3/2)) (.int 1) (.int 2) = 1 ∧ k (.int 2) (.int 1) (.flt (1/2)) = 1 ∧ k (.int 2) (.int 1) (.int 2) = 0 ∧
    k (.int 1) (.int 1) (.int 2) = 1 := by
  decide +kernel

/-- apart from the two new guards, the constructor with all its arguments accepts exactly what the
constructor model without them accepts — also for EMPTY tuples of constraints (fix of F-C16-aj) -/
theorem latticeLayerFull_iff (r : RawLatLayerFull) (hu : posIntVal r.units = true) (hi : r.iters.isInt = true) :
    outcome (latticeLayerFull r) = outcome (latticeLayer r.base) := by
  simp only [latticeLayerFull, hu, hi, Bool.not_true, Bool.false_eq_true, if_false, latticeLayerCore, latticeLayer,
    RawLatLayerFull.base, bind, Except.bind, wrapSingleLayer]
  cases verifyLattice { sizes := r.sizes, mono := r.mono, uni := r.uni, interp := r.interp } with
  | error e => cases e <;> rfl
  | ok _ =>
    simp only
    cases verifyLattice { sizes := r.sizes, mono := r.mono, ju := wrapJU r.ju } with
    | error e => cases e <;> rfl
    | ok _ =>
      simp only
      cases createKernelInitializer ⟨r.sizes, r.mono, r.uni, r.ju, r.omin, r.omax, r.interp, r.init⟩ (wrapJU r.ju) with
      | error e => cases e <;> rfl
      | ok _ => rfl

/-- FULL STATEMENT: `Lattice.__init__` treats an empty tuple of constraints like
`LatticeConstraints.__init__` does (no constraint) -/
def EmptyTupleAccepted : Prop :=
  ∀ r : RawLatLayerFull, posIntVal r.units = true → r.iters.isInt = true → latticeLayer r.base = .ok () →
    outcome (latticeLayerFull r) = 0

/-- **C16 (empty tuples, fix of F-C16-aj)** -/
theorem emptyTuple_accepted : EmptyTupleAccepted := by
  intro r hu hi hb
  rw [latticeLayerFull_iff r hu hi, hb]
  rfl

/-- **F-C16-aj, fixed**: `Lattice(edgeworth_trusts=())` (likewise the other four constraint arguments;
formerly an `IndexError` of the constructor: `x[0]` of the empty tuple) is accepted like
`LatticeConstraints(edgeworth_trusts=())` and `Lattice(edgeworth_trusts=[])` -/
theorem fixed_C16_aj_empty_tuple_constraint :
    outcome (latticeLayerFull { latBase with ew := .s true [] }) = 0 ∧
    outcome (latticeLayerFull { latBase with tp := .s true [] }) = 0 ∧
    outcome (latticeLayerFull { latBase with md := .s true [] }) = 0 ∧
    outcome (latticeLayerFull { latBase with rd := .s true [] }) = 0 ∧
    outcome (latticeLayerFull { latBase with jm := .s true [] }) = 0 ∧
    outcome (latticeBuild { latBase with ew := .s true [] }) = 0 ∧
    outcome (latticeLayerFull { latBase with ew := .s false [] }) = 0 ∧
    outcome (latticeConstraints ⟨.s false [.a (.int 2), .a (.int 2)], .s false [.a (.int 1), .a (.int 1)], .a .none,
      .s true [], .a .none, .a .none, .a .none, .a .none, .none, .a .none, .a .none⟩) = 0 := by decide +kernel

/-- **C16-T1 (lattice, fix 18dd711)** every dominance and joint-monotonicity pair of an accepted
configuration names two DIFFERENT dimensions: `(d, d)` is a `ValueError` at construction (it was
accepted, and the projection raised `ValueError` / `IndexError` or silently constrained `(d, d+1)`). -/
theorem verifyLattice_pairs_distinct (r : RawLatFull) (c : LatCfg) (h : verifyLattice r = .ok c) :
    ∀ p ∈ c.md ++ c.rd ++ c.jm, p.1 ≠ p.2 := by
  simp only [verifyLattice, bind, Except.bind] at h
  split at h
  · cases h
  · split at h
    · cases h
    · split at h
      · cases h
      · split at h
        · cases h
        · rename_i md hmd
          split at h
          · cases h
          · rename_i rd hrd
            split at h
            · cases h
            · rename_i jm hjm
              split at h
              · cases h
              · split at h
                · cases h
                · split at h
                  · cases h
                  · split at h
                    · cases h
                    · split at h
                      · cases h
                      · split at h
                        · cases h
                        · simp only [pure, Except.pure, Except.ok.injEq] at h
                          subst h
                          intro p hp
                          simp only [List.mem_append] at hp
                          rcases hp with (e | e) | e
                          · exact verifyDominances_distinct hmd p e
                          · exact verifyDominances_distinct hrd p e
                          · exact verifyDominances_distinct hjm p e

/-- **fixed by 18dd711** (a dominance / joint monotonicity naming one dimension twice): `monotonic_dominances=[(0, 0)]`, `range_dominances=[(1, 1)]`,
`joint_monotonicities=[(0, 0)]`, a self pair after a valid pair: `ValueError` for `LatticeConstraints`
and for `Lattice` + build; distinct pairs are accepted -/
theorem fixed_dominance_same_dimension_rejected :
    let con (md rd jm : Val) : Nat := outcome (latticeConstraints ⟨.s false [.a (.int 2), .a (.int 2)],
      .s false [.a (.int 1), .a (.int 1)], .a .none, .a .none, .a .none, md, rd, jm, .none, .a .none, .a .none⟩)
    let pr (i j : Int) : Item := .s true [.int i, .int j]
    con (.s false [pr 0 0]) (.a .none) (.a .none) = 1 ∧ con (.a .none) (.s false [pr 1 1]) (.a .none) = 1 ∧
    con (.a .none) (.a .none) (.s false [pr 0 0]) = 1 ∧ con (.s false [pr 0 1, pr 1 1]) (.a .none) (.a .none) = 1 ∧
    con (.s true [.a (.int 0), .a (.int 0)]) (.a .none) (.a .none) = 1 ∧
    con (.s false [pr 0 1]) (.a .none) (.s false [pr 1 0]) = 0 ∧
    outcome (latticeBuild { latBase with md := .s false [pr 0 0] }) = 1 ∧
    outcome (latticeBuild { latBase with md := .s false [pr 0 1] }) = 0 := by decide +kernel

end Tfl.C16
