import TflModel.Props.C08
import TflModel.Lemmas.DykstraConvSharedBox
/-!
# C08 — convergence ALSO when constraints are listed twice (shared `last_change` slots)

`Props/C08.lean` proves the convergence clause for the executable model under `CfgWF` = `CfgShape` +
"no `last_change` dict key repeats": then every group visit has its own roll-back tensor and the loop
is Boyle–Dykstra's. `verify_hyperparameters` does NOT reject a constraint tuple that is listed twice
(`joint_monotonicities=[(0, 1), (0, 1)]`, …): the two copies have the same dict keys, every group of
the constraint is visited twice per pass and both visits use ONE roll-back tensor
(`Model/Dykstra.lean`: `slots`, `dykstraPassS`; `dup_slots_differ`).

This file removes the hypothesis: `Lemmas/DykstraConvShared.lean` proves the convergence theorem for
the loop with one correction per SET and an arbitrary fixed visiting order with repetitions (the
variant of Hundal–Deutsch 1997; the Lyapunov argument of Boyle–Dykstra goes through visit by visit
with the ghost state indexed by slot), `Lemmas/DykstraConvSharedBox.lean` transports it to ℚ-valued
kernels on the box, and here it is instantiated on the model:

* `dykstra_cfg_converges_slots` — function-level slotted loop, every `CfgShape` configuration;
* `projectByDykstraT_cfg_converges_shape` — the EXECUTABLE `project_by_dykstra` model: for every
  configuration of the right shape (no range dominance; repeated constraints allowed) and every kernel
  the iterates converge, vertex by vertex and uniformly, to the Euclidean-nearest feasible kernel.
  `projectByDykstraT_cfg_converges` (hypothesis `CfgWF`) is the special case without repeated keys.
-/
namespace Tfl.C08
open Tfl Tfl.Lat Tfl.DykConv Filter Topology

/-! ### the convergence keys of the dict keys -/

/-- the convergence key (`GKey`: with the stencil of a joint-unimodality group) of a dict key -/
def gk (c : DCfg) : SlotKey → GKey
  | .mono d g => .pair d g
  | .edge tr g0 g1 => .edge tr g0 g1
  | .trap tr g => .trap tr g
  | .mdom p g0 g1 g2 => .mdom p g0 g1 g2
  | .rdom _ _ _ => .pair 0 0
  | .jmono p g0 g1 g2 => .jmono p g0 g1 g2
  | .juni ju vertex offs => .juni ju ((juStencil (ju.dims.map (sz c)) vertex offs).getD [])

/-- without range dominance the key list of the convergence theorems is the image of the dict keys:
equal dict keys ⇒ equal convergence keys (same map, same constraint set) -/
theorem keys_eq_groupKeys (c : DCfg) (hrd : c.rangeDom = []) : keys c = (groupKeys c).map (gk c) := by
  simp only [keys, keysPair, keysEdge, keysTrap, keysMdom, keysJmono, keysJuni, groupKeys, hrd,
    List.flatMap_nil, List.append_nil, List.map_append, List.map_flatMap]
  congr 1
  · congr 1
    · congr 1
      · congr 1
        · congr 1
          · refine List.flatMap_congr (fun d _ => ?_)
            split_ifs <;> simp [gk, parities, Function.comp_def]
          · refine List.flatMap_congr (fun tr _ => ?_)
            simp [gk, quads, Function.comp_def]
        · refine List.flatMap_congr (fun tr _ => ?_)
          simp [gk, parities, Function.comp_def]
      · refine List.flatMap_congr (fun p _ => ?_)
        simp [gk, tris, Function.comp_def]
    · refine List.flatMap_congr (fun p _ => ?_)
      simp [gk, tris, Function.comp_def]
  · refine List.flatMap_congr (fun ju _ => List.flatMap_congr (fun vertex _ => ?_))
    rw [List.map_filterMap]
    refine List.filterMap_congr (fun offs _ => ?_)
    cases hs : juStencil (ju.dims.map (sz c)) vertex offs with
    | none => rfl
    | some st => simp [gk, hs]

/-- the image of a list read at the slot of a position is the image read at the position -/
theorem getD_firstIdx {α β : Type} [DecidableEq α] (l : List α) (f : α → β) (d : β) (i : Nat)
    (hi : i < l.length) : (l.map f).getD ((firstIdx l).getD i 0) d = (l.map f).getD i d := by
  have hlen : i < (firstIdx l).length := by rw [firstIdx_length]; exact hi
  have hs : (firstIdx l).getD i 0 = l.idxOf l[i] := by
    rw [List.getD_eq_getElem _ _ hlen]; simp [firstIdx]
  have hlt : l.idxOf l[i] < l.length := List.idxOf_lt_length_of_mem (List.getElem_mem hi)
  rw [hs, List.getD_eq_getElem _ _ (by simpa using hlt), List.getD_eq_getElem _ _ (by simpa using hi)]
  simp only [List.getElem_map]
  rw [List.getElem_idxOf hlt]

/-- the group map of a slot (the slot is the position of the first visit with that dict key) -/
def slotP (c : DCfg) (s : Nat) : W → W := keyMap c ((keys c).getD s (.pair 0 0))

/-- the constraint set of a slot -/
def slotF (c : DCfg) (s : Nat) : (Idx → ℝ) → Prop := keyF c ((keys c).getD s (.pair 0 0))

theorem keys_length (c : DCfg) (hrd : c.rangeDom = []) : (keys c).length = (groups c).length := by
  rw [groups_eq_keys c hrd, List.length_map]

/-- every visit applies the map of its slot: the schedule `groups c` zipped with `slots c` is the slot
list mapped through `slotP` -/
theorem zip_slots_eq (c : DCfg) (hrd : c.rangeDom = []) :
    (groups c).zip (slots c) = (slots c).map (fun s => (slotP c s, s)) := by
  have hkl := keys_length c hrd
  have hgl := groupKeys_length c
  apply List.ext_getElem
  · simp [slots_length]
  · intro i h1 h2
    have hi : i < (groups c).length := by simpa [slots_length] using h2
    have hik : i < (groupKeys c).length := by rw [hgl]; exact hi
    simp only [List.getElem_zip, List.getElem_map]
    congr 1
    -- the map at position `i` is the map of the key at the slot of `i`
    have h3 := getD_firstIdx (groupKeys c) (gk c) (.pair 0 0) i hik
    rw [← keys_eq_groupKeys c hrd] at h3
    have hsl : (slots c)[i]'(by rw [slots_length]; exact hi) = (firstIdx (groupKeys c)).getD i 0 := by
      rw [List.getD_eq_getElem _ _ (by rw [firstIdx_length]; exact hik)]; rfl
    unfold slotP
    rw [hsl, h3]
    have : (groups c)[i] = ((keys c).map (keyMap c))[i]'(by rw [List.length_map, hkl]; exact hi) := by
      congr 1
      exact groups_eq_keys c hrd
    rw [this, List.getElem_map, List.getD_eq_getElem _ _ (by rw [hkl]; exact hi)]

theorem slot_lt (c : DCfg) {s : Nat} (hs : s ∈ slots c) : s < (groups c).length := by
  have := firstIdx_lt (groupKeys c) s hs
  rwa [groupKeys_length] at this

theorem slot_key_mem (c : DCfg) (hrd : c.rangeDom = []) {s : Nat} (hs : s ∈ slots c) :
    (keys c).getD s (.pair 0 0) ∈ keys c := by
  have h := slot_lt c hs
  rw [← keys_length c hrd] at h
  rw [List.getD_eq_getElem _ _ h]
  exact List.getElem_mem h

/-- feasible for every slot = feasible for every key of the schedule -/
theorem slotF_all_iff (c : DCfg) (hrd : c.rangeDom = []) (y : Idx → ℝ) :
    (∀ s ∈ slots c, slotF c s y) ↔ ∀ k ∈ keys c, keyF c k y := by
  constructor
  · intro h k hk
    obtain ⟨i, hi, rfl⟩ := List.getElem_of_mem hk
    have hik : i < (groupKeys c).length := by rw [groupKeys_length, ← keys_length c hrd]; exact hi
    have hmem : (firstIdx (groupKeys c)).getD i 0 ∈ slots c := by
      rw [List.getD_eq_getElem _ _ (by rw [firstIdx_length]; exact hik)]
      exact List.getElem_mem _
    have := h _ hmem
    unfold slotF at this
    have h3 := getD_firstIdx (groupKeys c) (gk c) (.pair 0 0) i hik
    rw [← keys_eq_groupKeys c hrd] at h3
    rw [h3, List.getD_eq_getElem _ _ hi] at this
    exact this
  · intro h s hs
    exact h _ (slot_key_mem c hrd hs)

/-- **C08, convergence clause with shared slots, function level.** Every configuration of the right
shape (`CfgShape`: no range dominance; a constraint tuple may be listed any number of times), every
kernel: the iterates of the slotted loop — the loop `project_by_dykstra`'s model runs, with the
`last_change` dict semantics — converge on every vertex to the feasible kernel nearest to the input;
the sum of squared distances to it tends to 0. -/
theorem dykstra_cfg_converges_slots (c : DCfg) (hwf : CfgShape c) (w : W) :
    ∃ p : Idx → ℝ, FeasibleR c p ∧
      (∀ y : Idx → ℝ, FeasibleR c y →
        bsum c.sizes (fun idx => ((w idx : ℝ) - p idx) ^ 2) + bsum c.sizes (fun idx => (p idx - y idx) ^ 2)
          ≤ bsum c.sizes (fun idx => ((w idx : ℝ) - y idx) ^ 2)) ∧
      (∀ idx, InRange c.sizes idx → Tendsto (fun n =>
        (((dykstraIterS ((groups c).zip (slots c)) n (w, (groups c).map (fun _ => fun _ => 0))).1 idx : ℚ) : ℝ))
          atTop (𝓝 (p idx))) ∧
      Tendsto (fun n => bsum c.sizes (fun idx =>
        ((((dykstraIterS ((groups c).zip (slots c)) n (w, (groups c).map (fun _ => fun _ => 0))).1 idx : ℚ) : ℝ)
          - p idx) ^ 2)) atTop (𝓝 0) := by
  have hrd := hwf.rdom
  have hkw := keys_wf c hwf
  have hkm : ∀ s ∈ slots c, (keys c).getD s (.pair 0 0) ∈ keys c := fun s hs => slot_key_mem c hrd hs
  have hloc : ∀ s ∈ slots c, Local c.sizes (slotP c s) := by
    intro s hs
    apply groups_local c
    rw [groups_eq_keys c hrd]
    exact List.mem_map.mpr ⟨_, hkm s hs, rfl⟩
  obtain ⟨p, hp, hnear, hlim, hsq⟩ := dykstra_box_converges_slots c.sizes (slots c) (groups c).length
    (slotP c) (slotF c) (fun s hs => slot_lt c hs) hloc
    (fun s hs => key_local c _ (hkw _ (hkm s hs))) (fun s _ => key_closed c _)
    (fun s hs w => key_lands c _ (hkw _ (hkm s hs)) w)
    (fun s hs w y hy => key_vi c _ (hkw _ (hkm s hs)) w y hy)
    ⟨fun _ => 0, fun s _ => key_zero c _⟩ w
  rw [← zip_slots_eq c hrd, ← List.map_const'] at hlim hsq
  exact ⟨p, (feasibleR_iff_keys c p).mpr ((slotF_all_iff c hrd p).mp hp),
    fun y hy => hnear y ((slotF_all_iff c hrd y).mpr ((feasibleR_iff_keys c y).mp hy)), hlim, hsq⟩

/-- **C08, convergence clause on the executable model, repeated constraints included.** For every
configuration without range dominance whose trusts / pairs name two different dimensions of the
lattice (`CfgShape`; NO hypothesis on repeated constraint tuples), whenever the early-return test lets
the loop run, the executable `project_by_dykstra` with `n` iterations converges as `n → ∞`, on every
vertex and uniformly on the box, to the Euclidean-nearest kernel among the real kernels satisfying all
constraints. -/
theorem projectByDykstraT_cfg_converges_shape (c : DCfg) (hwf : CfgShape c) (hact : dykstraActive c = true)
    (t : Table) :
    ∃ p : Idx → ℝ, FeasibleR c p ∧
      (∀ y : Idx → ℝ, FeasibleR c y →
        bsum c.sizes (fun idx => ((t.get idx : ℝ) - p idx) ^ 2) + bsum c.sizes (fun idx => (p idx - y idx) ^ 2)
          ≤ bsum c.sizes (fun idx => ((t.get idx : ℝ) - y idx) ^ 2)) ∧
      (∀ idx, InRange c.sizes idx → Tendsto (fun n =>
        (((projectByDykstraT c n t).get idx : ℚ) : ℝ)) atTop (𝓝 (p idx))) ∧
      (∀ ε : ℝ, 0 < ε → ∃ n0 : Nat, ∀ n, n0 ≤ n → ∀ idx, InRange c.sizes idx →
        |(((projectByDykstraT c n t).get idx : ℚ) : ℝ) - p idx| < ε) := by
  obtain ⟨p, hp, hnear, hlim, hsq⟩ := dykstra_cfg_converges_slots c hwf t.get
  refine ⟨p, hp, hnear, fun idx hr => ?_, fun ε hε => ?_⟩
  · refine (hlim idx hr).congr (fun n => ?_)
    rw [projectByDykstraT_agree_iterS c hact n t idx hr]
  · obtain ⟨n0, h⟩ := uniform_of_bsum hsq hε
    refine ⟨n0, fun n hn idx hr => ?_⟩
    rw [projectByDykstraT_agree_iterS c hact n t idx hr]
    exact h n hn idx hr

/-- the limit does not depend on how often a constraint is listed: the feasible set, hence the nearest
point, of `cDup` (joint monotonicity `(0, 1)` listed twice) is that of the configuration listing it once -/
theorem feasibleR_cDup (y : Idx → ℝ) :
    FeasibleR cDup y ↔ FeasibleR { sizes := [3, 2], mono := [false, false], jointMono := [(0, 1)] } y := by
  constructor
  · intro h
    refine ⟨h.pairs, fun tr htr => ?_, fun tr htr => ?_, fun p hp => ?_, fun p hp => ?_, fun ju hju => ?_⟩
    · cases htr
    · cases htr
    · cases hp
    · exact h.jmono p (by simp only [cDup, List.mem_cons, List.mem_singleton] at hp ⊢; left; simpa using hp)
    · cases hju
  · intro h
    refine ⟨h.pairs, fun tr htr => ?_, fun tr htr => ?_, fun p hp => ?_, fun p hp => ?_, fun ju hju => ?_⟩
    · cases htr
    · cases htr
    · cases hp
    · exact h.jmono p (by simp only [cDup, List.mem_cons, List.not_mem_nil, or_false, or_self] at hp; simp [hp])
    · cases hju

/-- non-vacuity: `cDup` (outside `CfgWF`, `cDup_not_cfgWF`) is covered -/
example : CfgShape cDup ∧ dykstraActive cDup = true := ⟨cDup_not_cfgWF.1, by decide⟩

end Tfl.C08
