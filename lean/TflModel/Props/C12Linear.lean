import TflModel.Props.C12Feasible
import TflModel.Props.C12Norm
import TflModel.Props.C06Compose
/-!
# C12 — the LINEAR assert ⇔ its eps-relaxed feasible set, every eps, norm clause included

Closes the DESIGN §8 C12 limit "no bridge for the linear norm clause and no eps-relaxed form for the
LINEAR asserts": `Props/C12Feasible.lean` does PWL / categorical / lattice / KFL; this file does
`linear_lib.assert_constraints` (`Tfl.Asserts.acceptsLinear`, layer: `acceptsLinearLayer`).

* `LinFeasibleEps` — the relaxed set, clause by clause in C06's vocabulary (`getM`/`getV`, pairs
  `(dominant, weak)`, the scalings): sign clause, every monotonic dominance, every scaled range
  dominance, each relaxed by `eps` exactly where the real code has `>= -eps`; norm clause
  `NormFeasibleEps` exactly as the real code tests it (`|‖w‖ − 1| < eps ∨ |‖w‖| < 1e-8`, STRICT; for
  order 2 in the root-free squared form of `Props/C12Norm.lean`).
* `linear_eps_iff`, `linear_layer_eps_iff` — every eps (0, negative too), every number of inputs / units.
* `linFeasibleEps_mono` — nested in eps.
* `linFeasibleEps_zero_iff` — at `eps = 0` the inequality clauses ARE C06's `Meets` (the feasibility
  predicate of `C06.accepted_project` / `accepted_full_fixpoint`), and the norm clause collapses to
  "below the guard" (`normFeasibleEps_zero_iff`): `|‖w‖ − 1| < 0` is never true.
* composition `linear_projection_accepted`: what `Linear.project` returns for an accepted
  configuration passes every inequality clause at `eps = 0` and the whole assert (norm of order 1 / inf
  included) at EVERY `eps > 0`; at `eps = 0` with a norm requested it is accepted iff the degenerate
  branch was taken — a column of norm exactly 1 is REJECTED at `eps = 0`
  (`unit_norm_rejected_at_zero`, reproduced on the real code; the strict `<` of the real assert, not a
  modelling artefact). Order 2: the model's `project` returns the un-normalised column
  (`C06.project_l2_eq_pre`), so only the inequality clauses are claimed for it.
* a second quirk of the real sign test, `negative_eps_unconstrained_rejected`: the test is
  `reduce_min(weights * monotonicities) >= -eps` over ALL inputs as soon as one is constrained, an
  unconstrained input contributes `0`, so for `eps < 0` every kernel is rejected.
-/
namespace Tfl.C12
open Tfl Tfl.Poset Tfl.Linear Tfl.Asserts Tfl.Verify

/-! ## the relaxed set -/

/-- the norm clause exactly as `linear_lib.assert_constraints` tests it: within `eps` of 1 (strict) or
below the guard `_NORMALIZATION_EPS`; order 2 without the root (`normOk_l2_sq_iff`; with
`Real.sqrt`: `normOk_l2_real_iff`) -/
def NormFeasibleEps (ord : Linear.NormOrd) (w : List Rat) (eps : Rat) : Prop :=
  match ord with
  | .none => True
  | .l1 => |norm1 w - 1| < eps ∨ |norm1 w| < normEps
  | .linf => |normInf w - 1| < eps ∨ |normInf w| < normEps
  | .l2 => (0 < eps ∧ (1 < eps ∨ (1 - eps) * (1 - eps) < normSq w) ∧ normSq w < (1 + eps) * (1 + eps)) ∨
      normSq w < normEps * normEps

/-- **the eps-relaxed feasible set of one linear kernel column.**
* sign: when some input is constrained, every entry has `m_k · w_k ≥ −eps` (for `m_k = 1`: `w_k ≥ −eps`,
  `m_k = −1`: `w_k ≤ eps`, `m_k = 0`: `0 ≥ −eps`, see `sign_clause_trit`);
* each monotonic dominance `(dominant, weak)`: `w_weak − eps ≤ w_dominant`;
* each range dominance: `s_weak · w_weak − eps ≤ s_dominant · w_dominant`, `s` the assert's scalings
  `scalingsAll` (`±(input_max − input_min)`);
* the norm clause `NormFeasibleEps`. -/
def LinFeasibleEps (monos : List Int) (md rd : Pairs) (los his : List (Option Rat)) (ord : Linear.NormOrd)
    (w : List Rat) (eps : Rat) : Prop :=
  ((∃ m ∈ monos, m ≠ 0) → ∀ k, k < w.length → -eps ≤ getV w k * (getM monos k : Rat)) ∧
  (∀ p ∈ md, getV w p.2 - eps ≤ getV w p.1) ∧
  (∀ p ∈ rd, getV (scalingsAll monos los his) p.2 * getV w p.2 - eps ≤
              getV (scalingsAll monos los his) p.1 * getV w p.1) ∧
  NormFeasibleEps ord w eps

/-- the norm test of the model is the norm clause, every order, every eps -/
theorem normOk_iff (ord : Linear.NormOrd) (w : List Rat) (eps : Rat) :
    normOk ord w eps = true ↔ NormFeasibleEps ord w eps := by
  cases ord
  · simp [normOk, NormFeasibleEps]
  · exact normOk_l1_iff w eps
  · exact normOk_l2_sq_iff w eps
  · exact normOk_linf_iff w eps

/-- **C12 (linear) ⇔ relaxed feasible set.** EVERY `eps` (any sign), every number of inputs, every
configuration: the assert accepts a kernel column iff it lies in `LinFeasibleEps`. Only hypothesis:
one monotonicity per weight (the shape `assert_constraints` itself needs to broadcast). -/
theorem linear_eps_iff (monos : List Int) (md rd : Pairs) (los his : List (Option Rat)) (ord : Linear.NormOrd)
    (w : List Rat) (eps : Rat) (hlen : monos.length = w.length) :
    acceptsLinear monos md rd los his ord w eps = true ↔ LinFeasibleEps monos md rd los his ord w eps := by
  rw [linear_iff monos md rd los his ord w eps hlen, normOk_iff]
  unfold LinFeasibleEps
  refine and_congr Iff.rfl (and_congr ?_ (and_congr ?_ Iff.rfl))
  · exact ⟨fun h p hp => by linarith [h p hp], fun h p hp => by linarith [h p hp]⟩
  · exact ⟨fun h p hp => by linarith [h p hp], fun h p hp => by linarith [h p hp]⟩

/-- **all units**: the layer-level call (real reductions over the unit axis) accepts iff EVERY unit
column lies in the relaxed set -/
theorem linear_layer_eps_iff (monos : List Int) (md rd : Pairs) (los his : List (Option Rat)) (ord : Linear.NormOrd)
    (cols : List (List Rat)) (eps : Rat) (hlen : ∀ w ∈ cols, monos.length = w.length) :
    acceptsLinearLayer monos md rd los his ord cols eps = true ↔
      ∀ w ∈ cols, LinFeasibleEps monos md rd los his ord w eps := by
  rw [linear_layer_iff]
  exact forall_congr' fun w => forall_congr' fun hw => linear_eps_iff monos md rd los his ord w eps (hlen w hw)

/-- the sign clause for a monotonicity in `{−1, 0, 1}`, spelled out -/
theorem sign_clause_trit (m : Int) (x eps : Rat) (hm : m = -1 ∨ m = 0 ∨ m = 1) :
    -eps ≤ x * (m : Rat) ↔ (m = 1 → -eps ≤ x) ∧ (m = -1 → x ≤ eps) ∧ (m = 0 → 0 ≤ eps) := by
  rcases hm with e | e | e <;> subst e <;> norm_num

/-! ## nested in eps -/

theorem normFeasibleEps_mono (ord : Linear.NormOrd) (w : List Rat) {e1 e2 : Rat} (he : e1 ≤ e2)
    (h : NormFeasibleEps ord w e1) : NormFeasibleEps ord w e2 := by
  cases ord
  · trivial
  · rcases h with h | h
    · exact Or.inl (lt_of_lt_of_le h he)
    · exact Or.inr h
  · rcases h with ⟨h0, h1, h2⟩ | h
    · refine Or.inl ⟨lt_of_lt_of_le h0 he, ?_, by nlinarith⟩
      rcases h1 with h1 | h1
      · exact Or.inl (lt_of_lt_of_le h1 he)
      · by_cases h3 : 1 < e2
        · exact Or.inl h3
        · right
          have : 0 ≤ 1 - e2 := by linarith
          nlinarith
    · exact Or.inr h
  · rcases h with h | h
    · exact Or.inl (lt_of_lt_of_le h he)
    · exact Or.inr h

/-- **nested**: a larger tolerance accepts more -/
theorem linFeasibleEps_mono (monos : List Int) (md rd : Pairs) (los his : List (Option Rat)) (ord : Linear.NormOrd)
    (w : List Rat) {e1 e2 : Rat} (he : e1 ≤ e2) (h : LinFeasibleEps monos md rd los his ord w e1) :
    LinFeasibleEps monos md rd los his ord w e2 := by
  obtain ⟨h1, h2, h3, h4⟩ := h
  exact ⟨fun hex k hk => by linarith [h1 hex k hk], fun p hp => by linarith [h2 p hp],
    fun p hp => by linarith [h3 p hp], normFeasibleEps_mono ord w he h4⟩

/-! ## eps = 0 -/

/-- at `eps = 0` the norm clause only lets through the columns BELOW THE GUARD: `|‖w‖ − 1| < 0` is never
true, so a column of norm exactly 1 does not pass -/
theorem normFeasibleEps_zero_iff (ord : Linear.NormOrd) (w : List Rat) :
    NormFeasibleEps ord w 0 ↔
      (ord = .none ∨ (ord = .l1 ∧ |norm1 w| < normEps) ∨ (ord = .linf ∧ |normInf w| < normEps) ∨
        (ord = .l2 ∧ normSq w < normEps * normEps)) := by
  cases ord
  · simp [NormFeasibleEps]
  · simp only [NormFeasibleEps, reduceCtorEq, false_and, false_or, or_false, true_and]
    exact ⟨fun h => h.resolve_left (fun h => by linarith [abs_nonneg (norm1 w - 1)]), Or.inr⟩
  · simp only [NormFeasibleEps, reduceCtorEq, false_and, false_or, true_and, lt_self_iff_false]
  · simp only [NormFeasibleEps, reduceCtorEq, false_and, false_or, or_false, true_and]
    exact ⟨fun h => h.resolve_left (fun h => by linarith [abs_nonneg (normInf w - 1)]), Or.inr⟩

/-- **eps = 0: the inequality clauses are C06's feasibility predicate.** For monotonicities in
`{−1, 0, 1}` (what `verify_hyperparameters` canonicalises to, `accepted_trit`) and range-dominance
pairs inside the inputs, `LinFeasibleEps … 0` ⇔ `C06.Meets` with the PROJECTION's scalings (the
predicate `C06.accepted_project` establishes and `C06.accepted_full_fixpoint` assumes) ∧ the norm
clause at 0. -/
theorem linFeasibleEps_zero_iff (monos : List Int) (md rd : Pairs) (los his : List (Option Rat)) (ord : Linear.NormOrd)
    (w : List Rat) (hlen : monos.length = w.length)
    (htrit : ∀ k, getM monos k = -1 ∨ getM monos k = 0 ∨ getM monos k = 1)
    (hrdin : ∀ c ∈ rd, c.1 < monos.length ∧ c.2 < monos.length) :
    LinFeasibleEps monos md rd los his ord w 0 ↔
      C06.Meets monos md rd (scalings monos rd los his) w ∧ NormFeasibleEps ord w 0 := by
  have hsc : ∀ c ∈ rd, getV (scalings monos rd los his) c.1 = getV (scalingsAll monos los his) c.1 ∧
      getV (scalings monos rd los his) c.2 = getV (scalingsAll monos los his) c.2 := fun c hc =>
    ⟨scalings_eq_all monos rd los his (hrdin c hc).1 (inPairs_of_mem hc).1,
      scalings_eq_all monos rd los his (hrdin c hc).2 (inPairs_of_mem hc).2⟩
  unfold LinFeasibleEps C06.Meets
  constructor
  · rintro ⟨h1, h2, h3, h4⟩
    refine ⟨⟨fun k => ?_, fun p hp => by linarith [h2 p hp], fun p hp => ?_⟩, h4⟩
    · unfold SignOk
      by_cases hk : k < w.length
      · by_cases hex : ∃ m ∈ monos, m ≠ 0
        · have := h1 hex k hk
          constructor
          · intro e; rw [e] at this; simp at this; linarith
          · intro e; rw [e] at this; simp at this; linarith
        · have : getM monos k = 0 := by
            have hk' : k < monos.length := hlen ▸ hk
            by_contra hne
            exact hex ⟨getM monos k, by simp [getM, List.getD, hk'], hne⟩
          rw [this]; constructor <;> intro e <;> omega
      · have : getM monos k = 0 := by
          have hk' : ¬ k < monos.length := hlen ▸ hk
          simp [getM, List.getD, List.getElem?_eq_none (not_lt.mp hk')]
        rw [this]; constructor <;> intro e <;> omega
    · rw [(hsc p hp).1, (hsc p hp).2]; linarith [h3 p hp]
  · rintro ⟨⟨h1, h2, h3⟩, h4⟩
    refine ⟨fun _ k _ => ?_, fun p hp => by linarith [h2 p hp], fun p hp => ?_, h4⟩
    · have hs := h1 k
      unfold SignOk at hs
      rcases htrit k with e | e | e <;> rw [e]
      · have := hs.2 e; push_cast; linarith
      · simp
      · have := hs.1 e; push_cast; linarith
    · have := h3 p hp
      rw [(hsc p hp).1, (hsc p hp).2] at this; linarith

/-- accepted at `eps = 0` ⇔ C06-feasible ∧ (no norm requested ∨ below the guard) -/
theorem linear_zero_iff_meets (monos : List Int) (md rd : Pairs) (los his : List (Option Rat)) (ord : Linear.NormOrd)
    (w : List Rat) (hlen : monos.length = w.length)
    (htrit : ∀ k, getM monos k = -1 ∨ getM monos k = 0 ∨ getM monos k = 1)
    (hrdin : ∀ c ∈ rd, c.1 < monos.length ∧ c.2 < monos.length) :
    acceptsLinear monos md rd los his ord w 0 = true ↔
      C06.Meets monos md rd (scalings monos rd los his) w ∧ NormFeasibleEps ord w 0 := by
  rw [linear_eps_iff monos md rd los his ord w 0 hlen, linFeasibleEps_zero_iff monos md rd los his ord w hlen htrit hrdin]

/-- **strict norm test.** A column whose norm is exactly 1 is rejected at `eps = 0` whenever a norm is
requested (orders 1 / inf here; order 2: `normSq w = 1`), whatever the other clauses say. Real code:
`Linear(num_input_dims=2, normalization_order=1)` with kernel `[[0.5],[0.5]]`:
`assert_constraints(eps=0.0)` raises "Normalization order violation"; `eps=1e-6` passes. -/
theorem unit_norm_rejected_at_zero (monos : List Int) (md rd : Pairs) (los his : List (Option Rat))
    (w : List Rat) :
    (norm1 w = 1 → acceptsLinear monos md rd los his .l1 w 0 = false) ∧
    (normInf w = 1 → acceptsLinear monos md rd los his .linf w 0 = false) ∧
    (normSq w = 1 → acceptsLinear monos md rd los his .l2 w 0 = false) := by
  have hne : ¬ (1 : Rat) < normEps := by norm_num [normEps]
  have hne2 : ¬ (1 : Rat) < normEps * normEps := by norm_num [normEps]
  refine ⟨fun e => ?_, fun e => ?_, fun e => ?_⟩
  · have : normOk .l1 w 0 = false := by
      rw [Bool.eq_false_iff, Ne, normOk_iff, normFeasibleEps_zero_iff]; simp [e, hne]
    simp [acceptsLinear, this]
  · have : normOk .linf w 0 = false := by
      rw [Bool.eq_false_iff, Ne, normOk_iff, normFeasibleEps_zero_iff]; simp [e, hne]
    simp [acceptsLinear, this]
  · have : normOk .l2 w 0 = false := by
      rw [Bool.eq_false_iff, Ne, normOk_iff, normFeasibleEps_zero_iff]; simp [e, hne2]
    simp [acceptsLinear, this]

/-- a unit-norm column passes the norm clause at every `eps > 0` -/
theorem unit_norm_ok_pos (w : List Rat) (eps : Rat) (he : 0 < eps) :
    (norm1 w = 1 → NormFeasibleEps .l1 w eps) ∧ (normInf w = 1 → NormFeasibleEps .linf w eps) := by
  constructor <;> intro e <;> left <;> rw [e] <;> simpa using he

/-- **negative eps + an unconstrained input ⇒ everything is rejected**: the sign test is
`reduce_min(weights * monotonicities) >= -eps` over ALL inputs once one of them is constrained, and
an unconstrained input contributes `0 ≥ −eps`. (Real code: `Linear(num_input_dims=2,
monotonicities=[1, 0])`, kernel `[[1.],[1.]]`: `assert_constraints(eps=-1e-3)` raises, although the
constrained weight has margin 1.) -/
theorem negative_eps_unconstrained_rejected (monos : List Int) (md rd : Pairs) (los his : List (Option Rat))
    (ord : Linear.NormOrd) (w : List Rat) (eps : Rat) (hlen : monos.length = w.length) (he : eps < 0)
    (hex : ∃ m ∈ monos, m ≠ 0) (k : Nat) (hk : k < w.length) (h0 : getM monos k = 0) :
    acceptsLinear monos md rd los his ord w eps = false := by
  rw [Bool.eq_false_iff, Ne, linear_eps_iff monos md rd los his ord w eps hlen]
  rintro ⟨h1, _⟩
  have := h1 hex k hk
  rw [h0] at this
  simp at this
  linarith

/-! ## composition with C06's projection -/

/-- the canonical monotonicities of an accepted configuration are in `{−1, 0, 1}` -/
theorem accepted_trit (nid : Option Nat) (mv mdv rdv iminv imaxv : Val) (c : LinCfg)
    (h : verifyLinear nid mv mdv rdv iminv imaxv = .ok c) (k : Nat) :
    getM c.monos k = -1 ∨ getM c.monos k = 0 ∨ getM c.monos k = 1 := by
  rw [getM_monos]
  by_cases hk : k < (c.mono.getD []).length
  · have hmem : (c.mono.getD []).getD k .none ∈ c.mono.getD [] := by
      simp [List.getD, hk]
    have hnum := verifyLinear_mono_num h _ hmem
    generalize (c.mono.getD []).getD k Atom.none = a at hnum ⊢
    unfold monoOf
    rcases hnum with e | e | e | e <;> rw [e]
    · right; left; rfl
    · left; decide
    · right; left; decide
    · right; right; decide
  · have : (c.mono.getD []).getD k .none = Atom.none := by
      simp [List.getD, List.getElem?_eq_none (not_lt.mp hk)]
    rw [this]; right; left; rfl

theorem norm1_nonneg (w : List Rat) : 0 ≤ norm1 w := by
  unfold norm1
  exact PwlProj.rsum_nonneg _ (fun x hx => by
    obtain ⟨y, _, rfl⟩ := List.mem_map.mp hx
    rw [ratAbs_eq]; exact abs_nonneg y)

theorem normInf_nonneg (w : List Rat) : 0 ≤ normInf w := Lat.rmax_ge_init 0 _

/-- **C06 ∘ C12 (linear).** For EVERY configuration accepted by `verify_hyperparameters` and EVERY
column with one weight per input, what the whole `linear_lib.project` (sign clip → monotonic
dominance → range dominance → normalisation) returns
* passes every inequality clause of the assert at `eps = 0` (`acceptsLinear … .none out 0`);
* order none / 1 / inf: passes the WHOLE assert, norm clause included, at every `eps > 0`;
* order 1 / inf at `eps = 0`: is accepted IFF the degenerate branch was taken (pre-normalised column
  below the guard, returned as it is); a properly normalised result (norm exactly 1) is rejected at
  `eps = 0` because the real norm test is strict (`unit_norm_rejected_at_zero`).
Order 2 is not claimed beyond the first item: the model's `project` returns the un-normalised column
(`C06.project_l2_eq_pre`; the real result is irrational). -/
theorem linear_projection_accepted (nid : Option Nat) (mv mdv rdv iminv imaxv : Val) (c : LinCfg)
    (h : verifyLinear nid mv mdv rdv iminv imaxv = .ok c) (ord : Linear.NormOrd)
    (w : List Rat) (hlen : w.length = c.monos.length) :
    ∃ pre out, projectPre c.monos c.md c.rd c.los c.his w = .ok pre ∧
      Linear.project c.monos c.md c.rd c.los c.his ord w = .ok out ∧
      acceptsLinear c.monos c.md c.rd c.los c.his .none out 0 = true ∧
      (ord ≠ .l2 → ∀ eps, 0 < eps → acceptsLinear c.monos c.md c.rd c.los c.his ord out eps = true) ∧
      (ord = .l1 → (acceptsLinear c.monos c.md c.rd c.los c.his ord out 0 = true ↔ norm1 pre < normEps)) ∧
      (ord = .linf → (acceptsLinear c.monos c.md c.rd c.los c.his ord out 0 = true ↔ normInf pre < normEps)) := by
  obtain ⟨pre, out, hpre, hout, hlo, hs, hm, hr, hn1, hninf, _⟩ :=
    C06.accepted_project nid mv mdv rdv iminv imaxv c h ord w hlen
  have hl : c.monos.length = out.length := by rw [hlo, hlen]
  have htrit := accepted_trit nid mv mdv rdv iminv imaxv c h
  have hrdin : ∀ p ∈ c.rd, p.1 < c.monos.length ∧ p.2 < c.monos.length := fun p hp =>
    ⟨(verifyLinear_range h hp (Or.inl rfl)).1, (verifyLinear_range h hp (Or.inr rfl)).1⟩
  have hmeets : C06.Meets c.monos c.md c.rd (scalings c.monos c.rd c.los c.his) out := ⟨hs, hm, hr⟩
  have hz : ∀ o, acceptsLinear c.monos c.md c.rd c.los c.his o out 0 = true ↔ NormFeasibleEps o out 0 := by
    intro o
    rw [linear_zero_iff_meets _ _ _ _ _ o out hl htrit hrdin]
    exact and_iff_right hmeets
  have hpos : ∀ o eps, 0 < eps → NormFeasibleEps o out eps →
      acceptsLinear c.monos c.md c.rd c.los c.his o out eps = true := by
    intro o eps he hno
    rw [linear_eps_iff _ _ _ _ _ o out eps hl]
    have h0 := (linear_eps_iff _ _ _ _ _ .none out 0 hl).mp ((hz .none).mpr trivial)
    obtain ⟨a, b, d, _⟩ := linFeasibleEps_mono _ _ _ _ _ .none out he.le h0
    exact ⟨a, b, d, hno⟩
  have hguard : ¬ (1 : Rat) < normEps := by norm_num [normEps]
  refine ⟨pre, out, hpre, hout, (hz .none).mpr trivial, ?_, ?_, ?_⟩
  · intro hne eps he
    apply hpos ord eps he
    cases ord
    · trivial
    · obtain ⟨ha, hb⟩ := hn1 rfl
      by_cases hg : norm1 pre < normEps
      · right; rw [hb hg, abs_of_nonneg (norm1_nonneg pre)]; exact hg
      · exact (unit_norm_ok_pos out eps he).1 (ha hg)
    · exact absurd rfl hne
    · obtain ⟨ha, hb⟩ := hninf rfl
      by_cases hg : normInf pre < normEps
      · right; rw [hb hg, abs_of_nonneg (normInf_nonneg pre)]; exact hg
      · exact (unit_norm_ok_pos out eps he).2 (ha hg)
  · intro e; subst e
    obtain ⟨ha, hb⟩ := hn1 rfl
    rw [hz, normFeasibleEps_zero_iff]
    by_cases hg : norm1 pre < normEps
    · simp only [hg, iff_true]
      right; left; refine ⟨trivial, ?_⟩
      rw [hb hg, abs_of_nonneg (norm1_nonneg pre)]; exact hg
    · simp [hg, ha hg, hguard]
  · intro e; subst e
    obtain ⟨ha, hb⟩ := hninf rfl
    rw [hz, normFeasibleEps_zero_iff]
    by_cases hg : normInf pre < normEps
    · simp only [hg, iff_true]
      right; right; left; refine ⟨trivial, ?_⟩
      rw [hb hg, abs_of_nonneg (normInf_nonneg pre)]; exact hg
    · simp [hg, ha hg, hguard]

/-! ## non-vacuity -/

-- relaxed set, eps = 1/8: sign slack −1/16, monotonic dominance (0,1) slack −1/16, range dominance (1,2)
-- with ranges 2 and 1, 1-norm 17/16
example : acceptsLinear [1, 1, 1] [(0, 1)] [(1, 2)] [some 0, some 0, some 0] [some 1, some 2, some 1] .l1
    [7/16, 1/2, 1/8] (1/8) = true := by decide +kernel
example : LinFeasibleEps [1, 1, 1] [(0, 1)] [(1, 2)] [some 0, some 0, some 0] [some 1, some 2, some 1] .l1
    [7/16, 1/2, 1/8] (1/8) :=
  (linear_eps_iff _ _ _ _ _ _ _ _ rfl).mp (by decide +kernel)
-- the same column is outside the set for eps = 1/32 (dominance (0,1) violated by 1/16)
example : acceptsLinear [1, 1, 1] [(0, 1)] [(1, 2)] [some 0, some 0, some 0] [some 1, some 2, some 1] .l1
    [7/16, 1/2, 1/8] (1/32) = false := by decide +kernel
-- unit 1-norm: rejected at 0, accepted at 1/1000000; without the norm accepted at 0
example : acceptsLinear [1, 1] [] [] [none, none] [none, none] .l1 [1/2, 1/2] 0 = false := by decide +kernel
example : acceptsLinear [1, 1] [] [] [none, none] [none, none] .l1 [1/2, 1/2] (1/1000000) = true := by
  decide +kernel
example : acceptsLinear [1, 1] [] [] [none, none] [none, none] .none [1/2, 1/2] 0 = true := by decide +kernel
-- order 2, unit norm (3/5, 4/5)
example : acceptsLinear [1, 1] [] [] [none, none] [none, none] .l2 [3/5, 4/5] 0 = false := by decide +kernel
example : acceptsLinear [1, 1] [] [] [none, none] [none, none] .l2 [3/5, 4/5] (1/1000) = true := by decide +kernel
-- negative eps with an unconstrained input: rejected although the constrained weight has margin 1
example : acceptsLinear [1, 0] [] [] [none, none] [none, none] .none [1, 1] (-1/1000) = false := by decide +kernel
example : acceptsLinear [1, 1] [] [] [none, none] [none, none] .none [1, 1] (-1/1000) = true := by decide +kernel
-- two units
example : acceptsLinearLayer [1, 1] [(0, 1)] [] [none, none] [none, none] .l1 [[3/4, 1/4], [1/2, 1/2]] (1/100) = true := by
  decide +kernel
example : acceptsLinearLayer [1, 1] [(0, 1)] [] [none, none] [none, none] .l1 [[3/4, 1/4], [1/4, 3/4]] (1/100) = false := by
  decide +kernel

-- composition on the accepted configuration of `C06.composite_example` (both dominance kinds, both signs,
-- an unconstrained input): the projected column `[12/19, 0, −1/19, −4/19, 2/19]` passes every inequality
-- clause at 0, the whole assert at 1/1000000, and is rejected at 0 with the norm clause (norm exactly 1);
-- the degenerate result `[0, 0]` of `C06.degenerate_example` is accepted at 0 with the norm clause
example : Linear.project [1, 1, -1, -1, 0] [(0, 1)] [(2, 3)] [none, none, some 0, some 1, none]
      [none, none, some 2, some (3/2), none] .l1 [3, -4, 1, -2, 1/2] = .ok [12/19, 0, -1/19, -4/19, 2/19] ∧
    acceptsLinear [1, 1, -1, -1, 0] [(0, 1)] [(2, 3)] [none, none, some 0, some 1, none]
      [none, none, some 2, some (3/2), none] .none [12/19, 0, -1/19, -4/19, 2/19] 0 = true ∧
    acceptsLinear [1, 1, -1, -1, 0] [(0, 1)] [(2, 3)] [none, none, some 0, some 1, none]
      [none, none, some 2, some (3/2), none] .l1 [12/19, 0, -1/19, -4/19, 2/19] (1/1000000) = true ∧
    acceptsLinear [1, 1, -1, -1, 0] [(0, 1)] [(2, 3)] [none, none, some 0, some 1, none]
      [none, none, some 2, some (3/2), none] .l1 [12/19, 0, -1/19, -4/19, 2/19] 0 = false ∧
    acceptsLinear [1, 1] [] [] [] [] .l1 [0, 0] 0 = true := by decide +kernel
-- the hypothesis of `linear_projection_accepted` is met by that configuration (instantiation, not `decide`)
example : ∃ c, linearConstraints C06.exRaw = .ok c ∧ ∀ w : List Rat, w.length = c.monos.length →
    ∃ pre out, projectPre c.monos c.md c.rd c.los c.his w = .ok pre ∧
      Linear.project c.monos c.md c.rd c.los c.his .l1 w = .ok out ∧
      ∀ eps, 0 < eps → acceptsLinear c.monos c.md c.rd c.los c.his .l1 out eps = true := by
  have hok : outcome (linearConstraints C06.exRaw) = 0 := C06.composite_example.1
  cases hc : linearConstraints C06.exRaw with
  | error e => rw [hc] at hok; cases e <;> simp [outcome] at hok
  | ok c =>
    refine ⟨c, rfl, fun w hw => ?_⟩
    obtain ⟨pre, out, h1, h2, _, h4, _⟩ := linear_projection_accepted _ _ _ _ _ _ c hc .l1 w hw
    exact ⟨pre, out, h1, h2, h4 (by simp)⟩

end Tfl.C12
