import TflModel.Props.C10
import TflModel.Props.C01Constraint
import TflModel.Lemmas.InitializersTotal
/-!
# C10 — the library's initial kernels are fixed points of the WHOLE weight constraint, and explicit
initialisation ranges

`Props/C10.lean` T5 talks about `clipBounds (finalize c w)` for configurations without trusts. Here:

* `feasible_is_fixpoint_of_constraint` — a kernel feasible for every configured family is a fixed
  point of `latticeConstraintT` (Dykstra passes → strict finalisation when `strict` → clip; what the
  driver runs and the layer applies), in BOTH modes and for EVERY iteration count;
* instantiated: `linear_init_feasibleD` / `linear_init_is_fixpoint_of_constraint` (monotone AND
  unimodal dimensions: the valley / peak profile is what `_project_partial_monotonicity` enforces),
  `random_monotonic_init_is_fixpoint_of_constraint`, and `…_accepted` (C12's model of
  `lattice_lib.assert_constraints`); the range is ANY `init_min ≤ init_max` inside the output bounds —
  the default `default_init_params(output_min, output_max)` (`default_range_inside`) or an explicit one;
* explicit ranges that do NOT lie inside the bounds (`LinearInitializer(output_min=-1, output_max=2)`
  in a layer with bounds `[0, 1]`, `RTL(init_min=-1, init_max=2, output_min=0, output_max=1)`) give a
  fresh kernel outside the layer's bounds: `explicit_range_outside_bounds_violates` (finding F-C10-e);
* KFL: `kfl_init_explicit_range_meets_C07_premises` — ANY explicit range with `0 ≤ init_min` (and
  `init_max ≤ 1` when an output bound is set) meets the premises of C07; a NEGATIVE range does not:
  `kfl_negative_range_not_monotone` (finding F-C10-f).
-/
namespace Tfl.C10
open Tfl Tfl.Lat Tfl.Init Tfl.C08

/-- **T5, generic, the whole constraint** (= `Tfl.C01.C01_constraint_fixpoint`): a kernel satisfying every
configured constraint (`FeasibleD`: all Dykstra families) and the bounds comes back unchanged from
`LatticeConstraints.__call__`, strict or not, after any number of iterations. -/
theorem feasible_is_fixpoint_of_constraint (c : LCfg) (hwf : ∀ tr ∈ c.d.trapezoid, TrustWF c.d.sizes tr)
    (hb : BoundsWF c.lo c.hi) (t : Table) (hf : FeasibleD c.d t.get)
    (hin : Tfl.C01.InBounds c.d.sizes c.lo c.hi t.get) :
    Table.vals c.d.sizes (latticeConstraintT c t) = Table.vals c.d.sizes t :=
  Tfl.C01.C01_constraint_fixpoint c hwf hb t hf hin

/-- a configuration with monotonicities, unimodalities and bounds only -/
def ShapeOnly (d : DCfg) : Prop :=
  d.edgeworth = [] ∧ d.trapezoid = [] ∧ d.monoDom = [] ∧ d.rangeDom = [] ∧ d.jointMono = [] ∧ d.jointUnimod = []

theorem feasibleD_of_pairs (d : DCfg) (hs : ShapeOnly d) (w : W)
    (hp : ∀ k, k < d.sizes.length → PairsOK d.sizes (d.mono.getD k false) (d.unimod.getD k 0) k w) :
    FeasibleD d w := by
  obtain ⟨h1, h2, h3, h4, h5, h6⟩ := hs
  exact ⟨hp, by rw [h1]; exact fun _ h => (by cases h), by rw [h2]; exact fun _ h => (by cases h),
    by rw [h3]; exact fun _ h => (by cases h), by rw [h4]; exact fun _ h => (by cases h),
    by rw [h5]; exact fun _ h => (by cases h), by rw [h6]; exact fun _ h => (by cases h)⟩

theorem countNonZeros_pos_of_unimod {monos : List Bool} {unimods : List Int} {d : Nat}
    (h : unimods.getD d 0 ≠ 0) : countNonZeros monos unimods ≠ 0 := by
  unfold countNonZeros
  have hd : d < unimods.length := by
    by_contra hn
    exact h (by simp [List.getD_eq_getElem?_getD, List.getElem?_eq_none (Nat.le_of_not_lt hn)])
  have hmem : unimods[d] ∈ unimods.filter (· != 0) := by
    rw [List.mem_filter]
    refine ⟨List.getElem_mem hd, ?_⟩
    have : unimods.getD d 0 = unimods[d] := by simp [List.getD_eq_getElem?_getD, hd]
    rw [this] at h
    simpa using h
  have : 0 < (unimods.filter (· != 0)).length := List.length_pos_of_mem hmem
  omega

theorem effMonos_of_mono {n : Nat} {monos : List Bool} {unimods : List Int} {d : Nat} (hd : d < n)
    (h : monos.getD d false = true) : (effMonos n monos unimods).getD d false = true := by
  unfold effMonos
  split
  · simp [List.getD_eq_getElem?_getD, hd]
  · exact h

theorem pairKind_unimod (u : Int) (size i : Nat) (hu : u ≠ 0) :
    pairKind false u size i =
      if (u = -1 ∧ i < size / 2) ∨ (u = 1 ∧ ¬ i < size / 2) then PairKind.incr else PairKind.decr := by
  simp only [pairKind, Bool.false_eq_true, if_false, hu, decide_eq_true_eq]

/-- **T1 ⇒ feasibility**: the linear initialisation satisfies, on every adjacent pair of every
dimension, the direction `_project_partial_monotonicity` enforces there: non-decreasing along monotone
dimensions, valley / peak halves along unimodal ones. -/
theorem linear_init_pairsOK (sizes : List Nat) (monos : List Bool) (unimods : List Int) (a b : ℚ)
    (hwf : LinWF sizes monos unimods) (hab : a ≤ b) (d : Nat) (hd : d < sizes.length) :
    PairsOK sizes (monos.getD d false) (unimods.getD d 0) d (linearInit sizes monos unimods a b) := by
  intro idx hr hlt
  have hl := hr.1
  have hidl : d < idx.length := by rw [hl]; exact hd
  cases hm : monos.getD d false with
  | true =>
    simp only [pairKind, if_true]
    exact linear_init_monoAx sizes monos unimods a b hab d (effMonos_of_mono hd hm) idx hr hd hlt
  | false =>
    by_cases hu : unimods.getD d 0 = 0
    · simp only [pairKind, hu, Bool.false_eq_true, if_false, if_true]
    · obtain ⟨hval, hs3⟩ := hwf.unimod_val d hd hu
      have heff : (effMonos sizes.length monos unimods).getD d false = false := by
        unfold effMonos
        rw [if_neg (countNonZeros_pos_of_unimod hu)]
        exact hm
      have key := linear_init_valley_peak_along_unimodal sizes monos unimods a b hab idx hl d hd heff hs3
        (coord idx d) hlt
      rw [setc_coord_self hidl] at key
      rw [pairKind_unimod _ _ _ hu]
      by_cases hc : (unimods.getD d 0 = -1 ∧ coord idx d < sizes.getD d 0 / 2) ∨
          (unimods.getD d 0 = 1 ∧ ¬ coord idx d < sizes.getD d 0 / 2)
      · rw [if_pos hc]
        rcases hc with ⟨e, hf⟩ | ⟨e, hf⟩
        · exact (key.2 e).1 hf
        · exact (key.1 e).2 (Nat.le_of_not_lt hf)
      · rw [if_neg hc]
        rcases hval with h1 | h1
        · have hf : coord idx d < sizes.getD d 0 / 2 := by
            by_contra hn; exact hc (Or.inr ⟨h1, hn⟩)
          exact (key.1 h1).1 hf
        · have hf : ¬ coord idx d < sizes.getD d 0 / 2 := fun hn => hc (Or.inl ⟨h1, hn⟩)
          exact (key.2 h1).2 (Nat.le_of_not_lt hf)

/-- the default range `default_init_params(output_min, output_max)` lies inside the output bounds -/
theorem default_range_inside (lo hi : Option ℚ) (hb : ∀ x y, lo = some x → hi = some y → x ≤ y) :
    (defaultInitParams lo hi).1 ≤ (defaultInitParams lo hi).2 ∧
    (∀ l, lo = some l → l ≤ (defaultInitParams lo hi).1) ∧ (∀ h, hi = some h → (defaultInitParams lo hi).2 ≤ h) := by
  obtain ⟨h1, h2, h3, _⟩ := default_init_params_spec lo hi hb
  exact ⟨h3, fun l hl => le_of_eq (h1 l hl).symm, fun h hh => le_of_eq (h2 h hh)⟩

/-- **T5 (linear initialisation, the whole constraint)**: a `Lattice` with monotonicities, unimodalities
and bounds, built with the linear initialiser on ANY range `a ≤ b` inside the output bounds (the
default one or an explicit `LinearInitializer(output_min=a, output_max=b)` / `RTL(init_min, init_max)`):
`LatticeConstraints.__call__` — both modes, every iteration count — returns the initial kernel. -/
theorem linear_init_is_fixpoint_of_constraint (c : LCfg) (hs : ShapeOnly c.d)
    (hwf : LinWF c.d.sizes c.d.mono c.d.unimod) (hb : BoundsWF c.lo c.hi) (a b : ℚ) (hab : a ≤ b)
    (hlo : ∀ l, c.lo = some l → l ≤ a) (hhi : ∀ h, c.hi = some h → b ≤ h) :
    Table.vals c.d.sizes (latticeConstraintT c (linearInitT c.d.sizes c.d.mono c.d.unimod a b)) =
      Table.vals c.d.sizes (linearInitT c.d.sizes c.d.mono c.d.unimod a b) := by
  have hag : AgreeOn c.d.sizes (linearInitT c.d.sizes c.d.mono c.d.unimod a b).get
      (linearInit c.d.sizes c.d.mono c.d.unimod a b) := agreeOn_tabulate _ _
  have hmm := (linearInit_min_max c.d.sizes c.d.mono c.d.unimod a b hwf hab).1
  apply feasible_is_fixpoint_of_constraint c (by rw [hs.2.1]; exact fun _ h => (by cases h)) hb
  · apply feasibleD_of_pairs c.d hs
    intro k hk idx hr hlt
    have := linear_init_pairsOK c.d.sizes c.d.mono c.d.unimod a b hwf hab k hk idx hr hlt
    rw [hag idx hr, hag _ (inRange_setc hr hlt)]
    exact this
  · intro idx hr
    rw [hag idx hr]
    exact ⟨fun l hl => le_trans (hlo l hl) (hmm idx hr).1, fun h hh => le_trans (hmm idx hr).2 (hhi h hh)⟩

/-- … in particular with the layer's default range -/
theorem default_linear_init_is_fixpoint_of_constraint (c : LCfg) (hs : ShapeOnly c.d)
    (hwf : LinWF c.d.sizes c.d.mono c.d.unimod) (hb : BoundsWF c.lo c.hi) :
    let r := defaultInitParams c.lo c.hi
    Table.vals c.d.sizes (latticeConstraintT c (linearInitT c.d.sizes c.d.mono c.d.unimod r.1 r.2)) =
      Table.vals c.d.sizes (linearInitT c.d.sizes c.d.mono c.d.unimod r.1 r.2) := by
  intro r
  obtain ⟨h1, h2, h3⟩ := default_range_inside c.lo c.hi (fun x y hx hy => le_of_lt (hb x y hx hy))
  exact linear_init_is_fixpoint_of_constraint c hs hwf hb r.1 r.2 h1 h2 h3

/-- **T5 (random monotonic initialisation, the whole constraint)**, monotonicity + bounds (no
unimodality: the initial kernel is non-decreasing along EVERY dimension, which a valley / peak
contradicts — the harness counts those configurations as an observation), any draws from any range
`[a, b]` inside the output bounds, every shuffle. -/
theorem random_monotonic_init_is_fixpoint_of_constraint (c : LCfg) (hs : ShapeOnly c.d)
    (hu : ∀ d, c.d.unimod.getD d 0 = 0) (hpos : ∀ s ∈ c.d.sizes, 0 < s) (hb : BoundsWF c.lo c.hi)
    (a b : ℚ) (hlo : ∀ l, c.lo = some l → l ≤ a) (hhi : ∀ h, c.hi = some h → b ≤ h)
    (perms : List (List Idx)) (sample : List ℚ) (hsmp : ∀ v ∈ sample, a ≤ v ∧ v ≤ b) (t : Table)
    (h : randomMonotonicInitT c.d.sizes perms sample = .ok t) :
    Table.vals c.d.sizes (latticeConstraintT c t) = Table.vals c.d.sizes t := by
  unfold randomMonotonicInitT at h
  cases hw : randomMonotonicInit c.d.sizes perms sample with
  | error e => rw [hw] at h; cases h
  | ok w =>
    rw [hw] at h
    simp only [Except.map, Except.ok.injEq] at h
    subst h
    obtain ⟨hm, hr⟩ := random_monotonic_init_monotone_and_in_range c.d.sizes hpos perms sample a b hsmp w hw
    have hag : AgreeOn c.d.sizes (tabulate c.d.sizes w).get w := agreeOn_tabulate _ _
    apply feasible_is_fixpoint_of_constraint c (by rw [hs.2.1]; exact fun _ h => (by cases h)) hb
    · apply feasibleD_of_pairs c.d hs
      intro k hk idx hrr hlt
      rw [hag idx hrr, hag _ (inRange_setc hrr hlt), hu k]
      cases hmk : c.d.mono.getD k false with
      | true => simp only [pairKind, if_true]; exact hm k idx hrr hk hlt
      | false => simp only [pairKind, Bool.false_eq_true, if_false, if_true]
    · intro idx hrr
      rw [hag idx hrr]
      exact ⟨fun l hl => le_trans (hlo l hl) (hr idx hrr).1, fun h' hh => le_trans (hr idx hrr).2 (hhi h' hh)⟩

/-- **T5 (assert_constraints), linear initialisation**: C12's model of `lattice_lib.assert_constraints`
accepts the linear initial kernel of a layer with monotonicities and bounds, for every `eps ≥ 0` and any
range inside the bounds. (`monos` is the 0/1 vector the layer hands to `assert_constraints`.) -/
theorem linear_init_accepted (sizes : List Nat) (mono : List Bool) (monos : List Int) (unimods : List Int)
    (lo hi : Option ℚ) (a b eps : ℚ) (heps : 0 ≤ eps) (hab : a ≤ b) (hwf : LinWF sizes mono unimods)
    (hmon : ∀ d, d < sizes.length → monos.getD d 0 = 1 → mono.getD d false = true)
    (hml : monos.length ≤ sizes.length)
    (hlo : ∀ l, lo = some l → l ≤ a) (hhi : ∀ h, hi = some h → b ≤ h) :
    Tfl.Asserts.acceptsLatticeW ⟨sizes, monos, [], [], [], [], [], lo, hi⟩ (linearInit sizes mono unimods a b) eps = true := by
  have hmm := (linearInit_min_max sizes mono unimods a b hwf hab).1
  apply monotone_inbounds_accepted sizes monos lo hi _ eps heps hml
  · intro d hd hm
    exact linear_init_monoAx sizes mono unimods a b hab d (effMonos_of_mono hd (hmon d hd hm))
  · intro idx hr
    exact ⟨fun l hl => le_trans (hlo l hl) (hmm idx hr).1, fun h hh => le_trans (hmm idx hr).2 (hhi h hh)⟩

/-- **T5 (assert_constraints), random monotonic initialisation** -/
theorem random_monotonic_init_accepted (sizes : List Nat) (hpos : ∀ s ∈ sizes, 0 < s) (monos : List Int)
    (lo hi : Option ℚ) (a b eps : ℚ) (heps : 0 ≤ eps) (hml : monos.length ≤ sizes.length)
    (hlo : ∀ l, lo = some l → l ≤ a) (hhi : ∀ h, hi = some h → b ≤ h)
    (perms : List (List Idx)) (sample : List ℚ) (hsmp : ∀ v ∈ sample, a ≤ v ∧ v ≤ b) (w : W)
    (h : randomMonotonicInit sizes perms sample = .ok w) :
    Tfl.Asserts.acceptsLatticeW ⟨sizes, monos, [], [], [], [], [], lo, hi⟩ w eps = true := by
  obtain ⟨hm, hr⟩ := random_monotonic_init_monotone_and_in_range sizes hpos perms sample a b hsmp w h
  apply monotone_inbounds_accepted sizes monos lo hi _ eps heps hml
  · intro d _ _; exact hm d
  · intro idx hrr
    exact ⟨fun l hl => le_trans (hlo l hl) (hr idx hrr).1, fun h' hh => le_trans (hr idx hrr).2 (hhi h' hh)⟩

/-! ## totality of the random monotonic initialiser -/

/-- **T2, totality**: the hypothesis `randomMonotonicInit … = .ok w` of the T2 / T5 theorems is not
restrictive. For every lattice with positive sizes, EVERY outcome of the shuffles (`ValidShuffles`: each
recorded list is a permutation of the level the loop computed — all `np.random.shuffle` can do) and
every sample with one draw per parameter index, the model returns a kernel; valid shuffle lists exist
(`validShuffles_exist`), so the theorems are not vacuous for any lattice. -/
theorem random_monotonic_init_total (sizes : List Nat) (hpos : ∀ s ∈ sizes, 0 < s) (perms : List (List Idx))
    (hv : ValidShuffles sizes [zeroIdx sizes] perms) :
    ∃ order, rmOrder sizes perms = .ok order ∧ LevelOrder sizes order ∧
      ∀ sample : List ℚ, sample.length = order.length →
        randomMonotonicInit sizes perms sample = .ok (rmWeights order sample) := by
  obtain ⟨order, ho⟩ := rmOrder_total sizes hpos perms hv
  refine ⟨order, ho, rmOrder_levelOrder sizes hpos perms order ho, fun sample hl => ?_⟩
  simp only [randomMonotonicInit, ho, hl, if_true]

theorem random_monotonic_init_exists (sizes : List Nat) (hpos : ∀ s ∈ sizes, 0 < s) :
    ∃ perms order, rmOrder sizes perms = .ok order ∧
      ∀ sample : List ℚ, sample.length = order.length → ∃ w, randomMonotonicInit sizes perms sample = .ok w := by
  obtain ⟨order, ho, _, h⟩ := random_monotonic_init_total sizes hpos _ (validShuffles_exist sizes hpos)
  exact ⟨_, order, ho, fun sample hl => ⟨_, h sample hl⟩⟩

/-! ## explicit initialisation ranges -/

/-- **finding F-C10-e (model side)**: an explicit range reaching below `output_min` (or above
`output_max`) gives an initial kernel that violates the layer's bound — the range is attained
(`linear_init_min_max`). Nothing in `Lattice.__init__` / `RTL.__init__` relates the two. -/
theorem explicit_range_outside_bounds_violates (sizes : List Nat) (monos : List Bool) (unimods : List Int)
    (hwf : LinWF sizes monos unimods) (a b : ℚ) (hab : a ≤ b) :
    (∀ l : ℚ, a < l → ∃ idx, InRange sizes idx ∧ linearInit sizes monos unimods a b idx < l) ∧
    (∀ h : ℚ, h < b → ∃ idx, InRange sizes idx ∧ h < linearInit sizes monos unimods a b idx) := by
  obtain ⟨_, ⟨i1, hi1, e1⟩, ⟨i2, hi2, e2⟩⟩ := linear_init_min_max sizes monos unimods a b hwf hab
  exact ⟨fun l hl => ⟨i1, hi1, by rw [e1]; exact hl⟩, fun h hh => ⟨i2, hi2, by rw [e2]; exact hh⟩⟩

/-- the instance of the audit: `RTL(output_min=0, output_max=1, init_min=-1, init_max=2)` /
`LinearInitializer([3], [1], -1, 2)`: kernel `[-1, 1/2, 2]`, and the constraint (clip) moves it -/
theorem explicit_range_witness :
    Table.vals [3] (linearInitT [3] [true] [0] (-1) 2) = [-1, 1/2, 2] ∧
    Table.vals [3] (latticeConstraintT { d := { sizes := [3], mono := [true] }, lo := some 0, hi := some 1 }
      (linearInitT [3] [true] [0] (-1) 2)) = [0, 1/2, 1] := by decide +kernel

/-- bound-side premise of C07 for draws from an EXPLICIT range `[a, b]`, `0 ≤ a`, `b ≤ 1` when a bound is set -/
theorem boundOkK_kflInit_explicit (L : Nat) (ms : List Bool) (olo ohi : Option ℚ) (a b : ℚ) (ha : 0 ≤ a)
    (hb1 : olo.isSome = true → ohi.isSome = true → b ≤ 1) (scale : List ℚ) (samples : List (List (List ℚ)))
    (h : ∀ smp ∈ samples, SamplesOk L ms a b smp) : Tfl.Kfl.BoundOkK olo ohi (kflInit ms scale samples) := by
  intro kt hkt
  obtain ⟨s, smp, hsmp, rfl⟩ := mem_kflInit hkt
  have hs := h smp hsmp
  have hent : ∀ k ∈ kflInitTerm ms s smp, ∀ v ∈ k, ∃ x c : ℚ, a ≤ x ∧ x ≤ b ∧ 0 ≤ c ∧ c ≤ 1 ∧ v = c * x := by
    intro k hk v hv
    obtain ⟨col, hcol, x, hx, c, hc0, hc1, rfl⟩ := mem_kflInitTerm hk hv
    exact ⟨x, c, ((hs.2 col hcol).2 x hx).1, ((hs.2 col hcol).2 x hx).2, hc0, hc1, rfl⟩
  unfold Tfl.Kfl.TermBoundOk
  cases olo <;> cases ohi <;> simp only
  · intro k hk v hv
    obtain ⟨x, c, h1, _, h3, _, rfl⟩ := hent k hk v hv
    exact mul_nonneg h3 (le_trans ha h1)
  · intro k hk v hv
    obtain ⟨x, c, h1, _, h3, _, rfl⟩ := hent k hk v hv
    exact mul_nonneg h3 (le_trans ha h1)
  · apply maxOutput_le_one
    intro k hk v hv
    obtain ⟨x, c, h1, h2, h3, h4, rfl⟩ := hent k hk v hv
    have hb := hb1 rfl rfl
    rw [abs_le]; constructor <;> nlinarith

/-- **T4 for EXPLICIT ranges** (`KFLRandomMonotonicInitializer(init_min=a, init_max=b)`,
`RTL(parameterization='kronecker_factored', init_min, init_max)`): any range with `0 ≤ a`, and `b ≤ 1`
when both output bounds are set, meets the premises `KOk` / `SOk` of C07 — hence a monotone function
within the bounds (`Tfl.C07.output_monotone`, `output_bounded`), exactly as for the default range. -/
theorem kfl_init_explicit_range_meets_C07_premises (L : Nat) (ms : List Bool) (olo ohi : Option ℚ)
    (hlh : ∀ l h, olo = some l → ohi = some h → l ≤ h) (T : Nat) (a b : ℚ) (ha : 0 ≤ a)
    (hb1 : olo.isSome = true → ohi.isSome = true → b ≤ 1) (samples : List (List (List ℚ)))
    (hs : ∀ smp ∈ samples, SamplesOk L ms a b smp) :
    Tfl.Kfl.KOk L ms olo ohi ⟨kflInit ms (scaleInit T olo ohi) samples, scaleInit T olo ohi⟩ ∧
    Tfl.Kfl.SOk olo ohi (scaleInit T olo ohi) :=
  ⟨⟨fun hany => kernelOk_kflInit L ms hany a b ha _ samples hs,
      boundOkK_kflInit_explicit L ms olo ohi a b ha hb1 _ samples hs⟩, sOk_scaleInit T olo ohi hlh⟩

/-- **finding F-C10-f (model side)**: with a NEGATIVE explicit range the sorted factors are
non-decreasing but negative, and a product of two of them DEcreases: 2 vertices, 2 monotone inputs, one
term, scale 1, draws `[-1, -1/2]` per dimension: `f(0, 0) = 1 > f(1, 0) = 1/2`. -/
theorem kfl_negative_range_not_monotone :
    Tfl.Kfl.eval 2 true (kflInit [true, true] [1] [[[-1, -1/2], [-1, -1/2]]]) [1] 0 [1, 0] <
    Tfl.Kfl.eval 2 true (kflInit [true, true] [1] [[[-1, -1/2], [-1, -1/2]]]) [1] 0 [0, 0] := by decide +kernel

end Tfl.C10
