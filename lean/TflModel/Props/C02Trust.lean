import TflModel.Props.C02Cell
import TflModel.Lemmas.EdgeworthW
/-!
# C02/T5 — the hypothesis `EdgeworthAx` IS the invariant the Edgeworth projection of C01 establishes

`Tfl.Lat.EdgeOK sizes tr w` (Lemmas/EdgeworthW.lean; what `edgeworthOne` / `project` deliver and what
`assert_constraints` checks, C01) is stated with `eviol` over grid positions `(i, j)` and
behind-positions. Read at the vertex itself (`i = idx_m`, `j = idx_c`) it is `EdgeworthAx` for the
positive direction and `EdgeworthAx` of `−w` for the negative one, so `C02_T5_edgeworth_axes(_neg)`
apply to every kernel the constraint has been applied to.
-/
namespace Tfl.C02
open Tfl Tfl.LatticeEval

private theorem coord_bump_other (P : Idx) (m c : Nat) (hmc : m ≠ c) : coord (bump P m) c = coord P c := by
  rw [coord_bump, if_neg (fun h => hmc h.1.symm)]

private theorem gat_at (w : W) (P : Idx) (m c : Nat) (hmc : m ≠ c) :
    Lat.gat w m c (coord P m) (coord P c) P = w P ∧
    Lat.gat w m c (coord P m + 1) (coord P c) P = w (bump P m) ∧
    Lat.gat w m c (coord P m) (coord P c + 1) P = w (bump P c) ∧
    Lat.gat w m c (coord P m + 1) (coord P c + 1) P = w (bump (bump P m) c) := by
  have hc := coord_bump_other P m c hmc
  refine ⟨?_, ?_, ?_, ?_⟩
  · show w (setc (setc P m (coord P m)) c (coord P c)) = _
    rw [LatticeEval.setc_coord_self, LatticeEval.setc_coord_self]
  · show w (setc (bump P m) c (coord P c)) = _
    rw [← hc, LatticeEval.setc_coord_self]
  · show w (setc (setc P m (coord P m)) c (coord P c + 1)) = _
    rw [LatticeEval.setc_coord_self]; rfl
  · show w (setc (bump P m) c (coord P c + 1)) = _
    rw [← hc]; rfl

/-- C01's invariant of a positive trust ⇒ the hypothesis of `C02_T5_edgeworth_axes`; of a negative
trust ⇒ the hypothesis of `C02_T5_edgeworth_axes_neg`. -/
theorem edgeworthAx_of_edgeOK (sizes : List Nat) (tr : Lat.Trust) (w : W) (hmc : tr.main ≠ tr.cond)
    (h : Lat.EdgeOK sizes tr w) :
    (tr.pos = true → EdgeworthAx sizes tr.main tr.cond w) ∧
    (tr.pos = false → EdgeworthAx sizes tr.main tr.cond (fun idx => -w idx)) := by
  constructor
  · intro hp idx hi h1 h2
    have := h idx (mem_allIdx.mp hi) (coord idx tr.main) (coord idx tr.cond) h1 h2
    obtain ⟨g1, g2, g3, g4⟩ := gat_at w idx tr.main tr.cond hmc
    simp only [hp, if_true, Lat.eviol, g1, g2, g3, g4] at this
    linarith
  · intro hp idx hi h1 h2
    have := h idx (mem_allIdx.mp hi) (coord idx tr.main) (coord idx tr.cond) h1 h2
    obtain ⟨g1, g2, g3, g4⟩ := gat_at w idx tr.main tr.cond hmc
    simp only [hp, Bool.false_eq_true, if_false, Lat.eviol, g1, g2, g3, g4] at this
    linarith

end Tfl.C02
