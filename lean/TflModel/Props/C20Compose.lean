import TflModel.Props.C20
import TflModel.Props.C06Compose
/-!
# C20 — the consequences for the OUTPUT OF THE CONSTRAINT of an accepted configuration

Props/C20.lean derives the function-level consequences (monotone, dominance, range dominance,
weighted average) from properties of a kernel column — the sign pattern, `k_weak ≤ k_dom`, the scaled
inequality — taken as hypotheses, or from the output of a single stage of the constraint. Here the
kernel `k` is what the WHOLE constraint returns, `Linear.project … w0 = .ok k`
(= `linear_lib.project`: sign clip → monotonic dominance → range dominance → normalisation, the
function the driver runs), for a configuration accepted by `linear_lib.verify_hyperparameters`
(`verifyLinear`). The only hypotheses are acceptance, the length of the raw column and that equation
defining `k`; the kernel-level premises come from the composite `Tfl.C06.accepted_project`
(Props/C06Compose.lean). The layer clips with the same `input_min` / `input_max` the constraint
scales with (`c.los`, `c.his`: `Linear.build` hands the same lists to both).

The weighted-average consequence needs the pre-normalised column not to be DEGENERATE (1-norm below
`_NORMALIZATION_EPS = 1e-8`); the degenerate case is finding F-C03-a seen through C20
(`weighted_average_fails_when_degenerate`).
-/
namespace Tfl.C20
open Tfl Tfl.Poset Tfl.Linear Tfl.Verify

/-- the constraint of an accepted configuration is total and what it returns meets every
kernel-level constraint: restatement of `Tfl.C06.accepted_project` for a given result `k` -/
theorem accepted_kernel (nid : Option Nat) (mv mdv rdv iminv imaxv : Val) (c : LinCfg)
    (h : verifyLinear nid mv mdv rdv iminv imaxv = .ok c) (ord : Linear.NormOrd)
    (w0 : List Rat) (hlen : w0.length = c.monos.length) (k : List Rat)
    (hk : Linear.project c.monos c.md c.rd c.los c.his ord w0 = .ok k) :
    k.length = w0.length ∧
    (∀ i, SignOk (getM c.monos i) (getV k i)) ∧
    (∀ p ∈ c.md, getV k p.2 ≤ getV k p.1) ∧
    (∀ p ∈ c.rd, getV (scalings c.monos c.rd c.los c.his) p.2 * getV k p.2 ≤
                  getV (scalings c.monos c.rd c.los c.his) p.1 * getV k p.1) := by
  obtain ⟨pre, out, _, ho, hl, hs, hm, hr, _⟩ := C06.accepted_project nid mv mdv rdv iminv imaxv c h ord w0 hlen
  have e : k = out := by rw [ho] at hk; exact (Except.ok.inj hk).symm
  subst e
  exact ⟨hl, hs, hm, hr⟩

/-- the constraint of an accepted configuration never raises -/
theorem accepted_kernel_exists (nid : Option Nat) (mv mdv rdv iminv imaxv : Val) (c : LinCfg)
    (h : verifyLinear nid mv mdv rdv iminv imaxv = .ok c) (ord : Linear.NormOrd)
    (w0 : List Rat) (hlen : w0.length = c.monos.length) :
    ∃ k, Linear.project c.monos c.md c.rd c.los c.his ord w0 = .ok k := by
  obtain ⟨_, out, _, ho, _⟩ := C06.accepted_project nid mv mdv rdv iminv imaxv c h ord w0 hlen
  exact ⟨out, ho⟩

/-- **C20 T2 (monotone in every constrained input), for the output of the constraint.** With the
kernel the constraint of an accepted configuration returns — for every raw column `w0`, every
normalisation order — the layer output is non-decreasing in every increasing input and
non-increasing in every decreasing input, for all values, all other inputs, every bias and every
bound configuration of the layer. -/
theorem accepted_monotone (nid : Option Nat) (mv mdv rdv iminv imaxv : Val) (c : LinCfg)
    (h : verifyLinear nid mv mdv rdv iminv imaxv = .ok c) (ord : Linear.NormOrd)
    (w0 : List Rat) (hlen : w0.length = c.monos.length) (k : List Rat)
    (hk : Linear.project c.monos c.md c.rd c.los c.his ord w0 = .ok k)
    (b : Option Rat) (los his : List (Option Rat)) (x : List Rat) (i : Nat) {v v' : Rat} (hv : v ≤ v') :
    (getM c.monos i = 1 → call k b los his (x.set i v) ≤ call k b los his (x.set i v')) ∧
    (getM c.monos i = -1 → call k b los his (x.set i v') ≤ call k b los his (x.set i v)) :=
  constrained_monotone c.monos k b los his x i
    ((accepted_kernel nid mv mdv rdv iminv imaxv c h ord w0 hlen k hk).2.1 i) hv

/-- **C20 T2 (monotonic dominance, per unit step), for the output of the constraint.** For every
listed `(dominant, weak)` pair of an accepted configuration and every step `δ ≥ 0` that leaves both
inputs unclipped, the output changes at least as much along the dominant input as along the weak. -/
theorem accepted_monotonic_dominance (nid : Option Nat) (mv mdv rdv iminv imaxv : Val) (c : LinCfg)
    (h : verifyLinear nid mv mdv rdv iminv imaxv = .ok c) (ord : Linear.NormOrd)
    (w0 : List Rat) (hlen : w0.length = c.monos.length) (k : List Rat)
    (hk : Linear.project c.monos c.md c.rd c.los c.his ord w0 = .ok k)
    (b : Option Rat) (los his : List (Option Rat)) (x : List Rat) (p : Nat × Nat) (hp : p ∈ c.md)
    (hd : p.1 < x.length) (hw : p.2 < x.length) (δ : Rat) (hδ : 0 ≤ δ)
    (hd0 : Unclipped los his p.1 (getV x p.1)) (hd1 : Unclipped los his p.1 (getV x p.1 + δ))
    (hw0 : Unclipped los his p.2 (getV x p.2)) (hw1 : Unclipped los his p.2 (getV x p.2 + δ)) :
    call k b los his (x.set p.2 (getV x p.2 + δ)) - call k b los his x ≤
      call k b los his (x.set p.1 (getV x p.1 + δ)) - call k b los his x :=
  monotonic_dominance_step k b los his x p.1 p.2 hd hw
    ((accepted_kernel nid mv mdv rdv iminv imaxv c h ord w0 hlen k hk).2.2.1 p hp) δ hδ hd0 hd1 hw0 hw1

/-- **C20 T2 (range dominance, across the full input ranges), for the output of the constraint.**
For every listed `(dominant, weak)` range-dominance pair of an accepted configuration both inputs
have a proper range `[lo, hi]`, `lo < hi` (a consequence of acceptance), both carry the same
monotonicity `±1`, and with the kernel the constraint returns the rise (increasing pair) resp. the
drop (decreasing pair) of the output across the dominant input's full range is at least that across
the weak input's full range — whatever the other inputs are. The layer clips with the configuration's
own `input_min` / `input_max`. -/
theorem accepted_range_dominance_call (nid : Option Nat) (mv mdv rdv iminv imaxv : Val) (c : LinCfg)
    (h : verifyLinear nid mv mdv rdv iminv imaxv = .ok c) (ord : Linear.NormOrd)
    (w0 : List Rat) (hlen : w0.length = c.monos.length) (k : List Rat)
    (hk : Linear.project c.monos c.md c.rd c.los c.his ord w0 = .ok k)
    (p : Nat × Nat) (hp : p ∈ c.rd) :
    ∃ ld hd' lw hw' : Rat,
      getO c.los p.1 = some ld ∧ getO c.his p.1 = some hd' ∧ ld < hd' ∧
      getO c.los p.2 = some lw ∧ getO c.his p.2 = some hw' ∧ lw < hw' ∧
      getM c.monos p.1 = getM c.monos p.2 ∧ (getM c.monos p.1 = 1 ∨ getM c.monos p.1 = -1) ∧
      ∀ (b : Option Rat) (x y : List Rat), p.1 < x.length → p.2 < y.length →
        (getM c.monos p.1 = 1 →
          call k b c.los c.his (y.set p.2 hw') - call k b c.los c.his (y.set p.2 lw) ≤
            call k b c.los c.his (x.set p.1 hd') - call k b c.los c.his (x.set p.1 ld)) ∧
        (getM c.monos p.1 = -1 →
          call k b c.los c.his (y.set p.2 lw) - call k b c.los c.his (y.set p.2 hw') ≤
            call k b c.los c.his (x.set p.1 ld) - call k b c.los c.his (x.set p.1 hd')) := by
  obtain ⟨hm1, ld, hd', e1, e2, hlt1⟩ := verifyLinear_range h hp (k := p.1) (Or.inl rfl)
  obtain ⟨hm2, lw, hw', e3, e4, hlt2⟩ := verifyLinear_range h hp (k := p.2) (Or.inr rfl)
  have hsame := verifyLinear_rd_same h p hp
  have hpm : getM c.monos p.1 = 1 ∨ getM c.monos p.1 = -1 := by
    rcases verifyLinear_hdir h p hp p.1 (Or.inl rfl) with ⟨e, _⟩ | ⟨e, _⟩
    · exact Or.inl e
    · exact Or.inr e
  refine ⟨ld, hd', lw, hw', e1, e2, hlt1, e3, e4, hlt2, hsame, hpm, fun b x y hx hy => ?_⟩
  have hkr := (accepted_kernel nid mv mdv rdv iminv imaxv c h ord w0 hlen k hk).2.2.2 p hp
  have := constrained_range_dominance c.monos c.rd k b c.los c.his x y p.1 p.2 hp hm1 hm2 hx hy
    ld hd' lw hw' e1 e2 e3 e4 hlt1.le hlt2.le hkr
  exact ⟨fun e => this.1 e (hsame ▸ e), fun e => this.2 e (hsame ▸ e)⟩

/-- **C20 T2 (weighted average), for the output of the constraint — the NON-degenerate case.** On an
all-increasing accepted configuration with `normalization_order = 1`, for every raw column whose
PRE-normalised column `pre` (`projectPre`: after sign clip and dominance projections) is not below
the guard (`¬ norm1 pre < 1e-8`), the kernel the constraint returns makes the layer a weighted
average of its clipped inputs: output minus bias lies between any lower and upper bound of them.
The excluded, degenerate case is real: `weighted_average_fails_when_degenerate` (F-C03-a). -/
theorem accepted_weighted_average (nid : Option Nat) (mv mdv rdv iminv imaxv : Val) (c : LinCfg)
    (h : verifyLinear nid mv mdv rdv iminv imaxv = .ok c)
    (hall : ∀ i, i < c.monos.length → getM c.monos i = 1)
    (w0 : List Rat) (hlen : w0.length = c.monos.length) (pre k : List Rat)
    (hpre : projectPre c.monos c.md c.rd c.los c.his w0 = .ok pre)
    (hnd : ¬ norm1 pre < normEps)
    (hk : Linear.project c.monos c.md c.rd c.los c.his .l1 w0 = .ok k)
    (b : Option Rat) (los his : List (Option Rat)) (x : List Rat) (hx : x.length = c.monos.length)
    (m M : Rat)
    (hm : ∀ i, i < x.length → m ≤ clipBV (getV x i) (getO los i) (getO his i))
    (hM : ∀ i, i < x.length → clipBV (getV x i) (getO los i) (getO his i) ≤ M) :
    m ≤ call k b los his x - b.getD 0 ∧ call k b los his x - b.getD 0 ≤ M := by
  obtain ⟨pre', out, hpre', ho, hl, hs, _, _, h1, _⟩ :=
    C06.accepted_project nid mv mdv rdv iminv imaxv c h .l1 w0 hlen
  have e : k = out := by rw [ho] at hk; exact (Except.ok.inj hk).symm
  have e' : pre = pre' := by rw [hpre'] at hpre; exact (Except.ok.inj hpre).symm
  subst e; subst e'
  have hnn : ∀ i, 0 ≤ getV k i := by
    intro i
    by_cases hi : i < c.monos.length
    · exact (hs i).1 (hall i hi)
    · rw [getV_of_le (by rw [hl, hlen]; exact Nat.le_of_not_lt hi)]
  have hsum : rsum k = 1 := by
    rw [← norm1_eq_rsum_of_nonneg k (fun i _ => hnn i)]
    exact (h1 rfl).1 hnd
  exact weighted_average k b los his x (by rw [hl, hlen, hx]) hnn hsum m M hm hM

/-- **the degenerate case, counter-witness (F-C03-a seen through C20).**
`Linear(num_input_dims=2, monotonicities=[1, 1], normalization_order=1, use_bias=False)` is accepted;
its constraint maps the kernel `[-1, -2]` (all weights `≤ 0`) to `[0, 0]` — clipped to zero, 1-norm
`0 < 1e-8`, so the norm guard skips the normalisation — and the layer then outputs `0` at the input
`[5, 7]`, which is NOT between the inputs' minimum 5 and maximum 7: not a weighted average. The same
happens for a non-negative column below the guard, `[1/10^9, 0]`: the output at `[5, 7]` is `5/10^9`. -/
theorem weighted_average_fails_when_degenerate :
    outcome (linearConstraints ⟨.s false [.a (.int 1), .a (.int 1)], .a .none, .a .none, .a .none, .a .none⟩) = 0 ∧
    projectPre [1, 1] [] [] [] [] [-1, -2] = .ok [0, 0] ∧ norm1 [0, 0] < normEps ∧
    Linear.project [1, 1] [] [] [] [] .l1 [-1, -2] = .ok [0, 0] ∧
    call [0, 0] none [] [] [5, 7] = 0 ∧ ¬ (5 ≤ call [0, 0] none [] [] [5, 7]) ∧
    Linear.project [1, 1] [] [] [] [] .l1 [1/1000000000, 0] = .ok [1/1000000000, 0] ∧
    norm1 [1/1000000000, 0] < normEps ∧
    ¬ (5 ≤ call [1/1000000000, 0] none [] [] [5, 7]) := by
  decide +kernel

/-! ### non-vacuity: an accepted configuration with both kinds of dominance, and the hypotheses of
`accepted_weighted_average` on a concrete non-degenerate column -/
example : outcome (linearConstraints C06.exRaw) = 0 := by decide +kernel
example : projectPre [1, 1] [(0, 1)] [] [] [] [1, 3] = .ok [2, 2] ∧ ¬ norm1 [2, 2] < normEps ∧
    Linear.project [1, 1] [(0, 1)] [] [] [] .l1 [1, 3] = .ok [1/2, 1/2] ∧
    call [1/2, 1/2] none [some 0, none] [some 1, none] [9, 2] = 3/2 := by decide +kernel

end Tfl.C20
