import TflModel.Props.C10
import TflModel.Props.C04
/-!
# C10 — the PWL initialisers are fixed points of the PWLCalibration weight constraint (C04)

`pwlLinearInit nk a b mono kp` (`pwl_calibration_lib.linear_initializer`: equal heights for `kp = none`,
equal slopes for `kp = some keypoints`, increasing or — `mono = -1` — decreasing) on a range `a ≤ b`
that lies inside the configured bounds and ends on the clamped ones is feasible for the constraint
configuration (`MonoOk`, `BoundsOk`, `ClampOk` of C04), hence — by C04's `feasible_unchanged` —
`project_all_constraints` (`Tfl.PwlProj.projectAll`: the Dykstra loop with its `last_change`
bookkeeping and the finalisation) returns it unchanged for EVERY iteration count. Convexity is not a
monotonicity / bound constraint (statement of C10) and equal heights over non-uniform keypoints are not
convex: `c.conv = 0`.
-/
namespace Tfl.C10
open Tfl Tfl.Init Tfl.PwlProj

theorem cumsumFrom_between : ∀ (hs : List ℚ) (acc : ℚ), (∀ h ∈ hs, 0 ≤ h) →
    ∀ y ∈ cumsumFrom acc hs, acc ≤ y ∧ y ≤ acc + rsum hs
  | [], _, _, y, hy => by simp [cumsumFrom] at hy
  | h :: t, acc, hnn, y, hy => by
    have h0 := hnn h (List.mem_cons_self ..)
    have ht : 0 ≤ rsum t := Tfl.Kfl.rsum_nonneg t (fun v hv => hnn v (List.mem_cons_of_mem _ hv))
    simp only [cumsumFrom, List.mem_cons] at hy
    simp only [rsum]
    rcases hy with rfl | hy
    · constructor <;> linarith
    · have := cumsumFrom_between t (acc + h) (fun v hv => hnn v (List.mem_cons_of_mem _ hv)) y hy
      constructor <;> linarith

/-- keypoint outputs of non-negative heights run from the bias up to `bias + Σ heights` -/
theorem outputs_between (b : ℚ) (hs : List ℚ) (hnn : ∀ h ∈ hs, 0 ≤ h) :
    ∀ y ∈ outputs b hs, b ≤ y ∧ y ≤ b + rsum hs := by
  have ht : 0 ≤ rsum hs := Tfl.Kfl.rsum_nonneg hs hnn
  intro y hy
  simp only [outputs, List.mem_cons] at hy
  rcases hy with rfl | hy
  · constructor <;> linarith
  · exact cumsumFrom_between hs b hnn y hy

theorem cumsumFrom_between_neg : ∀ (hs : List ℚ) (acc : ℚ), (∀ h ∈ hs, h ≤ 0) →
    ∀ y ∈ cumsumFrom acc hs, acc + rsum hs ≤ y ∧ y ≤ acc
  | [], _, _, y, hy => by simp [cumsumFrom] at hy
  | h :: t, acc, hnn, y, hy => by
    have h0 := hnn h (List.mem_cons_self ..)
    have ht : 0 ≤ rsum (t.map (fun x => -x)) := Tfl.Kfl.rsum_nonneg _ (fun v hv => by
      obtain ⟨x, hx, rfl⟩ := List.mem_map.mp hv
      have := hnn x (List.mem_cons_of_mem _ hx); linarith)
    rw [rsum_map_neg] at ht
    simp only [cumsumFrom, List.mem_cons] at hy
    simp only [rsum]
    rcases hy with rfl | hy
    · constructor <;> linarith
    · have := cumsumFrom_between_neg t (acc + h) (fun v hv => hnn v (List.mem_cons_of_mem _ hv)) y hy
      constructor <;> linarith

theorem outputs_between_neg (b : ℚ) (hs : List ℚ) (hnn : ∀ h ∈ hs, h ≤ 0) :
    ∀ y ∈ outputs b hs, b + rsum hs ≤ y ∧ y ≤ b := by
  have ht : 0 ≤ rsum (hs.map (fun x => -x)) := Tfl.Kfl.rsum_nonneg _ (fun v hv => by
    obtain ⟨x, hx, rfl⟩ := List.mem_map.mp hv
    have := hnn x hx; linarith)
  rw [rsum_map_neg] at ht
  intro y hy
  simp only [outputs, List.mem_cons] at hy
  rcases hy with rfl | hy
  · constructor <;> linarith
  · exact cumsumFrom_between_neg hs b hnn y hy

/-- what the constructor wiring guarantees about the range `[a, b]` the initialiser is given,
relative to the constraint configuration: inside the bounds that are set, ON the clamped ones -/
structure RangeOk (c : Cfg) (a b : ℚ) : Prop where
  le : a ≤ b
  lo : c.minC ≠ .none → c.omin ≤ a
  hi : c.maxC ≠ .none → b ≤ c.omax
  clo : c.minC = .clamped → a = c.omin
  chi : c.maxC = .clamped → b = c.omax
  noclamp : c.mono = 0 → c.minC ≠ .clamped ∧ c.maxC ≠ .clamped

/-- feasibility of an initial column whose "increasing version" has non-negative heights adding up to
`b - a`: both directions at once -/
theorem pwl_init_feasible (c : Cfg) (a b : ℚ) (hr : RangeOk c a b) (inc : List ℚ) (hnn : ∀ h ∈ inc, 0 ≤ h)
    (hsum : rsum inc = b - a) :
    let init : ℚ × List ℚ := if c.mono = -1 then (b, inc.map (fun h => -h)) else (a, inc)
    MonoOk c.mono init.2 ∧ BoundsOk c init.1 init.2 ∧ ClampOk c init.1 init.2 := by
  intro init
  by_cases hm : c.mono = -1
  · have e : init = (b, inc.map (fun h => -h)) := by simp only [init, hm, if_true]
    rw [e]
    have hneg : ∀ h ∈ inc.map (fun h => -h), h ≤ 0 := by
      intro v hv
      obtain ⟨x, hx, rfl⟩ := List.mem_map.mp hv
      have := hnn x hx; linarith
    have hs : rsum (inc.map (fun h => -h)) = a - b := by rw [rsum_map_neg, hsum]; ring
    refine ⟨⟨fun h1 => by omega, fun _ => hneg⟩, ?_, ⟨fun h1 => by omega, fun _ => ⟨hr.chi, fun h2 => ?_⟩,
      fun h1 => by omega⟩⟩
    · intro y hy
      have := outputs_between_neg b _ hneg y hy
      rw [hs] at this
      exact ⟨fun h1 => by have := hr.lo h1; linarith, fun h1 => by have := hr.hi h1; linarith⟩
    · show b + rsum (inc.map (fun h => -h)) = c.omin
      rw [hs, ← hr.clo h2]; ring
  · have e : init = (a, inc) := by simp only [init, hm, if_false]
    rw [e]
    refine ⟨⟨fun _ => hnn, fun h1 => absurd h1 hm⟩, ?_, ⟨fun _ => ⟨hr.clo, fun h2 => ?_⟩, fun h1 => absurd h1 hm,
      hr.noclamp⟩⟩
    · intro y hy
      have := outputs_between a inc hnn y hy
      rw [hsum] at this
      exact ⟨fun h1 => by have := hr.lo h1; linarith, fun h1 => by have := hr.hi h1; linarith⟩
    · show a + rsum inc = c.omax
      rw [hsum, ← hr.chi h2]; ring

theorem pwlLinearInit_eq (nk : Nat) (a b : ℚ) (mono : Int) (kp : Option (List ℚ)) :
    pwlLinearInit nk a b mono kp =
      if mono = -1 then (b, (pwlLinearInit nk a b 1 kp).2.map (fun h => -h)) else (a, (pwlLinearInit nk a b 1 kp).2) := by
  by_cases hm : mono = -1
  · rw [if_pos hm]; subst hm; exact pwlLinearInit_dec nk a b kp
  · rw [if_neg hm]; exact pwlLinearInit_inc nk a b mono hm kp

/-- **T5 (PWL, equal heights)**: `PWLCalibration(kernel_initializer='equal_heights')` — increasing,
decreasing or unconstrained; any bounds / clamps; range = the bounds the layer derives or an explicit
`UniformOutputInitializer(output_min=a, output_max=b, …)` inside them: the weight constraint
(`project_all_constraints`, every iteration count) returns the initial column unchanged. -/
theorem pwl_equal_heights_is_fixpoint (c : Cfg) (hc : CfgOk c) (hcv : c.conv = 0) (L : List ℚ) (hl : AllPos L)
    (it nk : Nat) (hnk : 2 ≤ nk) (a b : ℚ) (hr : RangeOk c a b) :
    projectAll c L it (pwlLinearInit nk a b c.mono none).1 (pwlLinearInit nk a b c.mono none).2 =
      .ok (pwlLinearInit nk a b c.mono none) := by
  obtain ⟨_, _, hsum, hnn⟩ := pwl_equal_heights nk hnk a b hr.le
  obtain ⟨h1, h2, h3⟩ := pwl_init_feasible c a b hr _ hnn hsum
  rw [← pwlLinearInit_eq nk a b c.mono none] at h1 h2 h3
  exact (Tfl.C04.feasible_unchanged c hc L hl it _ _ (fun h => absurd hcv h) h1
    (by rw [hcv]; exact convOk_zero _ _) h2 h3).1

/-- **T5 (PWL, equal slopes)**: the same for `kernel_initializer='equal_slopes'` over strictly
increasing keypoints `kp`. -/
theorem pwl_equal_slopes_is_fixpoint (c : Cfg) (hc : CfgOk c) (hcv : c.conv = 0) (L : List ℚ) (hl : AllPos L)
    (it nk : Nat) (kp : List ℚ) (hpos : ∀ l ∈ diffs kp, 0 < l) (hne : diffs kp ≠ []) (a b : ℚ) (hr : RangeOk c a b) :
    projectAll c L it (pwlLinearInit nk a b c.mono (some kp)).1 (pwlLinearInit nk a b c.mono (some kp)).2 =
      .ok (pwlLinearInit nk a b c.mono (some kp)) := by
  obtain ⟨_, hsum, hnn⟩ := pwl_equal_slopes nk a b hr.le kp hpos hne
  obtain ⟨h1, h2, h3⟩ := pwl_init_feasible c a b hr _ hnn hsum
  rw [← pwlLinearInit_eq nk a b c.mono (some kp)] at h1 h2 h3
  exact (Tfl.C04.feasible_unchanged c hc L hl it _ _ (fun h => absurd hcv h) h1
    (by rw [hcv]; exact convOk_zero _ _) h2 h3).1

/-- the range `PWLCalibration.__init__` derives (`convert_all_constraints`: the output bounds, a
missing one replaced by the other, `(0, 0)` without bounds) meets `RangeOk` for the configuration
the same call wires into the constraint — for every choice of bounds and (with monotonicity) clamps -/
theorem pwl_default_range_ok (omin omax : Option ℚ) (clampMin clampMax : Bool) (mono conv : Int)
    (hb : ∀ x y, omin = some x → omax = some y → x ≤ y) (hcl : mono = 0 → clampMin = false ∧ clampMax = false) :
    let r := convertAllConstraints omin omax clampMin clampMax
    RangeOk ⟨mono, conv, r.1, r.2.1, r.2.2.1, r.2.2.2⟩ (pwlInitBounds omin omax).1 (pwlInitBounds omin omax).2 := by
  intro r
  cases omin with
  | none =>
    cases omax with
    | none =>
      exact ⟨le_refl _, fun h => absurd rfl h, fun h => absurd rfl h, fun h => (by cases h), fun h => (by cases h),
        fun _ => ⟨by simp [r, convertAllConstraints, convertConstraints], by simp [r, convertAllConstraints, convertConstraints]⟩⟩
    | some y =>
      refine ⟨le_refl _, fun h => absurd rfl h, fun _ => ?_, fun h => (by cases h), fun _ => ?_, fun hm => ?_⟩
      · simp only [r, convertAllConstraints, convertConstraints, pwlInitBounds]; split <;> exact le_refl _
      · simp only [r, convertAllConstraints, convertConstraints, pwlInitBounds]; split <;> rfl
      · have := (hcl hm).2
        simp [r, convertAllConstraints, convertConstraints, this]
  | some x =>
    cases omax with
    | none =>
      refine ⟨le_refl _, fun _ => ?_, fun h => absurd rfl h, fun _ => ?_, fun h => (by cases h), fun hm => ?_⟩
      · simp only [r, convertAllConstraints, convertConstraints, pwlInitBounds]; split <;> exact le_refl _
      · simp only [r, convertAllConstraints, convertConstraints, pwlInitBounds]; split <;> rfl
      · have := (hcl hm).1
        simp [r, convertAllConstraints, convertConstraints, this]
    | some y =>
      refine ⟨hb x y rfl rfl, fun _ => ?_, fun _ => ?_, fun _ => ?_, fun _ => ?_, fun hm => ?_⟩
      · simp only [r, convertAllConstraints, convertConstraints, pwlInitBounds]; split <;> exact le_refl _
      · simp only [r, convertAllConstraints, convertConstraints, pwlInitBounds]; split <;> exact le_refl _
      · simp only [r, convertAllConstraints, convertConstraints, pwlInitBounds]; split <;> rfl
      · simp only [r, convertAllConstraints, convertConstraints, pwlInitBounds]; split <;> rfl
      · have := hcl hm
        simp [r, convertAllConstraints, convertConstraints, this.1, this.2]

/-- non-vacuity: decreasing, bounds `[0, 2]` with `clamp_max`, 4 keypoints, 8 iterations: the equal-heights
column `[2, -2/3, -2/3, -2/3]` is returned unchanged; an explicit range reaching outside is moved -/
example : projectAll ⟨-1, 0, 0, 2, .bound, .clamped⟩ [1, 1, 2] 8 (pwlLinearInit 4 0 2 (-1) none).1
    (pwlLinearInit 4 0 2 (-1) none).2 = .ok (2, [-2/3, -2/3, -2/3]) := by decide +kernel
example : projectAll ⟨1, 0, 0, 1, .bound, .bound⟩ [1, 1, 2] 8 (pwlLinearInit 4 (-1) 2 1 none).1
    (pwlLinearInit 4 (-1) 2 1 none).2 ≠ .ok (pwlLinearInit 4 (-1) 2 1 none) := by decide +kernel

end Tfl.C10
