import TflModel.Lemmas.Asserts
import TflModel.Lemmas.LinearEval
import TflModel.Props.C06
import Mathlib.Algebra.Order.Field.Basic
/-!
# C12 — `assert_constraints` accepts exactly the weights that meet the covered constraints

Model: `Tfl.Asserts.accepts…` (`Model/Asserts.lean`), one conjunct per `tf.Assert` of the real
code with the same reductions and comparison operators.  Each theorem below has the form

  `accepts cfg w eps = true  ↔  every covered constraint has slack ≥ −eps`,

the covered constraints written out as explicit `∀`-statements over units' entries, pairs, squares
and vertices: *sound* (nothing violated by more than `eps` is accepted, whichever location offends)
and *complete* (everything within `eps` is accepted).  Linear / categorical / PWL / KFL statements
are per unit column (the layer's reductions run over all units: accepted iff every column is).
-/
namespace Tfl.C12
open Tfl Tfl.Poset Tfl.Linear Tfl.Asserts

/-! ## Categorical calibration -/

/-- **C12 (categorical).** Accepted iff every weight is within `eps` of the bounds that are set
and every ordering pair `(i, j)` has `w_j − w_i ≥ −eps` — *every* pair (the `reduce_max` of the
fixed code; the earlier `reduce_min … < eps` only looked at the best pair, F-C12-a). -/
theorem categorical_iff (lo hi : Option Rat) (cs : Pairs) (w : List Rat) (eps : Rat) :
    acceptsCategorical lo hi cs w eps = true ↔
      (∀ l, lo = some l → ∀ k, k < w.length → -eps ≤ getV w k - l) ∧
      (∀ h, hi = some h → ∀ k, k < w.length → -eps ≤ h - getV w k) ∧
      (∀ c ∈ cs, -eps ≤ getV w c.2 - getV w c.1) := by
  have h1 : catLo lo w eps = true ↔ ∀ l, lo = some l → ∀ k, k < w.length → -eps ≤ getV w k - l := by
    cases lo with
    | none => simp [catLo]
    | some l =>
      simp only [catLo, minGe_iff_getV, Option.some.injEq, forall_eq']
      exact ⟨fun h k hk => by linarith [h k hk], fun h k hk => by linarith [h k hk]⟩
  have h2 : catHi hi w eps = true ↔ ∀ h, hi = some h → ∀ k, k < w.length → -eps ≤ h - getV w k := by
    cases hi with
    | none => simp [catHi]
    | some l =>
      simp only [catHi, maxLe_iff_getV, Option.some.injEq, forall_eq']
      exact ⟨fun h k hk => by linarith [h k hk], fun h k hk => by linarith [h k hk]⟩
  have h3 : catPairs cs w eps = true ↔ ∀ c ∈ cs, -eps ≤ getV w c.2 - getV w c.1 := by
    simp only [catPairs, maxLe_iff, List.mem_map, forall_exists_index, and_imp, forall_apply_eq_imp_iff₂]
    exact ⟨fun h c hc => by linarith [h c hc], fun h c hc => by linarith [h c hc]⟩
  simp only [acceptsCategorical, Bool.and_eq_true, h1, h2, h3, and_assoc]

/-- counter-witness of the defect fixed by `e4a7f35` (F-C12-a): `[0, 5, 1]` with pairs
`(0,1), (1,2)` violates the second pair by 4 and is rejected by the model of the fixed code. -/
theorem categorical_witness_rejected :
    acceptsCategorical none none [(0, 1), (1, 2)] [0, 5, 1] (1 / 1000000) = false := by decide +kernel

/-! ## Linear -/

/-- `|r − 1| < eps ∨ |r| < 1e-8` for the 2-norm `r = sqrt(Σ w²)` is what the square-root-free
test of the model decides. -/
theorem normOk_l2_iff (w : List Rat) (eps r : Rat) (hr : 0 ≤ r) (hrr : r * r = normSq w) :
    normOk .l2 w eps = true ↔ (|r - 1| < eps ∨ |r| < normEps) := by
  have hne : (0 : Rat) < normEps := by norm_num [normEps]
  simp only [normOk, Bool.or_eq_true, Bool.and_eq_true, decide_eq_true_eq, ← hrr, abs_lt, abs_of_nonneg hr]
  constructor
  · rintro (⟨⟨h1, h2⟩, h3⟩ | h)
    · left
      refine ⟨?_, by nlinarith⟩
      rcases h3 with h3 | h3
      · linarith
      · by_contra hc
        have : r ≤ 1 - eps := by linarith
        by_cases he : 1 - eps < 0
        · linarith
        · nlinarith
    · right; nlinarith
  · rintro (⟨h1, h2⟩ | h)
    · left
      refine ⟨⟨by linarith, by nlinarith⟩, ?_⟩
      by_cases he : 1 - eps < 0
      · left; exact he
      · right; nlinarith
    · right; nlinarith

/-- **C12 (linear).** A kernel column is accepted iff
* (when some input is constrained) every entry has `m_i · w_i ≥ −eps`,
* every monotonic-dominance pair has `w_dom − w_weak ≥ −eps`,
* every range-dominance pair has `s_dom·w_dom − s_weak·w_weak ≥ −eps` with the code's scalings
  `s = ±(input_max − input_min)`,
* and the norm test of the configured order passes (`normOk`: `| ‖w‖ − 1 | < eps` or
  `‖w‖ < 1e-8`; spelled out for orders 1 / inf by `normOk_l1_iff` / `normOk_linf_iff`, for order 2
  by `normOk_l2_iff`). -/
theorem linear_iff (monos : List Int) (md rd : Pairs) (los his : List (Option Rat)) (ord : NormOrd)
    (w : List Rat) (eps : Rat) (hlen : monos.length = w.length) :
    acceptsLinear monos md rd los his ord w eps = true ↔
      ((∃ m ∈ monos, m ≠ 0) → ∀ k, k < w.length → -eps ≤ getV w k * (getM monos k : Rat)) ∧
      (∀ c ∈ md, -eps ≤ getV w c.1 - getV w c.2) ∧
      (∀ c ∈ rd, -eps ≤ getV (scalings monos los his) c.1 * getV w c.1 -
                        getV (scalings monos los his) c.2 * getV w c.2) ∧
      normOk ord w eps = true := by
  have hz : ∀ k, k < w.length →
      getV (List.zipWith (fun x (m : Int) => x * (m : Rat)) w monos) k = getV w k * (getM monos k : Rat) := by
    intro k hk
    have hk2 : k < monos.length := hlen ▸ hk
    simp [getV, getM, List.getD, hk, hk2]
  have h1 : linMono monos w eps = true ↔
      ((∃ m ∈ monos, m ≠ 0) → ∀ k, k < w.length → -eps ≤ getV w k * (getM monos k : Rat)) := by
    unfold linMono
    by_cases ha : monos.any (· != 0) = true
    · have hex : ∃ m ∈ monos, m ≠ 0 := by simpa using ha
      simp only [ha, if_true, minGe_iff_getV, List.length_zipWith, hlen, min_self]
      constructor
      · intro h _ k hk; rw [← hz k hk]; exact h k hk
      · intro h k hk; rw [hz k hk]; exact h hex k hk
    · have hex : ¬ ∃ m ∈ monos, m ≠ 0 := by simpa using ha
      simp [ha, hex]
  have h2 : linMdom md w eps = true ↔ ∀ c ∈ md, -eps ≤ getV w c.1 - getV w c.2 := by
    simp [linMdom, List.all_eq_true]
  have h3 : linRdom monos rd los his w eps = true ↔
      ∀ c ∈ rd, -eps ≤ getV (scalings monos los his) c.1 * getV w c.1 -
                        getV (scalings monos los his) c.2 * getV w c.2 := by
    simp [linRdom, List.all_eq_true]
  simp only [acceptsLinear, Bool.and_eq_true, h1, h2, h3, and_assoc]

theorem normOk_l1_iff (w : List Rat) (eps : Rat) :
    normOk .l1 w eps = true ↔ (|norm1 w - 1| < eps ∨ |norm1 w| < normEps) := by
  simp [normOk, ratAbs_eq]

theorem normOk_linf_iff (w : List Rat) (eps : Rat) :
    normOk .linf w eps = true ↔ (|normInf w - 1| < eps ∨ |normInf w| < normEps) := by
  simp [normOk, ratAbs_eq]

/-! ## PWL calibration -/

theorem prefixSums_spec (b : Rat) (hs : List Rat) (k : Nat) (hk : k ≤ hs.length) :
    getV (prefixSums b hs) k = b + rsum (hs.take k) := by
  induction hs generalizing b k with
  | nil =>
    have : k = 0 := by simpa using hk
    subst this; simp [prefixSums, getV, rsum]
  | cons h hs ih => cases k with
    | zero => simp [prefixSums, getV, rsum]
    | succ k =>
      have := ih (b + h) k (by simpa using hk)
      simp only [prefixSums, getV, List.getD_cons_succ, List.take_succ_cons, rsum] at this ⊢
      rw [this]; ring

theorem length_prefixSums (b : Rat) (hs : List Rat) : (prefixSums b hs).length = hs.length + 1 := by
  induction hs generalizing b with
  | nil => rfl
  | cons h hs ih => simp [prefixSums, ih]

/-- the layer evaluated at its own keypoints: output `k` is `bias + Σ_{j<k} heights_j` -/
theorem pwlOutputs_spec (b : Rat) (hs : List Rat) (k : Nat) (hk : k ≤ hs.length) :
    getV (pwlOutputs (b :: hs)) k = b + rsum (hs.take k) := prefixSums_spec b hs k hk

theorem length_diffs (l : List Rat) : (diffs l).length = l.length - 1 := by
  induction l with
  | nil => rfl
  | cons x xs ih => cases xs with
    | nil => rfl
    | cons y r => simp only [diffs, List.length_cons] at ih ⊢; omega

theorem getV_diffs (l : List Rat) (k : Nat) (hk : k + 1 < l.length) :
    getV (diffs l) k = getV l (k + 1) - getV l k := by
  induction l generalizing k with
  | nil => simp at hk
  | cons x xs ih => cases xs with
    | nil => simp at hk
    | cons y r => cases k with
      | zero => simp [diffs, getV]
      | succ k =>
        have := ih k (by simpa using hk)
        simpa [diffs, getV] using this

/-- **C12 (PWL), on the outputs at the keypoints.** Accepted iff
* lower bound: every output is `≥ output_min − eps`, and with `clamp_min` some output is
  `≤ output_min + eps` (the minimum matches the bound within `eps`);
* upper bound / `clamp_max` symmetrically;
* monotonicity `m ∈ {1, −1}`: every consecutive pair has `m·(out_{k+1} − out_k) ≥ −eps`.
Convexity is not among the asserted kinds. -/
theorem pwl_outputs_iff (mono : Int) (lo hi : Option Rat) (cmin cmax : Bool) (out : List Rat) (eps : Rat)
    (hne : out ≠ []) :
    acceptsPwlOutputs mono lo hi cmin cmax out eps = true ↔
      (∀ l, lo = some l → (∀ y ∈ out, -eps ≤ y - l) ∧ (cmin = true → ∃ y ∈ out, y - l ≤ eps)) ∧
      (∀ h, hi = some h → (∀ y ∈ out, -eps ≤ h - y) ∧ (cmax = true → ∃ y ∈ out, h - y ≤ eps)) ∧
      (mono ≠ 0 → ∀ k, k + 1 < out.length → -eps ≤ (mono : Rat) * (getV out (k + 1) - getV out k)) := by
  obtain ⟨x, xs, rfl⟩ := List.exists_cons_of_ne_nil hne
  have hminle : ∀ y ∈ x :: xs, rmin x xs ≤ y := by
    have := (le_rmin_iff (rmin x xs) x xs).mp le_rfl
    intro y hy
    rcases List.mem_cons.mp hy with e | e
    · rw [e]; exact this.1
    · exact this.2 y e
  have hmaxge : ∀ y ∈ x :: xs, y ≤ rmax x xs := by
    have := (rmax_le_iff (rmax x xs) x xs).mp le_rfl
    intro y hy
    rcases List.mem_cons.mp hy with e | e
    · rw [e]; exact this.1
    · exact this.2 y e
  have h1 : pwlLo lo cmin (x :: xs) eps = true ↔
      (∀ l, lo = some l → (∀ y ∈ x :: xs, -eps ≤ y - l) ∧ (cmin = true → ∃ y ∈ x :: xs, y - l ≤ eps)) := by
    cases lo with
    | none => simp [pwlLo]
    | some l =>
      simp only [pwlLo, Option.some.injEq, forall_eq']
      cases cmin
      · simp only [Bool.false_eq_true, if_false, decide_eq_true_eq, false_imp_iff, and_true]
        constructor
        · intro h y hy; linarith [hminle y hy]
        · intro h; linarith [h _ (rmin_mem x xs)]
      · simp only [if_true, decide_eq_true_eq, ratAbs_eq, abs_le, true_imp_iff]
        constructor
        · rintro ⟨h1, h2⟩
          exact ⟨fun y hy => by linarith [hminle y hy], ⟨_, rmin_mem x xs, h2⟩⟩
        · rintro ⟨h1, y, hy, h2⟩
          exact ⟨h1 _ (rmin_mem x xs), by linarith [hminle y hy]⟩
  have h2 : pwlHi hi cmax (x :: xs) eps = true ↔
      (∀ h, hi = some h → (∀ y ∈ x :: xs, -eps ≤ h - y) ∧ (cmax = true → ∃ y ∈ x :: xs, h - y ≤ eps)) := by
    cases hi with
    | none => simp [pwlHi]
    | some l =>
      simp only [pwlHi, Option.some.injEq, forall_eq']
      cases cmax
      · simp only [Bool.false_eq_true, if_false, decide_eq_true_eq, false_imp_iff, and_true]
        constructor
        · intro h y hy; linarith [hmaxge y hy]
        · intro h; linarith [h _ (rmax_mem x xs)]
      · simp only [if_true, decide_eq_true_eq, ratAbs_eq, abs_le, true_imp_iff]
        constructor
        · rintro ⟨h1, h2⟩
          exact ⟨fun y hy => by linarith [hmaxge y hy], ⟨_, rmax_mem x xs, by linarith⟩⟩
        · rintro ⟨h1, y, hy, h2⟩
          exact ⟨by linarith [hmaxge y hy], by linarith [h1 _ (rmax_mem x xs)]⟩
  have h3 : pwlMono mono (x :: xs) eps = true ↔
      (mono ≠ 0 → ∀ k, k + 1 < (x :: xs).length →
        -eps ≤ (mono : Rat) * (getV (x :: xs) (k + 1) - getV (x :: xs) k)) := by
    unfold pwlMono
    by_cases hm : mono = 0
    · simp [hm]
    · simp only [hm, if_false, minGe_iff_getV, List.length_map, length_diffs, ne_eq, not_false_eq_true,
        true_imp_iff]
      constructor
      · intro h k hk
        have := h k (by omega)
        rw [C06.getV_map _ _ (by rw [length_diffs]; omega), getV_diffs _ _ hk] at this
        linarith [mul_comm (mono : Rat) (getV (x :: xs) (k + 1) - getV (x :: xs) k)]
      · intro h k hk
        have hk' : k + 1 < (x :: xs).length := by omega
        rw [C06.getV_map _ _ (by rw [length_diffs]; omega), getV_diffs _ _ hk']
        linarith [h k hk', mul_comm (mono : Rat) (getV (x :: xs) (k + 1) - getV (x :: xs) k)]
  simp only [acceptsPwlOutputs, Bool.and_eq_true, h1, h2, h3, and_assoc]

/-- **C12 (PWL), layer level**: the kernel's outputs at the keypoints are judged as above and,
for a learned `missing_output`, that value is judged against the bounds only. -/
theorem pwl_iff (mono : Int) (lo hi : Option Rat) (cmin cmax : Bool) (missing : Option Rat)
    (kernel : List Rat) (eps : Rat) :
    acceptsPwl mono lo hi cmin cmax missing kernel eps = true ↔
      acceptsPwlOutputs mono lo hi cmin cmax (pwlOutputs kernel) eps = true ∧
      (∀ v, missing = some v → (∀ l, lo = some l → -eps ≤ v - l) ∧ (∀ h, hi = some h → -eps ≤ h - v)) := by
  cases missing with
  | none => simp [acceptsPwl]
  | some v =>
    have := pwl_outputs_iff 0 lo hi false false [v] eps (by simp)
    simp only [acceptsPwl, Bool.and_eq_true, this, Option.some.injEq, forall_eq']
    simp

/-! ## Lattice -/

theorem forCells_iff (sizes : List Nat) (a b na nb : Nat) (f : Nat → Nat → Idx → Rat) (eps : Rat) :
    forCells sizes a b na nb f eps = true ↔
      ∀ i, i < na → ∀ j, j < nb → ∀ idx ∈ allIdx sizes, coord idx a = i → coord idx b = j →
        -eps ≤ f i j idx := by
  simp only [forCells, cells, List.all_eq_true, List.mem_range, minGe_iff, List.mem_map, List.mem_filter,
    Bool.and_eq_true, beq_iff_eq]
  constructor
  · intro h i hi j hj idx hidx ha hb
    exact h i hi j hj _ ⟨idx, ⟨hidx, ha, hb⟩, rfl⟩
  · rintro h i hi j hj y ⟨idx, ⟨hidx, ha, hb⟩, rfl⟩
    exact h i hi j hj idx hidx ha hb

/-- covered: monotonicity — every adjacent layer pair along every increasing dimension, at every
position behind it (for `units > 1` the unit is one of the coordinates of `idx`) -/
def MonoOK (c : LatCfg) (w : W) (eps : Rat) : Prop :=
  ∀ d, d < c.monos.length → c.monos.getD d 0 = 1 → ∀ j, j < sz c d - 1 →
    ∀ idx ∈ allIdx c.sizes, coord idx d = j + 1 → -eps ≤ w idx - w (setc idx d j)

/-- covered: Edgeworth trust — every unit square of every (main, cond, direction) -/
def EdgeOK (c : LatCfg) (w : W) (eps : Rat) : Prop :=
  ∀ t ∈ c.edge, ∀ i, i < sz c t.1 - 1 → ∀ j, j < sz c t.2.1 - 1 →
    ∀ idx ∈ allIdx c.sizes, coord idx t.1 = i → coord idx t.2.1 = j →
      -eps ≤ (t.2.2 : Rat) *
        ((at2 w idx t.1 t.2.1 (i + 1) (j + 1) - at2 w idx t.1 t.2.1 i (j + 1)) -
         (at2 w idx t.1 t.2.1 (i + 1) j - at2 w idx t.1 t.2.1 i j))

/-- covered: trapezoid trust — both faces `main = 0` and `main = max`, every adjacent pair along cond -/
def TrapOK (c : LatCfg) (w : W) (eps : Rat) : Prop :=
  ∀ t ∈ c.trap, ∀ j, j < sz c t.2.1 - 1 →
    (∀ idx ∈ allIdx c.sizes, coord idx t.1 = 0 → coord idx t.2.1 = j →
      -eps ≤ (t.2.2 : Rat) * (at2 w idx t.1 t.2.1 0 j - at2 w idx t.1 t.2.1 0 (j + 1))) ∧
    (∀ idx ∈ allIdx c.sizes, coord idx t.1 = sz c t.1 - 1 → coord idx t.2.1 = j →
      -eps ≤ (t.2.2 : Rat) * (at2 w idx t.1 t.2.1 (sz c t.1 - 1) (j + 1) - at2 w idx t.1 t.2.1 (sz c t.1 - 1) j))

/-- covered: monotonic dominance — both triangles of every unit square of (dominant, weak) -/
def MdomOK (c : LatCfg) (w : W) (eps : Rat) : Prop :=
  ∀ t ∈ c.mdom, ∀ i, i < sz c t.1 - 1 → ∀ j, j < sz c t.2 - 1 →
    ∀ idx ∈ allIdx c.sizes, coord idx t.1 = i → coord idx t.2 = j →
      -eps ≤ at2 w idx t.1 t.2 (i + 1) j - (at2 w idx t.1 t.2 (i + 1) (j + 1) + at2 w idx t.1 t.2 i j) / 2 ∧
      -eps ≤ (at2 w idx t.1 t.2 (i + 1) (j + 1) + at2 w idx t.1 t.2 i j) / 2 - at2 w idx t.1 t.2 i (j + 1)

/-- covered: range dominance — every quadruple (dominant range at weak = j) vs (weak range at dominant = i) -/
def RdomOK (c : LatCfg) (w : W) (eps : Rat) : Prop :=
  ∀ t ∈ c.rdom, ∀ i, i < sz c t.1 → ∀ j, j < sz c t.2 →
    ∀ idx ∈ allIdx c.sizes, coord idx t.1 = i → coord idx t.2 = j →
      -eps ≤ (at2 w idx t.1 t.2 (sz c t.1 - 1) j - at2 w idx t.1 t.2 0 j) -
             (at2 w idx t.1 t.2 i (sz c t.2 - 1) - at2 w idx t.1 t.2 i 0)

/-- covered: joint monotonicity — both triangles of every unit square -/
def JointOK (c : LatCfg) (w : W) (eps : Rat) : Prop :=
  ∀ t ∈ c.jmono, ∀ i, i < sz c t.1 - 1 → ∀ j, j < sz c t.2 - 1 →
    ∀ idx ∈ allIdx c.sizes, coord idx t.1 = i → coord idx t.2 = j →
      -eps ≤ at2 w idx t.1 t.2 (i + 1) (j + 1) - (at2 w idx t.1 t.2 (i + 1) j + at2 w idx t.1 t.2 i (j + 1)) / 2 ∧
      -eps ≤ (at2 w idx t.1 t.2 (i + 1) j + at2 w idx t.1 t.2 i (j + 1)) / 2 - at2 w idx t.1 t.2 i j

/-- covered: output bounds at every vertex -/
def BoundsOK (c : LatCfg) (w : W) (eps : Rat) : Prop :=
  (∀ l, c.lo = some l → ∀ idx ∈ allIdx c.sizes, -eps ≤ w idx - l) ∧
  (∀ h, c.hi = some h → ∀ idx ∈ allIdx c.sizes, -eps ≤ h - w idx)

theorem latMono_iff (c : LatCfg) (w : W) (eps : Rat) : latMono c w eps = true ↔ MonoOK c w eps := by
  simp only [latMono, MonoOK, List.all_eq_true, List.mem_range]
  constructor
  · intro h d hd hm j hj idx hidx hc
    have := h d hd
    simp only [hm, if_true, List.all_eq_true, List.mem_range, minGe_iff, List.mem_map, List.mem_filter,
      beq_iff_eq] at this
    exact this j hj _ ⟨idx, ⟨hidx, hc⟩, rfl⟩
  · intro h d hd
    by_cases hm : c.monos.getD d 0 = 1
    · simp only [hm, if_true, List.all_eq_true, List.mem_range, minGe_iff, List.mem_map, List.mem_filter,
        beq_iff_eq]
      rintro j hj y ⟨idx, ⟨hidx, hc⟩, rfl⟩
      exact h d hd hm j hj idx hidx hc
    · rw [if_neg hm]

theorem latEdge_iff (c : LatCfg) (w : W) (eps : Rat) : latEdge c w eps = true ↔ EdgeOK c w eps := by
  simp only [latEdge, EdgeOK, List.all_eq_true]
  constructor
  · rintro h ⟨a, b, dir⟩ ht
    exact (forCells_iff _ _ _ _ _ _ _).mp (h (a, b, dir) ht)
  · rintro h ⟨a, b, dir⟩ ht
    exact (forCells_iff _ _ _ _ _ _ _).mpr (h (a, b, dir) ht)

theorem latTrap_iff (c : LatCfg) (w : W) (eps : Rat) : latTrap c w eps = true ↔ TrapOK c w eps := by
  simp only [latTrap, TrapOK, List.all_eq_true, List.mem_range, Bool.and_eq_true, cells, minGe_iff,
    List.mem_map, List.mem_filter, beq_iff_eq]
  constructor
  · rintro h ⟨a, b, dir⟩ ht j hj
    have := h (a, b, dir) ht j hj
    exact ⟨fun idx hidx h1 h2 => this.1 _ ⟨idx, ⟨hidx, h1, h2⟩, rfl⟩,
           fun idx hidx h1 h2 => this.2 _ ⟨idx, ⟨hidx, h1, h2⟩, rfl⟩⟩
  · rintro h ⟨a, b, dir⟩ ht j hj
    have := h (a, b, dir) ht j hj
    constructor
    · rintro y ⟨idx, ⟨hidx, h1, h2⟩, rfl⟩; exact this.1 idx hidx h1 h2
    · rintro y ⟨idx, ⟨hidx, h1, h2⟩, rfl⟩; exact this.2 idx hidx h1 h2

theorem latMdom_iff (c : LatCfg) (w : W) (eps : Rat) : latMdom c w eps = true ↔ MdomOK c w eps := by
  simp only [latMdom, MdomOK, List.all_eq_true, Bool.and_eq_true, forCells_iff]
  constructor
  · rintro h ⟨a, b⟩ ht i hi j hj idx hidx h1 h2
    have := h (a, b) ht
    exact ⟨this.1 i hi j hj idx hidx h1 h2, this.2 i hi j hj idx hidx h1 h2⟩
  · rintro h ⟨a, b⟩ ht
    exact ⟨fun i hi j hj idx hidx h1 h2 => (h (a, b) ht i hi j hj idx hidx h1 h2).1,
           fun i hi j hj idx hidx h1 h2 => (h (a, b) ht i hi j hj idx hidx h1 h2).2⟩

theorem latRdom_iff (c : LatCfg) (w : W) (eps : Rat) : latRdom c w eps = true ↔ RdomOK c w eps := by
  simp only [latRdom, RdomOK, List.all_eq_true, forCells_iff]

theorem latJoint_iff (c : LatCfg) (w : W) (eps : Rat) : latJoint c w eps = true ↔ JointOK c w eps := by
  simp only [latJoint, JointOK, List.all_eq_true, Bool.and_eq_true, forCells_iff]
  constructor
  · rintro h ⟨a, b⟩ ht i hi j hj idx hidx h1 h2
    have := h (a, b) ht
    exact ⟨this.1 i hi j hj idx hidx h1 h2, this.2 i hi j hj idx hidx h1 h2⟩
  · rintro h ⟨a, b⟩ ht
    exact ⟨fun i hi j hj idx hidx h1 h2 => (h (a, b) ht i hi j hj idx hidx h1 h2).1,
           fun i hi j hj idx hidx h1 h2 => (h (a, b) ht i hi j hj idx hidx h1 h2).2⟩

theorem latBounds_iff (c : LatCfg) (w : W) (eps : Rat) :
    (latLo c w eps = true ∧ latHi c w eps = true) ↔ BoundsOK c w eps := by
  unfold BoundsOK latLo latHi
  constructor
  · rintro ⟨h1, h2⟩
    constructor
    · intro l hl idx hidx
      rw [hl] at h1
      have := (minGe_iff _ _).mp h1 (w idx) (List.mem_map.mpr ⟨idx, hidx, rfl⟩)
      linarith
    · intro h hh idx hidx
      rw [hh] at h2
      have := (maxLe_iff _ _).mp h2 (w idx) (List.mem_map.mpr ⟨idx, hidx, rfl⟩)
      linarith
  · rintro ⟨h1, h2⟩
    constructor
    · cases hl : c.lo with
      | none => rfl
      | some l =>
        simp only [minGe_iff, List.mem_map]
        rintro y ⟨idx, hidx, rfl⟩
        linarith [h1 l hl idx hidx]
    · cases hh : c.hi with
      | none => rfl
      | some h =>
        simp only [maxLe_iff, List.mem_map]
        rintro y ⟨idx, hidx, rfl⟩
        linarith [h2 h hh idx hidx]

/-- **C12 (lattice).** For every configuration, kernel and `eps`: all assertions of
`lattice_lib.assert_constraints` pass iff every covered constraint — monotonicity of each adjacent
layer pair, each Edgeworth square, each trapezoid face pair, both triangles of each monotonic
dominance and joint monotonicity square, each range-dominance quadruple, both output bounds at
every vertex — holds up to `eps`, at every position (and unit) behind it. Unimodalities and joint
unimodalities are not among the asserted kinds. -/
theorem lattice_iff (c : LatCfg) (w : W) (eps : Rat) :
    acceptsLatticeW c w eps = true ↔
      MonoOK c w eps ∧ EdgeOK c w eps ∧ TrapOK c w eps ∧ MdomOK c w eps ∧ RdomOK c w eps ∧
      JointOK c w eps ∧ BoundsOK c w eps := by
  simp only [acceptsLatticeW, Bool.and_eq_true, latMono_iff, latEdge_iff, latTrap_iff, latMdom_iff,
    latRdom_iff, latJoint_iff, and_assoc, latBounds_iff]

/-- the layer-level call reshapes the kernel to `sizes ++ [units]` (for `units > 1`) with a
non-monotone trailing axis and runs the same assertions: "whichever unit offends". -/
theorem lattice_layer_iff (c : LatCfg) (units : Nat) (vals : List Rat) (eps : Rat) :
    acceptsLattice c units vals eps = true ↔
      let c' := withUnits c units
      let w := (Table.ofVals c'.sizes vals).get
      MonoOK c' w eps ∧ EdgeOK c' w eps ∧ TrapOK c' w eps ∧ MdomOK c' w eps ∧ RdomOK c' w eps ∧
      JointOK c' w eps ∧ BoundsOK c' w eps := by
  simp only [acceptsLattice, lattice_iff]

/-! ## KroneckerFactoredLattice (monotonicity part) -/

/-- **C12 (KFL, monotonicity).** Accepted iff for every monotone dimension, adjacent keypoint
pair and term, the difference of the `sign(scale)`-oriented factor weights is `≥ −eps`.
(The bound assertions — `kflBounds` — are modelled and tied but have no iff theorem here; kernel
non-negativity is not asserted when both bounds or none are given: coverage gap, see the evidence.) -/
theorem kfl_mono_iff (ls dims terms : Nat) (monos : List Int) (w : List (List (List Rat)))
    (scale : List Rat) (eps : Rat) :
    kflMono ls dims terms monos w scale eps = true ↔
      ∀ d, d < min dims monos.length → monos.getD d 0 ≠ 0 → ∀ j, j < ls - 1 → ∀ t, t < terms →
        -eps ≤ sign (getV scale t) * get3 w (j + 1) d t - sign (getV scale t) * get3 w j d t := by
  simp only [kflMono, List.all_eq_true, List.mem_range]
  constructor
  · intro h d hd hm j hj t ht
    have := h d hd
    rw [if_pos hm] at this
    simp only [List.all_eq_true, List.mem_range, minGe_iff, List.mem_map] at this
    exact this j hj _ ⟨t, ht, rfl⟩
  · intro h d hd
    by_cases hm : monos.getD d 0 ≠ 0
    · rw [if_pos hm]
      simp only [List.all_eq_true, List.mem_range, minGe_iff, List.mem_map]
      rintro j hj y ⟨t, ht, rfl⟩
      exact h d hd hm j hj t ht
    · rw [if_neg hm]

/-! ### non-vacuity: concrete kernels on both sides of every iff -/
example : acceptsLattice { sizes := [2, 2], monos := [1, 0], edge := [(0, 1, 1)], trap := [], mdom := [], rdom := [], jmono := [], lo := some 0, hi := some 1 } 1 [0, 0, 1/2, 1] (1 / 1000000) = true := by
  decide +kernel
-- one Edgeworth square violated (everything else fine): rejected
example : acceptsLattice { sizes := [2, 2], monos := [1, 0], edge := [(0, 1, 1)], trap := [], mdom := [], rdom := [], jmono := [], lo := some 0, hi := some 1 } 1 [0, 0, 1, 1/2] (1 / 1000000) = false := by
  decide +kernel
-- two units: only the second unit's monotonicity is violated: rejected
example : acceptsLattice { sizes := [2], monos := [1], edge := [], trap := [], mdom := [], rdom := [], jmono := [], lo := none, hi := none } 2 [0, 1, 1, 0] (1 / 1000000) = false := by
  decide +kernel
example : acceptsLattice { sizes := [2], monos := [1], edge := [], trap := [], mdom := [], rdom := [], jmono := [], lo := none, hi := none } 2 [0, 1, 1, 1] (1 / 1000000) = true := by
  decide +kernel
example : acceptsLinear [1, 1] [(0, 1)] [] [none, none] [none, none] .l1 [3/4, 1/4] (1 / 10000) = true := by
  decide +kernel
example : acceptsLinear [1, 1] [(0, 1)] [] [none, none] [none, none] .l1 [1/4, 3/4] (1 / 10000) = false := by
  decide +kernel
example : acceptsPwl 1 (some 0) (some 1) true false none [0, 1/2, 1/4] (1 / 1000000) = true := by decide +kernel
example : acceptsPwl 1 (some 0) (some 1) true false none [1/8, 1/2, 1/4] (1 / 1000000) = false := by decide +kernel

end Tfl.C12
