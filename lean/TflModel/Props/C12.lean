import TflModel.Lemmas.Asserts
import TflModel.Lemmas.LinearEval
import TflModel.Props.C06
import Mathlib.Algebra.Order.Field.Basic
/-!
# C12 — `assert_constraints` accepts exactly the weights that meet the covered constraints

Model: `Tfl.Asserts.accepts…` (`Model/Asserts.lean`), one conjunct per `tf.Assert` of the real
code with the same reductions and comparison operators.  Each theorem below has the form

  `accepts cfg w eps = true  ↔  every covered constraint has slack ≥ −eps`,

the covered constraints written out as explicit `∀`-statements over units' entries, pairs, squares
and vertices: *sound* (nothing violated by more than `eps` is accepted, whichever location offends)
and *complete* (everything within `eps` is accepted).  Linear / categorical / PWL / KFL statements
in this file are per unit column; `Props/C12Units.lean` models the layer-level calls on the whole
units-column kernel (the real reductions over the unit axis) and proves "accepted iff every unit column
is" (`*_layer_iff`), and that the PWL layer judges `keypoints_outputs()` = the prefix sums judged here
(`pwlLayerOutputs_eq`, `keypointsOutputs_eq_pwlOutputs`; `oldCallOutputs_eq`: these are the function's values
at its keypoints).
`Props/C12Norm.lean`: the order-2 norm test for every rational kernel (no rational root needed).
`Props/C12Bridge.lean`: at `eps = 0` the `…OK` predicates are the feasibility predicates of C04/C06/C08.
-/
namespace Tfl.C12
open Tfl Tfl.Poset Tfl.Linear Tfl.Asserts

/-! ## Categorical calibration -/

/-- **C12 (categorical).** Accepted iff every weight is within `eps` of the bounds that are set
and every ordering pair `(i, j)` has `w_j − w_i ≥ −eps` — *every* pair (the `reduce_max` of the
fixed code; the earlier `reduce_min … < eps` only looked at the best pair, F-C12-a). -/
theorem categorical_iff (lo hi : Option Rat) (cs : Pairs) (w : List Rat) (eps : Rat) :
    acceptsCategorical lo hi cs w eps = true ↔
      (∀ l, lo = some l → ∀ k, k < w.length → -eps ≤ getV w k - l) ∧
      (∀ h, hi = some h → ∀ k, k < w.length → -eps ≤ h - getV w k) ∧
      (∀ c ∈ cs, -eps ≤ getV w c.2 - getV w c.1) := by
  have h1 : catLo lo w eps = true ↔ ∀ l, lo = some l → ∀ k, k < w.length → -eps ≤ getV w k - l := by
    cases lo with
    | none => simp [catLo]
    | some l =>
      simp only [catLo, minGe_iff_getV, Option.some.injEq, forall_eq']
      exact ⟨fun h k hk => by linarith [h k hk], fun h k hk => by linarith [h k hk]⟩
  have h2 : catHi hi w eps = true ↔ ∀ h, hi = some h → ∀ k, k < w.length → -eps ≤ h - getV w k := by
    cases hi with
    | none => simp [catHi]
    | some l =>
      simp only [catHi, maxLe_iff_getV, Option.some.injEq, forall_eq']
      exact ⟨fun h k hk => by linarith [h k hk], fun h k hk => by linarith [h k hk]⟩
  have h3 : catPairs cs w eps = true ↔ ∀ c ∈ cs, -eps ≤ getV w c.2 - getV w c.1 := by
    simp only [catPairs, maxLe_iff, List.mem_map, forall_exists_index, and_imp, forall_apply_eq_imp_iff₂]
    exact ⟨fun h c hc => by linarith [h c hc], fun h c hc => by linarith [h c hc]⟩
  simp only [acceptsCategorical, Bool.and_eq_true, h1, h2, h3, and_assoc]

/-- counter-witness of the defect fixed by `e4a7f35` (F-C12-a): `[0, 5, 1]` with pairs
`(0,1), (1,2)` violates the second pair by 4 and is rejected by the model of the fixed code. -/
theorem categorical_witness_rejected :
    acceptsCategorical none none [(0, 1), (1, 2)] [0, 5, 1] (1 / 1000000) = false := by decide +kernel

/-! ## Linear -/

/-- `|r − 1| < eps ∨ |r| < 1e-8` for the 2-norm `r = sqrt(Σ w²)` is what the square-root-free
test of the model decides — stated here for kernels whose norm `r` is RATIONAL (for a generic kernel
no such `r` exists: `C12.no_rational_root_example`). For EVERY rational kernel see
`C12.normOk_l2_sq_iff` (inequalities between squares) and `C12.normOk_l2_real_iff` (the same
statement with `Real.sqrt`), Props/C12Norm.lean. -/
theorem normOk_l2_iff (w : List Rat) (eps r : Rat) (hr : 0 ≤ r) (hrr : r * r = normSq w) :
    normOk .l2 w eps = true ↔ (|r - 1| < eps ∨ |r| < normEps) := by
  have hne : (0 : Rat) < normEps := by norm_num [normEps]
  simp only [normOk, Bool.or_eq_true, Bool.and_eq_true, decide_eq_true_eq, ← hrr, abs_lt, abs_of_nonneg hr]
  constructor
  · rintro (⟨⟨h1, h2⟩, h3⟩ | h)
    · left
      refine ⟨?_, by nlinarith⟩
      rcases h3 with h3 | h3
      · linarith
      · by_contra hc
        have : r ≤ 1 - eps := by linarith
        by_cases he : 1 - eps < 0
        · linarith
        · nlinarith
    · right; nlinarith
  · rintro (⟨h1, h2⟩ | h)
    · left
      refine ⟨⟨by linarith, by nlinarith⟩, ?_⟩
      by_cases he : 1 - eps < 0
      · left; exact he
      · right; nlinarith
    · right; nlinarith

/-- **C12 (linear).** A kernel column is accepted iff
* (when some input is constrained) every entry has `m_i · w_i ≥ −eps`,
* every monotonic-dominance pair has `w_dom − w_weak ≥ −eps`,
* every range-dominance pair has `s_dom·w_dom − s_weak·w_weak ≥ −eps` with the code's scalings
  `s = ±(input_max − input_min)`,
* and the norm test of the configured order passes (`normOk`: `| ‖w‖ − 1 | < eps` or
  `‖w‖ < 1e-8`; spelled out for orders 1 / inf by `normOk_l1_iff` / `normOk_linf_iff`, for order 2
  by `normOk_l2_sq_iff` / `normOk_l2_real_iff` in Props/C12Norm.lean). All units: `linear_layer_iff`. -/
theorem linear_iff (monos : List Int) (md rd : Pairs) (los his : List (Option Rat)) (ord : NormOrd)
    (w : List Rat) (eps : Rat) (hlen : monos.length = w.length) :
    acceptsLinear monos md rd los his ord w eps = true ↔
      ((∃ m ∈ monos, m ≠ 0) → ∀ k, k < w.length → -eps ≤ getV w k * (getM monos k : Rat)) ∧
      (∀ c ∈ md, -eps ≤ getV w c.1 - getV w c.2) ∧
      (∀ c ∈ rd, -eps ≤ getV (scalingsAll monos los his) c.1 * getV w c.1 -
                        getV (scalingsAll monos los his) c.2 * getV w c.2) ∧
      normOk ord w eps = true := by
  have hz : ∀ k, k < w.length →
      getV (List.zipWith (fun x (m : Int) => x * (m : Rat)) w monos) k = getV w k * (getM monos k : Rat) := by
    intro k hk
    have hk2 : k < monos.length := hlen ▸ hk
    simp [getV, getM, List.getD, hk, hk2]
  have h1 : linMono monos w eps = true ↔
      ((∃ m ∈ monos, m ≠ 0) → ∀ k, k < w.length → -eps ≤ getV w k * (getM monos k : Rat)) := by
    unfold linMono
    by_cases ha : monos.any (· != 0) = true
    · have hex : ∃ m ∈ monos, m ≠ 0 := by simpa using ha
      simp only [ha, if_true, minGe_iff_getV, List.length_zipWith, hlen, min_self]
      constructor
      · intro h _ k hk; rw [← hz k hk]; exact h k hk
      · intro h k hk; rw [hz k hk]; exact h hex k hk
    · have hex : ¬ ∃ m ∈ monos, m ≠ 0 := by simpa using ha
      simp [ha, hex]
  have h2 : linMdom md w eps = true ↔ ∀ c ∈ md, -eps ≤ getV w c.1 - getV w c.2 := by
    simp [linMdom, List.all_eq_true]
  have h3 : linRdom monos rd los his w eps = true ↔
      ∀ c ∈ rd, -eps ≤ getV (scalingsAll monos los his) c.1 * getV w c.1 -
                        getV (scalingsAll monos los his) c.2 * getV w c.2 := by
    simp [linRdom, List.all_eq_true]
  simp only [acceptsLinear, Bool.and_eq_true, h1, h2, h3, and_assoc]

theorem normOk_l1_iff (w : List Rat) (eps : Rat) :
    normOk .l1 w eps = true ↔ (|norm1 w - 1| < eps ∨ |norm1 w| < normEps) := by
  simp [normOk, ratAbs_eq]

theorem normOk_linf_iff (w : List Rat) (eps : Rat) :
    normOk .linf w eps = true ↔ (|normInf w - 1| < eps ∨ |normInf w| < normEps) := by
  simp [normOk, ratAbs_eq]

/-! ## PWL calibration -/

theorem prefixSums_spec (b : Rat) (hs : List Rat) (k : Nat) (hk : k ≤ hs.length) :
    getV (prefixSums b hs) k = b + rsum (hs.take k) := by
  induction hs generalizing b k with
  | nil =>
    have : k = 0 := by simpa using hk
    subst this; simp [prefixSums, getV, rsum]
  | cons h hs ih => cases k with
    | zero => simp [prefixSums, getV, rsum]
    | succ k =>
      have := ih (b + h) k (by simpa using hk)
      simp only [prefixSums, getV, List.getD_cons_succ, List.take_succ_cons, rsum] at this ⊢
      rw [this]; ring

theorem length_prefixSums (b : Rat) (hs : List Rat) : (prefixSums b hs).length = hs.length + 1 := by
  induction hs generalizing b with
  | nil => rfl
  | cons h hs ih => simp [prefixSums, ih]

/-- the layer evaluated at its own keypoints: output `k` is `bias + Σ_{j<k} heights_j` -/
theorem pwlOutputs_spec (b : Rat) (hs : List Rat) (k : Nat) (hk : k ≤ hs.length) :
    getV (pwlOutputs (b :: hs)) k = b + rsum (hs.take k) := prefixSums_spec b hs k hk

theorem length_diffs (l : List Rat) : (diffs l).length = l.length - 1 := by
  induction l with
  | nil => rfl
  | cons x xs ih => cases xs with
    | nil => rfl
    | cons y r => simp only [diffs, List.length_cons] at ih ⊢; omega

theorem getV_diffs (l : List Rat) (k : Nat) (hk : k + 1 < l.length) :
    getV (diffs l) k = getV l (k + 1) - getV l k := by
  induction l generalizing k with
  | nil => simp at hk
  | cons x xs ih => cases xs with
    | nil => simp at hk
    | cons y r => cases k with
      | zero => simp [diffs, getV]
      | succ k =>
        have := ih k (by simpa using hk)
        simpa [diffs, getV] using this

/-- **C12 (PWL), on the outputs at the keypoints.** Accepted iff
* lower bound: every output is `≥ output_min − eps`, and with `clamp_min` some output is
  `≤ output_min + eps` (the minimum matches the bound within `eps`);
* upper bound / `clamp_max` symmetrically;
* monotonicity `m ∈ {1, −1}`: every consecutive pair has `m·(out_{k+1} − out_k) ≥ −eps`.
Convexity is not among the asserted kinds. -/
theorem pwl_outputs_iff (mono : Int) (lo hi : Option Rat) (cmin cmax : Bool) (out : List Rat) (eps : Rat)
    (hne : out ≠ []) :
    acceptsPwlOutputs mono lo hi cmin cmax out eps = true ↔
      (∀ l, lo = some l → (∀ y ∈ out, -eps ≤ y - l) ∧ (cmin = true → ∃ y ∈ out, y - l ≤ eps)) ∧
      (∀ h, hi = some h → (∀ y ∈ out, -eps ≤ h - y) ∧ (cmax = true → ∃ y ∈ out, h - y ≤ eps)) ∧
      (mono ≠ 0 → ∀ k, k + 1 < out.length → -eps ≤ (mono : Rat) * (getV out (k + 1) - getV out k)) := by
  obtain ⟨x, xs, rfl⟩ := List.exists_cons_of_ne_nil hne
  have hminle : ∀ y ∈ x :: xs, rmin x xs ≤ y := by
    have := (le_rmin_iff (rmin x xs) x xs).mp le_rfl
    intro y hy
    rcases List.mem_cons.mp hy with e | e
    · rw [e]; exact this.1
    · exact this.2 y e
  have hmaxge : ∀ y ∈ x :: xs, y ≤ rmax x xs := by
    have := (rmax_le_iff (rmax x xs) x xs).mp le_rfl
    intro y hy
    rcases List.mem_cons.mp hy with e | e
    · rw [e]; exact this.1
    · exact this.2 y e
  have h1 : pwlLo lo cmin (x :: xs) eps = true ↔
      (∀ l, lo = some l → (∀ y ∈ x :: xs, -eps ≤ y - l) ∧ (cmin = true → ∃ y ∈ x :: xs, y - l ≤ eps)) := by
    cases lo with
    | none => simp [pwlLo]
    | some l =>
      simp only [pwlLo, Option.some.injEq, forall_eq']
      cases cmin
      · simp only [Bool.false_eq_true, if_false, decide_eq_true_eq, false_imp_iff, and_true]
        constructor
        · intro h y hy; linarith [hminle y hy]
        · intro h; linarith [h _ (rmin_mem x xs)]
      · simp only [if_true, decide_eq_true_eq, ratAbs_eq, abs_le, true_imp_iff]
        constructor
        · rintro ⟨h1, h2⟩
          exact ⟨fun y hy => by linarith [hminle y hy], ⟨_, rmin_mem x xs, h2⟩⟩
        · rintro ⟨h1, y, hy, h2⟩
          exact ⟨h1 _ (rmin_mem x xs), by linarith [hminle y hy]⟩
  have h2 : pwlHi hi cmax (x :: xs) eps = true ↔
      (∀ h, hi = some h → (∀ y ∈ x :: xs, -eps ≤ h - y) ∧ (cmax = true → ∃ y ∈ x :: xs, h - y ≤ eps)) := by
    cases hi with
    | none => simp [pwlHi]
    | some l =>
      simp only [pwlHi, Option.some.injEq, forall_eq']
      cases cmax
      · simp only [Bool.false_eq_true, if_false, decide_eq_true_eq, false_imp_iff, and_true]
        constructor
        · intro h y hy; linarith [hmaxge y hy]
        · intro h; linarith [h _ (rmax_mem x xs)]
      · simp only [if_true, decide_eq_true_eq, ratAbs_eq, abs_le, true_imp_iff]
        constructor
        · rintro ⟨h1, h2⟩
          exact ⟨fun y hy => by linarith [hmaxge y hy], ⟨_, rmax_mem x xs, by linarith⟩⟩
        · rintro ⟨h1, y, hy, h2⟩
          exact ⟨by linarith [hmaxge y hy], by linarith [h1 _ (rmax_mem x xs)]⟩
  have h3 : pwlMono mono (x :: xs) eps = true ↔
      (mono ≠ 0 → ∀ k, k + 1 < (x :: xs).length →
        -eps ≤ (mono : Rat) * (getV (x :: xs) (k + 1) - getV (x :: xs) k)) := by
    unfold pwlMono
    by_cases hm : mono = 0
    · simp [hm]
    · simp only [hm, if_false, minGe_iff_getV, List.length_map, length_diffs, ne_eq, not_false_eq_true,
        true_imp_iff]
      constructor
      · intro h k hk
        have := h k (by omega)
        rw [C06.getV_map _ _ (by rw [length_diffs]; omega), getV_diffs _ _ hk] at this
        linarith [mul_comm (mono : Rat) (getV (x :: xs) (k + 1) - getV (x :: xs) k)]
      · intro h k hk
        have hk' : k + 1 < (x :: xs).length := by omega
        rw [C06.getV_map _ _ (by rw [length_diffs]; omega), getV_diffs _ _ hk']
        linarith [h k hk', mul_comm (mono : Rat) (getV (x :: xs) (k + 1) - getV (x :: xs) k)]
  simp only [acceptsPwlOutputs, Bool.and_eq_true, h1, h2, h3, and_assoc]

/-- **C12 (PWL), one unit column**: the kernel's outputs at the keypoints (prefix sums) are judged as
above and, for a learned `missing_output`, that value is judged against the bounds only. That the
layer-level call — all units, fixed or learned-interior keypoints — reduces to this:
`C12.pwl_layer_iff_units` / `pwl_layer_iff` (Props/C12Units.lean). -/
theorem pwl_iff (mono : Int) (lo hi : Option Rat) (cmin cmax : Bool) (missing : Option Rat)
    (kernel : List Rat) (eps : Rat) :
    acceptsPwl mono lo hi cmin cmax missing kernel eps = true ↔
      acceptsPwlOutputs mono lo hi cmin cmax (pwlOutputs kernel) eps = true ∧
      (∀ v, missing = some v → (∀ l, lo = some l → -eps ≤ v - l) ∧ (∀ h, hi = some h → -eps ≤ h - v)) := by
  cases missing with
  | none => simp [acceptsPwl]
  | some v =>
    have := pwl_outputs_iff 0 lo hi false false [v] eps (by simp)
    simp only [acceptsPwl, Bool.and_eq_true, this, Option.some.injEq, forall_eq']
    simp

/-! ## Lattice -/

theorem forCells_iff (sizes : List Nat) (a b na nb : Nat) (f : Nat → Nat → Idx → Rat) (eps : Rat) :
    forCells sizes a b na nb f eps = true ↔
      ∀ i, i < na → ∀ j, j < nb → ∀ idx ∈ allIdx sizes, coord idx a = i → coord idx b = j →
        -eps ≤ f i j idx := by
  simp only [forCells, cells, List.all_eq_true, List.mem_range, minGe_iff, List.mem_map, List.mem_filter,
    Bool.and_eq_true, beq_iff_eq]
  constructor
  · intro h i hi j hj idx hidx ha hb
    exact h i hi j hj _ ⟨idx, ⟨hidx, ha, hb⟩, rfl⟩
  · rintro h i hi j hj y ⟨idx, ⟨hidx, ha, hb⟩, rfl⟩
    exact h i hi j hj idx hidx ha hb

/-- covered: monotonicity — every adjacent layer pair along every increasing dimension, at every
position behind it (for `units > 1` the unit is one of the coordinates of `idx`) -/
def MonoOK (c : LatCfg) (w : W) (eps : Rat) : Prop :=
  ∀ d, d < c.monos.length → c.monos.getD d 0 = 1 → ∀ j, j < sz c d - 1 →
    ∀ idx ∈ allIdx c.sizes, coord idx d = j + 1 → -eps ≤ w idx - w (setc idx d j)

/-- covered: Edgeworth trust — every unit square of every (main, cond, direction) -/
def EdgeOK (c : LatCfg) (w : W) (eps : Rat) : Prop :=
  ∀ t ∈ c.edge, ∀ i, i < sz c t.1 - 1 → ∀ j, j < sz c t.2.1 - 1 →
    ∀ idx ∈ allIdx c.sizes, coord idx t.1 = i → coord idx t.2.1 = j →
      -eps ≤ (t.2.2 : Rat) *
        ((at2 w idx t.1 t.2.1 (i + 1) (j + 1) - at2 w idx t.1 t.2.1 i (j + 1)) -
         (at2 w idx t.1 t.2.1 (i + 1) j - at2 w idx t.1 t.2.1 i j))

/-- covered: trapezoid trust — both faces `main = 0` and `main = max`, every adjacent pair along cond -/
def TrapOK (c : LatCfg) (w : W) (eps : Rat) : Prop :=
  ∀ t ∈ c.trap, ∀ j, j < sz c t.2.1 - 1 →
    (∀ idx ∈ allIdx c.sizes, coord idx t.1 = 0 → coord idx t.2.1 = j →
      -eps ≤ (t.2.2 : Rat) * (at2 w idx t.1 t.2.1 0 j - at2 w idx t.1 t.2.1 0 (j + 1))) ∧
    (∀ idx ∈ allIdx c.sizes, coord idx t.1 = sz c t.1 - 1 → coord idx t.2.1 = j →
      -eps ≤ (t.2.2 : Rat) * (at2 w idx t.1 t.2.1 (sz c t.1 - 1) (j + 1) - at2 w idx t.1 t.2.1 (sz c t.1 - 1) j))

/-- covered: monotonic dominance — both triangles of every unit square of (dominant, weak) -/
def MdomOK (c : LatCfg) (w : W) (eps : Rat) : Prop :=
  ∀ t ∈ c.mdom, ∀ i, i < sz c t.1 - 1 → ∀ j, j < sz c t.2 - 1 →
    ∀ idx ∈ allIdx c.sizes, coord idx t.1 = i → coord idx t.2 = j →
      -eps ≤ at2 w idx t.1 t.2 (i + 1) j - (at2 w idx t.1 t.2 (i + 1) (j + 1) + at2 w idx t.1 t.2 i j) / 2 ∧
      -eps ≤ (at2 w idx t.1 t.2 (i + 1) (j + 1) + at2 w idx t.1 t.2 i j) / 2 - at2 w idx t.1 t.2 i (j + 1)

/-- covered: range dominance — every quadruple (dominant range at weak = j) vs (weak range at dominant = i) -/
def RdomOK (c : LatCfg) (w : W) (eps : Rat) : Prop :=
  ∀ t ∈ c.rdom, ∀ i, i < sz c t.1 → ∀ j, j < sz c t.2 →
    ∀ idx ∈ allIdx c.sizes, coord idx t.1 = i → coord idx t.2 = j →
      -eps ≤ (at2 w idx t.1 t.2 (sz c t.1 - 1) j - at2 w idx t.1 t.2 0 j) -
             (at2 w idx t.1 t.2 i (sz c t.2 - 1) - at2 w idx t.1 t.2 i 0)

/-- covered: joint monotonicity — both triangles of every unit square -/
def JointOK (c : LatCfg) (w : W) (eps : Rat) : Prop :=
  ∀ t ∈ c.jmono, ∀ i, i < sz c t.1 - 1 → ∀ j, j < sz c t.2 - 1 →
    ∀ idx ∈ allIdx c.sizes, coord idx t.1 = i → coord idx t.2 = j →
      -eps ≤ at2 w idx t.1 t.2 (i + 1) (j + 1) - (at2 w idx t.1 t.2 (i + 1) j + at2 w idx t.1 t.2 i (j + 1)) / 2 ∧
      -eps ≤ (at2 w idx t.1 t.2 (i + 1) j + at2 w idx t.1 t.2 i (j + 1)) / 2 - at2 w idx t.1 t.2 i j

/-- covered: output bounds at every vertex -/
def BoundsOK (c : LatCfg) (w : W) (eps : Rat) : Prop :=
  (∀ l, c.lo = some l → ∀ idx ∈ allIdx c.sizes, -eps ≤ w idx - l) ∧
  (∀ h, c.hi = some h → ∀ idx ∈ allIdx c.sizes, -eps ≤ h - w idx)

theorem latMono_iff (c : LatCfg) (w : W) (eps : Rat) : latMono c w eps = true ↔ MonoOK c w eps := by
  simp only [latMono, MonoOK, List.all_eq_true, List.mem_range]
  constructor
  · intro h d hd hm j hj idx hidx hc
    have := h d hd
    simp only [hm, if_true, List.all_eq_true, List.mem_range, minGe_iff, List.mem_map, List.mem_filter,
      beq_iff_eq] at this
    exact this j hj _ ⟨idx, ⟨hidx, hc⟩, rfl⟩
  · intro h d hd
    by_cases hm : c.monos.getD d 0 = 1
    · simp only [hm, if_true, List.all_eq_true, List.mem_range, minGe_iff, List.mem_map, List.mem_filter,
        beq_iff_eq]
      rintro j hj y ⟨idx, ⟨hidx, hc⟩, rfl⟩
      exact h d hd hm j hj idx hidx hc
    · rw [if_neg hm]

theorem latEdge_iff (c : LatCfg) (w : W) (eps : Rat) : latEdge c w eps = true ↔ EdgeOK c w eps := by
  simp only [latEdge, EdgeOK, List.all_eq_true]
  constructor
  · rintro h ⟨a, b, dir⟩ ht
    exact (forCells_iff _ _ _ _ _ _ _).mp (h (a, b, dir) ht)
  · rintro h ⟨a, b, dir⟩ ht
    exact (forCells_iff _ _ _ _ _ _ _).mpr (h (a, b, dir) ht)

theorem latTrap_iff (c : LatCfg) (w : W) (eps : Rat) : latTrap c w eps = true ↔ TrapOK c w eps := by
  simp only [latTrap, TrapOK, List.all_eq_true, List.mem_range, Bool.and_eq_true, cells, minGe_iff,
    List.mem_map, List.mem_filter, beq_iff_eq]
  constructor
  · rintro h ⟨a, b, dir⟩ ht j hj
    have := h (a, b, dir) ht j hj
    exact ⟨fun idx hidx h1 h2 => this.1 _ ⟨idx, ⟨hidx, h1, h2⟩, rfl⟩,
           fun idx hidx h1 h2 => this.2 _ ⟨idx, ⟨hidx, h1, h2⟩, rfl⟩⟩
  · rintro h ⟨a, b, dir⟩ ht j hj
    have := h (a, b, dir) ht j hj
    constructor
    · rintro y ⟨idx, ⟨hidx, h1, h2⟩, rfl⟩; exact this.1 idx hidx h1 h2
    · rintro y ⟨idx, ⟨hidx, h1, h2⟩, rfl⟩; exact this.2 idx hidx h1 h2

theorem latMdom_iff (c : LatCfg) (w : W) (eps : Rat) : latMdom c w eps = true ↔ MdomOK c w eps := by
  simp only [latMdom, MdomOK, List.all_eq_true, Bool.and_eq_true, forCells_iff]
  constructor
  · rintro h ⟨a, b⟩ ht i hi j hj idx hidx h1 h2
    have := h (a, b) ht
    exact ⟨this.1 i hi j hj idx hidx h1 h2, this.2 i hi j hj idx hidx h1 h2⟩
  · rintro h ⟨a, b⟩ ht
    exact ⟨fun i hi j hj idx hidx h1 h2 => (h (a, b) ht i hi j hj idx hidx h1 h2).1,
           fun i hi j hj idx hidx h1 h2 => (h (a, b) ht i hi j hj idx hidx h1 h2).2⟩

theorem latRdom_iff (c : LatCfg) (w : W) (eps : Rat) : latRdom c w eps = true ↔ RdomOK c w eps := by
  simp only [latRdom, RdomOK, List.all_eq_true, forCells_iff]

theorem latJoint_iff (c : LatCfg) (w : W) (eps : Rat) : latJoint c w eps = true ↔ JointOK c w eps := by
  simp only [latJoint, JointOK, List.all_eq_true, Bool.and_eq_true, forCells_iff]
  constructor
  · rintro h ⟨a, b⟩ ht i hi j hj idx hidx h1 h2
    have := h (a, b) ht
    exact ⟨this.1 i hi j hj idx hidx h1 h2, this.2 i hi j hj idx hidx h1 h2⟩
  · rintro h ⟨a, b⟩ ht
    exact ⟨fun i hi j hj idx hidx h1 h2 => (h (a, b) ht i hi j hj idx hidx h1 h2).1,
           fun i hi j hj idx hidx h1 h2 => (h (a, b) ht i hi j hj idx hidx h1 h2).2⟩

theorem latBounds_iff (c : LatCfg) (w : W) (eps : Rat) :
    (latLo c w eps = true ∧ latHi c w eps = true) ↔ BoundsOK c w eps := by
  unfold BoundsOK latLo latHi
  constructor
  · rintro ⟨h1, h2⟩
    constructor
    · intro l hl idx hidx
      rw [hl] at h1
      have := (minGe_iff _ _).mp h1 (w idx) (List.mem_map.mpr ⟨idx, hidx, rfl⟩)
      linarith
    · intro h hh idx hidx
      rw [hh] at h2
      have := (maxLe_iff _ _).mp h2 (w idx) (List.mem_map.mpr ⟨idx, hidx, rfl⟩)
      linarith
  · rintro ⟨h1, h2⟩
    constructor
    · cases hl : c.lo with
      | none => rfl
      | some l =>
        simp only [minGe_iff, List.mem_map]
        rintro y ⟨idx, hidx, rfl⟩
        linarith [h1 l hl idx hidx]
    · cases hh : c.hi with
      | none => rfl
      | some h =>
        simp only [maxLe_iff, List.mem_map]
        rintro y ⟨idx, hidx, rfl⟩
        linarith [h2 h hh idx hidx]

/-- **C12 (lattice).** For every configuration, kernel and `eps`: all assertions of
`lattice_lib.assert_constraints` pass iff every covered constraint — monotonicity of each adjacent
layer pair, each Edgeworth square, each trapezoid face pair, both triangles of each monotonic
dominance and joint monotonicity square, each range-dominance quadruple, both output bounds at
every vertex — holds up to `eps`, at every position (and unit) behind it. Unimodalities and joint
unimodalities are not among the asserted kinds. -/
theorem lattice_iff (c : LatCfg) (w : W) (eps : Rat) :
    acceptsLatticeW c w eps = true ↔
      MonoOK c w eps ∧ EdgeOK c w eps ∧ TrapOK c w eps ∧ MdomOK c w eps ∧ RdomOK c w eps ∧
      JointOK c w eps ∧ BoundsOK c w eps := by
  simp only [acceptsLatticeW, Bool.and_eq_true, latMono_iff, latEdge_iff, latTrap_iff, latMdom_iff,
    latRdom_iff, latJoint_iff, and_assoc, latBounds_iff]

/-- the layer-level call reshapes the kernel to `sizes ++ [units]` (for `units > 1`) with a
non-monotone trailing axis and runs the same assertions: "whichever unit offends". -/
theorem lattice_layer_iff (c : LatCfg) (units : Nat) (vals : List Rat) (eps : Rat) :
    acceptsLattice c units vals eps = true ↔
      let c' := withUnits c units
      let w := (Table.ofVals c'.sizes vals).get
      MonoOK c' w eps ∧ EdgeOK c' w eps ∧ TrapOK c' w eps ∧ MdomOK c' w eps ∧ RdomOK c' w eps ∧
      JointOK c' w eps ∧ BoundsOK c' w eps := by
  simp only [acceptsLattice, lattice_iff]

/-! ## KroneckerFactoredLattice (monotonicity part) -/

/-- **C12 (KFL, monotonicity).** Accepted iff for every monotone dimension, adjacent keypoint
pair and term, the difference of the `sign(scale)`-oriented factor weights is `≥ −eps`.
(The bound assertions are `kfl_bounds_iff` below, the whole `assert_constraints` is `kfl_iff`; kernel
non-negativity is not asserted when both bounds or none are given: coverage gap, see the evidence.) -/
theorem kfl_mono_iff (ls dims terms : Nat) (monos : List Int) (w : List (List (List Rat)))
    (scale : List Rat) (eps : Rat) :
    kflMono ls dims terms monos w scale eps = true ↔
      ∀ d, d < min dims monos.length → monos.getD d 0 ≠ 0 → ∀ j, j < ls - 1 → ∀ t, t < terms →
        -eps ≤ sign (getV scale t) * get3 w (j + 1) d t - sign (getV scale t) * get3 w j d t := by
  simp only [kflMono, List.all_eq_true, List.mem_range]
  constructor
  · intro h d hd hm j hj t ht
    have := h d hd
    rw [if_pos hm] at this
    simp only [List.all_eq_true, List.mem_range, minGe_iff, List.mem_map] at this
    exact this j hj _ ⟨t, ht, rfl⟩
  · intro h d hd
    by_cases hm : monos.getD d 0 ≠ 0
    · rw [if_pos hm]
      simp only [List.all_eq_true, List.mem_range, minGe_iff, List.mem_map]
      rintro j hj y ⟨t, ht, rfl⟩
      exact h d hd hm j hj t ht
    · rw [if_neg hm]


/-! ## KroneckerFactoredLattice: bound assertions -/

/-- `reduce_max(|weights[:, d, t]|)` over the `ls` keypoints (`0` for an empty reduction, which
`ls ≥ 2` excludes) — the largest factor the 1-D piece of dimension `d`, term `t` can contribute -/
def kflMaxAbs (ls : Nat) (w : List (List (List Rat))) (d t : Nat) : Rat :=
  match (List.range ls).map (fun k => Rat.abs (get3 w k d t)) with
  | [] => 0
  | x :: xs => rmax x xs

/-- `reduce_prod` of the per-dimension maxima: the code's `max_output_values` of term `t` -/
def kflMaxOut (ls dims : Nat) (w : List (List (List Rat))) (t : Nat) : Rat :=
  rprod ((List.range dims).map (fun d => kflMaxAbs ls w d t))

theorem kflMaxAbs_le_iff (ls : Nat) (w : List (List (List Rat))) (d t : Nat) (c : Rat) (hls : 0 < ls) :
    kflMaxAbs ls w d t ≤ c ↔ ∀ k, k < ls → |get3 w k d t| ≤ c := by
  unfold kflMaxAbs
  obtain ⟨n, rfl⟩ : ∃ n, ls = n + 1 := ⟨ls - 1, by omega⟩
  rw [List.range_succ_eq_map]
  simp only [List.map_cons, List.map_map, rmax_le_iff, List.mem_map, List.mem_range, Function.comp,
    forall_exists_index, and_imp, forall_apply_eq_imp_iff₂, ratAbs_eq]
  constructor
  · rintro ⟨h0, hs⟩ k hk
    cases k with
    | zero => exact h0
    | succ k => exact hs k (by omega)
  · intro h
    exact ⟨h 0 (by omega), fun k hk => h (k + 1) (by omega)⟩

theorem kflMaxAbs_attained (ls : Nat) (w : List (List (List Rat))) (d t : Nat) (hls : 0 < ls) :
    ∃ k, k < ls ∧ kflMaxAbs ls w d t = |get3 w k d t| := by
  unfold kflMaxAbs
  obtain ⟨n, rfl⟩ : ∃ n, ls = n + 1 := ⟨ls - 1, by omega⟩
  rw [List.range_succ_eq_map]
  simp only [List.map_cons, List.map_map]
  have := rmax_mem (Rat.abs (get3 w 0 d t))
    ((List.range n).map ((fun k => Rat.abs (get3 w k d t)) ∘ Nat.succ))
  rcases List.mem_cons.mp this with h | h
  · exact ⟨0, by omega, by rw [h, ratAbs_eq]⟩
  · obtain ⟨k, hk, e⟩ := List.mem_map.mp h
    exact ⟨k + 1, by simpa using hk, by rw [← e]; simp [ratAbs_eq]⟩

theorem kflMaxAbs_nonneg (ls : Nat) (w : List (List (List Rat))) (d t : Nat) : 0 ≤ kflMaxAbs ls w d t := by
  rcases Nat.eq_zero_or_pos ls with h | h
  · subst h; simp [kflMaxAbs]
  · obtain ⟨k, _, e⟩ := kflMaxAbs_attained ls w d t h
    rw [e]; exact abs_nonneg _

theorem rprod_map_le {α : Type} (l : List α) (f g : α → Rat) (h : ∀ a ∈ l, 0 ≤ f a ∧ f a ≤ g a) :
    0 ≤ rprod (l.map f) ∧ rprod (l.map f) ≤ rprod (l.map g) := by
  induction l with
  | nil => simp [rprod]
  | cons a l ih =>
    have h1 := h a (by simp)
    have h2 := ih (fun b hb => h b (by simp [hb]))
    simp only [List.map_cons, rprod]
    exact ⟨mul_nonneg h1.1 h2.1, mul_le_mul h1.2 h2.2 h2.1 (le_trans h1.1 h1.2)⟩

/-- the code's `max_output_values ≤ c` says: at EVERY vertex (choice `κ` of one keypoint per
dimension) the absolute value of term `t`'s product of factor weights is `≤ c` -/
theorem kflMaxOut_le_iff (ls dims : Nat) (w : List (List (List Rat))) (t : Nat) (c : Rat) (hls : 0 < ls) :
    kflMaxOut ls dims w t ≤ c ↔
      ∀ κ : Nat → Nat, (∀ d, d < dims → κ d < ls) →
        rprod ((List.range dims).map (fun d => |get3 w (κ d) d t|)) ≤ c := by
  unfold kflMaxOut
  constructor
  · intro h κ hκ
    refine le_trans (rprod_map_le _ _ _ (fun d hd => ⟨abs_nonneg _, ?_⟩)).2 h
    exact (kflMaxAbs_le_iff ls w d t _ hls).mp le_rfl (κ d) (hκ d (List.mem_range.mp hd))
  · intro h
    choose κ hκ using fun d => kflMaxAbs_attained ls w d t hls
    have := h κ (fun d _ => (hκ d).1)
    have e : (List.range dims).map (fun d => kflMaxAbs ls w d t)
        = (List.range dims).map (fun d => |get3 w (κ d) d t|) :=
      List.map_congr_left (fun d _ => (hκ d).2)
    rw [e]; exact this


/-- the explicit statement of the KFL bound assertions (one unit):
* no bound: nothing is asserted;
* both bounds: every term's `max_output_values` is within `eps` of `1` (slack `1 − Π_d max_k |w_kdt| ≥ −eps`;
  by `kflMaxOut_le_iff`: `|Π_d w_{κ(d) d t}| ≤ 1 + eps` at every vertex `κ`) and every scale entry
  lies in `[−(hi−lo)/2, (hi−lo)/2]` (NO eps);
* only one bound: every factor weight is `≥ 0` (NO eps) and every scale entry has the right sign. -/
def KflBoundsOK (ls dims terms : Nat) (lo hi : Option Rat) (w : List (List (List Rat))) (scale : List Rat)
    (eps : Rat) : Prop :=
  match lo, hi with
  | none, none => True
  | some l, some h =>
    (∀ t, t < terms → -eps ≤ 1 - kflMaxOut ls dims w t) ∧
      (∀ s ∈ scale, -((h - l) / 2) ≤ s ∧ s ≤ (h - l) / 2)
  | some _, none =>
    (∀ k, k < ls → ∀ d, d < dims → ∀ t, t < terms → 0 ≤ get3 w k d t) ∧ (∀ s ∈ scale, 0 ≤ s)
  | none, some _ =>
    (∀ k, k < ls → ∀ d, d < dims → ∀ t, t < terms → 0 ≤ get3 w k d t) ∧ (∀ s ∈ scale, s ≤ 0)

/-- **C12 (KFL, bounds).** `_assert_bound_constraints` accepts iff the covered bound statements
hold: with both bounds, every term's maximal absolute output is `≤ 1 + eps` and the scale lies in
`±(output_max − output_min)/2`; with a single bound every factor weight is non-negative and the
scale has the sign of the bound (these comparisons carry no `eps` in the code). -/
theorem kfl_bounds_iff (ls dims terms : Nat) (lo hi : Option Rat) (w : List (List (List Rat)))
    (scale : List Rat) (eps : Rat) :
    kflBounds ls dims terms lo hi w scale eps = true ↔ KflBoundsOK ls dims terms lo hi w scale eps := by
  unfold kflBounds KflBoundsOK
  cases lo with
  | none =>
    cases hi with
    | none => simp
    | some h =>
      simp only [Bool.and_eq_true, List.all_eq_true, List.mem_range, Bool.not_eq_true',
        decide_eq_false_iff_not, not_lt]
  | some l =>
    cases hi with
    | none =>
      simp only [Bool.and_eq_true, List.all_eq_true, List.mem_range, Bool.not_eq_true',
        decide_eq_false_iff_not, not_lt]
    | some h =>
      simp only [Bool.and_eq_true, List.all_eq_true, List.mem_range, decide_eq_true_eq,
        Bool.not_eq_true', decide_eq_false_iff_not, not_lt]
      rfl

/-- **C12 (KFL, bounds at vertex level).** With both bounds and `ls ≥ 1`, the first conjunct says:
for every term and EVERY vertex of the lattice the absolute product of the factor weights is
within `eps` of `1`. -/
theorem kfl_bounds_both_vertex_iff (ls dims terms : Nat) (l h : Rat) (w : List (List (List Rat)))
    (scale : List Rat) (eps : Rat) (hls : 0 < ls) :
    kflBounds ls dims terms (some l) (some h) w scale eps = true ↔
      (∀ t, t < terms → ∀ κ : Nat → Nat, (∀ d, d < dims → κ d < ls) →
        -eps ≤ 1 - rprod ((List.range dims).map (fun d => |get3 w (κ d) d t|))) ∧
      (∀ s ∈ scale, -((h - l) / 2) ≤ s ∧ s ≤ (h - l) / 2) := by
  rw [kfl_bounds_iff]
  unfold KflBoundsOK
  simp only
  refine and_congr_left (fun _ => forall_congr' fun t => forall_congr' fun _ => ?_)
  have := kflMaxOut_le_iff ls dims w t (1 + eps) hls
  constructor
  · intro h1 κ hκ
    have := this.mp (by linarith) κ hκ
    linarith
  · intro h1
    have := this.mpr (fun κ hκ => by have := h1 κ hκ; linarith)
    linarith

/-- **C12 (KFL).** `assert_constraints` of the KroneckerFactoredLattice accepts iff the monotonicity
slacks are `≥ −eps` and the bound statements hold. -/
theorem kfl_iff (ls dims terms : Nat) (monos : List Int) (lo hi : Option Rat)
    (w : List (List (List Rat))) (scale : List Rat) (eps : Rat) :
    acceptsKfl ls dims terms monos lo hi w scale eps = true ↔
      (∀ d, d < min dims monos.length → monos.getD d 0 ≠ 0 → ∀ j, j < ls - 1 → ∀ t, t < terms →
        -eps ≤ sign (getV scale t) * get3 w (j + 1) d t - sign (getV scale t) * get3 w j d t) ∧
      KflBoundsOK ls dims terms lo hi w scale eps := by
  unfold acceptsKfl
  rw [Bool.and_eq_true, kfl_mono_iff, kfl_bounds_iff]


/-! ### non-vacuity: concrete kernels on both sides of every iff -/
example : acceptsLattice { sizes := [2, 2], monos := [1, 0], edge := [(0, 1, 1)], trap := [], mdom := [], rdom := [], jmono := [], lo := some 0, hi := some 1 } 1 [0, 0, 1/2, 1] (1 / 1000000) = true := by
  decide +kernel
-- one Edgeworth square violated (everything else fine): rejected
example : acceptsLattice { sizes := [2, 2], monos := [1, 0], edge := [(0, 1, 1)], trap := [], mdom := [], rdom := [], jmono := [], lo := some 0, hi := some 1 } 1 [0, 0, 1, 1/2] (1 / 1000000) = false := by
  decide +kernel
-- two units: only the second unit's monotonicity is violated: rejected
example : acceptsLattice { sizes := [2], monos := [1], edge := [], trap := [], mdom := [], rdom := [], jmono := [], lo := none, hi := none } 2 [0, 1, 1, 0] (1 / 1000000) = false := by
  decide +kernel
example : acceptsLattice { sizes := [2], monos := [1], edge := [], trap := [], mdom := [], rdom := [], jmono := [], lo := none, hi := none } 2 [0, 1, 1, 1] (1 / 1000000) = true := by
  decide +kernel
example : acceptsLinear [1, 1] [(0, 1)] [] [none, none] [none, none] .l1 [3/4, 1/4] (1 / 10000) = true := by
  decide +kernel
example : acceptsLinear [1, 1] [(0, 1)] [] [none, none] [none, none] .l1 [1/4, 3/4] (1 / 10000) = false := by
  decide +kernel
example : acceptsPwl 1 (some 0) (some 1) true false none [0, 1/2, 1/4] (1 / 1000000) = true := by decide +kernel
example : acceptsPwl 1 (some 0) (some 1) true false none [1/8, 1/2, 1/4] (1 / 1000000) = false := by decide +kernel
-- KFL, both bounds: two keypoints, two dims, one term; max output 1/2·1 = 1/2 ≤ 1: accepted
example : acceptsKfl 2 2 1 [1, 0] (some 0) (some 2) [[[1/4], [1]], [[1/2], [-1]]] [1] (1 / 1000000) = true := by
  decide +kernel
-- max output 2·1 > 1 + eps: rejected; scale outside ±(hi−lo)/2: rejected
example : kflBounds 2 2 1 (some 0) (some 2) [[[1/4], [1]], [[2], [-1]]] [1] (1 / 1000000) = false := by
  decide +kernel
example : kflBounds 2 2 1 (some 0) (some 2) [[[1/4], [1]], [[1/2], [-1]]] [3/2] (1 / 1000000) = false := by
  decide +kernel
-- single bound: a negative factor weight or a negative scale is rejected, no eps
example : kflBounds 2 2 1 (some 0) none [[[1/4], [1]], [[1/2], [-1/100000000]]] [1] (1 / 1000000) = false := by
  decide +kernel
example : kflBounds 2 2 1 (some 0) none [[[1/4], [1]], [[1/2], [0]]] [1] (1 / 1000000) = true := by decide +kernel
example : kflBounds 2 2 1 none (some 0) [[[1/4], [1]], [[1/2], [0]]] [1] (1 / 1000000) = false := by decide +kernel
example : kflMaxOut 2 2 [[[1/4], [1]], [[1/2], [-1]]] 0 = 1/2 := by decide +kernel

end Tfl.C12
