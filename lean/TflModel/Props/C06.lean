import TflModel.Lemmas.Linear
import TflModel.Lemmas.TopoSort
import Mathlib.Algebra.Order.Field.Basic
/-!
# C06 — Linear / categorical weight constraints enforce signs, orderings, dominance, norm

Model: `Tfl.Poset` (internal_utils.py), `Tfl.Linear.project`, `Tfl.Categorical.project`
(one unit column; units are independent columns, see C09).
The theorems come in two forms: with the validity of the order returned by the model of
`_topological_sort` as the hypothesis `ValidOrder` (its decidable form `validOrder`,
`validOrder_sound`, is evaluated by the driver on every correspondence case), and — suffix
`_acyclic` — with that hypothesis PROVED (`Tfl.Poset.topoSort_valid`, Lemmas/TopoSort.lean) from
`Acyclic cs` (no non-empty path `x → … → x` along the pairs; implied by any rank function, by
`∀ c ∈ cs, c.1 < c.2`, and by `validOrder cs o = true` for any `o`). A cyclic pair set makes
`_topological_sort` raise or return an unconstrained order, so acyclicity is a hypothesis here.
For the categorical layer it is discharged by construction since fix 66006cc: the constructors
reject exactly the cyclic pair sets (`Tfl.C16.verifyCategorical_acyclic`), and
`Tfl.C16.categoricalLayer_projection_total` (Props/C16.lean, which imports this module) combines
that with `categorical_pairs_and_bounds_acyclic` for every accepted configuration.

The Linear theorems of THIS file are STAGE theorems (about the column after the sign clip, after the
monotonic-dominance projection, after the range-dominance projection, after the normalisation).
The statement about the whole `Linear.project` of an accepted configuration — all constraints at
once, unit norm, the degenerate case, the full fixpoint — is `Tfl.C06.accepted_project`
(Props/C06Compose.lean).
-/
namespace Tfl.C06
open Tfl Tfl.Poset Tfl.Linear

theorem getV_map (f : Rat → Rat) (w : List Rat) {k : Nat} (hk : k < w.length) :
    getV (w.map f) k = f (getV w k) := by
  simp [getV, List.getD, hk]

theorem clipOut_mono (lo hi : Option Rat) {x y : Rat} (h : x ≤ y) :
    Categorical.clipOut lo hi x ≤ Categorical.clipOut lo hi y := by
  unfold Categorical.clipOut
  cases lo <;> cases hi <;> simp only
  · exact h
  · exact min_le_min h le_rfl
  · exact max_le_max h le_rfl
  · exact min_le_min (max_le_max h le_rfl) le_rfl

theorem clipOut_bounds (lo hi : Option Rat) (hb : ∀ l h, lo = some l → hi = some h → l ≤ h) (x : Rat) :
    (∀ l, lo = some l → l ≤ Categorical.clipOut lo hi x) ∧
    (∀ h, hi = some h → Categorical.clipOut lo hi x ≤ h) := by
  unfold Categorical.clipOut
  cases lo <;> cases hi <;> simp only
  · exact ⟨fun _ h => (by cases h), fun _ h => (by cases h)⟩
  · exact ⟨fun _ h => (by cases h), fun h e => (by cases e; exact min_le_right _ _)⟩
  · exact ⟨fun l e => (by cases e; exact le_max_right _ _), fun _ h => (by cases h)⟩
  · rename_i l h
    refine ⟨fun l' e => ?_, fun h' e => (by cases e; exact min_le_right _ _)⟩
    cases e
    exact le_min (le_max_right _ _) (hb l h rfl rfl)

theorem clipOut_fix (lo hi : Option Rat) (x : Rat) (h1 : ∀ l, lo = some l → l ≤ x)
    (h2 : ∀ h, hi = some h → x ≤ h) : Categorical.clipOut lo hi x = x := by
  unfold Categorical.clipOut
  cases lo <;> cases hi <;> simp only
  · exact min_eq_left (h2 _ rfl)
  · exact max_eq_left (h1 _ rfl)
  · rw [max_eq_left (h1 _ rfl)]; exact min_eq_left (h2 _ rfl)

/-- **C06 (categorical).** For every kernel column, every pair set whose modelled topological
order is valid, and every bound configuration with `output_min ≤ output_max`, the constraint
returns values that satisfy every ordering pair and lie within the bounds. -/
theorem categorical_pairs_and_bounds (lo hi : Option Rat) (cs : Pairs) (w out : List Rat)
    (order : List Nat) (hts : cs ≠ [] → topoSort cs = some order) (hv : ValidOrder cs order)
    (hin : ∀ a ∈ order, a < w.length) (hb : ∀ l h, lo = some l → hi = some h → l ≤ h)
    (h : Categorical.project lo hi cs w = .ok out) :
    Feasible cs out ∧ out.length = w.length ∧
      ∀ k, k < out.length → (∀ l, lo = some l → l ≤ getV out k) ∧ (∀ h', hi = some h' → getV out k ≤ h') := by
  by_cases he : cs = []
  · subst he
    simp only [Categorical.project, List.isEmpty_nil, if_true, pure, Except.pure, bind, Except.bind,
      Except.ok.injEq] at h
    subst h
    refine ⟨fun c hc => (by cases hc), (by simp), fun k hk => ?_⟩
    rw [getV_map _ _ (by simpa using hk)]
    exact clipOut_bounds lo hi hb _
  · have hne : cs.isEmpty = false := by cases cs <;> simp_all
    simp only [Categorical.project, hne, approxProject, hts he, pure, Except.pure, bind, Except.bind,
      Bool.false_eq_true, if_false, Except.ok.injEq] at h
    subst h
    have hf := approxProjectWith_feasible cs order w hv hin
    refine ⟨fun c hc => ?_, (by simp), fun k hk => ?_⟩
    · have h1 : c.1 < (approxProjectWith cs order w).length := by
        simpa using hin _ (hv.mem_left (i := c.1) (j := c.2) hc)
      have h2 : c.2 < (approxProjectWith cs order w).length := by
        simpa using hin _ (hv.mem_right (i := c.1) (j := c.2) hc)
      rw [getV_map _ _ h1, getV_map _ _ h2]
      exact clipOut_mono lo hi (hf c hc)
    · rw [getV_map _ _ (by simpa using hk)]
      exact clipOut_bounds lo hi hb _

/-- **C06 (categorical), feasible ⇒ unchanged** — exactly, for every order the sort may return. -/
theorem categorical_fixpoint (lo hi : Option Rat) (cs : Pairs) (w : List Rat) (order : List Nat)
    (hts : cs ≠ [] → topoSort cs = some order) (hf : Feasible cs w)
    (hlo : ∀ k, k < w.length → ∀ l, lo = some l → l ≤ getV w k)
    (hhi : ∀ k, k < w.length → ∀ h, hi = some h → getV w k ≤ h) :
    Categorical.project lo hi cs w = .ok w := by
  have hmap : w.map (Categorical.clipOut lo hi) = w := by
    apply List.ext_getElem (by simp)
    intro k h1 h2
    have hk : k < w.length := by simpa using h2
    have e : w[k] = getV w k := by simp [getV, List.getD, hk]
    rw [List.getElem_map, e]
    exact clipOut_fix lo hi _ (hlo k hk) (hhi k hk)
  by_cases he : cs = []
  · subst he
    simp [Categorical.project, pure, Except.pure, bind, Except.bind, hmap]
  · have hne : cs.isEmpty = false := by cases cs <;> simp_all
    simp [Categorical.project, hne, approxProject, hts he, pure, Except.pure, bind, Except.bind,
      approxProjectWith_fix hf, hmap]

/-! ### Linear: signs and monotonic dominance -/

/-- the monotonic-dominance stage of `project` on a sign-clipped column: every
`(dominant, weak)` pair satisfies `w weak ≤ w dominant`, the signs survive (all constrained
inputs are increasing, as `verify_hyperparameters` demands), untouched inputs keep their value. -/
theorem linear_monotonic_dominance (monos : List Int) (md : Pairs) (w : List Rat) (order : List Nat)
    (hv : ValidOrder (swapPairs md) order) (hin : ∀ a ∈ order, a < w.length)
    (hinc : ∀ c ∈ md, getM monos c.1 = 1 ∧ getM monos c.2 = 1) :
    let w1 := signClip monos w
    let out := approxProjectWith (swapPairs md) order w1
    (∀ c ∈ md, getV out c.2 ≤ getV out c.1) ∧
    (∀ k, SignOk (getM monos k) (getV out k)) ∧
    (∀ k, ¬ IsNode md k → getV out k = getV w1 k) := by
  intro w1 out
  have hf := approxProjectWith_feasible (swapPairs md) order w1 hv
    (by simpa [w1, length_signClip] using hin)
  have hnode : ∀ k, IsNode (swapPairs md) k → 0 ≤ getV w1 k := by
    intro k hk
    obtain ⟨c, hc, hck⟩ := isNode_swap.mp hk
    have hm : getM monos k = 1 := by
      rcases hck with e | e
      · rw [← e]; exact (hinc c hc).1
      · rw [← e]; exact (hinc c hc).2
    exact (signClip_signOk monos w k).1 hm
  have hinv := approxProjectWith_inv (closed_ge 0) order hnode
  refine ⟨fun c hc => hf (c.2, c.1) (mem_swapPairs.mpr hc), fun k => ?_, fun k hk => ?_⟩
  · by_cases hk : IsNode (swapPairs md) k
    · have h0 := hinv.2.1 k hk
      obtain ⟨c, hc, hck⟩ := isNode_swap.mp hk
      have hm : getM monos k = 1 := by
        rcases hck with e | e
        · rw [← e]; exact (hinc c hc).1
        · rw [← e]; exact (hinc c hc).2
      exact ⟨fun _ => h0, fun h => (by rw [hm] at h; cases h)⟩
    · rw [show getV out k = getV w1 k from hinv.2.2 k hk]
      exact signClip_signOk monos w k
  · exact hinv.2.2 k (fun h => hk (isNode_swap.mp h))

/-- the range-dominance stage: weights are scaled by `scalings`, projected, and un-scaled.
For every `(dominant, weak)` pair the scaled slopes are ordered afterwards; signs survive;
inputs outside the range-dominance pairs keep their value, **provided no scaling factor is
zero** (`hsc`: the model divides in ℚ, where `x / 0 = 0`, the real code would return NaN — findings
F-C16-a, a zero range ON a dominance dimension, rejected at construction since 7189cd2, and
F-C06-a, a zero range on a dimension OUTSIDE the dominances, scaled by `±1` since 44c9e89). For every
configuration accepted by the constructor model `hsc` is PROVED: `Tfl.C06.accepted_scalings`,
`accepted_range_dominance`, `accepted_fixpoint` (Props/C06Accepted.lean). -/
theorem linear_range_dominance (monos : List Int) (rd : Pairs) (sc w2 : List Rat) (order : List Nat)
    (hv : ValidOrder (swapPairs rd) order) (hin : ∀ a ∈ order, a < w2.length)
    (hlen : w2.length = sc.length) (hsc : ∀ k, k < sc.length → getV sc k ≠ 0)
    (hdir : ∀ c ∈ rd, ∀ k, (k = c.1 ∨ k = c.2) →
        (getM monos k = 1 ∧ 0 < getV sc k) ∨ (getM monos k = -1 ∧ getV sc k < 0))
    (hsign : ∀ k, SignOk (getM monos k) (getV w2 k)) :
    let out := divV (approxProjectWith (swapPairs rd) order (mulV w2 sc)) sc
    (∀ c ∈ rd, getV sc c.2 * getV out c.2 ≤ getV sc c.1 * getV out c.1) ∧
    (∀ k, SignOk (getM monos k) (getV out k)) ∧
    (∀ k, ¬ IsNode rd k → getV out k = getV w2 k) := by
  intro out
  have hml : (mulV w2 sc).length = w2.length := by simp [mulV, hlen]
  have hf := approxProjectWith_feasible (swapPairs rd) order (mulV w2 sc) hv (by simpa [hml] using hin)
  have hws : ∀ k, getV (mulV w2 sc) k = getV w2 k * getV sc k :=
    fun k => getV_zipWith (· * ·) (by simp) _ _ hlen k
  have hnode : ∀ k, IsNode (swapPairs rd) k → 0 ≤ getV (mulV w2 sc) k := by
    intro k hk
    obtain ⟨c, hc, hck⟩ := isNode_swap.mp hk
    rw [hws]
    rcases hdir c hc k (by rcases hck with e | e <;> simp [e]) with ⟨hm, hp⟩ | ⟨hm, hn⟩
    · exact mul_nonneg ((hsign k).1 hm) hp.le
    · exact mul_nonneg_of_nonpos_of_nonpos ((hsign k).2 hm) hn.le
  have hinv := approxProjectWith_inv (closed_ge 0) order hnode
  have hout : ∀ k, getV out k = getV (approxProjectWith (swapPairs rd) order (mulV w2 sc)) k / getV sc k :=
    fun k => getV_zipWith (· / ·) (by simp) _ _ (by simp [hml, hlen]) k
  have hklt : ∀ c ∈ rd, ∀ k, (k = c.1 ∨ k = c.2) → k < sc.length := by
    intro c hc k hk
    rw [← hlen]
    rcases hk with e | e
    · rw [e]; exact hin _ (hv.mem_right (i := c.2) (j := c.1) (mem_swapPairs.mpr hc))
    · rw [e]; exact hin _ (hv.mem_left (i := c.2) (j := c.1) (mem_swapPairs.mpr hc))
  refine ⟨fun c hc => ?_, fun k => ?_, fun k hk => ?_⟩
  · have h := hf (c.2, c.1) (mem_swapPairs.mpr hc)
    rw [hout, hout, mul_div_cancel₀ _ (hsc _ (hklt c hc _ (Or.inr rfl))),
      mul_div_cancel₀ _ (hsc _ (hklt c hc _ (Or.inl rfl)))]
    exact h
  · by_cases hk : IsNode (swapPairs rd) k
    · have h0 := hinv.2.1 k hk
      obtain ⟨c, hc, hck⟩ := isNode_swap.mp hk
      rw [hout]
      rcases hdir c hc k (by rcases hck with e | e <;> simp [e]) with ⟨hm, hp⟩ | ⟨hm, hn⟩
      · exact ⟨fun _ => div_nonneg h0 hp.le, fun h => (by rw [hm] at h; cases h)⟩
      · exact ⟨fun h => (by rw [hm] at h; cases h), fun _ => div_nonpos_of_nonneg_of_nonpos h0 hn.le⟩
    · rw [hout, hinv.2.2 k hk, hws]
      by_cases hkl : k < sc.length
      · rw [mul_div_cancel_right₀ _ (hsc k hkl)]; exact hsign k
      · have : getV sc k = 0 := getV_of_le (Nat.le_of_not_lt hkl)
        rw [this]; simp
        constructor <;> intro <;> exact le_rfl
  · have hk' : ¬ IsNode (swapPairs rd) k := fun h => hk (isNode_swap.mp h)
    rw [hout, hinv.2.2 k hk', hws]
    by_cases hkl : k < sc.length
    · exact mul_div_cancel_right₀ _ (hsc k hkl)
    · have : getV sc k = 0 := getV_of_le (Nat.le_of_not_lt hkl)
      have h2 : getV w2 k = 0 := getV_of_le (by rw [hlen]; exact Nat.le_of_not_lt hkl)
      rw [this, h2]; simp

/-- normalisation divides the column by a positive number: signs and every homogeneous
inequality (dominance, scaled range dominance) are kept; with order 1 the result has norm one
unless the column is numerically zero. -/
theorem normalize_keeps (ord : NormOrd) (w : List Rat) :
    ∃ n : Rat, 0 < n ∧ normalize ord w = w.map (· / n) := by
  unfold normalize
  cases ord
  · exact ⟨1, by norm_num, by simp⟩
  · simp only
    refine ⟨if norm1 w < normEps then 1 else norm1 w, ?_, rfl⟩
    split
    · norm_num
    · rename_i h; exact lt_of_lt_of_le (by norm_num [normEps]) (not_lt.mp h)
  · exact ⟨1, by norm_num, by simp⟩
  · simp only
    refine ⟨if normInf w < normEps then 1 else normInf w, ?_, rfl⟩
    split
    · norm_num
    · rename_i h; exact lt_of_lt_of_le (by norm_num [normEps]) (not_lt.mp h)

theorem rsum_map_div (l : List Rat) (n : Rat) : rsum (l.map (· / n)) = rsum l / n := by
  induction l with
  | nil => simp [rsum]
  | cons x xs ih => simp only [List.map_cons, rsum, ih]; ring

/-- unit 1-norm after normalisation unless the column is below the guard -/
theorem normalize_l1_unit (w : List Rat) (h : ¬ norm1 w < normEps) :
    norm1 (normalize .l1 w) = 1 := by
  have hpos : 0 < norm1 w := lt_of_lt_of_le (by norm_num [normEps]) (not_lt.mp h)
  have e : normalize .l1 w = w.map (· / norm1 w) := by simp only [normalize, if_neg h]
  have hc : (Rat.abs ∘ fun x => x / norm1 w) = ((· / norm1 w) ∘ Rat.abs) := by
    funext x
    simp only [Function.comp, ratAbs_eq]
    rw [abs_div, abs_of_pos hpos]
  rw [e]
  show rsum (List.map Rat.abs (List.map (· / norm1 w) w)) = 1
  rw [List.map_map, hc, ← List.map_map, rsum_map_div]
  exact div_self (ne_of_gt hpos)

/-- **C06 feasible ⇒ unchanged (Linear, before normalisation).** -/
theorem linear_fixpoint (monos : List Int) (md rd : Pairs) (los his : List (Option Rat)) (w : List Rat)
    (o1 o2 : List Nat) (h1 : md ≠ [] → topoSort (swapPairs md) = some o1)
    (h2 : rd ≠ [] → topoSort (swapPairs rd) = some o2)
    (hsign : ∀ k, SignOk (getM monos k) (getV w k))
    (hmd : ∀ c ∈ md, getV w c.2 ≤ getV w c.1)
    (hlen : w.length = (scalings monos rd los his).length)
    (hsc : ∀ k, k < (scalings monos rd los his).length → getV (scalings monos rd los his) k ≠ 0)
    (hrd : ∀ c ∈ rd, getV (scalings monos rd los his) c.2 * getV w c.2 ≤
                      getV (scalings monos rd los his) c.1 * getV w c.1) :
    projectPre monos md rd los his w = .ok w := by
  have e1 : signClip monos w = w := signClip_fix monos w hsign
  have f1 : Feasible (swapPairs md) w := fun c hc => hmd (c.2, c.1) (mem_swapPairs.mp hc)
  have hws : ∀ k, getV (mulV w (scalings monos rd los his)) k = getV w k * getV (scalings monos rd los his) k :=
    fun k => getV_zipWith (· * ·) (by simp) _ _ hlen k
  have f2 : Feasible (swapPairs rd) (mulV w (scalings monos rd los his)) := by
    intro c hc
    have := hrd (c.2, c.1) (mem_swapPairs.mp hc)
    rw [hws, hws]; simp only at this; linarith [mul_comm (getV w c.1) (getV (scalings monos rd los his) c.1),
      mul_comm (getV w c.2) (getV (scalings monos rd los his) c.2)]
  have hdiv : divV (mulV w (scalings monos rd los his)) (scalings monos rd los his) = w := by
    apply List.ext_getElem (by simp [divV, mulV, hlen])
    intro k hk1 hk2
    have hk : k < w.length := hk2
    have hks : k < (scalings monos rd los his).length := hlen ▸ hk
    simp only [divV, mulV, List.getElem_zipWith]
    have := hsc k hks
    simp only [getV, List.getD, List.getElem?_eq_getElem hks, Option.getD_some] at this
    exact mul_div_cancel_right₀ _ this
  unfold projectPre
  simp only [e1, bind, Except.bind, pure, Except.pure]
  by_cases hm : md = []
  · subst hm
    by_cases hr : rd = []
    · subst hr; simp
    · have hne : rd.isEmpty = false := by cases rd <;> simp_all
      simp [hne, approxProject, h2 hr, approxProjectWith_fix f2, hdiv]
  · have hne1 : md.isEmpty = false := by cases md <;> simp_all
    by_cases hr : rd = []
    · subst hr; simp [hne1, approxProject, h1 hm, approxProjectWith_fix f1]
    · have hne : rd.isEmpty = false := by cases rd <;> simp_all
      simp [hne1, hne, approxProject, h1 hm, h2 hr, approxProjectWith_fix f1, approxProjectWith_fix f2, hdiv]

/-! ### non-vacuity: a concrete diamond satisfies the hypotheses and is genuinely moved -/
example : validOrder [(0, 1), (0, 2), (1, 3), (2, 3)] ((topoSort [(0, 1), (0, 2), (1, 3), (2, 3)]).getD []) = true := by
  decide
example : Categorical.project (some 0) (some 1) [(0, 1), (0, 2), (1, 3), (2, 3)] [5, 1, 2, -3]
    ≠ .ok [5, 1, 2, -3] := by decide +kernel
example : feasibleB [(0, 1), (0, 2), (1, 3), (2, 3)]
    (match Categorical.project (some 0) (some 1) [(0, 1), (0, 2), (1, 3), (2, 3)] [5, 1, 2, -3] with
      | .ok o => o | .error _ => []) = true := by decide +kernel

/-! ### the same with the validity of the modelled `_topological_sort` PROVED (`topoSort_valid`) -/

theorem acyclic_swap {cs : Pairs} (h : Acyclic cs) : Acyclic (swapPairs cs) := by
  have hrev : ∀ a b, Relation.TransGen (Edge (swapPairs cs)) a b → Relation.TransGen (Edge cs) b a := by
    intro a b hab
    induction hab with
    | single e => exact .single (mem_swapPairs.mp e)
    | tail _ e ih => exact Relation.TransGen.head (mem_swapPairs.mp e) ih
  exact fun x hx => h x (hrev x x hx)

/-- on a non-empty acyclic pair set whose indices lie inside the column, the approximate
partial-order projection does not raise, and it is the sweep along a VALID order. -/
theorem approxProject_ok_of_acyclic (cs : Pairs) (w : List Rat) (hne : cs ≠ []) (hacyc : Acyclic cs)
    (hin : ∀ a, IsNode cs a → a < w.length) :
    ∃ order, topoSort cs = some order ∧ ValidOrder cs order ∧ (∀ a ∈ order, a < w.length) ∧
      approxProject cs w = .ok (approxProjectWith cs order w) := by
  obtain ⟨order, ho⟩ := topoSort_some_of_nonempty cs hne hacyc
  obtain ⟨hv, hnodes⟩ := topoSort_valid cs hacyc order ho
  exact ⟨order, ho, hv, fun a ha => hin a (hnodes a ha), by simp [approxProject, ho]⟩

/-- whatever `approxProject` returns on an acyclic pair set is the sweep along a valid order -/
theorem approxProject_eq_of_acyclic (cs : Pairs) (w out : List Rat) (hacyc : Acyclic cs)
    (hin : ∀ a, IsNode cs a → a < w.length) (h : approxProject cs w = .ok out) :
    ∃ order, topoSort cs = some order ∧ ValidOrder cs order ∧ (∀ a ∈ order, a < w.length) ∧
      out = approxProjectWith cs order w := by
  unfold approxProject at h
  split at h
  · cases h
  · rename_i order ho
    obtain ⟨hv, hnodes⟩ := topoSort_valid cs hacyc order ho
    exact ⟨order, ho, hv, fun a ha => hin a (hnodes a ha), (Except.ok.inj h).symm⟩

/-- **C06 (categorical), order validity proved.** For every kernel column, every ACYCLIC pair
set whose indices lie inside the column, and every bound configuration with
`output_min ≤ output_max`, the constraint does not raise and returns values that satisfy every
ordering pair and lie within the bounds. -/
theorem categorical_pairs_and_bounds_acyclic (lo hi : Option Rat) (cs : Pairs) (w : List Rat)
    (hacyc : Acyclic cs) (hin : ∀ a, IsNode cs a → a < w.length)
    (hb : ∀ l h, lo = some l → hi = some h → l ≤ h) :
    ∃ out, Categorical.project lo hi cs w = .ok out ∧
      Feasible cs out ∧ out.length = w.length ∧
      ∀ k, k < out.length → (∀ l, lo = some l → l ≤ getV out k) ∧ (∀ h', hi = some h' → getV out k ≤ h') := by
  by_cases he : cs = []
  · subst he
    have hp : Categorical.project lo hi [] w = .ok (w.map (Categorical.clipOut lo hi)) := by
      simp [Categorical.project, pure, Except.pure, bind, Except.bind]
    exact ⟨_, hp, categorical_pairs_and_bounds lo hi [] w _ [] (fun h => absurd rfl h)
      ⟨List.nodup_nil, fun i j hc => (by cases hc)⟩ (fun a ha => (by cases ha)) hb hp⟩
  · obtain ⟨order, ho, hv, hin', hap⟩ := approxProject_ok_of_acyclic cs w he hacyc hin
    have hne : cs.isEmpty = false := by cases cs <;> simp_all
    have hp : Categorical.project lo hi cs w
        = .ok ((approxProjectWith cs order w).map (Categorical.clipOut lo hi)) := by
      simp [Categorical.project, hne, hap, pure, Except.pure, bind, Except.bind]
    exact ⟨_, hp, categorical_pairs_and_bounds lo hi cs w _ order (fun _ => ho) hv hin' hb hp⟩

/-- **C06 (categorical), feasible ⇒ unchanged**, for every acyclic pair set. -/
theorem categorical_fixpoint_acyclic (lo hi : Option Rat) (cs : Pairs) (w : List Rat)
    (hacyc : Acyclic cs) (hf : Feasible cs w)
    (hlo : ∀ k, k < w.length → ∀ l, lo = some l → l ≤ getV w k)
    (hhi : ∀ k, k < w.length → ∀ h, hi = some h → getV w k ≤ h) :
    Categorical.project lo hi cs w = .ok w := by
  by_cases he : cs = []
  · exact categorical_fixpoint lo hi cs w [] (fun h => absurd he h) hf hlo hhi
  · obtain ⟨order, ho⟩ := topoSort_some_of_nonempty cs he hacyc
    exact categorical_fixpoint lo hi cs w order (fun _ => ho) hf hlo hhi

/-- **C06 (Linear, monotonic dominance), order validity proved**: the dominance stage of
`project` (`approxProject (swapPairs md)` on the sign-clipped column) does not raise on a non-empty
acyclic dominance set, and its result orders every `(dominant, weak)` pair, keeps the signs and
leaves unconstrained inputs alone. -/
theorem linear_monotonic_dominance_acyclic (monos : List Int) (md : Pairs) (w : List Rat)
    (hne : md ≠ []) (hacyc : Acyclic md) (hin : ∀ a, IsNode md a → a < w.length)
    (hinc : ∀ c ∈ md, getM monos c.1 = 1 ∧ getM monos c.2 = 1) :
    ∃ out, approxProject (swapPairs md) (signClip monos w) = .ok out ∧
      (∀ c ∈ md, getV out c.2 ≤ getV out c.1) ∧
      (∀ k, SignOk (getM monos k) (getV out k)) ∧
      (∀ k, ¬ IsNode md k → getV out k = getV (signClip monos w) k) := by
  have hne' : swapPairs md ≠ [] := by cases md <;> simp_all [swapPairs]
  obtain ⟨order, _, hv, hin', hap⟩ := approxProject_ok_of_acyclic (swapPairs md) (signClip monos w)
    hne' (acyclic_swap hacyc) (fun a ha => by rw [length_signClip]; exact hin a (isNode_swap.mp ha))
  exact ⟨_, hap, linear_monotonic_dominance monos md w order hv
    (fun a ha => by simpa [length_signClip] using hin' a ha) hinc⟩

/-- **C06 (Linear, range dominance), order validity proved** (no scaling factor zero: F-C16-a,
F-C06-a; discharged for accepted configurations in Props/C06Accepted.lean). -/
theorem linear_range_dominance_acyclic (monos : List Int) (rd : Pairs) (sc w2 : List Rat)
    (hne : rd ≠ []) (hacyc : Acyclic rd) (hin : ∀ a, IsNode rd a → a < w2.length)
    (hlen : w2.length = sc.length) (hsc : ∀ k, k < sc.length → getV sc k ≠ 0)
    (hdir : ∀ c ∈ rd, ∀ k, (k = c.1 ∨ k = c.2) →
        (getM monos k = 1 ∧ 0 < getV sc k) ∨ (getM monos k = -1 ∧ getV sc k < 0))
    (hsign : ∀ k, SignOk (getM monos k) (getV w2 k)) :
    ∃ w3, approxProject (swapPairs rd) (mulV w2 sc) = .ok w3 ∧
      (∀ c ∈ rd, getV sc c.2 * getV (divV w3 sc) c.2 ≤ getV sc c.1 * getV (divV w3 sc) c.1) ∧
      (∀ k, SignOk (getM monos k) (getV (divV w3 sc) k)) ∧
      (∀ k, ¬ IsNode rd k → getV (divV w3 sc) k = getV w2 k) := by
  have hne' : swapPairs rd ≠ [] := by cases rd <;> simp_all [swapPairs]
  have hml : (mulV w2 sc).length = w2.length := by simp [mulV, hlen]
  obtain ⟨order, _, hv, hin', hap⟩ := approxProject_ok_of_acyclic (swapPairs rd) (mulV w2 sc)
    hne' (acyclic_swap hacyc) (fun a ha => by rw [hml]; exact hin a (isNode_swap.mp ha))
  exact ⟨_, hap, linear_range_dominance monos rd sc w2 order hv
    (fun a ha => by simpa [hml] using hin' a ha) hlen hsc hdir hsign⟩

/-- **C06 feasible ⇒ unchanged (Linear, before normalisation)**, for acyclic dominance sets. -/
theorem linear_fixpoint_acyclic (monos : List Int) (md rd : Pairs) (los his : List (Option Rat))
    (w : List Rat) (hamd : Acyclic md) (hard : Acyclic rd)
    (hsign : ∀ k, SignOk (getM monos k) (getV w k))
    (hmd : ∀ c ∈ md, getV w c.2 ≤ getV w c.1)
    (hlen : w.length = (scalings monos rd los his).length)
    (hsc : ∀ k, k < (scalings monos rd los his).length → getV (scalings monos rd los his) k ≠ 0)
    (hrd : ∀ c ∈ rd, getV (scalings monos rd los his) c.2 * getV w c.2 ≤
                      getV (scalings monos rd los his) c.1 * getV w c.1) :
    projectPre monos md rd los his w = .ok w := by
  have key : ∀ cs : Pairs, Acyclic cs → ∃ o, cs ≠ [] → topoSort (swapPairs cs) = some o := by
    intro cs hac
    by_cases he : cs = []
    · exact ⟨[], fun h => absurd he h⟩
    · have hne' : swapPairs cs ≠ [] := by cases cs <;> simp_all [swapPairs]
      obtain ⟨o, ho⟩ := topoSort_some_of_nonempty _ hne' (acyclic_swap hac)
      exact ⟨o, fun _ => ho⟩
  obtain ⟨o1, h1⟩ := key md hamd
  obtain ⟨o2, h2⟩ := key rd hard
  exact linear_fixpoint monos md rd los his w o1 o2 h1 h2 hsign hmd hlen hsc hrd

/-! ### non-vacuity of the `_acyclic` forms: the diamond and the "shortcut" graph (the seeded
mutant `C06-toposort-batch-dfs` of the real code orders exactly the latter wrongly) -/
example : Acyclic [(0, 1), (0, 2), (1, 3), (2, 3)] := acyclic_of_lt (by decide)
example : Acyclic [(0, 3), (0, 1), (1, 2), (2, 3)] := acyclic_of_lt (by decide)
example : topoSort [(0, 3), (0, 1), (1, 2), (2, 3)] = some [0, 1, 2, 3] := by decide +kernel
example : topoSort [(0, 1), (0, 2), (1, 3), (2, 3)] = some [0, 2, 1, 3] := by decide +kernel
example : validOrder [(0, 3), (0, 1), (1, 2), (2, 3)]
    ((topoSort [(0, 3), (0, 1), (1, 2), (2, 3)]).getD []) = true := by decide +kernel
/-- a cycle is rejected by the hypothesis, and the model (like the code) raises on it -/
example : ¬ Acyclic [(0, 1), (1, 0)] :=
  fun h => h 0 (.tail (.single (show (0, 1) ∈ [(0, 1), (1, 0)] by decide))
    (show (1, 0) ∈ [(0, 1), (1, 0)] by decide))
example : topoSort [(0, 1), (1, 0)] = none := by decide +kernel
/-- the shortcut graph: hypotheses of `categorical_pairs_and_bounds_acyclic` hold and the column
is genuinely moved to a feasible one -/
example : ∀ a, IsNode [(0, 3), (0, 1), (1, 2), (2, 3)] a → a < [5, 1, 2, -3].length := by
  rintro a ⟨c, hc, h⟩
  simp only [List.mem_cons, List.not_mem_nil, or_false] at hc
  rcases hc with rfl | rfl | rfl | rfl <;> rcases h with h | h <;> subst h <;> decide
example : Categorical.project (some 0) (some 1) [(0, 3), (0, 1), (1, 2), (2, 3)] [5, 1, 2, -3]
    ≠ .ok [5, 1, 2, -3] := by decide +kernel
example : feasibleB [(0, 3), (0, 1), (1, 2), (2, 3)]
    (match Categorical.project (some 0) (some 1) [(0, 3), (0, 1), (1, 2), (2, 3)] [5, 1, 2, -3] with
      | .ok o => o | .error _ => []) = true := by decide +kernel

end Tfl.C06
