import TflModel.Model.Linear
namespace Tfl.C06
theorem placeholder : True := trivial
end Tfl.C06
