import TflModel.Props.C01
import TflModel.Props.C08
import TflModel.Lemmas.LatticeFix
/-!
# C01 — the composite `LatticeConstraints.__call__` (`latticeConstraintT`, driver op `lat.constraint`)

`Props/C01.lean` is about the finalisation (`finalize` / `finalizeT`) applied to an ARBITRARY kernel.
This file states the consequences for the function the driver runs and the layer applies after every
gradient step: `latticeConstraintT c` = `project_by_dykstra` (`c.iters` passes) → `finalize_constraints`
when `c.strict` → final clip.

* `C01_constraint_strict`: strict mode (`monotonic_at_every_step=True`, the default), EVERY iteration
  count, every input kernel, every family of approximately enforced constraints configured alongside
  (unimodality, dominances, joint constraints — they only influence the Dykstra output, which the
  finalisation accepts whatever it is): the returned kernel satisfies every strict constraint.
* `C01_constraint_nonstrict_bounds` / `C01_constraint_nonstrict_not_monotone`: what the non-strict
  mode does (bounds only) and does not (monotonicity after finitely many passes) guarantee; the strict
  constraints are then established by `finalize_constraints()` — `C01_exec_*` of `Props/C01.lean`.
* `C01_finalize_fixpoint`, `C01_constraint_fixpoint`: the last clause of the property — a kernel that
  already satisfies every configured constraint is returned unchanged — for `finalize_constraints`
  (every stage, ANY Edgeworth / trapezoid trusts, no class restriction) and for the whole constraint
  in both modes and for every iteration count (all Dykstra families, through C08's
  `projectByDykstraT_feasible`).
-/
namespace Tfl.C01
open Tfl Tfl.Lat Tfl.C08

theorem vals_congr {sizes : List Nat} {t u : Table} (h : AgreeOn sizes t.get u.get) :
    Table.vals sizes t = Table.vals sizes u := by
  unfold Table.vals
  exact List.map_congr_left (fun idx hidx => h idx (mem_allIdx.mp hidx))

theorem agreeOn_of_vals {sizes : List Nat} {t u : Table} (h : Table.vals sizes t = Table.vals sizes u) :
    AgreeOn sizes t.get u.get := fun idx hr => List.map_inj_left.mp h idx (mem_allIdx.mpr hr)

theorem Strict.congr {c : Cfg} {f g : W} (h : AgreeOn c.sizes f g) (hf : Strict c f) : Strict c g :=
  ⟨fun d hd hm => (hf.1 d hd hm).congr h, fun tr htr => EdgeOK.congr h (hf.2.1 tr htr),
    fun tr htr => TrapOK.congr h (hf.2.2.1 tr htr), fun idx hr => by rw [← h idx hr]; exact hf.2.2.2 idx hr⟩

/-- when `LatticeConstraints.__call__` skips the projection (`constraintActive = false`: no
monotone / unimodal dimension and no joint constraint) no dimension is monotone -/
theorem no_mono_of_inactive {c : LCfg} (ha : constraintActive c = false) (d : Nat) :
    c.d.mono.getD d false = false := by
  unfold constraintActive at ha
  simp only [Bool.or_eq_false_iff, List.any_eq_false] at ha
  cases h : c.d.mono.getD d false with
  | false => rfl
  | true =>
    exfalso
    by_cases hd : d < c.d.mono.length
    · have hmem : c.d.mono[d] ∈ c.d.mono := List.getElem_mem hd
      have : c.d.mono.getD d false = c.d.mono[d] := by simp [List.getD_eq_getElem?_getD, hd]
      rw [this] at h
      exact ha.1.1.1 _ hmem (by simpa using h)
    · simp [List.getD_eq_getElem?_getD, List.getElem?_eq_none (Nat.le_of_not_lt hd)] at h

/-- **C01, the weight constraint in its default strict mode** (`LatticeConstraints.__call__` with
`monotonic_at_every_step=True`; `latticeConstraintT` is what the driver runs against the real call):
for every accepted configuration of class (C) = H_trap (`Props/C01Accepted.lean` derives `CfgWF` and
the structural part of `MixedClassWF` from acceptance; `CfgWFd` tolerates a duplicated identical
Edgeworth trust, `CfgWF.toD` gives it from `CfgWF`), EVERY number of Dykstra iterations
`num_projection_iterations ≥ 0`, every other (approximately enforced) family configured in `c.d`
— unimodalities, monotonic / range dominances, joint monotonicities / unimodalities — and EVERY
kernel, the returned kernel is monotone along every monotone dimension, satisfies every Edgeworth
and trapezoid inequality and lies in `[output_min, output_max]`. (The finalisation establishes all
of this from whatever the Dykstra iterations returned.) -/
theorem C01_constraint_strict (c : LCfg) (hs : c.strict = true) (hwf : CfgWFd c.fin) (hmx : MixedClassWF c.fin)
    (t : Table) : Strict c.fin (latticeConstraintT c t).get := by
  unfold latticeConstraintT
  cases ha : constraintActive c with
  | true =>
    simp only [hs, if_true]
    exact C01_exec_mixed_class_d c.fin hwf hmx _
  | false =>
    simp only [Bool.false_eq_true, if_false]
    have hnm := no_mono_of_inactive ha
    have hag : AgreeOn c.d.sizes (runStage c.d.sizes (clipBounds c.lo c.hi) t).get (clipBounds c.lo c.hi t.get) :=
      runStage_agree (clipBounds_local c.d.sizes c.lo c.hi) (AgreeOn.refl _ _)
    refine ⟨fun d _ hm => ?_, fun tr htr => ?_, fun tr htr => ?_, fun idx hr => ?_⟩
    · have := hnm d; simp only [LCfg.fin] at hm; rw [hm] at this; cases this
    · have := (hwf.trust_wf tr (List.mem_append_left _ htr)).2
      have h2 := hnm tr.main; simp only [LCfg.fin] at this; rw [this] at h2; cases h2
    · have := (hwf.trust_wf tr (List.mem_append_right _ htr)).2
      have h2 := hnm tr.main; simp only [LCfg.fin] at this; rw [this] at h2; cases h2
    · show (∀ l, c.lo = some l → l ≤ _) ∧ (∀ h, c.hi = some h → _ ≤ h)
      have hr' : InRange c.d.sizes idx := hr
      rw [hag idx hr']
      exact clipBounds_in c.lo c.hi hwf.bounds _ idx

/-- the three proved sub-classes of `Props/C01.lean`, for the composite (instances of the above) -/
theorem C01_constraint_strict_edgeworth_class (c : LCfg) (hs : c.strict = true) (hwf : CfgWFd c.fin)
    (hnt : c.d.trapezoid = []) (t : Table) : Strict c.fin (latticeConstraintT c t).get :=
  have hfin : c.fin.trapezoid = [] := hnt
  C01_constraint_strict c hs hwf
    { sizes := fun tr h => by rw [hfin] at h; cases h
      roles := fun a h => by rw [hfin] at h; cases h
      compat := fun tr h => by rw [hfin] at h; cases h
      distinct := fun _ => by rw [hfin]; exact List.Pairwise.nil
      cond_free := fun _ _ tr h => by rw [hfin] at h; cases h } t

/-- **C01, non-strict mode (`monotonic_at_every_step=False`): what IS guaranteed** by the constraint
applied after every step: the bounds (final clip), for every iteration count and every kernel.
Monotonicity and the trust inequalities are then only approached by the Dykstra iterations (C08:
convergence as the iteration count grows) and established exactly by `finalize_constraints()`
(`C01_exec_*`). -/
theorem C01_constraint_nonstrict_bounds (c : LCfg) (hb : BoundsWF c.lo c.hi) (t : Table) :
    InBounds c.d.sizes c.lo c.hi (latticeConstraintT c t).get := by
  intro idx hr
  unfold latticeConstraintT
  rw [runStage_agree (clipBounds_local c.d.sizes c.lo c.hi) (AgreeOn.refl _ _) idx hr]
  exact clipBounds_in c.lo c.hi hb _ idx

/-- **… and what is NOT**: with `monotonic_at_every_step=False` and one Dykstra pass the kernel
`[2, 1, 0]` of a monotone 3-vertex lattice comes back as `[3/2, 3/4, 3/4]` — still decreasing from
vertex 0 to vertex 1; in strict mode the same call returns a monotone kernel. -/
theorem C01_constraint_nonstrict_not_monotone :
    Table.vals [3] (latticeConstraintT { d := { sizes := [3], mono := [true] }, iters := 1, strict := false }
      (Table.ofVals [3] [2, 1, 0])) = [3/2, 3/4, 3/4] ∧
    Table.vals [3] (latticeConstraintT { d := { sizes := [3], mono := [true] }, iters := 1, strict := true }
      (Table.ofVals [3] [2, 1, 0])) = [9/8, 9/8, 9/8] := by decide +kernel

/-! ### feasible ⇒ unchanged -/

/-- **C01, last clause, `finalize_constraints()`**: for EVERY configuration — any monotonicities, any
Edgeworth and trapezoid trusts of either direction (matching or not, duplicated, sharing or not a
conditional feature, monotone or free conditional feature: no class restriction and no `Nodup`), one-
or two-sided bounds — a kernel satisfying every strict constraint of the configuration comes back
from the executable `finalizeT` with the same value on every vertex. Hypotheses are well-formedness
facts only (trapezoid trusts name two different lattice dimensions; `output_min < output_max`). -/
theorem C01_finalize_fixpoint (c : Cfg) (hwf : ∀ tr ∈ c.trapezoid, TrustWF c.sizes tr) (hb : BoundsWF c.lo c.hi)
    (t : Table) (hf : Strict c t.get) : Table.vals c.sizes (finalizeT c t) = Table.vals c.sizes t :=
  vals_congr (finalizeT_fix c hwf hb t hf.1 hf.2.1 hf.2.2.1 hf.2.2.2)

/-- function-level version (`finalize`, every stage) -/
theorem C01_finalize_fixpoint_fn (c : Cfg) (hwf : ∀ tr ∈ c.trapezoid, TrustWF c.sizes tr) (hb : BoundsWF c.lo c.hi)
    (w : W) (hf : Strict c w) : AgreeOn c.sizes (clipBounds c.lo c.hi (finalize c w)) w := by
  have h := finalize_fix c hwf hb w hf.1 hf.2.1 hf.2.2.1 hf.2.2.2
  intro idx hr
  rw [clipBounds_fix c.lo c.hi _ idx (by rw [h idx hr]; exact (hf.2.2.2 idx hr).1)
    (by rw [h idx hr]; exact (hf.2.2.2 idx hr).2), h idx hr]

/-- a kernel feasible for the Dykstra configuration is in particular strict-feasible -/
theorem strict_of_feasibleD (c : LCfg) (t : W) (hf : FeasibleD c.d t) (hin : InBounds c.d.sizes c.lo c.hi t) :
    Strict c.fin t := by
  refine ⟨fun d hd hm => ?_, hf.edge, hf.trap, hin⟩
  intro idx hr _ hlt
  have := hf.pairs d hd idx hr hlt
  simp only [LCfg.fin] at hm
  simpa only [hm, pairKind, if_true] using this

/-- **C01, last clause, the whole weight constraint** (`LatticeConstraints.__call__`, what the layer
applies after every step and the driver op `lat.constraint` runs), BOTH modes, EVERY iteration count,
every constraint family: a kernel that already satisfies every configured constraint — pair
directions of monotone / unimodal dimensions, Edgeworth, trapezoid, monotonic / range dominance,
joint monotonicity, joint unimodality (`FeasibleD`) and the bounds — is returned unchanged. -/
theorem C01_constraint_fixpoint (c : LCfg) (hwf : ∀ tr ∈ c.d.trapezoid, TrustWF c.d.sizes tr)
    (hb : BoundsWF c.lo c.hi) (t : Table) (hf : FeasibleD c.d t.get) (hin : InBounds c.d.sizes c.lo c.hi t.get) :
    Table.vals c.d.sizes (latticeConstraintT c t) = Table.vals c.d.sizes t := by
  have hclip : ∀ t1 : Table, AgreeOn c.d.sizes t1.get t.get →
      AgreeOn c.d.sizes (runStage c.d.sizes (clipBounds c.lo c.hi) t1).get t.get := by
    intro t1 h1 idx hr
    rw [runStage_agree (clipBounds_local c.d.sizes c.lo c.hi) (AgreeOn.refl _ _) idx hr,
      clipBounds_fix c.lo c.hi _ idx (by rw [h1 idx hr]; exact (hin idx hr).1)
        (by rw [h1 idx hr]; exact (hin idx hr).2), h1 idx hr]
  have hdy : AgreeOn c.d.sizes (projectByDykstraT c.d c.iters t).get t.get :=
    agreeOn_of_vals (projectByDykstraT_feasible c.d c.iters t hwf hf)
  apply vals_congr
  unfold latticeConstraintT
  apply hclip
  split
  · split
    · have hS : Strict c.fin (projectByDykstraT c.d c.iters t).get :=
        Strict.congr (c := c.fin) hdy.symm (strict_of_feasibleD c t.get hf hin)
      exact (finalizeT_fix c.fin hwf hb _ hS.1 hS.2.1 hS.2.2.1 hS.2.2.2).trans hdy
    · exact hdy
  · exact AgreeOn.refl _ _

/-- the instance the audit ran on the real code (`moves ≤ 4.4e-16`): rank 3, Edgeworth `(0,1,+)` with
its MATCHING trapezoid trust and a second trapezoid trust `(2,1,−)` sharing the conditional axis —
outside class (C) — kernel `a·i₀ + b·i₂ + (i₀ − 1)·i₁/10`: unchanged for every iteration count -/
example : Table.vals exampleMatchingCfg.sizes (finalizeT exampleMatchingCfg
    (Table.ofVals exampleMatchingCfg.sizes [1,3/4,1/2, 5/4,1,3/4, 3/2,5/4,1,  2,9/4,5/2, 7/4,2,9/4, 3/2,7/4,2]))
    = [1,3/4,1/2, 5/4,1,3/4, 3/2,5/4,1,  2,9/4,5/2, 7/4,2,9/4, 3/2,7/4,2] := by decide +kernel

end Tfl.C01
