import TflModel.Lemmas.Verify
import TflModel.Generated.Accept
import TflModel.Props.C01
import TflModel.Props.C06
import TflModel.Lemmas.Linear
import TflModel.Lemmas.Kahn
import TflModel.Lemmas.VerifyLinear
import TflModel.Lemmas.VerifyPwl
/-!
# C16 — configurations are rejected up front (`ValueError`) or handled totally and finitely;
synonymous spellings configure identical behaviour

Model: `Tfl.Verify.*` (`Model/Verify.lean`): every `verify_hyperparameters`, the constructor
checks around them and the `utils.py` canonicalisers, as `Raw → Except Err Cfg` over Python values.

* `accept_*` (one per class): the model predicts the recorded outcome (accept / ValueError /
  TypeError / other) of the REAL constructor on every row of the regenerated table
  `Generated/Accept.lean` — `decide +kernel` over the whole table.
* T1 `*_ok`: an accepted configuration has every index in range and every guard the projection /
  evaluation models divide by (`lattice sizes ≥ 2`, `output_min < output_max`, keypoints strictly
  increasing, trust `main ≠ cond`, …); `verifyLattice_cfgWF`: accepted ⇒ the well-formedness
  hypothesis `Tfl.C01.CfgWF` of the C01 theorems.
* categorical cycle check (fix 66006cc): `verifyCategorical_kahn` / `_pacyclic` / `_acyclic`: every
  accepted pair list passes the round-based check, has no cycle and integral indices, and its `Nat`
  form is `Tfl.Poset.Acyclic` — the HYPOTHESIS of the C06 `*_acyclic` theorems;
  `verifyCategorical_accepts_iff`: the check rejects exactly the cyclic lists;
  `categoricalLayer_projection_total`: for every accepted layer configuration the projection does
  not raise and returns a column satisfying every pair and both bounds.
* T2 `*_syn`: synonymous spellings canonicalise to EQUAL configurations.
* counter-witnesses of the recorded findings (`F_C16_*`); `fixed_C16_*`: the fixed model rejects the
  old witnesses of the findings fixed in the source.
-/
namespace Tfl.C16
open Tfl Tfl.Verify Tfl.Generated.Accept

/-- every row `c` of a chunked table is predicted by the model `f` -/
def tableOK {ρ α} (f : ρ → Except Err α) (row : Nat → ρ × Nat) (chunks : List (List Nat)) : Bool :=
  chunks.all (fun ch => ch.all (fun c => outcome (f (row c).1) == (row c).2))

/-! ## the model agrees with every recorded constructor outcome -/

/-- `LatticeConstraints.__init__` (lattice_lib.verify_hyperparameters with all constraint arguments) -/
theorem accept_latticeConstraints :
    tableOK latticeConstraintsFull latticeConstraintsFull_row latticeConstraintsFull_chunks = true := by decide +kernel
/-- `LinearInitializer.__init__` (lattice verification incl. output bounds) -/
theorem accept_linearInitializer :
    tableOK linearInitializer linearInitializer_row linearInitializer_chunks = true := by decide +kernel
theorem accept_randomMonotonicInitializer :
    tableOK randomMonotonicInitializer randomMonotonicInitializer_row randomMonotonicInitializer_chunks = true := by
  decide +kernel
/-- lattice `LaplacianRegularizer.__init__` (per-dimension amounts must match the rank) -/
theorem accept_laplacianRegularizer :
    tableOK laplacianRegularizer laplacianRegularizer_row laplacianRegularizer_chunks = true := by decide +kernel
/-- `TorsionRegularizer.__init__` verifies its amounts like the Laplacian one (fix 4c13b7a) -/
theorem accept_torsionRegularizer :
    tableOK torsionRegularizer torsionRegularizer_row torsionRegularizer_chunks = true := by decide +kernel
/-- `PWLCalibration.__init__` -/
theorem accept_pwlCalibration :
    tableOK pwlCalibrationFull pwlCalibrationFull_row pwlCalibrationFull_chunks = true := by decide +kernel
theorem accept_pwlConstraints :
    tableOK pwlConstraintsFull pwlConstraintsFull_row pwlConstraintsFull_chunks = true := by decide +kernel
theorem accept_uniformOutputInitializer :
    tableOK uniformOutputInitializer uniformOutputInitializer_row uniformOutputInitializer_chunks = true := by
  decide +kernel
/-- `LinearConstraints.__init__` (linear_lib.verify_hyperparameters) -/
theorem accept_linearConstraints :
    tableOK linearConstraintsFull linearConstraintsFull_row linearConstraintsFull_chunks = true := by decide +kernel
/-- `Linear.__init__` (broadcast of a scalar monotonicity + verification of the monotonicities AND,
since fix 4a8f232, of `input_min` / `input_max`) -/
theorem accept_linearLayer :
    tableOK linearLayerFull linearLayerFull_row linearLayerFull_chunks = true := by decide +kernel
/-- `Lattice.__init__`: first verification, wrapping of a bare joint unimodality, verification of the
joint unimodalities (fix f995047), `create_kernel_initializer` with its initializer's own verification -/
theorem accept_latticeLayer :
    tableOK latticeLayerFull latticeLayerFull_row latticeLayerFull_chunks = true := by decide +kernel
/-- `CategoricalCalibrationConstraints.__init__` (bounds, pair shapes and ranges, and since fix 66006cc
the round-based cycle check) — the table is the exhaustive cross product of its domains -/
theorem accept_categoricalConstraints :
    tableOK categoricalConstraints categoricalConstraints_row categoricalConstraints_chunks = true := by
  decide +kernel
/-- `CategoricalCalibration.__init__` — exhaustive cross product as well -/
theorem accept_categoricalLayer :
    tableOK categoricalLayer categoricalLayer_row categoricalLayer_chunks = true := by decide +kernel
/-- `CategoricalCalibration.__init__` with the arguments it only stores (`units`, `split_outputs`):
sampled cross product -/
theorem accept_categoricalLayerFull :
    tableOK categoricalLayerFull categoricalLayerFull_row categoricalLayerFull_chunks = true := by decide +kernel
/-- `KroneckerFactoredLattice.__init__` -/
theorem accept_kflLayer : tableOK kflLayerInt kflLayerInt_row kflLayerInt_chunks = true := by decide +kernel
/-- `KroneckerFactoredLattice.__init__` followed by `build` on an input of the layer's own shape
with `dims` input dimensions: the monotonicities are canonicalised (no `decreasing`) and their number
compared with `dims` at build -/
theorem accept_kflBuild : tableOK kflBuildRow kflBuildRow_row kflBuildRow_chunks = true := by decide +kernel
/-- `RTL.__init__` (rtl_lib.verify_hyperparameters) -/
theorem accept_rtlLayer : tableOK rtlLayer rtlLayer_row rtlLayer_chunks = true := by decide +kernel
/-- `premade_lib.verify_config` on small model configs -/
theorem accept_premadeConfig :
    tableOK premadeConfig premadeConfig_row premadeConfig_chunks = true := by decide +kernel

/-! ## T1: accepted ⇒ indices in range, guards of every division site -/

/-- what `lattice_lib.verify_hyperparameters` guarantees about an accepted configuration -/
structure LatOK (c : LatCfg) : Prop where
  /-- every lattice size is at least 2: every axis has a non-empty box to interpolate in -/
  sizes_ge : ∀ s ∈ c.sizes, 2 ≤ s
  mono_len : ∀ l, c.mono = some l → l.length = c.sizes.length
  uni_len : ∀ l, c.uni = some l → l.length = c.sizes.length
  /-- both dimensions of every trust are integer indices below the rank; the main one is monotone -/
  trusts : ∀ t ∈ c.ew ++ c.tp, TrustOK c.sizes.length c.mono t
  /-- no feature is both a main and a conditional feature (in particular `main ≠ cond`) -/
  main_cond : ∀ t ∈ c.ew ++ c.tp, ∀ t' ∈ c.ew ++ c.tp, atomNat t.main ≠ atomNat t'.cond
  /-- dominance pairs are in range and between increasing dimensions -/
  doms : ∀ p ∈ c.md ++ c.rd, PairOK c.sizes.length c.mono true p
  joint : ∀ p ∈ c.jm, PairOK c.sizes.length c.mono false p
  /-- `output_min < output_max`: the denominator of the bounds projection is positive -/
  bounds : ∀ l h, c.lo = some l → c.hi = some h → l < h

/-- **C16-T1 (lattice)** whatever `lattice_lib.verify_hyperparameters` accepts — for ALL raw
arguments, of any rank — has every index in range, sizes ≥ 2, trusts on monotone main features
with `main ≠ cond`, dominances between increasing features and `output_min < output_max`. -/
theorem verifyLattice_ok (r : RawLatFull) (c : LatCfg) (h : verifyLattice r = .ok c) : LatOK c := by
  simp only [verifyLattice, bind, Except.bind] at h
  split at h
  · cases h
  · rename_i sizes hs
    split at h
    · cases h
    · rename_i mu hmu
      split at h
      · cases h
      · rename_i all hall
        split at h
        · cases h
        · rename_i md hmd
          split at h
          · cases h
          · rename_i rd hrd
            split at h
            · cases h
            · rename_i jm hjm
              split at h
              · cases h
              · rename_i ju hju
                split at h
                · cases h
                · rename_i lo hlo
                  split at h
                  · cases h
                  · rename_i hi hhi
                    split at h
                    · cases h
                    · rename_i hb
                      split at h
                      · cases h
                      · split at h
                        · cases h
                        · simp only [pure, Except.pure, Except.ok.injEq] at h
                          subst h
                          obtain ⟨_, _, hml, hul⟩ := verifyShape_spec hmu
                          obtain ⟨ht1, ht2⟩ := verifyTrusts_spec hall
                          have htd : List.take (seqLen r.ew) all ++ List.drop (seqLen r.ew) all = all :=
                            List.take_append_drop _ _
                          refine ⟨parseSizes_spec hs, hml, hul, ?_, ?_, ?_, verifyDominances_spec hjm,
                            loGeHi_false (by simpa using hb)⟩
                          · intro t ht; rw [htd] at ht; exact ht1 t ht
                          · intro t ht t' ht'; rw [htd] at ht ht'; exact ht2 t ht t' ht'
                          · intro p hp
                            rcases List.mem_append.mp hp with e | e
                            · exact verifyDominances_spec hmd p e
                            · exact verifyDominances_spec hrd p e

theorem getD_map_eqNum (l : List Atom) (m : Nat) (h : notIncreasing (some l) m = false) :
    (l.map (fun a => a.eqNum 1)).getD m false = true := by
  simp only [notIncreasing, Bool.not_eq_false'] at h
  by_cases hm : m < l.length
  · simp [List.getD_eq_getElem?_getD, List.getElem?_map, List.getElem?_eq_getElem hm] at h ⊢
    exact h
  · have : l.getD m Atom.none = Atom.none := by
      simp [List.getD_eq_getElem?_getD, List.getElem?_eq_none (not_lt.mp hm)]
    rw [this] at h
    simp [Atom.eqNum, Atom.num] at h

/-- **C16-T1 → C01**: an accepted lattice configuration meets the well-formedness hypothesis
`Tfl.C01.CfgWF` of the C01 theorems — provided no Edgeworth pair `(main, cond)` is listed twice.
(`verify_hyperparameters` rejects two trusts on one pair only when their directions differ; a
duplicated identical trust is accepted, hence the hypothesis.) -/
theorem verifyLattice_cfgWF (r : RawLatFull) (c : LatCfg) (h : verifyLattice r = .ok c)
    (hnd : (c.ew.map (fun t => (atomNat t.main, atomNat t.cond))).Nodup) : Tfl.C01.CfgWF c.toLat := by
  have ok := verifyLattice_ok r c h
  have hlen : (c.sizes.map Int.toNat).length = c.sizes.length := List.length_map _
  have key : ∀ t ∈ c.ew ++ c.tp, Tfl.Lat.TrustWF c.toLat.sizes (toTrust t) ∧
      c.toLat.mono.getD (toTrust t).main false = true := by
    intro t ht
    obtain ⟨hm, hc, hinc⟩ := ok.trusts t ht
    refine ⟨⟨?_, ?_, ?_⟩, ?_⟩
    · simp only [LatCfg.toLat, toTrust, hlen]; exact hm.atomNat_lt
    · simp only [LatCfg.toLat, toTrust, hlen]; exact hc.atomNat_lt
    · exact ok.main_cond t ht t ht
    · simp only [LatCfg.toLat, toTrust]
      cases hmono : c.mono with
      | none => rw [hmono] at hinc; simp [notIncreasing] at hinc
      | some l => rw [hmono] at hinc; simpa using getD_map_eqNum l _ hinc
  refine ⟨?_, ?_, ?_⟩
  · intro tr htr
    simp only [LatCfg.toLat, ← List.map_append] at htr
    obtain ⟨t, ht, rfl⟩ := List.mem_map.mp htr
    exact key t ht
  · simp only [LatCfg.toLat]
    rw [List.pairwise_map]
    have hp : c.ew.Pairwise (fun a b => (atomNat a.main, atomNat a.cond) ≠ (atomNat b.main, atomNat b.cond)) := by
      have := hnd
      rw [List.Nodup, List.pairwise_map] at this
      exact this
    refine hp.imp_of_mem ?_
    intro a b ha hb hne
    have ha' : a ∈ c.ew ++ c.tp := List.mem_append_left _ ha
    have hb' : b ∈ c.ew ++ c.tp := List.mem_append_left _ hb
    have h1 := ok.main_cond a ha' b hb'
    have h2 := ok.main_cond b hb' a ha'
    refine ⟨⟨fun e => h1 e.symm, h2, ?_⟩, ⟨fun e => h2 e.symm, h1, ?_⟩⟩
    · rintro ⟨e1, e2⟩; exact hne (by simp only [toTrust] at e1 e2; rw [e1, e2])
    · rintro ⟨e1, e2⟩; exact hne (by simp only [toTrust] at e1 e2; rw [e1, e2])
  · intro l h' hl hh
    exact ok.bounds l h' hl hh

/-- **C16-T1 (sizes)** every axis of an accepted lattice has at least one box `[k, k+1]`:
`size - 1 ≥ 1`, so the clip range `[0, size - 1]` of the interpolation is non-degenerate -/
theorem verifyLattice_boxes (r : RawLatFull) (c : LatCfg) (h : verifyLattice r = .ok c) :
    ∀ s ∈ c.toLat.sizes, 1 ≤ s - 1 := by
  intro s hs
  simp only [LatCfg.toLat] at hs
  obtain ⟨z, hz, rfl⟩ := List.mem_map.mp hs
  have := (verifyLattice_ok r c h).sizes_ge z hz
  omega


theorem strictlyIncreasing_lengths : ∀ (ks : List Rat), strictlyIncreasing ks = true →
    ∀ d ∈ pieceLengths ks, 0 < d := Tfl.Verify.strictlyIncreasing_lengths

/-- **C16-T1 (lattice sizes, fix 93797fc)** an accepted lattice has at least one dimension: the
hypothesis `sizes ≠ []` of the C02 / C03 theorems (restated for accepted configurations in
Props/C02Accepted.lean). -/
theorem verifyLattice_sizes_ne_nil (r : RawLatFull) (c : LatCfg) (h : verifyLattice r = .ok c) :
    c.sizes ≠ [] ∧ c.toLat.sizes ≠ [] :=
  ⟨(verifyLattice_sizes h).1.1, (verifyLattice_sizes h).2.1⟩

/-- **C16-T1 (PWL constraints class, fix e215d06)** list lengths accepted by
`PWLCalibrationConstraints.__init__` are all positive — the denominators of the slope (convexity)
projections; `Tfl.PwlProj.AllPos`, the hypothesis of every C04 theorem (discharged in
Props/C04Accepted.lean). -/
theorem pwlConstraints_lengths_pos (r : RawPwlC) (c : PwlCfg) (h : pwlConstraints r = .ok c) :
    ∀ ls, c.lengths = some ls → ∀ d ∈ ls, 0 < d := (verifyPwl_spec h).2.1

/-- **C16-T1 (PWL)** accepted keypoints are at least two and strictly increasing — every piece has
a positive length (the denominators of the interpolation weights); `output_min ≤ output_max`;
`is_cyclic` excludes monotonicity and convexity. -/
theorem verifyPwl_ok (kp omin omax mono conv cyc kpt : Val) (c : PwlCfg)
    (h : verifyPwl kp omin omax mono conv cyc kpt = .ok c) :
    (∀ ks, c.keypoints = some ks → 2 ≤ ks.length ∧ ∀ d ∈ pieceLengths ks, 0 < d) ∧
    (∀ l h', c.lo = some l → c.hi = some h' → l ≤ h') ∧
    (c.cyclic = true → c.mono.truthy = false ∧ c.conv.truthy = false) := by
  simp only [verifyPwl, bind, Except.bind] at h
  split at h
  · cases h
  · rename_i k hk
    split at h
    · cases h
    · rename_i lo _
      split at h
      · cases h
      · rename_i hi _
        split at h
        · cases h
        · rename_i hb
          split at h
          · cases h
          · rename_i m _
            split at h
            · cases h
            · rename_i cv _
              split at h
              · cases h
              · rename_i hcyc
                split at h
                · cases h
                split at h
                · cases h
                · simp only [pure, Except.pure, Except.ok.injEq] at h
                  subst h
                  refine ⟨?_, hiLtLo_false (by simpa using hb), ?_⟩
                  · intro ks hks
                    simp only at hks
                    subst hks
                    simp only [parseKeypoints, bind, Except.bind] at hk
                    split at hk
                    · cases hk
                    · split at hk
                      · cases hk
                      · rename_i n hn
                        split at hk
                        · cases hk
                        · rename_i hn2
                          split at hk
                          · cases hk
                          · rename_i xs hxs
                            split at hk
                            · cases hk
                            · rename_i ys hys
                              split at hk
                              · cases hk
                              · rename_i hsi
                                simp only [pure, Except.pure, Except.ok.injEq, Option.some.injEq] at hk
                                subst hk
                                refine ⟨?_, strictlyIncreasing_lengths ys (by simpa using hsi)⟩
                                have hl := mapE_length hys
                                cases kp with
                                | a x => cases x <;> simp [Val.len, Val.iter, te, oe] at hn hxs
                                | s t zs =>
                                  simp only [Val.len, Val.iter, Except.ok.injEq] at hn hxs
                                  subst hn hxs
                                  omega
                  · intro hc
                    simp only at hc
                    simp only [hc, Bool.true_and, Bool.or_eq_true, not_or, Bool.not_eq_true] at hcyc
                    exact hcyc


/-! ### Linear (loop invariants and the scalings lemmas: Lemmas/VerifyLinear.lean) -/

/-- **C16-T1 (linear, range dominance)**: for an accepted configuration every range-dominance
dimension is in range, has both input bounds and a NON-EMPTY input range `input_min < input_max`
(a consequence of `verify = ok` since fix 7189cd2 — formerly the hypothesis excluded by finding
F-C16-a), hence the scaling the projection divides by is non-zero. -/
theorem verifyLinear_range_scaling (nid : Option Nat) (mv mdv rdv iminv imaxv : Val) (c : LinCfg)
    (h : verifyLinear nid mv mdv rdv iminv imaxv = .ok c) :
    ∀ p ∈ c.rd, ∀ d, d = p.1 ∨ d = p.2 →
      d < c.monos.length ∧
      (∃ l h' : Rat, c.los.getD d none = some l ∧ c.his.getD d none = some h' ∧ l < h') ∧
      (Tfl.Linear.scalings c.monos c.rd c.los c.his).getD d 0 ≠ 0 := by
  intro p hp d hd
  obtain ⟨hlt, hr⟩ := verifyLinear_range h hp hd
  exact ⟨hlt, hr, verifyLinear_scalings_ne_zero h d hlt⟩

/-- **C16-T1 (linear): the division by the scalings is total.** For EVERY configuration accepted by
`linear_lib.verify_hyperparameters` NO entry of the scalings of `project` is zero — on the
dimensions of the range-dominance pairs by the verified `input_min < input_max`, on every other
dimension because it keeps `±1` since fix 44c9e89 (before it an accepted configuration with
`input_min = input_max` on a dimension outside the dominances made the real projection return
NaN: F-C06-a; the rational model, where `x / 0 = 0`, could not show it). -/
theorem verifyLinear_scalings_nonzero (nid : Option Nat) (mv mdv rdv iminv imaxv : Val) (c : LinCfg)
    (h : verifyLinear nid mv mdv rdv iminv imaxv = .ok c) :
    ∀ k, k < (Tfl.Linear.scalings c.monos c.rd c.los c.his).length →
      Tfl.Poset.getV (Tfl.Linear.scalings c.monos c.rd c.los c.his) k ≠ 0 := by
  intro k hk
  rw [Tfl.Linear.scalings_length] at hk
  exact verifyLinear_scalings_ne_zero h k hk

/-! ### Categorical, KFL -/

theorem lessThan_false {v : Val} {k : Rat} (h : lessThan v k = .ok false) :
    ∀ i : Int, v = .a (.int i) → k ≤ i := by
  intro i hv
  subst hv
  simp only [lessThan, Atom.toNum, Atom.num, Except.map, Except.ok.injEq, decide_eq_false_iff_not, not_lt] at h
  exact h

theorem catPair_spec {nb : Option Int} {it : Item} {p : Rat × Rat} (h : catPair nb it = .ok p) :
    0 ≤ p.1 ∧ 0 ≤ p.2 ∧ ∀ k : Int, nb = some k → p.1 < k ∧ p.2 < k := by
  unfold catPair at h
  split at h
  · split at h
    · cases h
    simp only [bind, Except.bind] at h
    split at h
    · cases h
    · split at h
      · cases h
      · rename_i hi0
        split at h
        · cases h
        · split at h
          · cases h
          · rename_i hj0
            split at h
            · split at h
              · cases h
              · rename_i hlt
                simp only [pure, Except.pure, Except.ok.injEq] at h
                subst h
                refine ⟨not_lt.mp hi0, not_lt.mp hj0, ?_⟩
                intro k' hk'
                simp only [Option.some.injEq] at hk'
                subst hk'
                simp only [Bool.or_eq_true, decide_eq_true_eq, not_or, not_le] at hlt
                exact hlt
            · simp only [pure, Except.pure, Except.ok.injEq] at h
              subst h
              exact ⟨not_lt.mp hi0, not_lt.mp hj0, fun k hk => by cases hk⟩
  · cases h

/-- **C16-T1 (categorical)** accepted ⇒ `output_min ≤ output_max`; every pair index is
non-negative and below `num_buckets` when that is known -/
theorem verifyCategorical_ok (nb omin omax mono : Val) (c : CatCfg)
    (h : verifyCategorical nb omin omax mono = .ok c) :
    (∀ l h', c.lo = some l → c.hi = some h' → l ≤ h') ∧
    (∀ p ∈ c.pairs, 0 ≤ p.1 ∧ 0 ≤ p.2 ∧ ∀ k : Int, nbOf nb = some k → p.1 < k ∧ p.2 < k) := by
  simp only [verifyCategorical, bind, Except.bind] at h
  split at h
  · cases h
  split at h
  · cases h
  split at h
  · cases h
  · rename_i lo _
    split at h
    · cases h
    · rename_i hi _
      split at h
      · cases h
      · rename_i hb
        have hbd := hiLtLo_false (lo := lo) (hi := hi) (by simpa using hb)
        split at h
        · cases h
        · rename_i ps hps
          split at h
          · cases h
          simp only [pure, Except.pure, Except.ok.injEq] at h
          subst h
          refine ⟨hbd, ?_⟩
          intro p hp
          simp only at hp
          unfold catPairs at hps
          split at hps
          · simp only [Except.ok.injEq] at hps; subst hps; cases hp
          · split at hps
            · split at hps
              · cases hps
              · obtain ⟨it, _, hit⟩ := mapE_mem hps hp
                exact catPair_spec hit
            · cases hps

/-! ### the cycle check of the categorical constructors (fix 66006cc) -/

/-- an accepted `num_buckets` is `None` or an integer ≥ 1 -/
theorem nbFew_false {v : Val} (h : nbFew v = .ok false) : lessThan v 1 = .ok false := by
  unfold nbFew at h
  split at h
  · rfl
  · rename_i k
    have hk : ¬ k < 1 := by simpa using h
    have hq : ¬ ((k : Rat) < 1) := by exact_mod_cast hk
    simp [lessThan, Atom.toNum, Atom.num, Except.map, hq]
  · simp at h

/-- the parts of an accepted categorical configuration -/
theorem verifyCategorical_parts {nb omin omax mono : Val} {c : CatCfg}
    (h : verifyCategorical nb omin omax mono = .ok c) :
    catPairs (nbOf nb) mono = .ok c.pairs ∧ kahnAcyclic c.pairs.length c.pairs = true ∧
    c.buckets = (nbOf nb).map Int.toNat ∧ lessThan nb 1 = .ok false := by
  simp only [verifyCategorical, bind, Except.bind] at h
  split at h
  · cases h
  rename_i few hfew
  split at h
  · cases h
  rename_i hf
  have hfew0 : nbFew nb = .ok false := by
    rw [hfew]; congr; simpa using hf
  have hfew' : lessThan nb 1 = .ok false := nbFew_false hfew0
  split at h
  · cases h
  · split at h
    · cases h
    · split at h
      · cases h
      · split at h
        · cases h
        · rename_i ps hps
          split at h
          · cases h
          · rename_i hk
            simp only [pure, Except.pure, Except.ok.injEq] at h
            subst h
            exact ⟨hps, by simpa using hk, rfl, hfew'⟩

/-- **C16 (categorical, cycle check)** whatever `categorical_calibration_lib.verify_hyperparameters`
accepts — for ALL raw arguments — passes the round-based check of fix 66006cc: the loop ends with
`remaining` empty. -/
theorem verifyCategorical_kahn (nb omin omax mono : Val) (c : CatCfg)
    (h : verifyCategorical nb omin omax mono = .ok c) :
    kahnAcyclic c.pairs.length c.pairs = true := (verifyCategorical_parts h).2.1

/-- **C16-T1 (categorical, fix 76984f9)** an accepted `num_buckets` is at least 1: the calibrator
has a bucket to look up (`num_buckets - 1`, the bucket of `default_input_value`, is a valid index) -/
theorem verifyCategorical_buckets_pos (nb omin omax mono : Val) (c : CatCfg)
    (h : verifyCategorical nb omin omax mono = .ok c) : ∀ n, c.buckets = some n → 1 ≤ n := by
  obtain ⟨_, _, hb, hlt⟩ := verifyCategorical_parts h
  intro n hn
  rw [hb] at hn
  cases hk : nbOf nb with
  | none => rw [hk] at hn; cases hn
  | some k =>
    rw [hk] at hn
    simp only [Option.map_some, Option.some.injEq] at hn
    have hv : nb = .a (.int k) := by
      unfold nbOf at hk
      split at hk
      · simp only [Option.some.injEq] at hk; subst hk; rfl
      · cases hk
    have := lessThan_false hlt k hv
    have hk1 : (1 : Int) ≤ k := by exact_mod_cast this
    omega

/-- **C16 (categorical, accepted ⇒ acyclic)** an accepted pair list has no cycle
`x → … → x` (self pairs and cycles behind a root included), as a statement about the indices as
the validation compares them (numbers; `1.0` and `1` are the same bucket). -/
theorem verifyCategorical_pacyclic (nb omin omax mono : Val) (c : CatCfg)
    (h : verifyCategorical nb omin omax mono = .ok c) : PAcyclic c.pairs :=
  kahnAcyclic_sound _ _ (verifyCategorical_kahn nb omin omax mono c h)

/-- every index is integral -/
def IntPairs (ps : List (Rat × Rat)) : Prop := ∀ p ∈ ps, p.1.den = 1 ∧ p.2.den = 1

/-- an accepted pair consists of two Python ints (fix ab2e39a: `isinstance(i, numbers.Integral)`) -/
theorem catPair_int {nb : Option Int} {it : Item} {p : Rat × Rat} (h : catPair nb it = .ok p) :
    p.1.den = 1 ∧ p.2.den = 1 := by
  unfold catPair at h
  split at h
  · rename_i t a b
    split at h
    · cases h
    · rename_i hint
      simp only [Bool.not_eq_true, Bool.not_eq_false', Bool.and_eq_true] at hint
      cases a <;> simp only [Atom.isInt] at hint <;> try exact absurd hint.1 (by decide)
      cases b <;> simp only [Atom.isInt] at hint <;> try exact absurd hint.2 (by decide)
      simp only [Atom.toNum, Atom.num, bind, Except.bind] at h
      split at h
      · cases h
      · split at h
        · cases h
        · split at h
          · split at h
            · cases h
            · simp only [pure, Except.pure, Except.ok.injEq] at h
              subst h; exact ⟨rfl, rfl⟩
          · simp only [pure, Except.pure, Except.ok.injEq] at h
            subst h; exact ⟨rfl, rfl⟩
  · cases h

/-- **C16-T1 (categorical, fix ab2e39a)** whatever the categorical validation accepts — for ALL
raw arguments — has integral bucket indices: floats (`1.0` as well as `1.5`), `None` and strings
are rejected with a `ValueError` (formerly the hypothesis `IntPairs` of the theorems below,
excluded by finding F-C16-t: a float index was accepted and the first projection raised
`TypeError`). -/
theorem verifyCategorical_intPairs (nb omin omax mono : Val) (c : CatCfg)
    (h : verifyCategorical nb omin omax mono = .ok c) : IntPairs c.pairs := by
  have hps := (verifyCategorical_parts h).1
  intro p hp
  unfold catPairs at hps
  split at hps
  · simp only [Except.ok.injEq] at hps; rw [← hps] at hp; cases hp
  · split at hps
    · split at hps
      · cases hps
      · obtain ⟨it, _, hpi⟩ := mapE_mem hps hp
        exact catPair_int hpi
    · cases hps

theorem floor_toNat_inj {a b : Rat} (ha : 0 ≤ a) (hb : 0 ≤ b) (hai : a.den = 1) (hbi : b.den = 1)
    (h : a.floor.toNat = b.floor.toNat) : a = b := by
  have ea : ((a.num : Int) : Rat) = a := (Rat.den_eq_one_iff a).mp hai
  have eb : ((b.num : Int) : Rat) = b := (Rat.den_eq_one_iff b).mp hbi
  have na : 0 ≤ a.num := Rat.num_nonneg.mpr ha
  have nb : 0 ≤ b.num := Rat.num_nonneg.mpr hb
  rw [← ea, ← eb, Rat.floor_intCast, Rat.floor_intCast] at h
  have : a.num = b.num := by omega
  rw [← ea, ← eb, this]

/-- **C16 → C06 (the `Acyclic` hypothesis is discharged by construction)**: for EVERY accepted
categorical configuration, the pair set handed to the projection is `Tfl.Poset.Acyclic` — the
hypothesis of `Tfl.C06.categorical_pairs_and_bounds_acyclic`, `categorical_fixpoint_acyclic` and
of `Tfl.Poset.topoSort_valid`. No side condition is left: the indices are integral by
`verifyCategorical_intPairs` (fix ab2e39a). -/
theorem verifyCategorical_acyclic (nb omin omax mono : Val) (c : CatCfg)
    (h : verifyCategorical nb omin omax mono = .ok c) :
    Tfl.Poset.Acyclic c.natPairs := by
  have hint := verifyCategorical_intPairs nb omin omax mono c h
  have hok := (verifyCategorical_ok nb omin omax mono c h).2
  have hnn : ∀ a, PNode c.pairs a → 0 ≤ a ∧ a.den = 1 := by
    rintro a ⟨p, hp, e | e⟩
    · exact e ▸ ⟨(hok p hp).1, (hint p hp).1⟩
    · exact e ▸ ⟨(hok p hp).2.1, (hint p hp).2⟩
  exact (pacyclic_nat_iff _).mp (pacyclic_map (fun r : Rat => r.floor.toNat)
    (fun a b ha hb e => floor_toNat_inj (hnn a ha).1 (hnn b hb).1 (hnn a ha).2 (hnn b hb).2 e)
    (verifyCategorical_pacyclic nb omin omax mono c h))

/-- **the cycle check rejects EXACTLY the cyclic pair lists**: with `num_buckets ≥ 1`, bounds in order and every pair
well-formed and in range, the configuration is accepted iff its pair list has no cycle
(soundness `kahnAcyclic_sound` and completeness `kahnAcyclic_complete` of the rounds). -/
theorem verifyCategorical_accepts_iff (nb omin omax mono : Val) (lo hi : Option Rat) (ps : List (Rat × Rat))
    (hnb : nbFew nb = .ok false)
    (hlo : boundOf omin = .ok lo) (hhi : boundOf omax = .ok hi) (hb : hiLtLo lo hi = false)
    (hps : catPairs (nbOf nb) mono = .ok ps) :
    outcome (verifyCategorical nb omin omax mono) = 0 ↔ PAcyclic ps := by
  simp only [verifyCategorical, bind, Except.bind, hnb, hlo, hhi, hb, hps]
  by_cases hk : kahnAcyclic ps.length ps = true
  · simp [hk, outcome, pure, Except.pure, (kahnAcyclic_iff ps).mp hk]
  · have : ¬ PAcyclic ps := fun h => hk ((kahnAcyclic_iff ps).mpr h)
    simp [hk, outcome, ve, this]

theorem natPairs_node {ps : List (Rat × Rat)} {a : Nat} (h : Tfl.Poset.IsNode (natPairs ps) a) :
    ∃ p ∈ ps, p.1.floor.toNat = a ∨ p.2.floor.toNat = a := by
  obtain ⟨c, hc, e⟩ := h
  obtain ⟨p, hp, rfl⟩ := List.mem_map.mp hc
  exact ⟨p, hp, e⟩

theorem floor_toNat_lt {r : Rat} {k : Int} (h : r < k) (h0 : 0 ≤ r) : r.floor.toNat < k.toNat := by
  have h1 : r.floor < k := Rat.floor_lt_iff.mpr h
  have h2 : 0 ≤ r.floor := Rat.le_floor_iff.mpr (by simpa using h0)
  omega

/-- **C16 + C06 (categorical): accepted ⇒ the projection is total and enforces the configuration.**
For EVERY configuration accepted by the model of `CategoricalCalibration.__init__` and every
kernel column with `num_buckets` entries, the constraint
`CategoricalCalibrationConstraints.__call__` (model `Tfl.Categorical.project`) does not raise, and
returns a column of the same length that satisfies every monotonicity pair and lies within the
output bounds. No acyclicity, range or bound-order hypothesis is left: all three are what the
constructor has verified. -/
theorem categoricalLayer_projection_total (r : RawCat) (c : CatCfg) (h : categoricalLayer r = .ok c)
    (n : Nat) (hn : c.buckets = some n) (w : List Rat) (hw : w.length = n) :
    ∃ out, Tfl.Categorical.project c.lo c.hi c.natPairs w = .ok out ∧
      Tfl.Poset.Feasible c.natPairs out ∧ out.length = w.length ∧
      ∀ k, k < out.length → (∀ l, c.lo = some l → l ≤ Tfl.Poset.getV out k) ∧
        (∀ h', c.hi = some h' → Tfl.Poset.getV out k ≤ h') := by
  have hok := verifyCategorical_ok r.nb r.omin r.omax r.mono c h
  have hb := (verifyCategorical_parts h).2.2.1
  rw [hn] at hb
  cases hnb : nbOf r.nb with
  | none => rw [hnb] at hb; cases hb
  | some k =>
    rw [hnb] at hb
    simp only [Option.map_some, Option.some.injEq] at hb
    refine Tfl.C06.categorical_pairs_and_bounds_acyclic c.lo c.hi c.natPairs w
      (verifyCategorical_acyclic r.nb r.omin r.omax r.mono c h) ?_ hok.1
    intro a ha
    obtain ⟨p, hp, e⟩ := natPairs_node ha
    obtain ⟨h1, h2, h3⟩ := hok.2 p hp
    obtain ⟨l1, l2⟩ := h3 k hnb
    rw [hw, hb]
    rcases e with e | e <;> rw [← e]
    · exact floor_toNat_lt l1 h1
    · exact floor_toNat_lt l2 h2

/-- the same for the constraints class, which does not know `num_buckets`: the indices must lie
inside the column (what the layer's `num_buckets` check provides) -/
theorem categoricalConstraints_projection_total (r : RawCatC) (c : CatCfg) (h : categoricalConstraints r = .ok c)
    (w : List Rat) (hin : ∀ p ∈ c.pairs, p.1 < w.length ∧ p.2 < w.length) :
    ∃ out, Tfl.Categorical.project c.lo c.hi c.natPairs w = .ok out ∧
      Tfl.Poset.Feasible c.natPairs out ∧ out.length = w.length ∧
      ∀ k, k < out.length → (∀ l, c.lo = some l → l ≤ Tfl.Poset.getV out k) ∧
        (∀ h', c.hi = some h' → Tfl.Poset.getV out k ≤ h') := by
  have hok := verifyCategorical_ok _ r.omin r.omax r.mono c h
  refine Tfl.C06.categorical_pairs_and_bounds_acyclic c.lo c.hi c.natPairs w
    (verifyCategorical_acyclic _ r.omin r.omax r.mono c h) ?_ hok.1
  intro a ha
  obtain ⟨p, hp, e⟩ := natPairs_node ha
  obtain ⟨h1, h2, _⟩ := hok.2 p hp
  have hl := hin p hp
  have key : ∀ x : Rat, 0 ≤ x → x < w.length → x.floor.toNat < w.length := by
    intro x hx hlt
    have := floor_toNat_lt (r := x) (k := (w.length : Int)) (by exact_mod_cast hlt) hx
    simpa using this
  rcases e with e | e <;> rw [← e]
  · exact key _ h1 hl.1
  · exact key _ h2 hl.2

/-- non-vacuity: the diamond with a repeated pair and bounds is accepted, its indices are integral,
and the projection of a hostile column is feasible -/
example : outcome (categoricalLayer ⟨.a (.int 4), .a (.flt 0), .a (.flt 1),
    .s false [.s true [.int 0, .int 1], .s true [.int 0, .int 2], .s false [.int 1, .int 3], .s true [.int 2, .int 3],
      .s true [.int 0, .int 1]]⟩) = 0 := by decide +kernel

/-- **C16-T1 (KFL)** accepted ⇒ `lattice_sizes ≥ 2`, `units ≥ 1`, `num_terms ≥ 1`,
`output_min < output_max` -/
theorem kflLayer_ok (r : RawKfl) (c : KflCfg) (h : kflLayer r = .ok c) :
    (∀ i : Int, r.size = .a (.int i) → 2 ≤ i) ∧ (∀ i : Int, r.units = .a (.int i) → 1 ≤ i) ∧
    (∀ i : Int, r.terms = .a (.int i) → 1 ≤ i) ∧ (∀ l h', c.lo = some l → c.hi = some h' → l < h') := by
  simp only [kflLayer, bind, Except.bind] at h
  split at h
  · cases h
  · rename_i b1 h1
    split at h
    · cases h
    · rename_i hb1
      split at h
      · cases h
      · rename_i b2 h2
        split at h
        · cases h
        · rename_i hb2
          split at h
          · cases h
          · rename_i b3 h3
            split at h
            · cases h
            · rename_i hb3
              split at h
              · cases h
              · split at h
                · cases h
                · split at h
                  · cases h
                  · rename_i hb
                    simp only [pure, Except.pure, Except.ok.injEq] at h
                    subst h
                    have e1 : b1 = false := by simpa using hb1
                    have e2 : b2 = false := by simpa using hb2
                    have e3 : b3 = false := by simpa using hb3
                    subst e1 e2 e3
                    refine ⟨fun i hi => ?_, fun i hi => ?_, fun i hi => ?_, loGeHi_false (by simpa using hb)⟩
                    · exact_mod_cast lessThan_false h1 i hi
                    · exact_mod_cast lessThan_false h2 i hi
                    · exact_mod_cast lessThan_false h3 i hi


/-! ## T2: synonymous spellings configure identical behaviour -/

/-- every synonym of a raw lattice configuration replaced by its integer:
`'increasing'`→1, `'none'`→0, `'valley'`→1, `'peak'`→-1, `'positive'`→1, `'negative'`→-1 -/
def synLat (r : RawLatFull) : RawLatFull :=
  { r with mono := r.mono.mapItems synMono, uni := r.uni.mapItems synUni,
           ew := r.ew.mapDirs synDir, tp := r.tp.mapDirs synDir }

theorem concatTrusts_mapDirs (f : Atom → Atom) (ew tp : Val) :
    concatTrusts (ew.mapDirs f) (tp.mapDirs f) = (concatTrusts ew tp).map (Val.mapDirs f) := by
  unfold concatTrusts
  rw [truthy_mapDirs, truthy_mapDirs]
  cases ew with
  | a x =>
    cases tp with
    | a y => cases hx : x.truthy <;> cases hy : y.truthy <;> simp [Val.truthy, Val.mapDirs, hx, hy, Except.map, te]
    | s t ys =>
      cases hx : x.truthy <;> cases ys <;> simp [Val.truthy, Val.mapDirs, hx, Except.map, te] <;>
        (split <;> simp [Except.map, Val.mapDirs])
  | s t xs =>
    cases tp with
    | a y =>
      cases hy : y.truthy <;> cases xs <;> simp [Val.truthy, Val.mapDirs, hy, Except.map, te] <;>
        (split <;> simp [Except.map, Val.mapDirs])
    | s t' ys =>
      cases xs <;> cases ys <;> simp [Val.truthy, Val.mapDirs, Except.map] <;>
        (split <;> simp [Except.map, Val.mapDirs, te])

theorem seqLen_mapDirs (f : Atom → Atom) (v : Val) : seqLen (v.mapDirs f) = seqLen v := by
  cases v <;> simp [seqLen, Val.mapDirs]

theorem verifyTrusts_syn (n : Nat) (mono : Option (List Atom)) (ew tp : Val) :
    verifyTrusts n mono (ew.mapDirs synDir) (tp.mapDirs synDir) = verifyTrusts n mono ew tp := by
  unfold verifyTrusts
  rw [concatTrusts_mapDirs]
  cases concatTrusts ew tp with
  | error e => rfl
  | ok v => simp only [Except.map, bind, Except.bind, canonTrust_syn]

/-- **C16-T2 (lattice)** a configuration spelled with strings and the same configuration spelled
with integers are validated to the SAME canonical configuration (or rejected alike) — hence
configure identical projections and evaluations. -/
theorem verifyLattice_syn (r : RawLatFull) : verifyLattice (synLat r) = verifyLattice r := by
  simp only [verifyLattice, synLat, verifyShape, canonMonotonicities_syn, canonUnimodalities_syn,
    verifyTrusts_syn, seqLen_mapDirs]

/-- rewrite a scalar hyper-parameter -/
def Val.mapTop (f : Atom → Atom) : Val → Val
  | .a x => .a (f x)
  | v => v

theorem toItem_mapTop (f : Atom → Atom) (v : Val) : (Val.mapTop f v).toItem = v.toItem.mapAtom f := by
  cases v <;> rfl

/-- **C16-T2 (PWL)** `monotonicity='increasing'` / `1`, `'decreasing'` / `-1`, `convexity='convex'` /
`1` … are validated to the same configuration -/
theorem verifyPwl_syn (kp omin omax mono conv cyc kpt : Val) :
    verifyPwl kp omin omax (Val.mapTop synMono mono) (Val.mapTop synConv conv) cyc kpt =
      verifyPwl kp omin omax mono conv cyc kpt := by
  simp only [verifyPwl, toItem_mapTop, canonMonotonicity_syn, canonConvexity_syn]

/-- **C16-T2 (linear)** -/
theorem verifyLinear_syn (nid : Option Nat) (mono md rd imin imax : Val) :
    verifyLinear nid (mono.mapItems synMono) md rd imin imax = verifyLinear nid mono md rd imin imax := by
  simp only [verifyLinear, canonMonotonicities_syn]

/-- **C16-T2 (single tuple / one-element list)** `Lattice.__init__` turns a single trust tuple
into the one-element list, so both spellings configure the same constraints -/
theorem wrapSingle_single (i : Int) (b d : Atom) :
    wrapSingle (.s true [.a (.int i), .a b, .a d]) = .s false [.s true [.int i, b, d]] := rfl
theorem wrapSingle_pair (i : Int) (b : Atom) :
    wrapSingle (.s true [.a (.int i), .a b]) = .s false [.s true [.int i, b]] := rfl
/-- a list (of tuples) is left alone -/
theorem wrapSingle_list (xs : List Item) : wrapSingle (.s false xs) = .s false xs := rfl

/-! ## non-vacuity -/

/-- a rank-3 configuration with string spellings, both trust kinds, a dominance and bounds is accepted -/
def exampleLat : RawLatFull :=
  { sizes := .s false [.a (.int 3), .a (.int 2), .a (.int 3)]
    mono := .s false [.a (.str .increasing), .a (.int 1), .a (.str .none_)]
    ew := .s false [.s true [.int 0, .int 2, .str .positive]]
    tp := .s false [.s true [.int 1, .int 2, .int (-1)]]
    md := .s false [.s true [.int 0, .int 1]]
    omin := .a (.flt 0), omax := .a (.flt 1) }
example : outcome (verifyLattice exampleLat) = 0 := by decide +kernel
example : (verifyLattice exampleLat).toOption.map (fun c => c.ew.length + c.tp.length) = some 2 := by decide +kernel

/-! ## counter-witnesses of the recorded findings -/

/-- **F-C16-a, fixed by 7189cd2**: the old witness — a range dominance on a dimension whose input
range is empty (`input_min = input_max`), whose scaling is 0 — is now REJECTED with a ValueError
by the model of the fixed `linear_lib.verify_hyperparameters`. -/
theorem fixed_C16_a_zero_range_rejected :
    outcome (linearConstraints ⟨.s false [.a (.int 1), .a (.int 1)], .a .none,
      .s false [.s true [.int 0, .int 1]], .s false [.a (.flt 0), .a (.flt 0)],
      .s false [.a (.flt 1), .a (.flt 0)]⟩) = 1 ∧
    (Tfl.Linear.scalings [1, 1] [(0, 1)] [some 0, some 0] [some 1, some 0]).getD 1 1 = 0 := by decide +kernel

/-- **F-C16-f** a dominance given as ONE tuple to `LinearConstraints` / `Linear` is a `TypeError`
(`len()` of an int), not a `ValueError` -/
theorem F_C16_f_single_tuple_dominance :
    outcome (linearConstraints ⟨.s false [.a (.int 1), .a (.int 1)], .s true [.a (.int 0), .a (.int 1)],
      .a .none, .a .none, .a .none⟩) = 2 := by decide +kernel

/-- **F-C16-h, fixed**: `LatticeConstraints` documents its trust / dominance arguments with "same
meaning as the corresponding parameter of `Lattice`" (None, ONE tuple, or an iterable of tuples);
a single tuple given to the constraints class (formerly a `TypeError`) is now wrapped and accepted,
and configures the same thing as the one-element list -/
theorem fixed_C16_h_single_tuple_trust :
    outcome (latticeConstraints ⟨.s false [.a (.int 2), .a (.int 2)], .s false [.a (.int 1), .a (.int 1)], .a .none,
      .s true [.a (.int 0), .a (.int 1), .a (.str .positive)], .a .none, .a .none, .a .none, .a .none, .none, .a .none, .a .none⟩) = 0 ∧
    outcome (latticeConstraints ⟨.s false [.a (.int 2), .a (.int 2)], .s false [.a (.int 1), .a (.int 1)], .a .none,
      .a .none, .a .none, .s true [.a (.int 0), .a (.int 1)], .a .none, .a .none, .none, .a .none, .a .none⟩) = 0 ∧
    latticeConstraints ⟨.s false [.a (.int 2), .a (.int 2)], .s false [.a (.int 1), .a (.int 1)], .a .none,
      .s true [.a (.int 0), .a (.int 1), .a (.str .positive)], .a .none, .a .none, .a .none, .a .none, .none, .a .none, .a .none⟩ =
    latticeConstraints ⟨.s false [.a (.int 2), .a (.int 2)], .s false [.a (.int 1), .a (.int 1)], .a .none,
      .s false [.s true [.int 0, .int 1, .str .positive]], .a .none, .a .none, .a .none, .a .none, .none, .a .none, .a .none⟩ := by
  decide +kernel

/-- **F-C16-i, fixed by b89ac95**: dominances with `monotonicities=None` (formerly an
`AssertionError`) and an `input_min` shorter than `monotonicities` (formerly an `IndexError`) are
now both rejected with a ValueError -/
theorem fixed_C16_i_linear_assert_index_rejected :
    outcome (linearConstraints ⟨.a .none, .a .none, .s false [.s true [.int 0, .int 1]],
      .s false [.a (.flt 0), .a (.flt 0)], .s false [.a (.flt 1), .a (.flt 1)]⟩) = 1 ∧
    outcome (linearConstraints ⟨.s false [.a (.int 1), .a (.int 1), .a (.int 1)], .a .none,
      .s false [.s true [.int 0, .int 2]], .s false [.a (.flt 0), .a (.flt 0)],
      .s false [.a (.flt 1), .a (.flt 1)]⟩) = 1 := by decide +kernel

/-- **F-C16-e, fixed by a22154b**: `is_cyclic` with `'equal_slopes'` is rejected at construction;
the same arguments without the offending one are accepted.

**F-C16-m (known finding)**: clamping of a non monotonic calibrator is ACCEPTED at construction
(third conjunct) although the first projection raises "Clamping is not implemented for non
monotonic functions" — the construction-time rejection of a22154b/35f6090 was taken back by
0029d95 because upstream's `testAssertMonotonicity` builds exactly such a layer. -/
theorem fixed_C16_e_finding_C16_m :
    let base : RawPwl := ⟨.s false [.a (.flt 0), .a (.flt 1), .a (.flt 3)], .a (.flt 0), .a (.flt 2), .a (.int 0),
      .a (.str .none_), .a (.int 0), .a (.int 0), .a .none, .a .none, .a (.str .fixed), .a (.int 0), .a (.int 0),
      .a (.str .other)⟩
    outcome (pwlCalibration base) = 0 ∧
    outcome (pwlCalibration { base with cyclic := .a (.int 1), init := .a (.str .equal_slopes) }) = 1 ∧
    (outcome (pwlCalibration { base with clampMin := .a (.int 1) }) = 0 ∧
      clampRequested { base with clampMin := .a (.int 1) } = true) ∧
    outcome (pwlCalibration { base with clampMin := .a (.int 1), mono := .a (.str .increasing) }) = 0 := by
  decide +kernel

/-- **C16-T1 (PWL layer)** an accepted cyclic `PWLCalibration` is not initialised with
`'equal_slopes'` (the late failure F-C16-e is excluded by construction).  The companion statement
"an accepted layer that requests clamping is monotone" is FALSE of the current code (F-C16-m,
witness in `fixed_C16_e_finding_C16_m`) and is therefore not claimed. -/
theorem pwlCalibration_ok_partial (r : RawPwl) (c : PwlCfg) (h : pwlCalibration r = .ok c) :
    (r.cyclic.truthy = true → r.init ≠ .a (.str .equal_slopes)) := by
  simp only [pwlCalibration, bind, Except.bind] at h
  split at h
  · cases h
  · split at h
    · cases h
    · split at h
      · cases h
      · split at h
        · cases h
        · split at h
          · cases h
          · rename_i hcyc
            intro hc he
            apply hcyc; simp [hc, he]

/-- **F-C16-j, fixed by 4c13b7a**: per-dimension torsion amounts of the wrong length are rejected -/
theorem fixed_C16_j_torsion_amounts_rejected :
    outcome (torsionRegularizer ⟨.s false [.a (.int 2), .a (.int 2)], .s false [.a (.flt (1/10))], .a (.flt 0)⟩) = 1 := by
  decide +kernel

/-- **F-C16-s, fixed by 6e08a8c**: `LatticeConstraints.__init__` now hands `output_min` /
`output_max` to the verification: `output_min >= output_max` is a ValueError at construction (the
bounds projection can no longer divide by `output_max - output_min = 0`); proper bounds are accepted -/
theorem fixed_C16_s_bounds_verified :
    outcome (latticeConstraints ⟨.s false [.a (.int 3), .a (.int 3)], .s false [.a (.int 1), .a (.int 1)], .a .none,
      .s false [.s true [.int 0, .int 1, .int 1]], .a .none, .a .none, .a .none, .a .none, .none,
      .a (.flt 0), .a (.flt 0)⟩) = 1 ∧
    outcome (latticeConstraints ⟨.s false [.a (.int 3), .a (.int 3)], .s false [.a (.int 1), .a (.int 1)], .a .none,
      .s false [.s true [.int 0, .int 1, .int 1]], .a .none, .a .none, .a .none, .a .none, .none,
      .a (.flt 0), .a (.flt 1)⟩) = 0 := by
  decide +kernel

/-- **C16-T1 → C01 for the constraints class**: whatever `LatticeConstraints.__init__` accepts —
output bounds included since fix 6e08a8c — meets `Tfl.C01.CfgWF` (same side condition on duplicate
Edgeworth pairs as `verifyLattice_cfgWF`) -/
theorem latticeConstraints_cfgWF (r : RawLattice) (c : LatCfg) (h : latticeConstraints r = .ok c)
    (hnd : (c.ew.map (fun t => (atomNat t.main, atomNat t.cond))).Nodup) : Tfl.C01.CfgWF c.toLat :=
  verifyLattice_cfgWF _ c h hnd

/-- **F-C16-n, fixed by f7753e0**: repeated dimensions inside one joint unimodality are rejected with
the intended `ValueError` (the message is formatted with `% (single_constraint,)`; it was a
`TypeError`) by `LatticeConstraints` and by `Lattice`, also after a valid first constraint; distinct
dimensions are accepted -/
theorem fixed_C16_n_repeated_dims_rejected :
    outcome (latticeConstraints ⟨.s false [.a (.int 3), .a (.int 3), .a (.int 3)], .a .none, .a .none, .a .none, .a .none,
      .a .none, .a .none, .a .none, .list [([0, 0], .str .peak)], .a .none, .a .none⟩) = 1 ∧
    outcome (latticeConstraints ⟨.s false [.a (.int 3), .a (.int 3), .a (.int 3)], .a .none, .a .none, .a .none, .a .none,
      .a .none, .a .none, .a .none, .list [([2], .str .valley), ([1, 0, 1], .str .peak)], .a .none, .a .none⟩) = 1 ∧
    outcome (latticeLayer ⟨.s false [.a (.int 3), .a (.int 3), .a (.int 3)], .a .none, .a .none,
      .list [([0, 0], .str .peak)], .a .none, .a .none, .a (.str .hypercube), .a (.str .other)⟩) = 1 ∧
    outcome (latticeConstraints ⟨.s false [.a (.int 3), .a (.int 3), .a (.int 3)], .a .none, .a .none, .a .none, .a .none,
      .a .none, .a .none, .a .none, .list [([0, 1], .str .peak)], .a .none, .a .none⟩) = 0 := by decide +kernel

/-- **F-C16-p, fixed by f995047**: `Lattice.__init__` verifies the joint unimodalities BEFORE
`create_kernel_initializer` indexes `all_unimodalities` by their dimensions: a dimension outside the
lattice (`7`, `-1`, `rank`) is a `ValueError`; `create_kernel_initializer` alone — what the
constructor ran into before the fix — raises `IndexError` (outcome 3) on the old witness; a valid
joint unimodality is accepted. -/
theorem fixed_C16_p_joint_unimodality_dims_verified_first :
    let base : RawLatLayer := ⟨.s false [.a (.int 3), .a (.int 3)], .a .none, .a .none, .none, .a .none, .a .none,
      .a (.str .hypercube), .a (.str .other)⟩
    outcome (latticeLayer { base with ju := .list [([7], .str .peak)] }) = 1 ∧
    outcome (createKernelInitializer base (.list [([7], .str .peak)])) = 3 ∧
    outcome (latticeLayer { base with ju := .list [([-1], .str .peak)] }) = 1 ∧
    outcome (latticeLayer { base with ju := .list [([2], .str .peak)] }) = 1 ∧
    outcome (latticeLayer { base with ju := .single [0, 9] (.str .valley) }) = 1 ∧
    outcome (latticeLayer { base with ju := .list [([1], .str .peak)] }) = 0 ∧
    outcome (latticeLayer { base with ju := .single [0, 1] (.str .valley) }) = 0 := by decide +kernel

theorem pySetAll_ok (x : Atom) : ∀ (ds : List Int) (l : List Atom), (∀ d ∈ ds, 0 ≤ d ∧ d < l.length) →
    ∃ l', pySetAll x ds l = .ok l' ∧ l'.length = l.length := by
  intro ds
  induction ds with
  | nil => intro l _; exact ⟨l, rfl, rfl⟩
  | cons d ds ih =>
    intro l h
    have hd := h d (List.mem_cons_self ..)
    have e : pySet l d x = .ok (l.set d.toNat x) := by simp [pySet, hd.1, hd.2]
    obtain ⟨l', h1, h2⟩ := ih (l.set d.toNat x) (fun d' hd' => by
      rw [List.length_set]; exact h d' (List.mem_cons_of_mem _ hd'))
    refine ⟨l', ?_, by rw [h2, List.length_set]⟩
    simp only [pySetAll, bind, Except.bind, e]
    exact h1

theorem juDimLoop_range {sizes : List Int} {mono : Option (List Atom)} :
    ∀ ds : List Int, juDimLoop sizes mono ds = .ok () → ∀ d ∈ ds, 0 ≤ d ∧ d < sizes.length := by
  intro ds
  induction ds with
  | nil => intro _ d hd; cases hd
  | cons a ds ih =>
    intro h d hd
    unfold juDimLoop at h
    split_ifs at h with hr
    · cases h
    · cases h
    · cases h
    · rcases List.mem_cons.mp hd with e | e
      · subst e
        exact ⟨by omega, by omega⟩
      · exact ih h d e

theorem juLoop_range {sizes : List Int} {mono : Option (List Atom)} :
    ∀ xs : List (List Int × Atom), juLoop sizes mono xs = .ok () →
      ∀ p ∈ xs, ∀ d ∈ p.1, 0 ≤ d ∧ d < sizes.length := by
  intro xs
  induction xs with
  | nil => intro _ p hp; cases hp
  | cons q rest ih =>
    intro h p hp
    obtain ⟨dims, dir⟩ := q
    simp only [juLoop, bind, Except.bind] at h
    split at h
    · cases h
    · split at h
      · cases h
      · rename_i hdl
        split at h
        · cases h
        · rcases List.mem_cons.mp hp with e | e
          · subst e
            have hu : juDimLoop sizes mono dims = .ok () := by
              rw [hdl]
            exact juDimLoop_range dims hu
          · exact ih h p e

theorem foldlM_pySetAll_ok : ∀ (ju : List (List Int × Atom)) (l : List Atom),
    (∀ p ∈ ju, ∀ d ∈ p.1, 0 ≤ d ∧ d < (l.length : Int)) →
    ∃ l', ju.foldlM (fun l p => pySetAll p.2 p.1 l) l = .ok l' ∧ l'.length = l.length := by
  intro ju
  induction ju with
  | nil => intro l _; exact ⟨l, rfl, rfl⟩
  | cons p rest ih =>
    intro l h
    obtain ⟨l1, e1, n1⟩ := pySetAll_ok p.2 p.1 l (h p (List.mem_cons_self ..))
    obtain ⟨l2, e2, n2⟩ := ih l1 (fun q hq d hd => by rw [n1]; exact h q (List.mem_cons_of_mem _ hq) d hd)
    refine ⟨l2, ?_, by rw [n2, n1]⟩
    simp only [List.foldlM_cons, bind, Except.bind, e1]
    exact e2

/-- **C16-T1 (Lattice layer, fix f995047)** once the verification of the joint unimodalities has
accepted them — for ALL lattice sizes, monotonicities and joint unimodalities — the loop of
`create_kernel_initializer` that indexes the per-dimension list `all_unimodalities` by the jointly
unimodal dimensions stays in range: no `IndexError` can follow the second verification of
`Lattice.__init__` (before the fix nothing had verified the dimensions at that point: F-C16-p). -/
theorem latticeLayer_indexing_total (sizes : List Int) (mono : Option (List Atom)) (ju : JU)
    (xs : List (List Int × Atom)) (h : verifyJU sizes mono ju = .ok xs) (uni : Val) :
    ∃ l, allUnimodalities sizes.length uni ju.pairs = .ok l ∧ l.length = sizes.length := by
  have hr : ∀ p ∈ ju.pairs, ∀ d ∈ p.1, 0 ≤ d ∧ d < (sizes.length : Int) := by
    cases ju with
    | none => intro p hp; cases hp
    | single _ _ => intro p hp; cases hp
    | list ys =>
      simp only [verifyJU, bind, Except.bind] at h
      split at h
      · cases h
      · rename_i u hu
        cases u
        exact juLoop_range ys hu
  unfold allUnimodalities
  cases uni with
  | a x =>
    obtain ⟨l, e, n⟩ := foldlM_pySetAll_ok ju.pairs (List.replicate sizes.length (.int 0))
      (by simpa using hr)
    exact ⟨l, e, by simpa using n⟩
  | s t ys =>
    obtain ⟨l, e, n⟩ := foldlM_pySetAll_ok ju.pairs ((List.range sizes.length).map (fun i =>
        match ys.getD i (.a (.int 0)) with
        | .a x => if x.truthy then x else .int 0
        | .s _ _ => .int 0))
      (by simpa using hr)
    exact ⟨l, e, by simpa using n⟩

/-- **F-C16-i (residual), fixed by 4a8f232**: `Linear.__init__` hands `input_min` / `input_max` to the
verification: bounds of the wrong length and crossed bounds are a `ValueError` at construction also
when the layer has no monotonicity (no constraint object is ever created); bounds of the right
length (with `None` / `'none'` entries) are accepted. -/
theorem fixed_C16_i_linear_layer_bounds_verified :
    outcome (linearLayer ⟨.a (.int 3), .a .none, .s false [.a (.flt 0), .a (.flt 0)], .a .none⟩) = 1 ∧
    outcome (linearLayer ⟨.a (.int 3), .a .none, .a .none, .s false [.a (.flt 1), .a (.flt 1), .a (.flt 1), .a (.flt 1)]⟩) = 1 ∧
    outcome (linearLayer ⟨.a (.int 2), .a .none, .s false [.a (.flt 1), .a (.flt 0)], .s false [.a (.flt 0), .a (.flt 1)]⟩) = 1 ∧
    outcome (linearLayer ⟨.a (.int 3), .a .none, .s false [.a (.flt 0), .a .none, .a (.str .none_)],
      .s false [.a (.flt 1), .a (.flt 1), .a (.flt 1)]⟩) = 0 := by decide +kernel

/-- **F-C16-l, fixed by 66006cc**: circular categorical monotonicity pairs are rejected with a
`ValueError` at construction (layer and constraints class): the 2-cycle, the cycle behind a root
`[(0,1),(1,2),(2,1)]` that `_topological_sort` never rejected, a self pair, a cycle through a
float-spelled index (rejected for the float already since ab2e39a); chains, diamonds and repeated
pairs are accepted. -/
theorem fixed_C16_l_circular_pairs_rejected :
    let pr (i j : Int) : Item := .s true [.int i, .int j]
    let lay (ps : List Item) : Nat := outcome (categoricalLayer ⟨.a (.int 4), .a .none, .a .none, .s false ps⟩)
    lay [pr 0 1, pr 1 0] = 1 ∧ lay [pr 0 1, pr 1 2, pr 2 1] = 1 ∧ lay [pr 0 0] = 1 ∧ lay [pr 0 1, pr 1 1] = 1 ∧
    lay [pr 0 1, pr 1 2, pr 2 3, pr 3 1] = 1 ∧ lay [pr 0 1, .s true [.flt 1, .int 0]] = 1 ∧
    outcome (categoricalConstraints ⟨.a .none, .a .none, .s false [pr 0 1, pr 1 2, pr 2 1]⟩) = 1 ∧
    lay [pr 0 1, pr 1 2] = 0 ∧ lay [pr 0 1, pr 0 2, pr 1 3, pr 2 3] = 0 ∧ lay [pr 0 1, pr 0 1] = 0 ∧
    lay [pr 2 3, pr 1 2, pr 0 1] = 0 := by decide +kernel

/-- **F-C16-t, fixed by ab2e39a**: a bucket index that is not a Python int — the float `1.5`, the
integral floats `1.0` / `0.0`, `None`, a string — is rejected with a `ValueError` at construction by
the layer and by the constraints class (it was accepted, and the first projection raised
`TypeError: list indices must be integers`); ints and bools (`True` is the int 1) are accepted. -/
theorem fixed_C16_t_non_integer_index_rejected :
    let lay (a b : Atom) : Nat := outcome (categoricalLayer ⟨.a (.int 3), .a .none, .a .none, .s false [.s true [a, b]]⟩)
    let con (a b : Atom) : Nat := outcome (categoricalConstraints ⟨.a .none, .a .none, .s false [.s true [a, b]]⟩)
    lay (.int 0) (.flt 1) = 1 ∧ lay (.int 0) (.flt (3/2)) = 1 ∧ lay (.flt 0) (.int 1) = 1 ∧ lay .none (.int 1) = 1 ∧
    lay (.int 0) (.str .other) = 1 ∧ con (.int 0) (.flt 1) = 1 ∧ con (.flt (1/2)) (.int 1) = 1 ∧
    lay (.int 0) (.int 1) = 0 ∧ con (.int 0) (.int 1) = 0 := by decide +kernel

/-- **F-C16-u, fixed by 2ef7ec2**: circular Linear dominance sets are rejected with a `ValueError` at
construction — a 3-cycle of monotonic dominances, a 3-cycle of range dominances, a cycle behind a
root, a pair `(d, d)` (they were accepted: only a pair together with its reverse was rejected, and
the first projection raised `ValueError` from `_topological_sort`); chains and the transitive
triangle are accepted. -/
theorem fixed_C16_u_circular_linear_dominances_rejected :
    let pr (i j : Int) : Item := .s true [.int i, .int j]
    let three : Val := .s false [.a (.int 1), .a (.int 1), .a (.int 1)]
    let b0 : Val := .s false [.a (.flt 0), .a (.flt 0), .a (.flt 0)]
    let b1 : Val := .s false [.a (.flt 1), .a (.flt 1), .a (.flt 1)]
    let md (ps : List Item) : Nat := outcome (linearConstraints ⟨three, .s false ps, .a .none, .a .none, .a .none⟩)
    let rd (ps : List Item) : Nat := outcome (linearConstraints ⟨three, .a .none, .s false ps, b0, b1⟩)
    md [pr 0 1, pr 1 2, pr 2 0] = 1 ∧ rd [pr 0 1, pr 1 2, pr 2 0] = 1 ∧ md [pr 0 1, pr 1 2, pr 2 1] = 1 ∧
    md [pr 0 0] = 1 ∧ rd [pr 0 1, pr 1 1] = 1 ∧
    md [pr 0 1, pr 1 2] = 0 ∧ rd [pr 1 2, pr 0 1] = 0 ∧ md [pr 0 1, pr 1 2, pr 0 2] = 0 := by decide +kernel

/-- **F-C16-x, fixed by 1f0b06a**: a range dominance between features whose monotonicity is `None`
is rejected like monotonicity 0 (`None == 0` is `False`, so `[None, None]` used to be accepted —
a dominance between non-monotone features, which the property names as invalid); with `1, 1` the
same configuration is accepted. -/
theorem fixed_C16_x_range_dominance_none_monotonicity_rejected :
    let b0 : Val := .s false [.a (.flt 0), .a (.flt 0)]
    let b1 : Val := .s false [.a (.flt 1), .a (.flt 1)]
    let rdv : Val := .s false [.s true [.int 0, .int 1]]
    outcome (linearConstraints ⟨.s false [.a .none, .a .none], .a .none, rdv, b0, b1⟩) = 1 ∧
    outcome (linearConstraints ⟨.s false [.a (.int 0), .a (.int 0)], .a .none, rdv, b0, b1⟩) = 1 ∧
    outcome (linearConstraints ⟨.s false [.a (.int 1), .a (.int 1)], .a .none, rdv, b0, b1⟩) = 0 := by decide +kernel

/-- **F-C16-y, fixed by 93797fc**: empty `lattice_sizes` (`[]`, `()`, `None`) are a `ValueError` for
the constraints class, the layer, the initializers and the regularizers (an empty lattice was
accepted and raised `ZeroDivisionError` / `IndexError` later). -/
theorem fixed_C16_y_empty_lattice_sizes_rejected :
    let con (sz : Val) : Nat := outcome (latticeConstraints ⟨sz, .a .none, .a .none, .a .none, .a .none, .a .none,
      .a .none, .a .none, .none, .a .none, .a .none⟩)
    con (.s false []) = 1 ∧ con (.s true []) = 1 ∧ con (.a .none) = 1 ∧ con (.s false [.a (.int 2)]) = 0 ∧
    outcome (latticeLayer ⟨.s false [], .a .none, .a .none, .none, .a .none, .a .none, .a (.str .hypercube),
      .a (.str .other)⟩) = 1 ∧
    outcome (linearInitializer ⟨.s false [], .a .none, .a (.flt 0), .a (.flt 1), .a .none⟩) = 1 ∧
    outcome (laplacianRegularizer ⟨.s false [], .a (.flt (1/2)), .a (.flt 0)⟩) = 1 := by decide +kernel

/-- **F-C16-z, fixed by 76984f9**: `num_buckets < 1` (0, -1) is a `ValueError` at construction (a
calibrator without buckets was accepted and returned 0, outside its output bounds); 1 is accepted. -/
theorem fixed_C16_z_zero_buckets_rejected :
    let lay (k : Int) : Nat := outcome (categoricalLayer ⟨.a (.int k), .a (.flt 1), .a (.flt 2), .a .none⟩)
    lay 0 = 1 ∧ lay (-1) = 1 ∧ lay 1 = 0 := by decide +kernel

/-- **F-C16-aa, fixed by e215d06**: `PWLCalibrationConstraints(convexity=1, lengths=[0, 0, 1])` — and
every list of lengths with a non-positive entry — is a `ValueError` at construction (it was
accepted and the convexity projection divided by the zero lengths: NaN); positive lengths are
accepted. -/
theorem fixed_C16_aa_non_positive_lengths_rejected :
    let con (ls : List Rat) : Nat := outcome (pwlConstraints ⟨.a (.int 0), .a (.int 1),
      .s false (ls.map (fun l => Item.a (.flt l))), .a .none, .a .none⟩)
    con [0, 0, 1] = 1 ∧ con [1, 0] = 1 ∧ con [1, -1/2] = 1 ∧ con [1, 2] = 0 ∧
    outcome (pwlConstraints ⟨.a (.int 0), .a (.int 1), .a .none, .a .none, .a .none⟩) = 0 := by decide +kernel

/-- **F-C16-ab, fixed by b6fcc7a**: `premade_lib.verify_config` rejects an empty `feature_configs`
list, an explicit ensemble with an empty lattice, and an empty `output_initialization` (they were
accepted and the model constructors raised `IndexError`); the well-formed configurations next to
them are accepted. -/
theorem fixed_C16_ab_premade_empties_rejected :
    let f : Feat := ⟨2, 0, 0, 0, 0, 0, 0, 0⟩
    let ok : RawPremade := ⟨2, some [f, f], 0, 0, 2, 2, some 2, 1, 0, 0, 0⟩
    outcome (premadeConfig ok) = 0 ∧
    outcome (premadeConfig { ok with feats := some [] }) = 1 ∧
    outcome (premadeConfig { ok with kind := 0, feats := some [] }) = 1 ∧
    outcome (premadeConfig { ok with lat := 3 }) = 1 ∧
    outcome (premadeConfig { ok with outInit := 4 }) = 1 ∧
    outcome (premadeConfig { ok with kind := 0, outInit := 4 }) = 1 := by decide +kernel

/-- **F-C16-k, fixed by 7b8a1bf (and c6f03d2 for the categorical part)**: the failure was one of
dtypes at the first call (a float32 `tf.ones` concatenated with float64 interpolation weights), which
the validation model does not describe; what the model states is that the witnesses — a
`learned_interior` calibrator and one with missing-value imputation — are ACCEPTED configurations,
so the property demands that they work; the harness builds, projects and evaluates them in float64
(corpus/C16/fixed.json). -/
theorem fixed_C16_k_float64_witnesses_accepted :
    let base : RawPwl := ⟨.s false [.a (.flt 0), .a (.flt 1), .a (.flt 2)], .a .none, .a .none, .a (.str .none_),
      .a (.str .none_), .a (.int 0), .a (.int 0), .a .none, .a .none, .a (.str .fixed), .a (.int 0), .a (.int 0),
      .a (.str .other)⟩
    outcome (pwlCalibration { base with kptype := .a (.str .learned_interior) }) = 0 ∧
    outcome (pwlCalibration { base with impute := .a (.int 1), missIn := .a (.flt (-1)) }) = 0 := by decide +kernel

/-- the cycle check of `internal_utils._topological_sort` rejects a pair set only when it has NO
root: `[(0,1),(1,0)]` is rejected, `[(0,1),(1,2),(2,1)]` is not (the returned order `[0,1,2]` is
not a valid topological order) — which is why the categorical constructors run their own complete
check since fix 66006cc (`kahnAcyclic` rejects both) -/
theorem cycle_check_incomplete :
    cycleRejected [(0, 1), (1, 0)] = true ∧ cycleRejected [(0, 1), (1, 2), (2, 1)] = false ∧
    Tfl.Poset.topoSort [(0, 1), (1, 2), (2, 1)] = some [0, 1, 2] ∧
    Tfl.Poset.validOrder [(0, 1), (1, 2), (2, 1)] [0, 1, 2] = false ∧
    kahnAcyclic 2 [((0 : Nat), (1 : Nat)), (1, 0)] = false ∧
    kahnAcyclic 3 [((0 : Nat), (1 : Nat)), (1, 2), (2, 1)] = false := by decide +kernel


end Tfl.C16
