import TflModel.Props.C01Constraint
import TflModel.Lemmas.Verify
import TflModel.Lemmas.VerifyTrustDirs
/-!
# C01 for ACCEPTED configurations

The class theorems of `Props/C01.lean` assume `CfgWF` / `CfgWFd` and `MixedClassWF`. Here everything
that is a WELL-FORMEDNESS fact is derived from acceptance by `lattice_lib.verify_hyperparameters`
(`Tfl.Verify.verifyLattice r = .ok c`, Model/Verify.lean, tied to the real constructors by the tables
of C16), for the projection configuration `c.toLat` the accepted configuration configures:

* `accepted_cfgWFd` — trusts name two different lattice dimensions with a monotone main one, two
  Edgeworth trusts are identical or compatible, `output_min < output_max`. NO side condition on
  duplicates: an identical Edgeworth trust listed twice IS accepted by the real `verify_hyperparameters`
  and is covered (`CfgWFd`; two trusts on one pair of features have the same direction —
  `Lemmas/VerifyTrustDirs.lean` — hence are the same trust).
* `accepted_mixed_structural` — the structural part of `MixedClassWF`: sizes ≥ 2, no feature both a
  main and a conditional feature, an Edgeworth trust on the grid of a trapezoid trust IS the matching
  one.
* what is NOT a well-formedness fact but the genuine class restriction of the property
  ("the only tolerated exception …" + finding F-C01-a) is `HTrap`: with Edgeworth trusts present, the
  conditional features of the trapezoid trusts are pairwise different and — unless the lattice has
  rank 2 — not monotone.

Headline: `accepted_finalize_strict` / `accepted_constraint_strict` (accepted ∧ `HTrap` ⇒ every strict
constraint holds for every kernel, on the executable finalisation and on the whole weight
constraint for every iteration count) and `accepted_finalize_fixpoint` / `accepted_constraint_fixpoint`
(accepted — no class restriction at all — ⇒ feasible kernels are returned unchanged).
-/
namespace Tfl.C01
open Tfl Tfl.Lat Tfl.Verify

/-- the class restriction H_trap of DESIGN.md (NOT implied by acceptance): it only constrains
configurations with BOTH kinds of trusts. `distinct` is the documented exception of the property
statement (several trapezoid trusts sharing a conditional feature while Edgeworth trusts are
present); `cond_free` excludes finding F-C01-a (`C01_counter_witness`). -/
structure HTrap (c : Cfg) : Prop where
  distinct : c.edgeworth ≠ [] → c.trapezoid.Pairwise (fun a b => a.cond ≠ b.cond)
  cond_free : c.edgeworth ≠ [] → c.sizes.length ≠ 2 → ∀ tr ∈ c.trapezoid, c.mono.getD tr.cond false = false

theorem getD_map_eqNum' (l : List Atom) (m : Nat) (h : notIncreasing (some l) m = false) :
    (l.map (fun a => a.eqNum 1)).getD m false = true := by
  simp only [notIncreasing, Bool.not_eq_false'] at h
  by_cases hm : m < l.length
  · simp [List.getD_eq_getElem?_getD, List.getElem?_map, List.getElem?_eq_getElem hm] at h ⊢
    exact h
  · have : l.getD m Atom.none = Atom.none := by
      simp [List.getD_eq_getElem?_getD, List.getElem?_eq_none (not_lt.mp hm)]
    rw [this] at h
    simp [Atom.eqNum, Atom.num] at h

/-- everything acceptance says about the trusts, in terms of the canonical configuration -/
theorem accepted_trust_facts {r : RawLatFull} {c : LatCfg} (h : verifyLattice r = .ok c) :
    (∀ t ∈ c.ew ++ c.tp, TrustOK c.sizes.length c.mono t) ∧
    (∀ t ∈ c.ew ++ c.tp, ∀ t' ∈ c.ew ++ c.tp, atomNat t.main ≠ atomNat t'.cond) ∧
    (∀ t ∈ c.ew ++ c.tp, ∀ t' ∈ c.ew ++ c.tp, atomNat t.main = atomNat t'.main →
      atomNat t.cond = atomNat t'.cond → t.dir = t'.dir) := by
  obtain ⟨mu, all, _, _, hall, hm, _, hew, htp, _⟩ := verifyLattice_parts h
  have htd : c.ew ++ c.tp = all := by rw [hew, htp]; exact List.take_append_drop _ _
  obtain ⟨h1, h2⟩ := verifyTrusts_spec hall
  rw [htd, hm]
  exact ⟨h1, h2, verifyTrusts_dirs hall⟩

theorem toTrust_eq {t t' : CTrust} (hm : atomNat t.main = atomNat t'.main) (hc : atomNat t.cond = atomNat t'.cond)
    (hd : t.dir = t'.dir) : toTrust t = toTrust t' := by
  simp only [toTrust, hm, hc, hd]

theorem accepted_trustWF {r : RawLatFull} {c : LatCfg} (h : verifyLattice r = .ok c) :
    ∀ t ∈ c.ew ++ c.tp, TrustWF c.toLat.sizes (toTrust t) ∧ c.toLat.mono.getD (toTrust t).main false = true := by
  obtain ⟨h1, h2, _⟩ := accepted_trust_facts h
  have hlen : (c.sizes.map Int.toNat).length = c.sizes.length := List.length_map _
  intro t ht
  obtain ⟨hm, hc, hinc⟩ := h1 t ht
  refine ⟨⟨?_, ?_, ?_⟩, ?_⟩
  · simp only [LatCfg.toLat, toTrust, hlen]; exact hm.atomNat_lt
  · simp only [LatCfg.toLat, toTrust, hlen]; exact hc.atomNat_lt
  · exact h2 t ht t ht
  · simp only [LatCfg.toLat, toTrust]
    cases hmono : c.mono with
    | none => rw [hmono] at hinc; simp [notIncreasing] at hinc
    | some l => rw [hmono] at hinc; simpa using getD_map_eqNum' l _ hinc

/-- two accepted trusts (as projection trusts) are identical or act on different grids without
exchanging the roles of an axis -/
theorem accepted_eq_or_compatible {r : RawLatFull} {c : LatCfg} (h : verifyLattice r = .ok c) :
    ∀ a ∈ c.ew ++ c.tp, ∀ b ∈ c.ew ++ c.tp,
      toTrust a = toTrust b ∨ (Compatible (toTrust a) (toTrust b) ∧ Compatible (toTrust b) (toTrust a)) := by
  obtain ⟨_, h2, h3⟩ := accepted_trust_facts h
  intro a ha b hb
  by_cases e : atomNat a.main = atomNat b.main ∧ atomNat a.cond = atomNat b.cond
  · exact Or.inl (toTrust_eq e.1 e.2 (h3 a ha b hb e.1 e.2))
  · refine Or.inr ⟨⟨?_, ?_, ?_⟩, ⟨?_, ?_, ?_⟩⟩
    · exact fun x => h2 a ha b hb x.symm
    · exact h2 b hb a ha
    · exact e
    · exact fun x => h2 b hb a ha x.symm
    · exact h2 a ha b hb
    · exact fun x => e ⟨x.1.symm, x.2.symm⟩

/-- **accepted ⇒ `CfgWFd`** — for ALL raw arguments; no `Nodup` side condition. -/
theorem accepted_cfgWFd (r : RawLatFull) (c : LatCfg) (h : verifyLattice r = .ok c) : CfgWFd c.toLat := by
  have key := accepted_trustWF h
  have hec := accepted_eq_or_compatible h
  obtain ⟨_, _, _, _, _, _, _, _, _, hb⟩ := verifyLattice_parts h
  refine ⟨?_, ?_, ?_⟩
  · intro tr htr
    simp only [LatCfg.toLat, ← List.map_append] at htr
    obtain ⟨t, ht, rfl⟩ := List.mem_map.mp htr
    exact key t ht
  · simp only [LatCfg.toLat]
    rw [List.pairwise_map]
    have htriv : c.ew.Pairwise (fun _ _ => True) := List.pairwise_of_forall (fun _ _ => trivial)
    exact htriv.imp_of_mem (fun {a b} ha hb _ =>
      hec a (List.mem_append_left _ ha) b (List.mem_append_left _ hb))
  · intro l h' hl hh
    exact loGeHi_false hb l h' hl hh

/-- **accepted ⇒ `CfgWF` when no Edgeworth pair is listed twice** (the statement of
`Tfl.C16.verifyLattice_cfgWF`, here without the generated tables) -/
theorem accepted_cfgWF (r : RawLatFull) (c : LatCfg) (h : verifyLattice r = .ok c)
    (hnd : (c.ew.map (fun t => (atomNat t.main, atomNat t.cond))).Nodup) : CfgWF c.toLat := by
  have hd := accepted_cfgWFd r c h
  obtain ⟨_, h2, _⟩ := accepted_trust_facts h
  refine ⟨hd.trust_wf, ?_, hd.bounds⟩
  simp only [LatCfg.toLat]
  rw [List.pairwise_map]
  have hp : c.ew.Pairwise (fun a b => (atomNat a.main, atomNat a.cond) ≠ (atomNat b.main, atomNat b.cond)) := by
    have := hnd
    rw [List.Nodup, List.pairwise_map] at this
    exact this
  refine hp.imp_of_mem ?_
  intro a b ha hb hne
  have ha' : a ∈ c.ew ++ c.tp := List.mem_append_left _ ha
  have hb' : b ∈ c.ew ++ c.tp := List.mem_append_left _ hb
  refine ⟨⟨fun e => h2 a ha' b hb' e.symm, h2 b hb' a ha', ?_⟩, ⟨fun e => h2 b hb' a ha' e.symm, h2 a ha' b hb', ?_⟩⟩
  · rintro ⟨e1, e2⟩; exact hne (by simp only [toTrust] at e1 e2; rw [e1, e2])
  · rintro ⟨e1, e2⟩; exact hne (by simp only [toTrust] at e1 e2; rw [e1, e2])

/-- **accepted ⇒ the structural part of `MixedClassWF`** (its fields `sizes`, `roles`, `compat`): what
`verify_hyperparameters` guarantees. The two remaining fields are `HTrap`. -/
theorem accepted_mixed_structural (r : RawLatFull) (c : LatCfg) (h : verifyLattice r = .ok c) :
    (∀ tr ∈ c.toLat.trapezoid, 2 ≤ c.toLat.sizes.getD tr.main 0 ∧ 1 ≤ c.toLat.sizes.getD tr.cond 0) ∧
    (∀ a ∈ c.toLat.trapezoid, ∀ b ∈ c.toLat.trapezoid, b.cond ≠ a.main) ∧
    (∀ tr ∈ c.toLat.trapezoid, ∀ e ∈ c.toLat.edgeworth, e = tr ∨ Compatible tr e) := by
  have key := accepted_trustWF h
  have hec := accepted_eq_or_compatible h
  obtain ⟨_, h2, _⟩ := accepted_trust_facts h
  have hsz := (verifyLattice_sizes h).2.2
  have hge : ∀ d, d < c.toLat.sizes.length → 2 ≤ c.toLat.sizes.getD d 0 := by
    intro d hd
    rw [List.getD_eq_getElem?_getD, List.getElem?_eq_getElem hd]
    exact hsz _ (List.getElem_mem hd)
  refine ⟨?_, ?_, ?_⟩
  · intro tr htr
    simp only [LatCfg.toLat] at htr
    obtain ⟨t, ht, rfl⟩ := List.mem_map.mp htr
    obtain ⟨hw, _⟩ := key t (List.mem_append_right _ ht)
    exact ⟨hge _ hw.1, by have := hge _ hw.2.1; omega⟩
  · intro a ha b hb
    simp only [LatCfg.toLat] at ha hb
    obtain ⟨ta, hta, rfl⟩ := List.mem_map.mp ha
    obtain ⟨tb, htb, rfl⟩ := List.mem_map.mp hb
    exact fun e => h2 ta (List.mem_append_right _ hta) tb (List.mem_append_right _ htb) e.symm
  · intro tr htr e he
    simp only [LatCfg.toLat] at htr he
    obtain ⟨t, ht, rfl⟩ := List.mem_map.mp htr
    obtain ⟨te, hte, rfl⟩ := List.mem_map.mp he
    rcases hec t (List.mem_append_right _ ht) te (List.mem_append_left _ hte) with e1 | e1
    · exact Or.inl e1.symm
    · exact Or.inr e1.1

theorem accepted_mixedClassWF (r : RawLatFull) (c : LatCfg) (h : verifyLattice r = .ok c) (ht : HTrap c.toLat) :
    MixedClassWF c.toLat :=
  ⟨(accepted_mixed_structural r c h).1, (accepted_mixed_structural r c h).2.1, (accepted_mixed_structural r c h).2.2,
    ht.distinct, ht.cond_free⟩

/-! ## headline theorems for accepted configurations -/

/-- **C01 for accepted configurations, `finalize_constraints()`** (any mode): whatever
`verify_hyperparameters` accepts — any rank, sizes, monotonicities, Edgeworth / trapezoid trusts of
either direction, duplicated or not, one- or two-sided bounds — inside the class H_trap, for EVERY
kernel, the executable finalisation + clip returns a kernel meeting every strict constraint. -/
theorem accepted_finalize_strict (r : RawLatFull) (c : LatCfg) (h : verifyLattice r = .ok c) (ht : HTrap c.toLat)
    (t : Table) : Strict c.toLat (runStage c.toLat.sizes (clipBounds c.toLat.lo c.toLat.hi) (finalizeT c.toLat t)).get :=
  C01_exec_mixed_class_d c.toLat (accepted_cfgWFd r c h) (accepted_mixedClassWF r c h ht) t

/-- function-level form of the same -/
theorem accepted_finalize_strict_fn (r : RawLatFull) (c : LatCfg) (h : verifyLattice r = .ok c) (ht : HTrap c.toLat)
    (w : W) : Strict c.toLat (clipBounds c.toLat.lo c.toLat.hi (finalize c.toLat w)) :=
  C01_strict_mixed_class_d c.toLat (accepted_cfgWFd r c h) (accepted_mixedClassWF r c h ht) w

/-- **C01 for accepted configurations, the weight constraint in strict mode**: `k` is ANY constraint
object whose strict part is the accepted configuration (`k.fin = c.toLat`: same sizes,
monotonicities, trusts, bounds; unimodalities, dominances, joint constraints and the iteration count
are arbitrary). For every kernel the result of `LatticeConstraints.__call__` meets every strict
constraint. -/
theorem accepted_constraint_strict (r : RawLatFull) (c : LatCfg) (h : verifyLattice r = .ok c) (ht : HTrap c.toLat)
    (k : LCfg) (hk : k.fin = c.toLat) (hs : k.strict = true) (t : Table) :
    Strict c.toLat (latticeConstraintT k t).get := by
  rw [← hk]
  exact C01_constraint_strict k hs (by rw [hk]; exact accepted_cfgWFd r c h)
    (by rw [hk]; exact accepted_mixedClassWF r c h ht) t

/-- **C01 last clause for accepted configurations, `finalize_constraints()`**: NO class restriction —
every accepted configuration, every kernel satisfying its strict constraints is returned unchanged. -/
theorem accepted_finalize_fixpoint (r : RawLatFull) (c : LatCfg) (h : verifyLattice r = .ok c) (t : Table)
    (hf : Strict c.toLat t.get) : Table.vals c.toLat.sizes (finalizeT c.toLat t) = Table.vals c.toLat.sizes t :=
  C01_finalize_fixpoint c.toLat
    (fun tr htr => ((accepted_cfgWFd r c h).trust_wf tr (List.mem_append_right _ htr)).1)
    (accepted_cfgWFd r c h).bounds t hf

/-- **C01 last clause for accepted configurations, the whole weight constraint**, both modes, every
iteration count, every constraint family configured in `k.d`. -/
theorem accepted_constraint_fixpoint (r : RawLatFull) (c : LatCfg) (h : verifyLattice r = .ok c)
    (k : LCfg) (hk : k.fin = c.toLat) (t : Table) (hf : Tfl.C08.FeasibleD k.d t.get)
    (hin : InBounds k.d.sizes k.lo k.hi t.get) :
    Table.vals k.d.sizes (latticeConstraintT k t) = Table.vals k.d.sizes t := by
  have hwf := accepted_cfgWFd r c h
  rw [← hk] at hwf
  exact C01_constraint_fixpoint k
    (fun tr htr => (hwf.trust_wf tr (List.mem_append_right _ htr)).1) hwf.bounds t hf hin

/-! ## non-vacuity -/

/-- a DUPLICATED identical Edgeworth trust is accepted (the real `verify_hyperparameters` accepts it
too: `t1.py` of the audit), it is outside `CfgWF` but inside `CfgWFd` -/
def dupRaw : RawLatFull :=
  { sizes := .s false [.a (.int 3), .a (.int 3), .a (.int 2)]
    mono := .s false [.a (.int 1), .a (.int 0), .a (.int 1)]
    ew := .s false [.s true [.int 0, .int 1, .int 1], .s true [.int 0, .int 1, .int 1]] }

theorem dup_accepted :
    (verifyLattice dupRaw).toOption.map (fun c => c.toLat.edgeworth) = some [⟨0, 1, true⟩, ⟨0, 1, true⟩] := by
  decide +kernel

def dupCfg : Cfg :=
  { sizes := [3, 3, 2]
    mono := [true, false, true]
    edgeworth := [⟨0, 1, true⟩, ⟨0, 1, true⟩] }

example : ¬ CfgWF dupCfg := fun h => by
  have := h.compat
  simp only [dupCfg, List.pairwise_cons, List.mem_cons, List.not_mem_nil, or_false, forall_eq] at this
  exact this.1.1.2.2 ⟨rfl, rfl⟩

/-- the same trust with the OPPOSITE direction on the same pair is rejected -/
example : outcome (verifyLattice
    { dupRaw with ew := .s false [.s true [.int 0, .int 1, .int 1], .s true [.int 0, .int 1, .int (-1)]] }) = 1 := by
  decide +kernel

def witnessRaw : RawLatFull :=
  { sizes := .s false [.a (.int 2), .a (.int 2), .a (.int 2)]
    mono := .s false [.a (.int 1), .a (.int 1), .a (.int 0)]
    ew := .s false [.s true [.int 0, .int 2, .int 1]]
    tp := .s false [.s true [.int 0, .int 1, .int (-1)]] }

/-- `HTrap` is not implied by acceptance: the configuration of finding F-C01-a is accepted -/
theorem witness_accepted_not_HTrap :
    (verifyLattice witnessRaw).toOption.map (fun c => c.toLat.trapezoid)
      = some witnessCfg.trapezoid ∧ ¬ HTrap witnessCfg := by
  refine ⟨by decide +kernel, fun h => ?_⟩
  have := h.cond_free (by simp [witnessCfg]) (by decide) ⟨0, 1, false⟩ (by simp [witnessCfg])
  revert this; decide

end Tfl.C01
