import TflModel.Props.C12Feasible
import TflModel.Props.C07Fix
/-!
# C07 / C12 — the KFL constraints preserve the shape of (kernel, scale)

`C12.kfl_constraints_accepted` ("after any constraint run the KFL assert accepts at `eps = 0`") took
the full `terms × dims × ls` shape of the FINAL kernel as a hypothesis (`KflTransposed` on the final
state). Here: every function of `Model/Kfl.lean` that writes a variable (`kernelConstraint`,
`scaleConstraint`, `step`, `runOps`, `finalizeConstraints`, the Keras schedules) preserves

* the number of terms, * `dims` columns per term, * `ls` keypoints per column, * the scale length,

for ALL sizes (0 included: nothing degenerates, every stage is a `map` / `zipWith`), under exactly
the side conditions `build` / `verify_hyperparameters` guarantee: one entry of `monotonicities` per
dimension (only needed when some dimension is monotone) and one root factor per term (the code computes
one per term). Both are tight (`short_roots_truncate_terms`, `short_monotonicities_truncate_dims`;
`finalizeWeight_length`, `projectMono_length` say exactly what the lengths become).
Then the shape hypothesis moves to the INITIAL state (`kfl_constraints_accepted_shape_free`) and
disappears for a fresh layer (`init_shaped`, `kfl_fresh_then_constraints_accepted`).
-/
namespace Tfl.C07Shape
open Tfl Tfl.Kfl Tfl.Asserts

/-- one `(unit, term)` block has `dims` columns of `ls` keypoints -/
def TShape (ls dims : Nat) (kt : List (List Rat)) : Prop :=
  kt.length = dims ∧ ∀ col ∈ kt, col.length = ls

/-- one unit's kernel has the full shape `terms × dims × ls` -/
def KShape (ls dims terms : Nat) (K : List (List (List Rat))) : Prop :=
  K.length = terms ∧ ∀ kt ∈ K, TShape ls dims kt

/-- layer state of one unit has the shapes `build` creates: kernel `terms × dims × ls`, scale `terms` -/
def Shaped (ls dims terms : Nat) (st : State) : Prop :=
  KShape ls dims terms st.K ∧ st.scale.length = terms

/-! ## the stages of the kernel projection -/

theorem monoProj1_length (v : List Rat) : (monoProj1 v).length = v.length := by
  unfold monoProj1; rw [cumminBack_length, half_length]

theorem projectDim_length (dir : Rat) (m : Bool) (k : List Rat) : (projectDim dir m k).length = k.length := by
  unfold projectDim; cases m <;> simp [monoProj1_length]

/-- EXACT length after the monotonicity loop (`zip(weights, monotonicities)` truncates) -/
theorem projectMono_length (ms : List Bool) (s : Rat) (kt : List (List Rat)) :
    (projectMono ms s kt).length = min ms.length kt.length := by
  simp [projectMono]

theorem zipWith_projectDim_cols (ls : Nat) (σ : Rat) : ∀ (ms : List Bool) (kt : List (List Rat)),
    (∀ col ∈ kt, col.length = ls) → ∀ col ∈ List.zipWith (projectDim σ) ms kt, col.length = ls
  | [], _, _ => by simp
  | _ :: _, [], _ => by simp
  | m :: ms, k :: kt, h => by
    intro col hcol
    simp only [List.zipWith_cons_cons, List.mem_cons] at hcol
    rcases hcol with rfl | hcol
    · rw [projectDim_length]; exact h k (List.mem_cons_self ..)
    · exact zipWith_projectDim_cols ls σ ms kt (fun c hc => h c (List.mem_cons_of_mem _ hc)) col hcol

theorem projectMono_tshape (ls dims : Nat) (ms : List Bool) (hm : dims ≤ ms.length) (s : Rat)
    (kt : List (List Rat)) (h : TShape ls dims kt) : TShape ls dims (projectMono ms s kt) := by
  refine ⟨?_, zipWith_projectDim_cols ls _ ms kt h.2⟩
  rw [projectMono_length, h.1]; omega

theorem clipNonneg_tshape (ls dims : Nat) (kt : List (List Rat)) (h : TShape ls dims kt) :
    TShape ls dims (clipNonneg kt) := by
  refine ⟨by simp [clipNonneg, h.1], ?_⟩
  intro col hcol
  simp only [clipNonneg, List.mem_map] at hcol
  obtain ⟨c, hc, rfl⟩ := hcol
  simp [h.2 c hc]

theorem scaleDown_tshape (ls dims : Nat) (r : Rat) (kt : List (List Rat)) (h : TShape ls dims kt) :
    TShape ls dims (scaleDown r kt) := by
  refine ⟨by simp [scaleDown, h.1], ?_⟩
  intro col hcol
  simp only [scaleDown, List.mem_map] at hcol
  obtain ⟨c, hc, rfl⟩ := hcol
  simp [h.2 c hc]

theorem projectBounds_tshape (ls dims : Nat) (lo hi : Option Rat) (r : Rat) (kt : List (List Rat))
    (h : TShape ls dims kt) : TShape ls dims (projectBounds lo hi r kt) := by
  unfold projectBounds
  cases lo <;> cases hi <;> simp only
  · exact h
  · exact clipNonneg_tshape ls dims kt h
  · exact clipNonneg_tshape ls dims kt h
  · exact scaleDown_tshape ls dims r kt h

theorem monoStage_tshape (ls dims : Nat) (ms : List Bool) (hm : ms.any id = true → dims ≤ ms.length)
    (s : Rat) (kt : List (List Rat)) (h : TShape ls dims kt) : TShape ls dims (monoStage ms s kt) := by
  unfold monoStage
  split
  · next hany => exact projectMono_tshape ls dims ms (hm hany) s _ (clipNonneg_tshape ls dims kt h)
  · exact h

/-- one `(unit, term)` block keeps its shape through `finalize_weight_constraints` -/
theorem finalizeWeightTerm_tshape (ls dims : Nat) (ms : List Bool)
    (hm : ms.any id = true → dims ≤ ms.length) (lo hi : Option Rat) (s r : Rat) (kt : List (List Rat))
    (h : TShape ls dims kt) : TShape ls dims (finalizeWeightTerm ms lo hi s r kt) := by
  unfold finalizeWeightTerm
  simp only
  split
  · exact projectBounds_tshape ls dims lo hi r _ (monoStage_tshape ls dims ms hm s kt h)
  · exact monoStage_tshape ls dims ms hm s kt h

/-- EXACT number of terms after `finalizeWeight`: the three lists are zipped -/
theorem finalizeWeight_length (ms : List Bool) (lo hi : Option Rat) :
    ∀ (scale rs : List Rat) (K : List (List (List Rat))),
      (finalizeWeight ms lo hi scale rs K).length = min (min scale.length rs.length) K.length
  | [], _, _ => by simp [finalizeWeight]
  | _ :: _, [], _ => by simp [finalizeWeight]
  | _ :: _, _ :: _, [] => by simp [finalizeWeight]
  | s :: ss, r :: rs, kt :: ks => by
    simp only [finalizeWeight, List.length_cons, finalizeWeight_length ms lo hi ss rs ks]; omega

theorem finalizeWeight_terms (ls dims : Nat) (ms : List Bool) (hm : ms.any id = true → dims ≤ ms.length)
    (lo hi : Option Rat) : ∀ (scale rs : List Rat) (K : List (List (List Rat))),
      (∀ kt ∈ K, TShape ls dims kt) → ∀ kt ∈ finalizeWeight ms lo hi scale rs K, TShape ls dims kt
  | [], _, _, _ => by simp [finalizeWeight]
  | _ :: _, [], _, _ => by simp [finalizeWeight]
  | _ :: _, _ :: _, [], _ => by simp [finalizeWeight]
  | s :: ss, r :: rs, kt :: ks, h => by
    intro k hk
    simp only [finalizeWeight, List.mem_cons] at hk
    rcases hk with rfl | hk
    · exact finalizeWeightTerm_tshape ls dims ms hm lo hi s r kt (h kt (List.mem_cons_self ..))
    · exact finalizeWeight_terms ls dims ms hm lo hi ss rs ks (fun c hc => h c (List.mem_cons_of_mem _ hc)) k hk

/-! ## the two constraint objects -/

/-- **`KroneckerFactoredLatticeConstraints.__call__` preserves the kernel shape**, all sizes, every
monotonicity / bound mode, every scale of the right length, every list of root factors with at least
one factor per term. -/
theorem kernelConstraint_shape (ls dims terms : Nat) (ms : List Bool)
    (hm : ms.any id = true → dims ≤ ms.length) (lo hi : Option Rat) (scale rs : List Rat)
    (K : List (List (List Rat))) (hs : scale.length = terms) (hr : terms ≤ rs.length)
    (h : KShape ls dims terms K) : KShape ls dims terms (kernelConstraint ms lo hi scale rs K) := by
  unfold kernelConstraint
  split
  · refine ⟨?_, finalizeWeight_terms ls dims ms hm lo hi scale rs K h.2⟩
    rw [finalizeWeight_length, h.1, hs]; omega
  · exact h

/-- **`ScaleConstraints.__call__` preserves the scale length** -/
theorem scaleConstraint_length (lo hi : Option Rat) (scale : List Rat) :
    (scaleConstraint lo hi scale).length = scale.length := by
  unfold scaleConstraint finalizeScale; split <;> simp

/-! ## runs -/

/-- what a shape-respecting op is: a raw assignment writes a value of the variable's shape
(`Variable.assign` rejects any other), a kernel-constraint call carries one root factor per term -/
def OpShaped (ls dims terms : Nat) : Op → Prop
  | .assignK K => KShape ls dims terms K
  | .assignS s => s.length = terms
  | .consK rs => terms ≤ rs.length
  | .consS => True

theorem step_shaped (ls dims terms : Nat) (ms : List Bool) (hm : ms.any id = true → dims ≤ ms.length)
    (lo hi : Option Rat) (st : State) (h : Shaped ls dims terms st) (op : Op)
    (ho : OpShaped ls dims terms op) : Shaped ls dims terms (step ms lo hi st op) := by
  cases op with
  | assignK K => exact ⟨ho, h.2⟩
  | assignS s => exact ⟨h.1, ho⟩
  | consK rs => exact ⟨kernelConstraint_shape ls dims terms ms hm lo hi _ rs _ h.2 ho h.1, h.2⟩
  | consS => exact ⟨h.1, by simp only [step]; rw [scaleConstraint_length]; exact h.2⟩

/-- **every run (raw updates and constraint calls in any interleaving) preserves the shape** -/
theorem runOps_shaped (ls dims terms : Nat) (ms : List Bool) (hm : ms.any id = true → dims ≤ ms.length)
    (lo hi : Option Rat) : ∀ (ops : List Op) (st : State), Shaped ls dims terms st →
      (∀ op ∈ ops, OpShaped ls dims terms op) → Shaped ls dims terms (runOps ms lo hi st ops)
  | [], _, h, _ => h
  | op :: ops, st, h, ho => by
    show Shaped ls dims terms (runOps ms lo hi (step ms lo hi st op) ops)
    exact runOps_shaped ls dims terms ms hm lo hi ops _
      (step_shaped ls dims terms ms hm lo hi st h op (ho op (List.mem_cons_self ..)))
      (fun o hom => ho o (List.mem_cons_of_mem _ hom))

/-- `finalize_constraints()` preserves the shape -/
theorem finalizeConstraints_shaped (ls dims terms : Nat) (ms : List Bool)
    (hm : ms.any id = true → dims ≤ ms.length) (lo hi : Option Rat) (rs : List Rat) (hr : terms ≤ rs.length)
    (st : State) (h : Shaped ls dims terms st) : Shaped ls dims terms (finalizeConstraints ms lo hi rs st) := by
  unfold finalizeConstraints
  refine runOps_shaped ls dims terms ms hm lo hi _ st h ?_
  intro op hop
  simp only [List.mem_cons, List.not_mem_nil, or_false] at hop
  rcases hop with rfl | rfl
  · exact hr
  · trivial

theorem rootsOk_length (L : Nat) (ms : List Bool) (lo hi : Option Rat) :
    ∀ (scale rs : List Rat) (K : List (List (List Rat))), RootsOk L ms lo hi scale rs K → rs.length = K.length
  | [], [], [], _ => rfl
  | s :: ss, r :: rs, kt :: ks, h => by
    simp only [List.length_cons, rootsOk_length L ms lo hi ss rs ks h.2]
  | [], [], _ :: _, h => by simp [RootsOk] at h
  | [], _ :: _, _, h => by simp [RootsOk] at h
  | _ :: _, [], _, h => by simp [RootsOk] at h
  | _ :: _, _ :: _, [], h => by simp [RootsOk] at h

/-- the runs of `C07.premises_after_any_run` (`RunValid`: raw updates unrestricted in VALUE) preserve the
shape when every raw update writes a value of the variable's shape -/
theorem runValid_shaped (L ls dims terms : Nat) (ms : List Bool) (hm : ms.any id = true → dims ≤ ms.length)
    (lo hi : Option Rat) : ∀ (ops : List Op) (st : State), Shaped ls dims terms st →
      RunValid L ms lo hi st ops →
      (∀ K, Op.assignK K ∈ ops → KShape ls dims terms K) → (∀ s, Op.assignS s ∈ ops → s.length = terms) →
      Shaped ls dims terms (runOps ms lo hi st ops)
  | [], _, h, _, _, _ => h
  | op :: ops, st, h, hv, hK, hS => by
    show Shaped ls dims terms (runOps ms lo hi (step ms lo hi st op) ops)
    have ho : OpShaped ls dims terms op := by
      cases op with
      | assignK K => exact hK K (List.mem_cons_self ..)
      | assignS s => exact hS s (List.mem_cons_self ..)
      | consK rs =>
        show terms ≤ rs.length
        rw [rootsOk_length L ms lo hi _ rs _ hv.1, h.1.1]
      | consS => trivial
    have hv' : RunValid L ms lo hi (step ms lo hi st op) ops := by
      cases op with
      | assignK K => exact hv
      | assignS s => exact hv
      | consK rs => exact hv.2
      | consS => exact hv
    exact runValid_shaped L ls dims terms ms hm lo hi ops _ (step_shaped ls dims terms ms hm lo hi st h op ho) hv'
      (fun K hk => hK K (List.mem_cons_of_mem _ hk)) (fun s hs => hS s (List.mem_cons_of_mem _ hs))

/-- **the pure constraint runs of `C07.constraints_any_order_establish_premises` (`ValidRun`) preserve
the shape**: no hypothesis beyond the shape of the initial state. -/
theorem validRun_shaped (L ls dims terms : Nat) (ms : List Bool) (hm : ms.any id = true → dims ≤ ms.length)
    (lo hi : Option Rat) (ops : List Op) (st : State) (h : Shaped ls dims terms st)
    (hv : ValidRun L ms lo hi st ops) : Shaped ls dims terms (runOps ms lo hi st ops) := by
  have hv' := (C07.validRun_iff_pure_constraint_run L ms lo hi st ops).mp hv
  refine runValid_shaped L ls dims terms ms hm lo hi ops st h hv'.2 ?_ ?_
  · intro K hK; have := hv'.1 _ hK; simp [Op.isCons] at this
  · intro s hs; have := hv'.1 _ hs; simp [Op.isCons] at this

/-- the Keras schedules of `C07.keras_training_monotone_and_bounded`: every op of a training history
is shape-respecting when every raw update has the variable's shape and one root factor per term is
supplied; hence (`runOps_shaped`) the whole training keeps the shape. -/
theorem kerasRun_opShaped (ls dims terms : Nat)
    (sched : List Rat → List (List (List Rat)) → List Rat → List Op)
    (hsched : sched = kerasStepPerVar ∨ sched = kerasStepBatch ∨ sched = kernelFirstStep) :
    ∀ (steps : List (List Rat × List (List (List Rat)) × List Rat)),
      (∀ x ∈ steps, x.1.length = terms ∧ KShape ls dims terms x.2.1 ∧ terms ≤ x.2.2.length) →
      ∀ op ∈ C07.kerasRun sched steps, OpShaped ls dims terms op
  | [], _ => by simp [C07.kerasRun]
  | (s, K, rs) :: steps, h => by
    intro op hop
    simp only [C07.kerasRun, List.mem_append] at hop
    rcases hop with hop | hop
    · obtain ⟨h1, h2, h3⟩ := h (s, K, rs) (List.mem_cons_self ..)
      rcases hsched with rfl | rfl | rfl <;>
        simp only [kerasStepPerVar, kerasStepBatch, kernelFirstStep, List.mem_cons, List.not_mem_nil,
          or_false] at hop <;>
        rcases hop with rfl | rfl | rfl | rfl <;> first | exact h1 | exact h2 | exact h3 | trivial
    · exact kerasRun_opShaped ls dims terms sched hsched steps
        (fun x hx => h x (List.mem_cons_of_mem _ hx)) op hop

theorem keras_training_shaped (ls dims terms : Nat) (ms : List Bool)
    (hm : ms.any id = true → dims ≤ ms.length) (lo hi : Option Rat)
    (sched : List Rat → List (List (List Rat)) → List Rat → List Op)
    (hsched : sched = kerasStepPerVar ∨ sched = kerasStepBatch ∨ sched = kernelFirstStep)
    (st : State) (h : Shaped ls dims terms st)
    (steps : List (List Rat × List (List (List Rat)) × List Rat))
    (hsteps : ∀ x ∈ steps, x.1.length = terms ∧ KShape ls dims terms x.2.1 ∧ terms ≤ x.2.2.length) :
    Shaped ls dims terms (runOps ms lo hi st (C07.kerasRun sched steps)) :=
  runOps_shaped ls dims terms ms hm lo hi _ st h (kerasRun_opShaped ls dims terms sched hsched steps hsteps)

/-! ## the two side conditions are tight (and excluded by the real code) -/

/-- fewer root factors than terms: the model's zip drops a term (2 terms → 1). Not reachable: the
code computes `tf.pow(full_projection_factor, 1/dims)` as a tensor with one entry per (unit, term). -/
theorem short_roots_truncate_terms :
    KShape 2 1 2 [[[0, 1]], [[1, 0]]] ∧
    (kernelConstraint [true] none none [1, 1] [1] [[[0, 1]], [[1, 0]]]).length = 1 := by
  refine ⟨⟨rfl, ?_⟩, by decide +kernel⟩
  intro kt hkt
  simp only [List.mem_cons, List.not_mem_nil, or_false] at hkt
  rcases hkt with rfl | rfl <;> exact ⟨rfl, by simp⟩

/-- fewer `monotonicities` than dims with some dimension monotone: the model's zip drops a column
(2 dims → 1). Not reachable: `verify_hyperparameters` raises ValueError unless
`len(monotonicities) == input_shape[-1]`. Without a monotone dimension the stage is skipped and a
short list does no harm (`hm` above asks nothing then). -/
theorem short_monotonicities_truncate_dims :
    KShape 2 2 1 [[[0, 1], [1, 0]]] ∧
    kernelConstraint [true] none none [1] [1] [[[0, 1], [1, 0]]] = [[[0, 1]]] ∧
    kernelConstraint [false] (some 0) none [1] [1] [[[0, 1], [1, 0]]] = [[[0, 1], [1, 0]]] := by
  refine ⟨⟨rfl, ?_⟩, by decide +kernel, by decide +kernel⟩
  intro kt hkt
  simp only [List.mem_cons, List.not_mem_nil, or_false] at hkt
  subst hkt
  exact ⟨rfl, by simp⟩

/-! ## C07 ∘ C12 with the shape hypothesis on the initial state only -/

theorem kflTransposed_of_kshape (ls dims terms : Nat) (K : List (List (List Rat)))
    (h : KShape ls dims terms K) : C12.KflTransposed ls dims terms (C12.kflToW ls dims terms K) K :=
  C12.kflToW_transposed ls dims terms K h.1 (fun kt hkt => (h.2 kt hkt).1) (fun kt hkt => (h.2 kt hkt).2)

/-- **`C12.kfl_constraints_accepted` without the shape hypothesis on the final state** (closes the
limit "that the run keeps the full shape is a hypothesis" of C12 / C07): from ANY state of the shape
`build` creates (any values, signs, zeros), after ANY run of constraint calls in which each of the two
has been applied at least once (the hypotheses of `C07.constraints_any_order_establish_premises`), the
layer's own assert accepts at `eps = 0` — for every kernel tensor `w` (assert layout `w[k][d][t]`)
holding the final kernel's numbers. All sizes `ls`, `dims`, `terms` (0 included). -/
theorem kfl_constraints_accepted_shape_free (ls dims terms : Nat) (monos : List Int) (hml : monos.length = dims)
    (lo hi : Option Rat) (hlh : ∀ l h, lo = some l → hi = some h → l ≤ h) (st : State)
    (hsh : Shaped ls dims terms st) (ops : List Op)
    (hv : ValidRun ls (monos.map (fun m => decide (m ≠ 0))) lo hi st ops) (hKc : HasConsK ops)
    (hSc : Op.consS ∈ ops) (w : List (List (List Rat)))
    (hw : ∀ k, k < ls → ∀ d, d < dims → ∀ t, t < terms →
      get3 w k d t = get3 (runOps (monos.map (fun m => decide (m ≠ 0))) lo hi st ops).K t d k) :
    Shaped ls dims terms (runOps (monos.map (fun m => decide (m ≠ 0))) lo hi st ops) ∧
    acceptsKfl ls dims terms monos lo hi w
      (runOps (monos.map (fun m => decide (m ≠ 0))) lo hi st ops).scale 0 = true := by
  have hfin := validRun_shaped ls ls dims terms (monos.map (fun m => decide (m ≠ 0)))
    (fun _ => by rw [List.length_map, hml]) lo hi ops st hsh hv
  refine ⟨hfin, ?_⟩
  have hT : C12.KflTransposed ls dims terms w
      (runOps (monos.map (fun m => decide (m ≠ 0))) lo hi st ops).K :=
    ⟨hfin.1.1, fun kt hkt => (hfin.1.2 kt hkt).1, fun kt hkt => (hfin.1.2 kt hkt).2, hw⟩
  exact C12.kfl_constraints_accepted ls dims terms monos hml lo hi hlh st ops hv hKc hSc w hT
    (by rw [hfin.1.1, hfin.2])

/-- the same with the assert's tensor computed from the final kernel (`C12.kflToW`): no hypothesis on
any tensor -/
theorem kfl_constraints_accepted_shape_free_toW (ls dims terms : Nat) (monos : List Int)
    (hml : monos.length = dims) (lo hi : Option Rat) (hlh : ∀ l h, lo = some l → hi = some h → l ≤ h)
    (st : State) (hsh : Shaped ls dims terms st) (ops : List Op)
    (hv : ValidRun ls (monos.map (fun m => decide (m ≠ 0))) lo hi st ops) (hKc : HasConsK ops)
    (hSc : Op.consS ∈ ops) :
    acceptsKfl ls dims terms monos lo hi
      (C12.kflToW ls dims terms (runOps (monos.map (fun m => decide (m ≠ 0))) lo hi st ops).K)
      (runOps (monos.map (fun m => decide (m ≠ 0))) lo hi st ops).scale 0 = true := by
  have hfin := validRun_shaped ls ls dims terms (monos.map (fun m => decide (m ≠ 0)))
    (fun _ => by rw [List.length_map, hml]) lo hi ops st hsh hv
  exact (kfl_constraints_accepted_shape_free ls dims terms monos hml lo hi hlh st hsh ops hv hKc hSc _
    (kflTransposed_of_kshape ls dims terms _ hfin.1).entry).2

/-! ## the fresh layer has the full shape -/

open Tfl.Init

/-- the uniform draws of the kernel initializer have the shape it is called with (one block per term,
one column of `ls` draws per dimension) — a fact about `tf.random.uniform(shape)`, not about values -/
def DrawsShape (ls dims terms : Nat) (samples : List (List (List Rat))) : Prop :=
  samples.length = terms ∧ ∀ smp ∈ samples, smp.length = dims ∧ ∀ col ∈ smp, col.length = ls

theorem kflInitTerm_tshape (ls dims : Nat) (ms : List Bool) (hm : ms.any id = true → dims ≤ ms.length)
    (s : Rat) (smp : List (List Rat)) (h : TShape ls dims smp) : TShape ls dims (kflInitTerm ms s smp) := by
  unfold kflInitTerm
  split
  · next hany =>
    have hcols : ∀ (ms : List Bool) (kt : List (List Rat)), (∀ col ∈ kt, col.length = ls) →
        ∀ col ∈ List.zipWith (kflInitDim (sgn s)) ms kt, col.length = ls := by
      intro ms
      induction ms with
      | nil => intro kt _ col hcol; simp at hcol
      | cons m ms ih =>
        intro kt hk col hcol
        cases kt with
        | nil => simp at hcol
        | cons k kt =>
          simp only [List.zipWith_cons_cons, List.mem_cons] at hcol
          rcases hcol with rfl | hcol
          · rw [length_kflInitDim]; exact hk k (List.mem_cons_self ..)
          · exact ih kt (fun c hc => hk c (List.mem_cons_of_mem _ hc)) col hcol
    refine ⟨?_, hcols ms smp h.2⟩
    have := hm hany
    simp only [List.length_zipWith, h.1]; omega
  · exact h

/-- **the initializers' output has the full shape**: `kfl_random_monotonic_initializer` with the scale
of `scale_initializer`, every bound mode, every monotonicity list, every draw of the right shape, all
sizes. -/
theorem init_shaped (ls dims terms : Nat) (ms : List Bool) (hm : ms.any id = true → dims ≤ ms.length)
    (lo hi : Option Rat) (samples : List (List (List Rat))) (hd : DrawsShape ls dims terms samples) :
    Shaped ls dims terms ⟨kflInit ms (scaleInit terms lo hi) samples, scaleInit terms lo hi⟩ := by
  have hlen := C07Fix.length_scaleInit terms lo hi
  refine ⟨⟨?_, ?_⟩, hlen⟩
  · show (kflInit ms (scaleInit terms lo hi) samples).length = terms
    rw [C07Fix.length_kflInit ms _ samples (by rw [hd.1, hlen]), hlen]
  · intro kt hkt
    obtain ⟨s, smp, hsmp, rfl⟩ := mem_kflInit hkt
    exact kflInitTerm_tshape ls dims ms hm s smp (hd.2 smp hsmp)

/-- **fresh KFL layer → any constraint run → accepted by the assert at `eps = 0`, no shape hypothesis
on any state**: the state the layer's initializers create (every bound mode with
`output_min ≤ output_max`, every monotonicity list, every number of terms, EVERY draw — values
unrestricted, only the tensor shape of the draw), then any run of constraint calls containing both
constraints (`C07.constraints_any_order_establish_premises`). The final state still has the full shape
and the assert accepts its weights. (With no constraint call at all: `C07Fix.kfl_init_accepted`.) -/
theorem kfl_fresh_then_constraints_accepted (ls terms : Nat) (monos : List Int) (lo hi : Option Rat)
    (hlh : ∀ l h, lo = some l → hi = some h → l ≤ h) (samples : List (List (List Rat)))
    (hd : DrawsShape ls monos.length terms samples) (ops : List Op)
    (hv : ValidRun ls (monos.map (fun m => decide (m ≠ 0))) lo hi
      ⟨kflInit (monos.map (fun m => decide (m ≠ 0))) (scaleInit terms lo hi) samples, scaleInit terms lo hi⟩ ops)
    (hKc : HasConsK ops) (hSc : Op.consS ∈ ops) :
    let fin := runOps (monos.map (fun m => decide (m ≠ 0))) lo hi
      ⟨kflInit (monos.map (fun m => decide (m ≠ 0))) (scaleInit terms lo hi) samples, scaleInit terms lo hi⟩ ops
    Shaped ls monos.length terms fin ∧
    acceptsKfl ls monos.length terms monos lo hi (C12.kflToW ls monos.length terms fin.K) fin.scale 0 = true := by
  intro fin
  have h0 := init_shaped ls monos.length terms (monos.map (fun m => decide (m ≠ 0)))
    (fun _ => by rw [List.length_map]) lo hi samples hd
  exact ⟨validRun_shaped ls ls monos.length terms _ (fun _ => by rw [List.length_map]) lo hi ops _ h0 hv,
    kfl_constraints_accepted_shape_free_toW ls monos.length terms monos rfl lo hi hlh _ h0 ops hv hKc hSc⟩

/-! ## non-vacuity -/

/-- C07's example state (3 keypoints, 2 dims, 2 terms, arbitrary values) has the full shape -/
theorem exState_shaped : Shaped 3 2 2 C07.exState := by
  refine ⟨⟨rfl, ?_⟩, rfl⟩
  intro kt hkt
  simp only [C07.exState, C07.exK, List.mem_cons, List.not_mem_nil, or_false] at hkt
  rcases hkt with rfl | rfl <;> refine ⟨rfl, ?_⟩ <;> intro col hcol <;>
    simp only [List.mem_cons, List.not_mem_nil, or_false] at hcol <;> rcases hcol with rfl | rfl <;> rfl

theorem exRun_valid :
    ValidRun 3 ([1, 0].map (fun m : Int => decide (m ≠ 0))) (some 0) (some 1) C07.exState
      [.consS, .consK [3, 4], .consS] := by
  show ValidRun 3 [true, false] (some 0) (some 1) C07.exState [.consS, .consK [3, 4], .consS]
  refine ⟨⟨⟨⟨rfl, ?_⟩, fun _ _ => ?_⟩, ⟨⟨rfl, ?_⟩, fun _ _ => ?_⟩, trivial⟩, trivial⟩
  · intro k hk; simp only [List.mem_cons, List.not_mem_nil, or_false] at hk; rcases hk with rfl | rfl <;> rfl
  · decide +kernel
  · intro k hk; simp only [List.mem_cons, List.not_mem_nil, or_false] at hk; rcases hk with rfl | rfl <;> rfl
  · decide +kernel

-- the hypotheses of `kfl_constraints_accepted_shape_free_toW` are met by a run that really changes the kernel
example : acceptsKfl 3 2 2 [1, 0] (some 0) (some 1)
    (C12.kflToW 3 2 2 (runOps ([1, 0].map (fun m : Int => decide (m ≠ 0))) (some 0) (some 1) C07.exState
      [.consS, .consK [3, 4], .consS]).K)
    (runOps ([1, 0].map (fun m : Int => decide (m ≠ 0))) (some 0) (some 1) C07.exState
      [.consS, .consK [3, 4], .consS]).scale 0 = true :=
  kfl_constraints_accepted_shape_free_toW 3 2 2 [1, 0] rfl (some 0) (some 1)
    (by intro l h h1 h2; cases h1; cases h2; norm_num) C07.exState exState_shaped _ exRun_valid
    ⟨[3, 4], by simp⟩ (by simp)
-- … and the conclusion evaluated: the run moved the kernel, kept the shape, the assert accepts
example : (runOps [true, false] (some 0) (some 1) C07.exState [.consS, .consK [3, 4], .consS]).K
      = [[[1/3, 5/6, 5/6], [0, 2/3, 0]], [[5/8, 5/8, 5/8], [0, 5/4, 0]]] ∧
    acceptsKfl 3 2 2 [1, 0] (some 0) (some 1)
      (C12.kflToW 3 2 2 [[[1/3, 5/6, 5/6], [0, 2/3, 0]], [[5/8, 5/8, 5/8], [0, 5/4, 0]]]) [1/2, -1/2] 0 = true ∧
    acceptsKfl 3 2 2 [1, 0] (some 0) (some 1) (C12.kflToW 3 2 2 C07.exK) [3, -2] 0 = false := by
  refine ⟨by decide +kernel, by decide +kernel, by decide +kernel⟩

/-- draws of the right shape but with values OUTSIDE the initializer's range (so the initial state is
not feasible and the constraints really act) -/
def exDraws : List (List (List Rat)) := [[[2, 1/4, -1], [1/3, 3, 0]], [[1/8, 7/8, 3/8], [1, -2, 3/4]]]

theorem exDraws_shape : DrawsShape 3 2 2 exDraws := by
  refine ⟨rfl, ?_⟩
  intro smp hsmp
  simp only [exDraws, List.mem_cons, List.not_mem_nil, or_false] at hsmp
  rcases hsmp with rfl | rfl <;> refine ⟨rfl, ?_⟩ <;> intro col hcol <;>
    simp only [List.mem_cons, List.not_mem_nil, or_false] at hcol <;> rcases hcol with rfl | rfl <;> rfl

theorem exFresh_valid :
    ValidRun 3 ([1, 0].map (fun m : Int => decide (m ≠ 0))) (some (-1)) (some 3)
      ⟨kflInit ([1, 0].map (fun m : Int => decide (m ≠ 0))) (scaleInit 2 (some (-1)) (some 3)) exDraws,
        scaleInit 2 (some (-1)) (some 3)⟩ [.consK [4, 4], .consS] := by
  have e : kflInit ([1, 0].map (fun m : Int => decide (m ≠ 0))) (scaleInit 2 (some (-1)) (some 3)) exDraws
      = [[[-1, 1/4, 2], [1/3, 3, 0]], [[7/8, 3/8, 1/8], [1, -2, 3/4]]] := by decide +kernel
  have e2 : scaleInit 2 (some (-1)) (some 3) = [2, -2] := by decide +kernel
  rw [e, e2]
  show ValidRun 3 [true, false] (some (-1)) (some 3) _ _
  refine ⟨⟨⟨⟨rfl, ?_⟩, fun _ _ => ?_⟩, ⟨⟨rfl, ?_⟩, fun _ _ => ?_⟩, trivial⟩, trivial⟩
  · intro k hk; simp only [List.mem_cons, List.not_mem_nil, or_false] at hk; rcases hk with rfl | rfl <;> rfl
  · decide +kernel
  · intro k hk; simp only [List.mem_cons, List.not_mem_nil, or_false] at hk; rcases hk with rfl | rfl <;> rfl
  · decide +kernel

-- the hypotheses of `kfl_fresh_then_constraints_accepted` are met (draws outside the initializer's range)
example := kfl_fresh_then_constraints_accepted 3 2 [1, 0] (some (-1)) (some 3)
  (by intro l h h1 h2; cases h1; cases h2; norm_num) exDraws exDraws_shape [.consK [4, 4], .consS] exFresh_valid
  ⟨[4, 4], by simp⟩ (by simp)
-- … and its conclusion evaluated: the constraints changed the fresh kernel, the assert rejects before and accepts after
example :
    (runOps [true, false] (some (-1)) (some 3) ⟨[[[-1, 1/4, 2], [1/3, 3, 0]], [[7/8, 3/8, 1/8], [1, -2, 3/4]]], [2, -2]⟩
      [.consK [4, 4], .consS]).K = [[[0, 1/16, 1/2], [1/12, 3/4, 0]], [[7/32, 3/32, 1/32], [1/4, 0, 3/16]]] ∧
    acceptsKfl 3 2 2 [1, 0] (some (-1)) (some 3)
      (C12.kflToW 3 2 2 [[[-1, 1/4, 2], [1/3, 3, 0]], [[7/8, 3/8, 1/8], [1, -2, 3/4]]]) [2, -2] 0 = false ∧
    acceptsKfl 3 2 2 [1, 0] (some (-1)) (some 3)
      (C12.kflToW 3 2 2 [[[0, 1/16, 1/2], [1/12, 3/4, 0]], [[7/32, 3/32, 1/32], [1/4, 0, 3/16]]]) [2, -2] 0 = true := by
  refine ⟨by decide +kernel, by decide +kernel, by decide +kernel⟩

example : kflInit [true, false] (scaleInit 2 (some (-1)) (some 3)) exDraws
    = [[[-1, 1/4, 2], [1/3, 3, 0]], [[7/8, 3/8, 1/8], [1, -2, 3/4]]] := by decide +kernel

end Tfl.C07Shape
