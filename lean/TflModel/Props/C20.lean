import TflModel.Lemmas.LinearEval
import TflModel.Props.C06
/-!
# C20 — the Linear layer computes the clipped affine function its weights describe

Model: `Tfl.Linear.call kernel bias los his x` (one unit column, one example):
`dot kernel (clipInputs x los his) + bias.getD 0`, with `clipBV` = `tf.clip_by_value` under the
`-inf/+inf` fill of `Linear.build` (`none` = unbounded side), `bias = none` = `use_bias=False`.
Units are independent columns of the kernel (both the `matmul` form of `units == 1` and the
`reduce_sum(inputs * transpose(kernel))` form of `units > 1` are this `dot` per unit; the
correspondence harness compares both forms with the model on every case).

All statements are for every kernel, bias, bound configuration and input (arbitrary lengths).
-/
namespace Tfl.C20
open Tfl Tfl.Poset Tfl.Linear

/-- **C20 T1 (index form).** For every kernel, bias, bounds and input the output is
`bias + Σ_{i < n} kernel_i · clip(x_i, [lo_i, hi_i])` (`n` = number of inputs; a missing bias
counts 0; a missing bound does not clip: see `clip_none`). -/
theorem call_eq_clipped_affine (k : List Rat) (b : Option Rat) (los his : List (Option Rat))
    (x : List Rat) :
    call k b los his x = b.getD 0 +
      rsum ((List.range x.length).map
        (fun i => getV k i * clipBV (getV x i) (getO los i) (getO his i))) := by
  unfold call
  rw [dot_eq_rsum, length_clipInputs, add_comm]
  congr 2
  apply List.map_congr_left
  intro i hi
  rw [getV_clipInputs _ _ _ (List.mem_range.mp hi)]

/-- no clipping where no bound is given; one-sided bounds clip on that side only -/
theorem clip_none (x : Rat) : clipBV x none none = x := rfl
theorem clip_lower_only (x l : Rat) : clipBV x (some l) none = max x l := rfl
theorem clip_upper_only (x h : Rat) : clipBV x none (some h) = min x h := rfl
/-- with both bounds (`lo ≤ hi`) the clip is the usual one: inside ↦ itself, below ↦ lo, above ↦ hi -/
theorem clip_both (x l h : Rat) (hb : l ≤ h) :
    clipBV x (some l) (some h) = if x < l then l else if h < x then h else x := by
  simp only [clipBV, min_def, max_def]
  split_ifs <;> linarith

/-- no bias when `use_bias` is off -/
theorem call_no_bias (k : List Rat) (los his : List (Option Rat)) (x : List Rat) :
    call k none los his x = dot k (clipInputs x los his) := by
  simp [call]

/-- **(a)** the clip is non-decreasing … -/
theorem clip_nondecreasing (lo hi : Option Rat) {x y : Rat} (h : x ≤ y) :
    clipBV x lo hi ≤ clipBV y lo hi := clipBV_mono lo hi h

/-- **(a)** … and maps into `[lo, hi]` whenever `lo ≤ hi` (each side only if given). -/
theorem clip_in_bounds (lo hi : Option Rat) (hb : ∀ l h, lo = some l → hi = some h → l ≤ h) (x : Rat) :
    (∀ l, lo = some l → l ≤ clipBV x lo hi) ∧ (∀ h, hi = some h → clipBV x lo hi ≤ h) := by
  constructor
  · intro l e; subst e; exact clipBV_ge_lo l hi x (fun h e => hb l h rfl e)
  · intro h e; subst e; exact clipBV_le_hi lo h x

/-- **(b)** a non-negative weight on input `i` makes the output non-decreasing in `x_i`, for all
pairs of values, every other input, every bound configuration and every position `i`. -/
theorem call_nondecreasing (k : List Rat) (b : Option Rat) (los his : List (Option Rat)) (x : List Rat)
    (i : Nat) (hk : 0 ≤ getV k i) {v v' : Rat} (h : v ≤ v') :
    call k b los his (x.set i v) ≤ call k b los his (x.set i v') := by
  by_cases hi : i < x.length
  · rw [call_set _ _ _ _ _ _ _ hi, call_set _ _ _ _ _ _ _ hi]
    have := clipBV_mono (getO los i) (getO his i) h
    nlinarith [mul_le_mul_of_nonneg_left this hk]
  · rw [call_set_of_le _ _ _ _ _ _ _ (Nat.le_of_not_lt hi), call_set_of_le _ _ _ _ _ _ _ (Nat.le_of_not_lt hi)]

/-- **(b)** a non-positive weight makes it non-increasing. -/
theorem call_nonincreasing (k : List Rat) (b : Option Rat) (los his : List (Option Rat)) (x : List Rat)
    (i : Nat) (hk : getV k i ≤ 0) {v v' : Rat} (h : v ≤ v') :
    call k b los his (x.set i v') ≤ call k b los his (x.set i v) := by
  by_cases hi : i < x.length
  · rw [call_set _ _ _ _ _ _ _ hi, call_set _ _ _ _ _ _ _ hi]
    have := clipBV_mono (getO los i) (getO his i) h
    nlinarith [mul_le_mul_of_nonpos_left this hk]
  · rw [call_set_of_le _ _ _ _ _ _ _ (Nat.le_of_not_lt hi), call_set_of_le _ _ _ _ _ _ _ (Nat.le_of_not_lt hi)]

/-- a value the clip of input `i` leaves alone -/
def Unclipped (los his : List (Option Rat)) (i : Nat) (v : Rat) : Prop :=
  (∀ l, getO los i = some l → l ≤ v) ∧ (∀ h, getO his i = some h → v ≤ h)

/-- the exact effect of moving one unclipped input: `kernel_i · δ` -/
theorem call_step (k : List Rat) (b : Option Rat) (los his : List (Option Rat)) (x : List Rat)
    (i : Nat) (hi : i < x.length) (δ : Rat)
    (h0 : Unclipped los his i (getV x i)) (h1 : Unclipped los his i (getV x i + δ)) :
    call k b los his (x.set i (getV x i + δ)) - call k b los his x = getV k i * δ := by
  rw [call_set _ _ _ _ _ _ _ hi, clipBV_id _ _ _ h0.1 h0.2, clipBV_id _ _ _ h1.1 h1.2]
  ring

/-- **(c) monotonic dominance, per unit step.** If `k_dom ≥ k_weak` (what the constraint
enforces) then a step `δ ≥ 0` along the dominant input changes the output at least as much as the
same step along the weak input, at every point where neither input is being clipped. -/
theorem monotonic_dominance_step (k : List Rat) (b : Option Rat) (los his : List (Option Rat))
    (x : List Rat) (d w : Nat) (hd : d < x.length) (hw : w < x.length)
    (hk : getV k w ≤ getV k d) (δ : Rat) (hδ : 0 ≤ δ)
    (hd0 : Unclipped los his d (getV x d)) (hd1 : Unclipped los his d (getV x d + δ))
    (hw0 : Unclipped los his w (getV x w)) (hw1 : Unclipped los his w (getV x w + δ)) :
    call k b los his (x.set w (getV x w + δ)) - call k b los his x ≤
      call k b los his (x.set d (getV x d + δ)) - call k b los his x := by
  rw [call_step k b los his x d hd δ hd0 hd1, call_step k b los his x w hw δ hw0 hw1]
  exact mul_le_mul_of_nonneg_right hk hδ

/-- the exact change of the output when input `i` traverses its whole range `[lo_i, hi_i]` -/
theorem call_full_range (k : List Rat) (b : Option Rat) (los his : List (Option Rat)) (x : List Rat)
    (i : Nat) (hi : i < x.length) (l h : Rat) (hl : getO los i = some l) (hh : getO his i = some h)
    (hlh : l ≤ h) :
    call k b los his (x.set i h) - call k b los his (x.set i l) = getV k i * (h - l) := by
  rw [call_set _ _ _ _ _ _ _ hi, call_set _ _ _ _ _ _ _ hi, hl, hh]
  have e1 : clipBV h (some l) (some h) = h := clipBV_id _ _ _ (fun _ e => by cases e; exact hlh)
    (fun _ e => by cases e; exact le_rfl)
  have e2 : clipBV l (some l) (some h) = l := clipBV_id _ _ _ (fun _ e => by cases e; exact le_rfl)
    (fun _ e => by cases e; exact hlh)
  rw [e1, e2]; ring

/-- **(d) range dominance, across the full input ranges.** If
`(hi_d − lo_d)·k_d ≥ (hi_w − lo_w)·k_w` (what the constraint enforces for increasing inputs) the
output moves at least as much when the dominant input sweeps its range as when the weak one does,
whatever the other inputs are. -/
theorem range_dominance_full (k : List Rat) (b : Option Rat) (los his : List (Option Rat)) (x y : List Rat)
    (d w : Nat) (hd : d < x.length) (hw : w < y.length) (ld hd' lw hw' : Rat)
    (e1 : getO los d = some ld) (e2 : getO his d = some hd') (e3 : getO los w = some lw)
    (e4 : getO his w = some hw') (b1 : ld ≤ hd') (b2 : lw ≤ hw')
    (hk : (hw' - lw) * getV k w ≤ (hd' - ld) * getV k d) :
    call k b los his (y.set w hw') - call k b los his (y.set w lw) ≤
      call k b los his (x.set d hd') - call k b los his (x.set d ld) := by
  rw [call_full_range k b los his x d hd ld hd' e1 e2 b1, call_full_range k b los his y w hw lw hw' e3 e4 b2]
  linarith

/-- **(d), decreasing pair.** For two decreasing inputs the constraint enforces
`−(hi_d − lo_d)·k_d ≥ −(hi_w − lo_w)·k_w`; then the *drop* across the dominant range is at least
the drop across the weak range. -/
theorem range_dominance_full_decreasing (k : List Rat) (b : Option Rat) (los his : List (Option Rat))
    (x y : List Rat) (d w : Nat) (hd : d < x.length) (hw : w < y.length) (ld hd' lw hw' : Rat)
    (e1 : getO los d = some ld) (e2 : getO his d = some hd') (e3 : getO los w = some lw)
    (e4 : getO his w = some hw') (b1 : ld ≤ hd') (b2 : lw ≤ hw')
    (hk : -(hw' - lw) * getV k w ≤ -(hd' - ld) * getV k d) :
    call k b los his (y.set w lw) - call k b los his (y.set w hw') ≤
      call k b los his (x.set d ld) - call k b los his (x.set d hd') := by
  have h1 := call_full_range k b los his x d hd ld hd' e1 e2 b1
  have h2 := call_full_range k b los his y w hw lw hw' e3 e4 b2
  linarith

/-- **(e) weighted average.** With all weights non-negative and summing to one
(`normalization_order = 1` on an all-increasing layer) the output minus the bias lies between
any lower and upper bound of the clipped inputs — in particular between their min and max. -/
theorem weighted_average (k : List Rat) (b : Option Rat) (los his : List (Option Rat)) (x : List Rat)
    (hlen : k.length = x.length) (hk : ∀ i, 0 ≤ getV k i) (hsum : rsum k = 1) (m M : Rat)
    (hm : ∀ i, i < x.length → m ≤ clipBV (getV x i) (getO los i) (getO his i))
    (hM : ∀ i, i < x.length → clipBV (getV x i) (getO los i) (getO his i) ≤ M) :
    m ≤ call k b los his x - b.getD 0 ∧ call k b los his x - b.getD 0 ≤ M := by
  have := dot_between k (clipInputs x los his) m M (by rw [length_clipInputs]; exact hlen) hk
    (fun i hi => by
      rw [length_clipInputs] at hi
      rw [getV_clipInputs _ _ _ hi]; exact ⟨hm i hi, hM i hi⟩)
  rw [hsum, mul_one, mul_one] at this
  unfold call
  constructor <;> linarith [this.1, this.2]

/-- sum of non-negative entries = their 1-norm: the premise `rsum k = 1` of `weighted_average` is
what `normalization_order = 1` establishes (`C06.normalize_l1_unit`) on an all-increasing layer. -/
theorem norm1_eq_rsum_of_nonneg (k : List Rat) (hk : ∀ i, i < k.length → 0 ≤ getV k i) :
    norm1 k = rsum k := by
  unfold norm1
  induction k with
  | nil => rfl
  | cons a ks ih =>
    have ha : 0 ≤ a := by simpa [getV] using hk 0 (by simp)
    have := ih (fun i hi => by simpa [getV] using hk (i + 1) (by simpa using hi))
    simp only [List.map_cons, rsum, this, ratAbs_eq, abs_of_nonneg ha]

/-! ### composition with C06: what the constraint returns meets the premises above

The theorems of this section take the output of ONE stage of the constraint (or the kernel-level
inequality itself) as their premise. Props/C20Compose.lean restates all four consequences for the
output of the WHOLE constraint (`Linear.project`) of a configuration accepted by
`linear_lib.verify_hyperparameters`, with acceptance as the only hypothesis
(`accepted_monotone`, `accepted_monotonic_dominance`, `accepted_range_dominance_call`,
`accepted_weighted_average`). -/

/-- **C20 T2 (monotone in every constrained input).** A kernel column with the sign pattern the
constraint establishes (`C06`: `signClip_signOk`, kept by both dominance stages and by
normalisation) gives an output non-decreasing in every increasing input and non-increasing in
every decreasing input — for all values, other inputs and bound configurations. -/
theorem constrained_monotone (monos : List Int) (k : List Rat) (b : Option Rat)
    (los his : List (Option Rat)) (x : List Rat) (i : Nat) (hs : SignOk (getM monos i) (getV k i))
    {v v' : Rat} (h : v ≤ v') :
    (getM monos i = 1 → call k b los his (x.set i v) ≤ call k b los his (x.set i v')) ∧
    (getM monos i = -1 → call k b los his (x.set i v') ≤ call k b los his (x.set i v)) :=
  ⟨fun hm => call_nondecreasing k b los his x i (hs.1 hm) h,
   fun hm => call_nonincreasing k b los his x i (hs.2 hm) h⟩

/-- the sign-clipping stage of the real constraint alone already yields `constrained_monotone`'s
premise for every kernel -/
theorem constrained_monotone_after_signClip (monos : List Int) (w : List Rat) (b : Option Rat)
    (los his : List (Option Rat)) (x : List Rat) (i : Nat) {v v' : Rat} (h : v ≤ v') :
    (getM monos i = 1 → call (signClip monos w) b los his (x.set i v) ≤ call (signClip monos w) b los his (x.set i v')) ∧
    (getM monos i = -1 → call (signClip monos w) b los his (x.set i v') ≤ call (signClip monos w) b los his (x.set i v)) :=
  constrained_monotone monos _ b los his x i (signClip_signOk monos w i) h

/-- **C20 T2 (monotonic dominance) composed with C06.** The column returned by the
monotonic-dominance stage of the constraint (for every input column, every valid order) satisfies
the per-step dominance consequence for each listed `(dominant, weak)` pair. -/
theorem constrained_monotonic_dominance (monos : List Int) (md : Pairs) (w0 : List Rat) (order : List Nat)
    (hv : ValidOrder (swapPairs md) order) (hin : ∀ a ∈ order, a < w0.length)
    (hinc : ∀ c ∈ md, getM monos c.1 = 1 ∧ getM monos c.2 = 1)
    (b : Option Rat) (los his : List (Option Rat)) (x : List Rat) (c : Nat × Nat) (hc : c ∈ md)
    (hd : c.1 < x.length) (hw : c.2 < x.length) (δ : Rat) (hδ : 0 ≤ δ)
    (hd0 : Unclipped los his c.1 (getV x c.1)) (hd1 : Unclipped los his c.1 (getV x c.1 + δ))
    (hw0 : Unclipped los his c.2 (getV x c.2)) (hw1 : Unclipped los his c.2 (getV x c.2 + δ)) :
    let k := approxProjectWith (swapPairs md) order (signClip monos w0)
    call k b los his (x.set c.2 (getV x c.2 + δ)) - call k b los his x ≤
      call k b los his (x.set c.1 (getV x c.1 + δ)) - call k b los his x := by
  intro k
  have h := (C06.linear_monotonic_dominance monos md w0 order hv hin hinc).1 c hc
  exact monotonic_dominance_step k b los his x c.1 c.2 hd hw h δ hδ hd0 hd1 hw0 hw1

/-- **C20 T2 (range dominance) in the constraint's own terms.** If a kernel satisfies the scaled
inequality the constraint enforces for a listed pair `(d, w) ∈ rd`,
`scalings_w · k_w ≤ scalings_d · k_d` with the scalings of `project` — `±(input_max − input_min)` on
the dimensions of the range-dominance pairs (`C06.linear_range_dominance`; since fix 44c9e89 the
other dimensions keep `±1`, which this statement never reads) — then for an increasing pair
the rise, and for a decreasing pair the drop, across the dominant input's full range is at least
that across the weak input's full range. -/
theorem constrained_range_dominance (monos : List Int) (rd : Pairs) (k : List Rat) (b : Option Rat)
    (los his : List (Option Rat)) (x y : List Rat) (d w : Nat) (hmem : (d, w) ∈ rd) (hdm : d < monos.length)
    (hwm : w < monos.length) (hd : d < x.length) (hw : w < y.length) (ld hd' lw hw' : Rat)
    (e1 : getO los d = some ld) (e2 : getO his d = some hd') (e3 : getO los w = some lw)
    (e4 : getO his w = some hw') (b1 : ld ≤ hd') (b2 : lw ≤ hw')
    (hk : getV (scalings monos rd los his) w * getV k w ≤ getV (scalings monos rd los his) d * getV k d) :
    (getM monos d = 1 → getM monos w = 1 →
      call k b los his (y.set w hw') - call k b los his (y.set w lw) ≤
        call k b los his (x.set d hd') - call k b los his (x.set d ld)) ∧
    (getM monos d = -1 → getM monos w = -1 →
      call k b los his (y.set w lw) - call k b los his (y.set w hw') ≤
        call k b los his (x.set d ld) - call k b los his (x.set d hd')) := by
  rw [scalings_spec monos rd los his hdm, scalings_spec monos rd los his hwm, (inPairs_of_mem hmem).1,
    (inPairs_of_mem hmem).2, e1, e2, e3, e4] at hk
  simp only [rangeOf, if_true] at hk
  constructor
  · intro m1 m2
    rw [m1, m2] at hk
    norm_num at hk
    exact range_dominance_full k b los his x y d w hd hw ld hd' lw hw' e1 e2 e3 e4 b1 b2 hk
  · intro m1 m2
    rw [m1, m2] at hk
    simp only [if_true] at hk
    exact range_dominance_full_decreasing k b los his x y d w hd hw ld hd' lw hw' e1 e2 e3 e4 b1 b2
      (by linarith)

/-- **C20 T2 (weighted average) composed with C06.** For a non-negative column that is not
numerically zero, the column returned by `normalization_order = 1` turns the layer into a weighted
average of its clipped inputs. The hypothesis `hnz` (1-norm not below `_NORMALIZATION_EPS = 1e-8`)
excludes the DEGENERATE case, in which the claim is false: finding F-C03-a seen through C20, counter-
witness `Tfl.C20.weighted_average_fails_when_degenerate` (Props/C20Compose.lean), where the statement
is also given for the output of the whole constraint of an accepted configuration
(`accepted_weighted_average`). -/
theorem constrained_weighted_average (w : List Rat) (hw : ∀ i, 0 ≤ getV w i)
    (hnz : ¬ norm1 w < normEps) (b : Option Rat) (los his : List (Option Rat)) (x : List Rat)
    (hlen : w.length = x.length) (m M : Rat)
    (hm : ∀ i, i < x.length → m ≤ clipBV (getV x i) (getO los i) (getO his i))
    (hM : ∀ i, i < x.length → clipBV (getV x i) (getO los i) (getO his i) ≤ M) :
    m ≤ call (normalize .l1 w) b los his x - b.getD 0 ∧
      call (normalize .l1 w) b los his x - b.getD 0 ≤ M := by
  obtain ⟨n, hn, e⟩ := C06.normalize_keeps .l1 w
  have hk : ∀ i, 0 ≤ getV (normalize .l1 w) i := by
    intro i
    rw [e]
    by_cases hi : i < w.length
    · rw [C06.getV_map _ _ hi]; exact div_nonneg (hw i) hn.le
    · rw [getV_of_le (by simpa using Nat.le_of_not_lt hi)]
  have hs : rsum (normalize .l1 w) = 1 := by
    rw [← norm1_eq_rsum_of_nonneg _ (fun i _ => hk i)]
    exact C06.normalize_l1_unit w hnz
  exact weighted_average _ b los his x (by rw [e]; simpa using hlen) hk hs m M hm hM

/-! ### non-vacuity: concrete instances meet the hypotheses and the bounds bite -/
-- clipping is active (input 0 above its max, input 1 below its min, input 2 unbounded)
example : call [1/2, -2, 3] (some 1) [some 0, some (-1), none] [some 1, none, none] [5, -7, 2]
    = 1 + (1/2 * 1 + -2 * -1 + 3 * 2) := by decide +kernel
-- weighted average with a genuinely clipped input
example : call (normalize .l1 [1, 3]) none [some 0, none] [some 1, none] [9, 2] = 7/4 := by
  decide +kernel
example : ¬ norm1 [1, 3] < normEps := by decide +kernel

end Tfl.C20
