import TflModel.Props.C19Deriv
import TflModel.Model.KflGrad
import TflModel.Lemmas.Alt
/-!
# C19 — derivatives of the KFL OUTPUT w.r.t. kernel, scale and inputs

`Props/C19.lean` T1 settles the hand-written factor of `custom_reduce_prod`. The property continues:
"so gradients of its output with respect to kernel, scale and inputs equal those of the mathematically
identical expression". Here that consequence is proved for the model of the whole evaluation
`Kfl.eval L clip K scale bias xs = mean_t (scale_t · Π_d interp1 L clip x_d k_{t,d}) + bias`
(Model/Kfl.lean; tied to the real layer by C07/C14/C19 harnesses): the numbers the backward pass
ASSEMBLES from `gradFactor` (`Model/KflGrad.lean`: `gradScale`, `gradKernel`, `gradInput`) are

* the exact difference quotients of `Kfl.eval` over `ℚ` — for EVERY pair of values of a scale entry or a
  kernel entry (the output is affine in each), and for every pair of values of an input coordinate inside
  one closed cell `[j, j+1]` of the lattice range (the output is affine there; at the cell boundaries
  and — with `clip_inputs` — at the ends of the range it has kinks: not differentiable, outside the property);
* the `HasDerivAt` derivative of EVERY continuous real function that returns the model's output on
  rational arguments (`*_hasDerivAt_of_continuous`; for inputs: at every real point of the open cell),
  and such extensions exist (`*_extension_exists`).
All zero patterns of the factors are covered (no hypothesis on them): T1's `gradFactor` is used, never a
division.
-/
namespace Tfl.C19
open Tfl Tfl.Kfl Tfl.Poset

/-! ## list bookkeeping -/

theorem rsum_zipWith_set_left {β : Type} (g : β → ℚ) (dflt : β) : ∀ (A : List ℚ) (B : List β) (t : ℕ) (s : ℚ),
    t < A.length → t < B.length →
    rsum (List.zipWith (fun a b => a * g b) (A.set t s) B)
      = rsum (List.zipWith (fun a b => a * g b) A B) + (s - getR A t) * g (B.getD t dflt)
  | [], _, _, _, h, _ => by simp at h
  | _ :: _, [], _, _, _, h => by simp at h
  | a :: A, b :: B, 0, s, _, _ => by simp [getR]; ring
  | a :: A, b :: B, t + 1, s, h1, h2 => by
    have := rsum_zipWith_set_left g dflt A B t s (by simpa using h1) (by simpa using h2)
    simp only [List.set_cons_succ, List.zipWith_cons_cons, rsum, getR, List.getD_cons_succ] at this ⊢
    rw [this]; ring

theorem rsum_zipWith_set_right {β : Type} (g : β → ℚ) (dflt : β) : ∀ (A : List ℚ) (B : List β) (t : ℕ) (b' : β),
    t < A.length → t < B.length →
    rsum (List.zipWith (fun a b => a * g b) A (B.set t b'))
      = rsum (List.zipWith (fun a b => a * g b) A B) + getR A t * (g b' - g (B.getD t dflt))
  | [], _, _, _, h, _ => by simp at h
  | _ :: _, [], _, _, _, h => by simp at h
  | a :: A, b :: B, 0, b', _, _ => by simp [getR]; ring
  | a :: A, b :: B, t + 1, b', h1, h2 => by
    have := rsum_zipWith_set_right g dflt A B t b' (by simpa using h1) (by simpa using h2)
    simp only [List.set_cons_succ, List.zipWith_cons_cons, rsum, getR, List.getD_cons_succ] at this ⊢
    rw [this]; ring

theorem eval_eq (L : ℕ) (c : Bool) (K : List (List (List ℚ))) (scale : List ℚ) (bias : ℚ) (xs : List ℚ) :
    Kfl.eval L c K scale bias xs
      = rsum (List.zipWith (fun s kt => s * termProd L c xs kt) scale K) / (K.length : ℚ) + bias := by
  rw [Kfl.eval, Alt.scaled_eq_zipWith]

/-! ## scale -/

/-- **C19 (KFL output, scale), exact difference quotient.** The output is affine in every scale entry
with slope `gradScale = Π_d f_{t,d} / T`, for all values `s`, `s'` of the entry, all kernels, inputs and
zero patterns. -/
theorem kfl_scale_difference_quotient (L : ℕ) (c : Bool) (K : List (List (List ℚ))) (scale : List ℚ)
    (bias : ℚ) (xs : List ℚ) (t : ℕ) (s s' : ℚ) (ht : t < scale.length) (htK : t < K.length) :
    Kfl.eval L c K (scale.set t s) bias xs - Kfl.eval L c K (scale.set t s') bias xs
      = (s - s') * gradScale L c K xs t := by
  rw [eval_eq, eval_eq, rsum_zipWith_set_left _ [] scale K t s ht htK,
    rsum_zipWith_set_left _ [] scale K t s' ht htK, gradScale]
  ring

/-! ## kernel -/

theorem termFactors_set_dim (L : ℕ) (c : Bool) (xs : List ℚ) (kt : List (List ℚ)) (d : ℕ) (k' : List ℚ) :
    termFactors L c xs (kt.set d k') = (termFactors L c xs kt).set d (interp1 L c (getR xs d) k') := by
  unfold termFactors
  apply List.ext_getElem
  · simp
  · intro n h1 h2
    simp only [List.length_zipWith, List.length_set] at h1
    simp only [List.getElem_zipWith, List.getElem_set]
    by_cases hdn : d = n
    · subst hdn
      simp [getR, List.getD_eq_getElem?_getD, (lt_min_iff.mp h1).1]
    · simp [hdn]

theorem termFactors_length (L : ℕ) (c : Bool) (xs : List ℚ) (kt : List (List ℚ)) :
    (termFactors L c xs kt).length = min xs.length kt.length := by
  simp [termFactors]

theorem interp1_set_entry (L : ℕ) (c : Bool) (x : ℚ) (k : List ℚ) (i : ℕ) (v v' : ℚ) (hi : i < k.length) :
    interp1 L c x (k.set i v) - interp1 L c x (k.set i v')
      = getR (interpWeights L (clipIn L c x)) i * (v - v') := by
  unfold interp1
  exact dot_set_sub _ k i v v' hi

/-- the product of the factors of one term as a function of kernel entry `(d, i)` -/
theorem termProd_set_entry (L : ℕ) (c : Bool) (xs : List ℚ) (kt : List (List ℚ)) (d i : ℕ) (v v' : ℚ)
    (hdx : d < xs.length) (hdk : d < kt.length) (hi : i < (kt.getD d []).length) :
    termProd L c xs (kt.set d ((kt.getD d []).set i v)) - termProd L c xs (kt.set d ((kt.getD d []).set i v'))
      = (v - v') * (gradFactor (termFactors L c xs kt) d * getR (interpWeights L (clipIn L c (getR xs d))) i) := by
  have hd : d < (termFactors L c xs kt).length := by
    rw [termFactors_length]; exact lt_min hdx hdk
  unfold termProd
  rw [termFactors_set_dim, termFactors_set_dim, prod_set_eq _ d hd, prod_set_eq _ d hd]
  have := interp1_set_entry L c (getR xs d) (kt.getD d []) i v v' hi
  linear_combination (gradFactor (termFactors L c xs kt) d) * this

/-- **C19 (KFL output, kernel), exact difference quotient.** The output is affine in every kernel entry
`k_{t,d,i}`; its slope is what the backward pass assembles: `scale_t / T`, times the hand-written
`custom_reduce_prod` factor `gradFactor (f_{t,·}) d` (= the product of the OTHER dims' factors, any zero
pattern), times the interpolation weight `w_i(x_d)` — for all values `v`, `v'` of the entry. -/
theorem kfl_kernel_difference_quotient (L : ℕ) (c : Bool) (K : List (List (List ℚ))) (scale : List ℚ)
    (bias : ℚ) (xs : List ℚ) (t d i : ℕ) (v v' : ℚ) (ht : t < scale.length) (htK : t < K.length)
    (hdx : d < xs.length) (hdk : d < (K.getD t []).length) (hi : i < ((K.getD t []).getD d []).length) :
    Kfl.eval L c (setK K t d i v) scale bias xs - Kfl.eval L c (setK K t d i v') scale bias xs
      = (v - v') * gradKernel L c K scale xs t d i := by
  rw [eval_eq, eval_eq]
  simp only [setK, List.length_set]
  rw [rsum_zipWith_set_right _ [] scale K t _ ht htK, rsum_zipWith_set_right _ [] scale K t _ ht htK]
  have := termProd_set_entry L c xs (K.getD t []) d i v v' hdx hdk hi
  unfold gradKernel
  generalize termProd L c xs ((K.getD t []).set d (((K.getD t []).getD d []).set i v)) = A at this ⊢
  generalize termProd L c xs ((K.getD t []).set d (((K.getD t []).getD d []).set i v')) = B at this ⊢
  have hA : A = B + (v - v') * (gradFactor (termFactors L c xs (K.getD t [])) d *
      getR (interpWeights L (clipIn L c (getR xs d))) i) := by linarith
  rw [hA]; ring

/-! ## inputs -/

theorem termFactors_set_input (L : ℕ) (c : Bool) (xs : List ℚ) (kt : List (List ℚ)) (d : ℕ) (x : ℚ) :
    termFactors L c (xs.set d x) kt = (termFactors L c xs kt).set d (interp1 L c x (kt.getD d [])) := by
  unfold termFactors
  apply List.ext_getElem
  · simp
  · intro n h1 h2
    simp only [List.length_zipWith, List.length_set] at h1
    simp only [List.getElem_zipWith, List.getElem_set]
    by_cases hdn : d = n
    · subst hdn
      simp [List.getD_eq_getElem?_getD, (lt_min_iff.mp h1).2]
    · simp [hdn]

/-- inside one closed cell `[j, j+1]` of the range a factor is affine in the input, slope
`k_{j+1} − k_j` (with or without `clip_inputs`, incl. the size-2 fast path) -/
theorem interp1_cell (L : ℕ) (c : Bool) (k : List ℚ) (j : ℕ) (x x' : ℚ) (hk : k.length = L) (hj : j + 1 < L)
    (h0 : (j : ℚ) ≤ x) (h1 : x ≤ (j : ℚ) + 1) (h0' : (j : ℚ) ≤ x') (h1' : x' ≤ (j : ℚ) + 1) :
    interp1 L c x' k - interp1 L c x k = (x' - x) * cellSlope k j := by
  have hjL : (j : ℚ) + 1 + 1 ≤ L := by exact_mod_cast hj
  have key : ∀ y : ℚ, (j : ℚ) ≤ y → y ≤ (j : ℚ) + 1 →
      interp1 L c y k = (1 - (y - j)) * getR k j + (y - j) * getR k (j + 1) := by
    intro y g0 g1
    have hy0 : (0 : ℚ) ≤ y := le_trans (by positivity) g0
    have hy1 : y ≤ (L : ℚ) - 1 := by linarith
    have hclip : clipIn L c y = y := by
      unfold clipIn; split
      · rw [max_eq_left hy0, min_eq_left hy1]
      · rfl
    unfold interp1
    rw [hclip, interpWeights_eq L y hy0 hy1]
    -- drop the first j vertices
    have shift : ∀ (m i : ℕ) (l : List ℚ), i + m = j → l.length = L - i →
        dot (hatFrom y i (L - i)) l = (1 - (y - j)) * getR l m + (y - j) * getR l (m + 1) := by
      intro m
      induction m with
      | zero =>
        intro i l him hl
        have hij : i = j := by omega
        subst hij
        obtain ⟨n, hn⟩ : ∃ n, L - i = n + 2 := ⟨L - i - 2, by omega⟩
        rw [hn] at hl ⊢
        match l, hl with
        | k0 :: k1 :: ks, _ =>
          rw [dot_hatFrom_cell y k0 k1 ks n i g0 g1]
          simp [getR]
      | succ m ih =>
        intro i l him hl
        obtain ⟨n, hn⟩ : ∃ n, L - i = n + 1 := ⟨L - i - 1, by omega⟩
        have hn' : L - (i + 1) = n := by omega
        rw [hn] at hl ⊢
        match l, hl with
        | k0 :: ks, hl =>
          have hiy : (i : ℚ) + 1 ≤ y := by
            have : (i : ℚ) + 1 ≤ j := by exact_mod_cast (by omega : i + 1 ≤ j)
            linarith
          rw [dot_hatFrom_shift y k0 ks n i hiy, ← hn', ih (i + 1) ks (by omega) (by simpa [hn'] using hl)]
          simp [getR]
    have := shift j 0 k (by omega) (by simpa using hk)
    simpa using this
  rw [key x' h0' h1', key x h0 h1, cellSlope]
  ring

/-- **C19 (KFL output, inputs), exact difference quotient inside a cell.** For two values `x`, `x'` of
input coordinate `d` in the same closed cell `[j, j+1]` of the lattice range (where the output is
differentiable in the open cell), the output changes by `(x' − x) · gradInput`, the number assembled from
`scale_t / T`, the hand-written `gradFactor` and the cell slopes `k_{t,d,j+1} − k_{t,d,j}`. -/
theorem kfl_input_difference_quotient (L : ℕ) (c : Bool) (K : List (List (List ℚ))) (scale : List ℚ)
    (bias : ℚ) (xs : List ℚ) (d j : ℕ) (x x' : ℚ) (hdx : d < xs.length)
    (hK : ∀ kt ∈ K, d < kt.length ∧ (kt.getD d []).length = L) (hj : j + 1 < L)
    (h0 : (j : ℚ) ≤ x) (h1 : x ≤ (j : ℚ) + 1) (h0' : (j : ℚ) ≤ x') (h1' : x' ≤ (j : ℚ) + 1) :
    Kfl.eval L c K scale bias (xs.set d x') - Kfl.eval L c K scale bias (xs.set d x)
      = (x' - x) * gradInput L c K scale xs d j := by
  rw [eval_eq, eval_eq, gradInput]
  have term : ∀ kt ∈ K, termProd L c (xs.set d x') kt - termProd L c (xs.set d x) kt
      = (x' - x) * (gradFactor (termFactors L c xs kt) d * cellSlope (kt.getD d []) j) := by
    intro kt hkt
    obtain ⟨hdk, hlen⟩ := hK kt hkt
    have hd : d < (termFactors L c xs kt).length := by
      rw [termFactors_length]; exact lt_min hdx hdk
    unfold termProd
    rw [termFactors_set_input, termFactors_set_input, prod_set_eq _ d hd, prod_set_eq _ d hd]
    have := interp1_cell L c (kt.getD d []) j x x' hlen hj h0 h1 h0' h1'
    linear_combination (gradFactor (termFactors L c xs kt) d) * this
  have sum : ∀ (sc : List ℚ) (Ks : List (List (List ℚ))), (∀ kt ∈ Ks, kt ∈ K) →
      rsum (List.zipWith (fun s kt => s * termProd L c (xs.set d x') kt) sc Ks)
        - rsum (List.zipWith (fun s kt => s * termProd L c (xs.set d x) kt) sc Ks)
      = (x' - x) * rsum (List.zipWith (fun s kt => s * (gradFactor (termFactors L c xs kt) d *
          cellSlope (kt.getD d []) j)) sc Ks) := by
    intro sc
    induction sc with
    | nil => intro Ks _; simp
    | cons s sc ih =>
      intro Ks hsub
      cases Ks with
      | nil => simp
      | cons kt Ks =>
        have h1 := term kt (hsub kt (by simp))
        have h2 := ih Ks (fun k hk => hsub k (by simp [hk]))
        simp only [List.zipWith_cons_cons, rsum]
        linear_combination s * h1 + h2
  have := sum scale K (fun _ h => h)
  generalize rsum (List.zipWith (fun s kt => s * termProd L c (xs.set d x') kt) scale K) = A at this ⊢
  generalize rsum (List.zipWith (fun s kt => s * termProd L c (xs.set d x) kt) scale K) = B at this ⊢
  have hAB : A = B + (x' - x) * rsum (List.zipWith (fun s kt => s * (gradFactor (termFactors L c xs kt) d *
      cellSlope (kt.getD d []) j)) scale K) := by linarith
  rw [hAB]; ring

/-! ## `HasDerivAt` for every continuous real extension -/

/-- a continuous real function that is affine with rational slope on the rationals has that slope as
derivative everywhere -/
theorem hasDerivAt_of_affine_on_rat (f : ℝ → ℝ) (hf : Continuous f) (m b : ℚ)
    (h : ∀ q : ℚ, f q = ((m * q + b : ℚ) : ℝ)) (s : ℝ) : HasDerivAt f (m : ℝ) s := by
  have hg : Continuous (fun s : ℝ => (m : ℝ) * s + (b : ℝ)) := by fun_prop
  rw [eq_of_continuous_of_eq_on_rat hf hg (fun q => by rw [h]; push_cast; ring)]
  simpa using ((hasDerivAt_id s).const_mul (m : ℝ)).add_const (b : ℝ)

/-- **C19 (KFL output, scale), analytic form**: every continuous real function that returns the model's
output on rational values of scale entry `t` has derivative `gradScale` at every point. -/
theorem kfl_scale_hasDerivAt_of_continuous (L : ℕ) (c : Bool) (K : List (List (List ℚ))) (scale : List ℚ)
    (bias : ℚ) (xs : List ℚ) (t : ℕ) (ht : t < scale.length) (htK : t < K.length) (f : ℝ → ℝ)
    (hf : Continuous f) (h : ∀ q : ℚ, f q = ((Kfl.eval L c K (scale.set t q) bias xs : ℚ) : ℝ)) (s : ℝ) :
    HasDerivAt f ((gradScale L c K xs t : ℚ) : ℝ) s := by
  apply hasDerivAt_of_affine_on_rat f hf (gradScale L c K xs t) (Kfl.eval L c K (scale.set t 0) bias xs)
  intro q
  rw [h]
  have := kfl_scale_difference_quotient L c K scale bias xs t q 0 ht htK
  congr 1
  linarith

/-- such an extension exists (the affine one), so the statement above is not vacuous -/
theorem kfl_scale_extension_exists (L : ℕ) (c : Bool) (K : List (List (List ℚ))) (scale : List ℚ)
    (bias : ℚ) (xs : List ℚ) (t : ℕ) (ht : t < scale.length) (htK : t < K.length) :
    ∃ f : ℝ → ℝ, Continuous f ∧ ∀ q : ℚ, f q = ((Kfl.eval L c K (scale.set t q) bias xs : ℚ) : ℝ) := by
  refine ⟨fun s => ((gradScale L c K xs t : ℚ) : ℝ) * s + ((Kfl.eval L c K (scale.set t 0) bias xs : ℚ) : ℝ),
    by fun_prop, fun q => ?_⟩
  have := kfl_scale_difference_quotient L c K scale bias xs t q 0 ht htK
  have e : Kfl.eval L c K (scale.set t q) bias xs
      = gradScale L c K xs t * q + Kfl.eval L c K (scale.set t 0) bias xs := by linarith
  rw [e]; push_cast; ring

/-- **C19 (KFL output, kernel), analytic form**: every continuous real function that returns the model's
output on rational values of kernel entry `(t, d, i)` has derivative `gradKernel` — the product of
`scale_t / T`, `custom_reduce_prod`'s hand-written factor and the interpolation weight — at every point. -/
theorem kfl_kernel_hasDerivAt_of_continuous (L : ℕ) (c : Bool) (K : List (List (List ℚ))) (scale : List ℚ)
    (bias : ℚ) (xs : List ℚ) (t d i : ℕ) (ht : t < scale.length) (htK : t < K.length)
    (hdx : d < xs.length) (hdk : d < (K.getD t []).length) (hi : i < ((K.getD t []).getD d []).length)
    (f : ℝ → ℝ) (hf : Continuous f)
    (h : ∀ q : ℚ, f q = ((Kfl.eval L c (setK K t d i q) scale bias xs : ℚ) : ℝ)) (s : ℝ) :
    HasDerivAt f ((gradKernel L c K scale xs t d i : ℚ) : ℝ) s := by
  apply hasDerivAt_of_affine_on_rat f hf (gradKernel L c K scale xs t d i)
    (Kfl.eval L c (setK K t d i 0) scale bias xs)
  intro q
  rw [h]
  have := kfl_kernel_difference_quotient L c K scale bias xs t d i q 0 ht htK hdx hdk hi
  congr 1
  linarith

theorem kfl_kernel_extension_exists (L : ℕ) (c : Bool) (K : List (List (List ℚ))) (scale : List ℚ)
    (bias : ℚ) (xs : List ℚ) (t d i : ℕ) (ht : t < scale.length) (htK : t < K.length)
    (hdx : d < xs.length) (hdk : d < (K.getD t []).length) (hi : i < ((K.getD t []).getD d []).length) :
    ∃ f : ℝ → ℝ, Continuous f ∧
      ∀ q : ℚ, f q = ((Kfl.eval L c (setK K t d i q) scale bias xs : ℚ) : ℝ) := by
  refine ⟨fun s => ((gradKernel L c K scale xs t d i : ℚ) : ℝ) * s
      + ((Kfl.eval L c (setK K t d i 0) scale bias xs : ℚ) : ℝ), by fun_prop, fun q => ?_⟩
  have := kfl_kernel_difference_quotient L c K scale bias xs t d i q 0 ht htK hdx hdk hi
  have e : Kfl.eval L c (setK K t d i q) scale bias xs
      = gradKernel L c K scale xs t d i * q + Kfl.eval L c (setK K t d i 0) scale bias xs := by linarith
  rw [e]; push_cast; ring

/-- **C19 (KFL output, inputs), analytic form**: every continuous real function that returns the model's
output on the rational values of input coordinate `d` inside the cell `(j, j+1)` has derivative
`gradInput` at every REAL point of the open cell (where the output is differentiable). -/
theorem kfl_input_hasDerivAt_of_continuous (L : ℕ) (c : Bool) (K : List (List (List ℚ))) (scale : List ℚ)
    (bias : ℚ) (xs : List ℚ) (d j : ℕ) (hdx : d < xs.length)
    (hK : ∀ kt ∈ K, d < kt.length ∧ (kt.getD d []).length = L) (hj : j + 1 < L)
    (f : ℝ → ℝ) (hf : Continuous f)
    (h : ∀ q : ℚ, (j : ℚ) < q → q < (j : ℚ) + 1 → f q = ((Kfl.eval L c K scale bias (xs.set d q) : ℚ) : ℝ))
    (s : ℝ) (hs0 : (j : ℝ) < s) (hs1 : s < (j : ℝ) + 1) :
    HasDerivAt f ((gradInput L c K scale xs d j : ℚ) : ℝ) s := by
  set m : ℚ := gradInput L c K scale xs d j with hm
  set q0 : ℚ := (j : ℚ) + 1 / 2 with hq0
  set b : ℚ := Kfl.eval L c K scale bias (xs.set d q0) - m * q0 with hb
  let g : ℝ → ℝ := fun s => (m : ℝ) * s + (b : ℝ)
  have hg : Continuous g := by fun_prop
  -- f and g agree on the rationals of the open cell …
  have hq : ∀ q : ℚ, (j : ℚ) < q → q < (j : ℚ) + 1 → f q = g q := by
    intro q g0 g1
    rw [h q g0 g1]
    have := kfl_input_difference_quotient L c K scale bias xs d j q0 q hdx hK hj
      (by rw [hq0]; linarith) (by rw [hq0]; linarith) g0.le g1.le
    have e : Kfl.eval L c K scale bias (xs.set d q) = m * q + b := by rw [hb]; linarith
    rw [e]; simp only [g]; push_cast; ring
  -- … hence on the whole open cell (density of ℚ, both continuous)
  have hIoo : IsOpen (Set.Ioo (j : ℝ) ((j : ℝ) + 1)) := isOpen_Ioo
  have hsub : Set.Ioo (j : ℝ) ((j : ℝ) + 1) ⊆ {s | f s = g s} := by
    have hcl : IsClosed {s : ℝ | f s = g s} := isClosed_eq hf hg
    have hd : Dense (Set.range ((↑) : ℚ → ℝ)) := Rat.denseRange_cast (𝕜 := ℝ)
    refine (hd.open_subset_closure_inter hIoo).trans ?_
    apply hcl.closure_subset_iff.mpr
    rintro _ ⟨⟨h1, h2⟩, q, rfl⟩
    exact hq q (by exact_mod_cast h1) (by exact_mod_cast h2)
  have hev : f =ᶠ[nhds s] g :=
    Filter.eventuallyEq_of_mem (hIoo.mem_nhds ⟨hs0, hs1⟩) (fun y hy => hsub hy)
  have hgd : HasDerivAt g (m : ℝ) s := by
    simpa [g] using ((hasDerivAt_id s).const_mul (m : ℝ)).add_const (b : ℝ)
  exact hgd.congr_of_eventuallyEq hev

/-! ## non-vacuity (kernel computation): factors with exact zeros -/

/-- `L = 3`, two dims, one term; `x = (1, 1/2)`: the first factor is `k_{0,1} = 0` EXACTLY -/
example : termFactors 3 false [1, 1/2] [[2, 0, 5], [1, 3, -1]] = [0, 2] := by decide +kernel
example : gradKernel 3 false [[[2, 0, 5], [1, 3, -1]]] [4] [1, 1/2] 0 0 1 = 8 ∧
    gradKernel 3 false [[[2, 0, 5], [1, 3, -1]]] [4] [1, 1/2] 0 1 0 = 0 ∧
    gradScale 3 false [[[2, 0, 5], [1, 3, -1]]] [1, 1/2] 0 = 0 ∧
    gradInput 3 false [[[2, 0, 5], [1, 3, -1]]] [4] [1, 1/2] 1 0 = 0 ∧
    gradInput 3 false [[[2, 0, 5], [1, 3, -1]]] [4] [1, 1/2] 0 1 = 40 := by decide +kernel
example : Kfl.eval 3 false (setK [[[2, 0, 5], [1, 3, -1]]] 0 0 1 7) [4] 1 [1, 1/2]
    - Kfl.eval 3 false (setK [[[2, 0, 5], [1, 3, -1]]] 0 0 1 (-2)) [4] 1 [1, 1/2] = (7 - (-2)) * 8 := by
  decide +kernel
example : Kfl.eval 3 false [[[2, 0, 5], [1, 3, -1]]] [4] 1 ([1, 1/2].set 0 (7/4))
    - Kfl.eval 3 false [[[2, 0, 5], [1, 3, -1]]] [4] 1 ([1, 1/2].set 0 1) = (7/4 - 1) * 40 := by
  decide +kernel

end Tfl.C19
