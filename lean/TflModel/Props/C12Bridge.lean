import TflModel.Props.C12
import TflModel.Props.C08
import TflModel.Props.C04
/-!
# C12 — bridges: what the asserts accept at `eps = 0` is what the projections call feasible

The `…OK` predicates of `Props/C12.lean` are written in the shape of the real assertions (loops over
unstacked layers, `reduce_min`).  The projection theorems speak about their own feasibility predicates:
`Poset.Feasible` (C06), `PwlProj.MonoOk / BoundsOk` (C04), `C08.FeasibleD` with `MonoAx`, `EdgeOK`,
`TrapOK`, `MonoDomOK`, `RangeDomOK`, `JointMonoOK` (C01/C08).  Here: at `eps = 0` they coincide, so

* a kernel accepted by the assert at `eps = 0` is a fixed point of the corresponding projection
  (`categorical_accepted_fixed`, `lattice_accepted_groups_fix`), and
* what the categorical projection returns is accepted (`categorical_projection_accepted`).

* linear: accepted at `eps = 0` ⇒ the premises of `C06.linear_fixpoint` (`linear_accepted_fixed`).

Not bridged (stated in the design notes): the linear norm clause, KFL, the PWL clamp clauses and
convexity (not asserted), `eps > 0` (the feasibility predicates have no tolerance).
-/
namespace Tfl.C12
open Tfl Tfl.Poset Tfl.Linear Tfl.Asserts Tfl.Lat

/-! ## Categorical ↔ `Poset.Feasible` (C06) -/

/-- **bridge (categorical).** Accepted at `eps = 0` iff the column is `Poset.Feasible` for the pairs
(the predicate of `C06.categorical_pairs_and_bounds` / `categorical_fixpoint`) and within the bounds. -/
theorem categorical_zero_iff_feasible (lo hi : Option Rat) (cs : Pairs) (w : List Rat) :
    acceptsCategorical lo hi cs w 0 = true ↔
      Feasible cs w ∧ (∀ k, k < w.length → ∀ l, lo = some l → l ≤ getV w k) ∧
        (∀ k, k < w.length → ∀ h, hi = some h → getV w k ≤ h) := by
  rw [categorical_iff]
  unfold Feasible
  constructor
  · rintro ⟨h1, h2, h3⟩
    exact ⟨fun c hc => by linarith [h3 c hc], fun k hk l hl => by linarith [h1 l hl k hk],
      fun k hk h hh => by linarith [h2 h hh k hk]⟩
  · rintro ⟨h3, h1, h2⟩
    exact ⟨fun l hl k hk => by linarith [h1 k hk l hl], fun h hh k hk => by linarith [h2 k hk h hh],
      fun c hc => by linarith [h3 c hc]⟩

/-- accepted at `eps = 0` ⇒ the categorical constraint leaves the column unchanged (C06 fixpoint) -/
theorem categorical_accepted_fixed (lo hi : Option Rat) (cs : Pairs) (w : List Rat) (hacyc : Acyclic cs)
    (h : acceptsCategorical lo hi cs w 0 = true) : Categorical.project lo hi cs w = .ok w := by
  obtain ⟨hf, hlo, hhi⟩ := (categorical_zero_iff_feasible lo hi cs w).mp h
  exact C06.categorical_fixpoint_acyclic lo hi cs w hacyc hf hlo hhi

/-- what the categorical constraint returns is accepted by the assert at `eps = 0` (hence at every
`eps ≥ 0`): projection (C06) and assertion (C12) speak about the same set -/
theorem categorical_projection_accepted (lo hi : Option Rat) (cs : Pairs) (w : List Rat)
    (hacyc : Acyclic cs) (hin : ∀ a, IsNode cs a → a < w.length)
    (hb : ∀ l h, lo = some l → hi = some h → l ≤ h) :
    ∃ out, Categorical.project lo hi cs w = .ok out ∧ acceptsCategorical lo hi cs out 0 = true := by
  obtain ⟨out, hp, hf, _, hbd⟩ := C06.categorical_pairs_and_bounds_acyclic lo hi cs w hacyc hin hb
  exact ⟨out, hp, (categorical_zero_iff_feasible lo hi cs out).mpr
    ⟨hf, fun k hk l hl => (hbd k hk).1 l hl, fun k hk h hh => (hbd k hk).2 h hh⟩⟩

/-! ## Linear ↔ the premises of `C06.linear_fixpoint` -/

/-- **bridge (linear).** A column accepted at `eps = 0` (no norm) by the assert — which uses
`scalingsAll` — meets the sign, monotonic-dominance and range-dominance premises of C06's fixpoint
theorem — which uses the projection's `scalings` (they agree on the dimensions of the pairs,
`scalings_eq_all`): the constraint leaves it unchanged (before normalisation). `hrdin`, `hsc`,
acyclicity: what `verify_hyperparameters` guarantees (C06Accepted). -/
theorem linear_accepted_fixed (monos : List Int) (md rd : Pairs) (los his : List (Option Rat)) (w : List Rat)
    (hlen : monos.length = w.length)
    (hrdin : ∀ c ∈ rd, c.1 < monos.length ∧ c.2 < monos.length)
    (hamd : Acyclic md) (hard : Acyclic rd)
    (hsc : ∀ k, k < (scalings monos rd los his).length → getV (scalings monos rd los his) k ≠ 0)
    (h : acceptsLinear monos md rd los his .none w 0 = true) :
    projectPre monos md rd los his w = .ok w := by
  obtain ⟨h1, h2, h3, _⟩ := (linear_iff monos md rd los his .none w 0 hlen).mp h
  refine C06.linear_fixpoint_acyclic monos md rd los his w hamd hard ?_ ?_ ?_ hsc ?_
  · intro k
    unfold SignOk
    by_cases hk : k < w.length
    · by_cases hex : ∃ m ∈ monos, m ≠ 0
      · have := h1 hex k hk
        constructor
        · intro e; rw [e] at this; simp at this; linarith
        · intro e; rw [e] at this; simp at this; linarith
      · have : getM monos k = 0 := by
          have hk' : k < monos.length := hlen ▸ hk
          by_contra hne
          exact hex ⟨getM monos k, by simp [getM, List.getD, hk'], hne⟩
        rw [this]; constructor <;> intro e <;> omega
    · have : getM monos k = 0 := by
        have hk' : ¬ k < monos.length := hlen ▸ hk
        simp [getM, List.getD, List.getElem?_eq_none (not_lt.mp hk')]
      rw [this]; constructor <;> intro e <;> omega
  · intro c hc; linarith [h2 c hc]
  · rw [scalings_length]; exact hlen.symm
  · intro c hc
    obtain ⟨i1, i2⟩ := hrdin c hc
    obtain ⟨p1, p2⟩ := inPairs_of_mem hc
    rw [scalings_eq_all monos rd los his i1 p1, scalings_eq_all monos rd los his i2 p2]
    linarith [h3 c hc]

/-! ## PWL ↔ `PwlProj.MonoOk` / `BoundsOk` (C04) -/

theorem prefixSums_eq_outputs (b : Rat) (hs : List Rat) : prefixSums b hs = PwlProj.outputs b hs := by
  unfold PwlProj.outputs
  induction hs generalizing b with
  | nil => rfl
  | cons h hs ih => simp only [prefixSums, PwlProj.cumsumFrom, ih]

theorem rsum_take_succ (hs : List Rat) (k : Nat) (hk : k < hs.length) :
    rsum (hs.take (k + 1)) = rsum (hs.take k) + getV hs k := by
  induction hs generalizing k with
  | nil => simp at hk
  | cons h hs ih => cases k with
    | zero => simp [rsum, getV]
    | succ k =>
      have := ih k (by simpa using hk)
      simp only [List.take_succ_cons, rsum, getV, List.getD_cons_succ] at this ⊢
      rw [this]; ring

/-- **bridge (PWL).** For a kernel `bias :: heights`, no clamps, `eps = 0`: the per-column assert
accepts iff C04's feasibility clauses `MonoOk` (every height has the sign of the monotonicity) and
`BoundsOk` (every keypoint output within the configured bounds) hold — the clauses
`C04`'s projection theorems establish. -/
theorem pwl_zero_iff_c04 (mono : Int) (hm : mono = 0 ∨ mono = 1 ∨ mono = -1) (lo hi : Option Rat)
    (b : Rat) (hs : List Rat) (c : PwlProj.Cfg)
    (hlo : (c.minC ≠ .none ↔ lo.isSome) ∧ ∀ l, lo = some l → c.omin = l)
    (hhi : (c.maxC ≠ .none ↔ hi.isSome) ∧ ∀ h, hi = some h → c.omax = h) :
    acceptsPwl mono lo hi false false none (b :: hs) 0 = true ↔
      PwlProj.MonoOk mono hs ∧ PwlProj.BoundsOk c b hs := by
  rw [pwl_iff, pwl_outputs_iff _ _ _ _ _ _ _ (by simp only [pwlOutputs]; cases hs <;> simp [prefixSums])]
  simp only [pwlOutputs, Bool.false_eq_true, false_imp_iff, and_true, reduceCtorEq, implies_true]
  have hlen : (prefixSums b hs).length = hs.length + 1 := length_prefixSums b hs
  have hdiff : ∀ k, k < hs.length → getV (prefixSums b hs) (k + 1) - getV (prefixSums b hs) k = getV hs k := by
    intro k hk
    rw [prefixSums_spec b hs (k + 1) (by omega), prefixSums_spec b hs k (by omega), rsum_take_succ hs k hk]
    ring
  have hmono : (mono ≠ 0 → ∀ k, k + 1 < (prefixSums b hs).length →
      -(0 : Rat) ≤ (mono : Rat) * (getV (prefixSums b hs) (k + 1) - getV (prefixSums b hs) k)) ↔
      PwlProj.MonoOk mono hs := by
    unfold PwlProj.MonoOk
    constructor
    · intro h
      constructor
      · intro h1 x hx
        obtain ⟨k, hk, e⟩ := mem_iff_getV.mp hx
        have := h (by omega) k (by omega)
        rw [hdiff k hk, e, h1] at this
        simpa using this
      · intro h1 x hx
        obtain ⟨k, hk, e⟩ := mem_iff_getV.mp hx
        have := h (by omega) k (by omega)
        rw [hdiff k hk, e, h1] at this
        have : -(0 : Rat) ≤ -x := by simpa using this
        linarith
    · rintro ⟨h1, h2⟩ hne k hk
      have hk' : k < hs.length := by omega
      rw [hdiff k hk']
      have hx : getV hs k ∈ hs := mem_iff_getV.mpr ⟨k, hk', rfl⟩
      rcases hm with h0 | h0 | h0
      · exact absurd h0 hne
      · rw [h0]; have := h1 h0 _ hx; simp; linarith
      · rw [h0]; have := h2 h0 _ hx; simp; linarith
  rw [hmono]
  unfold PwlProj.BoundsOk PwlProj.InBounds
  rw [← prefixSums_eq_outputs]
  simp only [neg_zero]
  constructor
  · rintro ⟨h1, h2, h3⟩
    refine ⟨h3, fun y hy => ⟨fun hc => ?_, fun hc => ?_⟩⟩
    · obtain ⟨l, hl⟩ := Option.isSome_iff_exists.mp (hlo.1.mp hc)
      rw [hlo.2 l hl]; linarith [h1 l hl y hy]
    · obtain ⟨h, hh⟩ := Option.isSome_iff_exists.mp (hhi.1.mp hc)
      rw [hhi.2 h hh]; linarith [h2 h hh y hy]
  · rintro ⟨h3, h⟩
    refine ⟨fun l hl y hy => ?_, fun hh hhh y hy => ?_, h3⟩
    · have := (h y hy).1 (hlo.1.mpr (by simp [hl]))
      rw [hlo.2 l hl] at this; linarith
    · have := (h y hy).2 (hhi.1.mpr (by simp [hhh]))
      rw [hhi.2 hh hhh] at this; linarith

/-! ## Lattice ↔ `C08.FeasibleD` -/

/-- the two quantifier shapes over the cells of an `(a, b)` grid agree: "for every cell `(i, j)` and
every position lying in that cell" (the assert's `_unstack_nd` loops) vs "for every position and every
cell" (the projection's stencils); `a ≠ b` both inside the lattice is what `verify_hyperparameters`
guarantees -/
theorem cells_iff (sizes : List Nat) (a b na nb : Nat) (ha : a < sizes.length) (hb : b < sizes.length)
    (hab : a ≠ b) (hna : na ≤ sizes.getD a 0) (hnb : nb ≤ sizes.getD b 0)
    (F : (Nat → Nat → Rat) → Nat → Nat → Prop) (w : W) :
    (∀ i, i < na → ∀ j, j < nb → ∀ idx ∈ allIdx sizes, coord idx a = i → coord idx b = j →
        F (fun i' j' => at2 w idx a b i' j') i j) ↔
    (∀ idx, InRange sizes idx → ∀ i j, i < na → j < nb → F (fun i' j' => at2 w idx a b i' j') i j) := by
  constructor
  · intro h idx hr i j hi hj
    have hla : a < idx.length := by rw [hr.1]; exact ha
    have hlb : b < idx.length := by rw [hr.1]; exact hb
    have hr' : InRange sizes (setc (setc idx a i) b j) :=
      inRange_setc (inRange_setc hr (by omega)) (by omega)
    have := h i hi j hj _ (mem_allIdx.mpr hr')
      (by rw [coord_setc_ne _ (Ne.symm hab), coord_setc_same _ hla])
      (by rw [coord_setc_same _ (by simpa using hlb)])
    have e : (fun i' j' => at2 w (setc (setc idx a i) b j) a b i' j') = (fun i' j' => at2 w idx a b i' j') := by
      funext i' j'
      simp only [at2]
      have e1 : setc (setc (setc idx a i) b j) a i' = setc (setc idx a i') b j := by
        rw [setc_comm (setc idx a i) j i' (Ne.symm hab), setc_setc_same]
      rw [e1, setc_setc_same]
    rw [e] at this
    exact this
  · intro h i hi j hj idx hidx _ _
    exact h idx (mem_allIdx.mp hidx) i j hi hj

/-- monotonicity along `d`: the assert's adjacent-layer form at `eps = 0` is `MonoAx` -/
theorem monoOK_zero_iff (c : LatCfg) (w : W) :
    MonoOK c w 0 ↔ ∀ d, d < c.monos.length → c.monos.getD d 0 = 1 → MonoAx c.sizes d w := by
  unfold MonoOK MonoAx
  refine forall_congr' fun d => forall_congr' fun _ => forall_congr' fun _ => ?_
  constructor
  · intro h idx hr hd hlt
    have hl : d < idx.length := by rw [hr.1]; exact hd
    have := h (coord idx d) (by unfold Asserts.sz; omega) (setc idx d (coord idx d + 1))
      (mem_allIdx.mpr (inRange_setc hr hlt)) (coord_setc_same _ hl)
    rw [setc_setc_same, setc_coord_self hl] at this
    linarith
  · intro h j hj idx hidx hc
    have hr := mem_allIdx.mp hidx
    by_cases hd : d < c.sizes.length
    · have hl : d < idx.length := by rw [hr.1]; exact hd
      have hj' : j + 1 < c.sizes.getD d 0 := by unfold Asserts.sz at hj; omega
      have hr' : InRange c.sizes (setc idx d j) := inRange_setc hr (by omega)
      have := h (setc idx d j) hr' hd (by rw [coord_setc_same _ hl]; exact hj')
      rw [coord_setc_same _ hl, setc_setc_same, ← hc, setc_coord_self hl] at this
      simp only [neg_zero]
      linarith
    · exfalso
      have : c.sizes.getD d 0 = 0 := by simp [List.getD, List.getElem?_eq_none (not_lt.mp hd)]
      unfold Asserts.sz at hj; omega

/-- what `verify_hyperparameters` guarantees about the pair / trust constraints of a lattice: two
different dimensions inside the lattice, directions `±1` -/
structure LatWF (c : LatCfg) : Prop where
  edge : ∀ t ∈ c.edge, t.1 < c.sizes.length ∧ t.2.1 < c.sizes.length ∧ t.1 ≠ t.2.1 ∧ (t.2.2 = 1 ∨ t.2.2 = -1)
  trap : ∀ t ∈ c.trap, t.1 < c.sizes.length ∧ t.2.1 < c.sizes.length ∧ t.1 ≠ t.2.1 ∧ (t.2.2 = 1 ∨ t.2.2 = -1)
  mdom : ∀ t ∈ c.mdom, t.1 < c.sizes.length ∧ t.2 < c.sizes.length ∧ t.1 ≠ t.2
  rdom : ∀ t ∈ c.rdom, t.1 < c.sizes.length ∧ t.2 < c.sizes.length ∧ t.1 ≠ t.2
  jmono : ∀ t ∈ c.jmono, t.1 < c.sizes.length ∧ t.2 < c.sizes.length ∧ t.1 ≠ t.2

theorem mdomOK_zero_iff (c : LatCfg) (w : W) (h : LatWF c) :
    MdomOK c w 0 ↔ ∀ t ∈ c.mdom, C08.MonoDomOK c.sizes t.1 t.2 w := by
  unfold MdomOK C08.MonoDomOK
  refine forall_congr' fun t => forall_congr' fun ht => ?_
  obtain ⟨h1, h2, h3⟩ := h.mdom t ht
  have := cells_iff c.sizes t.1 t.2 (Asserts.sz c t.1 - 1) (Asserts.sz c t.2 - 1) h1 h2 h3
    (by unfold Asserts.sz; omega) (by unfold Asserts.sz; omega)
    (fun f i j => -(0 : Rat) ≤ f (i + 1) j - (f (i + 1) (j + 1) + f i j) / 2 ∧
      -(0 : Rat) ≤ (f (i + 1) (j + 1) + f i j) / 2 - f i (j + 1)) w
  rw [this]
  refine forall_congr' fun idx => forall_congr' fun _ => forall_congr' fun i => forall_congr' fun j => ?_
  unfold Asserts.sz
  simp only [gat, at2]
  constructor
  · intro h hi hj; have := h (by omega) (by omega); constructor <;> linarith [this.1, this.2]
  · intro h hi hj; have := h (by omega) (by omega); constructor <;> linarith [this.1, this.2]

theorem jointOK_zero_iff (c : LatCfg) (w : W) (h : LatWF c) :
    JointOK c w 0 ↔ ∀ t ∈ c.jmono, C08.JointMonoOK c.sizes t.1 t.2 w := by
  unfold JointOK C08.JointMonoOK
  refine forall_congr' fun t => forall_congr' fun ht => ?_
  obtain ⟨h1, h2, h3⟩ := h.jmono t ht
  have := cells_iff c.sizes t.1 t.2 (Asserts.sz c t.1 - 1) (Asserts.sz c t.2 - 1) h1 h2 h3
    (by unfold Asserts.sz; omega) (by unfold Asserts.sz; omega)
    (fun f i j => -(0 : Rat) ≤ f (i + 1) (j + 1) - (f (i + 1) j + f i (j + 1)) / 2 ∧
      -(0 : Rat) ≤ (f (i + 1) j + f i (j + 1)) / 2 - f i j) w
  rw [this]
  refine forall_congr' fun idx => forall_congr' fun _ => forall_congr' fun i => forall_congr' fun j => ?_
  unfold Asserts.sz
  simp only [gat, at2]
  constructor
  · intro h hi hj; have := h (by omega) (by omega); constructor <;> linarith [this.1, this.2]
  · intro h hi hj; have := h (by omega) (by omega); constructor <;> linarith [this.1, this.2]

theorem rdomOK_zero_iff (c : LatCfg) (w : W) (h : LatWF c) :
    RdomOK c w 0 ↔ ∀ t ∈ c.rdom, C08.RangeDomOK c.sizes t.1 t.2 w := by
  unfold RdomOK C08.RangeDomOK
  refine forall_congr' fun t => forall_congr' fun ht => ?_
  obtain ⟨h1, h2, h3⟩ := h.rdom t ht
  have := cells_iff c.sizes t.1 t.2 (Asserts.sz c t.1) (Asserts.sz c t.2) h1 h2 h3
    (by unfold Asserts.sz; omega) (by unfold Asserts.sz; omega)
    (fun f i j => -(0 : Rat) ≤ (f (Asserts.sz c t.1 - 1) j - f 0 j) - (f i (Asserts.sz c t.2 - 1) - f i 0)) w
  rw [this]
  refine forall_congr' fun idx => forall_congr' fun _ => forall_congr' fun i => forall_congr' fun j => ?_
  unfold Asserts.sz
  simp only [gat, at2]
  constructor
  · intro h hi hj; have := h hi hj; linarith
  · intro h hi hj; have := h hi hj; linarith

/-- the Edgeworth trust `(main, cond, ±1)` of the assert as C01/C08's `Trust` -/
def toTrust (t : Nat × Nat × Int) : Trust := ⟨t.1, t.2.1, decide (t.2.2 = 1)⟩

theorem edgeOK_zero_iff (c : LatCfg) (w : W) (h : LatWF c) :
    Tfl.C12.EdgeOK c w 0 ↔ ∀ t ∈ c.edge, Tfl.Lat.EdgeOK c.sizes (toTrust t) w := by
  unfold Tfl.C12.EdgeOK Tfl.Lat.EdgeOK
  refine forall_congr' fun t => forall_congr' fun ht => ?_
  obtain ⟨h1, h2, h3, h4⟩ := h.edge t ht
  have := cells_iff c.sizes t.1 t.2.1 (Asserts.sz c t.1 - 1) (Asserts.sz c t.2.1 - 1) h1 h2 h3
    (by unfold Asserts.sz; omega) (by unfold Asserts.sz; omega)
    (fun f i j => -(0 : Rat) ≤ (t.2.2 : Rat) * ((f (i + 1) (j + 1) - f i (j + 1)) - (f (i + 1) j - f i j))) w
  rw [this]
  refine forall_congr' fun idx => forall_congr' fun _ => forall_congr' fun i => forall_congr' fun j => ?_
  unfold Asserts.sz
  simp only [toTrust, eviol, gat, at2]
  rcases h4 with h4 | h4
  · simp only [h4, decide_true, if_true]
    constructor
    · intro h hi hj; have := h (by omega) (by omega); simp at this; linarith
    · intro h hi hj; have := h (by omega) (by omega); simp; linarith
  · have hd : decide (t.2.2 = 1) = false := by simp [h4]
    simp only [hd, Bool.false_eq_true, if_false]
    rw [h4]
    constructor
    · intro h hi hj; have := h (by omega) (by omega); simp at this; linarith
    · intro h hi hj; have := h (by omega) (by omega); simp; linarith

/-- on a position lying in cell `(i, j)` of the `(a, b)` grid, `at2` reads the kernel there and at its
`b`-neighbours -/
theorem at2_self (w : W) (idx : Idx) (a b i j' : Nat) (hla : a < idx.length) (hi : coord idx a = i) :
    at2 w idx a b i j' = w (setc idx b j') := by
  simp only [at2]; rw [setc_eq_self hla hi]

theorem trapOK_zero_iff (c : LatCfg) (w : W) (h : LatWF c) :
    Tfl.C12.TrapOK c w 0 ↔ ∀ t ∈ c.trap, Tfl.Lat.TrapOK c.sizes (toTrust t) w := by
  unfold Tfl.C12.TrapOK Tfl.Lat.TrapOK AxisGe AxisLe
  refine forall_congr' fun t => forall_congr' fun ht => ?_
  obtain ⟨h1, h2, h3, h4⟩ := h.trap t ht
  simp only [toTrust, neg_zero]
  -- both shapes, face by face
  have face : ∀ (k : Nat) (s : Rat → Rat → Prop),
      (∀ j, j < Asserts.sz c t.2.1 - 1 → ∀ idx ∈ allIdx c.sizes, coord idx t.1 = k → coord idx t.2.1 = j →
        s (at2 w idx t.1 t.2.1 k j) (at2 w idx t.1 t.2.1 k (j + 1))) ↔
      (∀ idx, InRange c.sizes idx → coord idx t.1 = k → coord idx t.2.1 + 1 < c.sizes.getD t.2.1 0 →
        s (w idx) (w (setc idx t.2.1 (coord idx t.2.1 + 1)))) := by
    intro k s
    constructor
    · intro hh idx hr hk hlt
      have hla : t.1 < idx.length := by rw [hr.1]; exact h1
      have hlb : t.2.1 < idx.length := by rw [hr.1]; exact h2
      have := hh (coord idx t.2.1) (by unfold Asserts.sz; omega) idx (mem_allIdx.mpr hr) hk rfl
      rw [at2_self w idx _ _ k _ hla hk, at2_self w idx _ _ k _ hla hk, setc_coord_self hlb] at this
      exact this
    · intro hh j hj idx hidx hk hjc
      have hr := mem_allIdx.mp hidx
      have hla : t.1 < idx.length := by rw [hr.1]; exact h1
      have hlb : t.2.1 < idx.length := by rw [hr.1]; exact h2
      have := hh idx hr hk (by unfold Asserts.sz at hj; omega)
      rw [at2_self w idx _ _ k _ hla hk, at2_self w idx _ _ k _ hla hk, setc_eq_self hlb hjc, ← hjc]
      exact this
  have split : ∀ (P Q : Nat → Prop), (∀ j, j < Asserts.sz c t.2.1 - 1 → P j ∧ Q j) ↔
      ((∀ j, j < Asserts.sz c t.2.1 - 1 → P j) ∧ (∀ j, j < Asserts.sz c t.2.1 - 1 → Q j)) :=
    fun P Q => ⟨fun hh => ⟨fun j hj => (hh j hj).1, fun j hj => (hh j hj).2⟩, fun hh j hj => ⟨hh.1 j hj, hh.2 j hj⟩⟩
  rw [split]
  rcases h4 with h4 | h4
  · simp only [h4, decide_true, if_true, Int.cast_one, one_mul]
    have f0 := face 0 (fun x y => (0 : Rat) ≤ x - y)
    have fN := face (Asserts.sz c t.1 - 1) (fun x y => (0 : Rat) ≤ y - x)
    rw [f0, fN]
    unfold Asserts.sz
    constructor
    · rintro ⟨g1, g2⟩
      exact ⟨fun idx hr hk hlt => by linarith [g1 idx hr hk hlt], fun idx hr hk hlt => by linarith [g2 idx hr hk hlt]⟩
    · rintro ⟨g1, g2⟩
      exact ⟨fun idx hr hk hlt => by linarith [g1 idx hr hk hlt], fun idx hr hk hlt => by linarith [g2 idx hr hk hlt]⟩
  · have hd : decide (t.2.2 = 1) = false := by simp [h4]
    simp only [hd, Bool.false_eq_true, if_false]
    rw [h4]
    have f0 := face 0 (fun x y => (0 : Rat) ≤ ((-1 : Int) : Rat) * (x - y))
    have fN := face (Asserts.sz c t.1 - 1) (fun x y => (0 : Rat) ≤ ((-1 : Int) : Rat) * (y - x))
    rw [f0, fN]
    unfold Asserts.sz
    constructor
    · rintro ⟨g1, g2⟩
      refine ⟨fun idx hr hk hlt => ?_, fun idx hr hk hlt => ?_⟩
      · have := g1 idx hr hk hlt; simp at this; linarith
      · have := g2 idx hr hk hlt; simp at this; linarith
    · rintro ⟨g1, g2⟩
      refine ⟨fun idx hr hk hlt => ?_, fun idx hr hk hlt => ?_⟩
      · have := g1 idx hr hk hlt; simp; linarith
      · have := g2 idx hr hk hlt; simp; linarith


/-- dimension `d` is asserted monotone (`monotonicities[d] == 1`) -/
def monoFlag (c : LatCfg) (d : Nat) : Bool := decide (d < c.monos.length ∧ c.monos.getD d 0 = 1)

theorem getD_map_range (n d : Nat) (f : Nat → Bool) (hd : d < n) :
    ((List.range n).map f).getD d false = f d := by
  simp [List.getD, hd]

/-- the Dykstra configuration with the same monotonicity, Edgeworth, dominance and joint
monotonicity constraints and trusts (no unimodalities or joint unimodalities: not asserted) -/
def toDCfg (c : LatCfg) : DCfg :=
  { sizes := c.sizes, mono := (List.range c.sizes.length).map (monoFlag c),
    edgeworth := c.edge.map toTrust, trapezoid := c.trap.map toTrust, monoDom := c.mdom, rangeDom := c.rdom, jointMono := c.jmono }

/-- **bridge (lattice).** For a configuration whose pair / trust constraints name two different
dimensions of the lattice (`LatWF`): the assert accepts at `eps = 0` iff the kernel is `FeasibleD`
for the corresponding Dykstra configuration (C08's predicate: `C08.groups_fix`, `dykstra_cfg_converges`
speak about exactly this set) and within the output bounds. -/
theorem lattice_zero_iff_feasibleD (c : LatCfg) (w : W) (h : LatWF c) :
    acceptsLatticeW c w 0 = true ↔ C08.FeasibleD (toDCfg c) w ∧ BoundsOK c w 0 := by
  rw [lattice_iff, monoOK_zero_iff, edgeOK_zero_iff c w h, trapOK_zero_iff c w h, mdomOK_zero_iff c w h,
    rdomOK_zero_iff c w h, jointOK_zero_iff c w h]
  have hpairs : (∀ d, d < c.monos.length → c.monos.getD d 0 = 1 → MonoAx c.sizes d w) ↔
      ∀ d, d < (toDCfg c).sizes.length →
        C08.PairsOK (toDCfg c).sizes ((toDCfg c).mono.getD d false) ((toDCfg c).unimod.getD d 0) d w := by
    refine forall_congr' fun d => ?_
    have hu : (toDCfg c).unimod.getD d 0 = 0 := by simp [toDCfg]
    rw [hu]
    show _ ↔ (d < c.sizes.length → C08.PairsOK c.sizes (((List.range c.sizes.length).map (monoFlag c)).getD d false) 0 d w)
    constructor
    · intro h1 hd idx hr hlt
      rw [getD_map_range _ _ _ hd]
      cases hm : monoFlag c d
      · simp [pairKind]
      · have hm' := of_decide_eq_true hm
        simp only [pairKind, if_true]
        exact h1 hm'.1 hm'.2 idx hr hd hlt
    · intro h1 hdm hm idx hr hd hlt
      have e : monoFlag c d = true := decide_eq_true ⟨hdm, hm⟩
      have := h1 hd idx hr hlt
      rw [getD_map_range _ _ _ hd, e] at this
      simpa [pairKind] using this
  constructor
  · rintro ⟨h1, h2, h3, h4, h5, h6, h7⟩
    refine ⟨⟨hpairs.mp h1, ?_, ?_, h4, h5, h6, ?_⟩, h7⟩
    · intro tr htr'
      obtain ⟨t, ht, rfl⟩ := List.mem_map.mp htr'
      exact h2 t ht
    · intro tr htr'
      obtain ⟨t, ht, rfl⟩ := List.mem_map.mp htr'
      exact h3 t ht
    · intro ju hju; simp [toDCfg] at hju
  · rintro ⟨hf, h7⟩
    exact ⟨hpairs.mpr hf.pairs, fun t ht => hf.edge _ (List.mem_map.mpr ⟨t, ht, rfl⟩),
      fun t ht => hf.trap _ (List.mem_map.mpr ⟨t, ht, rfl⟩), hf.mdom, hf.rdom, hf.jmono, h7⟩

/-- accepted at `eps = 0` ⇒ every group projection of the Dykstra loop leaves the kernel unchanged
on the box (`C08.groups_fix`): the assert's accepted set lies inside the projections' fixed set -/
theorem lattice_accepted_groups_fix (c : LatCfg) (w : W) (h : LatWF c)
    (hacc : acceptsLatticeW c w 0 = true) :
    ∀ P ∈ groups (toDCfg c), AgreeOn (toDCfg c).sizes (P w) w :=
  C08.groups_fix (toDCfg c) w
    (by
      intro tr htr
      obtain ⟨t, ht, rfl⟩ := List.mem_map.mp htr
      obtain ⟨h1, h2, h3, _⟩ := h.trap t ht
      exact ⟨h1, h2, h3⟩)
    ((lattice_zero_iff_feasibleD c w h).mp hacc).1

/-! non-vacuity of the bridge hypotheses -/
def exBridgeCfg : LatCfg :=
  { sizes := [2, 2], monos := [1, 0], edge := [(0, 1, 1)], trap := [], mdom := [], rdom := [], jmono := [(0, 1)], lo := some 0, hi := some 1 }
example : LatWF exBridgeCfg := ⟨by decide, by decide, by decide, by decide, by decide⟩
example : acceptsLatticeW exBridgeCfg (Table.ofVals [2, 2] [0, 0, 1/2, 1]).get 0 = true := by decide +kernel

end Tfl.C12
