import TflModel.Props.C06Accepted
import TflModel.Lemmas.PosetLocal
import Mathlib.Analysis.SpecialFunctions.Sqrt
/-!
# C06 — the COMPOSITE theorem of `linear_lib.project` for accepted configurations

Props/C06.lean and Props/C06Accepted.lean prove STAGE theorems (sign clip, monotonic-dominance
projection, range-dominance projection, normalisation) about intermediate columns. This file
composes them into ONE statement about the function the driver runs,

  `Tfl.Linear.project monos md rd los his ord w
      = (projectPre monos md rd los his w).map (normalize ord)`            (`project_eq`, by `rfl`)

  = sign clip → monotonic dominance → range dominance → normalisation,

for EVERY configuration accepted by the model of `linear_lib.verify_hyperparameters`
(`Tfl.Verify.verifyLinear`; `linearConstraints` for `LinearConstraints.__init__`) and EVERY weight
column with one entry per input. The only hypotheses are acceptance and the length of the column
(`weights.shape[0] == len(monotonicities)`, which `project` itself verifies). Everything else the
stage theorems need is derived from acceptance (Lemmas/VerifyLinear.lean):

* `verifyLinear_hinc`     — both dimensions of a monotonic-dominance pair are in range and increasing
                            (the loop `if monotonicities[dim] != 1: raise`), so the dominance
                            projection keeps the signs;
* `verifyLinear_disjoint` — no dimension is used by both kinds of dominance (the last block of
                            `verify_hyperparameters`: "Cannot have both monotonic and range dominance
                            constraints specified on the same dimension"), so the range-dominance
                            stage, which runs second, leaves the dimensions ordered by the first
                            stage untouched;
* `verifyLinear_acyclic`, `verifyLinear_scalings_ne_zero`, `verifyLinear_hdir`, `verifyLinear_range`.

Normalisation orders. `normalization_order` is handed to `tf.norm(weights, axis=0, ord=…)`; the model
has `none` (falsy: no normalisation), `1` and `inf` exactly in ℚ, and `2`:
* order 1 / inf: unit norm of the result unless the pre-normalised column is below the guard
  `_NORMALIZATION_EPS` — the DEGENERATE case, stated explicitly: then the column is returned as it
  is (norm `< 1e-8`, in particular the all-zero column an all-increasing layer gets from weights that
  are all `≤ 0`: finding F-C03-a);
* order 2: `w / √(normSq w)` is irrational in general, so the model does not compute it
  (`normalize .l2 w = w`, `project_l2_eq_pre`). What is proved instead is the CLAIM: dividing by ANY
  positive factor keeps signs, dominances and scaled range dominances (`positive_scaling_keeps`, in
  ℚ; `real_scaling_keeps`, for a real factor), and over ℝ the column divided by `√(normSq w)` has unit
  2-norm (`l2_unit_norm`) unless `√(normSq w) < ε`, which the model decides without a root
  (`l2Skips_iff`). `accepted_project_l2` puts these together for accepted configurations.
-/
namespace Tfl.C06
open Tfl Tfl.Poset Tfl.Linear Tfl.Verify

/-- **bridge**: the function the driver runs (`lin.project` calls `Tfl.Linear.project`) is
`projectPre` followed by `normalize` — by definition. -/
theorem project_eq (monos : List Int) (md rd : Pairs) (los his : List (Option Rat)) (ord : Linear.NormOrd)
    (w : List Rat) :
    Linear.project monos md rd los his ord w =
      (projectPre monos md rd los his w).map (normalize ord) := rfl

/-- what `project` promises about a column: signs, monotonic dominances, scaled range dominances -/
def Meets (monos : List Int) (md rd : Pairs) (sc w : List Rat) : Prop :=
  (∀ k, SignOk (getM monos k) (getV w k)) ∧
  (∀ p ∈ md, getV w p.2 ≤ getV w p.1) ∧
  (∀ p ∈ rd, getV sc p.2 * getV w p.2 ≤ getV sc p.1 * getV w p.1)

theorem getV_map_div (w : List Rat) (n : Rat) (k : Nat) : getV (w.map (· / n)) k = getV w k / n := by
  by_cases hk : k < w.length
  · exact getV_map _ _ hk
  · rw [getV_of_le (by simpa using Nat.le_of_not_lt hk), getV_of_le (Nat.le_of_not_lt hk)]; simp

/-- **order 2 (and every other order), the claim in ℚ**: dividing a column by ANY positive factor
keeps the signs, every monotonic-dominance inequality and every scaled range-dominance inequality.
The real order-2 result is the column divided by the (float) root of `normSq`: whatever that root
is, as long as it is positive the constraints survive. -/
theorem positive_scaling_keeps (monos : List Int) (md rd : Pairs) (sc w : List Rat) (n : Rat) (hn : 0 < n)
    (h : Meets monos md rd sc w) : Meets monos md rd sc (w.map (· / n)) := by
  obtain ⟨hs, hm, hr⟩ := h
  refine ⟨fun k => ?_, fun p hp => ?_, fun p hp => ?_⟩
  · rw [getV_map_div]
    exact ⟨fun e => div_nonneg ((hs k).1 e) hn.le, fun e => div_nonpos_of_nonpos_of_nonneg ((hs k).2 e) hn.le⟩
  · rw [getV_map_div, getV_map_div]
    exact div_le_div_of_nonneg_right (hm p hp) hn.le
  · rw [getV_map_div, getV_map_div, ← mul_div_assoc, ← mul_div_assoc]
    exact div_le_div_of_nonneg_right (hr p hp) hn.le

theorem map_div_one (w : List Rat) : w.map (· / 1) = w := by simp

theorem rmax_map_div (n : Rat) (hn : 0 < n) : ∀ (l : List Rat) (a : Rat),
    rmax (a / n) (l.map (· / n)) = rmax a l / n := by
  intro l
  induction l with
  | nil => intro a; rfl
  | cons y ys ih =>
    intro a
    simp only [List.map_cons, rmax]
    rw [max_div_div_right hn.le, ih]

/-- unit max-norm after the order-inf normalisation unless the column is below the guard -/
theorem normalize_linf_unit (w : List Rat) (h : ¬ normInf w < normEps) :
    normInf (normalize .linf w) = 1 := by
  have hpos : 0 < normInf w := lt_of_lt_of_le (by norm_num [normEps]) (not_lt.mp h)
  have e : normalize .linf w = w.map (· / normInf w) := by simp only [normalize, if_neg h]
  have hc : (Rat.abs ∘ fun x => x / normInf w) = ((· / normInf w) ∘ Rat.abs) := by
    funext x
    simp only [Function.comp, ratAbs_eq]
    rw [abs_div, abs_of_pos hpos]
  rw [e]
  show rmax 0 (List.map Rat.abs (List.map (· / normInf w) w)) = 1
  rw [List.map_map, hc, ← List.map_map]
  have := rmax_map_div (normInf w) hpos (w.map Rat.abs) 0
  rw [zero_div] at this
  rw [this]
  exact div_self (ne_of_gt hpos)

/-- the DEGENERATE case of the normalisation, explicit: a column below the guard
`_NORMALIZATION_EPS` is returned as it is (`tf.where(norm < eps, 1.0, norm)`) -/
theorem normalize_degenerate (w : List Rat) :
    (norm1 w < normEps → normalize .l1 w = w) ∧ (normInf w < normEps → normalize .linf w = w) := by
  constructor <;> intro h <;> simp only [normalize, if_pos h] <;> exact map_div_one w

/-- a column that already has unit norm is not changed by the normalisation -/
theorem normalize_unit_fix (w : List Rat) :
    (norm1 w = 1 → normalize .l1 w = w) ∧ (normInf w = 1 → normalize .linf w = w) := by
  have h1 : ¬ (1 : Rat) < normEps := by norm_num [normEps]
  constructor <;> intro e <;> simp only [normalize, e, if_neg h1] <;> exact map_div_one w

/-- normalising twice is normalising once -/
theorem normalize_idem (ord : Linear.NormOrd) (w : List Rat) :
    normalize ord (normalize ord w) = normalize ord w := by
  cases ord
  · rfl
  · by_cases h : norm1 w < normEps
    · rw [(normalize_degenerate w).1 h, (normalize_degenerate w).1 h]
    · exact (normalize_unit_fix _).1 (normalize_l1_unit w h)
  · rfl
  · by_cases h : normInf w < normEps
    · rw [(normalize_degenerate w).2 h, (normalize_degenerate w).2 h]
    · exact (normalize_unit_fix _).2 (normalize_linf_unit w h)

/-! ### the two dominance stages for an accepted configuration -/

theorem isEmpty_false_of_ne {α} {l : List α} (h : l ≠ []) : l.isEmpty = false := by
  cases l <;> simp_all

/-- sign clip and monotonic-dominance stage: total, of the same length, ordered, signs kept,
dimensions outside the monotonic dominances only sign-clipped -/
theorem accepted_md_stage (nid : Option Nat) (mv mdv rdv iminv imaxv : Val) (c : LinCfg)
    (h : verifyLinear nid mv mdv rdv iminv imaxv = .ok c) (w : List Rat) (hlen : w.length = c.monos.length) :
    ∃ w2, (if c.md.isEmpty then Except.ok (signClip c.monos w)
            else approxProject (swapPairs c.md) (signClip c.monos w)) = Except.ok w2 ∧
      w2.length = w.length ∧
      (∀ p ∈ c.md, getV w2 p.2 ≤ getV w2 p.1) ∧
      (∀ k, SignOk (getM c.monos k) (getV w2 k)) ∧
      (∀ k, ¬ IsNode c.md k → getV w2 k = getV (signClip c.monos w) k) := by
  by_cases he : c.md = []
  · refine ⟨signClip c.monos w, by simp [he], length_signClip _ _, ?_, signClip_signOk _ _, fun _ _ => rfl⟩
    intro p hp; rw [he] at hp; cases hp
  · have hin : ∀ a, IsNode c.md a → a < w.length := by
      rintro a ⟨p, hp, e | e⟩
      · rw [hlen, ← e]; exact (verifyLinear_hinc h p hp).1.1
      · rw [hlen, ← e]; exact (verifyLinear_hinc h p hp).1.2
    obtain ⟨w2, h2, hmd, hsg, hun⟩ := linear_monotonic_dominance_acyclic c.monos c.md w he
      (verifyLinear_acyclic h).1 hin (fun p hp => (verifyLinear_hinc h p hp).2)
    have hl2 : w2.length = w.length := by
      obtain ⟨o, _, _, _, e⟩ := approxProject_eq_of_acyclic (swapPairs c.md) (signClip c.monos w) w2
        (acyclic_swap (verifyLinear_acyclic h).1)
        (fun a ha => by rw [length_signClip]; exact hin a (isNode_swap.mp ha)) h2
      rw [e]; simp [length_signClip]
    exact ⟨w2, by simp [isEmpty_false_of_ne he, h2], hl2, hmd, hsg, hun⟩

/-- **C06 composite, before normalisation.** For every accepted configuration and every column with
one entry per input, `projectPre` (sign clip → monotonic dominance → range dominance) does not raise
and its result has the length of the input and meets every sign, every monotonic-dominance and every
scaled range-dominance constraint — all at once. -/
theorem accepted_projectPre (nid : Option Nat) (mv mdv rdv iminv imaxv : Val) (c : LinCfg)
    (h : verifyLinear nid mv mdv rdv iminv imaxv = .ok c) (w : List Rat) (hlen : w.length = c.monos.length) :
    ∃ pre, projectPre c.monos c.md c.rd c.los c.his w = .ok pre ∧ pre.length = w.length ∧
      Meets c.monos c.md c.rd (scalings c.monos c.rd c.los c.his) pre := by
  obtain ⟨w2, h2, hl2, hmd2, hsg2, _⟩ := accepted_md_stage nid mv mdv rdv iminv imaxv c h w hlen
  by_cases hr : c.rd = []
  · refine ⟨w2, ?_, hl2, hsg2, hmd2, fun p hp => by rw [hr] at hp; cases hp⟩
    by_cases he : c.md = []
    · simp only [he, List.isEmpty_nil, if_true] at h2
      simp [projectPre, he, hr, bind, Except.bind, pure, Except.pure, Except.ok.inj h2]
    · simp only [isEmpty_false_of_ne he, Bool.false_eq_true, if_false] at h2
      simp [projectPre, isEmpty_false_of_ne he, hr, bind, Except.bind, pure, Except.pure, h2]
  · have hlen2 : w2.length = c.monos.length := by rw [hl2, hlen]
    obtain ⟨w3, h3, hrd3, hsg3, hun3⟩ :=
      accepted_range_dominance nid mv mdv rdv iminv imaxv c h hr w2 hlen2 hsg2
    have hl3 : (divV w3 (scalings c.monos c.rd c.los c.his)).length = w.length := by
      have hml : (mulV w2 (scalings c.monos c.rd c.los c.his)).length = w2.length := by
        simp [mulV, scalings_length, hlen2]
      obtain ⟨o, _, _, _, e⟩ := approxProject_eq_of_acyclic (swapPairs c.rd)
        (mulV w2 (scalings c.monos c.rd c.los c.his)) w3 (acyclic_swap (verifyLinear_acyclic h).2)
        (fun a ha => by
          rw [hml, hlen2]
          obtain ⟨p, hp, e⟩ := isNode_swap.mp ha
          exact (verifyLinear_range h hp (e.elim (fun e => Or.inl e.symm) (fun e => Or.inr e.symm))).1) h3
      rw [e]; simp [divV, hml, scalings_length, hlen2, hlen]
    refine ⟨divV w3 (scalings c.monos c.rd c.los c.his), ?_, hl3, hsg3, fun p hp => ?_, hrd3⟩
    · by_cases he : c.md = []
      · simp only [he, List.isEmpty_nil, if_true] at h2
        simp [projectPre, he, isEmpty_false_of_ne hr, bind, Except.bind, pure, Except.pure,
          Except.ok.inj h2, h3]
      · simp only [isEmpty_false_of_ne he, Bool.false_eq_true, if_false] at h2
        simp [projectPre, isEmpty_false_of_ne he, isEmpty_false_of_ne hr, bind, Except.bind, pure,
          Except.pure, h2, h3]
    · -- the range-dominance stage does not touch the dimensions of the monotonic dominances
      rw [hun3 p.2 (verifyLinear_disjoint h p.2 ⟨p, hp, Or.inr rfl⟩),
        hun3 p.1 (verifyLinear_disjoint h p.1 ⟨p, hp, Or.inl rfl⟩)]
      exact hmd2 p hp

/-- **C06 COMPOSITE (Linear).** For EVERY configuration accepted by `linear_lib.verify_hyperparameters`
(hypothesis: acceptance) and EVERY weight column with one entry per input (hypothesis: its length),
the whole `linear_lib.project` — sign clip → monotonic dominance → range dominance → normalisation —
does not raise, and its result `out`
* has the length of the input,
* is `≥ 0` on increasing and `≤ 0` on decreasing inputs,
* satisfies EVERY monotonic-dominance inequality `out weak ≤ out dominant`,
* satisfies EVERY range-dominance inequality, slopes scaled by the input range,
* order 1: has unit 1-norm unless the PRE-normalised column `pre` is below the guard
  (`norm1 pre < 1e-8`); in that DEGENERATE case (F-C03-a: e.g. all weights of an all-increasing layer
  `≤ 0`, clipped to 0) it is returned as it is — norm `< 1e-8`, NOT normalised,
* order inf: the same with the max-norm,
* is a FIXPOINT of the whole `project`, normalisation included: `project out = out`.
For order 2 the model returns `pre` (`project_l2_eq_pre`); see `accepted_project_l2`. -/
theorem accepted_project (nid : Option Nat) (mv mdv rdv iminv imaxv : Val) (c : LinCfg)
    (h : verifyLinear nid mv mdv rdv iminv imaxv = .ok c) (ord : Linear.NormOrd)
    (w : List Rat) (hlen : w.length = c.monos.length) :
    ∃ pre out, projectPre c.monos c.md c.rd c.los c.his w = .ok pre ∧
      Linear.project c.monos c.md c.rd c.los c.his ord w = .ok out ∧
      out.length = w.length ∧
      (∀ k, SignOk (getM c.monos k) (getV out k)) ∧
      (∀ p ∈ c.md, getV out p.2 ≤ getV out p.1) ∧
      (∀ p ∈ c.rd, getV (scalings c.monos c.rd c.los c.his) p.2 * getV out p.2 ≤
                    getV (scalings c.monos c.rd c.los c.his) p.1 * getV out p.1) ∧
      (ord = .l1 → (¬ norm1 pre < normEps → norm1 out = 1) ∧ (norm1 pre < normEps → out = pre)) ∧
      (ord = .linf → (¬ normInf pre < normEps → normInf out = 1) ∧ (normInf pre < normEps → out = pre)) ∧
      Linear.project c.monos c.md c.rd c.los c.his ord out = .ok out := by
  obtain ⟨pre, hpre, hlp, hmeets⟩ := accepted_projectPre nid mv mdv rdv iminv imaxv c h w hlen
  obtain ⟨n, hn, hnorm⟩ := normalize_keeps ord pre
  have hout : Linear.project c.monos c.md c.rd c.los c.his ord w = .ok (normalize ord pre) := by
    simp [Linear.project, hpre, Except.map]
  have hlo : (normalize ord pre).length = w.length := by rw [hnorm]; simpa using hlp
  have hm : Meets c.monos c.md c.rd (scalings c.monos c.rd c.los c.his) (normalize ord pre) := by
    rw [hnorm]; exact positive_scaling_keeps _ _ _ _ _ n hn hmeets
  refine ⟨pre, normalize ord pre, hpre, hout, hlo, hm.1, hm.2.1, hm.2.2, ?_, ?_, ?_⟩
  · intro e; subst e
    exact ⟨normalize_l1_unit pre, (normalize_degenerate pre).1⟩
  · intro e; subst e
    exact ⟨normalize_linf_unit pre, (normalize_degenerate pre).2⟩
  · have hfix := accepted_fixpoint nid mv mdv rdv iminv imaxv c h (normalize ord pre)
      (by rw [hlo, hlen]) hm.1 hm.2.1 hm.2.2
    simp [Linear.project, hfix, Except.map, normalize_idem]

/-- **no monotonicities at all.** When the canonical monotonicities of an accepted configuration are
`None` (`LinearConstraints(monotonicities=None)` or an empty list) the validation has rejected every
dominance argument, and the constraint is the normalisation alone — for a column of ANY length (the
real `project` checks the number of weights only against a given `monotonicities` list). The real
code raises `TypeError` here (`any(None)`): finding F-C06-c, `repo_patches/F-C06-c.diff`; the model is
the repaired behaviour. -/
theorem accepted_project_no_monotonicities (nid : Option Nat) (mv mdv rdv iminv imaxv : Val) (c : LinCfg)
    (h : verifyLinear nid mv mdv rdv iminv imaxv = .ok c) (hn : c.mono = Option.none) (ord : Linear.NormOrd)
    (w : List Rat) :
    c.monos = [] ∧ c.md = [] ∧ c.rd = [] ∧
    Linear.project c.monos c.md c.rd c.los c.his ord w = .ok (normalize ord w) ∧
    Linear.project c.monos c.md c.rd c.los c.his ord (normalize ord w) = .ok (normalize ord w) := by
  obtain ⟨hmd, hrd, hm⟩ := verifyLinear_no_mono h hn
  have key : ∀ x : List Rat, Linear.project c.monos c.md c.rd c.los c.his ord x = .ok (normalize ord x) := by
    intro x
    rw [hmd, hrd, hm]
    cases x <;> simp [Linear.project, projectPre, signClip, bind, Except.bind, pure, Except.pure, Except.map]
  exact ⟨hm, hmd, hrd, key w, by rw [key, normalize_idem]⟩

/-- the same for the constraints class: `LinearConstraints(**r)(w)` for every accepted `r` -/
theorem accepted_project_constraints (r : RawLinC) (c : LinCfg) (h : linearConstraints r = .ok c)
    (ord : Linear.NormOrd) (w : List Rat) (hlen : w.length = c.monos.length) :
    ∃ pre out, projectPre c.monos c.md c.rd c.los c.his w = .ok pre ∧
      Linear.project c.monos c.md c.rd c.los c.his ord w = .ok out ∧
      out.length = w.length ∧
      (∀ k, SignOk (getM c.monos k) (getV out k)) ∧
      (∀ p ∈ c.md, getV out p.2 ≤ getV out p.1) ∧
      (∀ p ∈ c.rd, getV (scalings c.monos c.rd c.los c.his) p.2 * getV out p.2 ≤
                    getV (scalings c.monos c.rd c.los c.his) p.1 * getV out p.1) ∧
      (ord = .l1 → (¬ norm1 pre < normEps → norm1 out = 1) ∧ (norm1 pre < normEps → out = pre)) ∧
      (ord = .linf → (¬ normInf pre < normEps → normInf out = 1) ∧ (normInf pre < normEps → out = pre)) ∧
      Linear.project c.monos c.md c.rd c.los c.his ord out = .ok out :=
  accepted_project _ _ _ _ _ _ c h ord w hlen

/-- **C06 feasible ⇒ unchanged, the WHOLE `project`** (normalisation included) for accepted
configurations: a column with one entry per input that has the configured signs, satisfies every
monotonic- and scaled range-dominance pair and — when a norm is requested — already has unit norm
of that order (or is below the guard) is returned unchanged. -/
theorem accepted_full_fixpoint (nid : Option Nat) (mv mdv rdv iminv imaxv : Val) (c : LinCfg)
    (h : verifyLinear nid mv mdv rdv iminv imaxv = .ok c) (ord : Linear.NormOrd)
    (w : List Rat) (hlen : w.length = c.monos.length)
    (hsign : ∀ k, SignOk (getM c.monos k) (getV w k))
    (hmd : ∀ p ∈ c.md, getV w p.2 ≤ getV w p.1)
    (hrd : ∀ p ∈ c.rd, getV (scalings c.monos c.rd c.los c.his) p.2 * getV w p.2 ≤
                        getV (scalings c.monos c.rd c.los c.his) p.1 * getV w p.1)
    (h1 : ord = .l1 → norm1 w = 1 ∨ norm1 w < normEps)
    (hinf : ord = .linf → normInf w = 1 ∨ normInf w < normEps) :
    Linear.project c.monos c.md c.rd c.los c.his ord w = .ok w := by
  have hfix := accepted_fixpoint nid mv mdv rdv iminv imaxv c h w hlen hsign hmd hrd
  have hn : normalize ord w = w := by
    cases ord
    · rfl
    · rcases h1 rfl with e | e
      · exact (normalize_unit_fix w).1 e
      · exact (normalize_degenerate w).1 e
    · rfl
    · rcases hinf rfl with e | e
      · exact (normalize_unit_fix w).2 e
      · exact (normalize_degenerate w).2 e
  simp [Linear.project, hfix, Except.map, hn]


/-! ### the two dominance stages commute on accepted configurations

Swapping the monotonic- and the range-dominance block of `linear_lib.project` is NOT observable on
any accepted configuration: the stages read and write disjoint sets of dimensions
(`verifyLinear_disjoint`, locality of the sweeps: Lemmas/PosetLocal.lean) and the scaling of a
dimension outside the range dominances is `±1`, non-zero. (A correspondence harness therefore cannot
and need not report that mutant; with the "both kinds on one dimension" check ALSO removed the order
does matter and the hostile stream `shared` of harness/props/c06.py reports it.) -/

/-- the range-dominance stage along a given order: scale, project, un-scale -/
def rdStage (sc : List Rat) (rd : Pairs) (o : List Nat) (x : List Rat) : List Rat :=
  divV (approxProjectWith (swapPairs rd) o (mulV x sc)) sc

/-- `projectPre` with the two dominance blocks in the OTHER order (range dominance first) -/
def projectPreSwapped (monos : List Int) (monoDom rangeDom : Pairs) (los his : List (Option Rat))
    (w : List Rat) : Except Err (List Rat) := do
  let w1 := signClip monos w
  let w2 ← if rangeDom.isEmpty then pure w1
    else do
      let sc := scalings monos rangeDom los his
      let w3 ← approxProject (swapPairs rangeDom) (mulV w1 sc)
      pure (divV w3 sc)
  if monoDom.isEmpty then pure w2 else approxProject (swapPairs monoDom) w2

theorem rdStage_length (sc : List Rat) (rd : Pairs) (o : List Nat) (x : List Rat) (hx : x.length = sc.length) :
    (rdStage sc rd o x).length = x.length := by
  simp [rdStage, divV, mulV, hx]

theorem getV_rdStage (sc : List Rat) (rd : Pairs) (o : List Nat) (x : List Rat) (hx : x.length = sc.length)
    (k : Nat) :
    getV (rdStage sc rd o x) k = getV (approxProjectWith (swapPairs rd) o (mulV x sc)) k / getV sc k :=
  getV_zipWith (· / ·) (by simp) _ _ (by simp [mulV, hx]) k

theorem rdStage_outside (sc : List Rat) (rd : Pairs) (o : List Nat) (x : List Rat) (hx : x.length = sc.length)
    (hsc : ∀ k, k < sc.length → getV sc k ≠ 0) {k : Nat} (hk : ¬ IsNode rd k) :
    getV (rdStage sc rd o x) k = getV x k := by
  rw [getV_rdStage sc rd o x hx, approxProjectWith_outside _ _ _ (fun h => hk (isNode_swap.mp h)),
    show getV (mulV x sc) k = getV x k * getV sc k from getV_zipWith (· * ·) (by simp) _ _ hx k]
  by_cases hkl : k < sc.length
  · exact mul_div_cancel_right₀ _ (hsc k hkl)
  · rw [getV_of_le (Nat.le_of_not_lt hkl), getV_of_le (by rw [hx]; exact Nat.le_of_not_lt hkl)]; simp

theorem rdStage_agree (sc : List Rat) (rd : Pairs) (o : List Nat) (x x' : List Rat) (hx : x.length = sc.length)
    (hx' : x'.length = sc.length) (h : Agree (swapPairs rd) x x') :
    Agree (swapPairs rd) (rdStage sc rd o x) (rdStage sc rd o x') := by
  have hm : Agree (swapPairs rd) (mulV x sc) (mulV x' sc) := by
    refine ⟨by simp [mulV, hx, hx'], fun k hk => ?_⟩
    rw [show getV (mulV x sc) k = getV x k * getV sc k from getV_zipWith (· * ·) (by simp) _ _ hx k,
      show getV (mulV x' sc) k = getV x' k * getV sc k from getV_zipWith (· * ·) (by simp) _ _ hx' k, h.2 k hk]
  have hp := approxProjectWith_agree o hm
  refine ⟨by rw [rdStage_length _ _ _ _ hx, rdStage_length _ _ _ _ hx', hx, hx'], fun k hk => ?_⟩
  rw [getV_rdStage sc rd o x hx, getV_rdStage sc rd o x' hx', hp.2 k hk]

/-- **the dominance stages commute.** For every accepted configuration and every column with one
entry per input, running the range-dominance block BEFORE the monotonic-dominance block gives exactly
the same column as `projectPre` (monotonic dominance first, the order of the real code). -/
theorem accepted_stages_commute (nid : Option Nat) (mv mdv rdv iminv imaxv : Val) (c : LinCfg)
    (h : verifyLinear nid mv mdv rdv iminv imaxv = .ok c) (w : List Rat) (hlen : w.length = c.monos.length) :
    projectPreSwapped c.monos c.md c.rd c.los c.his w = projectPre c.monos c.md c.rd c.los c.his w := by
  by_cases hm : c.md = []
  · by_cases hr : c.rd = []
    · simp [projectPreSwapped, projectPre, hm, hr, bind, Except.bind, pure, Except.pure]
    · simp [projectPreSwapped, projectPre, hm, isEmpty_false_of_ne hr, bind, Except.bind, pure, Except.pure]
  · by_cases hr : c.rd = []
    · simp [projectPreSwapped, projectPre, hr, isEmpty_false_of_ne hm, bind, Except.bind, pure, Except.pure]
      cases approxProject (swapPairs c.md) (signClip c.monos w) <;> rfl
    · -- both stages run: name the two orders
      have hm' : swapPairs c.md ≠ [] := by cases hc : c.md <;> simp_all [swapPairs]
      have hr' : swapPairs c.rd ≠ [] := by cases hc : c.rd <;> simp_all [swapPairs]
      obtain ⟨o1, ho1⟩ := topoSort_some_of_nonempty _ hm' (acyclic_swap (verifyLinear_acyclic h).1)
      obtain ⟨o2, ho2⟩ := topoSort_some_of_nonempty _ hr' (acyclic_swap (verifyLinear_acyclic h).2)
      obtain ⟨hscl, hsc⟩ := accepted_scalings nid mv mdv rdv iminv imaxv c h
      set sc := scalings c.monos c.rd c.los c.his with hscdef
      set w1 := signClip c.monos w with hw1
      have hl1 : w1.length = sc.length := by rw [hw1, length_signClip, hlen, hscl]
      have hdisj := verifyLinear_disjoint h
      have e1 : projectPre c.monos c.md c.rd c.los c.his w =
          .ok (rdStage sc c.rd o2 (approxProjectWith (swapPairs c.md) o1 w1)) := by
        simp [projectPre, isEmpty_false_of_ne hm, isEmpty_false_of_ne hr, approxProject, ho1, ho2, bind,
          Except.bind, pure, Except.pure, rdStage, ← hscdef, ← hw1]
      have e2 : projectPreSwapped c.monos c.md c.rd c.los c.his w =
          .ok (approxProjectWith (swapPairs c.md) o1 (rdStage sc c.rd o2 w1)) := by
        simp [projectPreSwapped, isEmpty_false_of_ne hm, isEmpty_false_of_ne hr, approxProject, ho1, ho2, bind,
          Except.bind, pure, Except.pure, rdStage, ← hscdef, ← hw1]
      rw [e1, e2]
      congr 1
      have hlA : (approxProjectWith (swapPairs c.md) o1 w1).length = sc.length := by simp [hl1]
      have hlB : (rdStage sc c.rd o2 w1).length = sc.length := by rw [rdStage_length _ _ _ _ hl1, hl1]
      -- the range stage leaves the md nodes alone: `rdStage w1` agrees with `w1` on them
      have hB_md : Agree (swapPairs c.md) (rdStage sc c.rd o2 w1) w1 :=
        ⟨by rw [hlB, hl1], fun k hk => rdStage_outside sc c.rd o2 w1 hl1 hsc (hdisj k (isNode_swap.mp hk))⟩
      -- the md stage leaves the rd nodes alone
      have hA_rd : Agree (swapPairs c.rd) (approxProjectWith (swapPairs c.md) o1 w1) w1 :=
        ⟨by simp, fun k hk => approxProjectWith_outside _ _ _
          (fun hmk => hdisj k (isNode_swap.mp hmk) (isNode_swap.mp hk))⟩
      apply ext_getV
      · rw [length_approxProjectWith, hlB, rdStage_length _ _ _ _ hlA, hlA]
      · intro k
        by_cases hkm : IsNode c.md k
        · -- an md node: not an rd node
          rw [(approxProjectWith_agree o1 hB_md).2 k (isNode_swap.mpr hkm),
            rdStage_outside sc c.rd o2 _ hlA hsc (hdisj k hkm)]
        · by_cases hkr : IsNode c.rd k
          · rw [approxProjectWith_outside _ _ _ (fun hh => hkm (isNode_swap.mp hh)),
              (rdStage_agree sc c.rd o2 _ _ hlA hl1 hA_rd).2 k (isNode_swap.mpr hkr)]
          · rw [approxProjectWith_outside _ _ _ (fun hh => hkm (isNode_swap.mp hh)),
              rdStage_outside sc c.rd o2 _ hl1 hsc hkr, rdStage_outside sc c.rd o2 _ hlA hsc hkr,
              approxProjectWith_outside _ _ _ (fun hh => hkm (isNode_swap.mp hh))]

/-- without the disjointness the order of the stages DOES matter: on the (rejected) configuration
`monotonicities=[1,1,1], monotonic_dominances=[(0,1)], range_dominances=[(2,0)]`, unit ranges, the
column `[2, 2, 0]` goes to `[1, 2, 1]` (monotonic dominance `w0 ≥ w1` broken by the later range stage)
in the real order and to `[3/2, 3/2, 1]` (range dominance `w2 ≥ w0` broken) in the swapped order;
the configuration is rejected by the validation. -/
theorem stages_do_not_commute_on_shared_dimension :
    outcome (linearConstraints ⟨.s false [.a (.int 1), .a (.int 1), .a (.int 1)],
      .s false [.s true [.int 0, .int 1]], .s false [.s true [.int 2, .int 0]],
      .s false [.a (.flt 0), .a (.flt 0), .a (.flt 0)], .s false [.a (.flt 1), .a (.flt 1), .a (.flt 1)]⟩) = 1 ∧
    projectPre [1, 1, 1] [(0, 1)] [(2, 0)] [some 0, some 0, some 0] [some 1, some 1, some 1] [2, 2, 0]
      = .ok [1, 2, 1] ∧
    projectPreSwapped [1, 1, 1] [(0, 1)] [(2, 0)] [some 0, some 0, some 0] [some 1, some 1, some 1] [2, 2, 0]
      = .ok [3/2, 3/2, 1] := by decide +kernel

/-! ### order 2: the claim over ℝ -/

/-- for order 2 the model's `project` returns the pre-normalised column -/
theorem project_l2_eq_pre (monos : List Int) (md rd : Pairs) (los his : List (Option Rat)) (w : List Rat) :
    Linear.project monos md rd los his .l2 w = projectPre monos md rd los his w := by
  unfold Linear.project
  cases projectPre monos md rd los his w <;> rfl

def getVR (l : List ℝ) (k : Nat) : ℝ := l.getD k 0
def normSqR (l : List ℝ) : ℝ := (l.map (fun x => x ^ 2)).sum

/-- the real order-2 normalisation of a rational column: divide by `√(Σ w_i²)` unless that root is
below `_NORMALIZATION_EPS` (`tf.norm(w, ord=2)`, `tf.where(norm < eps, 1.0, norm)`, `w / norm`) -/
noncomputable def l2NormalizeR (w : List Rat) : List ℝ :=
  let n : ℝ := Real.sqrt ((normSq w : Rat) : ℝ)
  let n' : ℝ := if n < ((normEps : Rat) : ℝ) then 1 else n
  w.map (fun x => ((x : Rat) : ℝ) / n')

theorem normSq_nonneg (w : List Rat) : 0 ≤ normSq w := by
  unfold normSq
  induction w with
  | nil => simp [rsum]
  | cons x xs ih => simp only [List.map_cons, rsum]; nlinarith [mul_self_nonneg x]

theorem normSq_cast (w : List Rat) : ((normSq w : Rat) : ℝ) = normSqR (w.map (fun x => ((x : Rat) : ℝ))) := by
  unfold normSq normSqR
  induction w with
  | nil => simp [rsum]
  | cons x xs ih =>
    simp only [List.map_cons, rsum, List.sum_cons, Rat.cast_add, Rat.cast_mul, ih]
    ring

theorem normSqR_map_div (l : List ℝ) (n : ℝ) : normSqR (l.map (· / n)) = normSqR l / n ^ 2 := by
  unfold normSqR
  induction l with
  | nil => simp
  | cons x xs ih =>
    simp only [List.map_cons, List.sum_cons, ih]
    rw [div_pow]; ring

/-- **the order-2 guard without a root**: `‖w‖₂ < ε` iff the model's rational test `normSq w < ε²` -/
theorem l2Skips_iff (w : List Rat) :
    Real.sqrt ((normSq w : Rat) : ℝ) < ((normEps : Rat) : ℝ) ↔ l2Skips w = true := by
  have he : (0 : ℝ) < ((normEps : Rat) : ℝ) := by
    have : (0 : Rat) < normEps := by norm_num [normEps]
    exact_mod_cast this
  rw [Real.sqrt_lt' he]
  simp only [l2Skips, decide_eq_true_eq]
  constructor
  · intro hlt
    have : ((normSq w : Rat) : ℝ) < ((normEps * normEps : Rat) : ℝ) := by
      rw [Rat.cast_mul, ← sq]; exact hlt
    exact_mod_cast this
  · intro hlt
    have : ((normSq w : Rat) : ℝ) < ((normEps * normEps : Rat) : ℝ) := by exact_mod_cast hlt
    rw [Rat.cast_mul, ← sq] at this; exact this

/-- **order 2, unit norm over ℝ.** For every rational column whose 2-norm is not below the guard
(`l2Skips w = false`, in particular `normSq w ≠ 0`), the column divided by `√(normSq w)` — what
`linear_lib.project` computes in floats for `normalization_order = 2` — has 2-norm exactly one. -/
theorem l2_unit_norm (w : List Rat) (h : l2Skips w = false) :
    Real.sqrt (normSqR (l2NormalizeR w)) = 1 := by
  have hns : ¬ Real.sqrt ((normSq w : Rat) : ℝ) < ((normEps : Rat) : ℝ) := by
    rw [l2Skips_iff, h]; simp
  have he : (0 : ℝ) < ((normEps : Rat) : ℝ) := by
    have : (0 : Rat) < normEps := by norm_num [normEps]
    exact_mod_cast this
  have hpos : 0 < Real.sqrt ((normSq w : Rat) : ℝ) := lt_of_lt_of_le he (not_lt.mp hns)
  have h0 : (0 : ℝ) ≤ ((normSq w : Rat) : ℝ) := by exact_mod_cast normSq_nonneg w
  unfold l2NormalizeR
  simp only [if_neg hns]
  have : (w.map (fun x => ((x : Rat) : ℝ) / Real.sqrt ((normSq w : Rat) : ℝ))) =
      (w.map (fun x => ((x : Rat) : ℝ))).map (· / Real.sqrt ((normSq w : Rat) : ℝ)) := by
    rw [List.map_map]; rfl
  rw [this, normSqR_map_div, ← normSq_cast, Real.sq_sqrt h0, div_self (ne_of_gt (Real.sqrt_pos.mp hpos))]
  exact Real.sqrt_one

/-- the degenerate case of order 2, explicit: below the guard the column is returned as it is -/
theorem l2_degenerate (w : List Rat) (h : l2Skips w = true) :
    l2NormalizeR w = w.map (fun x => ((x : Rat) : ℝ)) := by
  have hns : Real.sqrt ((normSq w : Rat) : ℝ) < ((normEps : Rat) : ℝ) := (l2Skips_iff w).mpr h
  unfold l2NormalizeR
  simp only [if_pos hns, div_one]

theorem getVR_map_div (w : List Rat) (r : ℝ) (k : Nat) :
    getVR (w.map (fun x => ((x : Rat) : ℝ) / r)) k = ((getV w k : Rat) : ℝ) / r := by
  unfold getVR getV
  by_cases hk : k < w.length
  · simp [List.getD, hk]
  · have : w.length ≤ k := Nat.le_of_not_lt hk
    simp [List.getD, this]

/-- **order 2, the claim for a real factor**: dividing the (rational) column by ANY positive REAL
number keeps the signs, every monotonic-dominance and every scaled range-dominance inequality. -/
theorem real_scaling_keeps (monos : List Int) (md rd : Pairs) (sc w : List Rat) (r : ℝ) (hr : 0 < r)
    (h : Meets monos md rd sc w) :
    let out := w.map (fun x => ((x : Rat) : ℝ) / r)
    (∀ k, (getM monos k = 1 → 0 ≤ getVR out k) ∧ (getM monos k = -1 → getVR out k ≤ 0)) ∧
    (∀ p ∈ md, getVR out p.2 ≤ getVR out p.1) ∧
    (∀ p ∈ rd, ((getV sc p.2 : Rat) : ℝ) * getVR out p.2 ≤ ((getV sc p.1 : Rat) : ℝ) * getVR out p.1) := by
  intro out
  obtain ⟨hs, hm, hrd⟩ := h
  refine ⟨fun k => ⟨fun e => ?_, fun e => ?_⟩, fun p hp => ?_, fun p hp => ?_⟩
  · rw [getVR_map_div]
    exact div_nonneg (by exact_mod_cast (hs k).1 e) hr.le
  · rw [getVR_map_div]
    exact div_nonpos_of_nonpos_of_nonneg (by exact_mod_cast (hs k).2 e) hr.le
  · rw [getVR_map_div, getVR_map_div]
    exact div_le_div_of_nonneg_right (by exact_mod_cast hm p hp) hr.le
  · rw [getVR_map_div, getVR_map_div, ← mul_div_assoc, ← mul_div_assoc]
    refine div_le_div_of_nonneg_right ?_ hr.le
    have := hrd p hp
    exact_mod_cast this

/-- **C06 composite, order 2.** For every accepted configuration and every column with one entry per
input: the model's `project … .l2` returns the pre-normalised column `pre`, and the REAL result
`pre / √(normSq pre)` (`l2NormalizeR pre`) meets every sign, monotonic-dominance and scaled
range-dominance constraint over ℝ and has unit 2-norm unless `pre` is below the guard (decided in ℚ
by `l2Skips pre`), in which degenerate case it is `pre` itself. -/
theorem accepted_project_l2 (nid : Option Nat) (mv mdv rdv iminv imaxv : Val) (c : LinCfg)
    (h : verifyLinear nid mv mdv rdv iminv imaxv = .ok c) (w : List Rat) (hlen : w.length = c.monos.length) :
    ∃ pre, Linear.project c.monos c.md c.rd c.los c.his .l2 w = .ok pre ∧
      (∀ k, (getM c.monos k = 1 → 0 ≤ getVR (l2NormalizeR pre) k) ∧
            (getM c.monos k = -1 → getVR (l2NormalizeR pre) k ≤ 0)) ∧
      (∀ p ∈ c.md, getVR (l2NormalizeR pre) p.2 ≤ getVR (l2NormalizeR pre) p.1) ∧
      (∀ p ∈ c.rd, ((getV (scalings c.monos c.rd c.los c.his) p.2 : Rat) : ℝ) * getVR (l2NormalizeR pre) p.2 ≤
                    ((getV (scalings c.monos c.rd c.los c.his) p.1 : Rat) : ℝ) * getVR (l2NormalizeR pre) p.1) ∧
      (l2Skips pre = false → Real.sqrt (normSqR (l2NormalizeR pre)) = 1) ∧
      (l2Skips pre = true → l2NormalizeR pre = pre.map (fun x => ((x : Rat) : ℝ))) := by
  obtain ⟨pre, hpre, _, hmeets⟩ := accepted_projectPre nid mv mdv rdv iminv imaxv c h w hlen
  have he : (0 : ℝ) < ((normEps : Rat) : ℝ) := by
    have : (0 : Rat) < normEps := by norm_num [normEps]
    exact_mod_cast this
  have hpos : (0 : ℝ) < (if Real.sqrt ((normSq pre : Rat) : ℝ) < ((normEps : Rat) : ℝ) then 1
      else Real.sqrt ((normSq pre : Rat) : ℝ)) := by
    split
    · norm_num
    · rename_i hh; exact lt_of_lt_of_le he (not_lt.mp hh)
  have hk := real_scaling_keeps c.monos c.md c.rd _ pre _ hpos hmeets
  exact ⟨pre, by rw [project_l2_eq_pre]; exact hpre, hk.1, hk.2.1, hk.2.2, l2_unit_norm pre, l2_degenerate pre⟩

/-! ### non-vacuity and the degenerate case on a concrete accepted configuration

`LinearConstraints(monotonicities=[1,1,-1,-1,0], monotonic_dominances=[(0,1)],
range_dominances=[(2,3)], input_min=[None,None,0,1,None], input_max=[None,None,2,3/2,None])`
— both kinds of dominance, both signs, an unconstrained input. -/
def exRaw : RawLinC :=
  ⟨.s false [.a (.int 1), .a (.int 1), .a (.int (-1)), .a (.int (-1)), .a (.int 0)],
   .s false [.s true [.int 0, .int 1]], .s false [.s true [.int 2, .int 3]],
   .s false [.a .none, .a .none, .a (.flt 0), .a (.flt 1), .a .none],
   .s false [.a .none, .a .none, .a (.flt 2), .a (.flt (3/2)), .a .none]⟩

/-- the configuration is accepted, and the column `[3, -4, 1, -2, 1/2]` is genuinely moved by every
stage: clipped (`-4 → 0`, `1 → 0`), range-dominance projected (`[0, -2] → [-1/4, -1]`), normalised -/
theorem composite_example :
    outcome (linearConstraints exRaw) = 0 ∧
    projectPre [1, 1, -1, -1, 0] [(0, 1)] [(2, 3)] [none, none, some 0, some 1, none]
      [none, none, some 2, some (3/2), none] [3, -4, 1, -2, 1/2] = .ok [3, 0, -1/4, -1, 1/2] ∧
    Linear.project [1, 1, -1, -1, 0] [(0, 1)] [(2, 3)] [none, none, some 0, some 1, none]
      [none, none, some 2, some (3/2), none] .l1 [3, -4, 1, -2, 1/2] = .ok [12/19, 0, -1/19, -4/19, 2/19] ∧
    Linear.project [1, 1, -1, -1, 0] [(0, 1)] [(2, 3)] [none, none, some 0, some 1, none]
      [none, none, some 2, some (3/2), none] .linf [3, -4, 1, -2, 1/2] = .ok [1, 0, -1/12, -1/3, 1/6] := by
  decide +kernel

/-- **the degenerate case is real (F-C03-a).** The accepted all-increasing configuration
`LinearConstraints(monotonicities=[1, 1], normalization_order=1)` maps the column `[-1, -2]` to
`[0, 0]`: norm 0, not 1 — and `[0, 0]` is a fixpoint. A non-negative column below the guard,
`[1/10^9, 0]`, is returned as it is, too. -/
theorem degenerate_example :
    outcome (linearConstraints ⟨.s false [.a (.int 1), .a (.int 1)], .a .none, .a .none, .a .none, .a .none⟩) = 0 ∧
    Linear.project [1, 1] [] [] [] [] .l1 [-1, -2] = .ok [0, 0] ∧
    norm1 [0, 0] = 0 ∧
    Linear.project [1, 1] [] [] [] [] .l1 [0, 0] = .ok [0, 0] ∧
    Linear.project [1, 1] [] [] [] [] .l1 [1/1000000000, 0] = .ok [1/1000000000, 0] := by
  decide +kernel

end Tfl.C06
