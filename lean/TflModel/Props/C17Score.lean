import TflModel.Props.C17
import TflModel.Lemmas.Regularizers
import TflModel.Lemmas.Asserts
import TflModel.Model.CrystalsScore
/-!
# C17 — the Crystals scoring path is inside the model

Closes the DESIGN §8 limit "the Crystals scoring path is outside the model (scores are inputs)":
`Tfl.CrystalsScore.torsionsAndLaplacians` models `premade_lib._get_torsions_and_laplacians` (per-lattice kernel
normalisation, `laplacian_regularizer(l2=e_i)`, `torsion_regularizer(l2=e_i+e_j)`, means), `importanceScores` the
importance formula, `crystalsFromKernels` composes them with `Tfl.Ensembles.crystals`.

* `scores_nonneg` — the `torsions ≥ 0` / `emptyScore ≥ 0` hypotheses of `Tfl.C17.crystals_structure` hold for
  every score the model computes from kernels (discharged, for ALL kernels);
* `crystals_from_kernels_structure` — the structure theorem with hypotheses on the kernels only (plus the
  strict positivity of the importance scores, which finding F-C17-a excludes);
* `crystals_from_kernels_congr`, `crystals_depends_on_kernels_only` — determinism: the seed reaches the final
  structure only through the prefitting lattices and kernels.
-/
namespace Tfl.C17Score
open Tfl Tfl.Reg Tfl.Ensembles Tfl.CrystalsScore

/-! ## non-negativity of the regularizer values used by the scoring path -/

theorem getR_nonneg {l : List Rat} (h : ∀ x ∈ l, 0 ≤ x) (k : Nat) : 0 ≤ getR l k := by
  unfold getR
  rw [List.getD_eq_getElem?_getD]
  cases hk : l[k]? with
  | none => simp
  | some v => simpa using h v (List.mem_of_getElem? hk)

theorem unit1_nonneg (d i : Nat) : ∀ x ∈ unit1 d i, (0 : Rat) ≤ x := by
  intro x hx
  simp only [unit1, List.mem_map] at hx
  obtain ⟨k, _, rfl⟩ := hx
  split <;> norm_num

theorem unit2_nonneg (d i j : Nat) : ∀ x ∈ unit2 d i j, (0 : Rat) ≤ x := by
  intro x hx
  simp only [unit2, List.mem_map] at hx
  obtain ⟨k, _, rfl⟩ := hx
  split <;> norm_num

theorem lapStep_nonneg (sizes : List Nat) (l : List Rat) (hl : ∀ x ∈ l, 0 ≤ x) (w : W) (res : Rat)
    (hres : 0 ≤ res) (d : Nat) : 0 ≤ lapStep sizes none (some l) w res d := by
  unfold lapStep
  split
  · exact hres
  · have h1 := sumSq_nonneg (lapDiffs sizes d w)
    have h2 := getR_nonneg hl d
    have := mul_nonneg h1 h2
    simp only
    linarith

theorem lapFold_nonneg (sizes : List Nat) (l : List Rat) (hl : ∀ x ∈ l, 0 ≤ x) (w : W) :
    ∀ (ds : List Nat) (res : Rat), 0 ≤ res → 0 ≤ ds.foldl (lapStep sizes none (some l) w) res := by
  intro ds
  induction ds with
  | nil => intro res h; simpa using h
  | cons d ds ih =>
    intro res h
    simp only [List.foldl_cons]
    exact ih _ (lapStep_nonneg sizes l hl w res h d)

theorem lapCore_none (sizes : List Nat) (w : W) : lapCore sizes none none w = 0 := by
  unfold lapCore
  have : ∀ (ds : List Nat) (res : Rat), ds.foldl (lapStep sizes none none w) res = res := by
    intro ds
    induction ds with
    | nil => intro res; rfl
    | cons a ds ih => intro res; simp [List.foldl_cons, lapStep, amtZeroAt, ih]
  exact this _ 0

/-- every Laplacian value the scoring path appends is `≥ 0` -/
theorem lapAt_nonneg (d : Nat) (w : W) (i : Nat) : 0 ≤ lapAt d w i := by
  simp only [lapAt, laplacian, lapAmounts, Amt.truthy, bne_self_eq_false, Bool.false_eq_true, if_false,
    gt_iff_lt, Nat.lt_irrefl]
  split
  · exact le_refl _
  · split
    · exact lapFold_nonneg _ _ (unit1_nonneg d i) w _ 0 (le_refl _)
    · rw [lapCore_none]

theorem torStep_nonneg (sizes : List Nat) (l : List Rat) (hl : ∀ x ∈ l, 0 ≤ x) (w : W) (i : Nat) (res : Rat)
    (hres : 0 ≤ res) (j : Nat) : 0 ≤ torStep sizes none (some (.list l)) w i res j := by
  unfold torStep
  split
  · exact hres
  · have h1 := sumSq_nonneg (torTwists sizes i j w)
    have h2 : 0 ≤ (TAmt.list l).pair i j := by
      simp only [TAmt.pair]
      exact mul_nonneg (getR_nonneg hl i) (getR_nonneg hl j)
    have := mul_nonneg h1 h2
    simp only
    linarith

theorem torInner_nonneg (sizes : List Nat) (l : List Rat) (hl : ∀ x ∈ l, 0 ≤ x) (w : W) (i : Nat) :
    ∀ (js : List Nat) (res : Rat), 0 ≤ res →
      0 ≤ js.foldl (torStep sizes none (some (.list l)) w i) res := by
  intro js
  induction js with
  | nil => intro res h; simpa using h
  | cons j js ih =>
    intro res h
    simp only [List.foldl_cons]
    exact ih _ (torStep_nonneg sizes l hl w i res h j)

theorem torCore_nonneg (sizes : List Nat) (l : List Rat) (hl : ∀ x ∈ l, 0 ≤ x) (w : W) :
    0 ≤ torCore sizes none (some (.list l)) w := by
  unfold torCore
  have : ∀ (is : List Nat) (res : Rat), 0 ≤ res →
      0 ≤ is.foldl (fun res i => (List.range' (i + 1) (sizes.length - (i + 1))).foldl
        (torStep sizes none (some (.list l)) w i) res) res := by
    intro is
    induction is with
    | nil => intro res h; simpa using h
    | cons i is ih =>
      intro res h
      simp only [List.foldl_cons]
      exact ih _ (torInner_nonneg sizes l hl w i _ res h)
  exact this _ 0 (le_refl _)

theorem torCore_none (sizes : List Nat) (w : W) : torCore sizes none none w = 0 := by
  unfold torCore
  have inner : ∀ (i : Nat) (js : List Nat) (res : Rat), js.foldl (torStep sizes none none w i) res = res := by
    intro i js
    induction js with
    | nil => intro res; rfl
    | cons a js ih => intro res; simp [List.foldl_cons, torStep, tamtZeroAt, ih]
  have : ∀ (is : List Nat) (res : Rat),
      is.foldl (fun res i => (List.range' (i + 1) (sizes.length - (i + 1))).foldl
        (torStep sizes none none w i) res) res = res := by
    intro is
    induction is with
    | nil => intro res; rfl
    | cons a is ih => intro res; simp [List.foldl_cons, inner]
  exact this _ 0

/-- every torsion value the scoring path appends is `≥ 0` (and the call never errs: see `torAt_ok`) -/
theorem torAt_nonneg (d : Nat) (w : W) (i j : Nat) (v : Rat) (h : torAt d w i j = .ok v) : 0 ≤ v := by
  simp only [torAt, torsion, torAmounts, Amt.truthy, bind, Except.bind, pure, Except.pure,
     bne_self_eq_false, Bool.false_eq_true, if_false, gt_iff_lt, Nat.lt_irrefl] at h
  split at h
  · cases h; exact le_refl _
  · by_cases he : (!(unit2 d i j).isEmpty) = true
    · simp only [he, if_true] at h
      cases h
      exact torCore_nonneg _ _ (unit2_nonneg d i j) w
    · simp only [he] at h
      cases h
      rw [torCore_none]

/-- `torsion_regularizer` with a per-dimension `l2` list never raises -/
theorem torAt_ok (d : Nat) (w : W) (i j : Nat) : ∃ v, torAt d w i j = .ok v := by
  simp only [torAt, torsion, torAmounts, Amt.truthy, bind, Except.bind, pure, Except.pure,
     bne_self_eq_false, Bool.false_eq_true, if_false, gt_iff_lt, Nat.lt_irrefl]
  split
  · exact ⟨_, rfl⟩
  · by_cases he : (!(unit2 d i j).isEmpty) = true
    · simp only [he, if_true]; exact ⟨_, rfl⟩
    · simp only [he]; exact ⟨_, rfl⟩

/-! ## traversal -/

theorem collect_ok_mem {α β : Type} (f : α → Except Err β) :
    ∀ (l : List α) (bs : List β), collect f l = .ok bs → ∀ b ∈ bs, ∃ a ∈ l, f a = .ok b := by
  intro l
  induction l with
  | nil => intro bs h b hb; simp only [collect] at h; cases h; cases hb
  | cons a as ih =>
    intro bs h b hb
    simp only [collect] at h
    cases hfa : f a with
    | error e => rw [hfa] at h; cases h
    | ok b0 =>
      rw [hfa] at h
      cases hc : collect f as with
      | error e => rw [hc] at h; cases h
      | ok bs0 =>
        rw [hc] at h
        cases h
        rcases List.mem_cons.mp hb with rfl | hb'
        · exact ⟨a, List.mem_cons_self, hfa⟩
        · obtain ⟨a', ha', hfa'⟩ := ih bs0 hc b hb'
          exact ⟨a', List.mem_cons_of_mem _ ha', hfa'⟩

theorem collect_ok_of_forall {α β : Type} (f : α → Except Err β) :
    ∀ (l : List α), (∀ a ∈ l, ∃ b, f a = .ok b) → ∃ bs, collect f l = .ok bs := by
  intro l
  induction l with
  | nil => intro _; exact ⟨[], rfl⟩
  | cons a as ih =>
    intro h
    obtain ⟨b, hb⟩ := h a List.mem_cons_self
    obtain ⟨bs, hbs⟩ := ih (fun x hx => h x (List.mem_cons_of_mem _ hx))
    exact ⟨b :: bs, by simp only [collect, hb, hbs]⟩

/-- an observation whose appended values are all `≥ 0` -/
def ObsNonneg (o : Obs) : Prop := (∀ x ∈ o.laps, 0 ≤ x.2) ∧ ∀ x ∈ o.tors, 0 ≤ x.2.2

theorem latticeObs_nonneg (lat : List Nat) (kernel : List Rat) (o : Obs) (h : latticeObs lat kernel = .ok o) :
    ObsNonneg o := by
  unfold latticeObs at h
  simp only at h
  split at h
  · cases h
  · cases hk : normalizeKernel kernel with
    | error e => rw [hk] at h; cases h
    | ok k =>
      rw [hk] at h
      simp only at h
      cases hc : collect (torObs lat (Table.ofVals (sizesOf lat.length) k).get) (pairsOf lat.length) with
      | error e => rw [hc] at h; cases h
      | ok ts =>
        rw [hc] at h
        cases h
        refine ⟨?_, ?_⟩
        · intro x hx
          simp only [List.mem_map] at hx
          obtain ⟨i, _, rfl⟩ := hx
          exact lapAt_nonneg _ _ _
        · intro x hx
          simp only [List.mem_flatten] at hx
          obtain ⟨l, hl, hxl⟩ := hx
          obtain ⟨p, _, hp⟩ := collect_ok_mem _ _ _ hc l hl
          unfold torObs at hp
          cases ht : torAt lat.length (Table.ofVals (sizesOf lat.length) k).get p.1 p.2 with
          | error e => rw [ht] at hp; cases hp
          | ok v =>
            rw [ht] at hp
            cases hp
            have hv := torAt_nonneg _ _ _ _ _ ht
            simp only [List.mem_cons, List.mem_nil_iff, or_false] at hxl
            rcases hxl with rfl | rfl <;> exact hv

theorem mean_nonneg {l : List Rat} (h : ∀ x ∈ l, 0 ≤ x) : 0 ≤ mean l := by
  unfold mean
  exact div_nonneg (Tfl.Ensembles.rsum_nonneg h) (by positivity)

theorem lapList_nonneg {obs : List Obs} (h : ∀ o ∈ obs, ObsNonneg o) (f : Nat) : ∀ x ∈ lapList obs f, 0 ≤ x := by
  intro x hx
  simp only [lapList, List.mem_map, List.mem_filter, List.mem_flatMap] at hx
  obtain ⟨y, ⟨⟨o, ho, hy⟩, _⟩, rfl⟩ := hx
  exact (h o ho).1 y hy

theorem torList_nonneg {obs : List Obs} (h : ∀ o ∈ obs, ObsNonneg o) (f g : Nat) :
    ∀ x ∈ torList obs f g, 0 ≤ x := by
  intro x hx
  simp only [torList, List.mem_map, List.mem_filter, List.mem_flatMap] at hx
  obtain ⟨y, ⟨⟨o, ho, hy⟩, _⟩, rfl⟩ := hx
  exact (h o ho).2 y hy

theorem getT_nonneg {t : List (List Rat)} (h : ∀ row ∈ t, ∀ x ∈ row, 0 ≤ x) (i j : Nat) : 0 ≤ getT t i j := by
  unfold getT
  rw [List.getD_eq_getElem?_getD (l := t)]
  cases hi : t[i]? with
  | none => simp
  | some row =>
    simp only [Option.getD_some]
    exact getR_nonneg (h row (List.mem_of_getElem? hi)) j

theorem torMeans_nonneg {obs : List Obs} (h : ∀ o ∈ obs, ObsNonneg o) (n : Nat) :
    ∀ row ∈ torMeans obs n, ∀ x ∈ row, 0 ≤ x := by
  intro row hrow x hx
  simp only [torMeans, List.mem_map] at hrow
  obtain ⟨f, _, rfl⟩ := hrow
  simp only [List.mem_map] at hx
  obtain ⟨g, _, rfl⟩ := hx
  split
  · exact le_refl _
  · exact mean_nonneg (torList_nonneg h f g)

theorem importance_nonneg (n : Nat) (t : List (List Rat)) (lap : List Rat)
    (ht : ∀ i j, 0 ≤ getT t i j) (hl : ∀ x ∈ lap, 0 ≤ x) : ∀ s ∈ importance n t lap, 0 ≤ s := by
  intro s hs
  simp only [importance, List.mem_map] at hs
  obtain ⟨f, _, rfl⟩ := hs
  have h1 : (0 : Rat) ≤ lap.getD f 0 := getR_nonneg hl f
  have h2 : 0 ≤ rsum ((List.range n).map fun g =>
      if f < g then getT t f g else if g < f then getT t g f else 0) := by
    apply Tfl.Ensembles.rsum_nonneg
    intro x hx
    simp only [List.mem_map] at hx
    obtain ⟨g, _, rfl⟩ := hx
    split
    · exact ht _ _
    · split
      · exact ht _ _
      · exact le_refl _
  linarith

/-- **C17 scoring path (a): the scores are non-negative for EVERY kernel.**  Whenever
`_get_torsions_and_laplacians` (model `torsionsAndLaplacians`) returns scores — whatever the prefitting lattices,
whatever the kernels, constant or not, any number of features — every torsion mean, every Laplacian mean,
every importance score and the empty-lattice score `np.mean(torsions)·rank²/2` are `≥ 0`.  This DISCHARGES the
hypotheses `∀ i j, 0 ≤ getT t i j` and `0 ≤ emptyScore` of `Tfl.C17.crystals_structure` for scores computed by
the model (DESIGN §8 limit "scores are inputs"). -/
theorem scores_nonneg (lattices : List (List Nat)) (kernels : List (List Rat)) (n : Nat)
    (t : List (List Rat)) (lap : List Rat) (h : torsionsAndLaplacians lattices kernels n = .ok (t, lap)) :
    (∀ i j, 0 ≤ getT t i j) ∧ (∀ x ∈ lap, 0 ≤ x) ∧ (∀ s ∈ importanceScores n (t, lap), 0 ≤ s) ∧
      ∀ r, 0 ≤ emptyScoreOf n r t := by
  unfold torsionsAndLaplacians at h
  split at h
  · cases h
  · cases hc : collect (fun p => latticeObs p.1 p.2) (lattices.zip kernels) with
    | error e => rw [hc] at h; cases h
    | ok obs =>
      rw [hc] at h
      simp only at h
      split at h
      · cases h
      · have hobs : ∀ o ∈ obs, ObsNonneg o := by
          intro o ho
          obtain ⟨p, _, hp⟩ := collect_ok_mem _ _ _ hc o ho
          exact latticeObs_nonneg _ _ _ hp
        injection h with h
        injection h with ht hl
        subst ht; subst hl
        have hrows := torMeans_nonneg hobs n
        have hT : ∀ i j, 0 ≤ getT (torMeans obs n) i j := getT_nonneg hrows
        have hL : ∀ x ∈ (List.range n).map (fun f => mean (lapList obs f)), 0 ≤ x := by
          intro x hx
          simp only [List.mem_map] at hx
          obtain ⟨f, _, rfl⟩ := hx
          exact mean_nonneg (lapList_nonneg hobs f)
        refine ⟨hT, hL, importance_nonneg n _ _ hT hL, ?_⟩
        intro r
        unfold emptyScoreOf
        have : 0 ≤ rsum (torMeans obs n).flatten := by
          apply Tfl.Ensembles.rsum_nonneg
          intro x hx
          simp only [List.mem_flatten] at hx
          obtain ⟨row, hrow, hx⟩ := hx
          exact hrows row hrow x hx
        positivity

/-- non-vacuity: three features, the all-pairs cover `[[0,1],[1,2],[0,2]]`, non-constant dyadic kernels; the
scores are computed (not an error) and are the stated rationals. -/
example : torsionsAndLaplacians [[0, 1], [1, 2], [0, 2]] [[0, 1, 2, 5], [0, 1/8, 1, 1], [1, 0, 0, 1]] 3 =
    .ok ([[0, 4/25, 4], [4/25, 0, 1/64], [4, 1/64, 0]], [7/5, 693/640, 129/128]) := by decide +kernel

/-! ## (b) structure from kernels -/

/-- `crystalsFromKernels` is the existing score-driven model applied to the computed scores -/
theorem crystalsFromKernels_eq (argsort : List Rat → List Nat) (cfg : Tfl.C17.EnsCfg)
    (lattices : List (List Nat)) (kernels : List (List Rat)) (t : List (List Rat)) (lap : List Rat)
    (h : torsionsAndLaplacians lattices kernels cfg.n = .ok (t, lap)) :
    crystalsFromKernels argsort cfg.n cfg.L cfg.r lattices kernels cfg.fuel =
      Tfl.C17.crystalsOfScores argsort (fun t r => emptyScoreOf cfg.n r t) cfg t lap := by
  unfold crystalsFromKernels Tfl.C17.crystalsOfScores
  rw [h]
  rfl

/-- **C17 scoring path (b): Crystals structure from the prefitting kernels.**  `r < n ≤ L·r`; the scoring of
the prefitting kernels returns scores (`hok`: no constant kernel — F-C17-b — and every feature in some prefitting
lattice, see `torsionsAndLaplacians_error_of_constant`); every importance score computed from the kernels is
STRICTLY positive (the zero-score case is finding F-C17-a; non-negativity is `scores_nonneg`); `argsort` returns
a descending sort.  Then `_get_final_crystal_lattices` returns `L` lattices of exactly `r` features each and
every feature is placed.  No hypothesis on torsions or on the empty-lattice score is left: they are discharged
by `scores_nonneg`. -/
theorem crystals_from_kernels_structure (argsort : List Rat → List Nat) (n L r : Nat)
    (lattices : List (List Nat)) (kernels : List (List Rat)) (fuel : Nat)
    (hrn : r < n) (hn : n ≤ L * r)
    (tl : List (List Rat) × List Rat) (hok : torsionsAndLaplacians lattices kernels n = .ok tl)
    (hpos : ∀ s ∈ importanceScores n tl, 0 < s)
    (hperm : (argsort (importanceScores n tl)).Perm (List.range n))
    (hsorted : sortedDesc (importanceScores n tl) (argsort (importanceScores n tl)) = true) :
    ∃ lats cap, crystalsFromKernels argsort n L r lattices kernels fuel = .ok (lats, cap) ∧ lats.length = L ∧
      (∀ l ∈ lats, l.length = r) ∧ ∀ f, f < n → ∃ l ∈ lats, f ∈ l := by
  obtain ⟨t, lap⟩ := tl
  obtain ⟨hT, _, _, hE⟩ := scores_nonneg lattices kernels n t lap hok
  have := Tfl.C17.crystals_structure n L r t lap (argsort (importance n t lap)) (emptyScoreOf n r t) fuel
    hrn hn hT (hE r) hpos hperm hsorted
  unfold crystalsFromKernels
  rw [hok]
  exact this

/-! ## when does the scoring return scores: hypotheses on the kernels only -/

/-- a kernel with two different entries (what finding F-C17-b excludes: a CONSTANT prefitting kernel) -/
def NonConstant (k : List Rat) : Prop := ∃ a ∈ k, ∃ b ∈ k, a ≠ b

/-- **F-C17-b characterised.** The per-lattice normalisation `w -= min; w /= max` is defined (no `0/0`) on
every non-constant kernel. -/
theorem normalizeKernel_ok (k : List Rat) (h : NonConstant k) : ∃ k', normalizeKernel k = .ok k' := by
  obtain ⟨a, ha, b, hb, hab⟩ := h
  cases k with
  | nil => cases ha
  | cons x xs =>
    simp only [normalizeKernel]
    have hmin : ∀ y ∈ x :: xs, rmin x xs ≤ y := by
      have := (Tfl.Asserts.le_rmin_iff (rmin x xs) x xs).mp (le_refl _)
      intro y hy
      rcases List.mem_cons.mp hy with rfl | hy
      · exact this.1
      · exact this.2 y hy
    have hmax : ∀ y ∈ x :: xs, y - rmin x xs ≤ rmax (x - rmin x xs) (xs.map (· - rmin x xs)) := by
      have := (Tfl.Asserts.rmax_le_iff (rmax (x - rmin x xs) (xs.map (· - rmin x xs))) (x - rmin x xs)
        (xs.map (· - rmin x xs))).mp (le_refl _)
      intro y hy
      rcases List.mem_cons.mp hy with rfl | hy
      · exact this.1
      · exact this.2 _ (List.mem_map.mpr ⟨y, hy, rfl⟩)
    have hpos : 0 < rmax (x - rmin x xs) (xs.map (· - rmin x xs)) := by
      rcases lt_or_gt_of_ne hab with hlt | hlt
      · have := hmin a ha; have := hmax b hb; linarith
      · have := hmin b hb; have := hmax a ha; linarith
    rw [if_neg (ne_of_gt hpos)]
    exact ⟨_, rfl⟩

/-- the converse: a constant kernel is the `0/0` of F-C17-b (an error value in the model) -/
theorem normalizeKernel_constant (c : Rat) (m : Nat) : normalizeKernel (List.replicate m c) = .error .valueError := by
  cases m with
  | zero => rfl
  | succ m =>
    simp only [List.replicate_succ, normalizeKernel]
    have h1 : rmin c (List.replicate m c) = c := by
      have hm := Tfl.Asserts.rmin_mem c (List.replicate m c)
      rcases List.mem_cons.mp hm with h | h
      · exact h
      · exact List.eq_of_mem_replicate h
    have h2 : rmax (c - c) ((List.replicate m c).map (· - c)) = 0 := by
      have hm := Tfl.Asserts.rmax_mem (c - c) ((List.replicate m c).map (· - c))
      rcases List.mem_cons.mp hm with h | h
      · rw [h]; ring
      · obtain ⟨y, hy, hy'⟩ := List.mem_map.mp h
        rw [← hy', List.eq_of_mem_replicate hy]; ring
    rw [h1, h2]
    simp

theorem collect_ok_mem' {α β : Type} (f : α → Except Err β) :
    ∀ (l : List α) (bs : List β), collect f l = .ok bs → ∀ a ∈ l, ∃ b ∈ bs, f a = .ok b := by
  intro l
  induction l with
  | nil => intro bs _ a ha; cases ha
  | cons a0 as ih =>
    intro bs h a ha
    simp only [collect] at h
    cases hfa : f a0 with
    | error e => rw [hfa] at h; cases h
    | ok b0 =>
      rw [hfa] at h
      cases hc : collect f as with
      | error e => rw [hc] at h; cases h
      | ok bs0 =>
        rw [hc] at h
        cases h
        rcases List.mem_cons.mp ha with rfl | ha'
        · exact ⟨b0, List.mem_cons_self, hfa⟩
        · obtain ⟨b, hb, hfb⟩ := ih bs0 hc a ha'
          exact ⟨b, List.mem_cons_of_mem _ hb, hfb⟩

theorem latticeObs_ok (lat : List Nat) (k : List Rat) (hlen : k.length = 2 ^ lat.length) (hk : NonConstant k) :
    ∃ o, latticeObs lat k = .ok o ∧ ∀ f ∈ lat, ∃ v, (f, v) ∈ o.laps := by
  obtain ⟨k', hk'⟩ := normalizeKernel_ok k hk
  obtain ⟨ts, hts⟩ := collect_ok_of_forall (torObs lat (Table.ofVals (sizesOf lat.length) k').get)
    (pairsOf lat.length) (by
      intro p _
      obtain ⟨v, hv⟩ := torAt_ok lat.length (Table.ofVals (sizesOf lat.length) k').get p.1 p.2
      refine ⟨[(lat.getD p.1 0, lat.getD p.2 0, v), (lat.getD p.2 0, lat.getD p.1 0, v)], ?_⟩
      simp only [torObs, hv])
  refine ⟨⟨(List.range lat.length).map fun i =>
      (lat.getD i 0, lapAt lat.length (Table.ofVals (sizesOf lat.length) k').get i), ts.flatten⟩, ?_, ?_⟩
  · simp only [latticeObs, hlen, ne_eq, not_true_eq_false, if_false, hk', hts]
  intro f hf
  obtain ⟨i, hi, rfl⟩ := List.getElem_of_mem hf
  refine ⟨lapAt lat.length (Table.ofVals (sizesOf lat.length) k').get i, ?_⟩
  simp only [List.mem_map, List.mem_range]
  exact ⟨i, hi, by simp [List.getD_eq_getElem?_getD, List.getElem?_eq_getElem hi]⟩

/-- **The scoring returns scores under hypotheses on the kernels only**: as many kernels as prefitting lattices,
every kernel of the lattice's size `2 ^ len(lattice)` (true by construction in the real code) and NON-CONSTANT
(a constant one is finding F-C17-b, `normalizeKernel_constant`), every feature in some prefitting lattice (what
the all-pairs cover guarantees, `Tfl.C17.pair_cover_any_rank`; else `np.mean([])` is NaN). -/
theorem torsionsAndLaplacians_ok (lattices : List (List Nat)) (kernels : List (List Rat)) (n : Nat)
    (hlen : lattices.length = kernels.length)
    (hk : ∀ p ∈ lattices.zip kernels, p.2.length = 2 ^ p.1.length ∧ NonConstant p.2)
    (hcov : ∀ f, f < n → ∃ lat ∈ lattices, f ∈ lat) :
    ∃ tl, torsionsAndLaplacians lattices kernels n = .ok tl := by
  obtain ⟨obs, hobs⟩ := collect_ok_of_forall (fun p => latticeObs p.1 p.2) (lattices.zip kernels) (by
    intro p hp
    obtain ⟨o, ho, _⟩ := latticeObs_ok p.1 p.2 (hk p hp).1 (hk p hp).2
    exact ⟨o, ho⟩)
  have hne : ∀ f, f < n → (lapList obs f).isEmpty = false := by
    intro f hf
    obtain ⟨lat, hlat, hfl⟩ := hcov f hf
    obtain ⟨i, hi, rfl⟩ := List.getElem_of_mem hlat
    have hi' : i < kernels.length := hlen ▸ hi
    have hmem : (lattices[i], kernels[i]) ∈ lattices.zip kernels := by
      have hz : i < (lattices.zip kernels).length := by simp [List.length_zip]; omega
      have := List.getElem_mem hz
      simpa [List.getElem_zip] using this
    obtain ⟨o, ho, hfo⟩ := collect_ok_mem' _ _ _ hobs _ hmem
    obtain ⟨o', ho', hlaps⟩ := latticeObs_ok lattices[i] kernels[i] (hk _ hmem).1 (hk _ hmem).2
    simp only at hfo
    rw [ho'] at hfo
    cases hfo
    obtain ⟨v, hv⟩ := hlaps f hfl
    have : v ∈ lapList obs f := by
      simp only [lapList, List.mem_map, List.mem_filter, List.mem_flatMap]
      exact ⟨(f, v), ⟨⟨o, ho, hv⟩, by simp⟩, rfl⟩
    cases hl : lapList obs f with
    | nil => rw [hl] at this; cases this
    | cons a l => rfl
  refine ⟨(torMeans obs n, (List.range n).map fun f => mean (lapList obs f)), ?_⟩
  unfold torsionsAndLaplacians
  rw [if_neg (by simpa using hlen), hobs]
  simp only
  rw [if_neg]
  simp only [List.any_eq_true, List.mem_range, not_exists, not_and]
  intro f hf
  simp [hne f hf]

/-- **C17 scoring path (b), hypotheses on the kernels only.** `r < n ≤ L·r`, non-constant prefitting kernels of
the right sizes, every feature in some prefitting lattice; the importance scores the model computes from those
kernels are strictly positive (what finding F-C17-a excludes) and `argsort` sorts them in descending order.
Then the final Crystals structure exists, has `L` lattices of exactly `r` features, and places every feature. -/
theorem crystals_from_kernels_structure_of_kernels (argsort : List Rat → List Nat) (n L r : Nat)
    (lattices : List (List Nat)) (kernels : List (List Rat)) (fuel : Nat)
    (hrn : r < n) (hn : n ≤ L * r)
    (hlen : lattices.length = kernels.length)
    (hk : ∀ p ∈ lattices.zip kernels, p.2.length = 2 ^ p.1.length ∧ NonConstant p.2)
    (hcov : ∀ f, f < n → ∃ lat ∈ lattices, f ∈ lat)
    (hscore : ∀ tl, torsionsAndLaplacians lattices kernels n = .ok tl →
      (∀ s ∈ importanceScores n tl, 0 < s) ∧ (argsort (importanceScores n tl)).Perm (List.range n) ∧
      sortedDesc (importanceScores n tl) (argsort (importanceScores n tl)) = true) :
    ∃ lats cap, crystalsFromKernels argsort n L r lattices kernels fuel = .ok (lats, cap) ∧ lats.length = L ∧
      (∀ l ∈ lats, l.length = r) ∧ ∀ f, f < n → ∃ l ∈ lats, f ∈ l := by
  obtain ⟨tl, htl⟩ := torsionsAndLaplacians_ok lattices kernels n hlen hk hcov
  obtain ⟨h1, h2, h3⟩ := hscore tl htl
  exact crystals_from_kernels_structure argsort n L r lattices kernels fuel hrn hn tl htl h1 h2 h3

/-- non-vacuity of `torsionsAndLaplacians_ok` / `crystals_from_kernels_structure_of_kernels`: the kernels of the
example below are non-constant and of size `2 ^ 2`; the cover contains every feature `< 3`. -/
example : NonConstant [0, 1, 2, 5] ∧ NonConstant [0, 1/8, 1, 1] ∧ NonConstant [1, 0, 0, 1] ∧
    (∀ f, f < 3 → ∃ lat ∈ [[0, 1], [1, 2], [0, 2]], f ∈ lat) :=
  ⟨⟨0, by simp, 1, by simp, by norm_num⟩, ⟨0, by simp, 1, by simp, by norm_num⟩,
   ⟨1, by simp, 0, by simp, by norm_num⟩, by decide⟩

/-- non-vacuity of `crystals_from_kernels_structure`: 3 features, cover `[[0,1],[1,2],[0,2]]`, non-constant
kernels, importance scores `314/25, 2669/400, 161/16` (all positive), `argsort = [0, 2, 1]`; 2 lattices of rank 2. -/
example : torsionsAndLaplacians [[0, 1], [1, 2], [0, 2]] [[0, 1, 2, 5], [0, 1/8, 1, 1], [1, 0, 0, 1]] 3 =
      .ok ([[0, 4/25, 4], [4/25, 0, 1/64], [4, 1/64, 0]], [7/5, 693/640, 129/128]) ∧
    importanceScores 3 ([[0, 4/25, 4], [4/25, 0, 1/64], [4, 1/64, 0]], [7/5, 693/640, 129/128]) =
      [314/25, 2669/400, 161/16] ∧
    sortedDesc [314/25, 2669/400, 161/16] [0, 2, 1] = true ∧
    crystalsFromKernels (fun _ => [0, 2, 1]) 3 2 2 [[0, 1], [1, 2], [0, 2]]
      [[0, 1, 2, 5], [0, 1/8, 1, 1], [1, 0, 0, 1]] = .ok ([[1, 2], [0, 2]], false) := by decide +kernel

/-- **F-C17-b and F-C17-a reproduced through the modelled scoring path** (counter-witnesses for the two
hypotheses): (1) one constant prefitting kernel — the scoring is an error value (`0/0`); (2) a feature that no
prefitting lattice contains — `np.mean([])`; (3) kernels that do not depend on feature 2 (non-constant, scores
computed): its importance score is exactly `0` and `_get_final_crystal_lattices` fails in the use allocation. -/
theorem scoring_path_findings_witness :
    torsionsAndLaplacians [[0, 1], [1, 2], [0, 2]] [[0, 1, 2, 5], [3, 3, 3, 3], [1, 0, 0, 1]] 3 = .error .valueError ∧
    torsionsAndLaplacians [[0, 1]] [[0, 1, 2, 5]] 3 = .error .valueError ∧
    (torsionsAndLaplacians [[0, 1], [1, 2], [0, 2]] [[0, 1, 2, 5], [0, 0, 1, 1], [0, 0, 1, 1]] 3).toBool = true ∧
    crystalsFromKernels (fun _ => [0, 1, 2]) 3 2 2 [[0, 1], [1, 2], [0, 2]]
      [[0, 1, 2, 5], [0, 0, 1, 1], [0, 0, 1, 1]] = .error .valueError := by decide +kernel

/-! ## (c) determinism -/

/-- **C17 scoring path (c): congruence.**  Equal configuration, equal prefitting lattices and equal prefitting
kernels give the same final Crystals structure (`_get_final_crystal_lattices` draws nothing). -/
theorem crystals_from_kernels_congr (argsort : List Rat → List Nat) (n n' L L' r r' : Nat)
    (lattices lattices' : List (List Nat)) (kernels kernels' : List (List Rat)) (fuel fuel' : Nat)
    (hn : n = n') (hL : L = L') (hr : r = r') (hl : lattices = lattices') (hk : kernels = kernels')
    (hf : fuel = fuel') :
    crystalsFromKernels argsort n L r lattices kernels fuel =
      crystalsFromKernels argsort n' L' r' lattices' kernels' fuel' := by
  subst hn; subst hL; subst hr; subst hl; subst hk; subst hf; rfl

variable {Seed : Type}

/-- the final Crystals lattices of a configuration with `random_seed = seed`: `prefit seed cfg` = the
prefitting lattices (all-pairs cover drawn with that seed) and the kernels of the prefitting model trained with
that seed — the training itself is outside the model, a parameter -/
def crystalsOfPrefit (argsort : List Rat → List Nat)
    (prefit : Seed → Tfl.C17.EnsCfg → List (List Nat) × List (List Rat)) (cfg : Tfl.C17.EnsCfg) (seed : Seed) :
    Except Err (List (List Nat) × Bool) :=
  crystalsFromKernels argsort cfg.n cfg.L cfg.r (prefit seed cfg).1 (prefit seed cfg).2 cfg.fuel

/-- **C17 scoring path (c): the seed reaches the structure ONLY through the prefitting lattices and kernels.**
Two seeds (or two training procedures) that yield the same prefitting lattices and kernels yield the same final
structure; in particular the structure is a function of `(cfg, seed)`. -/
theorem crystals_depends_on_kernels_only (argsort : List Rat → List Nat)
    (prefit prefit' : Seed → Tfl.C17.EnsCfg → List (List Nat) × List (List Rat)) (cfg : Tfl.C17.EnsCfg)
    (seed seed' : Seed) (h : prefit seed cfg = prefit' seed' cfg) :
    crystalsOfPrefit argsort prefit cfg seed = crystalsOfPrefit argsort prefit' cfg seed' := by
  unfold crystalsOfPrefit; rw [h]

/-- non-vacuity of the determinism statements: two different "seeds" whose prefitting models have the same
lattices and kernels give the same (successfully computed) structure. -/
example :
    crystalsOfPrefit (Seed := Nat) (fun _ => [0, 2, 1])
      (fun _ _ => ([[0, 1], [1, 2], [0, 2]], [[0, 1, 2, 5], [0, 1/8, 1, 1], [1, 0, 0, 1]])) ⟨3, 2, 2, 1001⟩ 7 =
    crystalsOfPrefit (Seed := Nat) (fun _ => [0, 2, 1])
      (fun _ _ => ([[0, 1], [1, 2], [0, 2]], [[0, 1, 2, 5], [0, 1/8, 1, 1], [1, 0, 0, 1]])) ⟨3, 2, 2, 1001⟩ 8 ∧
    crystalsOfPrefit (Seed := Nat) (fun _ => [0, 2, 1])
      (fun _ _ => ([[0, 1], [1, 2], [0, 2]], [[0, 1, 2, 5], [0, 1/8, 1, 1], [1, 0, 0, 1]])) ⟨3, 2, 2, 1001⟩ 7 =
      .ok ([[1, 2], [0, 2]], false) :=
  ⟨crystals_depends_on_kernels_only _ _ _ _ 7 8 rfl, by decide +kernel⟩

end Tfl.C17Score
