import TflModel.Lemmas.PwlEval
import TflModel.Model.Categorical
/-!
# C05 — calibration layers evaluate exactly the function their weights describe

Model: `Tfl.PwlEval` (`compute_interpolation_weights`, `PWLCalibration.call`, `keypoints_inputs`,
`keypoints_outputs`; one unit column, one example) and `Tfl.Categorical.call`.
Units are independent kernel columns; a single input column is broadcast, i.e. every unit's column
is evaluated at the same `x` (the harness checks both input layouts on the real layer; see also C09).

Hypothesis `WF cfg kernel ws` = what `verify_hyperparameters`/`build` guarantee (≥ 2 strictly
increasing keypoints, `len(keypoints) - is_cyclic` kernel rows) and, for learned interior keypoints,
that `ws` (the softmax row) is a list of positive weights summing to one, one per piece.
Float underflow of the softmax (finding F-C05-a) violates exactly `wpos`.

Notation in the statements: `KI = keypointsInputs cfg ws`, `KO = keypointsOutputs cfg kernel`,
`n = cfg.inputKeypoints.length`.

`WF` is derived from acceptance by the layer constructor model plus the shapes `build()` creates in
Props/C05Accepted.lean (`built_wf`), where the headline theorems are restated for accepted layers.
All units of one example: `callUnits` (PWL) / `Categorical.callUnits`; `split_outputs`: `layerOutput`.
-/
namespace Tfl.C05
open Tfl Tfl.PwlEval Tfl.Poset

variable {cfg : Cfg} {kernel ws : List Rat}

/-! ## T1 — the output is the piecewise-linear interpolation through `(KI_j, KO_j)` -/

/-- `keypoints_inputs()` differ by the (positive) piece lengths -/
theorem keypointsInputs_succ (h : WF cfg kernel ws) {j : Nat} (hj : j + 1 < cfg.inputKeypoints.length) :
    getR (keypointsInputs cfg ws) (j + 1) - getR (keypointsInputs cfg ws) j = getR (lengths cfg ws) j ∧
      0 < getR (lengths cfg ws) j := by
  rw [getR_keypointsInputs h hj, getR_keypointsInputs h (by omega), kpAt_succ]
  refine ⟨by ring, getR_pos_of_mem (lengths_pos h) ?_⟩
  have := lengths_length h; omega

/-- **C05/T1, cumulative sums.** `keypoints_outputs()[j] = Σ_{i ≤ j} kernel_i` for every kernel row `j`. -/
theorem keypoints_outputs_are_cumulative_sums (cfg : Cfg) (kernel : List Rat) (j : Nat)
    (hj : j < kernel.length) : getR (keypointsOutputs cfg kernel) j = rsum (kernel.take (j + 1)) :=
  getR_keypointsOutputs_cumsum cfg kernel hj

/-- **C05/T1, fixed keypoints.** `keypoints_inputs()` reports exactly the configured keypoints. -/
theorem keypoints_inputs_fixed (h : WF cfg kernel ws) (hf : cfg.learned = false) :
    keypointsInputs cfg ws = cfg.inputKeypoints :=
  keypointsInputs_fixed h hf

/-- **C05/T1, linear in between.** For every well-formed layer, every piece `j` and every input `x`
between the `j`-th and `(j+1)`-th reported keypoint, the calibration is
`(1 - t)·KO_j + t·KO_{j+1}` with `t = (x - KI_j)/(KI_{j+1} - KI_j)`. -/
theorem pwl_linear_between (h : WF cfg kernel ws) (j : Nat) (hj : j + 1 < cfg.inputKeypoints.length)
    (x : Rat) (h1 : getR (keypointsInputs cfg ws) j ≤ x) (h2 : x ≤ getR (keypointsInputs cfg ws) (j + 1)) :
    calibrate cfg kernel ws x =
      (1 - (x - getR (keypointsInputs cfg ws) j) /
            (getR (keypointsInputs cfg ws) (j + 1) - getR (keypointsInputs cfg ws) j))
          * getR (keypointsOutputs cfg kernel) j
        + (x - getR (keypointsInputs cfg ws) j) /
            (getR (keypointsInputs cfg ws) (j + 1) - getR (keypointsInputs cfg ws) j)
          * getR (keypointsOutputs cfg kernel) (j + 1) := by
  have hl := lengths_length h
  rw [(keypointsInputs_succ h hj).1, getR_keypointsOutputs h hj, getR_keypointsOutputs h (by omega),
    calibrate_eq h]
  rw [getR_keypointsInputs h (by omega)] at h1 ⊢
  rw [getR_keypointsInputs h hj] at h2
  exact rampSum_piece (lengths_pos h) _ (biasAndHeights_eq h).2 j (by omega) h1 h2

/-- **C05/T1, constant on the left.** At and below the first keypoint the output is the first
cumulative sum (the bias). -/
theorem pwl_constant_left (h : WF cfg kernel ws) (x : Rat) (hx : x ≤ getR (keypointsInputs cfg ws) 0) :
    calibrate cfg kernel ws x = getR (keypointsOutputs cfg kernel) 0 := by
  have two := h.two
  rw [getR_keypointsInputs h (by omega), kpAt_zero] at hx
  rw [getR_keypointsOutputs h (by omega), calibrate_eq h, rampSum_left (lengths_pos h) _ hx, outAt_zero,
    add_zero]

/-- **C05/T1, constant on the right.** At and above the last keypoint the output is the last
cumulative sum. -/
theorem pwl_constant_right (h : WF cfg kernel ws) (x : Rat)
    (hx : getR (keypointsInputs cfg ws) (cfg.inputKeypoints.length - 1) ≤ x) :
    calibrate cfg kernel ws x = getR (keypointsOutputs cfg kernel) (cfg.inputKeypoints.length - 1) := by
  have two := h.two
  have hl := lengths_length h
  have hh := (biasAndHeights_eq h).2
  rw [getR_keypointsInputs h (by omega)] at hx
  unfold kpAt at hx
  rw [rsum_take_all _ (by omega)] at hx
  rw [getR_keypointsOutputs h (by omega), calibrate_eq h, rampSum_right (lengths_pos h) _ hh hx]
  unfold outAt
  rw [rsum_take_all _ (by omega)]

/-- **C05/T1, value at the keypoints.** The function passes through every reported point:
`f(KI_j) = KO_j` for all `j < n` — `keypoints_inputs()/keypoints_outputs()` are the nodes. -/
theorem pwl_value_at_keypoints (h : WF cfg kernel ws) (j : Nat) (hj : j < cfg.inputKeypoints.length) :
    calibrate cfg kernel ws (getR (keypointsInputs cfg ws) j) = getR (keypointsOutputs cfg kernel) j := by
  rcases Nat.lt_or_ge (j + 1) cfg.inputKeypoints.length with hlt | hge
  · have hs := keypointsInputs_succ h hlt
    rw [pwl_linear_between h j hlt _ le_rfl (by linarith [hs.1, hs.2])]
    simp
  · have e : j = cfg.inputKeypoints.length - 1 := by omega
    rw [e]; exact pwl_constant_right h _ le_rfl

/-- **C05/T1, the three cases are exhaustive**: every input is left of the first keypoint, right of
the last one, or on some piece — so `pwl_constant_left`, `pwl_constant_right`, `pwl_linear_between`
determine the output at EVERY input. -/
theorem pwl_cases_exhaustive (h : WF cfg kernel ws) (x : Rat) :
    x ≤ getR (keypointsInputs cfg ws) 0 ∨
    getR (keypointsInputs cfg ws) (cfg.inputKeypoints.length - 1) ≤ x ∨
    ∃ j, j + 1 < cfg.inputKeypoints.length ∧
      getR (keypointsInputs cfg ws) j ≤ x ∧ x ≤ getR (keypointsInputs cfg ws) (j + 1) := by
  have two := h.two
  have key : ∀ m, m + 1 < cfg.inputKeypoints.length → getR (keypointsInputs cfg ws) 0 ≤ x →
      x ≤ getR (keypointsInputs cfg ws) (m + 1) →
      ∃ j, j + 1 < cfg.inputKeypoints.length ∧
        getR (keypointsInputs cfg ws) j ≤ x ∧ x ≤ getR (keypointsInputs cfg ws) (j + 1) := by
    intro m
    induction m with
    | zero => intro hm h0 h1; exact ⟨0, hm, h0, h1⟩
    | succ m ih =>
      intro hm h0 h1
      rcases le_total x (getR (keypointsInputs cfg ws) (m + 1)) with hx | hx
      · exact ih (by omega) h0 hx
      · exact ⟨m + 1, hm, hx, h1⟩
  rcases le_total x (getR (keypointsInputs cfg ws) 0) with h0 | h0
  · exact Or.inl h0
  rcases le_total (getR (keypointsInputs cfg ws) (cfg.inputKeypoints.length - 1)) x with h1 | h1
  · exact Or.inr (Or.inl h1)
  · refine Or.inr (Or.inr (key (cfg.inputKeypoints.length - 2) (by omega) h0 ?_))
    have e : cfg.inputKeypoints.length - 2 + 1 = cfg.inputKeypoints.length - 1 := by omega
    rw [e]; exact h1

/-- **C05/T1, cyclic.** With `is_cyclic` the first and the last reported output coincide, hence the
function takes the same value at (and beyond) both ends of the keypoint range. -/
theorem pwl_cyclic_equal_ends (h : WF cfg kernel ws) (hc : cfg.isCyclic = true) :
    getR (keypointsOutputs cfg kernel) (cfg.inputKeypoints.length - 1) = getR (keypointsOutputs cfg kernel) 0 ∧
    ∀ x y, x ≤ getR (keypointsInputs cfg ws) 0 →
      getR (keypointsInputs cfg ws) (cfg.inputKeypoints.length - 1) ≤ y →
      calibrate cfg kernel ws x = calibrate cfg kernel ws y := by
  have two := h.two
  have hl := lengths_length h
  have hh := (biasAndHeights_eq h).2
  have e : getR (keypointsOutputs cfg kernel) (cfg.inputKeypoints.length - 1)
      = getR (keypointsOutputs cfg kernel) 0 := by
    rw [getR_keypointsOutputs h (by omega), getR_keypointsOutputs h (by omega)]
    unfold outAt
    rw [rsum_take_all _ (by omega), rsum_heights_cyclic cfg kernel hc]
    simp [rsum]
  refine ⟨e, fun x y hx hy => ?_⟩
  rw [pwl_constant_left h x hx, pwl_constant_right h y hy, e]

/-! ## T2 — the missing path -/

/-- **C05/T2, general blend** (`is_missing` tensor given). -/
theorem call_is_missing_blend (cfg : Cfg) (kernel ws : List Rat) (mo x m : Rat)
    (hi : cfg.imputeMissing = true) :
    call cfg kernel ws mo x (some m) = .ok (m * mo + (1 - m) * calibrate cfg kernel ws x) := by
  simp [call, hi]

/-- **C05/T2.** An input flagged missing (`is_missing = 1`) returns the missing output, whatever
the kernel and the input. -/
theorem call_flagged_missing (cfg : Cfg) (kernel ws : List Rat) (mo x : Rat)
    (hi : cfg.imputeMissing = true) : call cfg kernel ws mo x (some 1) = .ok mo := by
  simp [call, hi]

/-- **C05/T2.** An input flagged present (`is_missing = 0`) returns the calibration. -/
theorem call_flagged_present (cfg : Cfg) (kernel ws : List Rat) (mo x : Rat)
    (hi : cfg.imputeMissing = true) :
    call cfg kernel ws mo x (some 0) = .ok (calibrate cfg kernel ws x) := by
  simp [call, hi]

/-- **C05/T2.** Without an `is_missing` tensor, an input equal to `missing_input_value` returns the
missing output. -/
theorem call_missing_input_value (cfg : Cfg) (kernel ws : List Rat) (mo v : Rat)
    (hi : cfg.imputeMissing = true) (hv : cfg.missingInputValue = some v) :
    call cfg kernel ws mo v none = .ok mo := by
  simp [call, hi, hv]

/-- **C05/T2.** Any other input is calibrated. -/
theorem call_not_missing_input_value (cfg : Cfg) (kernel ws : List Rat) (mo v x : Rat)
    (hi : cfg.imputeMissing = true) (hv : cfg.missingInputValue = some v) (hx : x ≠ v) :
    call cfg kernel ws mo x none = .ok (calibrate cfg kernel ws x) := by
  simp [call, hi, hv, hx]

/-- **C05/T2.** Without `impute_missing` the call is the calibration. -/
theorem call_no_impute (cfg : Cfg) (kernel ws : List Rat) (mo x : Rat)
    (hi : cfg.imputeMissing = false) :
    call cfg kernel ws mo x none = .ok (calibrate cfg kernel ws x) := by
  simp [call, hi]

/-! ## units: broadcast of a single input column, per-unit columns -/

/-- **C05, broadcast.** A single input column feeds every unit: unit `u`'s output is `call` on
unit `u`'s own kernel column / softmax row / missing output at the SAME input (and the same
`is_missing` flag). -/
theorem callUnits_broadcast (cfg : Cfg) (kernels wss : List (List Rat)) (mouts : List Rat) (x : Rat)
    (m : Option Rat) :
    callUnits cfg kernels wss mouts [x] (m.map (fun v => [v])) =
      (List.range kernels.length).mapM (fun u =>
        call cfg (kernels.getD u []) (wss.getD u []) (getR mouts u) x m) := by
  cases m <;> simp [callUnits, getR]

/-- **C05, per-unit inputs.** With one input column per unit, unit `u` is evaluated at column `u`. -/
theorem callUnits_per_unit (cfg : Cfg) (kernels wss : List (List Rat)) (mouts xs : List Rat)
    (h : xs.length = kernels.length) (h1 : xs.length ≠ 1) :
    callUnits cfg kernels wss mouts xs none =
      (List.range kernels.length).mapM (fun u =>
        call cfg (kernels.getD u []) (wss.getD u []) (getR mouts u) (getR xs u) none) := by
  have h1' : kernels.length ≠ 1 := h ▸ h1
  simp [callUnits, h, h1']

/-- **C05, per-unit inputs, missing path.** With one input column per unit and ANY `is_missing`
argument (absent, or a tensor of the shape of the inputs), unit `u` is evaluated at input column `u`
with `is_missing` column `u` — `callUnits_per_unit` is the case `ms = none`. -/
theorem callUnits_per_unit_missing (cfg : Cfg) (kernels wss : List (List Rat)) (mouts xs : List Rat)
    (ms : Option (List Rat)) (h : xs.length = kernels.length) (h1 : xs.length ≠ 1)
    (hm : ∀ m, ms = some m → m.length = xs.length) :
    callUnits cfg kernels wss mouts xs ms =
      (List.range kernels.length).mapM (fun u =>
        call cfg (kernels.getD u []) (wss.getD u []) (getR mouts u) (getR xs u)
          (ms.map (fun m => getR m u))) := by
  have h1' : kernels.length ≠ 1 := h ▸ h1
  cases ms with
  | none => simp [callUnits, h, h1']
  | some m =>
    have := hm m rfl
    simp [callUnits, h, h1', this]

/-- an `is_missing` tensor whose row has another length than the input row is rejected -/
theorem callUnits_is_missing_shape (cfg : Cfg) (kernels wss : List (List Rat)) (mouts xs m : List Rat)
    (hm : m.length ≠ xs.length) : callUnits cfg kernels wss mouts xs (some m) = .error .valueError := by
  unfold callUnits
  split
  · rfl
  · have : (m.length != xs.length) = true := by simpa using hm
    simp only [this, if_true]

/-- what a successful `mapM` over `range n` returned -/
theorem mapM_range_ok {f : Nat → Except Err Rat} {n : Nat} {ys : List Rat}
    (h : (List.range n).mapM f = .ok ys) : ys.length = n ∧ ∀ u, u < n → f u = .ok (getR ys u) := by
  induction n generalizing ys with
  | zero =>
    simp only [List.range_zero, List.mapM_nil, pure, Except.pure, Except.ok.injEq] at h
    subst h; exact ⟨rfl, fun u hu => absurd hu (by omega)⟩
  | succ n ih =>
    rw [List.range_succ, List.mapM_append] at h
    simp only [bind, Except.bind] at h
    split at h
    · cases h
    · rename_i zs hzs
      obtain ⟨hl, hz⟩ := ih hzs
      simp only [List.mapM_cons, List.mapM_nil, bind, Except.bind, pure, Except.pure] at h
      cases hfn : f n with
      | error e => rw [hfn] at h; cases h
      | ok v =>
        rw [hfn] at h
        simp only [Except.ok.injEq] at h
        subst h
        refine ⟨by simp [hl], fun u hu => ?_⟩
        rcases Nat.lt_or_ge u n with hlt | hge
        · rw [hz u hlt]; congr 1
          unfold getR
          rw [List.getD_eq_getElem?_getD, List.getD_eq_getElem?_getD, List.getElem?_append_left (by omega)]
        · have e : u = n := by omega
          subst e
          rw [hfn]; congr 1
          unfold getR
          rw [List.getD_eq_getElem?_getD, List.getElem?_append_right (by omega)]
          simp [hl]

/-- **C05, every unit of a successful layer call.** Whenever `PWLCalibration.call` returns for an
example (single broadcast column or one column per unit, with or without `is_missing`), there is one
output per unit and output `u` is `call` on unit `u`'s OWN kernel column / softmax row / missing output
at unit `u`'s input — so every one-unit theorem of this file (T1, T2, T5) applies to each output of
the multi-unit layer. -/
theorem callUnits_entries (cfg : Cfg) (kernels wss : List (List Rat)) (mouts xs : List Rat)
    (ms : Option (List Rat)) (ys : List Rat) (h : callUnits cfg kernels wss mouts xs ms = .ok ys) :
    ys.length = kernels.length ∧ ∀ u, u < kernels.length →
      call cfg (kernels.getD u []) (wss.getD u []) (getR mouts u)
        (getR xs (if xs.length = 1 then 0 else u)) (ms.map (fun m => getR m (if xs.length = 1 then 0 else u)))
        = .ok (getR ys u) := by
  unfold callUnits at h
  split at h
  · cases h
  · cases ms with
    | none => exact mapM_range_ok h
    | some m =>
      by_cases hc : (m.length != xs.length) = true
      · simp only [hc, if_true] at h; cases h
      · simp only [hc] at h; exact mapM_range_ok h

/-- **C05, `split_outputs`.** With `units > 1 and split_outputs` the layer returns the list of the
`units` columns of its `(batch, units)` result — for one example: `units` one-entry rows, row `u`
holding output `u`; concatenated they are the unsplit row. Otherwise (also for a single unit) the row
itself is returned. -/
theorem split_outputs_columns (units : Nat) (split : Bool) (ys : List Rat) :
    (layerOutput units split ys).flatten = ys ∧
    ((units > 1 ∧ split = true) → (layerOutput units split ys).length = ys.length ∧
      ∀ u, u < ys.length → (layerOutput units split ys).getD u [] = [getR ys u]) ∧
    (¬ (units > 1 ∧ split = true) → layerOutput units split ys = [ys]) := by
  unfold layerOutput splitOutputs
  refine ⟨?_, fun h => ?_, fun h => by rw [if_neg h]⟩
  · split_ifs
    · induction ys with
      | nil => rfl
      | cons a t ih => simpa using ih
    · simp
  · rw [if_pos h]
    refine ⟨by simp, fun u hu => ?_⟩
    unfold getR
    rw [List.getD_eq_getElem?_getD, List.getD_eq_getElem?_getD, List.getElem?_map,
      List.getElem?_eq_getElem hu]
    rfl

/-! ## T3 — learned interior keypoints stay ordered between the fixed ends -/

/-- **C05/T3.** For ANY positive weights summing to one (in particular the softmax of any finite
logits, computed exactly) the keypoints `keypoints_inputs()` are strictly increasing, start at the
first and end at the last configured keypoint, and all lie between the two. (Stated for every
well-formed layer; for `learned_interior` the hypotheses on the weights are `WF.wpos/wsum/wlen`.) -/
theorem learned_keypoints_ordered (h : WF cfg kernel ws) :
    getR (keypointsInputs cfg ws) 0 = cfg.inputKeypoints.headD 0 ∧
    getR (keypointsInputs cfg ws) (cfg.inputKeypoints.length - 1) = cfg.inputKeypoints.getLastD 0 ∧
    (∀ j, j + 1 < cfg.inputKeypoints.length →
      getR (keypointsInputs cfg ws) j < getR (keypointsInputs cfg ws) (j + 1)) ∧
    (∀ j, j < cfg.inputKeypoints.length →
      cfg.inputKeypoints.headD 0 ≤ getR (keypointsInputs cfg ws) j ∧
      getR (keypointsInputs cfg ws) j ≤ cfg.inputKeypoints.getLastD 0) ∧
    (keypointsInputs cfg ws).length = cfg.inputKeypoints.length := by
  have two := h.two
  have hl := lengths_length h
  have hp := lengths_pos h
  refine ⟨?_, ?_, ?_, ?_, length_keypointsInputs h⟩
  · rw [getR_keypointsInputs h (by omega), kpAt_zero]; rfl
  · rw [getR_keypointsInputs h (by omega), ← kpMin_add_lengths h]
    unfold kpAt; rw [rsum_take_all _ (by omega)]
  · intro j hj
    have := keypointsInputs_succ h hj
    linarith [this.1, this.2]
  · intro j hj
    rw [getR_keypointsInputs h hj, ← kpMin_add_lengths h]
    refine ⟨kpAt_ge hp _ j, ?_⟩
    unfold kpAt
    linarith [rsum_take_le hp j]

/-- **Counter-witness for finding F-C05-a** (why `WF.wpos` is needed): when the float32 softmax
underflows, a weight is exactly `0`; the model then reports a collapsed (not strictly increasing)
keypoint pair, a zero-length piece — where the real layer computes `0/0 = NaN`. -/
theorem underflowed_weight_collapses_keypoints :
    keypointsInputs ⟨[0, 1, 4], true, false, false, none⟩ [1, 0] = [0, 4, 4] ∧
    lengths ⟨[0, 1, 4], true, false, false, none⟩ [1, 0] = [4, 0] := by
  decide +kernel

/-! ## T4 — CategoricalCalibration: category `i` ↦ row `i`, default ↦ last bucket -/

/-- **C05/T4.** A category in range that is not the default value maps to its kernel row. -/
theorem category_maps_to_row (k : List Rat) (default : Option Int) (x : Int) (h0 : 0 ≤ x)
    (h1 : x < k.length) (hd : default ≠ some x) : Categorical.call k default x = getV k x.toNat := by
  unfold Categorical.call
  cases default with
  | none => simp [h0, h1]
  | some d =>
    have : x ≠ d := fun e => hd (by rw [e])
    simp [this, h0, h1]

/-- **C05/T4.** `default_input_value` maps to the last bucket `num_buckets - 1`. -/
theorem default_maps_to_last_bucket (k : List Rat) (d : Int) (hk : k ≠ []) :
    Categorical.call k (some d) d = getV k (k.length - 1) := by
  unfold Categorical.call
  have hpos : 0 < k.length := List.length_pos_iff.mpr hk
  have h0 : (0 : Int) ≤ (k.length : Int) - 1 := by omega
  have e : ((k.length : Int) - 1).toNat = k.length - 1 := by omega
  simp [e, hk]

/-- **C05/T4/T5 (categorical).** If every kernel row lies in `[lo, hi]`, so does the calibration of
every category in range and of the default value. -/
theorem categorical_bounded (k : List Rat) (default : Option Int) (lo hi : Rat)
    (hb : ∀ i, i < k.length → lo ≤ getV k i ∧ getV k i ≤ hi) (x : Int)
    (hx : (0 ≤ x ∧ x < k.length) ∨ (default = some x ∧ k ≠ [])) :
    lo ≤ Categorical.call k default x ∧ Categorical.call k default x ≤ hi := by
  by_cases hd : default = some x
  · have hk : k ≠ [] := by
      rcases hx with hx | hx
      · intro e; rw [e] at hx; simp at hx; omega
      · exact hx.2
    rw [hd, default_maps_to_last_bucket k x hk]
    exact hb _ (by have := List.length_pos_iff.mpr hk; omega)
  · rcases hx with hx | hx
    · rw [category_maps_to_row k default x hx.1 hx.2 hd]
      exact hb _ (by omega)
    · exact absurd hx.1 hd

/-- a non-negative category that is not the default value is looked up directly (an index beyond the
last bucket reads the 0 of an all-zero one-hot row, as `getV` does) -/
theorem category_lookup_nat (k : List Rat) (default : Option Int) (i : Nat) (hd : default ≠ some (i : Int)) :
    Categorical.call k default (i : Int) = getV k i := by
  rcases Nat.lt_or_ge i k.length with hlt | hge
  · rw [category_maps_to_row k default i (by omega) (by exact_mod_cast hlt) hd]; simp
  · unfold Categorical.call
    have hne : ¬ ((i : Int) < (k.length : Int)) := by omega
    have hg : getV k i = 0 := by unfold getV; rw [List.getD_eq_getElem?_getD, List.getElem?_eq_none hge]; rfl
    cases default with
    | none => simp [hne, hg]
    | some d =>
      have : (i : Int) ≠ d := fun e => hd (by rw [e])
      simp [this, hne, hg]

/-- **C05/T5 (categorical), monotone along the order.** If the category values (kernel rows) satisfy a
set of ordered pairs `(i, j)` — `kernel[i] ≤ kernel[j]`, what `CategoricalCalibrationConstraints`
establishes for the layer's `monotonicities` — then so does the calibration function: `f(i) ≤ f(j)` for
EVERY listed pair, as long as neither category is the `default_input_value` (which is diverted to the
last bucket, `default_maps_to_last_bucket`). -/
theorem categorical_monotone_pairs (k : List Rat) (default : Option Int) (cs : Pairs)
    (hf : Feasible cs k) (hd : ∀ p ∈ cs, default ≠ some (p.1 : Int) ∧ default ≠ some (p.2 : Int)) :
    ∀ p ∈ cs, Categorical.call k default (p.1 : Int) ≤ Categorical.call k default (p.2 : Int) := by
  intro p hp
  rw [category_lookup_nat k default p.1 (hd p hp).1, category_lookup_nat k default p.2 (hd p hp).2]
  exact hf p hp

/-- the usual configurations: no default value, or a negative one (e.g. `-1`) -/
theorem categorical_monotone_pairs_default_outside (k : List Rat) (default : Option Int) (cs : Pairs)
    (hf : Feasible cs k) (hd : ∀ d, default = some d → d < 0) :
    ∀ p ∈ cs, Categorical.call k default (p.1 : Int) ≤ Categorical.call k default (p.2 : Int) := by
  apply categorical_monotone_pairs k default cs hf
  intro p _
  constructor <;> intro e <;> have := hd _ e <;> omega

/-- **C05/T4, units (broadcast).** A single category column feeds every unit: unit `u` looks the
category up in its OWN kernel column. -/
theorem categorical_units_broadcast (kernels : List (List Rat)) (default : Option Int) (x : Int) :
    Categorical.callUnits kernels default [x] =
      .ok ((List.range kernels.length).map (fun u => Categorical.call (kernels.getD u []) default x)) := by
  simp [Categorical.callUnits]

/-- **C05/T4, units (one column per unit).** Unit `u` looks up category column `u` in kernel column `u`. -/
theorem categorical_units_per_unit (kernels : List (List Rat)) (default : Option Int) (xs : List Int)
    (h : xs.length = kernels.length) (h1 : xs.length ≠ 1) :
    Categorical.callUnits kernels default xs =
      .ok ((List.range kernels.length).map (fun u =>
        Categorical.call (kernels.getD u []) default (xs.getD u 0))) := by
  have h1' : kernels.length ≠ 1 := h ▸ h1
  simp [Categorical.callUnits, h, h1']

/-! ## T5 — monotone / bounded keypoint outputs give a monotone / bounded function -/

theorem heights_eq_diff (h : WF cfg kernel ws) {j : Nat} (hj : j + 1 < cfg.inputKeypoints.length) :
    getR (heights cfg kernel) j =
      getR (keypointsOutputs cfg kernel) (j + 1) - getR (keypointsOutputs cfg kernel) j := by
  rw [getR_keypointsOutputs h hj, getR_keypointsOutputs h (by omega), outAt_succ]; ring

/-- **C05/T5, monotone.** If the reported outputs are non-decreasing along the keypoints, the
calibration is non-decreasing: for ALL `x ≤ y` (on, between and outside keypoints). -/
theorem pwl_monotone_increasing (h : WF cfg kernel ws)
    (hm : ∀ j, j + 1 < cfg.inputKeypoints.length →
      getR (keypointsOutputs cfg kernel) j ≤ getR (keypointsOutputs cfg kernel) (j + 1))
    (x y : Rat) (hxy : x ≤ y) : calibrate cfg kernel ws x ≤ calibrate cfg kernel ws y := by
  have hl := lengths_length h
  have hh := (biasAndHeights_eq h).2
  rw [calibrate_eq h, calibrate_eq h]
  have : ∀ j, 0 ≤ getR (heights cfg kernel) j := by
    intro j
    rcases Nat.lt_or_ge (j + 1) cfg.inputKeypoints.length with hlt | hge
    · rw [heights_eq_diff h hlt]; linarith [hm j hlt]
    · rw [getR_of_le (by omega)]
  linarith [rampSum_mono (lengths_pos h) _ this hxy (k := kpMin cfg)]

/-- **C05/T5, monotone (decreasing).** Non-increasing reported outputs give a non-increasing function. -/
theorem pwl_monotone_decreasing (h : WF cfg kernel ws)
    (hm : ∀ j, j + 1 < cfg.inputKeypoints.length →
      getR (keypointsOutputs cfg kernel) (j + 1) ≤ getR (keypointsOutputs cfg kernel) j)
    (x y : Rat) (hxy : x ≤ y) : calibrate cfg kernel ws y ≤ calibrate cfg kernel ws x := by
  have hl := lengths_length h
  have hh := (biasAndHeights_eq h).2
  rw [calibrate_eq h, calibrate_eq h]
  have : ∀ j, getR (heights cfg kernel) j ≤ 0 := by
    intro j
    rcases Nat.lt_or_ge (j + 1) cfg.inputKeypoints.length with hlt | hge
    · rw [heights_eq_diff h hlt]; linarith [hm j hlt]
    · rw [getR_of_le (by omega)]
  linarith [rampSum_anti (lengths_pos h) _ this hxy (k := kpMin cfg)]

/-- **C05/T5, bounded.** If every reported output lies in `[lo, hi]`, the calibration lies in
`[lo, hi]` at EVERY input. -/
theorem pwl_bounded (h : WF cfg kernel ws) (lo hi : Rat)
    (hb : ∀ j, j < cfg.inputKeypoints.length →
      lo ≤ getR (keypointsOutputs cfg kernel) j ∧ getR (keypointsOutputs cfg kernel) j ≤ hi)
    (x : Rat) : lo ≤ calibrate cfg kernel ws x ∧ calibrate cfg kernel ws x ≤ hi := by
  have hl := lengths_length h
  rw [calibrate_eq h]
  refine rampSum_bounded (lengths_pos h) _ (biasAndHeights_eq h).2 (fun j hj => ?_)
  rw [← getR_keypointsOutputs h (by omega)]
  exact hb j (by omega)

/-- **C05/T5, bounded, whole call.** With the missing output inside `[lo, hi]` too and a blend
factor in `[0, 1]` (`0`/`1` for flags), every successful `call` result lies in `[lo, hi]`. -/
theorem call_bounded (h : WF cfg kernel ws) (lo hi mo : Rat) (hmo : lo ≤ mo ∧ mo ≤ hi)
    (hb : ∀ j, j < cfg.inputKeypoints.length →
      lo ≤ getR (keypointsOutputs cfg kernel) j ∧ getR (keypointsOutputs cfg kernel) j ≤ hi)
    (x : Rat) (isMissing : Option Rat) (hm : ∀ m, isMissing = some m → 0 ≤ m ∧ m ≤ 1) (v : Rat)
    (hc : call cfg kernel ws mo x isMissing = .ok v) : lo ≤ v ∧ v ≤ hi := by
  have hcal := pwl_bounded h lo hi hb x
  have blend : ∀ m : Rat, 0 ≤ m → m ≤ 1 →
      lo ≤ m * mo + (1 - m) * calibrate cfg kernel ws x ∧ m * mo + (1 - m) * calibrate cfg kernel ws x ≤ hi := by
    intro m m0 m1
    constructor
    · nlinarith [mul_nonneg m0 (sub_nonneg.mpr hmo.1), mul_nonneg (sub_nonneg.mpr m1) (sub_nonneg.mpr hcal.1)]
    · nlinarith [mul_nonneg m0 (sub_nonneg.mpr hmo.2), mul_nonneg (sub_nonneg.mpr m1) (sub_nonneg.mpr hcal.2)]
  unfold call at hc
  split_ifs at hc with h1 h2
  · cases isMissing with
    | some m =>
      simp only [Except.ok.injEq] at hc
      rw [← hc]; exact blend m (hm m rfl).1 (hm m rfl).2
    | none =>
      cases hv : cfg.missingInputValue with
      | none => simp [hv] at hc
      | some mv =>
        simp only [hv, Except.ok.injEq] at hc
        rw [← hc]
        by_cases hx : x = mv
        · simpa [hx] using blend 1 (by norm_num) le_rfl
        · simpa [hx] using blend 0 le_rfl (by norm_num)
  · simp only [Except.ok.injEq] at hc
    rw [← hc]; exact hcal

/-! ## non-vacuity: concrete layers meet the hypotheses and take non-trivial values -/

/-- fixed keypoints `[0,1,3,4]`, kernel `[1,2,-1,1/2]` (outputs `1,3,2,5/2`), missing value `-1` -/
def exCfg : Cfg := ⟨[0, 1, 3, 4], false, false, true, some (-1)⟩
example : WF exCfg [1, 2, -1, 1/2] [] :=
  ⟨by decide, by norm_num [exCfg, StrictIncr], by simp [exCfg], by simp [exCfg], by simp [exCfg], by simp [exCfg]⟩
example : keypointsOutputs exCfg [1, 2, -1, 1/2] = [1, 3, 2, 5/2] := by decide +kernel
example : keypointsInputs exCfg [] = [0, 1, 3, 4] := by decide +kernel
example : calibrate exCfg [1, 2, -1, 1/2] [] 2 = 5/2 := by decide +kernel
example : calibrate exCfg [1, 2, -1, 1/2] [] (-5) = 1 ∧ calibrate exCfg [1, 2, -1, 1/2] [] 9 = 5/2 := by
  decide +kernel
example : call exCfg [1, 2, -1, 1/2] [] 7 (-1) none = .ok 7 := by decide +kernel
example : call exCfg [1, 2, -1, 1/2] [] 7 (1/2) none = .ok 2 := by decide +kernel
/-- two units fed by one broadcast column, and by two columns -/
example : callUnits exCfg [[1, 2, -1, 1/2], [0, 1, 1, 1]] [] [7, 8] [2] none = .ok [5/2, 3/2] := by
  decide +kernel
example : callUnits exCfg [[1, 2, -1, 1/2], [0, 1, 1, 1]] [] [7, 8] [2, -1] none = .ok [5/2, 8] := by
  decide +kernel

/-- learned interior keypoints on `[0, 4]` with weights `1/4, 1/2, 1/4`, cyclic kernel `[1, 2, -1]` -/
def exLearned : Cfg := ⟨[0, 1, 3, 4], true, true, false, none⟩
example : WF exLearned [1, 2, -1] [1/4, 1/2, 1/4] :=
  ⟨by decide, by norm_num [exLearned, StrictIncr], by simp [exLearned], by simp [exLearned],
    (by intro _ w hw; simp at hw; rcases hw with rfl | rfl | rfl <;> norm_num),
    (by intro _; decide +kernel)⟩
example : keypointsInputs exLearned [1/4, 1/2, 1/4] = [0, 1, 3, 4] := by decide +kernel
example : keypointsOutputs exLearned [1, 2, -1] = [1, 3, 2, 1] := by decide +kernel
example : calibrate exLearned [1, 2, -1] [1/4, 1/2, 1/4] (7/2) = 3/2 := by decide +kernel
/-- a monotone, bounded instance for T5: outputs `0, 1, 1, 3` -/
example : keypointsOutputs exCfg [0, 1, 0, 2] = [0, 1, 1, 3] := by decide +kernel
/-- categorical: 3 buckets, default `-1` -/
example : Categorical.call [5, 6, 7] (some (-1)) 1 = 6 ∧ Categorical.call [5, 6, 7] (some (-1)) (-1) = 7 := by
  decide +kernel
/-- three buckets ordered by the pairs (0,1), (1,2): the kernel satisfies them, so does the function -/
example : feasibleB [(0, 1), (1, 2)] [5, 6, 7] = true := by decide +kernel
/-- two categorical units, one broadcast column / two columns; split into per-unit tensors -/
example : Categorical.callUnits [[5, 6, 7], [1, 2, 3]] (some (-1)) [1] = .ok [6, 2] ∧
    Categorical.callUnits [[5, 6, 7], [1, 2, 3]] (some (-1)) [2, -1] = .ok [7, 3] ∧
    layerOutput 2 true [7, 3] = [[7], [3]] ∧ layerOutput 1 true [7] = [[7]] := by decide +kernel
/-- per-unit inputs with an `is_missing` tensor: unit 0 present, unit 1 flagged missing -/
example : callUnits exCfg [[1, 2, -1, 1/2], [0, 1, 1, 1]] [] [7, 8] [2, 2] (some [0, 1]) = .ok [5/2, 8] := by
  decide +kernel

end Tfl.C05
