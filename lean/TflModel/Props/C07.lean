import TflModel.Lemmas.Kfl
/-!
# C07 — KroneckerFactoredLattice after its constraints gives monotone, bounded outputs

Model: `Tfl.Kfl` (`Model/Kfl.lean`), one unit and one example; units are independent blocks of the
`(lattice_sizes, units, dims, num_terms)` reshape (C09). Layout: `K` = terms → dims → vertices.

* `InR L clip x` — the points the property speaks about: every point when `clip_inputs`, in-range
  points otherwise (outside the range the layer extrapolates / drops to zero and is NOT monotone:
  that is outside the statement).
* The dims-th root of the bound projection is an arbitrary factor `r` with `rootOk` (`1 ≤ r` and
  `max(Π_d max|k_d|, 1) ≤ r^dims`); `RootsOk` bundles it with the shapes `verify_hyperparameters`
  and `build` guarantee (one column of `lattice_sizes` vertices per entry of `monotonicities`, one
  factor per term). The driver evaluates `rootOk` on the float the real code computed.
* Histories, part 1 (T2, T4): `ValidRun` = any sequence of `kernel.assign(kernel.constraint(kernel))` /
  `scale.assign(scale.constraint(scale))` from ANY starting state (i.e. after arbitrary raw updates
  of both variables, any signs, zeros) — a PURE constraint tail containing both calls
  (`validRun_iff_pure_constraint_run`).
* Histories, part 2 (T5, T6, last section): ALL runs, raw updates and constraint calls interleaved in any
  way (`RunValid`). There the property as quantified is false (F-C07-c, `property_all_orders_false`): the
  kernel projection orients every term by `sign(scale_t)` when it runs, and a later raw scale update to the
  opposite sign leaves that term decreasing. What holds, exactly (`sign_condition_tight`), is
  `layer_after_any_run`; the schedules Keras uses are covered (`keras_training_monotone_and_bounded`).
* `hlh` is `output_min ≤ output_max` (`verify_hyperparameters` rejects `min ≥ max`).
-/
namespace Tfl.C07
open Tfl Tfl.Kfl Tfl.Poset

theorem any_of_getD : ∀ (ms : List Bool) (d : Nat), ms.getD d false = true → ms.any id = true
  | [], _, h => by simp at h
  | m :: ms, 0, h => by simp at h; simp [h]
  | m :: ms, d + 1, h => by
    have := any_of_getD ms d (by simpa using h)
    simp [List.any_cons, this]

/-- T1: kernel ≥ 0 and `sign(scale_t)·k[·,d,t]` non-decreasing on the monotone dimensions
(`KernelOk`) ⇒ the output is non-decreasing in every monotone input `x_d`, for ALL pairs
(`xs` vs `xs[d := y]`, `xs_d ≤ y`), every scale sign pattern (zero-scale terms vanish), any
number of terms, any bias. -/
theorem output_monotone (L : Nat) (hL : 1 ≤ L) (clipI : Bool) (ms : List Bool) (d : Nat)
    (xs : List Rat) (y : Rat) (hm : ms.getD d false = true)
    (hx : ∀ x ∈ xs, InR L clipI x) (hy : InR L clipI y) (hxy : getR xs d ≤ y)
    (scale : List Rat) (K : List (List (List Rat))) (bias : Rat) (h : KernelOk L ms scale K) :
    eval L clipI K scale bias xs ≤ eval L clipI K scale bias (xs.set d y) :=
  eval_mono L hL clipI ms d xs y hm hx hy hxy scale K bias h

/-- T2: the kernel constraint and the scale constraint, applied in EITHER order, any number of
times, in any interleaving, from any starting kernel and scale, establish the premises of T1
and T3 — as soon as each has been applied at least once. (The kernel projection depends on the
scale only through its sign, which the scale projection never flips: `kernelOk_scaleConstraint`.) -/
theorem constraints_any_order_establish_premises (L : Nat) (ms : List Bool) (lo hi : Option Rat)
    (hlh : ∀ l h, lo = some l → hi = some h → l ≤ h) (st : State) (ops : List Op)
    (hv : ValidRun L ms lo hi st ops) (hK : HasConsK ops) (hS : Op.consS ∈ ops) :
    KOk L ms lo hi (runOps ms lo hi st ops) ∧ SOk lo hi (runOps ms lo hi st ops).scale :=
  ⟨run_kOk L ms lo hi hlh ops st hv (Or.inr hK), run_sOk L ms lo hi hlh ops st hv (Or.inr hS)⟩

/-- T2 for the order the kernel is constrained FIRST with the still unclipped scale — this is
`finalize_constraints()` -/
theorem finalize_constraints_establishes_premises (L : Nat) (ms : List Bool) (lo hi : Option Rat)
    (hlh : ∀ l h, lo = some l → hi = some h → l ≤ h) (st : State) (rs : List Rat)
    (hv : RootsOk L ms lo hi st.scale rs st.K) :
    KOk L ms lo hi (finalizeConstraints ms lo hi rs st) ∧ SOk lo hi (finalizeConstraints ms lo hi rs st).scale := by
  unfold finalizeConstraints
  exact constraints_any_order_establish_premises L ms lo hi hlh st _ ⟨hv, trivial⟩ ⟨rs, by simp⟩ (by simp)

/-- T2, persistence: once established, further constraint calls in any order keep the premises -/
theorem premises_persist (L : Nat) (ms : List Bool) (lo hi : Option Rat)
    (hlh : ∀ l h, lo = some l → hi = some h → l ≤ h) (st : State) (ops : List Op)
    (hv : ValidRun L ms lo hi st ops) (hK : KOk L ms lo hi st) (hS : SOk lo hi st.scale) :
    KOk L ms lo hi (runOps ms lo hi st ops) ∧ SOk lo hi (runOps ms lo hi st ops).scale :=
  ⟨run_kOk L ms lo hi hlh ops st hv (Or.inl hK), run_sOk L ms lo hi hlh ops st hv (Or.inl hS)⟩

/-- T3: bounds. Two-sided: `|Π_d interp_d| ≤ Π_d max|k_d| ≤ 1`, `|scale_t| ≤ (max-min)/2`, bias the
midpoint. One-sided: non-negative factors, sign-constrained scale, bias the bound. `hdims`: the input
has one coordinate per kernel dimension. -/
theorem output_bounded (L : Nat) (hL : 1 ≤ L) (clipI : Bool) (lo hi : Option Rat)
    (hlh : ∀ l h, lo = some l → hi = some h → l ≤ h) (xs : List Rat) (hx : ∀ x ∈ xs, InR L clipI x)
    (scale : List Rat) (K : List (List (List Rat))) (hdims : ∀ kt ∈ K, xs.length = kt.length)
    (hK : BoundOkK lo hi K) (hS : SOk lo hi scale) :
    (∀ l, lo = some l → l ≤ eval L clipI K scale (fixedBias lo hi) xs) ∧
    (∀ h, hi = some h → eval L clipI K scale (fixedBias lo hi) xs ≤ h) := by
  have hT : (0 : Rat) ≤ (K.length : Rat) := by exact_mod_cast Nat.zero_le _
  cases lo <;> cases hi
  · exact ⟨fun _ e => (by cases e), fun _ e => (by cases e)⟩
  · rename_i h
    refine ⟨fun _ e => (by cases e), fun h' e => ?_⟩
    cases e
    have hk : ∀ kt ∈ K, 0 ≤ termProd L clipI xs kt := fun kt hkt => termProd_nonneg L hL clipI xs kt hx (hK kt hkt)
    have := rsum_scaled_nonpos L clipI xs scale K hS hk
    have := div_nonpos_of_nonpos_of_nonneg this hT
    simp only [eval, fixedBias]; linarith
  · rename_i l
    refine ⟨fun l' e => ?_, fun _ e => (by cases e)⟩
    cases e
    have hk : ∀ kt ∈ K, 0 ≤ termProd L clipI xs kt := fun kt hkt => termProd_nonneg L hL clipI xs kt hx (hK kt hkt)
    have := rsum_scaled_nonneg L clipI xs scale K hS hk
    have := div_nonneg this hT
    simp only [eval, fixedBias]; linarith
  · rename_i l h
    have hk : ∀ kt ∈ K, |termProd L clipI xs kt| ≤ 1 := fun kt hkt =>
      le_trans (abs_termProd_le L hL clipI xs kt (hdims kt hkt) hx) (hK kt hkt)
    have := eval_two_sided L clipI xs l h (hlh l h rfl rfl) scale K hS hk
    simp only [fixedBias]
    exact ⟨fun l' e => (by cases e; exact this.1), fun h' e => (by cases e; exact this.2)⟩

/-- T4 (the property, for runs ending in a pure constraint tail that contains both calls; all other
orders: T6 `layer_after_any_run`): for EVERY configuration — any monotonicity subset including none, any bound
mode, any `lattice_sizes ≥ 1`, dims, number of terms, `clip_inputs` — and every finite kernel and
scale, after the layer's constraint objects have both been applied (any order, any repetition,
or `finalize_constraints()`), the output is non-decreasing in every monotone input and lies in
`[output_min, output_max]`, at every point the property speaks about. Unconditional since the guard
fix 6d3f016 (`kernelConstraint_ok` has no hypothesis on `monotonicities`). -/
theorem layer_monotone_and_bounded_after_constraints (L : Nat) (hL : 1 ≤ L) (clipI : Bool)
    (ms : List Bool) (lo hi : Option Rat) (hlh : ∀ l h, lo = some l → hi = some h → l ≤ h)
    (st : State) (ops : List Op) (hv : ValidRun L ms lo hi st ops) (hK : HasConsK ops) (hS : Op.consS ∈ ops)
    (xs : List Rat) (hx : ∀ x ∈ xs, InR L clipI x) :
    let fin := runOps ms lo hi st ops
    (∀ d y bias, ms.getD d false = true → InR L clipI y → getR xs d ≤ y →
      eval L clipI fin.K fin.scale bias xs ≤ eval L clipI fin.K fin.scale bias (xs.set d y)) ∧
    ((∀ kt ∈ fin.K, xs.length = kt.length) →
      (∀ l, lo = some l → l ≤ eval L clipI fin.K fin.scale (fixedBias lo hi) xs) ∧
      (∀ h, hi = some h → eval L clipI fin.K fin.scale (fixedBias lo hi) xs ≤ h)) := by
  intro fin
  obtain ⟨h1, h2⟩ := constraints_any_order_establish_premises L ms lo hi hlh st ops hv hK hS
  refine ⟨fun d y bias hm hy hxy => ?_, fun hdims => ?_⟩
  · have hany : ms.any id = true := any_of_getD ms d hm
    exact output_monotone L hL clipI ms d xs y hm hx hy hxy fin.scale fin.K bias (h1.1 hany)
  · exact output_bounded L hL clipI lo hi hlh xs hx fin.scale fin.K hdims h1.2 h2

/-- F-C07-a (fixed by 6d3f016), counter-witness on the model VARIANT with the old guard
`if self.num_constraint_dims:`: bounds [0,1], no monotone dimension, kernel 13 — the constraint
object returned the kernel unchanged and the layer outputs 7 ∉ [0, 1] after both constraints. -/
theorem old_guard_counter_witness :
    eval 2 false (kernelConstraintOld [false] (some 0) (some 1) [1] [13] [[[13, 13]]])
      (scaleConstraint (some 0) (some 1) [1]) (fixedBias (some 0) (some 1)) [0] = 7 := by
  decide +kernel

/-- the same input through the current constraint object (root factor 13): inside the bounds -/
example : eval 2 false (kernelConstraint [false] (some 0) (some 1) [1] [13] [[[13, 13]]])
      (scaleConstraint (some 0) (some 1) [1]) (fixedBias (some 0) (some 1)) [0] = 1 := by
  decide +kernel

/-! ### non-vacuity: a concrete mixed-sign, partly monotone, two-sided layer meets the hypotheses -/

/-- L = 3, dims = 2 (first monotone), 2 terms with scale `[3, -2]` (clipped to ±1/2 later), bounds [0,1] -/
def exK : List (List (List Rat)) := [[[1, 3, 2], [-1, 2, 0]], [[2, 1, 4], [0, 5, -3]]]
def exState : State := { K := exK, scale := [3, -2] }

example : ValidRun 3 [true, false] (some 0) (some 1) exState [.consS, .consK [3, 4], .consS] := by
  refine ⟨⟨⟨⟨rfl, ?_⟩, fun _ _ => ?_⟩, ⟨⟨rfl, ?_⟩, fun _ _ => ?_⟩, trivial⟩, trivial⟩
  · intro k hk; simp only [List.mem_cons, List.not_mem_nil, or_false] at hk; rcases hk with rfl | rfl <;> rfl
  · decide +kernel
  · intro k hk; simp only [List.mem_cons, List.not_mem_nil, or_false] at hk; rcases hk with rfl | rfl <;> rfl
  · decide +kernel

example : (runOps [true, false] (some 0) (some 1) exState [.consS, .consK [3, 4], .consS]).K
    = [[[1/3, 5/6, 5/6], [0, 2/3, 0]], [[5/8, 5/8, 5/8], [0, 5/4, 0]]] := by decide +kernel
example : (runOps [true, false] (some 0) (some 1) exState [.consS, .consK [3, 4], .consS]).scale = [1/2, -1/2] := by
  decide +kernel
/-- and the conclusion is not trivial: the output really moves (463/1152 → 511/1152) inside [0,1] -/
example : eval 3 false [[[1/3, 5/6, 5/6], [0, 2/3, 0]], [[5/8, 5/8, 5/8], [0, 5/4, 0]]] [1/2, -1/2] (1/2) [1/2, 1] = 463/1152
    ∧ eval 3 false [[[1/3, 5/6, 5/6], [0, 2/3, 0]], [[5/8, 5/8, 5/8], [0, 5/4, 0]]] [1/2, -1/2] (1/2) [3/2, 1] = 511/1152 := by
  decide +kernel

/-! ## ALL orders of raw updates and constraint calls (audit row 3)

`ValidRun` (used by T2/T4 above) allows only PURE constraint runs: `validRun_iff_pure_constraint_run`.
The property quantifies over "all orders in which kernel and scale are updated/constrained" and
"signs that change between updates". Below every run is allowed (`RunValid`: raw updates unrestricted,
every kernel-constraint call sees well-shaped data and a root factor with `rootOk`), and the bookkeeping
`Track` (Model/Kfl.lean) says what holds at its end:

* bounds: each constraint ran after the last raw update of ITS variable (`boundCovered`) — sign flips are
  irrelevant;
* monotonicity: a kernel constraint ran after the last raw kernel update, and since it READ the scale `r`
  no term went to the opposite non-zero sign (`monoCovered`, `signOk1 r_t f_t`: `r_t = 0` — that kernel
  constraint zeroed the term's kernel —, or `f_t = 0`, or `sign f_t = sign r_t`).

`signOk1` is tight (`sign_condition_tight`): for every other sign pair there is a kernel on which the output
DEcreases. Hence the property as quantified ("each constraint applied after its variable's last update",
any order) is FALSE for the real code — finding F-C07-c, `property_all_orders_false` — and true for the
schedules Keras uses (the layer creates `scale` before `kernel`, so the kernel constraint is the last call
of every optimizer step): `keras_step_establishes_premises`, `keras_training_monotone_and_bounded`. -/

/-- (a) EXACTLY which runs `ValidRun` — hence `constraints_any_order_establish_premises`,
`premises_persist`, T4 — covers: runs without any raw update (from an arbitrary state). -/
theorem validRun_iff_pure_constraint_run (L : Nat) (ms : List Bool) (lo hi : Option Rat) (st : State)
    (ops : List Op) :
    ValidRun L ms lo hi st ops ↔ (∀ op ∈ ops, Op.isCons op = true) ∧ RunValid L ms lo hi st ops :=
  validRun_iff L ms lo hi ops st

/-- T5: premises after ANY run (raw updates and constraint calls interleaved in any way, any signs,
sign changes anywhere), from any starting state, in terms of the bookkeeping flags. -/
theorem premises_after_any_run (L : Nat) (ms : List Bool) (lo hi : Option Rat)
    (hlh : ∀ l h, lo = some l → hi = some h → l ≤ h) (st : State) (ops : List Op)
    (hv : RunValid L ms lo hi st ops) :
    (monoCovered (trackOf ms lo hi st ops) (runOps ms lo hi st ops).scale = true →
      KOk L ms lo hi (runOps ms lo hi st ops)) ∧
    (boundCovered (trackOf ms lo hi st ops) = true →
      BoundOkK lo hi (runOps ms lo hi st ops).K ∧ SOk lo hi (runOps ms lo hi st ops).scale) := by
  have h := runTracked_inv L ms lo hi hlh ops st Track.init hv (trackInv_init L ms lo hi st)
  rw [runTracked_fst] at h
  exact ⟨fun hc => trackInv_kOk L ms lo hi _ _ h hc, fun hc => trackInv_bound L ms lo hi _ _ h hc⟩

/-- T5 in readable form. Monotone side: the LAST kernel-constraint call (`consK rs`, after `pre`) is not
followed by a raw kernel update, and no term's scale has gone from the value that call read to the opposite
non-zero sign. Bound side: additionally some scale-constraint call is not followed by a raw scale update. -/
theorem premises_after_last_constraints (L : Nat) (ms : List Bool) (lo hi : Option Rat)
    (hlh : ∀ l h, lo = some l → hi = some h → l ≤ h) (st : State) (pre post : List Op) (rs : List Rat)
    (hv : RunValid L ms lo hi st (pre ++ .consK rs :: post))
    (hpost : ∀ op ∈ post, Op.touchesKRef op = false) :
    let fin := runOps ms lo hi st (pre ++ .consK rs :: post)
    (signsOk (runOps ms lo hi st pre).scale fin.scale = true → KOk L ms lo hi fin) ∧
    (∀ pre' post', pre ++ .consK rs :: post = pre' ++ .consS :: post' →
      (∀ op ∈ post', Op.isAssignS op = false) → BoundOkK lo hi fin.K ∧ SOk lo hi fin.scale) := by
  intro fin
  obtain ⟨h1, h2⟩ := premises_after_any_run L ms lo hi hlh st _ hv
  have hr := trackOf_ref_of_last_consK ms lo hi st pre post rs hpost
  refine ⟨fun hs => h1 (by simp only [monoCovered, hr]; exact hs), fun pre' post' e hp' => h2 ?_⟩
  have hf := trackOf_sFresh_of_last_consS ms lo hi st pre' post' hp'
  rw [← e] at hf
  simp [boundCovered, hr, hf]

/-- T6 (the property, for the runs it is true for): after ANY run, at every point the property speaks
about, (i) the output is non-decreasing in every monotone input if `monoCovered`; (ii) it lies in
`[output_min, output_max]` if `boundCovered` — whatever the signs did in between. -/
theorem layer_after_any_run (L : Nat) (hL : 1 ≤ L) (clipI : Bool)
    (ms : List Bool) (lo hi : Option Rat) (hlh : ∀ l h, lo = some l → hi = some h → l ≤ h)
    (st : State) (ops : List Op) (hv : RunValid L ms lo hi st ops)
    (xs : List Rat) (hx : ∀ x ∈ xs, InR L clipI x) :
    let fin := runOps ms lo hi st ops
    let tr := trackOf ms lo hi st ops
    (monoCovered tr fin.scale = true → ∀ d y bias, ms.getD d false = true → InR L clipI y → getR xs d ≤ y →
      eval L clipI fin.K fin.scale bias xs ≤ eval L clipI fin.K fin.scale bias (xs.set d y)) ∧
    (boundCovered tr = true → (∀ kt ∈ fin.K, xs.length = kt.length) →
      (∀ l, lo = some l → l ≤ eval L clipI fin.K fin.scale (fixedBias lo hi) xs) ∧
      (∀ h, hi = some h → eval L clipI fin.K fin.scale (fixedBias lo hi) xs ≤ h)) := by
  intro fin tr
  obtain ⟨h1, h2⟩ := premises_after_any_run L ms lo hi hlh st ops hv
  refine ⟨fun hc d y bias hm hy hxy => ?_, fun hc hdims => ?_⟩
  · exact output_monotone L hL clipI ms d xs y hm hx hy hxy fin.scale fin.K bias ((h1 hc).1 (any_of_getD ms d hm))
  · exact output_bounded L hL clipI lo hi hlh xs hx fin.scale fin.K hdims (h2 hc).1 (h2 hc).2

/-! ### (c) the schedules Keras uses -/

theorem kerasStepPerVar_run (ms : List Bool) (lo hi : Option Rat) (st : State) (s : List Rat)
    (K : List (List (List Rat))) (rs : List Rat) :
    runOps ms lo hi st (kerasStepPerVar s K rs) =
      { K := kernelConstraint ms lo hi (scaleConstraint lo hi s) rs K, scale := scaleConstraint lo hi s } := rfl

/-- both optimizer families produce the same state -/
theorem kerasStepBatch_run (ms : List Bool) (lo hi : Option Rat) (st : State) (s : List Rat)
    (K : List (List (List Rat))) (rs : List Rat) :
    runOps ms lo hi st (kerasStepBatch s K rs) = runOps ms lo hi st (kerasStepPerVar s K rs) := rfl

/-- (c) ONE complete optimizer step of Keras — raw update `s` of the scale, raw update `K` of the kernel,
constraints in the order of `trainable_variables` (scale, then kernel), either per variable (legacy
optimizers) or after all updates (current optimizers) — establishes the premises of T1 and T3 from ANY
prior state (`st` arbitrary: any earlier history, any signs before, any sign flip in `s`). -/
theorem keras_step_establishes_premises (L : Nat) (ms : List Bool) (lo hi : Option Rat)
    (hlh : ∀ l h, lo = some l → hi = some h → l ≤ h) (st : State) (s : List Rat)
    (K : List (List (List Rat))) (rs : List Rat)
    (hv : RootsOk L ms lo hi (scaleConstraint lo hi s) rs K) :
    (KOk L ms lo hi (runOps ms lo hi st (kerasStepPerVar s K rs)) ∧
      SOk lo hi (runOps ms lo hi st (kerasStepPerVar s K rs)).scale) ∧
    (KOk L ms lo hi (runOps ms lo hi st (kerasStepBatch s K rs)) ∧
      SOk lo hi (runOps ms lo hi st (kerasStepBatch s K rs)).scale) := by
  rw [kerasStepBatch_run, kerasStepPerVar_run]
  have h := kernelConstraint_ok L ms lo hi { K := K, scale := scaleConstraint lo hi s } rs hv
  exact ⟨⟨h, scaleConstraint_sOk lo hi hlh s⟩, ⟨h, scaleConstraint_sOk lo hi hlh s⟩⟩

/-- a training history: the raw updates `(s, K)` of every step and the root factors its kernel constraint
computes; `sched` is `kerasStepPerVar` or `kerasStepBatch` -/
def kerasRun (sched : List Rat → List (List (List Rat)) → List Rat → List Op) :
    List (List Rat × List (List (List Rat)) × List Rat) → List Op
  | [] => []
  | (s, K, rs) :: steps => sched s K rs ++ kerasRun sched steps

/-- (c) training: for EVERY sequence of optimizer steps (any raw updates, every sign pattern, sign flips
between steps), from any starting state, after EVERY complete step the layer output is non-decreasing in
every monotone input and within the bounds, at every point the property speaks about. Same for the
current-optimizer schedule `kerasStepBatch` (`kerasStepBatch_run`). -/
theorem keras_training_monotone_and_bounded (L : Nat) (hL : 1 ≤ L) (clipI : Bool)
    (ms : List Bool) (lo hi : Option Rat) (hlh : ∀ l h, lo = some l → hi = some h → l ≤ h)
    (sched : List Rat → List (List (List Rat)) → List Rat → List Op)
    (hsched : sched = kerasStepPerVar ∨ sched = kerasStepBatch)
    (st : State) (done : List (List Rat × List (List (List Rat)) × List Rat))
    (s : List Rat) (K : List (List (List Rat))) (rs : List Rat)
    (hv : RunValid L ms lo hi st (kerasRun sched (done ++ [(s, K, rs)])))
    (xs : List Rat) (hx : ∀ x ∈ xs, InR L clipI x) :
    let fin := runOps ms lo hi st (kerasRun sched (done ++ [(s, K, rs)]))
    (∀ d y bias, ms.getD d false = true → InR L clipI y → getR xs d ≤ y →
      eval L clipI fin.K fin.scale bias xs ≤ eval L clipI fin.K fin.scale bias (xs.set d y)) ∧
    ((∀ kt ∈ fin.K, xs.length = kt.length) →
      (∀ l, lo = some l → l ≤ eval L clipI fin.K fin.scale (fixedBias lo hi) xs) ∧
      (∀ h, hi = some h → eval L clipI fin.K fin.scale (fixedBias lo hi) xs ≤ h)) := by
  intro fin
  have happ : ∀ a b, kerasRun sched (a ++ b) = kerasRun sched a ++ kerasRun sched b := by
    intro a b
    induction a with
    | nil => rfl
    | cons p a ih => obtain ⟨s', K', rs'⟩ := p; simp only [List.cons_append, kerasRun, ih, List.append_assoc]
  have hlast : kerasRun sched [(s, K, rs)] = sched s K rs := by simp [kerasRun]
  have hfin : fin = runOps ms lo hi (runOps ms lo hi st (kerasRun sched done)) (sched s K rs) := by
    show runOps ms lo hi st (kerasRun sched (done ++ [(s, K, rs)])) = _
    rw [happ, hlast, runOps_append]
  rw [happ, hlast, runValid_append] at hv
  have hroots : RootsOk L ms lo hi (scaleConstraint lo hi s) rs K := by
    rcases hsched with e | e <;> subst e
    · exact hv.2.1
    · exact hv.2.1
  obtain ⟨h1, h2⟩ := keras_step_establishes_premises L ms lo hi hlh
    (runOps ms lo hi st (kerasRun sched done)) s K rs hroots
  have hK : KOk L ms lo hi fin ∧ SOk lo hi fin.scale := by
    rw [hfin]; rcases hsched with e | e <;> subst e
    · exact h1
    · exact h2
  refine ⟨fun d y bias hm hy hxy => ?_, fun hdims => ?_⟩
  · exact output_monotone L hL clipI ms d xs y hm hx hy hxy fin.scale fin.K bias (hK.1.1 (any_of_getD ms d hm))
  · exact output_bounded L hL clipI lo hi hlh xs hx fin.scale fin.K hdims hK.1.2 hK.2

/-! ### the opposite per-variable order (kernel first) -/

/-- bounds survive the kernel-first order whatever the signs do; monotonicity needs `signsOk` between the
scale the kernel constraint read (`st.scale`, the previous step's) and the new constrained scale. -/
theorem kernel_first_step_premises (L : Nat) (ms : List Bool) (lo hi : Option Rat)
    (hlh : ∀ l h, lo = some l → hi = some h → l ≤ h) (st : State) (s : List Rat)
    (K : List (List (List Rat))) (rs : List Rat) (hv : RootsOk L ms lo hi st.scale rs K) :
    let fin := runOps ms lo hi st (kernelFirstStep s K rs)
    (BoundOkK lo hi fin.K ∧ SOk lo hi fin.scale) ∧
    (signsOk st.scale (scaleConstraint lo hi s) = true → KOk L ms lo hi fin) := by
  intro fin
  have hrv : RunValid L ms lo hi st (kernelFirstStep s K rs) := ⟨hv, trivial⟩
  obtain ⟨h1, h2⟩ := premises_after_any_run L ms lo hi hlh st _ hrv
  exact ⟨h2 rfl, fun hs => h1 hs⟩

/-- (b) F-C07-c, COUNTER-WITNESS (model = real code, reproduced by the harness): `lattice_sizes = 2`, one
monotone input, one term, bounds [0, 1]; state after an earlier step: kernel `[1/4, 1]`, scale `1/2`. One
step in kernel-first order — `kernel.assign(K); kernel.assign(constraint(kernel)); scale.assign(-1/2);
scale.assign(constraint(scale))` — is a valid run in which each constraint ran after the last raw update
of its variable (`boundCovered`), the bookkeeping says the monotone side is NOT covered, and indeed the
output DEcreases along the increasing input: `f(0) = 3/8 > f(1) = 0`. Both values are inside [0, 1]. -/
theorem kernel_first_sign_flip_counter_witness :
    let st : State := { K := [[[1/4, 1]]], scale := [1/2] }
    let ops := kernelFirstStep [-1/2] [[[1/4, 1]]] [1]
    let fin := runOps [true] (some 0) (some 1) st ops
    RunValid 2 [true] (some 0) (some 1) st ops ∧
    boundCovered (trackOf [true] (some 0) (some 1) st ops) = true ∧
    monoCovered (trackOf [true] (some 0) (some 1) st ops) fin.scale = false ∧
    eval 2 false fin.K fin.scale (fixedBias (some 0) (some 1)) [0] = 3/8 ∧
    eval 2 false fin.K fin.scale (fixedBias (some 0) (some 1)) [1] = 0 := by
  refine ⟨⟨⟨⟨⟨rfl, ?_⟩, fun _ _ => ?_⟩, trivial⟩, trivial⟩, ?_, ?_, ?_, ?_⟩
  · intro k hk; simp only [List.mem_cons, List.not_mem_nil, or_false] at hk; subst hk; rfl
  · decide +kernel
  · decide +kernel
  · decide +kernel
  · decide +kernel
  · decide +kernel

/-- the same in the other bound modes: no bounds (`-1/4 > -1`) and max-only (`3/4 > 0`) -/
theorem kernel_first_sign_flip_counter_witness_other_modes :
    (let fin := runOps [true] none none { K := [[[1/4, 1]]], scale := [1] } (kernelFirstStep [-1] [[[1/4, 1]]] [1])
     eval 2 false fin.K fin.scale 0 [0] = -1/4 ∧ eval 2 false fin.K fin.scale 0 [1] = -1) ∧
    (let fin := runOps [true] none (some 1) { K := [[[1/4, 1]]], scale := [1] } (kernelFirstStep [-1] [[[1/4, 1]]] [1])
     eval 2 false fin.K fin.scale (fixedBias none (some 1)) [0] = 3/4 ∧
     eval 2 false fin.K fin.scale (fixedBias none (some 1)) [1] = 0) := by
  decide +kernel

/-- the property with its quantifier "all orders in which kernel and scale are updated/constrained":
whenever each constraint has been applied after the last raw update of its variable, the output is
monotone (bounds: see `layer_after_any_run`, which proves them for exactly these runs). -/
def PropertyAllOrders : Prop :=
  ∀ (L : Nat) (clipI : Bool) (ms : List Bool) (lo hi : Option Rat) (st : State) (ops : List Op)
    (xs : List Rat) (d : Nat) (y : Rat),
    1 ≤ L → (∀ l h, lo = some l → hi = some h → l ≤ h) → RunValid L ms lo hi st ops →
    boundCovered (trackOf ms lo hi st ops) = true → (∀ x ∈ xs, InR L clipI x) →
    ms.getD d false = true → InR L clipI y → getR xs d ≤ y →
    eval L clipI (runOps ms lo hi st ops).K (runOps ms lo hi st ops).scale (fixedBias lo hi) xs ≤
      eval L clipI (runOps ms lo hi st ops).K (runOps ms lo hi st ops).scale (fixedBias lo hi) (xs.set d y)

/-- F-C07-c: the property as quantified is FALSE for the code (the partial statements that hold are
`layer_after_any_run` and `keras_training_monotone_and_bounded`). -/
theorem property_all_orders_false : ¬ PropertyAllOrders := by
  intro h
  obtain ⟨hv, hb, _, e0, e1⟩ := kernel_first_sign_flip_counter_witness
  have := h 2 false [true] (some 0) (some 1) { K := [[[1/4, 1]]], scale := [1/2] }
    (kernelFirstStep [-1/2] [[[1/4, 1]]] [1]) [0] 0 1 (by norm_num)
    (fun l h' e1 e2 => by cases e1; cases e2; norm_num) hv hb
    (fun x hx => by simp only [List.mem_cons, List.not_mem_nil, or_false] at hx; subst hx; right; norm_num)
    rfl (by right; norm_num) (by simp [getR])
  have e1' : eval 2 false
      (runOps [true] (some 0) (some 1) { K := [[[1/4, 1]]], scale := [1/2] } (kernelFirstStep [-1/2] [[[1/4, 1]]] [1])).K
      (runOps [true] (some 0) (some 1) { K := [[[1/4, 1]]], scale := [1/2] } (kernelFirstStep [-1/2] [[[1/4, 1]]] [1])).scale
      (fixedBias (some 0) (some 1)) ([0].set 0 1) = 0 := e1
  rw [e0, e1'] at this
  norm_num at this

/-- `signOk1` is TIGHT: for every pair (scale read by the kernel constraint, scale now) it rejects there is
a kernel (one monotone input, no bounds) on which the output strictly DEcreases from `x = 0` to `x = 1`
after `kernel.assign(K); constrain kernel; scale.assign(f)`. -/
theorem sign_condition_tight (r f : Rat) (h : signOk1 r f = false) :
    ∃ K : List (List (List Rat)),
      let fin := runOps [true] none none { K := [], scale := [r] } [.assignK K, .consK [1], .assignS [f]]
      eval 2 false fin.K fin.scale 0 [1] < eval 2 false fin.K fin.scale 0 [0] := by
  simp only [signOk1, Bool.or_eq_false_iff, decide_eq_false_iff_not] at h
  obtain ⟨⟨hr, hf⟩, hs⟩ := h
  rcases sgn_cases r with ⟨hr', er⟩ | ⟨hr', er⟩ | ⟨hr', _⟩
  · -- r > 0, hence f < 0
    have hf' : f < 0 := by
      rcases sgn_cases f with ⟨_, ef⟩ | ⟨h', _⟩ | ⟨h', _⟩
      · exact absurd (ef.trans er.symm) hs
      · exact h'
      · exact absurd h' hf
    refine ⟨[[[0, 1]]], ?_⟩
    simp only [runOps, List.foldl, step, kernelConstraint, finalizeWeight, finalizeWeightTerm, monoStage,
      projectMono, projectDim, clipNonneg, monoProj1, half, cummax, cummaxFrom, cumminBack, er,
      List.any, id, Bool.or_false, if_true, List.map, List.zipWith, Option.isSome,
      Bool.false_eq_true, if_false, eval, scaled, termProd, termFactors, interp1, interpWeights, clipIn,
      dot, rprod, rsum, List.length]
    norm_num [rprod, rsum, dot]
    linarith
  · -- r < 0, hence f > 0
    have hf' : 0 < f := by
      rcases sgn_cases f with ⟨h', _⟩ | ⟨_, ef⟩ | ⟨h', _⟩
      · exact h'
      · exact absurd (ef.trans er.symm) hs
      · exact absurd h' hf
    refine ⟨[[[1, 0]]], ?_⟩
    simp only [runOps, List.foldl, step, kernelConstraint, finalizeWeight, finalizeWeightTerm, monoStage,
      projectMono, projectDim, clipNonneg, monoProj1, half, cummax, cummaxFrom, cumminBack, er,
      List.any, id, Bool.or_false, if_true, List.map, List.zipWith, Option.isSome,
      Bool.false_eq_true, if_false, eval, scaled, termProd, termFactors, interp1, interpWeights, clipIn,
      dot, rprod, rsum, List.length]
    norm_num [rprod, rsum, dot]
    linarith
  · exact absurd hr' hr

/-! ### non-vacuity of the training theorem: two optimizer steps, the scale flips sign between them -/

def exSteps : List (List Rat × List (List (List Rat)) × List Rat) :=
  [([1/2], [[[1/4, 1]]], [1]), ([-3], [[[2, 1/2]]], [2])]

example : RunValid 2 [true] (some 0) (some 1) { K := [[[7, -3]]], scale := [5] } (kerasRun kerasStepPerVar exSteps) := by
  refine ⟨⟨⟨⟨rfl, ?_⟩, fun _ _ => ?_⟩, trivial⟩, ⟨⟨⟨rfl, ?_⟩, fun _ _ => ?_⟩, trivial⟩, trivial⟩
  · intro k hk; simp only [List.mem_cons, List.not_mem_nil, or_false] at hk; subst hk; rfl
  · decide +kernel
  · intro k hk; simp only [List.mem_cons, List.not_mem_nil, or_false] at hk; subst hk; rfl
  · decide +kernel

/-- after step 1: kernel `[1/4, 1]`, scale `1/2`; after step 2 (scale update `-3`, clipped to `-1/2`):
kernel `[1, 1/4]` — re-oriented for the new sign — and the output goes UP from `f(0) = 0` to `f(1) = 3/8`. -/
example :
    let fin := runOps [true] (some 0) (some 1) { K := [[[7, -3]]], scale := [5] } (kerasRun kerasStepPerVar exSteps)
    fin.K = [[[1, 1/4]]] ∧ fin.scale = [-1/2] ∧
    eval 2 false fin.K fin.scale (fixedBias (some 0) (some 1)) [0] = 0 ∧
    eval 2 false fin.K fin.scale (fixedBias (some 0) (some 1)) [1] = 3/8 := by
  decide +kernel

end Tfl.C07
