import TflModel.Lemmas.Kfl
/-!
# C07 — KroneckerFactoredLattice after its constraints gives monotone, bounded outputs

Model: `Tfl.Kfl` (`Model/Kfl.lean`), one unit and one example; units are independent blocks of the
`(lattice_sizes, units, dims, num_terms)` reshape (C09). Layout: `K` = terms → dims → vertices.

* `InR L clip x` — the points the property speaks about: every point when `clip_inputs`, in-range
  points otherwise (outside the range the layer extrapolates / drops to zero and is NOT monotone:
  that is outside the statement).
* The dims-th root of the bound projection is an arbitrary factor `r` with `rootOk` (`1 ≤ r` and
  `max(Π_d max|k_d|, 1) ≤ r^dims`); `RootsOk` bundles it with the shapes `verify_hyperparameters`
  and `build` guarantee (one column of `lattice_sizes` vertices per entry of `monotonicities`, one
  factor per term). The driver evaluates `rootOk` on the float the real code computed.
* Histories: `ValidRun` = any sequence of `kernel.assign(kernel.constraint(kernel))` /
  `scale.assign(scale.constraint(scale))` from ANY starting state (i.e. after arbitrary raw updates
  of both variables, any signs, zeros).
* `hlh` is `output_min ≤ output_max` (`verify_hyperparameters` rejects `min ≥ max`).
-/
namespace Tfl.C07
open Tfl Tfl.Kfl Tfl.Poset

theorem any_of_getD : ∀ (ms : List Bool) (d : Nat), ms.getD d false = true → ms.any id = true
  | [], _, h => by simp at h
  | m :: ms, 0, h => by simp at h; simp [h]
  | m :: ms, d + 1, h => by
    have := any_of_getD ms d (by simpa using h)
    simp [List.any_cons, this]

/-- T1: kernel ≥ 0 and `sign(scale_t)·k[·,d,t]` non-decreasing on the monotone dimensions
(`KernelOk`) ⇒ the output is non-decreasing in every monotone input `x_d`, for ALL pairs
(`xs` vs `xs[d := y]`, `xs_d ≤ y`), every scale sign pattern (zero-scale terms vanish), any
number of terms, any bias. -/
theorem output_monotone (L : Nat) (hL : 1 ≤ L) (clipI : Bool) (ms : List Bool) (d : Nat)
    (xs : List Rat) (y : Rat) (hm : ms.getD d false = true)
    (hx : ∀ x ∈ xs, InR L clipI x) (hy : InR L clipI y) (hxy : getR xs d ≤ y)
    (scale : List Rat) (K : List (List (List Rat))) (bias : Rat) (h : KernelOk L ms scale K) :
    eval L clipI K scale bias xs ≤ eval L clipI K scale bias (xs.set d y) :=
  eval_mono L hL clipI ms d xs y hm hx hy hxy scale K bias h

/-- T2: the kernel constraint and the scale constraint, applied in EITHER order, any number of
times, in any interleaving, from any starting kernel and scale, establish the premises of T1
and T3 — as soon as each has been applied at least once. (The kernel projection depends on the
scale only through its sign, which the scale projection never flips: `kernelOk_scaleConstraint`.) -/
theorem constraints_any_order_establish_premises (L : Nat) (ms : List Bool) (lo hi : Option Rat)
    (hlh : ∀ l h, lo = some l → hi = some h → l ≤ h) (st : State) (ops : List Op)
    (hv : ValidRun L ms lo hi st ops) (hK : HasConsK ops) (hS : Op.consS ∈ ops) :
    KOk L ms lo hi (runOps ms lo hi st ops) ∧ SOk lo hi (runOps ms lo hi st ops).scale :=
  ⟨run_kOk L ms lo hi hlh ops st hv (Or.inr hK), run_sOk L ms lo hi hlh ops st hv (Or.inr hS)⟩

/-- T2 for the order the kernel is constrained FIRST with the still unclipped scale — this is
`finalize_constraints()` -/
theorem finalize_constraints_establishes_premises (L : Nat) (ms : List Bool) (lo hi : Option Rat)
    (hlh : ∀ l h, lo = some l → hi = some h → l ≤ h) (st : State) (rs : List Rat)
    (hv : RootsOk L ms lo hi st.scale rs st.K) :
    KOk L ms lo hi (finalizeConstraints ms lo hi rs st) ∧ SOk lo hi (finalizeConstraints ms lo hi rs st).scale := by
  unfold finalizeConstraints
  exact constraints_any_order_establish_premises L ms lo hi hlh st _ ⟨hv, trivial⟩ ⟨rs, by simp⟩ (by simp)

/-- T2, persistence: once established, further constraint calls in any order keep the premises -/
theorem premises_persist (L : Nat) (ms : List Bool) (lo hi : Option Rat)
    (hlh : ∀ l h, lo = some l → hi = some h → l ≤ h) (st : State) (ops : List Op)
    (hv : ValidRun L ms lo hi st ops) (hK : KOk L ms lo hi st) (hS : SOk lo hi st.scale) :
    KOk L ms lo hi (runOps ms lo hi st ops) ∧ SOk lo hi (runOps ms lo hi st ops).scale :=
  ⟨run_kOk L ms lo hi hlh ops st hv (Or.inl hK), run_sOk L ms lo hi hlh ops st hv (Or.inl hS)⟩

/-- T3: bounds. Two-sided: `|Π_d interp_d| ≤ Π_d max|k_d| ≤ 1`, `|scale_t| ≤ (max-min)/2`, bias the
midpoint. One-sided: non-negative factors, sign-constrained scale, bias the bound. `hdims`: the input
has one coordinate per kernel dimension. -/
theorem output_bounded (L : Nat) (hL : 1 ≤ L) (clipI : Bool) (lo hi : Option Rat)
    (hlh : ∀ l h, lo = some l → hi = some h → l ≤ h) (xs : List Rat) (hx : ∀ x ∈ xs, InR L clipI x)
    (scale : List Rat) (K : List (List (List Rat))) (hdims : ∀ kt ∈ K, xs.length = kt.length)
    (hK : BoundOkK lo hi K) (hS : SOk lo hi scale) :
    (∀ l, lo = some l → l ≤ eval L clipI K scale (fixedBias lo hi) xs) ∧
    (∀ h, hi = some h → eval L clipI K scale (fixedBias lo hi) xs ≤ h) := by
  have hT : (0 : Rat) ≤ (K.length : Rat) := by exact_mod_cast Nat.zero_le _
  cases lo <;> cases hi
  · exact ⟨fun _ e => (by cases e), fun _ e => (by cases e)⟩
  · rename_i h
    refine ⟨fun _ e => (by cases e), fun h' e => ?_⟩
    cases e
    have hk : ∀ kt ∈ K, 0 ≤ termProd L clipI xs kt := fun kt hkt => termProd_nonneg L hL clipI xs kt hx (hK kt hkt)
    have := rsum_scaled_nonpos L clipI xs scale K hS hk
    have := div_nonpos_of_nonpos_of_nonneg this hT
    simp only [eval, fixedBias]; linarith
  · rename_i l
    refine ⟨fun l' e => ?_, fun _ e => (by cases e)⟩
    cases e
    have hk : ∀ kt ∈ K, 0 ≤ termProd L clipI xs kt := fun kt hkt => termProd_nonneg L hL clipI xs kt hx (hK kt hkt)
    have := rsum_scaled_nonneg L clipI xs scale K hS hk
    have := div_nonneg this hT
    simp only [eval, fixedBias]; linarith
  · rename_i l h
    have hk : ∀ kt ∈ K, |termProd L clipI xs kt| ≤ 1 := fun kt hkt =>
      le_trans (abs_termProd_le L hL clipI xs kt (hdims kt hkt) hx) (hK kt hkt)
    have := eval_two_sided L clipI xs l h (hlh l h rfl rfl) scale K hS hk
    simp only [fixedBias]
    exact ⟨fun l' e => (by cases e; exact this.1), fun h' e => (by cases e; exact this.2)⟩

/-- T4 (the property): for EVERY configuration — any monotonicity subset including none, any bound
mode, any `lattice_sizes ≥ 1`, dims, number of terms, `clip_inputs` — and every finite kernel and
scale, after the layer's constraint objects have both been applied (any order, any repetition,
or `finalize_constraints()`), the output is non-decreasing in every monotone input and lies in
`[output_min, output_max]`, at every point the property speaks about. Unconditional since the guard
fix 6d3f016 (`kernelConstraint_ok` has no hypothesis on `monotonicities`). -/
theorem layer_monotone_and_bounded_after_constraints (L : Nat) (hL : 1 ≤ L) (clipI : Bool)
    (ms : List Bool) (lo hi : Option Rat) (hlh : ∀ l h, lo = some l → hi = some h → l ≤ h)
    (st : State) (ops : List Op) (hv : ValidRun L ms lo hi st ops) (hK : HasConsK ops) (hS : Op.consS ∈ ops)
    (xs : List Rat) (hx : ∀ x ∈ xs, InR L clipI x) :
    let fin := runOps ms lo hi st ops
    (∀ d y bias, ms.getD d false = true → InR L clipI y → getR xs d ≤ y →
      eval L clipI fin.K fin.scale bias xs ≤ eval L clipI fin.K fin.scale bias (xs.set d y)) ∧
    ((∀ kt ∈ fin.K, xs.length = kt.length) →
      (∀ l, lo = some l → l ≤ eval L clipI fin.K fin.scale (fixedBias lo hi) xs) ∧
      (∀ h, hi = some h → eval L clipI fin.K fin.scale (fixedBias lo hi) xs ≤ h)) := by
  intro fin
  obtain ⟨h1, h2⟩ := constraints_any_order_establish_premises L ms lo hi hlh st ops hv hK hS
  refine ⟨fun d y bias hm hy hxy => ?_, fun hdims => ?_⟩
  · have hany : ms.any id = true := any_of_getD ms d hm
    exact output_monotone L hL clipI ms d xs y hm hx hy hxy fin.scale fin.K bias (h1.1 hany)
  · exact output_bounded L hL clipI lo hi hlh xs hx fin.scale fin.K hdims h1.2 h2

/-- F-C07-a (fixed by 6d3f016), counter-witness on the model VARIANT with the old guard
`if self.num_constraint_dims:`: bounds [0,1], no monotone dimension, kernel 13 — the constraint
object returned the kernel unchanged and the layer outputs 7 ∉ [0, 1] after both constraints. -/
theorem old_guard_counter_witness :
    eval 2 false (kernelConstraintOld [false] (some 0) (some 1) [1] [13] [[[13, 13]]])
      (scaleConstraint (some 0) (some 1) [1]) (fixedBias (some 0) (some 1)) [0] = 7 := by
  decide +kernel

/-- the same input through the current constraint object (root factor 13): inside the bounds -/
example : eval 2 false (kernelConstraint [false] (some 0) (some 1) [1] [13] [[[13, 13]]])
      (scaleConstraint (some 0) (some 1) [1]) (fixedBias (some 0) (some 1)) [0] = 1 := by
  decide +kernel

/-! ### non-vacuity: a concrete mixed-sign, partly monotone, two-sided layer meets the hypotheses -/

/-- L = 3, dims = 2 (first monotone), 2 terms with scale `[3, -2]` (clipped to ±1/2 later), bounds [0,1] -/
def exK : List (List (List Rat)) := [[[1, 3, 2], [-1, 2, 0]], [[2, 1, 4], [0, 5, -3]]]
def exState : State := { K := exK, scale := [3, -2] }

example : ValidRun 3 [true, false] (some 0) (some 1) exState [.consS, .consK [3, 4], .consS] := by
  refine ⟨⟨⟨⟨rfl, ?_⟩, fun _ _ => ?_⟩, ⟨⟨rfl, ?_⟩, fun _ _ => ?_⟩, trivial⟩, trivial⟩
  · intro k hk; simp only [List.mem_cons, List.not_mem_nil, or_false] at hk; rcases hk with rfl | rfl <;> rfl
  · decide +kernel
  · intro k hk; simp only [List.mem_cons, List.not_mem_nil, or_false] at hk; rcases hk with rfl | rfl <;> rfl
  · decide +kernel

example : (runOps [true, false] (some 0) (some 1) exState [.consS, .consK [3, 4], .consS]).K
    = [[[1/3, 5/6, 5/6], [0, 2/3, 0]], [[5/8, 5/8, 5/8], [0, 5/4, 0]]] := by decide +kernel
example : (runOps [true, false] (some 0) (some 1) exState [.consS, .consK [3, 4], .consS]).scale = [1/2, -1/2] := by
  decide +kernel
/-- and the conclusion is not trivial: the output really moves (463/1152 → 511/1152) inside [0,1] -/
example : eval 3 false [[[1/3, 5/6, 5/6], [0, 2/3, 0]], [[5/8, 5/8, 5/8], [0, 5/4, 0]]] [1/2, -1/2] (1/2) [1/2, 1] = 463/1152
    ∧ eval 3 false [[[1/3, 5/6, 5/6], [0, 2/3, 0]], [[5/8, 5/8, 5/8], [0, 5/4, 0]]] [1/2, -1/2] (1/2) [3/2, 1] = 511/1152 := by
  decide +kernel

end Tfl.C07
