import TflModel.Props.C10Constraint
import TflModel.Lemmas.Verify
import TflModel.Lemmas.VerifyTrustDirs
/-!
# C10 for ACCEPTED configurations: `LinWF` is discharged

The T1 / T5 theorems on the linear initialisation assume `LinWF sizes monos unimods` ("what the
constructors enforce"): rank ≥ 1, sizes ≥ 2, one entry per dimension, unimodal sizes ≥ 3, values ±1,
no dimension both monotone and unimodal. Here it is DERIVED from acceptance by
`lattice_lib.verify_hyperparameters` (`Tfl.Verify.verifyLattice`; C16 ties it to the real
constructors) for the vectors the accepted configuration carries (`monosOf`, `unimodsOf`: `None`
stands for all zeros, as in `linear_initializer`).
-/
namespace Tfl.C10
open Tfl Tfl.Init Tfl.Verify

/-- the 0/1 monotonicity vector of an accepted configuration (`None` = all zeros) -/
def monosOf (c : LatCfg) : List Bool :=
  match c.mono with
  | some l => l.map (fun a => a.eqNum 1)
  | Option.none => List.replicate c.sizes.length false
/-- the unimodality vector of an accepted configuration (`None` = all zeros) -/
def unimodsOf (c : LatCfg) : List Int :=
  match c.uni with
  | some l => l.map (fun a => match a.num with | some r => r.floor | Option.none => 0)
  | Option.none => List.replicate c.sizes.length 0

theorem verifyShape_checks {sizes : List Int} {mv uv : Val} {mu : Option (List Atom) × Option (List Atom)}
    (h : verifyShape sizes mv uv = .ok mu) : uniSizeBad mu.2 sizes = false ∧ monoUniClash mu.1 mu.2 = false := by
  simp only [verifyShape, bind, Except.bind] at h
  split at h
  · cases h
  · split at h
    · cases h
    · split at h
      · cases h
      · split at h
        · cases h
        · split at h
          · cases h
          · rename_i h1
            split at h
            · cases h
            · rename_i h2
              simp only [pure, Except.pure, Except.ok.injEq] at h
              subst h
              exact ⟨by simpa using h1, by simpa using h2⟩

theorem canonUnimodality_val {it : Item} {a : Atom} (h : canonUnimodality it = .ok a) :
    ∃ r : ℚ, a.num = some r ∧ (r = -1 ∨ r = 0 ∨ r = 1) := by
  cases it with
  | s t xs => simp [canonUnimodality, ve] at h
  | a x =>
    cases x with
    | none => simp [canonUnimodality, Atom.num, ve] at h
    | int i =>
      simp only [canonUnimodality, Atom.num] at h
      split at h
      · rename_i hr; cases h; exact ⟨_, rfl, hr⟩
      · cases h
    | flt r =>
      simp only [canonUnimodality, Atom.num] at h
      split at h
      · rename_i hr; cases h; exact ⟨_, rfl, hr⟩
      · cases h
    | str t e =>
      cases t <;> simp only [canonUnimodality, Atom.num, ve] at h <;> (try cases h)
      · exact ⟨0, by simp [Atom.num], Or.inr (Or.inl rfl)⟩
      · exact ⟨-1, by simp [Atom.num], Or.inl rfl⟩
      · exact ⟨1, by simp [Atom.num], Or.inr (Or.inr rfl)⟩

theorem canonUnimodalities_vals {v : Val} {l : List Atom} (h : canonUnimodalities v = .ok (some l)) :
    ∀ a ∈ l, ∃ r : ℚ, a.num = some r ∧ (r = -1 ∨ r = 0 ∨ r = 1) := by
  unfold canonUnimodalities at h
  split at h
  · cases h
  · simp only [bind, Except.bind] at h
    split at h
    · cases h
    · rename_i xs _
      split at h
      · cases h
      · rename_i ys hys
        simp only [pure, Except.pure, Except.ok.injEq, Option.some.injEq] at h
        subst h
        intro a ha
        obtain ⟨x, _, hx⟩ := mapE_mem hys ha
        exact canonUnimodality_val hx

theorem floor_vals {r : ℚ} (h : r = -1 ∨ r = 0 ∨ r = 1) :
    (r.floor = -1 ∧ r = -1) ∨ (r.floor = 0 ∧ r = 0) ∨ (r.floor = 1 ∧ r = 1) := by
  rcases h with rfl | rfl | rfl
  · exact Or.inl ⟨by decide +kernel, rfl⟩
  · exact Or.inr (Or.inl ⟨by decide +kernel, rfl⟩)
  · exact Or.inr (Or.inr ⟨by decide +kernel, rfl⟩)

/-- **accepted ⇒ `LinWF`** for the natural-number sizes and the vectors of the accepted configuration. -/
theorem accepted_linWF (r : RawLatFull) (c : LatCfg) (h : verifyLattice r = .ok c) :
    LinWF c.toLat.sizes (monosOf c) (unimodsOf c) := by
  obtain ⟨mu, _, _, hmu, _, hm, hu, _, _, _⟩ := verifyLattice_parts h
  obtain ⟨_, hcu, hml, hul⟩ := verifyShape_spec hmu
  obtain ⟨hsz, hclash⟩ := verifyShape_checks hmu
  obtain ⟨_, hne, hge⟩ := verifyLattice_sizes h
  have hne1 : c.sizes ≠ [] := (verifyLattice_sizes h).1.1
  have hlen : c.toLat.sizes.length = c.sizes.length := by simp [LatCfg.toLat]
  have hget : ∀ d, d < c.sizes.length → c.toLat.sizes.getD d 0 = (c.sizes.getD d 0).toNat := by
    intro d hd
    simp only [LatCfg.toLat, List.getD_eq_getElem?_getD, List.getElem?_map, List.getElem?_eq_getElem hd,
      Option.map_some, Option.getD_some]
  -- facts about a unimodal dimension
  have huni : ∀ d, d < c.sizes.length → (unimodsOf c).getD d 0 ≠ 0 →
      ∃ l, c.uni = some l ∧ ∃ hd : d < l.length, ((unimodsOf c).getD d 0 = 1 ∨ (unimodsOf c).getD d 0 = -1) ∧
        (l[d].eqNum 0 = false) := by
    intro d hd hnz
    cases hcu' : c.uni with
    | none =>
      exfalso; apply hnz
      simp only [unimodsOf, hcu', List.getD_eq_getElem?_getD]
      by_cases hd' : d < c.sizes.length <;> simp [hd']
    | some l =>
      have hl : l.length = c.sizes.length := hul l (by rw [← hu, hcu'])
      have hdl : d < l.length := by omega
      refine ⟨l, rfl, hdl, ?_⟩
      have hval := canonUnimodalities_vals (v := r.uni) (l := l) (by rw [hcu, ← hu, hcu']) l[d] (List.getElem_mem hdl)
      obtain ⟨q, hq, hq3⟩ := hval
      have hgetu : (unimodsOf c).getD d 0 = q.floor := by
        simp only [unimodsOf, hcu', List.getD_eq_getElem?_getD, List.getElem?_map, List.getElem?_eq_getElem hdl,
          Option.map_some, Option.getD_some, hq]
      rw [hgetu] at hnz ⊢
      rcases floor_vals hq3 with ⟨hf, hr⟩ | ⟨hf, hr⟩ | ⟨hf, hr⟩
      · exact ⟨Or.inr hf, by simp [Atom.eqNum, hq, hr]⟩
      · exact absurd hf hnz
      · exact ⟨Or.inl hf, by simp [Atom.eqNum, hq, hr]⟩
  refine ⟨by rw [hlen]; exact List.length_pos_iff.mpr hne1, ?_, ?_, ?_, ?_, ?_⟩
  · intro d hd
    rw [List.getD_eq_getElem?_getD, List.getElem?_eq_getElem hd]
    exact hge _ (List.getElem_mem hd)
  · simp only [monosOf]
    cases hc : c.mono with
    | none => simp [hlen]
    | some l => rw [hm] at hc; simp [hml l hc, hlen]
  · simp only [unimodsOf]
    cases hc : c.uni with
    | none => simp [hlen]
    | some l => rw [hu] at hc; simp [hul l hc, hlen]
  · intro d hd hnz
    rw [hlen] at hd
    obtain ⟨l, hcl, hdl, hv, he0⟩ := huni d hd hnz
    refine ⟨hv, ?_⟩
    -- `uniSizeBad = false`
    rw [← hu, hcl] at hsz
    simp only [uniSizeBad, List.any_eq_false] at hsz
    have hmem : (l[d], c.sizes[d]) ∈ l.zip c.sizes := by
      rw [List.mem_iff_getElem]
      exact ⟨d, by simp [hdl, hd], by simp⟩
    have := hsz _ hmem
    simp only [he0, Bool.not_false, Bool.true_and, decide_eq_true_eq, not_lt] at this
    rw [hget d hd, List.getD_eq_getElem?_getD, List.getElem?_eq_getElem hd]
    simp only [Option.getD_some]
    omega
  · rintro d ⟨hmono, hnz⟩
    by_cases hd : d < c.sizes.length
    · obtain ⟨l, hcl, hdl, _, he0⟩ := huni d hd hnz
      cases hcm : c.mono with
      | none =>
        simp only [monosOf, hcm, List.getD_eq_getElem?_getD] at hmono
        simp [hd] at hmono
      | some m =>
        have hmlen : m.length = c.sizes.length := hml m (by rw [← hm, hcm])
        have hdm : d < m.length := by omega
        simp only [monosOf, hcm, List.getD_eq_getElem?_getD, List.getElem?_map, List.getElem?_eq_getElem hdm,
          Option.map_some, Option.getD_some] at hmono
        rw [← hm, ← hu, hcm, hcl] at hclash
        simp only [monoUniClash, List.any_eq_false] at hclash
        have hmem : (m[d], l[d]) ∈ m.zip l := by
          rw [List.mem_iff_getElem]
          exact ⟨d, by simp [hdm, hdl], by simp⟩
        have := hclash _ hmem
        have hm0 : m[d].eqNum 0 = false := by
          simp only [Atom.eqNum] at hmono ⊢
          cases hnum : m[d].num with
          | none => simp
          | some q =>
            rw [hnum] at hmono
            have : q = 1 := by simpa using hmono
            simp [this]
        simp [hm0, he0] at this
    · apply hnz
      simp only [unimodsOf]
      cases hc : c.uni with
      | none => simp [List.getD_eq_getElem?_getD, hd]
      | some l =>
        have hl : l.length = c.sizes.length := hul l (by rw [← hu, hc])
        simp [List.getD_eq_getElem?_getD, List.getElem?_eq_none (by omega : l.length ≤ d)]

/-- **T1 (range) for accepted configurations**: the linear initial kernel of an accepted lattice attains
exactly the range it is given — no `LinWF` hypothesis left. -/
theorem accepted_linear_init_min_max (r : RawLatFull) (c : LatCfg) (h : verifyLattice r = .ok c) (a b : ℚ)
    (hab : a ≤ b) :
    (∀ idx, InRange c.toLat.sizes idx →
      a ≤ linearInit c.toLat.sizes (monosOf c) (unimodsOf c) a b idx ∧
        linearInit c.toLat.sizes (monosOf c) (unimodsOf c) a b idx ≤ b) ∧
    (∃ idx, InRange c.toLat.sizes idx ∧ linearInit c.toLat.sizes (monosOf c) (unimodsOf c) a b idx = a) ∧
    (∃ idx, InRange c.toLat.sizes idx ∧ linearInit c.toLat.sizes (monosOf c) (unimodsOf c) a b idx = b) :=
  linear_init_min_max _ _ _ a b (accepted_linWF r c h) hab

/-- **T5 for accepted configurations**: `k` is any constraint object carrying the accepted sizes,
monotonicities and unimodalities and no other family; the linear initial kernel on any range inside the
bounds is a fixed point of the whole weight constraint, both modes, every iteration count. -/
theorem accepted_linear_init_is_fixpoint (r : RawLatFull) (c : LatCfg) (h : verifyLattice r = .ok c)
    (k : Tfl.Lat.LCfg) (hs : ShapeOnly k.d) (hsz : k.d.sizes = c.toLat.sizes) (hmo : k.d.mono = monosOf c)
    (hun : k.d.unimod = unimodsOf c) (hb : Tfl.Lat.BoundsWF k.lo k.hi) (a b : ℚ) (hab : a ≤ b)
    (hlo : ∀ l, k.lo = some l → l ≤ a) (hhi : ∀ h', k.hi = some h' → b ≤ h') :
    Table.vals k.d.sizes (Tfl.Lat.latticeConstraintT k (linearInitT k.d.sizes k.d.mono k.d.unimod a b)) =
      Table.vals k.d.sizes (linearInitT k.d.sizes k.d.mono k.d.unimod a b) :=
  linear_init_is_fixpoint_of_constraint k hs (by rw [hsz, hmo, hun]; exact accepted_linWF r c h) hb a b hab hlo hhi

/-- non-vacuity: a rank-3 configuration with a monotone, a valley and a free dimension is accepted and
its vectors are the expected ones -/
def exRaw : RawLatFull :=
  { sizes := .s false [.a (.int 3), .a (.int 3), .a (.int 2)]
    mono := .s false [.a (.int 1), .a (.int 0), .a (.int 0)]
    uni := .s false [.a (.int 0), .a (.str .valley), .a (.int 0)] }
theorem exRaw_accepted :
    (verifyLattice exRaw).toOption.map (fun c => (c.toLat.sizes, monosOf c, unimodsOf c)) =
      some ([3, 3, 2], [true, false, false], [0, 1, 0]) := by decide +kernel

end Tfl.C10
