import TflModel.Model.Dykstra
import TflModel.Lemmas.Idx
import TflModel.Lemmas.DykstraExec
import TflModel.Lemmas.DykstraSlots
import TflModel.Lemmas.Trapezoid
import TflModel.Lemmas.DykstraConvBox
import TflModel.Lemmas.DykstraConvStencil
import TflModel.Lemmas.DykstraConvHyper
import Mathlib.Data.List.GetD
import Mathlib.Tactic.Ring
import Mathlib.Tactic.Linarith
/-!
# C08 — iterative (Dykstra) projection: feasible ⇒ unchanged, exact group projections,
Dykstra bookkeeping

Model: the group list `Tfl.Lat.groups` (the `_project_partial_*` functions) with the `last_change`
dict keys `Tfl.Lat.groupKeys` of the visits; `projectByDykstraT` runs `dykstraIterST` — every visit
reads and writes the slot of its KEY (`slots c`: a constraint tuple listed twice shares its slots, as
the Python dict does; `dup_slots_differ` is a machine-checked instance where that changes the result,
with the values the real code returns). `Tfl.Lat.dykstraPass / dykstraIter / dykstraIterT` are the
loops with one slot per list POSITION: what the slotted loop is when no key repeats
(`projectByDykstraT_of_nodup`, `Lemmas/DykstraSlots.lean`), and the object of the convergence theorems.
See `Model/Dykstra.lean`.

What is covered for WHICH configurations:
* T2 (feasible / fixed ⇒ unchanged, idempotence) and T3 (bookkeeping invariant): EVERY configuration,
  repeated constraints included (`projectByDykstraT_fixpoint`, `_feasible`, `_twice`,
  `dykstraST_fixpoint_state`, `projectByDykstraT_telescopingS`, `projectByDykstraT_agreeS`).
* convergence to the nearest feasible kernel on the executable model
  (`projectByDykstraT_cfg_converges`): `CfgWF` = `CfgShape` (dims in range and distinct, no range
  dominance) + `keys : (groupKeys c).Nodup`. `keys` follows from `NoRepeats c` (no constraint list has a
  repeated entry: `groupKeys_nodup`, `cfgWF_of_noRepeats`, `projectByDykstraT_cfg_converges_noRepeats`);
  `Props/C08Accepted.lean` derives `CfgShape` from constructor acceptance
  (`verifyLattice_cfgShape / _cfgWF`, `accepted_converges`) and lists what acceptance does NOT give.
* a constraint tuple listed twice (accepted by `verify_hyperparameters`; shared roll-back tensor =
  Hundal–Deutsch's variant of the algorithm) is outside `CfgWF` but COVERED by
  `Props/C08Shared.lean` (`projectByDykstraT_cfg_converges_shape`: hypothesis `CfgShape` only;
  `Lemmas/DykstraConvShared.lean` is the abstract theorem for one correction per set and any cyclic
  order with repetitions); the harness classes `dup:*` test the same on the real code.
* NOT covered by a convergence theorem: range dominance (below). (`(d, d)` dominance /
  joint-monotonicity pairs are rejected at construction since /repo 18dd711 — formerly finding F-C08-c;
  `Props/C08Accepted.lean` derives `p.1 ≠ p.2` from acceptance.)

Proved (for every group list, every iteration count, every kernel):
* T2 `dykstra_fixpoint`: if every group map fixes `w`, the whole loop returns `w` with all
  `last_change` tensors zero — for every number of iterations; re-projecting does not move it.
* T3 `dykstra_telescoping`: along every pass `w − Σ_g last_change_g` is invariant (for ANY maps).
* T1 (stencil level): each stencil map — pair (monotonicity/unimodality), 2×2 square (Edgeworth),
  pair (trapezoid), the two triangles (monotonic dominance, joint monotonicity), range quadruple and
  corner triple (range dominance) — lands in its half-space, fixes it, and satisfies the
  variational inequality `Σ_v (x_v − P x_v)(y_v − P x_v) ≤ 0` for every feasible `y`, i.e. it IS the
  Euclidean projection onto that half-space; `monoGroup_pair` ties the tensor-level monotonicity
  group map to `pairProj` (stencils of one group are disjoint by parity) and `monoGroup_fix` shows a
  monotone kernel is fixed by it; the ties of the other groups to their stencil maps are exercised
  by the correspondence of every run, not proved.
* T2 for ALL group kinds and on the EXECUTABLE loop the driver runs (`dykstraIterT`,
  `projectByDykstraT`): `groups_fix` (a kernel feasible for the configuration — `FeasibleD`: pair
  directions incl. unimodality, `EdgeOK`, `TrapOK`, monotonic / range dominance, joint monotonicity —
  is fixed on the box by every group map), `projectByDykstraT_fixpoint` / `_feasible` /
  `_fixpoint_normal` / `dykstraT_fixpoint_state` (unchanged for every iteration count; locality of
  every group map is proved in `Lemmas/DykstraExec.lean`, `groups_local`), `projectByDykstraT_twice`.
* T3 on the executable loop: `dykstraIterT_telescoping`, `projectByDykstraT_telescoping`;
  `projectByDykstraT_agree` ties the table loop to the function-level loop on the box.
* CONVERGENCE (Boyle–Dykstra 1986), machine-checked:
  - `Tfl.DykConv.dykstra_converges_on` / `dykstra_converges` (`Lemmas/DykstraConv.lean`): in a
    finite-dimensional real inner product space, for maps that land in closed sets `C k` with a common
    point and satisfy the projection's variational inequality, the pass-structured loop (`iterG`, the
    same `visit`/pass/iterate shape as the model) converges to the point of `⋂ C k` nearest to the start.
  - `Tfl.DykConv.dykstra_box_converges` (`Lemmas/DykstraConvBox.lean`): the same for the model's loop
    `dykstraIter` on ℚ-valued kernels, for ANY list of `Local` group maps with feasibility predicates
    (closed, box-local) for which the map lands and satisfies the box-sum variational inequality.
  - `Lemmas/DykstraConvStencil.lean`: a group made of disjoint pair / 2×2 stencils along (possibly
    reversed) axes lands and satisfies the box-sum variational inequality as soon as its stencil map
    does (`pairGroup_lands/_vi`, `sqGroup_lands/_vi`; `sum_pair_decomp` is the re-indexing).
  - `mono_dykstra_converges` / `projectByDykstraT_mono_converges`: monotonicity constraints, every
    rank / sizes / set of monotone dimensions / kernel — the iterates of `project_by_dykstra`'s model
    converge to the Euclidean-nearest monotone kernel and the largest monotonicity violation tends to 0.
  - `dykstra_cfg_converges` (position-slotted function-level loop, hypothesis `CfgShape`) /
    `projectByDykstraT_cfg_converges` (executable model, hypothesis `CfgWF` = `CfgShape` + no repeated
    dict key): EVERY constraint kind except range
    dominance, in any combination (monotonicity, unimodality, Edgeworth, trapezoid, monotonic dominance,
    joint monotonicity, JOINT UNIMODALITY; `CfgShape`: the trusts / pairs name different dimensions of the
    lattice, the dims of a joint unimodality are distinct and in range): the
    iterates converge on every vertex to the kernel nearest to the input among the real kernels
    satisfying all constraints (`FeasibleR`; `feasibleR_of_feasibleD`: every `FeasibleD` rational
    kernel is one), uniformly on the box. The ties of the tensor-level group maps to the stencil maps
    (`monoGroup_eq_pairGroup`, `trapezoidGroup_eq_pairGroup`, `edgeworthGroup_eq_sqGroup`,
    `monoDomGroup_eq_sqGroup`, `jointMonoGroup_eq_sqGroup`) are now proved, and with them `key_lands` /
    `key_vi`: every such group map IS the Euclidean projection onto its group's constraint set.
  - joint unimodality (`Model/Dykstra.lean`: `juStencil`, `hyperplaneGroup`, one group per (vertex,
    offsets) pair that yields a hyperplane, in the real loop's order, AFTER joint monotonicity; duplicates
    for centred dimensions included): `hsP_lands/_fix/_vi` (half-space projection for ANY coefficient
    vector `a ≠ 0`), `Lemmas/JointUnimod.lean` `juStencil_ok` (what the code guarantees of its hyperplane),
    `Lemmas/DykstraConvHyper.lean` `hyperplaneGroup_lands/_fix/_vi` (group level, slices are disjoint);
    `FeasibleD.juni` / `JointUniOK`, `groups_fix`, `groups_local` cover the family too.
NOT proved: the convergence clause for configurations WITH range dominance. The model's
`rangeDomGroup` at the two corner vertices `(0, N−1)` and `(M−1, 0)` (where the shared corner enters
the constraint with weight ±2) moves only the two other entries and keeps the corner fixed: it lands
on the constraint but is not the Euclidean projection — `rangeDom_corner_not_projection` is a
machine-checked instance where the variational inequality fails — so the Boyle–Dykstra hypotheses do
not hold for that group as modelled.
`C08_limit_partial` (kept below) is the old placeholder statement for arbitrary maps; it does not hold
in that generality (two copies of `w ↦ 2w` make the iterates diverge) and is superseded by the
theorems above.
-/
namespace Tfl.C08
open Tfl Tfl.Lat

/-- old placeholder for the convergence clause (arbitrary maps, no hypotheses — not provable in this
generality); the proved statements are `Tfl.DykConv.dykstra_box_converges` and
`mono_dykstra_converges` / `projectByDykstraT_mono_converges` at the end of this file -/
def C08_limit_partial : Prop :=
  ∀ (ps : List (W → W)) (w : W), ∃ limit : W, ∀ idx, ∀ ε : ℚ, 0 < ε → ∃ n0 : Nat, ∀ n, n0 ≤ n →
    |(dykstraIter ps n (w, ps.map (fun _ => fun _ => 0))).1 idx - limit idx| < ε

/-! ### T2: feasible ⇒ unchanged -/
theorem visit_fix (P : W → W) (w : W) (h : P w = w) : visit P w (fun _ => 0) = (w, fun _ => 0) := by
  have hr : (fun idx => w idx - (fun _ => (0 : ℚ)) idx) = w := by funext idx; simp
  simp only [visit, hr, h]
  congr 1
  funext idx; simp

theorem dykstraPass_fix (ps : List (W → W)) (w : W) (h : ∀ P ∈ ps, P w = w) :
    dykstraPass ps w (ps.map (fun _ => fun _ => 0)) = (w, ps.map (fun _ => fun _ => 0)) := by
  induction ps with
  | nil => rfl
  | cons P r ih =>
    simp only [dykstraPass, List.map_cons, List.headD_cons, List.tail_cons,
      visit_fix P w (h P (List.mem_cons_self ..))]
    rw [ih (fun Q hQ => h Q (List.mem_cons_of_mem _ hQ))]

/-- **C08-T2.** A kernel fixed by every group projection (in particular every feasible kernel,
see the `*_fix` stencil lemmas) is returned unchanged by the Dykstra loop, with all roll-back
tensors still zero, for EVERY number of iterations; hence projecting a result again that is
itself fixed does not move it. -/
theorem dykstra_fixpoint (ps : List (W → W)) (w : W) (h : ∀ P ∈ ps, P w = w) (n : Nat) :
    dykstraIter ps n (w, ps.map (fun _ => fun _ => 0)) = (w, ps.map (fun _ => fun _ => 0)) := by
  induction n with
  | zero => rfl
  | succ n ih => simp only [dykstraIter, dykstraPass_fix ps w h]; exact ih

/-! ### T3: telescoping invariant, for any maps -/
def csum (cs : List W) (idx : Idx) : ℚ := rsum (cs.map (fun c => c idx))

theorem dykstraPass_length (ps : List (W → W)) (w : W) (cs : List W) :
    (dykstraPass ps w cs).2.length = ps.length := by
  induction ps generalizing w cs with
  | nil => rfl
  | cons P r ih => simp [dykstraPass, ih]

/-- **C08-T3.** One pass over the groups keeps `w − Σ_g last_change_g` pointwise invariant,
whatever the group maps are (Dykstra's bookkeeping: each visit rolls back exactly what it
recorded). -/
theorem dykstra_telescoping (ps : List (W → W)) (w : W) (cs : List W) (hl : cs.length = ps.length)
    (idx : Idx) :
    (dykstraPass ps w cs).1 idx - csum (dykstraPass ps w cs).2 idx = w idx - csum cs idx := by
  induction ps generalizing w cs with
  | nil =>
    have : cs = [] := List.eq_nil_of_length_eq_zero (by simpa using hl)
    subst this; rfl
  | cons P r ih =>
    cases cs with
    | nil => simp at hl
    | cons c cr =>
      have hl' : cr.length = r.length := by simpa using hl
      have := ih (visit P w c).1 cr hl'
      simp only [dykstraPass, List.headD_cons, List.tail_cons, csum, List.map_cons, rsum] at this ⊢
      simp only [visit] at this ⊢
      linarith

theorem dykstraIter_telescoping (ps : List (W → W)) (n : Nat) (w : W) (cs : List W)
    (hl : cs.length = ps.length) (idx : Idx) :
    (dykstraIter ps n (w, cs)).1 idx - csum (dykstraIter ps n (w, cs)).2 idx = w idx - csum cs idx := by
  induction n generalizing w cs with
  | zero => rfl
  | succ n ih =>
    simp only [dykstraIter]
    rw [ih _ _ (by rw [dykstraPass_length]), dykstra_telescoping ps w cs hl]

/-! ### T1: the stencil maps are exact Euclidean projections onto their half-spaces -/

/-- pair `(a, b)`, constraint `a ≤ b`: `_project_partial_monotonicity` (increasing pair) -/
def pairProj (a b : ℚ) : ℚ × ℚ := (min a ((a + b) / 2), max b ((a + b) / 2))
theorem pairProj_lands (a b : ℚ) : (pairProj a b).1 ≤ (pairProj a b).2 := by
  simp only [pairProj, min_def, max_def]; split_ifs <;> linarith
theorem pairProj_fix (a b : ℚ) (h : a ≤ b) : pairProj a b = (a, b) := by
  have h1 : min a ((a + b) / 2) = a := min_eq_left (by linarith)
  have h2 : max b ((a + b) / 2) = b := max_eq_left (by linarith)
  simp only [pairProj, h1, h2]
theorem pairProj_vi (a b y1 y2 : ℚ) (hy : y1 ≤ y2) :
    (a - (pairProj a b).1) * (y1 - (pairProj a b).1) + (b - (pairProj a b).2) * (y2 - (pairProj a b).2) ≤ 0 := by
  by_cases hab : a ≤ b
  · rw [pairProj_fix a b hab]; simp
  · have hlt := not_le.mp hab
    have h1 : min a ((a + b) / 2) = (a + b) / 2 := min_eq_right (by linarith)
    have h2 : max b ((a + b) / 2) = (a + b) / 2 := max_eq_right (by linarith)
    simp only [pairProj, h1, h2]
    nlinarith [mul_nonneg (show (0:ℚ) ≤ (a - b) / 2 by linarith) (show (0:ℚ) ≤ y2 - y1 by linarith)]

/-- 2×2 square `(p,q,r,s) = (L[i][j], L[i][j+1], L[i+1][j], L[i+1][j+1])`: `_project_partial_edgeworth` -/
def sqProj (p q r s : ℚ) : ℚ × ℚ × ℚ × ℚ :=
  let c := max (((r - p) - (s - q)) / 4) 0
  (p + c, q - c, r - c, s + c)
theorem sqProj_lands (p q r s : ℚ) :
    ((sqProj p q r s).2.2.1 - (sqProj p q r s).1) - ((sqProj p q r s).2.2.2 - (sqProj p q r s).2.1) ≤ 0 := by
  simp only [sqProj, max_def]; split_ifs <;> linarith
theorem sqProj_fix (p q r s : ℚ) (h : (r - p) - (s - q) ≤ 0) : sqProj p q r s = (p, q, r, s) := by
  have : max (((r - p) - (s - q)) / 4) 0 = 0 := max_eq_right (by linarith)
  simp [sqProj, this]
theorem sqProj_vi (p q r s y1 y2 y3 y4 : ℚ) (hy : (y3 - y1) - (y4 - y2) ≤ 0) :
    (p - (sqProj p q r s).1) * (y1 - (sqProj p q r s).1) + (q - (sqProj p q r s).2.1) * (y2 - (sqProj p q r s).2.1)
      + (r - (sqProj p q r s).2.2.1) * (y3 - (sqProj p q r s).2.2.1)
      + (s - (sqProj p q r s).2.2.2) * (y4 - (sqProj p q r s).2.2.2) ≤ 0 := by
  simp only [sqProj, max_def]
  split_ifs with h
  · nlinarith
  · nlinarith [mul_nonneg (show (0:ℚ) ≤ ((r - p) - (s - q)) / 4 from le_of_lt (not_le.mp h))
      (show (0:ℚ) ≤ -((y3 - y1) - (y4 - y2)) by linarith)]

/-- triangle with apex `m` that must be at least the midpoint of `(a, b)`:
`_project_partial_monotonic_dominance` (group bit 1) and `_project_partial_joint_monotonicity` (bit 1) -/
def triUp (a b m : ℚ) : ℚ × ℚ × ℚ :=
  let c := max (((a + b) / 2 - m) / 3) 0
  (a - c, b - c, m + 2 * c)
theorem triUp_lands (a b m : ℚ) :
    ((triUp a b m).1 + (triUp a b m).2.1) / 2 ≤ (triUp a b m).2.2 := by
  simp only [triUp, max_def]; split_ifs <;> linarith
theorem triUp_fix (a b m : ℚ) (h : (a + b) / 2 ≤ m) : triUp a b m = (a, b, m) := by
  have : max (((a + b) / 2 - m) / 3) 0 = 0 := max_eq_right (by linarith)
  simp [triUp, this]
theorem triUp_vi (a b m y1 y2 y3 : ℚ) (hy : (y1 + y2) / 2 ≤ y3) :
    (a - (triUp a b m).1) * (y1 - (triUp a b m).1) + (b - (triUp a b m).2.1) * (y2 - (triUp a b m).2.1)
      + (m - (triUp a b m).2.2) * (y3 - (triUp a b m).2.2) ≤ 0 := by
  simp only [triUp, max_def]
  split_ifs with h
  · nlinarith
  · nlinarith [mul_nonneg (show (0:ℚ) ≤ ((a + b) / 2 - m) / 3 from le_of_lt (not_le.mp h))
      (show (0:ℚ) ≤ -((y1 + y2) / 2 - y3) by linarith)]

/-- triangle with apex `m` that must be at most the midpoint of `(a, b)` (group bit 0) -/
def triDown (a b m : ℚ) : ℚ × ℚ × ℚ :=
  let c := min (((a + b) / 2 - m) / 3) 0
  (a - c, b - c, m + 2 * c)
theorem triDown_lands (a b m : ℚ) :
    (triDown a b m).2.2 ≤ ((triDown a b m).1 + (triDown a b m).2.1) / 2 := by
  simp only [triDown, min_def]; split_ifs <;> linarith
theorem triDown_fix (a b m : ℚ) (h : m ≤ (a + b) / 2) : triDown a b m = (a, b, m) := by
  have : min (((a + b) / 2 - m) / 3) 0 = 0 := min_eq_right (by linarith)
  simp [triDown, this]
theorem triDown_vi (a b m y1 y2 y3 : ℚ) (hy : y3 ≤ (y1 + y2) / 2) :
    (a - (triDown a b m).1) * (y1 - (triDown a b m).1) + (b - (triDown a b m).2.1) * (y2 - (triDown a b m).2.1)
      + (m - (triDown a b m).2.2) * (y3 - (triDown a b m).2.2) ≤ 0 := by
  simp only [triDown, min_def]
  split_ifs with h
  · nlinarith [mul_nonneg (show (0:ℚ) ≤ -(((a + b) / 2 - m) / 3) by linarith)
      (show (0:ℚ) ≤ (y1 + y2) / 2 - y3 by linarith)]
  · nlinarith

/-- range-dominance quadruple (interior vertex): dominant range `(d0, d1)` must be at least the
weak range `(k0, k1)`: `(k1 − k0) − (d1 − d0) ≤ 0` -/
def quadProj (k0 k1 d0 d1 : ℚ) : ℚ × ℚ × ℚ × ℚ :=
  let c := max (((k1 - k0) - (d1 - d0)) / 4) 0
  (k0 + c, k1 - c, d0 - c, d1 + c)
theorem quadProj_lands (k0 k1 d0 d1 : ℚ) :
    ((quadProj k0 k1 d0 d1).2.1 - (quadProj k0 k1 d0 d1).1)
      - ((quadProj k0 k1 d0 d1).2.2.2 - (quadProj k0 k1 d0 d1).2.2.1) ≤ 0 := by
  simp only [quadProj, max_def]; split_ifs <;> linarith
theorem quadProj_vi (k0 k1 d0 d1 y1 y2 y3 y4 : ℚ) (hy : (y2 - y1) - (y4 - y3) ≤ 0) :
    (k0 - (quadProj k0 k1 d0 d1).1) * (y1 - (quadProj k0 k1 d0 d1).1)
      + (k1 - (quadProj k0 k1 d0 d1).2.1) * (y2 - (quadProj k0 k1 d0 d1).2.1)
      + (d0 - (quadProj k0 k1 d0 d1).2.2.1) * (y3 - (quadProj k0 k1 d0 d1).2.2.1)
      + (d1 - (quadProj k0 k1 d0 d1).2.2.2) * (y4 - (quadProj k0 k1 d0 d1).2.2.2) ≤ 0 := by
  simp only [quadProj, max_def]
  split_ifs with h
  · nlinarith
  · nlinarith [mul_nonneg (show (0:ℚ) ≤ ((k1 - k0) - (d1 - d0)) / 4 from le_of_lt (not_le.mp h))
      (show (0:ℚ) ≤ -((y2 - y1) - (y4 - y3)) by linarith)]

/-- range-dominance corner: the shared corner `z` stays, `(k − z) − (d − z) ≤ 0` i.e. `k ≤ d` -/
def cornerProj (k d : ℚ) : ℚ × ℚ :=
  let c := max ((k - d) / 2) 0
  (k - c, d + c)
theorem cornerProj_lands (k d : ℚ) : (cornerProj k d).1 ≤ (cornerProj k d).2 := by
  simp only [cornerProj, max_def]; split_ifs <;> linarith
theorem cornerProj_vi (k d y1 y2 : ℚ) (hy : y1 ≤ y2) :
    (k - (cornerProj k d).1) * (y1 - (cornerProj k d).1) + (d - (cornerProj k d).2) * (y2 - (cornerProj k d).2) ≤ 0 := by
  simp only [cornerProj, max_def]
  split_ifs with h
  · nlinarith
  · nlinarith [mul_nonneg (show (0:ℚ) ≤ (k - d) / 2 from le_of_lt (not_le.mp h)) (show (0:ℚ) ≤ y2 - y1 by linarith)]

/-! ### tie between the tensor-level group maps and the stencil maps -/

/-- `monoGroup` acts on each pair `(k, k+1)` of its group exactly as `pairProj` -/
theorem monoGroup_pair (size : Nat) (d g : Nat) (w : W) (idx : Idx) (hd : d < idx.length)
    (hg : inGroup g size (coord idx d) = true) :
    let nxt := setc idx d (coord idx d + 1)
    (monoGroup size true 0 d g w idx, monoGroup size true 0 d g w nxt) = pairProj (w idx) (w nxt) := by
  intro nxt
  have hk : coord nxt d = coord idx d + 1 := coord_setc_same _ hd
  have hng : inGroup g size (coord idx d + 1) = false := by
    simp only [inGroup, Bool.and_eq_true, decide_eq_true_eq, beq_iff_eq] at hg
    simp only [inGroup, Bool.and_eq_false_iff, decide_eq_false_iff_not, beq_eq_false_iff_ne]
    omega
  have hback : setc nxt d (coord nxt d - 1) = idx := by
    rw [hk]; simp only [nxt, setc_setc_same, Nat.add_sub_cancel]; exact setc_coord_self hd
  have hback' : setc nxt d (coord idx d) = idx := by
    simp only [nxt, setc_setc_same]; exact setc_coord_self hd
  simp only [monoGroup, hg, if_true, pairKind, hk, hng, Bool.false_eq_true, if_false,
    Nat.add_sub_cancel, pairProj]
  simp only [show (1 : Nat) ≤ coord idx d + 1 by omega, hg, true_and, if_true, hback']
  rfl

/-- a kernel monotone along `d` is fixed by both monotonicity groups of that dimension -/
theorem monoGroup_fix (sizes : List Nat) (d g : Nat) (hd : d < sizes.length) (w : W)
    (hw : MonoAx sizes d w) : AgreeOn sizes (monoGroup (sizes.getD d 0) true 0 d g w) w := by
  intro idx hr
  have hl : d < idx.length := by rw [hr.1]; exact hd
  simp only [monoGroup, pairKind, if_true]
  split
  · rename_i hg
    have : coord idx d + 1 < sizes.getD d 0 := by
      simp only [inGroup, Bool.and_eq_true, decide_eq_true_eq] at hg; exact hg.1.2
    have := hw idx hr hd this
    exact min_eq_left (by linarith)
  · split
    · rename_i _ hg
      have h1 : 1 ≤ coord idx d := hg.1
      have hin : InRange sizes (setc idx d (coord idx d - 1)) :=
        inRange_setc hr (by have := hr.2 d hd; omega)
      have := hw _ hin hd (by rw [coord_setc_same _ hl]; have := hr.2 d hd; omega)
      rw [coord_setc_same _ hl, setc_setc_same, show coord idx d - 1 + 1 = coord idx d by omega,
        setc_coord_self hl] at this
      exact max_eq_left (by linarith)
    · rfl

/-! ### non-vacuity -/
example : pairProj 3 1 = (2, 2) := by decide +kernel
example : sqProj 0 0 4 0 = (1, -1, 3, 1) := by decide +kernel
example : (dykstraIter [fun w => w] 5 ((fun _ => 7), [fun _ => 0])).1 [] = 7 := by
  rw [show ([fun _ => (0 : ℚ)] : List W) = [fun w : W => w].map (fun _ => fun _ => 0) from rfl,
    dykstra_fixpoint _ _ (by simp)]

/-! ### feasible kernels are fixed (on the box) by every group map -/

/-- a kernel satisfying the trust's Edgeworth inequalities is fixed by all four Edgeworth groups -/
theorem edgeworthGroup_fix (sizes : List Nat) (tr : Trust) (g0 g1 : Nat) (w : W) (hw : EdgeOK sizes tr w) :
    AgreeOn sizes (edgeworthGroup (sizes.getD tr.main 0) (sizes.getD tr.cond 0) tr g0 g1 w) w := by
  intro idx hr
  simp only [edgeworthGroup]
  cases h0 : stencilBase g0 (sizes.getD tr.main 0) (coord idx tr.main) with
  | none => rfl
  | some i0 =>
    cases h1 : stencilBase g1 (sizes.getD tr.cond 0) (rev (sizes.getD tr.cond 0) tr.pos (coord idx tr.cond)) with
    | none => rfl
    | some j0 =>
      have hi := (stencilBase_some h0).1
      have hj := (stencilBase_some h1).1
      simp only
      have hd : (gat w tr.main tr.cond (i0 + 1) (rev (sizes.getD tr.cond 0) tr.pos j0) idx
            - gat w tr.main tr.cond i0 (rev (sizes.getD tr.cond 0) tr.pos j0) idx)
          - (gat w tr.main tr.cond (i0 + 1) (rev (sizes.getD tr.cond 0) tr.pos (j0 + 1)) idx
            - gat w tr.main tr.cond i0 (rev (sizes.getD tr.cond 0) tr.pos (j0 + 1)) idx) ≤ 0 := by
        cases hp : tr.pos with
        | true =>
          have := hw idx hr i0 j0 hi hj
          simp only [hp, if_true, eviol] at this
          simpa [rev] using this
        | false =>
          have := hw idx hr i0 (sizes.getD tr.cond 0 - 2 - j0) hi (by omega)
          simp only [hp, Bool.false_eq_true, if_false, eviol] at this
          have e1 : sizes.getD tr.cond 0 - 2 - j0 + 1 = sizes.getD tr.cond 0 - 1 - j0 := by omega
          have e2 : sizes.getD tr.cond 0 - 1 - (j0 + 1) = sizes.getD tr.cond 0 - 2 - j0 := by omega
          rw [e1] at this
          simp only [rev, Bool.false_eq_true, if_false, e2]
          linarith
      rw [max_eq_right (by linarith)]
      split_ifs <;> simp


/-- the two trapezoid inequalities of a feasible kernel, read on the (possibly reversed) layer list
the group projection works with -/
theorem trap_lines {sizes : List Nat} {tr : Trust} (hwf : TrustWF sizes tr) {w : W} (hw : TrapOK sizes tr w)
    {idx : Idx} (hr : InRange sizes idx) {j0 : Nat} (hj : j0 + 1 < sizes.getD tr.cond 0) :
    gat w tr.main tr.cond 0 (rev (sizes.getD tr.cond 0) tr.pos (j0 + 1)) idx
        ≤ gat w tr.main tr.cond 0 (rev (sizes.getD tr.cond 0) tr.pos j0) idx ∧
      gat w tr.main tr.cond (sizes.getD tr.main 0 - 1) (rev (sizes.getD tr.cond 0) tr.pos j0) idx
        ≤ gat w tr.main tr.cond (sizes.getD tr.main 0 - 1) (rev (sizes.getD tr.cond 0) tr.pos (j0 + 1)) idx := by
  obtain ⟨hm, hc, hne⟩ := hwf
  have hM : 0 < sizes.getD tr.main 0 := inRange_pos hr hm
  have key : ∀ (x y : Nat), x < sizes.getD tr.main 0 → y + 1 < sizes.getD tr.cond 0 →
      InRange sizes (setc (setc idx tr.main x) tr.cond y) ∧
      coord (setc (setc idx tr.main x) tr.cond y) tr.main = x ∧
      coord (setc (setc idx tr.main x) tr.cond y) tr.cond = y ∧
      setc (setc (setc idx tr.main x) tr.cond y) tr.cond (y + 1) = setc (setc idx tr.main x) tr.cond (y + 1) := by
    intro x y hx hy
    refine ⟨inRange_setc (inRange_setc hr hx) (by omega), ?_, ?_, setc_setc_same _ _ _ _⟩
    · rw [coord_setc_ne _ (Ne.symm hne), coord_setc_same _ (by rw [hr.1]; exact hm)]
    · rw [coord_setc_same _ (by rw [length_setc, hr.1]; exact hc)]
  unfold TrapOK at hw
  simp only [gat]
  cases hp : tr.pos with
  | true =>
    simp only [hp, if_true] at hw
    simp only [rev, if_true]
    obtain ⟨a1, a2, a3, a4⟩ := key 0 j0 hM hj
    obtain ⟨b1, b2, b3, b4⟩ := key (sizes.getD tr.main 0 - 1) j0 (by omega) hj
    have h1 := hw.1 _ a1 a2 (by rw [a3]; exact hj)
    have h2 := hw.2 _ b1 b2 (by rw [b3]; exact hj)
    rw [a3, a4] at h1
    rw [b3, b4] at h2
    exact ⟨h1, h2⟩
  | false =>
    simp only [hp, Bool.false_eq_true, if_false] at hw
    simp only [rev, Bool.false_eq_true, if_false]
    have hj' : sizes.getD tr.cond 0 - 1 - (j0 + 1) + 1 < sizes.getD tr.cond 0 := by omega
    have e : sizes.getD tr.cond 0 - 1 - (j0 + 1) + 1 = sizes.getD tr.cond 0 - 1 - j0 := by omega
    obtain ⟨a1, a2, a3, a4⟩ := key 0 _ hM hj'
    obtain ⟨b1, b2, b3, b4⟩ := key (sizes.getD tr.main 0 - 1) _ (by omega) hj'
    have h1 := hw.1 _ a1 a2 (by rw [a3]; exact hj')
    have h2 := hw.2 _ b1 b2 (by rw [b3]; exact hj')
    rw [a3, a4, e] at h1
    rw [b3, b4, e] at h2
    exact ⟨h1, h2⟩

/-- a kernel satisfying the trust's trapezoid inequalities is fixed by both trapezoid groups -/
theorem trapezoidGroup_fix (sizes : List Nat) (tr : Trust) (g : Nat) (hwf : TrustWF sizes tr) (w : W)
    (hw : TrapOK sizes tr w) :
    AgreeOn sizes (trapezoidGroup (sizes.getD tr.main 0) (sizes.getD tr.cond 0) tr g w) w := by
  intro idx hr
  simp only [trapezoidGroup]
  cases h1 : stencilBase g (sizes.getD tr.cond 0) (rev (sizes.getD tr.cond 0) tr.pos (coord idx tr.cond)) with
  | none => rfl
  | some j0 =>
    obtain ⟨l1, l2⟩ := trap_lines hwf hw hr (stencilBase_some h1).1
    simp only
    rw [max_eq_right (by linarith), max_eq_right (by linarith)]
    split_ifs <;> simp


/-- monotonic dominance of `dom` over `weak` (the two triangle inequalities of every 2×2 cell, as
`lattice_lib.assert_constraints` checks them): `L[i+1][j] ≥ (L[i][j] + L[i+1][j+1])/2 ≥ L[i][j+1]` -/
def MonoDomOK (sizes : List Nat) (dom weak : Nat) (w : W) : Prop :=
  ∀ idx, InRange sizes idx → ∀ i j, i + 1 < sizes.getD dom 0 → j + 1 < sizes.getD weak 0 →
    (gat w dom weak i j idx + gat w dom weak (i + 1) (j + 1) idx) / 2 ≤ gat w dom weak (i + 1) j idx ∧
    gat w dom weak i (j + 1) idx ≤ (gat w dom weak i j idx + gat w dom weak (i + 1) (j + 1) idx) / 2

/-- joint monotonicity in `(d1, d2)`: `L[i+1][j+1] ≥ (L[i+1][j] + L[i][j+1])/2 ≥ L[i][j]` -/
def JointMonoOK (sizes : List Nat) (d1 d2 : Nat) (w : W) : Prop :=
  ∀ idx, InRange sizes idx → ∀ i j, i + 1 < sizes.getD d1 0 → j + 1 < sizes.getD d2 0 →
    (gat w d1 d2 (i + 1) j idx + gat w d1 d2 i (j + 1) idx) / 2 ≤ gat w d1 d2 (i + 1) (j + 1) idx ∧
    gat w d1 d2 i j idx ≤ (gat w d1 d2 (i + 1) j idx + gat w d1 d2 i (j + 1) idx) / 2

/-- range dominance of `dom` over `weak`: at every vertex `(i, j)` the range along the weak
dimension does not exceed the range along the dominant one -/
def RangeDomOK (sizes : List Nat) (dom weak : Nat) (w : W) : Prop :=
  ∀ idx, InRange sizes idx → ∀ i j, i < sizes.getD dom 0 → j < sizes.getD weak 0 →
    (gat w dom weak i (sizes.getD weak 0 - 1) idx - gat w dom weak i 0 idx)
      - (gat w dom weak (sizes.getD dom 0 - 1) j idx - gat w dom weak 0 j idx) ≤ 0

theorem monoDomGroup_fix (sizes : List Nat) (dom weak g0 g1 : Nat) (g2 : Bool) (w : W)
    (hw : MonoDomOK sizes dom weak w) :
    AgreeOn sizes (monoDomGroup (sizes.getD dom 0) (sizes.getD weak 0) dom weak g0 g1 g2 w) w := by
  intro idx hr
  simp only [monoDomGroup]
  cases h0 : stencilBase g0 (sizes.getD dom 0) (coord idx dom) with
  | none => rfl
  | some i0 =>
    cases h1 : stencilBase g1 (sizes.getD weak 0) (coord idx weak) with
    | none => rfl
    | some j0 =>
      obtain ⟨l1, l2⟩ := hw idx hr i0 j0 (stencilBase_some h0).1 (stencilBase_some h1).1
      simp only
      rw [max_eq_right (by linarith), min_eq_right (by linarith)]
      split_ifs <;> simp

theorem jointMonoGroup_fix (sizes : List Nat) (d1 d2 g0 g1 : Nat) (g2 : Bool) (w : W)
    (hw : JointMonoOK sizes d1 d2 w) :
    AgreeOn sizes (jointMonoGroup (sizes.getD d1 0) (sizes.getD d2 0) d1 d2 g0 g1 g2 w) w := by
  intro idx hr
  simp only [jointMonoGroup]
  cases h0 : stencilBase g0 (sizes.getD d1 0) (coord idx d1) with
  | none => rfl
  | some i0 =>
    cases h1 : stencilBase g1 (sizes.getD d2 0) (coord idx d2) with
    | none => rfl
    | some j0 =>
      obtain ⟨l1, l2⟩ := hw idx hr i0 j0 (stencilBase_some h0).1 (stencilBase_some h1).1
      simp only
      rw [max_eq_right (by linarith), min_eq_right (by linarith)]
      split_ifs <;> simp

theorem rangeDomGroup_fix (sizes : List Nat) (dom weak i j : Nat) (hi : i < sizes.getD dom 0)
    (hj : j < sizes.getD weak 0) (w : W) (hw : RangeDomOK sizes dom weak w) :
    AgreeOn sizes (rangeDomGroup (sizes.getD dom 0) (sizes.getD weak 0) dom weak i j w) w := by
  intro idx hr
  have l := hw idx hr i j hi hj
  simp only [rangeDomGroup]
  rw [max_eq_right (by linarith), max_eq_right (by linarith)]
  split_ifs <;> simp

/-- the direction `_project_partial_monotonicity` enforces on every adjacent pair of dimension `d`
(increasing everywhere for a monotone dimension; valley / peak halves for unimodality) holds -/
def PairsOK (sizes : List Nat) (mono : Bool) (unimod : Int) (d : Nat) (w : W) : Prop :=
  ∀ idx, InRange sizes idx → coord idx d + 1 < sizes.getD d 0 →
    match pairKind mono unimod (sizes.getD d 0) (coord idx d) with
    | .incr => w idx ≤ w (setc idx d (coord idx d + 1))
    | .decr => w (setc idx d (coord idx d + 1)) ≤ w idx
    | .none => True

theorem pairsOK_of_mono {sizes : List Nat} {d : Nat} (hd : d < sizes.length) {w : W} (unimod : Int)
    (hw : MonoAx sizes d w) : PairsOK sizes true unimod d w := by
  intro idx hr hlt
  simp only [pairKind, if_true]
  exact hw idx hr hd hlt

/-- monotone AND unimodal dimensions: a kernel whose adjacent pairs all have the enforced direction
is fixed by both monotonicity groups (generalises `monoGroup_fix`) -/
theorem monoGroup_fix_pairs (sizes : List Nat) (mono : Bool) (unimod : Int) (d g : Nat)
    (hd : d < sizes.length) (w : W) (hw : PairsOK sizes mono unimod d w) :
    AgreeOn sizes (monoGroup (sizes.getD d 0) mono unimod d g w) w := by
  intro idx hr
  have hl : d < idx.length := by rw [hr.1]; exact hd
  simp only [monoGroup]
  split_ifs with h1 h2
  · have := hw idx hr (inGroup_lt h1)
    cases hk : pairKind mono unimod (sizes.getD d 0) (coord idx d) with
    | incr => rw [hk] at this; exact min_eq_left (by linarith)
    | decr => rw [hk] at this; exact max_eq_left (by linarith)
    | none => rfl
  · have hlt := inGroup_lt h2.2
    have hin : InRange sizes (setc idx d (coord idx d - 1)) := inRange_setc hr (by omega)
    have := hw _ hin (by rw [coord_setc_same _ hl]; exact hlt)
    rw [coord_setc_same _ hl, setc_setc_same, show coord idx d - 1 + 1 = coord idx d by omega,
      setc_coord_self hl] at this
    cases hk : pairKind mono unimod (sizes.getD d 0) (coord idx d - 1) with
    | incr => rw [hk] at this; exact max_eq_left (by linarith)
    | decr => rw [hk] at this; exact min_eq_left (by linarith)
    | none => rfl
  · rfl


/-- joint unimodality of the constraint `ju`: in every slice of the non-constrained dimensions, every
hyperplane the loop projects onto (one per (vertex, offsets) pair that yields a group) has the sign
the direction prescribes — `a·v ≥ 0` for `'valley'`, `a·v ≤ 0` for `'peak'` -/
def JointUniOK (c : DCfg) (ju : JointUni) (w : W) : Prop :=
  ∀ vertex ∈ allIdx (ju.dims.map (sz c)), ∀ offs ∈ offsetsAll ju.dims.length, ∀ st,
    juStencil (ju.dims.map (sz c)) vertex offs = some st → ∀ idx, InRange c.sizes idx →
      if ju.valley then 0 ≤ rsum (st.map (fun pc => (pc.2 : ℚ) * w (setcs idx ju.dims pc.1)))
      else rsum (st.map (fun pc => (pc.2 : ℚ) * w (setcs idx ju.dims pc.1))) ≤ 0

/-- a kernel satisfying the hyperplane inequality in the slice of `idx` is not moved there -/
theorem hyperplaneGroup_fix_rat (dims : List Nat) (valley : Bool) (st : List (List Nat × Int)) (w : W) (idx : Idx)
    (h : if valley then 0 ≤ rsum (st.map (fun pc => (pc.2 : ℚ) * w (setcs idx dims pc.1)))
      else rsum (st.map (fun pc => (pc.2 : ℚ) * w (setcs idx dims pc.1))) ≤ 0) :
    hyperplaneGroup dims valley st w idx = w idx := by
  simp only [hyperplaneGroup]
  cases valley
  · simp only [Bool.false_eq_true, if_false] at h ⊢
    rw [max_eq_right h]
    cases st.lookup (coordsOf idx dims) <;> simp
  · simp only [if_true] at h ⊢
    rw [min_eq_right h]
    cases st.lookup (coordsOf idx dims) <;> simp

/-- `w` satisfies, on the box, every constraint `project_by_dykstra` projects onto for the
configuration `c` (monotone / unimodal pair directions, Edgeworth, trapezoid, monotonic dominance,
range dominance, joint monotonicity, joint unimodality) -/
structure FeasibleD (c : DCfg) (w : W) : Prop where
  pairs : ∀ d, d < c.sizes.length → PairsOK c.sizes (c.mono.getD d false) (c.unimod.getD d 0) d w
  edge : ∀ tr ∈ c.edgeworth, EdgeOK c.sizes tr w
  trap : ∀ tr ∈ c.trapezoid, TrapOK c.sizes tr w
  mdom : ∀ p ∈ c.monoDom, MonoDomOK c.sizes p.1 p.2 w
  rdom : ∀ p ∈ c.rangeDom, RangeDomOK c.sizes p.1 p.2 w
  jmono : ∀ p ∈ c.jointMono, JointMonoOK c.sizes p.1 p.2 w
  juni : ∀ ju ∈ c.jointUnimod, JointUniOK c ju w

/-- **C08-T2 (all group kinds).** A feasible kernel is fixed on the box by EVERY group projection
the loop visits. (`hwf`: trapezoid trusts name two different dimensions of the lattice — what
`verify_hyperparameters` guarantees.) -/
theorem groups_fix (c : DCfg) (w : W) (hwf : ∀ tr ∈ c.trapezoid, TrustWF c.sizes tr) (hf : FeasibleD c w) :
    ∀ P ∈ groups c, AgreeOn c.sizes (P w) w := by
  intro P hP
  simp only [groups, List.mem_append, List.mem_flatMap, List.mem_range] at hP
  rcases hP with (((((hP | hP) | hP) | hP) | hP) | hP) | hP
  · obtain ⟨d, hd, hP⟩ := hP
    split_ifs at hP
    · cases hP
    · obtain ⟨g, _, rfl⟩ := List.mem_map.mp hP
      exact monoGroup_fix_pairs c.sizes _ _ d g hd w (hf.pairs d hd)
  · obtain ⟨tr, htr, hP⟩ := hP
    obtain ⟨g, _, rfl⟩ := List.mem_map.mp hP
    exact edgeworthGroup_fix c.sizes tr g.1 g.2 w (hf.edge tr htr)
  · obtain ⟨tr, htr, hP⟩ := hP
    obtain ⟨g, _, rfl⟩ := List.mem_map.mp hP
    exact trapezoidGroup_fix c.sizes tr g (hwf tr htr) w (hf.trap tr htr)
  · obtain ⟨p, hp, hP⟩ := hP
    obtain ⟨g, _, rfl⟩ := List.mem_map.mp hP
    exact monoDomGroup_fix c.sizes p.1 p.2 g.1 g.2.1 g.2.2 w (hf.mdom p hp)
  · obtain ⟨p, hp, i, hi, hP⟩ := hP
    obtain ⟨j, hj, rfl⟩ := List.mem_map.mp hP
    exact rangeDomGroup_fix c.sizes p.1 p.2 i j hi (List.mem_range.mp hj) w (hf.rdom p hp)
  · obtain ⟨p, hp, hP⟩ := hP
    obtain ⟨g, _, rfl⟩ := List.mem_map.mp hP
    exact jointMonoGroup_fix c.sizes p.1 p.2 g.1 g.2.1 g.2.2 w (hf.jmono p hp)
  · obtain ⟨ju, hju, vertex, hv, hP⟩ := hP
    obtain ⟨offs, ho, hst⟩ := List.mem_filterMap.mp hP
    cases hs : juStencil (ju.dims.map (sz c)) vertex offs with
    | none => rw [hs] at hst; cases hst
    | some st =>
      rw [hs] at hst
      simp only [Option.map_some, Option.some.injEq] at hst
      subst hst
      intro idx hr
      exact hyperplaneGroup_fix_rat ju.dims ju.valley st w idx (hf.juni ju hju vertex hv offs ho st hs idx hr)

/-! ### T2 on the executable loop (`dykstraIterT` / `projectByDykstraT`, what the driver runs) -/

/-- **C08-T2, executable, whole state.** On a normalised table (`t = tabulate sizes t.get`; every
table the loop itself produces is) that every group map fixes on the box, the table loop returns
LITERALLY the same state — same table, all `last_change` tables zero — for every iteration count. -/
theorem dykstraT_fixpoint_state (sizes : List Nat) (ps : List (W → W)) (t : Table)
    (ht : t = tabulate sizes t.get) (h : ∀ P ∈ ps, AgreeOn sizes (P t.get) t.get) (n : Nat) :
    dykstraIterT sizes ps n (t, ps.map (fun _ => zeroT sizes)) = (t, ps.map (fun _ => zeroT sizes)) :=
  dykstraIterT_fix sizes ps t ht h n

/-- **C08-T2, executable, whole state, shared slots.** The same for the loop `project_by_dykstra`'s
model actually runs (`dykstraIterST`: every group visit paired with the slot of its `last_change` dict
key, repeated constraints share slots): same table, all slots still zero, for every iteration count
and ANY assignment of slots. -/
theorem dykstraST_fixpoint_state (sizes : List Nat) (ps : List ((W → W) × Nat)) (t : Table)
    (ht : t = tabulate sizes t.get) (h : ∀ q ∈ ps, AgreeOn sizes (q.1 t.get) t.get) {α : Type} (l : List α)
    (n : Nat) :
    dykstraIterST sizes ps n (t, l.map (fun _ => zeroT sizes)) = (t, l.map (fun _ => zeroT sizes)) :=
  dykstraIterST_fix sizes ps t ht h _ (allZeroT_map sizes l) n

/-- **C08-T2, executable.** If every group map of the configuration fixes the table's kernel on the
box, `project_by_dykstra` returns the same kernel values, for EVERY number of iterations and any
table representation (locality of all group maps is `groups_local`, not a hypothesis). -/
theorem projectByDykstraT_fixpoint (c : DCfg) (n : Nat) (t : Table)
    (h : ∀ P ∈ groups c, AgreeOn c.sizes (P t.get) t.get) :
    Table.vals c.sizes (projectByDykstraT c n t) = Table.vals c.sizes t := by
  unfold projectByDykstraT
  split_ifs
  · rfl
  · exact dykstraIterST_fix_any c.sizes ((groups c).zip (slots c)) t
      (fun q hq => groups_local c q.1 (zip_fst_mem hq)) (fun q hq => h q.1 (zip_fst_mem hq)) _
      (allZeroT_map c.sizes _) n

/-- normalised table: the result is literally the input table -/
theorem projectByDykstraT_fixpoint_normal (c : DCfg) (n : Nat) (t : Table) (ht : t = tabulate c.sizes t.get)
    (h : ∀ P ∈ groups c, AgreeOn c.sizes (P t.get) t.get) : projectByDykstraT c n t = t := by
  unfold projectByDykstraT
  split_ifs
  · rfl
  · simp only [dykstraIterST_fix c.sizes ((groups c).zip (slots c)) t ht
      (fun q hq => h q.1 (zip_fst_mem hq)) _ (allZeroT_map c.sizes _) n]

/-- **C08-T2, executable, feasible ⇒ unchanged.** A kernel satisfying every constraint of the
configuration passes through the executable `project_by_dykstra` unchanged (values on the box),
for every iteration count. -/
theorem projectByDykstraT_feasible (c : DCfg) (n : Nat) (t : Table)
    (hwf : ∀ tr ∈ c.trapezoid, TrustWF c.sizes tr) (hf : FeasibleD c t.get) :
    Table.vals c.sizes (projectByDykstraT c n t) = Table.vals c.sizes t :=
  projectByDykstraT_fixpoint c n t (groups_fix c t.get hwf hf)

/-- **C08-T2, executable, projecting twice.** If the result of a run is fixed by every group map
(e.g. it is feasible), projecting it again — any iteration count — does not move it. -/
theorem projectByDykstraT_twice (c : DCfg) (n m : Nat) (t : Table)
    (h : ∀ P ∈ groups c, AgreeOn c.sizes (P (projectByDykstraT c n t).get) (projectByDykstraT c n t).get) :
    Table.vals c.sizes (projectByDykstraT c m (projectByDykstraT c n t))
      = Table.vals c.sizes (projectByDykstraT c n t) :=
  projectByDykstraT_fixpoint c m _ h

/-! ### T3 on the executable loop -/

theorem rsum_agreeL {sizes : List Nat} {ts : List Table} {cs : List W} (h : AgreeL sizes ts cs) {idx : Idx}
    (hr : InRange sizes idx) : rsum (ts.map (fun t => t.get idx)) = csum cs idx := by
  induction h with
  | nil => rfl
  | cons h _ ih => simp only [List.map_cons, rsum, csum] at ih ⊢; rw [h idx hr, ih]

theorem agreeL_refl (sizes : List Nat) (ts : List Table) : AgreeL sizes ts (ts.map Table.get) := by
  induction ts with
  | nil => exact List.Forall₂.nil
  | cons t ts ih => exact List.Forall₂.cons (AgreeOn.refl _ _) ih

/-- **C08-T3, executable.** For local group maps the table loop keeps `t − Σ_g last_change_g`
invariant on every vertex of the box, over any number of passes and from any state. -/
theorem dykstraIterT_telescoping (sizes : List Nat) (ps : List (W → W)) (hloc : ∀ P ∈ ps, Local sizes P)
    (n : Nat) (t : Table) (ts : List Table) (hl : ts.length = ps.length) (idx : Idx) (hr : InRange sizes idx) :
    (dykstraIterT sizes ps n (t, ts)).1.get idx
        - rsum ((dykstraIterT sizes ps n (t, ts)).2.map (fun c => c.get idx))
      = t.get idx - rsum (ts.map (fun c => c.get idx)) := by
  obtain ⟨h1, h2⟩ := dykstraIterT_agree sizes ps hloc n (AgreeOn.refl sizes t.get) (agreeL_refl sizes ts)
  rw [h1 idx hr, rsum_agreeL h2 hr, rsum_agreeL (agreeL_refl sizes ts) hr]
  exact dykstraIter_telescoping ps n t.get (ts.map Table.get) (by simpa using hl) idx

/-- **C08-T3, executable, shared slots.** For local group maps the slotted table loop (`dykstraIterST`:
positions with the same dict key share one `last_change` table) keeps `t − Σ_slots last_change`
invariant on every vertex of the box, over any number of passes, from any state, for ANY assignment
of slots inside the slot list. -/
theorem dykstraIterST_telescoping (sizes : List Nat) (ps : List ((W → W) × Nat))
    (hloc : ∀ q ∈ ps, Local sizes q.1) (n : Nat) (t : Table) (ts : List Table)
    (hs : ∀ q ∈ ps, q.2 < ts.length) (idx : Idx) (hr : InRange sizes idx) :
    (dykstraIterST sizes ps n (t, ts)).1.get idx
        - rsum ((dykstraIterST sizes ps n (t, ts)).2.map (fun c => c.get idx))
      = t.get idx - rsum (ts.map (fun c => c.get idx)) := by
  obtain ⟨h1, h2⟩ := dykstraIterST_agree sizes ps hloc n (AgreeOn.refl sizes t.get) (agreeL_refl sizes ts)
  rw [h1 idx hr, rsum_agreeL h2 hr, rsum_agreeL (agreeL_refl sizes ts) hr]
  exact dykstraIterS_telescoping ps n t.get (ts.map Table.get) (by simpa using hs) idx

theorem rsum_zeroT {sizes : List Nat} {α : Type} (l : List α) {idx : Idx} (hr : InRange sizes idx) :
    rsum ((l.map (fun _ => zeroT sizes)).map (fun t => t.get idx)) = 0 := by
  induction l with
  | nil => rfl
  | cons a r ih =>
    have hz : (zeroT sizes).get idx = 0 := by simp only [zeroT, get_tabulate' _ hr]
    simp only [List.map_cons, rsum, ih, hz, add_zero]

/-- **C08-T3 for `project_by_dykstra` itself** (the loop `projectByDykstraT` runs: the real group
schedule, one `last_change` table per dict key, all zero at the start): after `n` passes
`result − Σ_keys last_change` is the input, on every vertex — also when constraints are listed
twice and share their slots. -/
theorem projectByDykstraT_telescopingS (c : DCfg) (n : Nat) (t : Table) (idx : Idx) (hr : InRange c.sizes idx) :
    (dykstraIterST c.sizes ((groups c).zip (slots c)) n (t, (groups c).map (fun _ => zeroT c.sizes))).1.get idx
        - rsum ((dykstraIterST c.sizes ((groups c).zip (slots c)) n
            (t, (groups c).map (fun _ => zeroT c.sizes))).2.map (fun l => l.get idx))
      = t.get idx := by
  rw [dykstraIterST_telescoping c.sizes _ (fun q hq => groups_local c q.1 (zip_fst_mem hq)) n t _
    (fun q hq => by
      have := firstIdx_lt (groupKeys c) q.2 (zip_snd_mem hq)
      rw [List.length_map, ← groupKeys_length]; exact this) idx hr]
  rw [rsum_zeroT _ hr, sub_zero]

/-- **C08-T3 for the position-slotted loop** (`dykstraIterT` over the real group schedule — the loop
`projectByDykstraT` runs when no dict key repeats, `projectByDykstraT_of_nodup`): after `n` passes
`result − Σ_g last_change_g` is the input, on every vertex. -/
theorem projectByDykstraT_telescoping (c : DCfg) (n : Nat) (t : Table) (idx : Idx) (hr : InRange c.sizes idx) :
    (dykstraIterT c.sizes (groups c) n (t, (groups c).map (fun _ => zeroT c.sizes))).1.get idx
        - rsum ((dykstraIterT c.sizes (groups c) n (t, (groups c).map (fun _ => zeroT c.sizes))).2.map
            (fun l => l.get idx))
      = t.get idx := by
  rw [dykstraIterT_telescoping c.sizes (groups c) (groups_local c) n t _ (by simp) idx hr]
  have : rsum (((groups c).map (fun _ => zeroT c.sizes)).map (fun l => l.get idx)) = 0 := by
    generalize groups c = ps
    induction ps with
    | nil => rfl
    | cons P r ih =>
      have hz : (zeroT c.sizes).get idx = 0 := by simp only [zeroT, get_tabulate' _ hr]
      simp only [List.map_cons, rsum, ih, hz, add_zero]
  rw [this, sub_zero]

/-- the executable loop of `projectByDykstraT` (slots keyed by the dict keys) computes, on the box,
exactly the function-level slotted loop (model-internal tie, any iteration count, repeated
constraints included) -/
theorem projectByDykstraT_agreeS (c : DCfg) (n : Nat) (t : Table) :
    AgreeOn c.sizes
      (dykstraIterST c.sizes ((groups c).zip (slots c)) n (t, (groups c).map (fun _ => zeroT c.sizes))).1.get
      (dykstraIterS ((groups c).zip (slots c)) n (t.get, (groups c).map (fun _ => fun _ => 0))).1 :=
  (dykstraIterST_agree c.sizes _ (fun q hq => groups_local c q.1 (zip_fst_mem hq)) n (AgreeOn.refl _ _)
    (agreeL_zero c.sizes _)).1

/-- the position-slotted executable loop computes, on the box, exactly the function-level loop of the
bookkeeping theorems (model-internal tie, any iteration count) -/
theorem projectByDykstraT_agree (c : DCfg) (n : Nat) (t : Table) :
    AgreeOn c.sizes (dykstraIterT c.sizes (groups c) n (t, (groups c).map (fun _ => zeroT c.sizes))).1.get
      (dykstraIter (groups c) n (t.get, (groups c).map (fun _ => fun _ => 0))).1 :=
  (dykstraIterT_agree c.sizes (groups c) (groups_local c) n (AgreeOn.refl _ _) (agreeL_zero c.sizes _)).1


/-! ### non-vacuity of the executable statements -/

theorem agreeOn_of_map_eq {sizes : List Nat} {f g : W} (h : (allIdx sizes).map f = (allIdx sizes).map g) :
    AgreeOn sizes f g := fun idx hr => List.map_inj_left.mp h idx (mem_allIdx.mpr hr)

/-- 3×3 lattice (both group parities occur), monotone in dimension 0, Edgeworth trust of 0 conditional on 1 -/
def cEx : DCfg := { sizes := [3, 3], mono := [true, false], edgeworth := [⟨0, 1, true⟩] }
def tEx : Table := Table.ofVals [3, 3] [0, 0, 0, 1, 2, 3, 2, 4, 6]

example : (groups cEx).length = 6 := by decide +kernel
/-- every group of `cEx` fixes `tEx`, hence EVERY iteration count returns it unchanged -/
example (n : Nat) : Table.vals [3, 3] (projectByDykstraT cEx n tEx) = [0, 0, 0, 1, 2, 3, 2, 4, 6] := by
  have hall : (groups cEx).all (fun P =>
      decide ((allIdx [3, 3]).map (P tEx.get) = (allIdx [3, 3]).map tEx.get)) = true := by decide +kernel
  have h : ∀ P ∈ groups cEx, AgreeOn cEx.sizes (P tEx.get) tEx.get := fun P hP =>
    agreeOn_of_map_eq (of_decide_eq_true (List.all_eq_true.mp hall P hP))
  have := projectByDykstraT_fixpoint cEx n tEx h
  rw [show cEx.sizes = [3, 3] from rfl] at this
  rw [this]; decide +kernel
/-- an infeasible kernel IS moved by the same loop (the hypothesis is not vacuous) -/
example : Table.vals [3, 3] (projectByDykstraT cEx 1 (Table.ofVals [3, 3] [1, 0, 0, 0, 0, 0, 0, 0, 0]))
    = [1/2, 0, 0, 1/4, 0, 0, 1/4, 0, 0] := by decide +kernel
/-- `FeasibleD` is inhabited: the kernel `idx ↦ idx₀` on a monotone 1-D lattice -/
example : FeasibleD { sizes := [3], mono := [true] } (fun idx => (coord idx 0 : ℚ)) := by
  refine ⟨?_, by simp, by simp, by simp, by simp, by simp, by simp⟩
  intro d hd idx hr hlt
  have hd0 : d = 0 := by simpa using hd
  subst hd0
  have hl : 0 < idx.length := by rw [hr.1]; simp
  simp only [List.getD_cons_zero, pairKind, if_true, coord_setc_same _ hl]
  push_cast; linarith


open Tfl.DykConv Filter Topology

/-! ### C08 convergence (Boyle–Dykstra) for the monotonicity groups -/

/-- `pairProj_vi` against a REAL feasible pair -/
theorem pairProj_vi_real (a b : ℚ) (y1 y2 : ℝ) (hy : y1 ≤ y2) :
    ((a : ℝ) - ((pairProj a b).1 : ℝ)) * (y1 - ((pairProj a b).1 : ℝ))
      + ((b : ℝ) - ((pairProj a b).2 : ℝ)) * (y2 - ((pairProj a b).2 : ℝ)) ≤ 0 := by
  by_cases hab : a ≤ b
  · rw [pairProj_fix a b hab]; simp
  · have hlt := not_le.mp hab
    have h1 : min a ((a + b) / 2) = (a + b) / 2 := min_eq_right (by linarith)
    have h2 : max b ((a + b) / 2) = (a + b) / 2 := max_eq_right (by linarith)
    have hR : (b : ℝ) < a := by exact_mod_cast hlt
    simp only [pairProj, h1, h2]
    push_cast
    nlinarith [mul_nonneg (show (0:ℝ) ≤ ((a:ℝ) - b) / 2 by linarith) (show (0:ℝ) ≤ y2 - y1 by linarith)]

/-- feasibility of a real kernel for the monotonicity group `(d, g)`: every pair `(k, k+1)` of the
group along `d` is non-decreasing, on the box -/
def MonoF (sizes : List Nat) (k : Nat × Nat) (y : Idx → ℝ) : Prop :=
  ∀ idx, InRange sizes idx → inGroup k.2 (sizes.getD k.1 0) (coord idx k.1) = true →
    y idx ≤ y (setc idx k.1 (coord idx k.1 + 1))

/-- the group map of key `(d, g)` -/
def monoMap (sizes : List Nat) (k : Nat × Nat) : W → W := monoGroup (sizes.getD k.1 0) true 0 k.1 k.2

theorem monoMap_lands (sizes : List Nat) (d g : Nat) (hd : d < sizes.length) (w : W) :
    MonoF sizes (d, g) (fun idx => (monoMap sizes (d, g) w idx : ℝ)) := by
  intro idx hr hg
  have hd' : d < idx.length := by rw [hr.1]; exact hd
  have h := monoGroup_pair (sizes.getD d 0) d g w idx hd' hg
  have h1 := pairProj_lands (w idx) (w (setc idx d (coord idx d + 1)))
  simp only at h
  rw [← h] at h1
  simp only [monoMap]
  exact_mod_cast h1

theorem monoF_closed (sizes : List Nat) (k : Nat × Nat) : IsClosed {y : Idx → ℝ | MonoF sizes k y} := by
  have : {y : Idx → ℝ | MonoF sizes k y} = ⋂ idx, ⋂ (_ : InRange sizes idx),
      ⋂ (_ : inGroup k.2 (sizes.getD k.1 0) (coord idx k.1) = true),
        {y : Idx → ℝ | y idx ≤ y (setc idx k.1 (coord idx k.1 + 1))} := by
    ext y; simp [MonoF]
  rw [this]
  refine isClosed_iInter (fun idx => isClosed_iInter (fun _ => isClosed_iInter (fun _ => ?_)))
  exact isClosed_le (continuous_apply _) (continuous_apply _)

theorem monoF_local (sizes : List Nat) (k : Nat × Nat) (y y' : Idx → ℝ)
    (h : ∀ idx, InRange sizes idx → y idx = y' idx) (hy : MonoF sizes k y) : MonoF sizes k y' := by
  intro idx hr hg
  rw [← h idx hr, ← h _ (inRange_setc hr (inGroup_lt hg))]
  exact hy idx hr hg

/-- **variational inequality of a whole monotonicity group on the box**: the stencils (pairs) of one
parity group are disjoint, so the box sum splits into pair sums, each `≤ 0` by `pairProj_vi`. -/
theorem monoMap_vi (sizes : List Nat) (d g : Nat) (hd : d < sizes.length) (w : W) (y : Idx → ℝ)
    (hy : MonoF sizes (d, g) y) :
    bsum sizes (fun idx => ((w idx : ℝ) - (monoMap sizes (d, g) w idx : ℝ))
      * (y idx - (monoMap sizes (d, g) w idx : ℝ))) ≤ 0 := by
  set n := sizes.getD d 0 with hn
  set M := monoMap sizes (d, g) w with hM
  set t : Idx → ℝ := fun idx => ((w idx : ℝ) - (M idx : ℝ)) * (y idx - (M idx : ℝ)) with ht
  set B := (allIdx sizes).toFinset with hB
  have hmemB : ∀ idx, idx ∈ B ↔ InRange sizes idx := fun idx => by simp [hB, mem_allIdx]
  -- index facts
  have up_facts : ∀ idx, InRange sizes idx → inGroup g n (coord idx d) = true →
      InRange sizes (setc idx d (coord idx d + 1)) ∧
      coord (setc idx d (coord idx d + 1)) d = coord idx d + 1 ∧
      setc (setc idx d (coord idx d + 1)) d (coord idx d) = idx := by
    intro idx hr hg
    have hl : d < idx.length := by rw [hr.1]; exact hd
    exact ⟨inRange_setc hr (inGroup_lt hg), coord_setc_same _ hl,
      by rw [setc_setc_same]; exact setc_coord_self hl⟩
  have dn_facts : ∀ idx, InRange sizes idx → 1 ≤ coord idx d →
      inGroup g n (coord idx d - 1) = true →
      InRange sizes (setc idx d (coord idx d - 1)) ∧
      coord (setc idx d (coord idx d - 1)) d = coord idx d - 1 ∧
      setc (setc idx d (coord idx d - 1)) d (coord idx d - 1 + 1) = idx := by
    intro idx hr h1 hg
    have hl : d < idx.length := by rw [hr.1]; exact hd
    have := hr.2 d hd
    refine ⟨inRange_setc hr (by omega), coord_setc_same _ hl, ?_⟩
    rw [setc_setc_same, show coord idx d - 1 + 1 = coord idx d by omega]
    exact setc_coord_self hl
  have excl : ∀ k, inGroup g n k = true → ¬ (1 ≤ k ∧ inGroup g n (k - 1) = true) := by
    intro k h1 h2
    simp only [inGroup, Bool.and_eq_true, decide_eq_true_eq, beq_iff_eq] at h1 h2
    omega
  -- split the sum: lower elements, upper elements, untouched
  have hsplit : ∀ idx ∈ B, t idx
      = (if inGroup g n (coord idx d) = true then t idx else 0)
        + (if 1 ≤ coord idx d ∧ inGroup g n (coord idx d - 1) = true then t idx else 0) := by
    intro idx _
    by_cases h1 : inGroup g n (coord idx d) = true
    · rw [if_pos h1, if_neg (excl _ h1), add_zero]
    · by_cases h2 : 1 ≤ coord idx d ∧ inGroup g n (coord idx d - 1) = true
      · rw [if_neg h1, if_pos h2, zero_add]
      · rw [if_neg h1, if_neg h2, add_zero]
        have : M idx = w idx := by
          simp only [hM, monoMap, monoGroup, ← hn, h1, h2]
          simp
        simp only [ht, this, sub_self, zero_mul]
  rw [bsum_eq_finset, Finset.sum_congr rfl hsplit, Finset.sum_add_distrib, ← Finset.sum_filter,
    ← Finset.sum_filter]
  -- move the upper elements down
  have hmove : ∑ idx ∈ B.filter (fun idx => 1 ≤ coord idx d ∧ inGroup g n (coord idx d - 1) = true), t idx
      = ∑ idx ∈ B.filter (fun idx => inGroup g n (coord idx d) = true),
          t (setc idx d (coord idx d + 1)) := by
    refine Finset.sum_nbij' (fun idx => setc idx d (coord idx d - 1))
      (fun idx => setc idx d (coord idx d + 1)) ?_ ?_ ?_ ?_ ?_
    · intro idx hi
      obtain ⟨hb, h1, h2⟩ := Finset.mem_filter.mp hi
      obtain ⟨f1, f2, _⟩ := dn_facts idx ((hmemB idx).mp hb) h1 h2
      exact Finset.mem_filter.mpr ⟨(hmemB _).mpr f1, by rw [f2]; exact h2⟩
    · intro idx hi
      obtain ⟨hb, h1⟩ := Finset.mem_filter.mp hi
      obtain ⟨f1, f2, _⟩ := up_facts idx ((hmemB idx).mp hb) h1
      exact Finset.mem_filter.mpr ⟨(hmemB _).mpr f1, by rw [f2]; exact ⟨by omega, by simpa using h1⟩⟩
    · intro idx hi
      obtain ⟨hb, h1, h2⟩ := Finset.mem_filter.mp hi
      obtain ⟨_, f2, f3⟩ := dn_facts idx ((hmemB idx).mp hb) h1 h2
      simp only [f2, f3]
    · intro idx hi
      obtain ⟨hb, h1⟩ := Finset.mem_filter.mp hi
      obtain ⟨_, f2, f3⟩ := up_facts idx ((hmemB idx).mp hb) h1
      simp only [f2, Nat.add_sub_cancel, f3]
    · intro idx hi
      obtain ⟨hb, h1, h2⟩ := Finset.mem_filter.mp hi
      obtain ⟨_, f2, f3⟩ := dn_facts idx ((hmemB idx).mp hb) h1 h2
      simp only [f2, f3]
  rw [hmove, ← Finset.sum_add_distrib]
  refine Finset.sum_nonpos (fun idx hi => ?_)
  obtain ⟨hb, h1⟩ := Finset.mem_filter.mp hi
  have hr := (hmemB idx).mp hb
  have hl : d < idx.length := by rw [hr.1]; exact hd
  have hp := monoGroup_pair n d g w idx hl h1
  simp only at hp
  have hv := pairProj_vi_real (w idx) (w (setc idx d (coord idx d + 1))) (y idx)
    (y (setc idx d (coord idx d + 1))) (hy idx hr h1)
  rw [← hp] at hv
  exact hv

/-- configuration with only monotonicity flags: any rank, any sizes, any set of monotone dimensions -/
def monoCfg (sizes : List Nat) (mono : List Bool) : DCfg := { sizes := sizes, mono := mono }

/-- the group keys `(dimension, parity)` in the order `project_by_dykstra` visits them -/
def monoKeys (sizes : List Nat) (mono : List Bool) : List (Nat × Nat) :=
  (List.range sizes.length).flatMap (fun d =>
    if mono.getD d false then ([0, 1].filter (fun g => g + 1 < sizes.getD d 0)).map (fun g => (d, g))
    else [])

theorem groups_monoCfg (sizes : List Nat) (mono : List Bool) :
    groups (monoCfg sizes mono) = (monoKeys sizes mono).map (monoMap sizes) := by
  simp only [groups, monoCfg, monoKeys, sz, List.flatMap_nil, List.append_nil, List.map_flatMap]
  refine List.flatMap_congr (fun d _ => ?_)
  rcases Bool.eq_false_or_eq_true (mono.getD d false) with hm | hm
  · simp only [hm]; simp [monoMap]
  · simp only [hm]; simp

theorem mem_monoKeys {sizes : List Nat} {mono : List Bool} {k : Nat × Nat} :
    k ∈ monoKeys sizes mono ↔
      k.1 < sizes.length ∧ mono.getD k.1 false = true ∧ k.2 < 2 ∧ k.2 + 1 < sizes.getD k.1 0 := by
  obtain ⟨d, g⟩ := k
  simp only [monoKeys, List.mem_flatMap, List.mem_range]
  constructor
  · rintro ⟨d', hd', h⟩
    split_ifs at h with hm
    · simp only [List.mem_map, List.mem_filter, decide_eq_true_eq] at h
      obtain ⟨g', ⟨hg1, hg2⟩, he⟩ := h
      cases he
      refine ⟨hd', hm, ?_, hg2⟩
      simp at hg1; omega
    · cases h
  · rintro ⟨h1, h2, h3, h4⟩
    refine ⟨d, h1, ?_⟩
    rw [if_pos h2]
    simp only [List.mem_map, List.mem_filter, decide_eq_true_eq]
    refine ⟨g, ⟨?_, h4⟩, rfl⟩
    have : g = 0 ∨ g = 1 := by omega
    rcases this with rfl | rfl <;> simp

/-- a real kernel that is non-decreasing, on the box, along every monotone dimension -/
def MonoR (sizes : List Nat) (mono : List Bool) (y : Idx → ℝ) : Prop :=
  ∀ d, d < sizes.length → mono.getD d false = true → ∀ idx, InRange sizes idx →
    coord idx d + 1 < sizes.getD d 0 → y idx ≤ y (setc idx d (coord idx d + 1))

/-- feasible for both parity groups of every monotone dimension ⇔ monotone -/
theorem monoF_all_iff (sizes : List Nat) (mono : List Bool) (y : Idx → ℝ) :
    (∀ k ∈ monoKeys sizes mono, MonoF sizes k y) ↔ MonoR sizes mono y := by
  constructor
  · intro h d hd hm idx hr hlt
    have hk : (d, coord idx d % 2) ∈ monoKeys sizes mono := by
      rw [mem_monoKeys]
      refine ⟨hd, hm, Nat.mod_lt _ (by norm_num), ?_⟩
      have := Nat.mod_le (coord idx d) 2
      simp only; omega
    refine h _ hk idx hr ?_
    simp only [inGroup, Bool.and_eq_true, decide_eq_true_eq, beq_iff_eq]
    have := Nat.mod_le (coord idx d) 2
    omega
  · intro h k hk idx hr hg
    obtain ⟨h1, h2, _, _⟩ := mem_monoKeys.mp hk
    exact h k.1 h1 h2 idx hr (inGroup_lt hg)

theorem le_bsum {sizes : List Nat} {f : Idx → ℝ} (hf : ∀ idx, 0 ≤ f idx) {idx : Idx}
    (hr : InRange sizes idx) : f idx ≤ bsum sizes f := by
  unfold bsum
  refine List.single_le_sum (fun x hx => ?_) _ (List.mem_map.mpr ⟨idx, mem_allIdx.mpr hr, rfl⟩)
  obtain ⟨i, _, rfl⟩ := List.mem_map.mp hx
  exact hf i

/-- **C08, convergence clause, monotonicity constraints (Boyle–Dykstra 1986, machine-checked).**
For every rank, every lattice sizes, every set of monotone dimensions and every kernel `w`, the
model of `project_by_dykstra` (the loop `dykstraIter` over the real group schedule `groups`) converges,
vertex by vertex, to a kernel `p` that is monotone along every monotone dimension and is the
Euclidean-nearest such kernel to `w` (with the Pythagoras gap, so it is the unique nearest one);
the sum of squared distances to `p` tends to 0 and the largest monotonicity violation of the
iterate tends to 0. -/
theorem mono_dykstra_converges (sizes : List Nat) (mono : List Bool) (w : W) :
    ∃ p : Idx → ℝ, MonoR sizes mono p ∧
      (∀ y : Idx → ℝ, MonoR sizes mono y →
        bsum sizes (fun idx => ((w idx : ℝ) - p idx) ^ 2) + bsum sizes (fun idx => (p idx - y idx) ^ 2)
          ≤ bsum sizes (fun idx => ((w idx : ℝ) - y idx) ^ 2)) ∧
      (∀ idx, InRange sizes idx → Tendsto (fun n =>
        (((dykstraIter (groups (monoCfg sizes mono)) n
          (w, (groups (monoCfg sizes mono)).map (fun _ => fun _ => 0))).1 idx : ℚ) : ℝ))
          atTop (𝓝 (p idx))) ∧
      Tendsto (fun n => bsum sizes (fun idx =>
        ((((dykstraIter (groups (monoCfg sizes mono)) n
          (w, (groups (monoCfg sizes mono)).map (fun _ => fun _ => 0))).1 idx : ℚ) : ℝ) - p idx) ^ 2))
          atTop (𝓝 0) ∧
      (∀ ε : ℚ, 0 < ε → ∃ n0 : Nat, ∀ n, n0 ≤ n → ∀ d, d < sizes.length → mono.getD d false = true →
        ∀ idx, InRange sizes idx → coord idx d + 1 < sizes.getD d 0 →
          (dykstraIter (groups (monoCfg sizes mono)) n
            (w, (groups (monoCfg sizes mono)).map (fun _ => fun _ => 0))).1 idx
          - (dykstraIter (groups (monoCfg sizes mono)) n
            (w, (groups (monoCfg sizes mono)).map (fun _ => fun _ => 0))).1 (setc idx d (coord idx d + 1))
            < ε) := by
  rw [groups_monoCfg]
  have hk : ∀ k ∈ monoKeys sizes mono, k.1 < sizes.length := fun k hk => (mem_monoKeys.mp hk).1
  obtain ⟨p, hpF, hnear, hlim, hsq⟩ := dykstra_box_converges sizes (monoKeys sizes mono) (monoMap sizes)
    (MonoF sizes)
    (fun k _ => monoGroup_local sizes true 0 k.1 k.2)
    (fun k _ => monoF_local sizes k)
    (fun k _ => monoF_closed sizes k)
    (fun k hk' w => monoMap_lands sizes k.1 k.2 (hk k hk') w)
    (fun k hk' w y hy => monoMap_vi sizes k.1 k.2 (hk k hk') w y hy)
    ⟨fun _ => 0, fun k _ idx _ _ => le_rfl⟩ w
  have hpM : MonoR sizes mono p := (monoF_all_iff sizes mono p).mp hpF
  refine ⟨p, hpM, fun y hy => hnear y ((monoF_all_iff sizes mono y).mpr hy), hlim, hsq, ?_⟩
  intro ε hε
  have hε' : (0 : ℝ) < ((ε : ℝ) / 2) ^ 2 := by positivity
  obtain ⟨n0, hn0⟩ := (Filter.eventually_atTop.mp ((tendsto_order.mp hsq).2 _ hε'))
  refine ⟨n0, fun n hn d hd hm idx hr hlt => ?_⟩
  have hb := hn0 n hn
  set wn := (dykstraIter ((monoKeys sizes mono).map (monoMap sizes)) n
    (w, ((monoKeys sizes mono).map (monoMap sizes)).map (fun _ => fun _ => 0))).1 with hwn
  have hr' : InRange sizes (setc idx d (coord idx d + 1)) := inRange_setc hr hlt
  have hclose : ∀ i, InRange sizes i → |(wn i : ℝ) - p i| < (ε : ℝ) / 2 := by
    intro i hi
    have h1 := le_bsum (sizes := sizes) (f := fun idx => ((wn idx : ℝ) - p idx) ^ 2)
      (fun _ => sq_nonneg _) hi
    have h2 : ((wn i : ℝ) - p i) ^ 2 < ((ε : ℝ) / 2) ^ 2 := lt_of_le_of_lt h1 hb
    have h3 : (0 : ℝ) ≤ (ε : ℝ) / 2 := by positivity
    exact abs_lt_of_sq_lt_sq h2 h3
  have h1 := abs_lt.mp (hclose idx hr)
  have h2 := abs_lt.mp (hclose _ hr')
  have h3 := hpM d hd hm idx hr hlt
  have : ((wn idx - wn (setc idx d (coord idx d + 1)) : ℚ) : ℝ) < (ε : ℝ) := by
    push_cast; linarith [h1.2, h2.1]
  exact_mod_cast this

/-! ### the same for the executable `project_by_dykstra` (tables) -/

theorem dykstraIter_nil (n : Nat) (w : W) : dykstraIter [] n (w, []) = (w, []) := by
  induction n with
  | zero => rfl
  | succ n ih => simpa [dykstraIter, dykstraPass] using ih

/-- for a monotonicity-only configuration the executable `project_by_dykstra` (early returns
included) computes, on the box, the function-level loop — for EVERY iteration count -/
theorem projectByDykstraT_monoCfg_agree (sizes : List Nat) (mono : List Bool) (n : Nat) (t : Table) :
    AgreeOn sizes (projectByDykstraT (monoCfg sizes mono) n t).get
      (dykstraIter (groups (monoCfg sizes mono)) n
        (t.get, (groups (monoCfg sizes mono)).map (fun _ => fun _ => 0))).1 := by
  rw [projectByDykstraT_of_nodup _ (groupKeys_nodup_of_empty (monoCfg sizes mono) rfl rfl rfl rfl rfl rfl)]
  split_ifs with h
  · simp only [Bool.or_eq_true, decide_eq_true_eq, Bool.not_eq_true'] at h
    rcases h with h | h
    · subst h; exact AgreeOn.refl _ _
    · have hk : monoKeys sizes mono = [] := by
        rw [List.eq_nil_iff_forall_not_mem]
        intro k hk
        obtain ⟨_, h2, _, _⟩ := mem_monoKeys.mp hk
        have hany : mono.any id = false := by
          simpa [dykstraActive, monoCfg] using h
        have hlt : k.1 < mono.length := by
          by_contra hge
          rw [List.getD_eq_default _ _ (by omega)] at h2
          cases h2
        rw [List.getD_eq_getElem _ _ hlt] at h2
        have := List.any_eq_false.mp hany _ (List.getElem_mem hlt)
        simp [h2] at this
      rw [groups_monoCfg, hk]
      simp only [List.map_nil, dykstraIter_nil]
      exact AgreeOn.refl _ _
  · exact projectByDykstraT_agree (monoCfg sizes mono) n t

/-- **C08, convergence clause on the executable model.** `project_by_dykstra` with `n` iterations
on a table, monotonicity constraints: as `n → ∞` every entry converges to the entry of the
Euclidean-nearest monotone kernel `p`, and the largest monotonicity violation tends to 0. -/
theorem projectByDykstraT_mono_converges (sizes : List Nat) (mono : List Bool) (t : Table) :
    ∃ p : Idx → ℝ, MonoR sizes mono p ∧
      (∀ y : Idx → ℝ, MonoR sizes mono y →
        bsum sizes (fun idx => ((t.get idx : ℝ) - p idx) ^ 2) + bsum sizes (fun idx => (p idx - y idx) ^ 2)
          ≤ bsum sizes (fun idx => ((t.get idx : ℝ) - y idx) ^ 2)) ∧
      (∀ idx, InRange sizes idx → Tendsto (fun n =>
        (((projectByDykstraT (monoCfg sizes mono) n t).get idx : ℚ) : ℝ)) atTop (𝓝 (p idx))) ∧
      (∀ ε : ℚ, 0 < ε → ∃ n0 : Nat, ∀ n, n0 ≤ n → ∀ d, d < sizes.length → mono.getD d false = true →
        ∀ idx, InRange sizes idx → coord idx d + 1 < sizes.getD d 0 →
          (projectByDykstraT (monoCfg sizes mono) n t).get idx
            - (projectByDykstraT (monoCfg sizes mono) n t).get (setc idx d (coord idx d + 1)) < ε) := by
  obtain ⟨p, hpM, hnear, hlim, -, hviol⟩ := mono_dykstra_converges sizes mono t.get
  refine ⟨p, hpM, hnear, fun idx hr => ?_, fun ε hε => ?_⟩
  · refine (hlim idx hr).congr (fun n => ?_)
    rw [projectByDykstraT_monoCfg_agree sizes mono n t idx hr]
  · obtain ⟨n0, h⟩ := hviol ε hε
    refine ⟨n0, fun n hn d hd hm idx hr hlt => ?_⟩
    rw [projectByDykstraT_monoCfg_agree sizes mono n t idx hr,
      projectByDykstraT_monoCfg_agree sizes mono n t _ (inRange_setc hr hlt)]
    exact h n hn d hd hm idx hr hlt

/-! ### non-vacuity: the 2-point kernel `(3, 1)` with a monotone dimension converges to `(2, 2)` -/

/-- the kernel `(3, 1)` on the lattice `[2]` -/
def wEx31 : W := fun idx => if idx = [0] then 3 else 1

example : Tendsto (fun n =>
    (((dykstraIter (groups (monoCfg [2] [true])) n
      (wEx31, (groups (monoCfg [2] [true])).map (fun _ => fun _ => 0))).1 [0] : ℚ) : ℝ))
    atTop (𝓝 2) := by
  obtain ⟨p, hpM, hnear, hlim, -⟩ := mono_dykstra_converges [2] [true] wEx31
  have hr0 : InRange [2] [0] := mem_allIdx.mp (by decide)
  have hmono : p [0] ≤ p [1] := by
    have := hpM 0 (by simp) (by simp) [0] hr0 (by simp [coord])
    simpa [setc, coord] using this
  have h2 := hnear (fun _ => 2) (fun _ _ _ _ _ _ => le_rfl)
  have e1 : ((wEx31 [0] : ℚ) : ℝ) = 3 := by simp [wEx31]
  have e2 : ((wEx31 [1] : ℚ) : ℝ) = 1 := by simp [wEx31]
  simp only [bsum, allIdx, List.range, List.range.loop, List.flatMap_cons, List.flatMap_nil,
    List.map_cons, List.map_nil, List.append_nil, List.cons_append, List.nil_append,
    List.sum_cons, List.sum_nil, e1, e2] at h2
  have h3 : (p [0] - 2) ^ 2 ≤ 0 := by nlinarith [sq_nonneg (p [1] - 2)]
  have h4 : p [0] = 2 := by
    have := pow_eq_zero_iff (two_ne_zero) |>.mp (le_antisymm h3 (sq_nonneg _))
    linarith
  have := hlim [0] hr0
  rwa [h4] at this


/-! ### all pair kinds (monotonicity, unimodality, trapezoid) -/

/-- the pair map of `_project_partial_monotonicity` / `_project_partial_trapezoid` by direction -/
def pairK : PairKind → ℚ → ℚ → ℚ × ℚ
  | .incr, a, b => (min a ((a + b) / 2), max b ((a + b) / 2))
  | .decr, a, b => (max a ((a + b) / 2), min b ((a + b) / 2))
  | .none, a, b => (a, b)

/-- the constraint a pair of the given direction must satisfy -/
def QK : PairKind → ℝ → ℝ → Prop
  | .incr, y1, y2 => y1 ≤ y2
  | .decr, y1, y2 => y2 ≤ y1
  | .none, _, _ => True

theorem pairK_lands (k : PairKind) (a b : ℚ) : QK k ((pairK k a b).1 : ℝ) ((pairK k a b).2 : ℝ) := by
  cases k
  · have : min a ((a + b) / 2) ≤ max b ((a + b) / 2) := (min_le_right _ _).trans (le_max_right _ _)
    simp only [QK, pairK]; exact_mod_cast this
  · have : min b ((a + b) / 2) ≤ max a ((a + b) / 2) := (min_le_right _ _).trans (le_max_right _ _)
    simp only [QK, pairK]; exact_mod_cast this
  · trivial

theorem pairK_vi (k : PairKind) (a b : ℚ) (y1 y2 : ℝ) (h : QK k y1 y2) :
    ((a : ℝ) - ((pairK k a b).1 : ℝ)) * (y1 - ((pairK k a b).1 : ℝ))
      + ((b : ℝ) - ((pairK k a b).2 : ℝ)) * (y2 - ((pairK k a b).2 : ℝ)) ≤ 0 := by
  cases k
  · exact pairProj_vi_real a b y1 y2 h
  · simp only [QK] at h
    simp only [pairK]
    by_cases hab : b ≤ a
    · rw [max_eq_left (by linarith), min_eq_left (by linarith)]; simp
    · have hlt := not_le.mp hab
      have hR : (a : ℝ) < b := by exact_mod_cast hlt
      rw [max_eq_right (by linarith), min_eq_right (by linarith)]
      push_cast
      nlinarith [mul_nonneg (show (0:ℝ) ≤ ((b:ℝ) - a) / 2 by linarith) (show (0:ℝ) ≤ y1 - y2 by linarith)]
  · simp [pairK]

theorem QK_closed (k : PairKind) : IsClosed {p : ℝ × ℝ | QK k p.1 p.2} := by
  cases k
  · exact isClosed_le continuous_fst continuous_snd
  · exact isClosed_le continuous_snd continuous_fst
  · simp [QK]

/-- `monoGroup` (any monotonicity / unimodality flags) is the pair-stencil group map of `pairK` -/
theorem monoGroup_eq_pairGroup (sizes : List Nat) (mono : Bool) (unimod : Int) (d g : Nat)
    (hd : d < sizes.length) (w : W) :
    AgreeOn sizes (monoGroup (sizes.getD d 0) mono unimod d g w)
      (pairGroup (coordAxis sizes d) g
        (fun idx => pairK (pairKind mono unimod (sizes.getD d 0) (coord idx d))) w) := by
  intro idx hr
  have hl : d < idx.length := by rw [hr.1]; exact hd
  have hn : (coordAxis sizes d).n = sizes.getD d 0 := rfl
  simp only [monoGroup, pairGroup, Axis.lower, Axis.upper, Axis.up, Axis.dn, coordAxis_get,
    coordAxis_set, hn]
  split_ifs with h1 h2
  · cases pairKind mono unimod (sizes.getD d 0) (coord idx d) <;> rfl
  · rw [coord_setc_same _ hl]
    cases pairKind mono unimod (sizes.getD d 0) (coord idx d - 1) <;> rfl
  · rfl

/-- the direction `_project_partial_trapezoid` enforces on the pairs of the layer `a` of the main
dimension (size `M`): first layer decreasing, last layer increasing (in list order) -/
def trapKind (M a : Nat) : PairKind := if a = 0 then .decr else if a = M - 1 then .incr else .none

theorem max_avg_left (a b : ℚ) : a + max ((b - a) / 2) 0 = max a ((a + b) / 2) := by
  simp only [max_def]; split_ifs <;> linarith
theorem min_avg_right (a b : ℚ) : b - max ((b - a) / 2) 0 = min b ((a + b) / 2) := by
  simp only [max_def, min_def]; split_ifs <;> linarith
theorem min_avg_left (a b : ℚ) : a - max ((a - b) / 2) 0 = min a ((a + b) / 2) := by
  simp only [max_def, min_def]; split_ifs <;> linarith
theorem max_avg_right (a b : ℚ) : b + max ((a - b) / 2) 0 = max b ((a + b) / 2) := by
  simp only [max_def]; split_ifs <;> linarith

/-- `trapezoidGroup` is the pair-stencil group map of `pairK` along the (possibly reversed)
conditional dimension, the direction given by the main coordinate -/
theorem trapezoidGroup_eq_pairGroup (sizes : List Nat) (tr : Trust) (g : Nat) (hwf : TrustWF sizes tr)
    (w : W) :
    AgreeOn sizes (trapezoidGroup (sizes.getD tr.main 0) (sizes.getD tr.cond 0) tr g w)
      (pairGroup (revAxis sizes tr.cond tr.pos) g
        (fun idx => pairK (trapKind (sizes.getD tr.main 0) (coord idx tr.main))) w) := by
  obtain ⟨hm, hc, hne⟩ := hwf
  have hA := revAxis_laws sizes tr.cond tr.pos hc
  intro idx hr
  have hlm : tr.main < idx.length := by rw [hr.1]; exact hm
  have hn : (revAxis sizes tr.cond tr.pos).n = sizes.getD tr.cond 0 := rfl
  have hget : (revAxis sizes tr.cond tr.pos).get idx
      = rev (sizes.getD tr.cond 0) tr.pos (coord idx tr.cond) := rfl
  -- reading the grid at the own main coordinate
  have hL : ∀ y, gat w tr.main tr.cond (coord idx tr.main) (rev (sizes.getD tr.cond 0) tr.pos y) idx
      = w ((revAxis sizes tr.cond tr.pos).set idx y) := by
    intro y; simp only [gat, revAxis, setc_coord_self hlm]
  have hself : w ((revAxis sizes tr.cond tr.pos).set idx ((revAxis sizes tr.cond tr.pos).get idx)) = w idx := by
    rw [hA.set_get hr]
  set A := revAxis sizes tr.cond tr.pos with hAdef
  simp only [trapezoidGroup, pairGroup]
  by_cases h1 : A.lower g idx
  · have sb := stencilBase_lower h1
    rw [hn] at sb
    rw [if_pos h1, ← hget, sb]
    simp only [trapKind]
    have hup : A.up idx = A.set idx (A.get idx + 1) := rfl
    split_ifs with ha0 haM
    · have := hL; rw [ha0] at this
      simp only [this, hself, pairK, ← hup]
      exact max_avg_left _ _
    · have := hL; rw [haM] at this
      simp only [this, hself, pairK, ← hup]
      exact min_avg_left _ _
    · rfl
  · by_cases h2 : A.upper g idx
    · have sb := stencilBase_upper h2 h1
      rw [hn] at sb
      rw [if_neg h1, if_pos h2, ← hget, sb]
      obtain ⟨_, gdn, _, updn⟩ := Axis.dn_facts hA hr h2
      have hcm : coord (A.dn idx) tr.main = coord idx tr.main := by
        simp only [Axis.dn, hAdef, revAxis]; exact coord_setc_ne _ (Ne.symm hne)
      have hdn : A.dn idx = A.set idx (A.get idx - 1) := rfl
      have h11 : A.get idx - 1 + 1 = A.get idx := Nat.sub_add_cancel h2.1
      have hne' : A.get idx ≠ A.get idx - 1 := by have := h2.1; omega
      simp only [trapKind, hcm]
      split_ifs with ha0 haM
      · have := hL; rw [ha0] at this
        simp only [this, h11, hself, pairK, ← hdn]
        exact min_avg_right _ _
      · have := hL; rw [haM] at this
        simp only [this, h11, hself, pairK, ← hdn]
        exact max_avg_right _ _
      · rfl
    · have sb := stencilBase_neither h1 h2
      rw [hn] at sb
      rw [if_neg h1, if_neg h2, ← hget, sb]

/-! ### 2×2 stencils (Edgeworth, monotonic dominance, joint monotonicity) -/

theorem sqProj_vi_real (p q r s : ℚ) (y1 y2 y3 y4 : ℝ) (hy : (y3 - y1) - (y4 - y2) ≤ 0) :
    ((p : ℝ) - ((sqProj p q r s).1 : ℝ)) * (y1 - ((sqProj p q r s).1 : ℝ))
      + ((q : ℝ) - ((sqProj p q r s).2.1 : ℝ)) * (y2 - ((sqProj p q r s).2.1 : ℝ))
      + ((r : ℝ) - ((sqProj p q r s).2.2.1 : ℝ)) * (y3 - ((sqProj p q r s).2.2.1 : ℝ))
      + ((s : ℝ) - ((sqProj p q r s).2.2.2 : ℝ)) * (y4 - ((sqProj p q r s).2.2.2 : ℝ)) ≤ 0 := by
  simp only [sqProj, max_def]
  split_ifs with h
  · push_cast; nlinarith
  · have hR : (0 : ℝ) ≤ (((r : ℝ) - p) - (s - q)) / 4 := by
      have := le_of_lt (not_le.mp h); exact_mod_cast this
    push_cast
    nlinarith [mul_nonneg hR (show (0:ℝ) ≤ -((y3 - y1) - (y4 - y2)) by linarith)]

theorem triUp_vi_real (a b m : ℚ) (y1 y2 y3 : ℝ) (hy : (y1 + y2) / 2 ≤ y3) :
    ((a : ℝ) - ((triUp a b m).1 : ℝ)) * (y1 - ((triUp a b m).1 : ℝ))
      + ((b : ℝ) - ((triUp a b m).2.1 : ℝ)) * (y2 - ((triUp a b m).2.1 : ℝ))
      + ((m : ℝ) - ((triUp a b m).2.2 : ℝ)) * (y3 - ((triUp a b m).2.2 : ℝ)) ≤ 0 := by
  simp only [triUp, max_def]
  split_ifs with h
  · push_cast; nlinarith
  · have hR : (0 : ℝ) ≤ (((a : ℝ) + b) / 2 - m) / 3 := by
      have := le_of_lt (not_le.mp h); exact_mod_cast this
    push_cast
    nlinarith [mul_nonneg hR (show (0:ℝ) ≤ -((y1 + y2) / 2 - y3) by linarith)]

theorem triDown_vi_real (a b m : ℚ) (y1 y2 y3 : ℝ) (hy : y3 ≤ (y1 + y2) / 2) :
    ((a : ℝ) - ((triDown a b m).1 : ℝ)) * (y1 - ((triDown a b m).1 : ℝ))
      + ((b : ℝ) - ((triDown a b m).2.1 : ℝ)) * (y2 - ((triDown a b m).2.1 : ℝ))
      + ((m : ℝ) - ((triDown a b m).2.2 : ℝ)) * (y3 - ((triDown a b m).2.2 : ℝ)) ≤ 0 := by
  simp only [triDown, min_def]
  split_ifs with h
  · have hR : (0 : ℝ) ≤ -((((a : ℝ) + b) / 2 - m) / 3) := by
      have : 0 ≤ -(((a + b) / 2 - m) / 3) := by linarith
      exact_mod_cast this
    push_cast
    nlinarith [mul_nonneg hR (show (0:ℝ) ≤ (y1 + y2) / 2 - y3 by linarith)]
  · push_cast; nlinarith

/-- the grid of a trust, as a pair of axes: main coordinate, (possibly reversed) conditional one -/
theorem self_read {sizes : List Nat} {A1 A2 : Axis sizes} (hA1 : A1.Laws) (hA2 : A2.Laws) (w : W)
    {idx : Idx} (hr : InRange sizes idx) : w (A2.set (A1.set idx (A1.get idx)) (A2.get idx)) = w idx := by
  rw [hA1.set_get hr, hA2.set_get hr]

/-- `edgeworthGroup` is the 2×2-stencil group map of `sqProj` -/
theorem edgeworthGroup_eq_sqGroup (sizes : List Nat) (tr : Trust) (g0 g1 : Nat) (hwf : TrustWF sizes tr)
    (w : W) :
    AgreeOn sizes (edgeworthGroup (sizes.getD tr.main 0) (sizes.getD tr.cond 0) tr g0 g1 w)
      (sqGroup (coordAxis sizes tr.main) (revAxis sizes tr.cond tr.pos) g0 g1 sqProj w) := by
  obtain ⟨hm, hc, hne⟩ := hwf
  have hA1 := revAxis_laws sizes tr.main true hm
  have hA2 := revAxis_laws sizes tr.cond tr.pos hc
  intro idx hr
  have hself := self_read hA1 hA2 w hr
  have hg1 : (coordAxis sizes tr.main).get idx = coord idx tr.main := coordAxis_get _ _
  have hs : ∀ x y, w ((revAxis sizes tr.cond tr.pos).set ((coordAxis sizes tr.main).set idx x) y)
      = gat w tr.main tr.cond x (rev (sizes.getD tr.cond 0) tr.pos y) idx := by
    intro x y; simp only [gat, coordAxis_set]; rfl
  have hn1 : (coordAxis sizes tr.main).n = sizes.getD tr.main 0 := rfl
  have hn2 : (revAxis sizes tr.cond tr.pos).n = sizes.getD tr.cond 0 := rfl
  have hg2 : (revAxis sizes tr.cond tr.pos).get idx
      = rev (sizes.getD tr.cond 0) tr.pos (coord idx tr.cond) := rfl
  rw [hg1, hg2] at hself
  simp only [edgeworthGroup, sqGroup, hn1, hn2, hg1, hg2, hs]
  simp only [hs] at hself
  cases h0 : stencilBase g0 (sizes.getD tr.main 0) (coord idx tr.main) with
  | none => rfl
  | some i0 =>
    cases h1 : stencilBase g1 (sizes.getD tr.cond 0)
        (rev (sizes.getD tr.cond 0) tr.pos (coord idx tr.cond)) with
    | none => rfl
    | some j0 =>
      have ha := (stencilBase_some h0).2
      have hj := (stencilBase_some h1).2
      simp only
      rcases ha with ha | ha <;> rcases hj with hj | hj <;> rw [ha, hj] at hself ⊢ <;>
        simp [pick4, sqProj, ← hself]

/-- the 2×2 stencil map of `_project_partial_monotonic_dominance` on `(v00, v01, v10, v11)` -/
def mdomSq (g2 : Bool) (v00 v01 v10 v11 : ℚ) : ℚ × ℚ × ℚ × ℚ :=
  if g2 then ((triUp v00 v11 v10).1, v01, (triUp v00 v11 v10).2.2, (triUp v00 v11 v10).2.1)
  else ((triDown v00 v11 v01).1, (triDown v00 v11 v01).2.2, v10, (triDown v00 v11 v01).2.1)

/-- the 2×2 stencil map of `_project_partial_joint_monotonicity` -/
def jmonoSq (g2 : Bool) (v00 v01 v10 v11 : ℚ) : ℚ × ℚ × ℚ × ℚ :=
  if g2 then (v00, (triUp v10 v01 v11).2.1, (triUp v10 v01 v11).1, (triUp v10 v01 v11).2.2)
  else ((triDown v10 v01 v00).2.2, (triDown v10 v01 v00).2.1, (triDown v10 v01 v00).1, v11)

def edgeQ (y00 y01 y10 y11 : ℝ) : Prop := (y10 - y00) - (y11 - y01) ≤ 0
def mdomQ (g2 : Bool) (y00 y01 y10 y11 : ℝ) : Prop :=
  if g2 then (y00 + y11) / 2 ≤ y10 else y01 ≤ (y00 + y11) / 2
def jmonoQ (g2 : Bool) (y00 y01 y10 y11 : ℝ) : Prop :=
  if g2 then (y10 + y01) / 2 ≤ y11 else y00 ≤ (y10 + y01) / 2

theorem edgeSq_lands (a b c d : ℚ) : edgeQ ((sqProj a b c d).1 : ℝ) ((sqProj a b c d).2.1 : ℝ)
    ((sqProj a b c d).2.2.1 : ℝ) ((sqProj a b c d).2.2.2 : ℝ) := by
  have := sqProj_lands a b c d
  unfold edgeQ; exact_mod_cast this

theorem mdomSq_lands (g2 : Bool) (a b c d : ℚ) : mdomQ g2 ((mdomSq g2 a b c d).1 : ℝ)
    ((mdomSq g2 a b c d).2.1 : ℝ) ((mdomSq g2 a b c d).2.2.1 : ℝ) ((mdomSq g2 a b c d).2.2.2 : ℝ) := by
  cases g2
  · have := triDown_lands a d b
    simp only [mdomQ, mdomSq, Bool.false_eq_true, if_false]; exact_mod_cast this
  · have := triUp_lands a d c
    simp only [mdomQ, mdomSq, if_true]; exact_mod_cast this

theorem jmonoSq_lands (g2 : Bool) (a b c d : ℚ) : jmonoQ g2 ((jmonoSq g2 a b c d).1 : ℝ)
    ((jmonoSq g2 a b c d).2.1 : ℝ) ((jmonoSq g2 a b c d).2.2.1 : ℝ) ((jmonoSq g2 a b c d).2.2.2 : ℝ) := by
  cases g2
  · have := triDown_lands c b a
    simp only [jmonoQ, jmonoSq, Bool.false_eq_true, if_false]; exact_mod_cast this
  · have := triUp_lands c b d
    simp only [jmonoQ, jmonoSq, if_true]; exact_mod_cast this

theorem mdomSq_vi (g2 : Bool) (a b c d : ℚ) (y1 y2 y3 y4 : ℝ) (h : mdomQ g2 y1 y2 y3 y4) :
    ((a : ℝ) - ((mdomSq g2 a b c d).1 : ℝ)) * (y1 - ((mdomSq g2 a b c d).1 : ℝ))
      + ((b : ℝ) - ((mdomSq g2 a b c d).2.1 : ℝ)) * (y2 - ((mdomSq g2 a b c d).2.1 : ℝ))
      + ((c : ℝ) - ((mdomSq g2 a b c d).2.2.1 : ℝ)) * (y3 - ((mdomSq g2 a b c d).2.2.1 : ℝ))
      + ((d : ℝ) - ((mdomSq g2 a b c d).2.2.2 : ℝ)) * (y4 - ((mdomSq g2 a b c d).2.2.2 : ℝ)) ≤ 0 := by
  cases g2
  · simp only [mdomQ, Bool.false_eq_true, if_false] at h
    have := triDown_vi_real a d b y1 y4 y2 h
    simp only [mdomSq, Bool.false_eq_true, if_false, sub_self, zero_mul]
    linarith
  · simp only [mdomQ, if_true] at h
    have := triUp_vi_real a d c y1 y4 y3 h
    simp only [mdomSq, if_true, sub_self, zero_mul]
    linarith

theorem jmonoSq_vi (g2 : Bool) (a b c d : ℚ) (y1 y2 y3 y4 : ℝ) (h : jmonoQ g2 y1 y2 y3 y4) :
    ((a : ℝ) - ((jmonoSq g2 a b c d).1 : ℝ)) * (y1 - ((jmonoSq g2 a b c d).1 : ℝ))
      + ((b : ℝ) - ((jmonoSq g2 a b c d).2.1 : ℝ)) * (y2 - ((jmonoSq g2 a b c d).2.1 : ℝ))
      + ((c : ℝ) - ((jmonoSq g2 a b c d).2.2.1 : ℝ)) * (y3 - ((jmonoSq g2 a b c d).2.2.1 : ℝ))
      + ((d : ℝ) - ((jmonoSq g2 a b c d).2.2.2 : ℝ)) * (y4 - ((jmonoSq g2 a b c d).2.2.2 : ℝ)) ≤ 0 := by
  cases g2
  · simp only [jmonoQ, Bool.false_eq_true, if_false] at h
    have := triDown_vi_real c b a y3 y2 y1 h
    simp only [jmonoSq, Bool.false_eq_true, if_false, sub_self, zero_mul]
    linarith
  · simp only [jmonoQ, if_true] at h
    have := triUp_vi_real c b d y3 y2 y4 h
    simp only [jmonoSq, if_true, sub_self, zero_mul]
    linarith

theorem edgeQ_closed : IsClosed {p : ℝ × ℝ × ℝ × ℝ | edgeQ p.1 p.2.1 p.2.2.1 p.2.2.2} := by
  unfold edgeQ
  exact isClosed_le (by fun_prop) continuous_const
theorem mdomQ_closed (g2 : Bool) : IsClosed {p : ℝ × ℝ × ℝ × ℝ | mdomQ g2 p.1 p.2.1 p.2.2.1 p.2.2.2} := by
  cases g2
  · simp only [mdomQ, Bool.false_eq_true, if_false]; exact isClosed_le (by fun_prop) (by fun_prop)
  · simp only [mdomQ, if_true]; exact isClosed_le (by fun_prop) (by fun_prop)
theorem jmonoQ_closed (g2 : Bool) : IsClosed {p : ℝ × ℝ × ℝ × ℝ | jmonoQ g2 p.1 p.2.1 p.2.2.1 p.2.2.2} := by
  cases g2
  · simp only [jmonoQ, Bool.false_eq_true, if_false]; exact isClosed_le (by fun_prop) (by fun_prop)
  · simp only [jmonoQ, if_true]; exact isClosed_le (by fun_prop) (by fun_prop)

/-- common shape of the monotonic-dominance / joint-monotonicity ties -/
theorem plainGrid_facts (sizes : List Nat) (d1 d2 : Nat) (h1 : d1 < sizes.length) (h2 : d2 < sizes.length)
    (w : W) {idx : Idx} (hr : InRange sizes idx) :
    (∀ x y, w ((coordAxis sizes d2).set ((coordAxis sizes d1).set idx x) y) = gat w d1 d2 x y idx) ∧
      gat w d1 d2 (coord idx d1) (coord idx d2) idx = w idx := by
  have hA1 := revAxis_laws sizes d1 true h1
  have hA2 := revAxis_laws sizes d2 true h2
  have hs : ∀ x y, w ((coordAxis sizes d2).set ((coordAxis sizes d1).set idx x) y) = gat w d1 d2 x y idx := by
    intro x y; simp only [gat, coordAxis_set]
  refine ⟨hs, ?_⟩
  have := self_read hA1 hA2 w hr
  rwa [coordAxis_get, coordAxis_get, hs] at this

theorem monoDomGroup_eq_sqGroup (sizes : List Nat) (dom weak g0 g1 : Nat) (g2 : Bool)
    (h1 : dom < sizes.length) (h2 : weak < sizes.length) (w : W) :
    AgreeOn sizes (monoDomGroup (sizes.getD dom 0) (sizes.getD weak 0) dom weak g0 g1 g2 w)
      (sqGroup (coordAxis sizes dom) (coordAxis sizes weak) g0 g1 (mdomSq g2) w) := by
  intro idx hr
  obtain ⟨hs, hself⟩ := plainGrid_facts sizes dom weak h1 h2 w hr
  have hn1 : (coordAxis sizes dom).n = sizes.getD dom 0 := rfl
  have hn2 : (coordAxis sizes weak).n = sizes.getD weak 0 := rfl
  simp only [monoDomGroup, sqGroup, hn1, hn2, coordAxis_get, hs]
  cases h0 : stencilBase g0 (sizes.getD dom 0) (coord idx dom) with
  | none => rfl
  | some i0 =>
    cases h1 : stencilBase g1 (sizes.getD weak 0) (coord idx weak) with
    | none => rfl
    | some j0 =>
      have ha := (stencilBase_some h0).2
      have hj := (stencilBase_some h1).2
      simp only
      cases g2 <;> rcases ha with ha | ha <;> rcases hj with hj | hj <;> rw [ha, hj] at hself ⊢ <;>
        simp [pick4, mdomSq, triUp, triDown, ← hself]

theorem jointMonoGroup_eq_sqGroup (sizes : List Nat) (d1 d2 g0 g1 : Nat) (g2 : Bool)
    (h1 : d1 < sizes.length) (h2 : d2 < sizes.length) (w : W) :
    AgreeOn sizes (jointMonoGroup (sizes.getD d1 0) (sizes.getD d2 0) d1 d2 g0 g1 g2 w)
      (sqGroup (coordAxis sizes d1) (coordAxis sizes d2) g0 g1 (jmonoSq g2) w) := by
  intro idx hr
  obtain ⟨hs, hself⟩ := plainGrid_facts sizes d1 d2 h1 h2 w hr
  have hn1 : (coordAxis sizes d1).n = sizes.getD d1 0 := rfl
  have hn2 : (coordAxis sizes d2).n = sizes.getD d2 0 := rfl
  simp only [jointMonoGroup, sqGroup, hn1, hn2, coordAxis_get, hs]
  cases h0 : stencilBase g0 (sizes.getD d1 0) (coord idx d1) with
  | none => rfl
  | some i0 =>
    cases h1 : stencilBase g1 (sizes.getD d2 0) (coord idx d2) with
    | none => rfl
    | some j0 =>
      have ha := (stencilBase_some h0).2
      have hj := (stencilBase_some h1).2
      simp only
      cases g2 <;> rcases ha with ha | ha <;> rcases hj with hj | hj <;> rw [ha, hj] at hself ⊢ <;>
        simp [pick4, jmonoSq, triUp, triDown, ← hself]

/-! ### the whole group schedule: keys, maps, feasibility predicates -/

/-- key of a group of `project_by_dykstra` (range dominance excluded) -/
inductive GKey
  | pair (d g : Nat)
  | edge (tr : Trust) (g0 g1 : Nat)
  | trap (tr : Trust) (g : Nat)
  | mdom (p : Nat × Nat) (g0 g1 : Nat) (g2 : Bool)
  | jmono (p : Nat × Nat) (g0 g1 : Nat) (g2 : Bool)
  | juni (ju : JointUni) (st : List (List Nat × Int))

/-- the group map of a key: literally the model's `_project_partial_*` function -/
def keyMap (c : DCfg) : GKey → W → W
  | .pair d g => monoGroup (sz c d) (c.mono.getD d false) (c.unimod.getD d 0) d g
  | .edge tr g0 g1 => edgeworthGroup (sz c tr.main) (sz c tr.cond) tr g0 g1
  | .trap tr g => trapezoidGroup (sz c tr.main) (sz c tr.cond) tr g
  | .mdom p g0 g1 g2 => monoDomGroup (sz c p.1) (sz c p.2) p.1 p.2 g0 g1 g2
  | .jmono p g0 g1 g2 => jointMonoGroup (sz c p.1) (sz c p.2) p.1 p.2 g0 g1 g2
  | .juni ju st => hyperplaneGroup ju.dims ju.valley st

/-- direction of the pair `(idx, next along d)` for the configuration -/
def cfgKind (c : DCfg) (d : Nat) (idx : Idx) : PairKind :=
  pairKind (c.mono.getD d false) (c.unimod.getD d 0) (sz c d) (coord idx d)

/-- the set a key's map projects onto, on real kernels -/
def keyF (c : DCfg) : GKey → (Idx → ℝ) → Prop
  | .pair d g => PairF (coordAxis c.sizes d) g (fun idx => QK (cfgKind c d idx))
  | .edge tr g0 g1 => SqF (coordAxis c.sizes tr.main) (revAxis c.sizes tr.cond tr.pos) g0 g1 edgeQ
  | .trap tr g => PairF (revAxis c.sizes tr.cond tr.pos) g
      (fun idx => QK (trapKind (sz c tr.main) (coord idx tr.main)))
  | .mdom p g0 g1 g2 => SqF (coordAxis c.sizes p.1) (coordAxis c.sizes p.2) g0 g1 (mdomQ g2)
  | .jmono p g0 g1 g2 => SqF (coordAxis c.sizes p.1) (coordAxis c.sizes p.2) g0 g1 (jmonoQ g2)
  | .juni ju st => HyperF c.sizes ju.dims ju.valley st

def quads : List (Nat × Nat) := [(0,0),(0,1),(1,0),(1,1)]
def tris : List (Nat × Nat × Bool) :=
  [(0,0,false),(0,0,true),(0,1,false),(0,1,true),(1,0,false),(1,0,true),(1,1,false),(1,1,true)]

def keysPair (c : DCfg) : List GKey :=
  (List.range c.sizes.length).flatMap (fun d =>
    if !(c.mono.getD d false) && c.unimod.getD d 0 == 0 then []
    else (parities (sz c d)).map (fun g => GKey.pair d g))
def keysEdge (c : DCfg) : List GKey :=
  c.edgeworth.flatMap (fun tr =>
    (quads.filter (fun g => g.1 + 1 < sz c tr.main ∧ g.2 + 1 < sz c tr.cond)).map
      (fun g => GKey.edge tr g.1 g.2))
def keysTrap (c : DCfg) : List GKey :=
  c.trapezoid.flatMap (fun tr => (parities (sz c tr.cond)).map (fun g => GKey.trap tr g))
def keysMdom (c : DCfg) : List GKey :=
  c.monoDom.flatMap (fun p =>
    (tris.filter (fun g => g.1 + 1 < sz c p.1 ∧ g.2.1 + 1 < sz c p.2)).map
      (fun g => GKey.mdom p g.1 g.2.1 g.2.2))
def keysJmono (c : DCfg) : List GKey :=
  c.jointMono.flatMap (fun p =>
    (tris.filter (fun g => g.1 + 1 < sz c p.1 ∧ g.2.1 + 1 < sz c p.2)).map
      (fun g => GKey.jmono p g.1 g.2.1 g.2.2))

/-- one key per (vertex, offsets) pair of a joint unimodality constraint that yields a hyperplane -/
def keysJuni (c : DCfg) : List GKey :=
  c.jointUnimod.flatMap (fun ju =>
    (allIdx (ju.dims.map (sz c))).flatMap (fun vertex =>
      (offsetsAll ju.dims.length).filterMap (fun offs =>
        (juStencil (ju.dims.map (sz c)) vertex offs).map (fun st => GKey.juni ju st))))

/-- the keys in the order the loop visits the groups -/
def keys (c : DCfg) : List GKey :=
  keysPair c ++ keysEdge c ++ keysTrap c ++ keysMdom c ++ keysJmono c ++ keysJuni c

/-- without range dominance, the model's group schedule is the key list mapped through `keyMap` -/
theorem groups_eq_keys (c : DCfg) (hrd : c.rangeDom = []) : groups c = (keys c).map (keyMap c) := by
  simp only [groups, keys, keysPair, keysEdge, keysTrap, keysMdom, keysJmono, keysJuni, hrd,
    List.flatMap_nil, List.append_nil, List.map_append, List.map_flatMap]
  congr 1
  · congr 1
    · congr 1
      · congr 1
        · congr 1
          · refine List.flatMap_congr (fun d _ => ?_)
            split_ifs <;> simp [keyMap, parities, Function.comp_def]
          · refine List.flatMap_congr (fun tr _ => ?_)
            simp [keyMap, quads, Function.comp_def]
        · refine List.flatMap_congr (fun tr _ => ?_)
          simp [keyMap, parities, Function.comp_def]
      · refine List.flatMap_congr (fun p _ => ?_)
        simp [keyMap, tris, Function.comp_def]
    · refine List.flatMap_congr (fun p _ => ?_)
      simp [keyMap, tris, Function.comp_def]
  · refine List.flatMap_congr (fun ju _ => List.flatMap_congr (fun vertex _ => ?_))
    simp [keyMap, List.map_filterMap, Option.map_map, Function.comp_def]

/-- a key names dimensions of the lattice (and two different ones for the 2-D constraints) -/
def KeyWF (sizes : List Nat) : GKey → Prop
  | .pair d _ => d < sizes.length
  | .edge tr _ _ => TrustWF sizes tr
  | .trap tr _ => TrustWF sizes tr
  | .mdom p _ _ _ => p.1 < sizes.length ∧ p.2 < sizes.length ∧ p.1 ≠ p.2
  | .jmono p _ _ _ => p.1 < sizes.length ∧ p.2 < sizes.length ∧ p.1 ≠ p.2
  | .juni ju st => ju.dims.Nodup ∧ (∀ d ∈ ju.dims, d < sizes.length) ∧ StencilOK sizes ju.dims st

/-- the shape of a configuration the convergence theorems of the POSITION-slotted loop need: the
trusts / pairs name two different dimensions of the lattice, the dims of a joint unimodality are
distinct and in range, no range dominance.
`verify_hyperparameters` guarantees `edge`, `trap`, `juni`, `mdom` and `jmono` (`p.1 ≠ p.2` since /repo
18dd711: `monotonic_dominances=[(0, 0)]`, `joint_monotonicities=[(0, 0)]` are rejected — before that fix
they were accepted and the projection read axis `d+1` or raised, fixed finding F-C08-c); only `rdom` is
not a consequence of acceptance (`Props/C08Accepted.lean`: `verifyLattice_cfgShape`). -/
structure CfgShape (c : DCfg) : Prop where
  edge : ∀ tr ∈ c.edgeworth, TrustWF c.sizes tr
  trap : ∀ tr ∈ c.trapezoid, TrustWF c.sizes tr
  mdom : ∀ p ∈ c.monoDom, p.1 < c.sizes.length ∧ p.2 < c.sizes.length ∧ p.1 ≠ p.2
  jmono : ∀ p ∈ c.jointMono, p.1 < c.sizes.length ∧ p.2 < c.sizes.length ∧ p.1 ≠ p.2
  juni : ∀ ju ∈ c.jointUnimod, ju.dims.Nodup ∧ ∀ d ∈ ju.dims, d < c.sizes.length
  rdom : c.rangeDom = []

/-- a lattice configuration covered by the convergence theorem of the EXECUTABLE model:
`CfgShape`, and no `last_change` dict key occurs twice in the group schedule (`keys`) — then every
group visit has its own roll-back tensor and the loop is Boyle–Dykstra's.
`keys` is NOT guaranteed by `verify_hyperparameters` (it accepts a constraint tuple listed twice, e.g.
`joint_monotonicities=[(0, 1), (0, 1)]`); it holds whenever no constraint list has a repeated entry
(`groupKeys_nodup`, `cfgWF_of_noRepeats`). For configurations WITH repeated entries the model follows
the dict (shared slots, `Model/Dykstra.lean`), T2 / T3 hold (`projectByDykstraT_fixpoint`,
`projectByDykstraT_telescopingS`), and the convergence clause is proved separately in
`Props/C08Shared.lean` (`projectByDykstraT_cfg_converges_shape`, hypothesis `CfgShape` alone): one
correction per set used at every visit of the set is Hundal–Deutsch's variant of the algorithm
(`Lemmas/DykstraConvShared.lean`), not Boyle–Dykstra's (`Lemmas/DykstraConv.lean`). -/
structure CfgWF (c : DCfg) : Prop extends CfgShape c where
  keys : (groupKeys c).Nodup

theorem keys_wf (c : DCfg) (h : CfgShape c) : ∀ k ∈ keys c, KeyWF c.sizes k := by
  intro k hk
  simp only [keys, keysPair, keysEdge, keysTrap, keysMdom, keysJmono, keysJuni, List.mem_append,
    List.mem_flatMap, List.mem_range] at hk
  rcases hk with ((((hk | hk) | hk) | hk) | hk) | hk
  · obtain ⟨d, hd, hk⟩ := hk
    split_ifs at hk
    · cases hk
    · obtain ⟨g, _, rfl⟩ := List.mem_map.mp hk
      exact hd
  · obtain ⟨tr, htr, hk⟩ := hk
    obtain ⟨g, _, rfl⟩ := List.mem_map.mp hk
    exact h.edge tr htr
  · obtain ⟨tr, htr, hk⟩ := hk
    obtain ⟨g, _, rfl⟩ := List.mem_map.mp hk
    exact h.trap tr htr
  · obtain ⟨p, hp, hk⟩ := hk
    obtain ⟨g, _, rfl⟩ := List.mem_map.mp hk
    exact h.mdom p hp
  · obtain ⟨p, hp, hk⟩ := hk
    obtain ⟨g, _, rfl⟩ := List.mem_map.mp hk
    exact h.jmono p hp
  · obtain ⟨ju, hju, vertex, hv, hk⟩ := hk
    obtain ⟨offs, ho, hst⟩ := List.mem_filterMap.mp hk
    cases hs : juStencil (ju.dims.map (sz c)) vertex offs with
    | none => rw [hs] at hst; cases hst
    | some st =>
      rw [hs] at hst
      simp only [Option.map_some, Option.some.injEq] at hst
      subst hst
      exact ⟨(h.juni ju hju).1, (h.juni ju hju).2, mem_juGroups hv ho hs⟩

/-- transport of `lands` along a tie between a model map and a generic stencil map -/
theorem lands_of_tie {sizes : List Nat} {F : (Idx → ℝ) → Prop}
    (hloc : ∀ y y' : Idx → ℝ, (∀ idx, InRange sizes idx → y idx = y' idx) → F y → F y')
    {M G : W} (tie : AgreeOn sizes M G) (h : F (fun idx => (G idx : ℝ))) :
    F (fun idx => (M idx : ℝ)) :=
  hloc _ _ (fun idx hr => by rw [tie idx hr]) h

theorem vi_of_tie {sizes : List Nat} {w M G : W} {y : Idx → ℝ} (tie : AgreeOn sizes M G)
    (h : bsum sizes (fun idx => ((w idx : ℝ) - (G idx : ℝ)) * (y idx - (G idx : ℝ))) ≤ 0) :
    bsum sizes (fun idx => ((w idx : ℝ) - (M idx : ℝ)) * (y idx - (M idx : ℝ))) ≤ 0 :=
  le_of_eq_of_le (bsum_congr (fun idx hr => by rw [tie idx hr])) h

theorem key_local (c : DCfg) (k : GKey) (hk : KeyWF c.sizes k) (y y' : Idx → ℝ)
    (h : ∀ idx, InRange c.sizes idx → y idx = y' idx) (hy : keyF c k y) : keyF c k y' := by
  cases k with
  | pair d g => exact pairF_local (revAxis_laws _ _ _ hk) y y' h hy
  | edge tr g0 g1 =>
    exact sqF_local (revAxis_laws _ _ _ hk.1) (revAxis_laws _ _ _ hk.2.1) (revAxis_indep _ _ hk.2.2) y y' h hy
  | trap tr g => exact pairF_local (revAxis_laws _ _ _ hk.2.1) y y' h hy
  | mdom p g0 g1 g2 =>
    exact sqF_local (revAxis_laws _ _ _ hk.1) (revAxis_laws _ _ _ hk.2.1) (revAxis_indep _ _ hk.2.2) y y' h hy
  | jmono p g0 g1 g2 =>
    exact sqF_local (revAxis_laws _ _ _ hk.1) (revAxis_laws _ _ _ hk.2.1) (revAxis_indep _ _ hk.2.2) y y' h hy
  | juni ju st => exact hyperF_local hk.2.2 y y' h hy

theorem key_closed (c : DCfg) (k : GKey) : IsClosed {y : Idx → ℝ | keyF c k y} := by
  cases k with
  | pair d g => exact pairF_closed (fun idx => QK_closed _)
  | edge tr g0 g1 => exact sqF_closed edgeQ_closed
  | trap tr g => exact pairF_closed (fun idx => QK_closed _)
  | mdom p g0 g1 g2 => exact sqF_closed (mdomQ_closed g2)
  | jmono p g0 g1 g2 => exact sqF_closed (jmonoQ_closed g2)
  | juni ju st => exact hyperF_closed _ _ _ _

theorem QK_zero (k : PairKind) : QK k 0 0 := by cases k <;> simp [QK]

/-- the zero kernel satisfies every constraint -/
theorem key_zero (c : DCfg) (k : GKey) : keyF c k (fun _ => 0) := by
  cases k with
  | pair d g => intro idx _ _; exact QK_zero _
  | edge tr g0 g1 => intro idx _ _ _; simp [edgeQ]
  | trap tr g => intro idx _ _; exact QK_zero _
  | mdom p g0 g1 g2 => intro idx _ _ _; cases g2 <;> simp [mdomQ]
  | jmono p g0 g1 g2 => intro idx _ _ _; cases g2 <;> simp [jmonoQ]
  | juni ju st => exact hyperF_zero _ _ _ _

/-- **lands, every group kind**: the group map's output satisfies the group's constraints -/
theorem key_lands (c : DCfg) (k : GKey) (hk : KeyWF c.sizes k) (w : W) :
    keyF c k (fun idx => (keyMap c k w idx : ℝ)) := by
  cases k with
  | pair d g =>
    have hA := revAxis_laws c.sizes d true hk
    exact lands_of_tie (key_local c (.pair d g) hk) (monoGroup_eq_pairGroup c.sizes _ _ d g hk w)
      (pairGroup_lands (g := g) (pp := fun idx => pairK (cfgKind c d idx))
        (Q := fun idx => QK (cfgKind c d idx)) hA (fun idx a b _ _ => pairK_lands _ a b) w)
  | edge tr g0 g1 =>
    exact lands_of_tie (key_local c (.edge tr g0 g1) hk) (edgeworthGroup_eq_sqGroup c.sizes tr g0 g1 hk w)
      (sqGroup_lands (revAxis_laws _ _ _ hk.1) (revAxis_laws _ _ _ hk.2.1) (revAxis_indep _ _ hk.2.2)
        edgeSq_lands w)
  | trap tr g =>
    have hA := revAxis_laws c.sizes tr.cond tr.pos hk.2.1
    exact lands_of_tie (key_local c (.trap tr g) hk) (trapezoidGroup_eq_pairGroup c.sizes tr g hk w)
      (pairGroup_lands (g := g) (pp := fun idx => pairK (trapKind (sz c tr.main) (coord idx tr.main)))
        (Q := fun idx => QK (trapKind (sz c tr.main) (coord idx tr.main))) hA
        (fun idx a b _ _ => pairK_lands _ a b) w)
  | mdom p g0 g1 g2 =>
    exact lands_of_tie (key_local c (.mdom p g0 g1 g2) hk)
      (monoDomGroup_eq_sqGroup c.sizes p.1 p.2 g0 g1 g2 hk.1 hk.2.1 w)
      (sqGroup_lands (revAxis_laws _ _ _ hk.1) (revAxis_laws _ _ _ hk.2.1) (revAxis_indep _ _ hk.2.2)
        (mdomSq_lands g2) w)
  | jmono p g0 g1 g2 =>
    exact lands_of_tie (key_local c (.jmono p g0 g1 g2) hk)
      (jointMonoGroup_eq_sqGroup c.sizes p.1 p.2 g0 g1 g2 hk.1 hk.2.1 w)
      (sqGroup_lands (revAxis_laws _ _ _ hk.1) (revAxis_laws _ _ _ hk.2.1) (revAxis_indep _ _ hk.2.2)
        (jmonoSq_lands g2) w)
  | juni ju st => exact hyperplaneGroup_lands hk.1 hk.2.1 hk.2.2 w

/-- **variational inequality on the box, every group kind**: each group map is the Euclidean
projection onto the set of kernels satisfying the group's constraints -/
theorem key_vi (c : DCfg) (k : GKey) (hk : KeyWF c.sizes k) (w : W) (y : Idx → ℝ) (hy : keyF c k y) :
    bsum c.sizes (fun idx => ((w idx : ℝ) - (keyMap c k w idx : ℝ)) * (y idx - (keyMap c k w idx : ℝ))) ≤ 0 := by
  cases k with
  | pair d g =>
    have hA := revAxis_laws c.sizes d true hk
    exact vi_of_tie (monoGroup_eq_pairGroup c.sizes _ _ d g hk w)
      (pairGroup_vi (g := g) (pp := fun idx => pairK (cfgKind c d idx))
        (Q := fun idx => QK (cfgKind c d idx)) hA
        (fun idx a b y1 y2 _ _ h => pairK_vi _ a b y1 y2 h) w y hy)
  | edge tr g0 g1 =>
    exact vi_of_tie (edgeworthGroup_eq_sqGroup c.sizes tr g0 g1 hk w)
      (sqGroup_vi (g0 := g0) (g1 := g1) (sq := sqProj) (Q := edgeQ)
        (revAxis_laws _ _ _ hk.1) (revAxis_laws _ _ _ hk.2.1) (revAxis_indep _ _ hk.2.2)
        (fun a b c d y1 y2 y3 y4 h => sqProj_vi_real a b c d y1 y2 y3 y4 h) w y hy)
  | trap tr g =>
    have hA := revAxis_laws c.sizes tr.cond tr.pos hk.2.1
    exact vi_of_tie (trapezoidGroup_eq_pairGroup c.sizes tr g hk w)
      (pairGroup_vi (g := g) (pp := fun idx => pairK (trapKind (sz c tr.main) (coord idx tr.main)))
        (Q := fun idx => QK (trapKind (sz c tr.main) (coord idx tr.main))) hA
        (fun idx a b y1 y2 _ _ h => pairK_vi _ a b y1 y2 h) w y hy)
  | mdom p g0 g1 g2 =>
    exact vi_of_tie (monoDomGroup_eq_sqGroup c.sizes p.1 p.2 g0 g1 g2 hk.1 hk.2.1 w)
      (sqGroup_vi (g0 := g0) (g1 := g1) (sq := mdomSq g2) (Q := mdomQ g2)
        (revAxis_laws _ _ _ hk.1) (revAxis_laws _ _ _ hk.2.1) (revAxis_indep _ _ hk.2.2)
        (mdomSq_vi g2) w y hy)
  | jmono p g0 g1 g2 =>
    exact vi_of_tie (jointMonoGroup_eq_sqGroup c.sizes p.1 p.2 g0 g1 g2 hk.1 hk.2.1 w)
      (sqGroup_vi (g0 := g0) (g1 := g1) (sq := jmonoSq g2) (Q := jmonoQ g2)
        (revAxis_laws _ _ _ hk.1) (revAxis_laws _ _ _ hk.2.1) (revAxis_indep _ _ hk.2.2)
        (jmonoSq_vi g2) w y hy)
  | juni ju st => exact hyperplaneGroup_vi hk.1 hk.2.1 hk.2.2 w y hy

/-- **C08, convergence clause, every constraint kind except range dominance.** For every
well-formed configuration (monotonicity, unimodality, Edgeworth and trapezoid trusts, monotonic
dominance, joint monotonicity — any combination) and every kernel `w`, the iterates of the model of
`project_by_dykstra` converge on every vertex to the kernel `p` that satisfies the constraints of all
groups and is the Euclidean-nearest such kernel to `w` (Pythagoras gap ⇒ unique). -/
theorem dykstra_cfg_converges_keys (c : DCfg) (hwf : CfgShape c) (w : W) :
    ∃ p : Idx → ℝ, (∀ k ∈ keys c, keyF c k p) ∧
      (∀ y : Idx → ℝ, (∀ k ∈ keys c, keyF c k y) →
        bsum c.sizes (fun idx => ((w idx : ℝ) - p idx) ^ 2) + bsum c.sizes (fun idx => (p idx - y idx) ^ 2)
          ≤ bsum c.sizes (fun idx => ((w idx : ℝ) - y idx) ^ 2)) ∧
      (∀ idx, InRange c.sizes idx → Tendsto (fun n =>
        (((dykstraIter (groups c) n (w, (groups c).map (fun _ => fun _ => 0))).1 idx : ℚ) : ℝ))
          atTop (𝓝 (p idx))) ∧
      Tendsto (fun n => bsum c.sizes (fun idx =>
        ((((dykstraIter (groups c) n (w, (groups c).map (fun _ => fun _ => 0))).1 idx : ℚ) : ℝ)
          - p idx) ^ 2)) atTop (𝓝 0) := by
  have hkw := keys_wf c hwf
  have hloc : ∀ k ∈ keys c, Local c.sizes (keyMap c k) := by
    intro k hk
    apply groups_local c
    rw [groups_eq_keys c hwf.rdom]
    exact List.mem_map.mpr ⟨k, hk, rfl⟩
  rw [groups_eq_keys c hwf.rdom]
  exact dykstra_box_converges c.sizes (keys c) (keyMap c) (keyF c) hloc
    (fun k hk => key_local c k (hkw k hk)) (fun k _ => key_closed c k)
    (fun k hk w => key_lands c k (hkw k hk) w) (fun k hk w y hy => key_vi c k (hkw k hk) w y hy)
    ⟨fun _ => 0, fun k _ => key_zero c k⟩ w

/-! ### the constraints in readable form: all adjacent pairs / all 2×2 cells -/

theorem mem_quads_filter {M N : Nat} {g : Nat × Nat} :
    g ∈ quads.filter (fun g => g.1 + 1 < M ∧ g.2 + 1 < N) ↔ g.1 ∈ parities M ∧ g.2 ∈ parities N := by
  obtain ⟨a, b⟩ := g
  simp only [quads, List.mem_filter, List.mem_cons, List.not_mem_nil, or_false, Prod.mk.injEq,
    decide_eq_true_eq, mem_parities]
  omega

theorem mem_tris_filter {M N : Nat} {g : Nat × Nat × Bool} :
    g ∈ tris.filter (fun g => g.1 + 1 < M ∧ g.2.1 + 1 < N) ↔ g.1 ∈ parities M ∧ g.2.1 ∈ parities N := by
  obtain ⟨a, b, t⟩ := g
  simp only [tris, List.mem_filter, List.mem_cons, List.not_mem_nil, or_false, Prod.mk.injEq,
    decide_eq_true_eq, mem_parities]
  cases t <;> simp <;> omega

theorem mem_keysPair {c : DCfg} {k : GKey} : k ∈ keysPair c ↔ ∃ d g, k = .pair d g ∧
    d < c.sizes.length ∧ (!(c.mono.getD d false) && c.unimod.getD d 0 == 0) = false ∧
      g ∈ parities (sz c d) := by
  simp only [keysPair, List.mem_flatMap, List.mem_range]
  constructor
  · rintro ⟨d, hd, h⟩
    split_ifs at h with hf
    · cases h
    · obtain ⟨g, hg, rfl⟩ := List.mem_map.mp h
      exact ⟨d, g, rfl, hd, by simpa using hf, hg⟩
  · rintro ⟨d, g, rfl, hd, hf, hg⟩
    refine ⟨d, hd, ?_⟩
    rw [if_neg (by simpa using hf)]
    exact List.mem_map.mpr ⟨g, hg, rfl⟩

theorem mem_keysEdge {c : DCfg} {k : GKey} : k ∈ keysEdge c ↔ ∃ tr g0 g1, k = .edge tr g0 g1 ∧
    tr ∈ c.edgeworth ∧ g0 ∈ parities (sz c tr.main) ∧ g1 ∈ parities (sz c tr.cond) := by
  simp only [keysEdge, List.mem_flatMap, List.mem_map]
  constructor
  · rintro ⟨tr, htr, g, hg, rfl⟩
    exact ⟨tr, g.1, g.2, rfl, htr, mem_quads_filter.mp hg⟩
  · rintro ⟨tr, g0, g1, rfl, htr, h0, h1⟩
    exact ⟨tr, htr, (g0, g1), mem_quads_filter.mpr ⟨h0, h1⟩, rfl⟩

theorem mem_keysTrap {c : DCfg} {k : GKey} : k ∈ keysTrap c ↔ ∃ tr g, k = .trap tr g ∧
    tr ∈ c.trapezoid ∧ g ∈ parities (sz c tr.cond) := by
  simp only [keysTrap, List.mem_flatMap, List.mem_map]
  constructor
  · rintro ⟨tr, htr, g, hg, rfl⟩
    exact ⟨tr, g, rfl, htr, hg⟩
  · rintro ⟨tr, g, rfl, htr, hg⟩
    exact ⟨tr, htr, g, hg, rfl⟩

theorem mem_keysMdom {c : DCfg} {k : GKey} : k ∈ keysMdom c ↔ ∃ p g0 g1 g2, k = .mdom p g0 g1 g2 ∧
    p ∈ c.monoDom ∧ g0 ∈ parities (sz c p.1) ∧ g1 ∈ parities (sz c p.2) := by
  simp only [keysMdom, List.mem_flatMap, List.mem_map]
  constructor
  · rintro ⟨p, hp, g, hg, rfl⟩
    exact ⟨p, g.1, g.2.1, g.2.2, rfl, hp, mem_tris_filter.mp hg⟩
  · rintro ⟨p, g0, g1, g2, rfl, hp, h0, h1⟩
    exact ⟨p, hp, (g0, g1, g2), mem_tris_filter.mpr ⟨h0, h1⟩, rfl⟩

theorem mem_keysJmono {c : DCfg} {k : GKey} : k ∈ keysJmono c ↔ ∃ p g0 g1 g2, k = .jmono p g0 g1 g2 ∧
    p ∈ c.jointMono ∧ g0 ∈ parities (sz c p.1) ∧ g1 ∈ parities (sz c p.2) := by
  simp only [keysJmono, List.mem_flatMap, List.mem_map]
  constructor
  · rintro ⟨p, hp, g, hg, rfl⟩
    exact ⟨p, g.1, g.2.1, g.2.2, rfl, hp, mem_tris_filter.mp hg⟩
  · rintro ⟨p, g0, g1, g2, rfl, hp, h0, h1⟩
    exact ⟨p, hp, (g0, g1, g2), mem_tris_filter.mpr ⟨h0, h1⟩, rfl⟩

theorem mem_keysJuni {c : DCfg} {k : GKey} : k ∈ keysJuni c ↔ ∃ ju st, k = .juni ju st ∧
    ju ∈ c.jointUnimod ∧ ∃ vertex ∈ allIdx (ju.dims.map (sz c)), ∃ offs ∈ offsetsAll ju.dims.length,
      juStencil (ju.dims.map (sz c)) vertex offs = some st := by
  simp only [keysJuni, List.mem_flatMap, List.mem_filterMap]
  constructor
  · rintro ⟨ju, hju, vertex, hv, offs, ho, h⟩
    cases hs : juStencil (ju.dims.map (sz c)) vertex offs with
    | none => rw [hs] at h; cases h
    | some st =>
      rw [hs] at h
      simp only [Option.map_some, Option.some.injEq] at h
      exact ⟨ju, st, h.symm, hju, vertex, hv, offs, ho, hs⟩
  · rintro ⟨ju, st, rfl, hju, vertex, hv, offs, ho, hs⟩
    exact ⟨ju, hju, vertex, hv, offs, ho, by rw [hs]; rfl⟩

theorem mem_keys (c : DCfg) (k : GKey) : k ∈ keys c ↔
    match k with
    | .pair d g => d < c.sizes.length ∧ (!(c.mono.getD d false) && c.unimod.getD d 0 == 0) = false ∧
        g ∈ parities (sz c d)
    | .edge tr g0 g1 => tr ∈ c.edgeworth ∧ g0 ∈ parities (sz c tr.main) ∧ g1 ∈ parities (sz c tr.cond)
    | .trap tr g => tr ∈ c.trapezoid ∧ g ∈ parities (sz c tr.cond)
    | .mdom p g0 g1 _ => p ∈ c.monoDom ∧ g0 ∈ parities (sz c p.1) ∧ g1 ∈ parities (sz c p.2)
    | .jmono p g0 g1 _ => p ∈ c.jointMono ∧ g0 ∈ parities (sz c p.1) ∧ g1 ∈ parities (sz c p.2)
    | .juni ju st => ju ∈ c.jointUnimod ∧ ∃ vertex ∈ allIdx (ju.dims.map (sz c)),
        ∃ offs ∈ offsetsAll ju.dims.length, juStencil (ju.dims.map (sz c)) vertex offs = some st := by
  simp only [keys, List.mem_append, mem_keysPair, mem_keysEdge, mem_keysTrap, mem_keysMdom,
    mem_keysJmono, mem_keysJuni]
  cases k <;> simp

/-- **feasibility of a real kernel for a configuration** (everything `project_by_dykstra` projects
onto except range dominance), on the box:
* every adjacent pair along a dimension has the direction monotonicity / unimodality prescribes;
* every 2×2 cell of an Edgeworth trust's grid (conditional dimension in list order) satisfies the
  Edgeworth inequality; the first / last main layer of a trapezoid trust is non-increasing /
  non-decreasing along the conditional dimension (list order);
* every 2×2 cell of a monotonic-dominance or joint-monotonicity pair satisfies both triangle
  inequalities. -/
structure FeasibleR (c : DCfg) (y : Idx → ℝ) : Prop where
  pairs : ∀ d, d < c.sizes.length → AllPairs (coordAxis c.sizes d) (fun idx => QK (cfgKind c d idx)) y
  edge : ∀ tr ∈ c.edgeworth,
    AllSquares (coordAxis c.sizes tr.main) (revAxis c.sizes tr.cond tr.pos) edgeQ y
  trap : ∀ tr ∈ c.trapezoid, AllPairs (revAxis c.sizes tr.cond tr.pos)
    (fun idx => QK (trapKind (sz c tr.main) (coord idx tr.main))) y
  mdom : ∀ p ∈ c.monoDom, ∀ g2, AllSquares (coordAxis c.sizes p.1) (coordAxis c.sizes p.2) (mdomQ g2) y
  jmono : ∀ p ∈ c.jointMono, ∀ g2, AllSquares (coordAxis c.sizes p.1) (coordAxis c.sizes p.2) (jmonoQ g2) y
  juni : ∀ ju ∈ c.jointUnimod, ∀ vertex ∈ allIdx (ju.dims.map (sz c)), ∀ offs ∈ offsetsAll ju.dims.length,
    ∀ st, juStencil (ju.dims.map (sz c)) vertex offs = some st → HyperF c.sizes ju.dims ju.valley st y

theorem feasibleR_iff_keys (c : DCfg) (y : Idx → ℝ) : FeasibleR c y ↔ ∀ k ∈ keys c, keyF c k y := by
  constructor
  · intro hf k hk
    have hm := (mem_keys c k).mp hk
    cases k with
    | pair d g => exact (pairF_all_iff _ _ y).mpr (hf.pairs d hm.1) g hm.2.2
    | edge tr g0 g1 => exact (sqF_all_iff _ _ _ y).mpr (hf.edge tr hm.1) g0 hm.2.1 g1 hm.2.2
    | trap tr g => exact (pairF_all_iff _ _ y).mpr (hf.trap tr hm.1) g hm.2
    | mdom p g0 g1 g2 => exact (sqF_all_iff _ _ _ y).mpr (hf.mdom p hm.1 g2) g0 hm.2.1 g1 hm.2.2
    | jmono p g0 g1 g2 => exact (sqF_all_iff _ _ _ y).mpr (hf.jmono p hm.1 g2) g0 hm.2.1 g1 hm.2.2
    | juni ju st =>
      obtain ⟨hju, vertex, hv, offs, ho, hs⟩ := hm
      exact hf.juni ju hju vertex hv offs ho st hs
  · intro h
    refine ⟨fun d hd => ?_, fun tr htr => ?_, fun tr htr => ?_, fun p hp g2 => ?_, fun p hp g2 => ?_,
      fun ju hju vertex hv offs ho st hs => h (.juni ju st) ((mem_keys c _).mpr ⟨hju, vertex, hv, offs, ho, hs⟩)⟩
    · by_cases hf : (!(c.mono.getD d false) && c.unimod.getD d 0 == 0) = true
      · intro idx _ _
        simp only [Bool.and_eq_true, Bool.not_eq_true', beq_iff_eq] at hf
        simp only [cfgKind, pairKind, hf.1, hf.2, Bool.false_eq_true, if_false, if_true, QK]
      · exact (pairF_all_iff _ _ y).mp
          (fun g hg => h (.pair d g) ((mem_keys c _).mpr ⟨hd, by simpa using hf, hg⟩))
    · exact (sqF_all_iff _ _ _ y).mp
        (fun g0 h0 g1 h1 => h (.edge tr g0 g1) ((mem_keys c _).mpr ⟨htr, h0, h1⟩))
    · exact (pairF_all_iff _ _ y).mp (fun g hg => h (.trap tr g) ((mem_keys c _).mpr ⟨htr, hg⟩))
    · exact (sqF_all_iff _ _ _ y).mp
        (fun g0 h0 g1 h1 => h (.mdom p g0 g1 g2) ((mem_keys c _).mpr ⟨hp, h0, h1⟩))
    · exact (sqF_all_iff _ _ _ y).mp
        (fun g0 h0 g1 h1 => h (.jmono p g0 g1 g2) ((mem_keys c _).mpr ⟨hp, h0, h1⟩))

/-- **C08, convergence clause — main statement.** Every well-formed configuration without range
dominance, every kernel: the iterates of `project_by_dykstra`'s model converge, vertex by vertex,
to the feasible kernel nearest to the input (sum of squares over the box; the Pythagoras gap makes
it the unique nearest one); the sum of squared distances to it tends to 0. -/
theorem dykstra_cfg_converges (c : DCfg) (hwf : CfgShape c) (w : W) :
    ∃ p : Idx → ℝ, FeasibleR c p ∧
      (∀ y : Idx → ℝ, FeasibleR c y →
        bsum c.sizes (fun idx => ((w idx : ℝ) - p idx) ^ 2) + bsum c.sizes (fun idx => (p idx - y idx) ^ 2)
          ≤ bsum c.sizes (fun idx => ((w idx : ℝ) - y idx) ^ 2)) ∧
      (∀ idx, InRange c.sizes idx → Tendsto (fun n =>
        (((dykstraIter (groups c) n (w, (groups c).map (fun _ => fun _ => 0))).1 idx : ℚ) : ℝ))
          atTop (𝓝 (p idx))) ∧
      Tendsto (fun n => bsum c.sizes (fun idx =>
        ((((dykstraIter (groups c) n (w, (groups c).map (fun _ => fun _ => 0))).1 idx : ℚ) : ℝ)
          - p idx) ^ 2)) atTop (𝓝 0) := by
  obtain ⟨p, hp, hnear, hlim, hsq⟩ := dykstra_cfg_converges_keys c hwf w
  exact ⟨p, (feasibleR_iff_keys c p).mpr hp,
    fun y hy => hnear y ((feasibleR_iff_keys c y).mp hy), hlim, hsq⟩

/-! ### ties to `FeasibleD` and to the executable loop, all constraint kinds -/

/-- a rational kernel satisfying the configuration's constraints (`FeasibleD`, the predicate of the
fixpoint theorems) is feasible in the sense of the convergence theorem -/
theorem feasibleR_of_feasibleD (c : DCfg) (hwf : CfgShape c) (w : W) (hf : FeasibleD c w) :
    FeasibleR c (fun idx => (w idx : ℝ)) := by
  rw [feasibleR_iff_keys]
  intro k hk
  have hfix : AgreeOn c.sizes (keyMap c k w) w := by
    apply groups_fix c w hwf.trap hf
    rw [groups_eq_keys c hwf.rdom]
    exact List.mem_map.mpr ⟨k, hk, rfl⟩
  exact key_local c k (keys_wf c hwf k hk) _ _ (fun idx hr => by rw [hfix idx hr])
    (key_lands c k (keys_wf c hwf k hk) w)

/-- uniform closeness on the box from the sum of squares -/
theorem uniform_of_bsum {sizes : List Nat} {u : ℕ → Idx → ℝ}
    (h : Tendsto (fun n => bsum sizes (fun idx => (u n idx) ^ 2)) atTop (𝓝 0)) {ε : ℝ} (hε : 0 < ε) :
    ∃ n0 : ℕ, ∀ n, n0 ≤ n → ∀ idx, InRange sizes idx → |u n idx| < ε := by
  have hε' : (0 : ℝ) < ε ^ 2 := by positivity
  obtain ⟨n0, hn0⟩ := Filter.eventually_atTop.mp ((tendsto_order.mp h).2 _ hε')
  refine ⟨n0, fun n hn idx hr => ?_⟩
  have h1 := le_bsum (sizes := sizes) (f := fun idx => (u n idx) ^ 2) (fun _ => sq_nonneg _) hr
  exact abs_lt_of_sq_lt_sq (lt_of_le_of_lt h1 (hn0 n hn)) hε.le

/-- the executable `project_by_dykstra` computes the function-level SLOTTED loop on the box (slots =
dict keys; repeated constraints included), for every iteration count, whenever its early-return test
lets the loop run -/
theorem projectByDykstraT_agree_iterS (c : DCfg) (hact : dykstraActive c = true) (n : Nat) (t : Table) :
    AgreeOn c.sizes (projectByDykstraT c n t).get
      (dykstraIterS ((groups c).zip (slots c)) n (t.get, (groups c).map (fun _ => fun _ => 0))).1 := by
  unfold projectByDykstraT
  split_ifs with h
  · simp only [Bool.or_eq_true, decide_eq_true_eq, Bool.not_eq_true', hact] at h
    rcases h with h | h
    · subst h; exact AgreeOn.refl _ _
    · cases h
  · exact projectByDykstraT_agreeS c n t

/-- the executable `project_by_dykstra` computes the function-level position-slotted loop
`dykstraIter (groups c)` (the object of `dykstra_cfg_converges`) on the box, for every iteration count,
whenever its early-return test lets the loop run AND no dict key repeats (`hk`; with a repeated
constraint the two loops differ: `dup_slots_differ`) -/
theorem projectByDykstraT_agree_iter (c : DCfg) (hk : (groupKeys c).Nodup) (hact : dykstraActive c = true)
    (n : Nat) (t : Table) :
    AgreeOn c.sizes (projectByDykstraT c n t).get
      (dykstraIter (groups c) n (t.get, (groups c).map (fun _ => fun _ => 0))).1 := by
  rw [projectByDykstraT_of_nodup c hk]
  split_ifs with h
  · simp only [Bool.or_eq_true, decide_eq_true_eq, Bool.not_eq_true', hact] at h
    rcases h with h | h
    · subst h; exact AgreeOn.refl _ _
    · cases h
  · exact projectByDykstraT_agree c n t

/-- **C08, convergence clause on the executable model, every constraint kind except range
dominance.** -/
theorem projectByDykstraT_cfg_converges (c : DCfg) (hwf : CfgWF c) (hact : dykstraActive c = true)
    (t : Table) :
    ∃ p : Idx → ℝ, FeasibleR c p ∧
      (∀ y : Idx → ℝ, FeasibleR c y →
        bsum c.sizes (fun idx => ((t.get idx : ℝ) - p idx) ^ 2) + bsum c.sizes (fun idx => (p idx - y idx) ^ 2)
          ≤ bsum c.sizes (fun idx => ((t.get idx : ℝ) - y idx) ^ 2)) ∧
      (∀ idx, InRange c.sizes idx → Tendsto (fun n =>
        (((projectByDykstraT c n t).get idx : ℚ) : ℝ)) atTop (𝓝 (p idx))) ∧
      (∀ ε : ℝ, 0 < ε → ∃ n0 : Nat, ∀ n, n0 ≤ n → ∀ idx, InRange c.sizes idx →
        |(((projectByDykstraT c n t).get idx : ℚ) : ℝ) - p idx| < ε) := by
  obtain ⟨p, hp, hnear, hlim, hsq⟩ := dykstra_cfg_converges c hwf.toCfgShape t.get
  refine ⟨p, hp, hnear, fun idx hr => ?_, fun ε hε => ?_⟩
  · refine (hlim idx hr).congr (fun n => ?_)
    rw [projectByDykstraT_agree_iter c hwf.keys hact n t idx hr]
  · obtain ⟨n0, h⟩ := uniform_of_bsum hsq hε
    refine ⟨n0, fun n hn idx hr => ?_⟩
    rw [projectByDykstraT_agree_iter c hwf.keys hact n t idx hr]
    exact h n hn idx hr

/-! ### range dominance is not covered: its corner map is not a projection -/

/-- the kernel on the 2×2 lattice with `L[0][1] = 1` and 0 elsewhere -/
def wRd : W := fun idx => if idx = [0, 1] then 1 else 0

/-- **why range dominance is excluded.** At the corner vertex `(i, j) = (0, N−1)` the constraint of
`_project_partial_range_dominance` reads `2·L[0][N−1] − L[0][0] − L[M−1][N−1] ≤ 0`; the model's map
raises `L[0][0]` and `L[M−1][N−1]` and leaves the doubly weighted corner alone. On the 2×2 lattice,
from `wRd` it returns `(1, 1, 0, 1)`; the zero kernel satisfies the constraint, yet the variational
inequality `Σ (w − P w)(0 − P w) ≤ 0` fails (the sum is 2): the map is not the Euclidean projection
onto its constraint set, so the Boyle–Dykstra hypotheses do not hold for this group. -/
theorem rangeDom_corner_not_projection :
    (allIdx [2, 2]).map (rangeDomGroup 2 2 0 1 0 1 wRd) = [1, 1, 0, 1] ∧
      rsum ((allIdx [2, 2]).map (fun idx =>
        (wRd idx - rangeDomGroup 2 2 0 1 0 1 wRd idx) * (0 - rangeDomGroup 2 2 0 1 0 1 wRd idx))) = 2 := by
  decide +kernel

/-! ### non-vacuity of the general statement -/

/-- the 3×3 configuration of the fixpoint examples (monotone dimension 0, Edgeworth trust of 0
conditional on 1) is well-formed and runs the loop -/
example : CfgWF cEx ∧ dykstraActive cEx = true := by
  refine ⟨⟨⟨?_, ?_, ?_, ?_, ?_, rfl⟩, by decide +kernel⟩, by decide⟩
  · intro tr htr
    have : tr = ⟨0, 1, true⟩ := by simpa [cEx] using htr
    subst this
    exact ⟨by decide, by decide, by decide⟩
  · intro tr htr; simp [cEx] at htr
  · intro p hp; simp [cEx] at hp
  · intro p hp; simp [cEx] at hp
  · intro ju hju; simp [cEx] at hju

/-! ### the `last_change` dict: configurations without / with repeated constraints -/

/-- `CfgWF` for a configuration of the right shape whose constraint lists have no repeated entry
(`NoRepeats`: what a user who lists every constraint once provides; NOT checked by
`verify_hyperparameters`) -/
theorem cfgWF_of_noRepeats (c : DCfg) (hs : CfgShape c) (hn : NoRepeats c) : CfgWF c :=
  { toCfgShape := hs, keys := groupKeys_nodup c hn }

/-- **C08, convergence clause on the executable model, constraints listed once**: the statement of
`projectByDykstraT_cfg_converges` with the duplicate-freeness of the dict keys discharged from the
duplicate-freeness of the six constraint lists. -/
theorem projectByDykstraT_cfg_converges_noRepeats (c : DCfg) (hs : CfgShape c) (hn : NoRepeats c)
    (hact : dykstraActive c = true) (t : Table) :
    ∃ p : Idx → ℝ, FeasibleR c p ∧
      (∀ y : Idx → ℝ, FeasibleR c y →
        bsum c.sizes (fun idx => ((t.get idx : ℝ) - p idx) ^ 2) + bsum c.sizes (fun idx => (p idx - y idx) ^ 2)
          ≤ bsum c.sizes (fun idx => ((t.get idx : ℝ) - y idx) ^ 2)) ∧
      (∀ idx, InRange c.sizes idx → Tendsto (fun n =>
        (((projectByDykstraT c n t).get idx : ℚ) : ℝ)) atTop (𝓝 (p idx))) ∧
      (∀ ε : ℝ, 0 < ε → ∃ n0 : Nat, ∀ n, n0 ≤ n → ∀ idx, InRange c.sizes idx →
        |(((projectByDykstraT c n t).get idx : ℚ) : ℝ) - p idx| < ε) :=
  projectByDykstraT_cfg_converges c (cfgWF_of_noRepeats c hs hn) hact t

/-- the joint monotonicity `(0, 1)` listed twice on a 3×2 lattice -/
def cDup : DCfg := { sizes := [3, 2], mono := [false, false], jointMono := [(0, 1), (0, 1)] }

/-- **a repeated constraint shares its `last_change` slots, and that changes the iterates.** For
`joint_monotonicities=[(0, 1), (0, 1)]` on a 3×2 lattice the eight group visits of a pass use the four
slots `0,1,2,3,0,1,2,3` (the dict keys of the second copy are those of the first); after ONE pass from
the kernel `(-1,-1,0,-1,-1,-1)` the model returns `(-1, -86/81, -178/243, -491/729, -581/729, -536/729)`
— the values the real `project_by_dykstra` returns (harness corpus `corpus/C08/fixed.json`) — while the
loop with one slot per list position (the model before this repair) returns different values. -/
theorem dup_slots_differ :
    slots cDup = [0, 1, 2, 3, 0, 1, 2, 3] ∧
    Table.vals [3, 2] (projectByDykstraT cDup 1 (Table.ofVals [3, 2] [-1, -1, 0, -1, -1, -1]))
      = [-1, -86 / 81, -178 / 243, -491 / 729, -581 / 729, -536 / 729] ∧
    Table.vals [3, 2] (dykstraIterT [3, 2] (groups cDup) 1
        (Table.ofVals [3, 2] [-1, -1, 0, -1, -1, -1], (groups cDup).map (fun _ => zeroT [3, 2]))).1
      = [-1, -7 / 6, -113 / 162, -265 / 486, -427 / 486, -173 / 243] := by
  refine ⟨by decide +kernel, by decide +kernel, by decide +kernel⟩

/-- `cDup` has the shape the theorems ask for but NOT duplicate-free keys: it is outside `CfgWF` -/
theorem cDup_not_cfgWF : CfgShape cDup ∧ ¬ CfgWF cDup := by
  refine ⟨⟨?_, ?_, ?_, ?_, ?_, rfl⟩, fun h => ?_⟩
  · intro tr htr; simp [cDup] at htr
  · intro tr htr; simp [cDup] at htr
  · intro p hp; simp [cDup] at hp
  · intro p hp
    have : p = (0, 1) := by simpa [cDup] using hp
    subst this
    exact ⟨by decide, by decide, by decide⟩
  · intro ju hju; simp [cDup] at hju
  · exact absurd h.keys (by decide +kernel)

/-- a 'valley' and a 'peak' joint unimodality on the SAME dimension: different dict keys since /repo
4b9511c (the direction is part of the key), so every group visit has its own slot -/
def cVP : DCfg := { sizes := [3, 2], mono := [false, false], jointUnimod := [⟨[0], true⟩, ⟨[0], false⟩] }

example : CfgWF cVP ∧ dykstraActive cVP = true ∧ slots cVP = [0, 1, 2, 3] := by
  refine ⟨⟨⟨?_, ?_, ?_, ?_, ?_, rfl⟩, by decide +kernel⟩, by decide, by decide +kernel⟩
  · intro tr htr; simp [cVP] at htr
  · intro tr htr; simp [cVP] at htr
  · intro p hp; simp [cVP] at hp
  · intro p hp; simp [cVP] at hp
  · intro ju hju
    have : ju = ⟨[0], true⟩ ∨ ju = ⟨[0], false⟩ := by simpa [cVP] using hju
    rcases this with rfl | rfl <;> exact ⟨by decide, by decide⟩

/-! ### joint unimodality: the stencil map is an exact half-space projection, ANY coefficients -/

/-- `_project_onto_hyperplane` on one stencil `l` with coefficients `a` and values `v`:
`v − clip(a·v)/(a·a) · a`, `clip = min(·, 0)` for `'valley'` (half-space `a·x ≥ 0`), `max(·, 0)` for
`'peak'` (`a·x ≤ 0`) -/
def hsP {ι : Type} (valley : Bool) (l : List ι) (a v : ι → ℚ) (i : ι) : ℚ :=
  v i - clipV valley ((l.map (fun j => a j * v j)).sum) / (l.map (fun j => a j * a j)).sum * a i

/-- **C08-T1 (joint unimodality), lands**: for every coefficient vector `a ≠ 0` the projected stencil
satisfies the half-space inequality. -/
theorem hsP_lands {ι : Type} (valley : Bool) (l : List ι) (a v : ι → ℚ) (ha : ∃ i ∈ l, a i ≠ 0) :
    JuQ valley ((l.map (fun i => a i * hsP valley l a v i)).sum) := by
  simp only [hsP]
  rw [hs_dot_identity l a v]
  exact hs_lands_scalar valley _ _ (sum_sq_pos l a ha)

/-- **C08-T1 (joint unimodality), fixes feasible**: a stencil already in the half-space is not moved. -/
theorem hsP_fix {ι : Type} (valley : Bool) (l : List ι) (a v : ι → ℚ)
    (h : JuQ valley ((l.map (fun j => a j * v j)).sum)) (i : ι) : hsP valley l a v i = v i := by
  simp only [hsP, clipV_of_feasible h, zero_div, zero_mul, sub_zero]

/-- **C08-T1 (joint unimodality), variational inequality**: `Σ (v − P v)(y − P v) ≤ 0` for every `y` of
the half-space — the stencil map IS the Euclidean projection onto the half-space. -/
theorem hsP_vi {ι : Type} (valley : Bool) (l : List ι) (a v y : ι → ℚ) (ha : ∃ i ∈ l, a i ≠ 0)
    (hy : JuQ valley ((l.map (fun j => a j * y j)).sum)) :
    (l.map (fun i => (v i - hsP valley l a v i) * (y i - hsP valley l a v i))).sum ≤ 0 := by
  simp only [hsP]
  rw [hs_identity l a v y]
  exact hs_scalar valley _ _ _ (sum_sq_pos l a ha) hy

/-! ### non-vacuity: a 3×3 lattice, jointly unimodal (valley) in both dimensions -/

def cJu : DCfg := { sizes := [3, 3], mono := [false, false], jointUnimod := [⟨[0, 1], true⟩] }

/-- 12 hyperplane groups: one per corner, two identical ones per edge midpoint (the offset of the
centred dimension does not enter the hyperplane, the real loop visits both), none for the centre -/
example : (groups cJu).length = 12 := by decide +kernel

example : CfgWF cJu ∧ dykstraActive cJu = true := by
  refine ⟨⟨⟨?_, ?_, ?_, ?_, ?_, rfl⟩, by decide +kernel⟩, by decide⟩
  · intro tr htr; simp [cJu] at htr
  · intro tr htr; simp [cJu] at htr
  · intro p hp; simp [cJu] at hp
  · intro p hp; simp [cJu] at hp
  · intro ju hju
    have : ju = ⟨[0, 1], true⟩ := by simpa [cJu] using hju
    subst this
    exact ⟨by decide, by decide⟩

/-- the bump `e_centre` is infeasible for a valley and IS moved (exact values of one pass) -/
example : Table.vals [3, 3] (projectByDykstraT cJu 1 (Table.ofVals [3, 3] [0, 0, 0, 0, 1, 0, 0, 0, 0]))
    = [0, 5 / 12, 1 / 6, 5 / 24, 1 / 48, 19 / 288, 1 / 12, 1 / 288, 5 / 144] := by decide +kernel

/-- the cone `|i − 1| + |j − 1|` is a valley: every group fixes it, so EVERY iteration count returns it -/
example (n : Nat) : Table.vals [3, 3] (projectByDykstraT cJu n (Table.ofVals [3, 3] [2, 1, 2, 1, 0, 1, 2, 1, 2]))
    = [2, 1, 2, 1, 0, 1, 2, 1, 2] := by
  have hall : (groups cJu).all (fun P =>
      decide ((allIdx [3, 3]).map (P (Table.ofVals [3, 3] [2, 1, 2, 1, 0, 1, 2, 1, 2]).get)
        = (allIdx [3, 3]).map (Table.ofVals [3, 3] [2, 1, 2, 1, 0, 1, 2, 1, 2]).get)) = true := by decide +kernel
  have h : ∀ P ∈ groups cJu, AgreeOn cJu.sizes (P (Table.ofVals [3, 3] [2, 1, 2, 1, 0, 1, 2, 1, 2]).get)
      (Table.ofVals [3, 3] [2, 1, 2, 1, 0, 1, 2, 1, 2]).get := fun P hP =>
    agreeOn_of_map_eq (of_decide_eq_true (List.all_eq_true.mp hall P hP))
  have := projectByDykstraT_fixpoint cJu n _ h
  rw [show cJu.sizes = [3, 3] from rfl] at this
  rw [this]; decide +kernel

end Tfl.C08
