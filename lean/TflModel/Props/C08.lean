import TflModel.Model.Dykstra
import TflModel.Lemmas.Idx
import Mathlib.Tactic.Ring
import Mathlib.Tactic.Linarith
/-!
# C08 — iterative (Dykstra) projection: feasible ⇒ unchanged, exact group projections,
Dykstra bookkeeping

Model: `Tfl.Lat.dykstraPass / dykstraIter` over the group list `Tfl.Lat.groups` (the
`_project_partial_*` functions), see `Model/Dykstra.lean`.

Proved (for every group list, every iteration count, every kernel):
* T2 `dykstra_fixpoint`: if every group map fixes `w`, the whole loop returns `w` with all
  `last_change` tensors zero — for every number of iterations; re-projecting does not move it.
* T3 `dykstra_telescoping`: along every pass `w − Σ_g last_change_g` is invariant (for ANY maps).
* T1 (stencil level): each stencil map — pair (monotonicity/unimodality), 2×2 square (Edgeworth),
  pair (trapezoid), the two triangles (monotonic dominance, joint monotonicity), range quadruple and
  corner triple (range dominance) — lands in its half-space, fixes it, and satisfies the
  variational inequality `Σ_v (x_v − P x_v)(y_v − P x_v) ≤ 0` for every feasible `y`, i.e. it IS the
  Euclidean projection onto that half-space; `monoGroup_pair` ties the tensor-level monotonicity
  group map to `pairProj` (stencils of one group are disjoint by parity) and `monoGroup_fix` shows a
  monotone kernel is fixed by it; the ties of the other groups to their stencil maps are exercised
  by the correspondence of every run, not proved.
NOT proved (said in DESIGN.md): that the iterates converge (Boyle–Dykstra 1986). The
"violation → 0" and "limit is the nearest point" clauses are `C08_limit_partial`: tested every run
against a QP solver, not proved.
-/
namespace Tfl.C08
open Tfl Tfl.Lat

/-- the part of C08 that is NOT a theorem here: convergence of the iterates to the nearest point -/
def C08_limit_partial : Prop :=
  ∀ (ps : List (W → W)) (w : W), ∃ limit : W, ∀ idx, ∀ ε : ℚ, 0 < ε → ∃ n0 : Nat, ∀ n, n0 ≤ n →
    |(dykstraIter ps n (w, ps.map (fun _ => fun _ => 0))).1 idx - limit idx| < ε

/-! ### T2: feasible ⇒ unchanged -/
theorem visit_fix (P : W → W) (w : W) (h : P w = w) : visit P w (fun _ => 0) = (w, fun _ => 0) := by
  have hr : (fun idx => w idx - (fun _ => (0 : ℚ)) idx) = w := by funext idx; simp
  simp only [visit, hr, h]
  congr 1
  funext idx; simp

theorem dykstraPass_fix (ps : List (W → W)) (w : W) (h : ∀ P ∈ ps, P w = w) :
    dykstraPass ps w (ps.map (fun _ => fun _ => 0)) = (w, ps.map (fun _ => fun _ => 0)) := by
  induction ps with
  | nil => rfl
  | cons P r ih =>
    simp only [dykstraPass, List.map_cons, List.headD_cons, List.tail_cons,
      visit_fix P w (h P (List.mem_cons_self ..))]
    rw [ih (fun Q hQ => h Q (List.mem_cons_of_mem _ hQ))]

/-- **C08-T2.** A kernel fixed by every group projection (in particular every feasible kernel,
see the `*_fix` stencil lemmas) is returned unchanged by the Dykstra loop, with all roll-back
tensors still zero, for EVERY number of iterations; hence projecting a result again that is
itself fixed does not move it. -/
theorem dykstra_fixpoint (ps : List (W → W)) (w : W) (h : ∀ P ∈ ps, P w = w) (n : Nat) :
    dykstraIter ps n (w, ps.map (fun _ => fun _ => 0)) = (w, ps.map (fun _ => fun _ => 0)) := by
  induction n with
  | zero => rfl
  | succ n ih => simp only [dykstraIter, dykstraPass_fix ps w h]; exact ih

/-! ### T3: telescoping invariant, for any maps -/
def csum (cs : List W) (idx : Idx) : ℚ := rsum (cs.map (fun c => c idx))

theorem dykstraPass_length (ps : List (W → W)) (w : W) (cs : List W) :
    (dykstraPass ps w cs).2.length = ps.length := by
  induction ps generalizing w cs with
  | nil => rfl
  | cons P r ih => simp [dykstraPass, ih]

/-- **C08-T3.** One pass over the groups keeps `w − Σ_g last_change_g` pointwise invariant,
whatever the group maps are (Dykstra's bookkeeping: each visit rolls back exactly what it
recorded). -/
theorem dykstra_telescoping (ps : List (W → W)) (w : W) (cs : List W) (hl : cs.length = ps.length)
    (idx : Idx) :
    (dykstraPass ps w cs).1 idx - csum (dykstraPass ps w cs).2 idx = w idx - csum cs idx := by
  induction ps generalizing w cs with
  | nil =>
    have : cs = [] := List.eq_nil_of_length_eq_zero (by simpa using hl)
    subst this; rfl
  | cons P r ih =>
    cases cs with
    | nil => simp at hl
    | cons c cr =>
      have hl' : cr.length = r.length := by simpa using hl
      have := ih (visit P w c).1 cr hl'
      simp only [dykstraPass, List.headD_cons, List.tail_cons, csum, List.map_cons, rsum] at this ⊢
      simp only [visit] at this ⊢
      linarith

theorem dykstraIter_telescoping (ps : List (W → W)) (n : Nat) (w : W) (cs : List W)
    (hl : cs.length = ps.length) (idx : Idx) :
    (dykstraIter ps n (w, cs)).1 idx - csum (dykstraIter ps n (w, cs)).2 idx = w idx - csum cs idx := by
  induction n generalizing w cs with
  | zero => rfl
  | succ n ih =>
    simp only [dykstraIter]
    rw [ih _ _ (by rw [dykstraPass_length]), dykstra_telescoping ps w cs hl]

/-! ### T1: the stencil maps are exact Euclidean projections onto their half-spaces -/

/-- pair `(a, b)`, constraint `a ≤ b`: `_project_partial_monotonicity` (increasing pair) -/
def pairProj (a b : ℚ) : ℚ × ℚ := (min a ((a + b) / 2), max b ((a + b) / 2))
theorem pairProj_lands (a b : ℚ) : (pairProj a b).1 ≤ (pairProj a b).2 := by
  simp only [pairProj, min_def, max_def]; split_ifs <;> linarith
theorem pairProj_fix (a b : ℚ) (h : a ≤ b) : pairProj a b = (a, b) := by
  have h1 : min a ((a + b) / 2) = a := min_eq_left (by linarith)
  have h2 : max b ((a + b) / 2) = b := max_eq_left (by linarith)
  simp only [pairProj, h1, h2]
theorem pairProj_vi (a b y1 y2 : ℚ) (hy : y1 ≤ y2) :
    (a - (pairProj a b).1) * (y1 - (pairProj a b).1) + (b - (pairProj a b).2) * (y2 - (pairProj a b).2) ≤ 0 := by
  by_cases hab : a ≤ b
  · rw [pairProj_fix a b hab]; simp
  · have hlt := not_le.mp hab
    have h1 : min a ((a + b) / 2) = (a + b) / 2 := min_eq_right (by linarith)
    have h2 : max b ((a + b) / 2) = (a + b) / 2 := max_eq_right (by linarith)
    simp only [pairProj, h1, h2]
    nlinarith [mul_nonneg (show (0:ℚ) ≤ (a - b) / 2 by linarith) (show (0:ℚ) ≤ y2 - y1 by linarith)]

/-- 2×2 square `(p,q,r,s) = (L[i][j], L[i][j+1], L[i+1][j], L[i+1][j+1])`: `_project_partial_edgeworth` -/
def sqProj (p q r s : ℚ) : ℚ × ℚ × ℚ × ℚ :=
  let c := max (((r - p) - (s - q)) / 4) 0
  (p + c, q - c, r - c, s + c)
theorem sqProj_lands (p q r s : ℚ) :
    ((sqProj p q r s).2.2.1 - (sqProj p q r s).1) - ((sqProj p q r s).2.2.2 - (sqProj p q r s).2.1) ≤ 0 := by
  simp only [sqProj, max_def]; split_ifs <;> linarith
theorem sqProj_fix (p q r s : ℚ) (h : (r - p) - (s - q) ≤ 0) : sqProj p q r s = (p, q, r, s) := by
  have : max (((r - p) - (s - q)) / 4) 0 = 0 := max_eq_right (by linarith)
  simp [sqProj, this]
theorem sqProj_vi (p q r s y1 y2 y3 y4 : ℚ) (hy : (y3 - y1) - (y4 - y2) ≤ 0) :
    (p - (sqProj p q r s).1) * (y1 - (sqProj p q r s).1) + (q - (sqProj p q r s).2.1) * (y2 - (sqProj p q r s).2.1)
      + (r - (sqProj p q r s).2.2.1) * (y3 - (sqProj p q r s).2.2.1)
      + (s - (sqProj p q r s).2.2.2) * (y4 - (sqProj p q r s).2.2.2) ≤ 0 := by
  simp only [sqProj, max_def]
  split_ifs with h
  · nlinarith
  · nlinarith [mul_nonneg (show (0:ℚ) ≤ ((r - p) - (s - q)) / 4 from le_of_lt (not_le.mp h))
      (show (0:ℚ) ≤ -((y3 - y1) - (y4 - y2)) by linarith)]

/-- triangle with apex `m` that must be at least the midpoint of `(a, b)`:
`_project_partial_monotonic_dominance` (group bit 1) and `_project_partial_joint_monotonicity` (bit 1) -/
def triUp (a b m : ℚ) : ℚ × ℚ × ℚ :=
  let c := max (((a + b) / 2 - m) / 3) 0
  (a - c, b - c, m + 2 * c)
theorem triUp_lands (a b m : ℚ) :
    ((triUp a b m).1 + (triUp a b m).2.1) / 2 ≤ (triUp a b m).2.2 := by
  simp only [triUp, max_def]; split_ifs <;> linarith
theorem triUp_fix (a b m : ℚ) (h : (a + b) / 2 ≤ m) : triUp a b m = (a, b, m) := by
  have : max (((a + b) / 2 - m) / 3) 0 = 0 := max_eq_right (by linarith)
  simp [triUp, this]
theorem triUp_vi (a b m y1 y2 y3 : ℚ) (hy : (y1 + y2) / 2 ≤ y3) :
    (a - (triUp a b m).1) * (y1 - (triUp a b m).1) + (b - (triUp a b m).2.1) * (y2 - (triUp a b m).2.1)
      + (m - (triUp a b m).2.2) * (y3 - (triUp a b m).2.2) ≤ 0 := by
  simp only [triUp, max_def]
  split_ifs with h
  · nlinarith
  · nlinarith [mul_nonneg (show (0:ℚ) ≤ ((a + b) / 2 - m) / 3 from le_of_lt (not_le.mp h))
      (show (0:ℚ) ≤ -((y1 + y2) / 2 - y3) by linarith)]

/-- triangle with apex `m` that must be at most the midpoint of `(a, b)` (group bit 0) -/
def triDown (a b m : ℚ) : ℚ × ℚ × ℚ :=
  let c := min (((a + b) / 2 - m) / 3) 0
  (a - c, b - c, m + 2 * c)
theorem triDown_lands (a b m : ℚ) :
    (triDown a b m).2.2 ≤ ((triDown a b m).1 + (triDown a b m).2.1) / 2 := by
  simp only [triDown, min_def]; split_ifs <;> linarith
theorem triDown_fix (a b m : ℚ) (h : m ≤ (a + b) / 2) : triDown a b m = (a, b, m) := by
  have : min (((a + b) / 2 - m) / 3) 0 = 0 := min_eq_right (by linarith)
  simp [triDown, this]
theorem triDown_vi (a b m y1 y2 y3 : ℚ) (hy : y3 ≤ (y1 + y2) / 2) :
    (a - (triDown a b m).1) * (y1 - (triDown a b m).1) + (b - (triDown a b m).2.1) * (y2 - (triDown a b m).2.1)
      + (m - (triDown a b m).2.2) * (y3 - (triDown a b m).2.2) ≤ 0 := by
  simp only [triDown, min_def]
  split_ifs with h
  · nlinarith [mul_nonneg (show (0:ℚ) ≤ -(((a + b) / 2 - m) / 3) by linarith)
      (show (0:ℚ) ≤ (y1 + y2) / 2 - y3 by linarith)]
  · nlinarith

/-- range-dominance quadruple (interior vertex): dominant range `(d0, d1)` must be at least the
weak range `(k0, k1)`: `(k1 − k0) − (d1 − d0) ≤ 0` -/
def quadProj (k0 k1 d0 d1 : ℚ) : ℚ × ℚ × ℚ × ℚ :=
  let c := max (((k1 - k0) - (d1 - d0)) / 4) 0
  (k0 + c, k1 - c, d0 - c, d1 + c)
theorem quadProj_lands (k0 k1 d0 d1 : ℚ) :
    ((quadProj k0 k1 d0 d1).2.1 - (quadProj k0 k1 d0 d1).1)
      - ((quadProj k0 k1 d0 d1).2.2.2 - (quadProj k0 k1 d0 d1).2.2.1) ≤ 0 := by
  simp only [quadProj, max_def]; split_ifs <;> linarith
theorem quadProj_vi (k0 k1 d0 d1 y1 y2 y3 y4 : ℚ) (hy : (y2 - y1) - (y4 - y3) ≤ 0) :
    (k0 - (quadProj k0 k1 d0 d1).1) * (y1 - (quadProj k0 k1 d0 d1).1)
      + (k1 - (quadProj k0 k1 d0 d1).2.1) * (y2 - (quadProj k0 k1 d0 d1).2.1)
      + (d0 - (quadProj k0 k1 d0 d1).2.2.1) * (y3 - (quadProj k0 k1 d0 d1).2.2.1)
      + (d1 - (quadProj k0 k1 d0 d1).2.2.2) * (y4 - (quadProj k0 k1 d0 d1).2.2.2) ≤ 0 := by
  simp only [quadProj, max_def]
  split_ifs with h
  · nlinarith
  · nlinarith [mul_nonneg (show (0:ℚ) ≤ ((k1 - k0) - (d1 - d0)) / 4 from le_of_lt (not_le.mp h))
      (show (0:ℚ) ≤ -((y2 - y1) - (y4 - y3)) by linarith)]

/-- range-dominance corner: the shared corner `z` stays, `(k − z) − (d − z) ≤ 0` i.e. `k ≤ d` -/
def cornerProj (k d : ℚ) : ℚ × ℚ :=
  let c := max ((k - d) / 2) 0
  (k - c, d + c)
theorem cornerProj_lands (k d : ℚ) : (cornerProj k d).1 ≤ (cornerProj k d).2 := by
  simp only [cornerProj, max_def]; split_ifs <;> linarith
theorem cornerProj_vi (k d y1 y2 : ℚ) (hy : y1 ≤ y2) :
    (k - (cornerProj k d).1) * (y1 - (cornerProj k d).1) + (d - (cornerProj k d).2) * (y2 - (cornerProj k d).2) ≤ 0 := by
  simp only [cornerProj, max_def]
  split_ifs with h
  · nlinarith
  · nlinarith [mul_nonneg (show (0:ℚ) ≤ (k - d) / 2 from le_of_lt (not_le.mp h)) (show (0:ℚ) ≤ y2 - y1 by linarith)]

/-! ### tie between the tensor-level group maps and the stencil maps -/

/-- `monoGroup` acts on each pair `(k, k+1)` of its group exactly as `pairProj` -/
theorem monoGroup_pair (size : Nat) (d g : Nat) (w : W) (idx : Idx) (hd : d < idx.length)
    (hg : inGroup g size (coord idx d) = true) :
    let nxt := setc idx d (coord idx d + 1)
    (monoGroup size true 0 d g w idx, monoGroup size true 0 d g w nxt) = pairProj (w idx) (w nxt) := by
  intro nxt
  have hk : coord nxt d = coord idx d + 1 := coord_setc_same _ hd
  have hng : inGroup g size (coord idx d + 1) = false := by
    simp only [inGroup, Bool.and_eq_true, decide_eq_true_eq, beq_iff_eq] at hg
    simp only [inGroup, Bool.and_eq_false_iff, decide_eq_false_iff_not, beq_eq_false_iff_ne]
    omega
  have hback : setc nxt d (coord nxt d - 1) = idx := by
    rw [hk]; simp only [nxt, setc_setc_same, Nat.add_sub_cancel]; exact setc_coord_self hd
  have hback' : setc nxt d (coord idx d) = idx := by
    simp only [nxt, setc_setc_same]; exact setc_coord_self hd
  simp only [monoGroup, hg, if_true, pairKind, hk, hng, Bool.false_eq_true, if_false,
    Nat.add_sub_cancel, pairProj]
  simp only [show (1 : Nat) ≤ coord idx d + 1 by omega, hg, true_and, if_true, hback']
  rfl

/-- a kernel monotone along `d` is fixed by both monotonicity groups of that dimension -/
theorem monoGroup_fix (sizes : List Nat) (d g : Nat) (hd : d < sizes.length) (w : W)
    (hw : MonoAx sizes d w) : AgreeOn sizes (monoGroup (sizes.getD d 0) true 0 d g w) w := by
  intro idx hr
  have hl : d < idx.length := by rw [hr.1]; exact hd
  simp only [monoGroup, pairKind, if_true]
  split
  · rename_i hg
    have : coord idx d + 1 < sizes.getD d 0 := by
      simp only [inGroup, Bool.and_eq_true, decide_eq_true_eq] at hg; exact hg.1.2
    have := hw idx hr hd this
    exact min_eq_left (by linarith)
  · split
    · rename_i _ hg
      have h1 : 1 ≤ coord idx d := hg.1
      have hin : InRange sizes (setc idx d (coord idx d - 1)) :=
        inRange_setc hr (by have := hr.2 d hd; omega)
      have := hw _ hin hd (by rw [coord_setc_same _ hl]; have := hr.2 d hd; omega)
      rw [coord_setc_same _ hl, setc_setc_same, show coord idx d - 1 + 1 = coord idx d by omega,
        setc_coord_self hl] at this
      exact max_eq_left (by linarith)
    · rfl

/-! ### non-vacuity -/
example : pairProj 3 1 = (2, 2) := by decide +kernel
example : sqProj 0 0 4 0 = (1, -1, 3, 1) := by decide +kernel
example : (dykstraIter [fun w => w] 5 ((fun _ => 7), [fun _ => 0])).1 [] = 7 := by
  rw [show ([fun _ => (0 : ℚ)] : List W) = [fun w : W => w].map (fun _ => fun _ => 0) from rfl,
    dykstra_fixpoint _ _ (by simp)]

end Tfl.C08
